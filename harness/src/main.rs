mod exec;
mod proto;
mod script;

use std::io::{self, BufRead, BufWriter, Write};

fn main() {
    std::panic::set_hook(Box::new(|_| {}));
    let args: Vec<String> = std::env::args().collect();
    let mode = args.get(1).map(|s| s.as_str()).unwrap_or("exec");
    match mode {
        "exec" => {
            let langs = exec::Langs::new();
            let stdin = io::stdin();
            let stdout = io::stdout();
            let mut out = BufWriter::new(stdout.lock());
            for line in stdin.lock().lines() {
                let line = line.unwrap();
                writeln!(out, "{}", exec::exec(&langs, &line)).unwrap();
            }
            out.flush().unwrap();
        }
        "cc-dump" => {
            // table of the `char` facts the crate takes from std, for the Lean driver
            let mut out = BufWriter::new(io::stdout().lock());
            let classes: [(&str, fn(char) -> bool); 3] = [
                ("W", |c| c.is_whitespace()),
                ("A", |c| c.is_alphabetic()),
                ("N", |c| c.is_alphanumeric()),
            ];
            for (tag, f) in classes.iter() {
                let mut start: Option<u32> = None;
                for cp in 0..=0x110000u32 {
                    let inside = char::from_u32(cp).map(|c| f(c)).unwrap_or(false);
                    match (inside, start) {
                        (true, None) => start = Some(cp),
                        (false, Some(s)) => {
                            writeln!(out, "{} {} {}", tag, s, cp - 1).unwrap();
                            start = None;
                        }
                        _ => {}
                    }
                }
            }
            for cp in 0..0x110000u32 {
                if let Some(c) = char::from_u32(cp) {
                    let l: Vec<char> = c.to_lowercase().collect();
                    if l != vec![c] {
                        let v: Vec<String> = l.iter().map(|x| (*x as u32).to_string()).collect();
                        writeln!(out, "L {} {}", cp, v.join(" ")).unwrap();
                    }
                }
            }
            out.flush().unwrap();
        }
        _ => {
            eprintln!("unknown mode {}", mode);
            std::process::exit(2);
        }
    }
}
