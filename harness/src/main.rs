mod exec;
mod proto;
mod script;

use std::io::{self, BufRead, BufWriter, Write};

fn main() {
    std::panic::set_hook(Box::new(|_| {}));
    let args: Vec<String> = std::env::args().collect();
    let mode = args.get(1).map(|s| s.as_str()).unwrap_or("exec");
    match mode {
        "exec" => {
            let langs = exec::Langs::new();
            let stdin = io::stdin();
            let stdout = io::stdout();
            let mut out = BufWriter::new(stdout.lock());
            for line in stdin.lock().lines() {
                let line = line.unwrap();
                writeln!(out, "{}", exec::exec(&langs, &line)).unwrap();
            }
            out.flush().unwrap();
        }
        _ => {
            eprintln!("unknown mode {}", mode);
            std::process::exit(2);
        }
    }
}
