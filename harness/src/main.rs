mod exec;
mod proto;
mod script;

use std::io::{self, BufRead, BufWriter, Write};

fn main() {
    std::panic::set_hook(Box::new(|_| {}));
    let args: Vec<String> = std::env::args().collect();
    let mode = args.get(1).map(|s| s.as_str()).unwrap_or("exec");
    match mode {
        "exec" => {
            let langs = exec::Langs::new();
            let stdin = io::stdin();
            let stdout = io::stdout();
            let mut out = BufWriter::new(stdout.lock());
            for line in stdin.lock().lines() {
                let line = line.unwrap();
                writeln!(out, "{}", exec::exec(&langs, &line)).unwrap();
            }
            out.flush().unwrap();
        }
        "quiet" => {
            // execute every request of the file, print nothing: whatever appears on fd 1 / fd 2 comes from the library
            let langs = exec::Langs::new();
            let content = std::fs::read_to_string(&args[2]).unwrap();
            let mut sink = 0usize;
            for line in content.lines() {
                sink += exec::exec(&langs, line).len();
            }
            std::hint::black_box(sink);
        }
        "threads" => {
            // one shared set of interpreters, N threads, every answer compared with the answer of a fresh interpreter
            fn assert_send_sync<T: Send + Sync>() {}
            assert_send_sync::<text2num::Language>();
            assert_send_sync::<text2num::lang::English>();
            assert_send_sync::<text2num::lang::French>();
            assert_send_sync::<text2num::lang::Spanish>();
            assert_send_sync::<text2num::lang::Portuguese>();
            assert_send_sync::<text2num::lang::Italian>();
            assert_send_sync::<text2num::lang::German>();
            assert_send_sync::<text2num::lang::Dutch>();
            let content = std::fs::read_to_string(&args[2]).unwrap();
            let nthreads: usize = args[3].parse().unwrap();
            let rounds: usize = args[4].parse().unwrap();
            let seed: u64 = args[5].parse().unwrap();
            let reqs: Vec<String> = content.lines().map(|l| l.to_string()).collect();
            // expected: each request on its own fresh interpreters, created on a FRESH THREAD with the request's
            // own language constructed first (minimal history: nothing was created or called before it on that
            // thread, so per-thread or construction-order state cannot leak into the reference)
            fn lang_of(r: &str) -> String {
                let f = r.split('\t').nth(1).unwrap_or("");
                f.trim_start_matches("L:").trim_start_matches("G:").to_string()
            }
            let mut expected: Vec<String> = Vec::with_capacity(reqs.len());
            for chunk in reqs.chunks(64) {
                let hs: Vec<_> = chunk
                    .iter()
                    .map(|r| {
                        let r = r.clone();
                        std::thread::spawn(move || {
                            let l = lang_of(&r);
                            let fresh = exec::Langs::new_ordered(&[l.as_str()]);
                            exec::exec(&fresh, &r)
                        })
                    })
                    .collect();
                for h in hs {
                    expected.push(h.join().unwrap());
                }
            }
            // the shared set is constructed in a seed-dependent order
            let mut order: Vec<&str> = exec::CODES.to_vec();
            order.rotate_left((seed % 7) as usize);
            if seed % 2 == 0 {
                order.reverse();
            }
            let shared = std::sync::Arc::new(exec::Langs::new_ordered(&order));
            let reqs = std::sync::Arc::new(reqs);
            let expected = std::sync::Arc::new(expected);
            // history dependence on a single thread first: the whole list, in order, on the shared interpreters
            let mut mism: Vec<(usize, String)> = Vec::new();
            for (i, r) in reqs.iter().enumerate() {
                let got = exec::exec(&shared, r);
                if got != expected[i] {
                    mism.push((i, got));
                }
            }
            let mut handles = Vec::new();
            for t in 0..nthreads {
                let shared = shared.clone();
                let reqs = reqs.clone();
                let expected = expected.clone();
                handles.push(std::thread::spawn(move || {
                    let mut st = seed.wrapping_add(0x9E3779B97F4A7C15u64.wrapping_mul(t as u64 + 1));
                    let mut bad: Vec<(usize, String)> = Vec::new();
                    let mut calls = 0usize;
                    for _ in 0..rounds {
                        for _ in 0..reqs.len() {
                            st = st.wrapping_add(0x9E3779B97F4A7C15);
                            let mut z = st;
                            z = (z ^ (z >> 30)).wrapping_mul(0xBF58476D1CE4E5B9);
                            z = (z ^ (z >> 27)).wrapping_mul(0x94D049BB133111EB);
                            z ^= z >> 31;
                            let i = (z % reqs.len() as u64) as usize;
                            let got = exec::exec(&shared, &reqs[i]);
                            calls += 1;
                            if got != expected[i] && bad.len() < 20 {
                                bad.push((i, got));
                            }
                        }
                    }
                    (calls, bad)
                }));
            }
            let mut total = reqs.len();
            for h in handles {
                let (calls, bad) = h.join().unwrap();
                total += calls;
                mism.extend(bad);
            }
            println!("calls={} mismatches={}", total, mism.len());
            for (i, got) in mism.iter().take(20) {
                println!("MISMATCH\t{}\t{}\t{}", reqs[*i], got, expected[*i]);
            }
        }
        "cc-dump" => {
            // table of the `char` facts the crate takes from std, for the Lean driver
            let mut out = BufWriter::new(io::stdout().lock());
            let classes: [(&str, fn(char) -> bool); 3] = [
                ("W", |c| c.is_whitespace()),
                ("A", |c| c.is_alphabetic()),
                ("N", |c| c.is_alphanumeric()),
            ];
            for (tag, f) in classes.iter() {
                let mut start: Option<u32> = None;
                for cp in 0..=0x110000u32 {
                    let inside = char::from_u32(cp).map(|c| f(c)).unwrap_or(false);
                    match (inside, start) {
                        (true, None) => start = Some(cp),
                        (false, Some(s)) => {
                            writeln!(out, "{} {} {}", tag, s, cp - 1).unwrap();
                            start = None;
                        }
                        _ => {}
                    }
                }
            }
            for cp in 0..0x110000u32 {
                if let Some(c) = char::from_u32(cp) {
                    let l: Vec<char> = c.to_lowercase().collect();
                    if l != vec![c] {
                        let v: Vec<String> = l.iter().map(|x| (*x as u32).to_string()).collect();
                        writeln!(out, "L {} {}", cp, v.join(" ")).unwrap();
                    }
                }
            }
            out.flush().unwrap();
        }
        _ => {
            eprintln!("unknown mode {}", mode);
            std::process::exit(2);
        }
    }
}
