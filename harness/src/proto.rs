//! Line protocol shared with the Lean driver (DESIGN.md §2.5).
use text2num::lang::MorphologicalMarker;

pub fn escape(s: &str) -> String {
    let mut out = String::with_capacity(s.len());
    for &b in s.as_bytes() {
        if b.is_ascii_alphanumeric() || b == b'-' || b == b'\'' || b == b'.' || b == b'_' {
            out.push(b as char);
        } else {
            out.push_str(&format!("%{:02X}", b));
        }
    }
    out
}

fn hv(c: u8) -> u8 {
    match c {
        b'0'..=b'9' => c - b'0',
        b'A'..=b'F' => c - b'A' + 10,
        b'a'..=b'f' => c - b'a' + 10,
        _ => 0,
    }
}

pub fn unescape(s: &str) -> String {
    let b = s.as_bytes();
    let mut out = Vec::with_capacity(b.len());
    let mut i = 0;
    while i < b.len() {
        if b[i] == b'%' && i + 2 < b.len() {
            out.push(hv(b[i + 1]) * 16 + hv(b[i + 2]));
            i += 3;
        } else {
            out.push(b[i]);
            i += 1;
        }
    }
    String::from_utf8(out).unwrap_or_else(|_| "\u{fffd}".to_string())
}

pub const MARKERS: [&str; 20] = [
    "th", "ths", "st", "nd", "rd", "rds", "ème", "èmes", "er", "ers", "ère", "ères", "º", "ª",
    "ᵒˢ", "ᵃˢ", ".ᵉʳ", ".", "e", "avo",
];

fn static_marker(s: &str) -> Option<&'static str> {
    MARKERS.iter().copied().find(|m| *m == s)
}

pub fn parse_marker(s: &str) -> MorphologicalMarker {
    if s == "-" {
        MorphologicalMarker::None
    } else if let Some(rest) = s.strip_prefix("O:") {
        match static_marker(&unescape(rest)) {
            Some(m) => MorphologicalMarker::Ordinal(m),
            None => MorphologicalMarker::None,
        }
    } else if let Some(rest) = s.strip_prefix("F:") {
        match static_marker(&unescape(rest)) {
            Some(m) => MorphologicalMarker::Fraction(m),
            None => MorphologicalMarker::None,
        }
    } else {
        MorphologicalMarker::None
    }
}

pub fn show_marker(m: &MorphologicalMarker) -> String {
    match m {
        MorphologicalMarker::None => "-".to_string(),
        MorphologicalMarker::Ordinal(s) => format!("O:{}", escape(s)),
        MorphologicalMarker::Fraction(s) => format!("F:{}", escape(s)),
    }
}
