//! A scripted `LangInterpreter`: words are opcodes. It lets the harness drive the *generic*
//! scanner / tracker / iterator / replace code of `word_to_digit.rs` independently of any vocabulary.
//! The Lean model contains the same language (`T2N.Model.Script`).
use text2num::digit_string::DigitString;
use text2num::error::Error;
use text2num::lang::{LangInterpreter, MorphologicalMarker};

pub struct Script;

impl LangInterpreter for Script {
    fn apply(&self, w: &str, b: &mut DigitString) -> Result<(), Error> {
        let bytes = w.as_bytes();
        match bytes {
            [b'z'] => b.put(b"0"),
            [b'd', k @ b'1'..=b'9'] => b.put(&[*k]),
            [b't', k @ b'1'..=b'9'] => b.put(&[*k, b'0']),
            [b'o', k @ b'1'..=b'9'] => {
                let r = b.put(&[*k]);
                if r.is_ok() {
                    b.marker = MorphologicalMarker::Ordinal("th");
                    b.freeze();
                }
                r
            }
            // a digit that freezes the number WITHOUT a marker (like German `eins`): the separator word is still accepted
            [b'e', k @ b'1'..=b'9'] => {
                let r = b.put(&[*k]);
                if r.is_ok() {
                    b.freeze();
                }
                r
            }
            [b'h'] => b.shift(2),
            b"and" if !b.is_empty() => Err(Error::Incomplete),
            // an unguarded conjunction that is not a linking word (like German `und`, Dutch `en`)
            b"cj" => Err(Error::Incomplete),
            _ => Err(Error::NaN),
        }
    }
    fn apply_decimal(&self, w: &str, b: &mut DigitString) -> Result<(), Error> {
        match w.as_bytes() {
            [b'z'] => b.push(b"0"),
            [b'd', k @ b'1'..=b'9'] => b.push(&[*k]),
            _ => Err(Error::NaN),
        }
    }
    fn get_morph_marker(&self, _w: &str) -> MorphologicalMarker {
        MorphologicalMarker::None
    }
    fn is_decimal_sep(&self, w: &str) -> bool {
        w == "pt"
    }
    fn format_and_value(&self, b: &DigitString) -> (String, f64) {
        let repr = b.to_string();
        let val: f64 = repr.parse().unwrap();
        if let MorphologicalMarker::Ordinal(m) = b.marker {
            (format!("{}{}", repr, m), val)
        } else {
            (repr, val)
        }
    }
    fn format_decimal_and_value(&self, i: &DigitString, d: &DigitString) -> (String, f64) {
        let s = format!("{}.{}", i.to_string(), d.to_string());
        let v = s.parse().unwrap();
        (s, v)
    }
    fn is_linking(&self, w: &str) -> bool {
        w == "lk" || w == "and"
    }
}
