//! Executes one request line on the real crate and renders the canonical answer.
use crate::proto::*;
use crate::script::Script;
use std::cell::Cell;
use std::panic::{catch_unwind, AssertUnwindSafe};
use std::rc::Rc;
use text2num::digit_string::DigitString;
use text2num::error::Error;
use text2num::lang::*;
#[cfg(text2num_verif)]
use text2num::verif_hooks::{tokenize, BasicToken};
use text2num::*;

pub struct Langs {
    pub en: English,
    pub fr: French,
    pub es: Spanish,
    pub pt: Portuguese,
    pub it: Italian,
    pub de: German,
    pub nl: Dutch,
    pub fac: Vec<(&'static str, Language)>,
    pub script: Script,
}

pub const CODES: [&str; 7] = ["en", "fr", "es", "pt", "it", "de", "nl"];

impl Langs {
    /// Same set of interpreters, but constructed in the given order (codes not named come last, in the
    /// default order). Construction order must not matter (C14); the `threads` mode varies it.
    pub fn new_ordered(first: &[&str]) -> Self {
        let mut order: Vec<&str> = first.iter().copied().filter(|c| CODES.contains(c)).collect();
        for c in CODES.iter() {
            if !order.contains(c) {
                order.push(c);
            }
        }
        let (mut en, mut fr, mut es, mut pt, mut it, mut de, mut nl) = (None, None, None, None, None, None, None);
        let mut fac: Vec<(&'static str, Language)> = Vec::new();
        for c in order {
            match c {
                "en" => { en = Some(English::new()); fac.push(("en", Language::english())); }
                "fr" => { fr = Some(French::new()); fac.push(("fr", Language::french())); }
                "es" => { es = Some(Spanish::new()); fac.push(("es", Language::spanish())); }
                "pt" => { pt = Some(Portuguese::new()); fac.push(("pt", Language::portuguese())); }
                "it" => { it = Some(Italian::new()); fac.push(("it", Language::italian())); }
                "de" => { de = Some(German::new()); fac.push(("de", Language::german())); }
                _ => { nl = Some(Dutch::new()); fac.push(("nl", Language::dutch())); }
            }
        }
        Langs {
            en: en.unwrap(), fr: fr.unwrap(), es: es.unwrap(), pt: pt.unwrap(), it: it.unwrap(), de: de.unwrap(), nl: nl.unwrap(),
            fac,
            script: Script,
        }
    }

    pub fn new() -> Self {
        Langs {
            en: English::new(),
            fr: French::new(),
            es: Spanish::new(),
            pt: Portuguese::new(),
            it: Italian::new(),
            de: German::new(),
            nl: Dutch::new(),
            fac: vec![
                ("en", Language::english()),
                ("fr", Language::french()),
                ("es", Language::spanish()),
                ("pt", Language::portuguese()),
                ("it", Language::italian()),
                ("de", Language::german()),
                ("nl", Language::dutch()),
            ],
            script: Script,
        }
    }
}

/// Run `$body` with `$l` bound to the interpreter named by `$code`
/// (`en`.. concrete types, `L:en`.. the `Language` facade, `G:en`.. via `get_interpreter_for`, `script`).
#[macro_export]
macro_rules! with_lang {
    ($langs:expr, $code:expr, $l:ident, $body:expr) => {{
        let code: &str = $code;
        if let Some(c) = code.strip_prefix("L:") {
            match $langs.fac.iter().find(|(k, _)| *k == c) {
                Some((_, $l)) => Some($body),
                None => None,
            }
        } else if let Some(c) = code.strip_prefix("G:") {
            match text2num::get_interpreter_for(c) {
                Some(ref $l) => Some($body),
                None => None,
            }
        } else {
            match code {
                "en" => { let $l = &$langs.en; Some($body) }
                "fr" => { let $l = &$langs.fr; Some($body) }
                "es" => { let $l = &$langs.es; Some($body) }
                "pt" => { let $l = &$langs.pt; Some($body) }
                "it" => { let $l = &$langs.it; Some($body) }
                "de" => { let $l = &$langs.de; Some($body) }
                "nl" => { let $l = &$langs.nl; Some($body) }
                "script" => { let $l = &$langs.script; Some($body) }
                _ => None,
            }
        }
    }};
}

pub fn show_res(r: &Result<(), Error>) -> String {
    match r {
        Ok(()) => "OK".to_string(),
        Err(Error::Overlap) => "ERR:Overlap".to_string(),
        Err(Error::NaN) => "ERR:NaN".to_string(),
        Err(Error::Incomplete) => "ERR:Incomplete".to_string(),
        Err(Error::Frozen) => "ERR:Frozen".to_string(),
    }
}

/// frozen is private: observe it through `put` on a clone-free probe — `fput(b"")` is a no-op that
/// only reports `Frozen`.
fn is_frozen(b: &mut DigitString) -> bool {
    matches!(b.fput(b""), Err(Error::Frozen))
}

pub fn show_state(b: &mut DigitString) -> String {
    let full = b.to_string();
    let lz = b.len() - (**b).len();
    let buf = &full[lz..];
    let fr = is_frozen(b);
    format!(
        "{}|{}|{}|{}|{}",
        buf,
        lz,
        if fr { 1 } else { 0 },
        b.flags,
        show_marker(&b.marker)
    )
}

pub fn build_state(s: &str) -> DigitString {
    let parts: Vec<&str> = s.split('|').collect();
    let mut b = DigitString::new();
    if parts.len() != 5 {
        return b;
    }
    let lz: usize = parts[1].parse().unwrap_or(0);
    for _ in 0..lz {
        b.put(b"0").unwrap();
    }
    if !parts[0].is_empty() {
        b.fput(parts[0].as_bytes()).unwrap();
    }
    b.flags = parts[3].parse().unwrap_or(0);
    b.marker = parse_marker(parts[4]);
    if parts[2] == "1" {
        b.freeze();
    }
    b
}

fn bs(v: bool) -> &'static str {
    if v {
        "1"
    } else {
        "0"
    }
}

fn queries(b: &DigitString) -> String {
    // (the last arguments of each list are extreme: queries allocate nothing, so any usize is a legal argument)
    let peeks: Vec<String> = [0usize, 1, 2, 3, 6, usize::MAX]
        .iter()
        .map(|&k| String::from_utf8_lossy(b.peek(k)).to_string())
        .collect();
    let frees: String = [0usize, 1, 2, 3, 4, 6, usize::MAX]
        .iter()
        .map(|&k| match catch_unwind(AssertUnwindSafe(|| b.is_free(k))) {
            Ok(v) => bs(v),
            Err(_) => "P",
        })
        .collect();
    let rfs: String = [(0usize, 1usize), (1, 2), (3, 5), (6, 8), (2, 9), (2, 2), (3, 1), (0, usize::MAX), (1, usize::MAX), (usize::MAX - 1, usize::MAX), (5, 1usize << 40)]
        .iter()
        .map(|&(s, e)| match catch_unwind(AssertUnwindSafe(|| b.is_range_free(s, e))) {
            Ok(v) => bs(v),
            Err(_) => "P",
        })
        .collect();
    let pfs: String = [0usize, 1, 2, 3, 7, 1usize << 40, usize::MAX]
        .iter()
        .map(|&p| match catch_unwind(AssertUnwindSafe(|| b.is_position_free(p))) {
            Ok(v) => bs(v),
            Err(_) => "P",
        })
        .collect();
    format!(
        "{},{}{}{},{},{},{},{},{}",
        b.len(),
        bs(b.is_empty()),
        bs(b.is_null()),
        bs(b.is_ordinal()),
        peeks.join("/"),
        frees,
        rfs,
        pfs,
        b.to_string()
    )
}

fn run_ds(ops: &str) -> String {
    let mut b = DigitString::new();
    let mut outs: Vec<String> = Vec::new();
    outs.push(format!("INIT|{}|{}", show_state(&mut b), queries(&b)));
    for o in ops.split(' ').filter(|s| !s.is_empty()) {
        let parts: Vec<&str> = o.split(':').collect();
        let r: Option<Result<(), Error>> = match parts.as_slice() {
            ["put", ds] => Some(b.put(ds.as_bytes())),
            ["at", d, p] => Some(b.put_digit_at(d.as_bytes()[0], p.parse().unwrap())),
            ["sh", p] => Some(b.shift(p.parse().unwrap())),
            ["fput", ds] => Some(b.fput(ds.as_bytes())),
            ["push", ds] => Some(b.push(ds.as_bytes())),
            ["fr"] => {
                b.freeze();
                Some(Ok(()))
            }
            ["rs"] => {
                b.reset();
                Some(Ok(()))
            }
            ["setf", n] => {
                b.flags = n.parse().unwrap();
                Some(Ok(()))
            }
            ["setm", ..] => {
                b.marker = parse_marker(&parts[1..].join(":"));
                Some(Ok(()))
            }
            _ => None,
        };
        match r {
            Some(r) => outs.push(format!("{}|{}|{}", show_res(&r), show_state(&mut b), queries(&b))),
            None => outs.push("bad-op".to_string()),
        }
    }
    outs.join(";")
}

// ---------------------------------------------------------------------------------------------
// tokens for stream requests

#[derive(Debug, Clone)]
pub struct HTok {
    pub text: String,
    pub lower: String,
    pub nan: bool,
    pub start: u64,
    pub end: u64,
    pub idx: usize,
    pub children: Vec<usize>,
}

impl Token for &HTok {
    fn text(&self) -> &str {
        &self.text
    }
    fn text_lowercase(&self) -> &str {
        &self.lower
    }
    fn nt_separated(&self, previous: &Self) -> bool {
        self.start > previous.end + 100
    }
    fn not_a_number_part(&self) -> bool {
        self.nan
    }
}

thread_local! {
    /// how many of the replaced tokens the constructor below reads (a caller's `Replace` may read none, one -- e.g. to
    /// copy the start time of the first word -- or all of them)
    static CONSUME: Cell<usize> = Cell::new(usize::MAX);
}

impl Replace for HTok {
    fn replace<I: Iterator<Item = Self>>(replaced: I, data: String) -> Self {
        let replaced = replaced.take(CONSUME.with(|c| c.get()));
        HTok {
            lower: data.to_lowercase(),
            text: data,
            nan: false,
            start: 0,
            end: 0,
            idx: usize::MAX,
            children: replaced.map(|t| t.idx).collect(),
        }
    }
}

impl BasicAnnotate for HTok {
    fn text_lowercase(&self) -> &str {
        &self.lower
    }
    fn set_nan(&mut self, val: bool) {
        self.nan = val
    }
}

pub fn parse_tokens(s: &str) -> Vec<HTok> {
    s.split(' ')
        .filter(|t| !t.is_empty())
        .enumerate()
        .map(|(idx, t)| {
            let f: Vec<&str> = t.split(',').collect();
            HTok {
                text: unescape(f[0]),
                lower: unescape(f.get(1).copied().unwrap_or("")),
                nan: f.get(2).copied().unwrap_or("0") == "1",
                start: f.get(3).and_then(|x| x.parse().ok()).unwrap_or(0),
                end: f.get(4).and_then(|x| x.parse().ok()).unwrap_or(0),
                idx,
                children: vec![],
            }
        })
        .collect()
}

pub fn show_occ(o: &Occurence) -> String {
    format!(
        "{}-{}:{}:{}:{:016x}",
        o.start,
        o.end,
        escape(&o.text),
        bs(o.is_ordinal),
        o.value.to_bits()
    )
}

/// A token type that implements only the two mandatory methods of `Token`: the hint methods are the trait's defaults.
pub struct PlainTok<'a>(&'a HTok);
impl<'a> Token for PlainTok<'a> {
    fn text(&self) -> &str {
        &self.0.text
    }
    fn text_lowercase(&self) -> &str {
        &self.0.lower
    }
}

/// `find_numbers` / `find_numbers_iter` on tokens with the DEFAULT hint methods (answer: occurrences | iterator trace)
fn run_scan_plain<L: LangInterpreter>(l: &L, thr: f64, toks: &[HTok]) -> String {
    let occs = find_numbers(toks.iter().map(PlainTok), l, thr);
    let occs_s: Vec<String> = occs.iter().map(show_occ).collect();
    let it = find_numbers_iter(toks.iter().map(PlainTok), l, thr);
    let lazy: Vec<String> = it.map(|o| show_occ(&o)).collect();
    format!("{}|{}|{}", occs_s.join(","), lazy.join(","), bs(DigitString::default().to_string() == DigitString::new().to_string() && DigitString::default().is_empty()))
}

fn run_scan<L: LangInterpreter>(l: &L, thr: f64, toks: &[HTok]) -> String {
    CONSUME.with(|c| c.set(usize::MAX));
    // batch
    let occs = find_numbers(toks.iter(), l, thr);
    let occs_s: Vec<String> = occs.iter().map(show_occ).collect();
    // lazy iterator with a counting input
    let consumed = Rc::new(Cell::new(0usize));
    let c2 = consumed.clone();
    let input = toks.iter().inspect(move |_| c2.set(c2.get() + 1));
    let mut it = find_numbers_iter(input, l, thr);
    let mut trace: Vec<String> = vec![format!("@{}", consumed.get())];
    let mut nones = 0;
    let mut guard = 0;
    while nones < 3 && guard < toks.len() + 8 {
        guard += 1;
        match it.next() {
            Some(o) => trace.push(format!("{}@{}", show_occ(&o), consumed.get())),
            None => {
                nones += 1;
                trace.push(format!("N@{}", consumed.get()));
            }
        }
    }
    // replace with a recording Replace impl
    let out = replace_numbers_in_stream(toks.to_vec(), l, thr);
    let repl: Vec<String> = out
        .iter()
        .map(|t| {
            if t.idx == usize::MAX {
                let ch: Vec<String> = t.children.iter().map(|c| c.to_string()).collect();
                format!("R{}[{}]", escape(&t.text), ch.join("."))
            } else {
                format!("K{}", t.idx)
            }
        })
        .collect();
    // the same with constructors that read none / only the first of the replaced tokens: the resulting stream must not
    // depend on how much of its iterator the constructor consumes (reported only when it does)
    let shape = |v: &Vec<HTok>| -> String {
        v.iter()
            .map(|t| if t.idx == usize::MAX { format!("R{}", escape(&t.text)) } else { format!("K{}", t.idx) })
            .collect::<Vec<String>>()
            .join(",")
    };
    let full_shape = shape(&out);
    let mut extra = String::new();
    for k in [0usize, 1] {
        CONSUME.with(|c| c.set(k));
        let o2 = replace_numbers_in_stream(toks.to_vec(), l, thr);
        CONSUME.with(|c| c.set(usize::MAX));
        if shape(&o2) != full_shape {
            extra = format!("|PARTIAL{}:{}", k, shape(&o2));
            break;
        }
    }
    format!("{}|{}|{}{}", occs_s.join(","), trace.join(","), repl.join(","), extra)
}

fn parse_thr(s: &str) -> f64 {
    f64::from_bits(u64::from_str_radix(s, 16).unwrap_or(0))
}

fn lookup_sig(l: &Language) -> String {
    let words = [
        ("en", "seven"),
        ("fr", "sept"),
        ("es", "siete"),
        ("pt", "sete"),
        ("it", "sette"),
        ("de", "sieben"),
        ("nl", "zeven"),
    ];
    let hits: Vec<&str> = words
        .iter()
        .filter(|(_, w)| text2digits(w, l).is_ok())
        .map(|(c, _)| *c)
        .collect();
    hits.join("+")
}

pub fn exec(langs: &Langs, line: &str) -> String {
    let f: Vec<&str> = line.split('\t').collect();
    let r = catch_unwind(AssertUnwindSafe(|| -> String {
        match f.as_slice() {
            ["ds", ops] => run_ds(ops),
            ["apply", lc, w, st] => with_lang!(langs, lc, l, {
                let mut b = build_state(st);
                let r = l.apply(&unescape(w), &mut b);
                format!("{}|{}", show_res(&r), show_state(&mut b))
            })
            .unwrap_or("no-lang".into()),
            ["applydec", lc, w, st] => with_lang!(langs, lc, l, {
                let mut b = build_state(st);
                let r = l.apply_decimal(&unescape(w), &mut b);
                format!("{}|{}", show_res(&r), show_state(&mut b))
            })
            .unwrap_or("no-lang".into()),
            ["morph", lc, w] => with_lang!(langs, lc, l, show_marker(&l.get_morph_marker(&unescape(w))))
                .unwrap_or("no-lang".into()),
            ["sep", lc, w] => with_lang!(langs, lc, l, bs(l.is_decimal_sep(&unescape(w))).to_string())
                .unwrap_or("no-lang".into()),
            ["link", lc, w] => with_lang!(langs, lc, l, bs(l.is_linking(&unescape(w))).to_string())
                .unwrap_or("no-lang".into()),
            ["fmt", lc, st] => with_lang!(langs, lc, l, {
                let b = build_state(st);
                let (t, v) = l.format_and_value(&b);
                format!("{}|{:016x}", escape(&t), v.to_bits())
            })
            .unwrap_or("no-lang".into()),
            ["fmtdec", lc, st1, st2] => with_lang!(langs, lc, l, {
                let b1 = build_state(st1);
                let b2 = build_state(st2);
                let (t, v) = l.format_decimal_and_value(&b1, &b2);
                format!("{}|{:016x}", escape(&t), v.to_bits())
            })
            .unwrap_or("no-lang".into()),
            ["val", lc, phrase] => with_lang!(langs, lc, l, {
                match text2digits(&unescape(phrase), l) {
                    Ok(s) => format!("OK:{}", escape(&s)),
                    Err(e) => show_res(&Err(e)),
                }
            })
            .unwrap_or("no-lang".into()),
            ["text", lc, thr, text] => with_lang!(langs, lc, l, {
                escape(&replace_numbers_in_text(&unescape(text), l, parse_thr(thr)))
            })
            .unwrap_or("no-lang".into()),
            ["scanp", lc, thr, toks] => with_lang!(langs, lc, l, {
                run_scan_plain(l, parse_thr(thr), &parse_tokens(toks))
            })
            .unwrap_or("no-lang".into()),
            ["scan", lc, thr, toks] => with_lang!(langs, lc, l, {
                run_scan(l, parse_thr(thr), &parse_tokens(toks))
            })
            .unwrap_or("no-lang".into()),
            // the build without `--cfg text2num_verif` (exactly what a user compiles) has no tokenizer hook
            #[cfg(not(text2num_verif))]
            ["occ", _, _, _] | ["tok", _] => "NOHOOK".into(),
            #[cfg(text2num_verif)]
            ["occ", lc, thr, text] => with_lang!(langs, lc, l, {
                // the pipeline of replace_numbers_in_text, stopped before the replacement
                let t = unescape(text);
                let mut tokens: Vec<BasicToken> = tokenize(&t).collect();
                l.basic_annotate(&mut tokens);
                let occs = find_numbers(tokens.iter(), l, parse_thr(thr));
                let os: Vec<String> = occs.iter().map(show_occ).collect();
                let ts: Vec<String> = tokens
                    .iter()
                    .map(|bt| format!("{}:{}", escape(&bt.text), bs(bt.nan)))
                    .collect();
                format!("{}|{}", os.join(","), ts.join(","))
            })
            .unwrap_or("no-lang".into()),
            #[cfg(text2num_verif)]
            ["tok", text] => {
                let t = unescape(text);
                let v: Vec<String> = tokenize(&t)
                    .map(|bt: BasicToken| format!("{}:{}", escape(&bt.text), escape(&bt.lowercase)))
                    .collect();
                v.join(",")
            }
            ["annot", lc, toks] => with_lang!(langs, lc, l, {
                let mut v = parse_tokens(toks);
                l.basic_annotate(&mut v);
                v.iter().map(|t| bs(t.nan)).collect::<String>()
            })
            .unwrap_or("no-lang".into()),
            ["lookup", code] => match get_interpreter_for(&unescape(code)) {
                Some(l) => format!("some:{}", lookup_sig(&l)),
                None => "none".to_string(),
            },
            _ => "bad-request".to_string(),
        }
    }));
    match r {
        Ok(s) => s,
        Err(_) => "PANIC".to_string(),
    }
}
