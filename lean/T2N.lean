import T2N.Model.Basic
import T2N.Model.DS
import T2N.Model.Lang
import T2N.Model.En
import T2N.Model.Langs
import T2N.Driver.Proto
import T2N.Driver.Exec
