import T2N.Driver.Exec

partial def loop (cc : T2N.CharClasses) (hin : IO.FS.Stream) (hout : IO.FS.Stream) : IO Unit := do
  let line ← hin.getLine
  if line.isEmpty then return ()
  let l := if line.endsWith "\n" then (line.dropEnd 1).toString else line
  hout.putStrLn (T2N.Exec.exec cc l)
  loop cc hin hout

/-- usage: `t2n-driver [--cc <table file>]` — one request per line on stdin, one answer per line on stdout -/
def main (args : List String) : IO Unit := do
  let table ← match args with
    | ["--cc", path] => do
        let content ← IO.FS.readFile path
        pure (T2N.CC.parseTable content)
    | _ => pure T2N.CC.asciiTable
  let hin ← IO.getStdin
  let hout ← IO.getStdout
  loop table.toCC hin hout
  hout.flush
