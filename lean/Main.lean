import T2N.Driver.Exec

partial def loop (hin : IO.FS.Stream) (hout : IO.FS.Stream) : IO Unit := do
  let line ← hin.getLine
  if line.isEmpty then return ()
  let l := if line.endsWith "\n" then (line.dropEnd 1).toString else line
  hout.putStrLn (T2N.Exec.exec l)
  loop hin hout

def main (_args : List String) : IO Unit := do
  let hin ← IO.getStdin
  let hout ← IO.getStdout
  loop hin hout
  hout.flush
