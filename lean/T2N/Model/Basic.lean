/-
  T2N.Model.Basic — shared vocabulary of the model.

  * words / texts are `List Char` (Lean `Char` = Unicode scalar value = Rust `char`);
  * decimal digits are `Nat`s (0..9); a buffer of digits is a `List Nat`;
  * `Err` mirrors `text2num::error::Error`; `Marker` mirrors `MorphologicalMarker`
    with the `&'static str` payload replaced by a finite enumeration of the
    strings that actually occur in the seven interpreters.

  Import-free on purpose (core Lean only) so that the driver links as a `lean_exe`.
-/
namespace T2N

abbrev Word := List Char

open Lean in
/-- `w!"abc"` elaborates to the explicit list literal `['a','b','c']`, which (unlike a `String`
literal) reduces in the kernel. -/
macro:max "w!" s:str : term => do
  let cs := s.getString.toList
  let elems ← cs.mapM fun c => `($(Syntax.mkCharLit c))
  `(([$elems.toArray,*] : List Char))

/-- `text2num::error::Error` -/
inductive Err where
  | overlap | nan | incomplete | frozen
  deriving DecidableEq, Repr, Inhabited

/-- Result of a builder / interpreter step: `none` = `Ok(())`, `some e` = `Err(e)`. -/
abbrev Res := Option Err

@[inline] def Res.isOk (r : Res) : Bool := r.isNone

def Err.toString : Err → String
  | .overlap => "Overlap" | .nan => "NaN" | .incomplete => "Incomplete" | .frozen => "Frozen"

/-- The marker strings (`&'static str`) that occur in the code base. -/
inductive Mk where
  | th | ths | st | nd | rd | rds                 -- en
  | eme | emes | er | ers | ere | eres            -- fr
  | mo | fa | mos | fas                           -- º ª ᵒˢ ᵃˢ  (es, pt, it)
  | esPrimer                                      -- ".ᵉʳ" (es)
  | dot                                           -- "." (de)
  | nlE                                           -- "e" (nl)
  | avo                                           -- "avo" (es fraction)
  deriving DecidableEq, Repr, Inhabited

def Mk.str : Mk → String
  | .th => "th" | .ths => "ths" | .st => "st" | .nd => "nd" | .rd => "rd" | .rds => "rds"
  | .eme => "ème" | .emes => "èmes" | .er => "er" | .ers => "ers" | .ere => "ère" | .eres => "ères"
  | .mo => "º" | .fa => "ª" | .mos => "ᵒˢ" | .fas => "ᵃˢ"
  | .esPrimer => ".ᵉʳ" | .dot => "." | .nlE => "e" | .avo => "avo"

/-- `MorphologicalMarker` -/
inductive Marker where
  | none
  | ordinal (m : Mk)
  | fraction (m : Mk)
  deriving DecidableEq, Repr, Inhabited

def Marker.isOrdinal : Marker → Bool
  | .ordinal _ => true | _ => false
def Marker.isFraction : Marker → Bool
  | .fraction _ => true | _ => false
def Marker.isNone : Marker → Bool
  | .none => true | _ => false

def Marker.repr : Marker → String
  | .none => "-"
  | .ordinal m => "O:" ++ m.str
  | .fraction m => "F:" ++ m.str

/-- Faults: the ways the Rust code can panic that the model tracks explicitly. -/
inductive Fault where
  | rangeAssert      -- `debug_assert!(start_position < end_position)` in `is_range_free`
  | parseEmpty       -- `"".parse::<f64>().unwrap()` in `format_and_value`
  | drainRange       -- `Vec::drain(start..end)` with `start > end` or `end > len`
  deriving DecidableEq, Repr, Inhabited

/-! ### small list helpers used throughout the model -/

def allZero (ds : List Nat) : Bool := ds.all (· == 0)

/-- Does `w` end with `suf`? (`str::ends_with`) -/
def endsWith (w suf : Word) : Bool := suf.isSuffixOf w

/-- `str::trim_end_matches(c)` for a set of characters given as a predicate. -/
def trimEndBy (p : Char → Bool) (w : Word) : Word :=
  (w.reverse.dropWhile p).reverse

/-- `str::trim_end_matches(pat)` for a (non-empty) string pattern: strip it repeatedly. -/
def trimEndStr (pat : Word) (w : Word) : Word :=
  if pat.isEmpty then w else
  let rp := pat.reverse
  let rec go (fuel : Nat) (r : Word) : Word :=
    match fuel with
    | 0 => r
    | fuel + 1 => if rp.isPrefixOf r then go fuel (r.drop rp.length) else r
  (go w.length w.reverse).reverse

/-- `str::trim_start_matches(pat)` -/
def trimStartStr (pat : Word) (w : Word) : Word :=
  if pat.isEmpty then w else
  let rec go (fuel : Nat) (r : Word) : Word :=
    match fuel with
    | 0 => r
    | fuel + 1 => if pat.isPrefixOf r then go fuel (r.drop pat.length) else r
  go w.length w

/-- Lexicographic `<` on digit slices, as Rust's `&[u8] < &[u8]` on ASCII digits. -/
def lexLt : List Nat → List Nat → Bool
  | [], [] => false
  | [], _ :: _ => true
  | _ :: _, [] => false
  | a :: as, b :: bs => if a < b then true else if b < a then false else lexLt as bs

def digitChar (d : Nat) : Char := Char.ofNat (48 + d)

def digitsToString (ds : List Nat) : String := String.ofList (ds.map digitChar)

end T2N
