/- T2N.Model.De — STUB (to be replaced by the model of src/lang/de/mod.rs) -/
import T2N.Model.Lang

namespace T2N.De

def lang : Lang where
  code := "de"
  apply := fun _ b => (some .nan, b)
  applyDecimal := fun _ b => (some .nan, b)
  morph := fun _ => .none
  isDecSep := fun _ => false
  decMark := ','
  isLinking := fun _ => false

end T2N.De
