/-
  T2N.Model.De — model of `src/lang/de/mod.rs` (struct `German`).
-/
import T2N.Model.Lang

namespace T2N.De

/-- `lemmatize`: remove the declension of ordinals. When the word ends with `tes`, `ter`, `ten` or
`tem`, ALL trailing characters of the set `{s, n, m, r}` are stripped
(`trim_end_matches(['s','n','m','r'])`); since the character before them is `e`, exactly one
character goes away. -/
def lemmatize (w : Word) : Word :=
  if endsWith w w!"tes" || endsWith w w!"ter" || endsWith w w!"ten" || endsWith w w!"tem" then
    trimEndBy (fun c => c == 's' || c == 'n' || c == 'm' || c == 'r') w
  else w

/-- The patterns of the `WordSplitter` (`impl Default for German`), same order. -/
def patterns : List Word := [
  w!"billion", w!"billionste",
  w!"milliarden", w!"milliarde", w!"milliardste",
  w!"millionen", w!"million", w!"millionste",
  w!"tausend", w!"tausendste",
  w!"hundert", w!"hundertste",
  w!"und"]

/-- units: `if b.is_free(2) => { to_block = Excludable::TENS; b.put(d) }` -/
def unit (d : Nat) : Act := .when (.free 2) (.block 1 (.put [d]))

/-- tens: `if !blocked.contains(Excludable::TENS) => b.put_digit_at(d, 1)` -/
def tens (d : Nat) : Act := .when (.neg (.flag 1)) (.putAt d 1)

def hundred : Act :=
  .ite (.or (.peekLen 2 1) (.peekLt 2 [2, 0])) (.shift 2) (.fail .overlap)

def thousand : Act := .when (.rangeFree 3 5) (.shift 3)

def million : Act := .when (.rangeFree 6 8) (.shift 6)

/-- lemma ↦ instruction (the `match lemma { … }` of `apply`). No lemma occurs in two arms, so a
failed guard falls through to `_ => Err(Error::NaN)`. -/
def vocab : List (Word × Act) := [
  (w!"null", .put [0]),
  (w!"ein", unit 1), (w!"eins", unit 1), (w!"erste", unit 1),
  (w!"zwei", unit 2), (w!"zwo", unit 2), (w!"zweite", unit 2),
  (w!"drei", unit 3), (w!"dritte", unit 3),
  (w!"vier", unit 4), (w!"vierte", unit 4),
  (w!"fünf", unit 5), (w!"fünfte", unit 5),
  (w!"sechs", unit 6), (w!"sechste", unit 6),
  (w!"sieben", unit 7), (w!"siebte", unit 7), (w!"siebente", unit 7),
  (w!"acht", unit 8), (w!"achte", unit 8),
  (w!"neun", unit 9), (w!"neunte", unit 9),
  (w!"zehn", .put [1,0]), (w!"zehnte", .put [1,0]),
  (w!"elf", .put [1,1]), (w!"elfte", .put [1,1]),
  (w!"zwölf", .put [1,2]), (w!"zwölfte", .put [1,2]),
  (w!"dreizehn", .put [1,3]), (w!"dreizehnte", .put [1,3]),
  (w!"vierzehn", .put [1,4]), (w!"vierzehnte", .put [1,4]),
  (w!"fünfzehn", .put [1,5]), (w!"fünfzehnte", .put [1,5]),
  (w!"sechzehn", .put [1,6]), (w!"sechzehnte", .put [1,6]),
  (w!"siebzehn", .put [1,7]), (w!"siebzehnte", .put [1,7]),
  (w!"achtzehn", .put [1,8]), (w!"achtzehnte", .put [1,8]),
  (w!"neunzehn", .put [1,9]), (w!"neunzehnte", .put [1,9]),
  (w!"zwanzig", tens 2), (w!"zwanzigste", tens 2),
  (w!"dreißig", tens 3), (w!"dreissig", tens 3), (w!"dreißigste", tens 3), (w!"dreissigste", tens 3),
  (w!"vierzig", tens 4), (w!"vierzigste", tens 4),
  (w!"fünfzig", tens 5), (w!"fünfzigste", tens 5),
  (w!"sechzig", tens 6), (w!"sechzigste", tens 6),
  (w!"siebzig", tens 7), (w!"siebzigste", tens 7),
  (w!"achtzig", tens 8), (w!"achtzigste", tens 8),
  (w!"neunzig", tens 9), (w!"neunzigste", tens 9),
  (w!"hundert", hundred), (w!"hundertste", hundred),
  (w!"tausend", thousand), (w!"tausendste", thousand),
  (w!"million", million), (w!"millionen", million), (w!"millionste", million),
  (w!"milliarde", .shift 9), (w!"milliarden", .shift 9), (w!"milliardste", .shift 9),
  (w!"billion", .shift 12), (w!"billionste", .shift 12),
  (w!"und", .fail .incomplete)
]

/-- `get_morph_marker` -/
def morph (w : Word) : Marker :=
  if endsWith w w!"te" then .ordinal .dot else .none

/-- `apply`. The fuel bounds the compound recursion `apply → exec_group → apply`: a piece produced
by the splitter is either a whole pattern or a gap that contains no pattern, and `lemmatize` only
removes characters at the end, so a piece is never splittable again and depth 2 is never exceeded
(`applyFuel 0` is unreachable). -/
def applyFuel : Nat → Word → DS → Res × DS
  | 0, _, b => (some .nan, b)
  | fuel + 1, w, b =>
    let lemma := lemmatize w
    if isSplittable patterns lemma then
      match execGroup (applyFuel fuel) (splitWord patterns lemma) with
      | .ok ds => mergeGroup b ds false ds.marker
      | .error e => (some e, b)
    else
      let act := (vocab.lookup lemma).getD (.fail .nan)
      let (r, b', toBlock) := act.exec b
      if r.isNone then
        let b' := { b' with flags := toBlock }
        let b' := if endsWith lemma w!"te" then { b' with marker := morph lemma, frozen := true } else b'
        let b' := if lemma == w!"eins" then b'.freeze else b'
        (r, b')
      else
        (r, { b' with flags := 0 })

def apply : Word → DS → Res × DS := applyFuel 2

/-- `apply_decimal`: digit by digit (no lemmatization; "ein", "zwo" are not accepted). -/
def decVocab : List (Word × Nat) := [
  (w!"null", 0), (w!"eins", 1), (w!"zwei", 2), (w!"drei", 3), (w!"vier", 4),
  (w!"fünf", 5), (w!"sechs", 6), (w!"sieben", 7), (w!"acht", 8), (w!"neun", 9)]

def applyDecimal (w : Word) (b : DS) : Res × DS :=
  match decVocab.lookup w with
  | some d => b.push [d]
  | none => (some .nan, b)

def insignificant : List Word := [
  w!"aber", w!"ah", w!"äh", w!"ähm", w!"also", w!"gut", w!"auch", w!"denn", w!"doch", w!"dort",
  w!"eben", w!"eh", w!"halt", w!"ja", w!"mal", w!"sehen", w!"naja", w!"nun", w!"ok", w!"schon",
  w!"so", w!"genau", w!"und", w!"noch"]

def lang : Lang where
  code := "de"
  apply := apply
  applyDecimal := applyDecimal
  morph := morph
  isDecSep := fun w => w == w!"komma"
  decMark := ','
  isLinking := fun w => insignificant.contains w

end T2N.De
