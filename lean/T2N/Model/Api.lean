/-
  T2N.Model.Api — the public entry points: `replace_numbers_in_text`, the `Language` facade and
  `get_interpreter_for`.
-/
import T2N.Model.Scanner
import T2N.Model.Tokenizer
import T2N.Model.Annotate
import T2N.Model.Langs

namespace T2N

/-- `enum Language` -/
inductive Language where
  | english | french | german | italian | spanish | dutch | portuguese
  deriving DecidableEq, Repr, Inhabited

/-- the concrete interpreter wrapped by each variant (`delegate!` forwards every trait method) -/
def Language.interp : Language → Lang
  | .english => En.lang
  | .french => Fr.lang
  | .german => De.lang
  | .italian => It.lang
  | .spanish => Es.lang
  | .dutch => Nl.lang
  | .portuguese => Pt.lang

def Language.iso : Language → Word
  | .english => w!"en" | .french => w!"fr" | .german => w!"de" | .italian => w!"it"
  | .spanish => w!"es" | .dutch => w!"nl" | .portuguese => w!"pt"

def allLanguages : List Language :=
  [.german, .english, .spanish, .french, .italian, .dutch, .portuguese]

/-- `get_interpreter_for` -/
def getInterpreterFor (code : Word) : Option Language :=
  allLanguages.find? (fun l => l.iso == code)

/-- `basic_annotate`: only English and French override the default no-op. -/
def Language.annotate (cc : CharClasses) : Language → List Tok → List Tok
  | .english => annotateEn cc En.lang.apply
  | .french => annotateFr cc Fr.lang.apply Fr.lang.isDecSep
  | _ => id

/-- `Replace for BasicToken` -/
def basicReplace (cc : CharClasses) (_replaced : List Tok) (data : Word) : Tok :=
  { text := data, lower := cc.lowerStr data }

/-- `replace_numbers_in_text`, generic in the annotation pass -/
def replaceTextWith (cfg : ScanCfg) (annot : List Tok → List Tok) (s : Word) : Except Fault Word :=
  let toks := annot (tokenize cfg.cc s)
  match findNumbers cfg toks with
  | .error f => .error f
  | .ok occs =>
    match replaceStream (basicReplace cfg.cc) toks occs with
    | .error f => .error f
    | .ok out => .ok (out.flatMap (·.text))

/-- the token type of `replace_numbers_in_text` never declares a separation -/
def noSep : Tok → Tok → Bool := fun _ _ => false

def replaceText (cc : CharClasses) (l : Language) (thrLt : Nat → Bool) (s : Word) : Except Fault Word :=
  replaceTextWith { lang := l.interp, cc := cc, sep := noSep, thrLt := thrLt } (l.annotate cc) s

end T2N
