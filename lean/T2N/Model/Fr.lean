/- T2N.Model.Fr — STUB (to be replaced by the model of src/lang/fr/mod.rs) -/
import T2N.Model.Lang

namespace T2N.Fr

def lang : Lang where
  code := "fr"
  apply := fun _ b => (some .nan, b)
  applyDecimal := fun _ b => (some .nan, b)
  morph := fun _ => .none
  isDecSep := fun _ => false
  decMark := ','
  isLinking := fun _ => false

end T2N.Fr
