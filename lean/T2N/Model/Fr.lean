/-
  T2N.Model.Fr — model of `src/lang/fr/mod.rs` (struct `French`).

  French is the only interpreter that uses `DigitString::flags`: a word can block the units
  "un" … "six" for the next word (`Excludable`, bits 1,2,4,8,16,32; `UN_SIX = 63`).
  `Excludable::from_bits_truncate(b.flags)` keeps the bits below 64; every mask tested below is
  contained in 63, so `Guard.flag m` (`flags &&& m == m`) is the same test.

  No lemma occurs in two arms of the `match`, hence an arm whose `if` guard fails falls through to
  `_ => Err(Error::NaN)` (`Act.when`).
-/
import T2N.Model.Lang

namespace T2N.Fr

/-- `lemmatize`: blind removal of the `s` ending (all of them: `trim_end_matches('s')`), except for "trois". -/
def lemmatize (w : Word) : Word :=
  if endsWith w w!"s" && w != w!"trois" then trimEndBy (· == 's') w else w

/-! `Excludable` -/
def UN : Nat := 1
def DEUX : Nat := 2
def TROIS : Nat := 4
def QUATRE : Nat := 8
def CINQ : Nat := 16
def SIX : Nat := 32
def UN_SIX : Nat := 63

/-- blockable units: `if !blocked.contains(m) => b.put(d)` -/
def unit (m d : Nat) : Act := .when (.neg (.flag m)) (.put [d])

/-- "dix": `to_block = UN_SIX` for every branch -/
def dix : Act :=
  .block UN_SIX
    (.ite (.peekEq 2 [6, 0]) (.fput [7, 0])
      (.ite (.peekEq 2 [8, 0]) (.fput [9, 0]) (.put [1, 0])))

/-- "onze" … "seize": `match b.peek(2) { b"60" => b.fput(7u), b"80" => b.fput(9u), _ => b.put(1u) }` -/
def teen (u : Nat) : Act :=
  .ite (.peekEq 2 [6, 0]) (.fput [7, u])
    (.ite (.peekEq 2 [8, 0]) (.fput [9, u]) (.put [1, u]))

/-- "vingt": the `quatre-vingt` branch does not set `to_block` -/
def vingt : Act :=
  .ite (.or (.peekEq 2 [0, 4]) (.peekEq 2 [4])) (.fput [8, 0]) (.block UN (.put [2, 0]))

/-- tens: `to_block = UN; b.put(d0)` -/
def ten (d : Nat) : Act := .block UN (.put [d, 0])

def cent : Act :=
  .ite (.and (.and (.or (.peekLen 2 1) (.peekLt 2 [2, 0])) (.neg (.peekEq 2 [1]))) (.neg (.peekEq 2 [0, 1])))
    (.shift 2) (.fail .overlap)

def mille : Act :=
  .when (.rangeFree 3 5) (.ite (.peekEq 2 [1]) (.fail .overlap) (.shift 3))

def million : Act := .when (.rangeFree 6 8) (.shift 6)

/-- "et" never follows "dix" (the `DEUX` bit is only ever set by "dix"). -/
def et : Act := .when (.and (.lenGe 2) (.neg (.flag DEUX))) (.fail .incomplete)

/-- lemma ↦ instruction (the `match lemmatize(num_func) { … }` of `apply`) -/
def vocab : List (Word × Act) := [
  (w!"zéro", .put [0]),
  (w!"un", unit UN 1), (w!"unième", unit UN 1),
  (w!"premier", .when .empty (.put [1])), (w!"première", .when .empty (.put [1])),
  (w!"deux", unit DEUX 2), (w!"deuxième", unit DEUX 2),
  (w!"trois", unit TROIS 3), (w!"troisième", unit TROIS 3),
  (w!"quatre", unit QUATRE 4), (w!"quatrième", unit QUATRE 4),
  (w!"cinq", unit CINQ 5), (w!"cinquième", unit CINQ 5),
  (w!"six", unit SIX 6), (w!"sixième", unit SIX 6),
  (w!"sept", .put [7]), (w!"septième", .put [7]),
  (w!"huit", .put [8]), (w!"huitième", .put [8]),
  (w!"neuf", .put [9]), (w!"neuvième", .put [9]),
  (w!"dix", dix), (w!"dixième", dix),
  (w!"onze", teen 1), (w!"onzième", teen 1),
  (w!"douze", teen 2), (w!"douzième", teen 2),
  (w!"treize", teen 3), (w!"treizième", teen 3),
  (w!"quatorze", teen 4), (w!"quatorzième", teen 4),
  (w!"quinze", teen 5), (w!"quinzième", teen 5),
  (w!"seize", teen 6), (w!"seizième", teen 6),
  (w!"vingt", vingt), (w!"vingtième", vingt),
  (w!"trente", ten 3), (w!"trentième", ten 3),
  (w!"quarante", ten 4), (w!"quarantième", ten 4),
  (w!"cinquante", ten 5), (w!"cinquantième", ten 5),
  (w!"soixante", ten 6), (w!"soixantième", ten 6),
  (w!"septante", ten 7), (w!"septantième", ten 7),
  (w!"huitante", ten 8), (w!"huitantième", ten 8),
  (w!"octante", ten 8), (w!"octantième", ten 8),
  (w!"nonante", ten 9), (w!"nonantième", ten 9),
  (w!"cent", cent), (w!"centième", cent),
  (w!"mille", mille), (w!"mil", mille), (w!"millième", mille),
  (w!"million", million), (w!"millionième", million),
  (w!"milliard", .shift 9), (w!"milliardième", .shift 9),
  (w!"et", et)
]

/-- `get_morph_marker` -/
def morph (w : Word) : Marker :=
  if endsWith w w!"ème" then .ordinal .eme
  else if endsWith w w!"èmes" then .ordinal .emes
  else if endsWith w w!"ier" then .ordinal .er
  else if endsWith w w!"iers" then .ordinal .ers
  else if endsWith w w!"ière" then .ordinal .ere
  else if endsWith w w!"ières" then .ordinal .eres
  else .none

/-- `apply`. The fuel bounds the compound recursion `apply → exec_group → apply`; a part of a
`-`-split never contains `-`, so depth 2 is never exceeded (`applyFuel 0` is unreachable).

The compound branch returns early: it neither resets `b.flags` on failure nor looks at
`get_morph_marker(num_func)`; it copies the flags and (if ordinal) the marker of the sub-builder. -/
def applyFuel : Nat → Word → DS → Res × DS
  | 0, _, b => (some .nan, b)
  | fuel + 1, w, b =>
    if w.contains '-' then
      match execGroup (applyFuel fuel) (splitOnChar '-' w) with
      | .ok ds => mergeGroup b ds true ds.marker
      | .error e => (some e, b)
    else
      let act := (vocab.lookup (lemmatize w)).getD (.fail .nan)
      let (r, b', toBlock) := act.exec b
      let marker := morph w
      if r.isNone then
        let b' := { b' with flags := toBlock }
        (r, if marker.isNone then b' else { b' with marker := marker, frozen := true })
      else
        (r, { b' with flags := 0 })

def apply : Word → DS → Res × DS := applyFuel 2

/-- `apply_decimal` is `apply`. -/
def applyDecimal : Word → DS → Res × DS := apply

/-- `vocabulary::INSIGNIFICANT` -/
def insignificant : List Word := [
  w!"alors", w!"bien", w!"c'est", w!"encore", w!"ensuite", w!"et", w!"euh", w!"heu", w!"ha",
  w!"ah", w!"hu", w!"hum", w!"moins", w!"ok", w!"oui", w!"plus", w!"puis", w!"voilà"]

def lang : Lang where
  code := "fr"
  apply := apply
  applyDecimal := applyDecimal
  morph := morph
  isDecSep := fun w => w == w!"virgule"
  decMark := ','
  isLinking := fun w => insignificant.contains w

end T2N.Fr
