/-
  T2N.Model.Tokenizer — model of `Tokenize` (src/tokenizer.rs): a text is cut into maximal "word"
  runs (first char alphanumeric, then alphanumeric / `-` / `'`) and maximal separator runs
  (first char not alphanumeric, then anything not alphanumeric).
  The Rust code works with byte offsets on char boundaries; the model works on `List Char`
  (byte-offset arithmetic is modelled, not verified — see DESIGN.md).
-/
import T2N.Model.Scanner

namespace T2N

def isWordChar (cc : CharClasses) (c : Char) : Bool :=
  cc.isAlphanumeric c || c == '-' || c == '\''

/-- `inWord = some true`: inside a word token; `some false`: inside a separator token; `cur` is the
current token, reversed. -/
def tokenizeAux (cc : CharClasses) : Option Bool → Word → Word → List Word
  | _, cur, [] => if cur.isEmpty then [] else [cur.reverse]
  | none, _, c :: cs => tokenizeAux cc (some (cc.isAlphanumeric c)) [c] cs
  | some true, cur, c :: cs =>
    if isWordChar cc c then tokenizeAux cc (some true) (c :: cur) cs
    else cur.reverse :: tokenizeAux cc (some false) [c] cs
  | some false, cur, c :: cs =>
    if cc.isAlphanumeric c then cur.reverse :: tokenizeAux cc (some true) [c] cs
    else tokenizeAux cc (some false) (c :: cur) cs

def tokenizeWords (cc : CharClasses) (s : Word) : List Word := tokenizeAux cc none [] s

/-- `BasicToken::new` -/
def basicToken (cc : CharClasses) (t : Word) : Tok := { text := t, lower := cc.lowerStr t }

def tokenize (cc : CharClasses) (s : Word) : List Tok := (tokenizeWords cc s).map (basicToken cc)

end T2N
