/-
  T2N.Model.DS — model of `text2num::digit_string::DigitString`.

  Representation: the Rust `buffer: Vec<u8>` (ASCII digits, most significant first) is modelled by
  `rbuf : List Nat`, the same digits **least significant first**, so that decimal position `p`
  (0 = units) is list index `p`.  Every Rust operation works on the right end of the vector, i.e.
  on the *head* of `rbuf`.

  Rust mutates through `&mut self` and returns `Result<(), Error>`; the model returns the pair
  `(result, new builder)` — the builder is returned on failure too, because failure atomicity is a
  theorem (C12), not an assumption.

  The only place where a public method can panic (debug profile, which is what `cargo test` uses)
  is the `debug_assert!(start_position < end_position)` of `is_range_free`; the model returns
  `Except Fault Bool` there.
-/
import T2N.Model.Basic

namespace T2N

structure DS where
  rbuf   : List Nat := []      -- digits, least significant first
  lz     : Nat := 0            -- `leading_zeroes`
  frozen : Bool := false
  flags  : Nat := 0
  marker : Marker := .none
  deriving DecidableEq, Repr, Inhabited

namespace DS

def new : DS := {}

def reset (_b : DS) : DS := {}

def freeze (b : DS) : DS := { b with frozen := true }

/-- `to_string` as a list of digits (most significant first, leading zeroes included). -/
def render (b : DS) : List Nat := List.replicate b.lz 0 ++ b.rbuf.reverse

def toStr (b : DS) : String := digitsToString b.render

def len (b : DS) : Nat := b.rbuf.length + b.lz
def isEmpty (b : DS) : Bool := b.rbuf.isEmpty && b.lz == 0
def isNull (b : DS) : Bool := b.rbuf.isEmpty
def isOrdinal (b : DS) : Bool := b.marker.isOrdinal

/-- `peek(positions)`: the rightmost `positions` digits, most significant first. -/
def peek (b : DS) (k : Nat) : List Nat := (b.rbuf.take k).reverse

def isFree (b : DS) (k : Nat) : Bool := b.isEmpty || allZero (b.rbuf.take k)

/-- `is_range_free(start, end)` (inclusive); faults on `start ≥ end` like the `debug_assert!`. -/
def isRangeFree (b : DS) (s e : Nat) : Except Fault Bool :=
  if s < e then
    if s ≥ b.rbuf.length then .ok true
    else .ok (allZero ((b.rbuf.drop s).take (e + 1 - s)))
  else .error .rangeAssert

/-- Total version used where the arguments are literals with `s < e`. -/
def rangeFree (b : DS) (s e : Nat) : Bool :=
  s ≥ b.rbuf.length || allZero ((b.rbuf.drop s).take (e + 1 - s))

def isPositionFree (b : DS) (p : Nat) : Bool :=
  b.rbuf.isEmpty || p > b.rbuf.length - 1 || b.rbuf.getD p 0 == 0

/-- `put(digits)` — `ds` most significant first, as in the Rust call `b.put(b"21")`. -/
def put (b : DS) (ds : List Nat) : Res × DS :=
  if b.frozen then (some .frozen, b)
  else if b.rbuf.isEmpty && ds == [0] then (none, { b with lz := b.lz + 1 })
  else if allZero ds then (some .overlap, b)
  else if b.rbuf.isEmpty then (none, { b with rbuf := ds.reverse })
  else if b.rbuf.length < ds.length then (some .overlap, b)
  else if allZero (b.rbuf.take ds.length) then
    (none, { b with rbuf := ds.reverse ++ b.rbuf.drop ds.length })
  else (some .overlap, b)

/-- `put_digit_at(digit, position)` -/
def putDigitAt (b : DS) (d p : Nat) : Res × DS :=
  if b.frozen then (some .frozen, b)
  else if d == 0 then (some .overlap, b)
  else if p ≥ b.rbuf.length then
    (none, { b with rbuf := b.rbuf ++ List.replicate (p - b.rbuf.length) 0 ++ [d] })
  else if b.rbuf.getD p 0 == 0 then (none, { b with rbuf := b.rbuf.set p d })
  else (some .overlap, b)

/-- `push(digits)`: append at the right. -/
def push (b : DS) (ds : List Nat) : Res × DS :=
  if b.frozen then (some .frozen, b)
  else (none, { b with rbuf := ds.reverse ++ b.rbuf })

/-- `fput(digits)`: force put. -/
def fput (b : DS) (ds : List Nat) : Res × DS :=
  if b.frozen then (some .frozen, b)
  else (none, { b with rbuf := ds.reverse ++ b.rbuf.drop ds.length })

/-- The significant part of the low group for `shift`: the group with its high-order zeros
stripped, or an implicit `1` when the group is all zeros. (least significant first) -/
def shiftSig (low : List Nat) : List Nat :=
  let s := (low.reverse.dropWhile (· == 0)).reverse
  if s.isEmpty then [1] else s

/-- `shift` on a non-empty buffer `r0` (least significant first): `none` = overlap. -/
def shiftBuf (r0 : List Nat) (p : Nat) : Option (List Nat) :=
  if r0.length ≤ p then some (List.replicate p 0 ++ r0)
  else
    let sig := shiftSig (r0.take p)
    if r0.length ≥ p + sig.length && allZero ((r0.drop p).take sig.length) then
      some (List.replicate p 0 ++ sig ++ r0.drop (p + sig.length))
    else none

/-- `shift(positions)`; an empty buffer first receives the implicit `1`
(and then never overlaps: `[1].length ≤ p`). -/
def shift (b : DS) (p : Nat) : Res × DS :=
  if b.frozen then (some .frozen, b)
  else if p == 0 then (none, b)
  else
    match shiftBuf (if b.rbuf.isEmpty then [1] else b.rbuf) p with
    | some r => (none, { b with rbuf := r })
    | none => (some .overlap, b)

/-- numeric value of the buffer (leading zeroes do not count) -/
def valueOf : List Nat → Nat
  | [] => 0
  | d :: ds => d + 10 * valueOf ds

def value (b : DS) : Nat := valueOf b.rbuf

end DS

/-- The public mutating operations and queries, as data (for operation sequences). -/
inductive Op where
  | put (ds : List Nat) | putAt (d p : Nat) | shift (p : Nat) | fput (ds : List Nat)
  | push (ds : List Nat) | freeze | reset
  deriving DecidableEq, Repr, Inhabited

def DS.step (b : DS) : Op → Res × DS
  | .put ds => b.put ds
  | .putAt d p => b.putDigitAt d p
  | .shift p => b.shift p
  | .fput ds => b.fput ds
  | .push ds => b.push ds
  | .freeze => (none, b.freeze)
  | .reset => (none, b.reset)

def DS.runOps (b : DS) (ops : List Op) : DS := ops.foldl (fun b op => (b.step op).2) b

end T2N
