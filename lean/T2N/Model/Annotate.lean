/-
  T2N.Model.Annotate — the two `basic_annotate` passes (en: the word "o"; fr: the word "neuf").
  Both thread one scratch `DigitString` through all their `apply` probes, exactly as the Rust does.
-/
import T2N.Model.Scanner

namespace T2N

def setNan (toks : List Tok) (i : Nat) : List Tok :=
  toks.modify i (fun t => { t with nan := true })

def lowerAt (toks : List Tok) (i : Nat) : Word := (toks.getD i default).lower

/-- indices of the tokens satisfying `p` -/
def indicesWhere (p : Tok → Bool) (toks : List Tok) : List Nat :=
  (enumFrom 0 toks).filterMap (fun (i, t) => if p t then some i else none)

/-- one probe of the annotation passes: is the word accepted on the scratch builder? (the builder is
returned because the Rust probes mutate one shared scratch `DigitString`) -/
def probe (apply : Word → DS → Res × DS) (w : Word) (b : DS) : Bool × DS :=
  let (r, b') := apply w b
  (r.isNone, b')

/-- the decision for the `o` at position `j` of the significant tokens:
`j > 0 && apply(prev).is_ok() || j+1 < len && apply(next).is_ok()` with Rust's short-circuit evaluation -/
def enDecide (apply : Word → DS → Res × DS) (sig : List Nat) (j : Nat) (toks : List Tok) (b : DS) : Bool × DS :=
  let r1 : Bool × DS := if j > 0 then probe apply (lowerAt toks (sig.getD (j - 1) 0)) b else (false, b)
  if r1.1 then (true, r1.2)
  else if j + 1 < sig.length then probe apply (lowerAt toks (sig.getD (j + 1) 0)) r1.2
  else (false, r1.2)

/-- English: `o` is a zero only next to a number word. `sig` = significant token indices. -/
def annotateEnLoop (apply : Word → DS → Res × DS) (sig : List Nat) :
    List Nat → Nat → DS → List Tok → List Tok
  | [], _, _, toks => toks
  | i :: rest, j, b, toks =>
    if lowerAt toks i == ['o'] then
      let d := enDecide apply sig j toks b
      if d.1 then annotateEnLoop apply sig rest (j + 1) DS.new toks      -- `b.reset()`
      else annotateEnLoop apply sig rest (j + 1) d.2 (setNan toks i)
    else annotateEnLoop apply sig rest (j + 1) b toks

def annotateEn (cc : CharClasses) (apply : Word → DS → Res × DS) (toks : List Tok) : List Tok :=
  let sig := indicesWhere (fun t => !(t.lower.all cc.isWhitespace)) toks
  annotateEnLoop apply sig sig 0 DS.new toks

def frArticles : List Word := [w!"un", w!"le", w!"du", w!"l'"]

/-- French: `neuf` (nine / new). `tw` = indices of the "true words"; `amb` = positions in `tw` of
the `neuf` tokens. -/
def annotateFrLoop (apply : Word → DS → Res × DS) (isDecSep : Word → Bool) (tw : List Nat) :
    List Nat → DS → List Tok → List Tok
  | [], _, toks => toks
  | i :: rest, b, toks =>
    if i < 2 then annotateFrLoop apply isDecSep tw rest b toks
    else
      let b := DS.new      -- `b.reset()`
      let w (k : Nat) : Word := lowerAt toks (tw.getD k 0)
      if frArticles.contains (w (i - 2)) || (i > 2 && frArticles.contains (w (i - 3))) then
        let prev := w (i - 1)
        let next : Word := if i + 1 < tw.length then w (i + 1) else []
        -- `prev != "numéro" && !is_decimal_sep(prev) && apply(prev).is_err() && apply(next).is_err()`
        if prev != w!"numéro" && !isDecSep prev then
          let (r1, b1) := apply prev b
          if r1.isSome then
            let (r2, b2) := apply next b1
            if r2.isSome then annotateFrLoop apply isDecSep tw rest b2 (setNan toks (tw.getD i 0))
            else annotateFrLoop apply isDecSep tw rest b2 toks
          else annotateFrLoop apply isDecSep tw rest b1 toks
        else annotateFrLoop apply isDecSep tw rest b toks
      else annotateFrLoop apply isDecSep tw rest b toks

def annotateFr (cc : CharClasses) (apply : Word → DS → Res × DS) (isDecSep : Word → Bool)
    (toks : List Tok) : List Tok :=
  let tw := indicesWhere (fun t => !(t.lower.all (fun c => !cc.isAlphanumeric c))) toks
  let amb := (enumFrom 0 tw).filterMap (fun (k, i) => if lowerAt toks i == w!"neuf" then some k else none)
  annotateFrLoop apply isDecSep tw amb DS.new toks

end T2N
