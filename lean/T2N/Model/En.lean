/-
  T2N.Model.En — model of `src/lang/en/mod.rs` (struct `English`).
-/
import T2N.Model.Lang

namespace T2N.En

/-- `lemmatize`: blind removal of trailing `s` (all of them: `trim_end_matches('s')`), except for "seconds". -/
def lemmatize (w : Word) : Word :=
  if endsWith w w!"s" && w != w!"seconds" then trimEndBy (· == 's') w else w

/-- units: `if b.peek(2) != b"10" => b.put(d)` -/
def unit (d : Nat) : Act := .when (.neg (.peekEq 2 [1, 0])) (.put [d])

def hundred : Act :=
  .ite (.or (.peekLen 2 1) (.neg (.peekEq 2 [0, 0]))) (.shift 2) (.fail .overlap)

/-- lemma ↦ instruction (the `match lemma { … }` of `apply`) -/
def vocab : List (Word × Act) := [
  (w!"zero", .put [0]), (w!"o", .put [0]), (w!"nought", .put [0]),
  (w!"one", unit 1), (w!"first", unit 1), (w!"oneth", unit 1),
  (w!"two", unit 2), (w!"second", unit 2),
  (w!"three", unit 3), (w!"third", unit 3),
  (w!"four", unit 4), (w!"fourth", unit 4),
  (w!"five", unit 5), (w!"fifth", unit 5),
  (w!"six", unit 6), (w!"sixth", unit 6),
  (w!"seven", unit 7), (w!"seventh", unit 7),
  (w!"eight", unit 8), (w!"eighth", unit 8),
  (w!"nine", unit 9), (w!"ninth", unit 9),
  (w!"ten", .put [1,0]), (w!"tenth", .put [1,0]),
  (w!"eleven", .put [1,1]), (w!"eleventh", .put [1,1]),
  (w!"twelve", .put [1,2]), (w!"twelfth", .put [1,2]),
  (w!"thirteen", .put [1,3]), (w!"thirteenth", .put [1,3]),
  (w!"fourteen", .put [1,4]), (w!"fourteenth", .put [1,4]),
  (w!"fifteen", .put [1,5]), (w!"fifteenth", .put [1,5]),
  (w!"sixteen", .put [1,6]), (w!"sixteenth", .put [1,6]),
  (w!"seventeen", .put [1,7]), (w!"seventeenth", .put [1,7]),
  (w!"eighteen", .put [1,8]), (w!"eighteenth", .put [1,8]),
  (w!"nineteen", .put [1,9]), (w!"nineteenth", .put [1,9]),
  (w!"twenty", .put [2,0]), (w!"twentieth", .put [2,0]),
  (w!"thirty", .put [3,0]), (w!"thirtieth", .put [3,0]),
  (w!"fourty", .put [4,0]), (w!"forty", .put [4,0]), (w!"fortieth", .put [4,0]), (w!"fourtieth", .put [4,0]),
  (w!"fifty", .put [5,0]), (w!"fiftieth", .put [5,0]),
  (w!"sixty", .put [6,0]), (w!"sixtieth", .put [6,0]),
  (w!"seventy", .put [7,0]), (w!"seventieth", .put [7,0]),
  (w!"eighty", .put [8,0]), (w!"eightieth", .put [8,0]),
  (w!"ninety", .put [9,0]), (w!"ninetieth", .put [9,0]),
  (w!"hundred", hundred), (w!"hundredth", hundred),
  (w!"thousand", .when (.rangeFree 3 5) (.shift 3)), (w!"thousandth", .when (.rangeFree 3 5) (.shift 3)),
  (w!"million", .when (.rangeFree 6 8) (.shift 6)), (w!"millionth", .when (.rangeFree 6 8) (.shift 6)),
  (w!"billion", .shift 9), (w!"billionth", .shift 9),
  (w!"and", .when (.lenGe 2) (.fail .incomplete))
]

def morph (w : Word) : Marker :=
  if endsWith w w!"th" then .ordinal .th
  else if endsWith w w!"ths" then .ordinal .ths
  else if w == w!"first" then .ordinal .st
  else if w == w!"second" then .ordinal .nd
  else if w == w!"third" then .ordinal .rd
  else if w == w!"thirds" then .ordinal .rds
  else .none

/-- `apply`. The fuel bounds the compound recursion `apply → exec_group → apply`; a part of a
`-`-split never contains `-`, so depth 2 is never exceeded (`applyFuel 0` is unreachable). -/
def applyFuel : Nat → Word → DS → Res × DS
  | 0, _, b => (some .nan, b)
  | fuel + 1, w, b =>
    if w.contains '-' then
      match execGroup (applyFuel fuel) (splitOnChar '-' w) with
      | .ok ds => mergeGroup b ds false ds.marker
      | .error e => (some e, b)
    else
      let lemma := lemmatize w
      let act := (vocab.lookup lemma).getD (.fail .nan)
      let (r, b', _) := act.exec b
      if r.isNone && (endsWith lemma w!"th" || w == w!"first" || w == w!"second" || lemma == w!"third") then
        (r, { b' with marker := morph w, frozen := true })
      else (r, b')

def apply : Word → DS → Res × DS := applyFuel 2

def decVocab : List (Word × Nat) := [
  (w!"zero", 0), (w!"o", 0), (w!"nought", 0), (w!"one", 1), (w!"two", 2), (w!"three", 3),
  (w!"four", 4), (w!"five", 5), (w!"six", 6), (w!"seven", 7), (w!"eight", 8), (w!"nine", 9)]

def applyDecimal (w : Word) (b : DS) : Res × DS :=
  match decVocab.lookup w with
  | some d => b.push [d]
  | none => (some .nan, b)

def insignificant : List Word := [
  w!"and", w!"ha", w!"ah", w!"hu", w!"hum", w!"minus", w!"more", w!"ok", w!"plus", w!"so",
  w!"that's", w!"then", w!"uh", w!"well", w!"yeah", w!"yes", w!"is"]

def lang : Lang where
  code := "en"
  apply := apply
  applyDecimal := applyDecimal
  morph := morph
  isDecSep := fun w => w == w!"point"
  decMark := '.'
  isLinking := fun w => insignificant.contains w

end T2N.En
