/- T2N.Model.It — STUB (to be replaced by the model of src/lang/it/mod.rs) -/
import T2N.Model.Lang

namespace T2N.It

def lang : Lang where
  code := "it"
  apply := fun _ b => (some .nan, b)
  applyDecimal := fun _ b => (some .nan, b)
  morph := fun _ => .none
  isDecSep := fun _ => false
  decMark := ','
  isLinking := fun _ => false

end T2N.It
