/-
  T2N.Model.It — model of `src/lang/it/mod.rs` (struct `Italian`).
-/
import T2N.Model.Lang

namespace T2N.It

/-- the ordinal stems recognised by `lemmatize` (the `matches!` list) -/
def ordStems : List Word := [
  w!"prim", w!"second", w!"terz", w!"quart", w!"quint", w!"sest", w!"settim", w!"ottav", w!"ttav",
  w!"non", w!"decim"]

def isVowelEnding (c : Char) : Bool := c == 'o' || c == 'a' || c == 'e' || c == 'i'

/-- `lemmatize`: strip ALL trailing `o a e i` (`trim_end_matches([..])`); keep the stripped form only
for the ordinal stems (except the word "secondi") and for `…esim`. -/
def lemmatize (w : Word) : Word :=
  let cand := trimEndBy isVowelEnding w
  if (ordStems.contains cand && w != w!"secondi") || endsWith cand w!"esim" || endsWith cand w!"decim" then cand else w

/-- the `WordSplitter` patterns of `impl Default for Italian`, same order -/
def patterns : List Word := [
  w!"miliardesim", w!"milionesim", w!"bilionesim", w!"cinquanta", w!"centesim", w!"millesim",
  w!"miliardo", w!"miliardi", w!"quaranta", w!"sessanta", w!"settanta", w!"milione", w!"milioni",
  w!"bilione", w!"bilioni", w!"ottanta", w!"novanta", w!"trenta", w!"ttanta", w!"cento", w!"mille",
  w!"venti", w!"mila"]

/-- units: `if b.peek(2) != b"10" => b.put(d)` -/
def unit (d : Nat) : Act := .when (.neg (.peekEq 2 [1, 0])) (.put [d])

/-- `un`, `otto`: `if b.is_free(2) => b.put(d)` -/
def unitFree (d : Nat) : Act := .when (.free 2) (.put [d])

/-- the irregular ordinals: `if b.is_empty() => b.put(d)` -/
def ordUnit (d : Nat) : Act := .when .empty (.put [d])

def cento : Act :=
  .ite (.and (.and (.or (.peekLen 2 1) (.peekLt 2 [1, 0])) (.neg (.peekEq 2 [1]))) (.neg (.peekEq 2 [0, 1])))
    (.shift 2) (.fail .overlap)

/-- `b.len() == 1 && b.peek(1) == b"1"` -/
def isJustOne : Guard := .and (.lenEq 1) (.peekEq 1 [1])

/-- singular multiplier (`milione`, `miliardo`, `bilione`): needs the group to be exactly one -/
def multSing (k : Nat) : Act := .ite (.neg (.groupOne k)) (.fail .nan) (.shift k)

/-- ordinal multiplier (`milionesim`, …) -/
def multOrd (k : Nat) : Act := .ite isJustOne (.fail .nan) (.shift k)

/-- plural multiplier (`milioni`, …) -/
def multPlur (k : Nat) : Act := .ite (.or .empty isJustOne) (.fail .nan) (.shift k)

/-- lemma ↦ instruction (the `match lemmatize(num_func) { … }` of `apply`).
No lemma occurs in two arms. The arm `"non" if b.is_empty() && num_func != "non"` depends on the raw
word: the `num_func != "non"` part is handled in `applyFuel`.
-/
def vocab : List (Word × Act) := [
  (w!"zero", .put [0]),
  (w!"un", unitFree 1), (w!"uno", unitFree 1), (w!"una", unitFree 1), (w!"unesim", unitFree 1),
  (w!"prim", ordUnit 1),
  (w!"due", unit 2), (w!"duesim", unit 2),
  (w!"second", ordUnit 2),
  (w!"tre", unit 3), (w!"tré", unit 3), (w!"treesim", unit 3),
  (w!"terz", ordUnit 3),
  (w!"quattro", unit 4), (w!"quattresim", unit 4),
  (w!"quart", ordUnit 4),
  (w!"cinque", unit 5), (w!"cinquesim", unit 5),
  (w!"quint", ordUnit 5),
  (w!"sei", unit 6), (w!"seiesim", unit 6),
  (w!"sest", ordUnit 6),
  (w!"sette", unit 7), (w!"settesim", unit 7),
  (w!"settim", ordUnit 7),
  (w!"otto", unitFree 8), (w!"tto", unitFree 8), (w!"ottesim", unitFree 8), (w!"ttesim", unitFree 8),
  (w!"ottav", ordUnit 8),
  (w!"nove", unit 9), (w!"novesim", unit 9),
  (w!"non", ordUnit 9),
  (w!"dieci", .put [1,0]), (w!"decim", .put [1,0]),
  (w!"undici", .put [1,1]), (w!"undicesim", .put [1,1]),
  (w!"dodici", .put [1,2]), (w!"dodicesim", .put [1,2]),
  (w!"tredici", .put [1,3]), (w!"tredicesim", .put [1,3]),
  (w!"quattordici", .put [1,4]), (w!"quattordicesim", .put [1,4]),
  (w!"quindici", .put [1,5]), (w!"quindicesim", .put [1,5]),
  (w!"sedici", .put [1,6]), (w!"sedicesim", .put [1,6]),
  (w!"diciassette", .put [1,7]), (w!"diciassettesim", .put [1,7]),
  (w!"diciotto", .put [1,8]), (w!"diciottesim", .put [1,8]),
  (w!"diciannove", .put [1,9]), (w!"diciannovesim", .put [1,9]),
  (w!"venti", .put [2,0]), (w!"ventesim", .put [2,0]),
  (w!"ventuno", .put [2,1]), (w!"ventun", .put [2,1]), (w!"ventunesim", .put [2,1]),
  (w!"ventotto", .put [2,8]), (w!"ventottesim", .put [2,8]),
  (w!"trenta", .put [3,0]), (w!"trentesim", .put [3,0]),
  (w!"trentuno", .put [3,1]), (w!"trentun", .put [3,1]), (w!"trentunesim", .put [3,1]),
  (w!"trentotto", .put [3,8]), (w!"trentottesim", .put [3,8]),
  (w!"quaranta", .put [4,0]), (w!"quarantesim", .put [4,0]),
  (w!"quarantuno", .put [4,1]), (w!"quarantun", .put [4,1]), (w!"quarantunesim", .put [4,1]),
  (w!"quarantotto", .put [4,8]), (w!"quarantottesim", .put [4,8]),
  (w!"cinquanta", .put [5,0]), (w!"cinquantesim", .put [5,0]),
  (w!"cinquantuno", .put [5,1]), (w!"cinquantun", .put [5,1]), (w!"cinquantunesim", .put [5,1]),
  (w!"cinquantotto", .put [5,8]), (w!"cinquantottesim", .put [5,8]),
  (w!"sessanta", .put [6,0]), (w!"sessantesim", .put [6,0]),
  (w!"sessantuno", .put [6,1]), (w!"sessantun", .put [6,1]), (w!"sessantunesim", .put [6,1]),
  (w!"sessantotto", .put [6,8]), (w!"sessantottesim", .put [6,8]),
  (w!"settanta", .put [7,0]), (w!"settantesim", .put [7,0]),
  (w!"settantuno", .put [7,1]), (w!"settantun", .put [7,1]), (w!"settantunesim", .put [7,1]),
  (w!"settantotto", .put [7,8]), (w!"settantottesim", .put [7,8]),
  (w!"ottanta", .put [8,0]), (w!"ottantesim", .put [8,0]), (w!"ttanta", .put [8,0]), (w!"ttantesim", .put [8,0]),
  (w!"ottantuno", .put [8,1]), (w!"ottantun", .put [8,1]), (w!"ottantunesim", .put [8,1]),
  (w!"ttantuno", .put [8,1]), (w!"ttantun", .put [8,1]), (w!"ttantunesim", .put [8,1]),
  (w!"ottantotto", .put [8,8]), (w!"ottantottesim", .put [8,8]), (w!"ttantotto", .put [8,8]), (w!"ttantottesim", .put [8,8]),
  (w!"novanta", .put [9,0]), (w!"novantesim", .put [9,0]),
  (w!"novantuno", .put [9,1]), (w!"novantun", .put [9,1]), (w!"novantunesim", .put [9,1]),
  (w!"novantotto", .put [9,8]), (w!"novantottesim", .put [9,8]),
  (w!"cento", cento), (w!"centesim", cento),
  (w!"centuno", .put [1,0,1]), (w!"centun", .put [1,0,1]), (w!"centunesim", .put [1,0,1]),
  (w!"mille", .when (.rangeFree 3 5) (.put [1,0,0,0])),
  (w!"mila", .when (.rangeFree 3 5)
    (.ite (.or (.or (.or (.peekEq 3 [1]) (.peekEq 3 [0,0,1])) (.peekLen 3 0)) (.peekEq 3 [0,0,0]))
      (.fail .nan) (.shift 3))),
  (w!"millesim", .when (.rangeFree 3 5)
    (.ite (.or (.peekEq 3 [1]) (.peekEq 3 [0,0,1])) (.fail .nan) (.shift 3))),
  (w!"milione", .when (.rangeFree 6 8) (multSing 6)),
  (w!"milionesim", .when (.rangeFree 6 8) (multOrd 6)),
  (w!"milioni", .when (.rangeFree 6 8) (multPlur 6)),
  (w!"miliardo", multSing 9),
  (w!"miliardesim", multOrd 9),
  (w!"miliardi", multPlur 9),
  (w!"bilione", multSing 12),
  (w!"bilionesim", multOrd 12),
  (w!"bilioni", multPlur 12),
  (w!"e", .when (.lenGe 2) (.fail .incomplete))
]

/-- `get_morph_marker`: only lemmatized words (ordinals) bear a marker, given by the last char of the
raw word. (`base != word` implies the word is non-empty and ends in one of `o a e i`.) -/
def morph (w : Word) : Marker :=
  if lemmatize w != w then
    match w.getLast? with
    | some 'o' | some 'i' => .ordinal .mo
    | some 'a' | some 'e' => .ordinal .fa
    | _ => .none
  else .none

/-- `apply`. The fuel bounds the compound recursion `apply → exec_group → apply`: the pieces of a
split are either a pattern (whose lemma is itself, matched in full, hence not splittable) or a gap in
which no pattern occurs, so depth 2 is never exceeded (`applyFuel 0` is unreachable). -/
def applyFuel : Nat → Word → DS → Res × DS
  | 0, _, b => (some .nan, b)
  | fuel + 1, w, b =>
    let lemma := lemmatize w
    if isSplittable patterns lemma then
      match execGroup (applyFuel fuel) (splitWord patterns lemma) with
      | .ok ds => mergeGroup b ds false (morph w)
      | .error e => (some e, b)
    else
      let act :=
        if lemma == w!"non" && w == w!"non" then .fail .nan   -- `"non" if … && num_func != "non"`
        else (vocab.lookup lemma).getD (.fail .nan)
      let (r, b', _) := act.exec b
      let marker := morph w
      if r.isNone && !marker.isNone then (r, { b' with marker := marker, frozen := true })
      else (r, b')

def apply : Word → DS → Res × DS := applyFuel 2

/-- `apply_decimal` = `apply` -/
def applyDecimal : Word → DS → Res × DS := apply

def insignificant : List Word := [
  w!"e", w!"ehm", w!"più", w!"poi", w!"ancora", w!"meno", w!"è", w!"ben"]

def lang : Lang where
  code := "it"
  apply := apply
  applyDecimal := applyDecimal
  morph := morph
  isDecSep := fun w => w == w!"virgola"
  decMark := ','
  isLinking := fun w => insignificant.contains w

end T2N.It
