import T2N.Model.En
import T2N.Model.Fr
import T2N.Model.Es
import T2N.Model.Pt
import T2N.Model.It
import T2N.Model.De
import T2N.Model.Nl

namespace T2N

def allLangs : List Lang := [En.lang, Fr.lang, Es.lang, Pt.lang, It.lang, De.lang, Nl.lang]

def langByCode (c : String) : Option Lang := allLangs.find? (·.code == c)

end T2N
