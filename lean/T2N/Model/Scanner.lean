/-
  T2N.Model.Scanner — model of the generic code of `src/word_to_digit.rs`:
  `WordToDigitParser`, `text2digits`, `NumTracker`, `FindNumbers` (batch loop and lazy iterator),
  `NumTracker::replace`.  Generic in the language (`Lang`), in the character classes (`CharClasses`),
  in the token-separation relation and in the threshold test.
-/
import T2N.Model.Lang

namespace T2N

/-- The facts about `char` that the crate takes from Rust `std`. Theorems take the laws they need
about these functions as hypotheses; the driver instantiates them from a table dumped from `std`. -/
structure CharClasses where
  isWhitespace : Char → Bool
  isAlphabetic : Char → Bool
  isAlphanumeric : Char → Bool
  /-- `char::to_lowercase` (context-free; the final-sigma rule of `str::to_lowercase` is not modelled) -/
  lower : Char → List Char

def CharClasses.lowerStr (cc : CharClasses) (s : Word) : Word := s.flatMap cc.lower

/-- `str::trim` -/
def CharClasses.trim (cc : CharClasses) (s : Word) : Word :=
  ((s.dropWhile cc.isWhitespace).reverse.dropWhile cc.isWhitespace).reverse

/-- `str::split_whitespace` -/
def CharClasses.splitWhitespace (cc : CharClasses) (s : Word) : List Word :=
  let rec go : Word → Word → List Word
    | [], cur => if cur.isEmpty then [] else [cur.reverse]
    | c :: cs, cur =>
      if cc.isWhitespace c then (if cur.isEmpty then go cs [] else cur.reverse :: go cs [])
      else go cs (c :: cur)
  go s []

def utf8Len (s : Word) : Nat := (s.map (fun c => c.utf8Size)).sum

/-! ### formatting on `Word` texts -/

def Mk.chars (m : Mk) : Word := m.str.toList

def renderChars (b : DS) : Word := b.render.map digitChar

/-- `format_and_value` with the text as a character list. -/
def Lang.formatW (_l : Lang) (b : DS) : Except Fault (Word × Value) :=
  if b.render.isEmpty then .error .parseEmpty
  else
    match b.marker with
    | .fraction _ => .ok (['1', '/'] ++ renderChars b, .recip b.render)
    | .ordinal m => .ok (renderChars b ++ m.chars, .dec b.render [])
    | .none => .ok (renderChars b, .dec b.render [])

def Lang.formatDecimalW (l : Lang) (i d : DS) : Except Fault (Word × Value) :=
  if i.render.isEmpty && d.render.isEmpty then .error .parseEmpty
  else .ok (renderChars i ++ [l.decMark] ++ renderChars d, .dec i.render d.render)

/-! ### WordToDigitParser -/

structure Parser where
  int : DS := {}
  dec : DS := {}
  isDec : Bool := false
  deriving Repr, Inhabited, DecidableEq

namespace Parser

def hasNumber (p : Parser) : Bool := !p.int.isEmpty
def isOrdinal (p : Parser) : Bool := p.int.isOrdinal

def push (l : Lang) (p : Parser) (w : Word) : Res × Parser :=
  let (status, p') : Res × Parser :=
    if p.isDec then
      let (r, d) := l.applyDecimal w p.dec
      (r, { p with dec := d })
    else
      let (r, i) := l.apply w p.int
      (r, { p with int := i })
  if status.isSome && !p'.isDec && !p'.int.isEmpty && p'.int.marker.isNone && l.isDecSep w then
    (some .incomplete, { p' with isDec := true })
  else (status, p')

/-- `string_and_value` (the reset is done by the caller replacing the parser by `{}`) -/
def finish (l : Lang) (p : Parser) : Except Fault (Word × Value) :=
  if p.isDec && !p.dec.isEmpty then l.formatDecimalW p.int p.dec else l.formatW p.int

end Parser

/-- Outcome of `text2digits`. -/
inductive ValOut where
  | ok (digits : Word)
  | err (e : Err)
  | panic
  deriving Repr, DecidableEq, Inhabited

def text2digitsWords (l : Lang) (ws : List Word) : ValOut :=
  match execGroup l.apply ws with
  | .error e => .err e
  | .ok ds =>
    if ds.isEmpty then .err .nan
    else match l.formatW ds with
      | .ok (t, _) => .ok t
      | .error _ => .panic

def text2digits (cc : CharClasses) (l : Lang) (s : Word) : ValOut :=
  text2digitsWords l (cc.splitWhitespace (cc.lowerStr s))

/-! ### tokens, occurrences, tracker -/

structure Tok where
  text : Word
  lower : Word
  nan : Bool := false
  tstart : Nat := 0
  tend : Nat := 0
  deriving Repr, Inhabited, DecidableEq

structure Occ where
  start : Nat
  stop : Nat
  text : Word
  value : Value
  isOrdinal : Bool
  deriving Repr, Inhabited, DecidableEq

inductive Kind where
  | cardinal | ordinal | none
  deriving Repr, DecidableEq, Inhabited

structure Tracker where
  queue : List Occ := []          -- queue, oldest first
  onHold : Option Occ := none
  last : Kind := .none              -- `last_contiguous_match`
  mstart : Nat := 0
  mend : Nat := 0
  deriving Repr, Inhabited, DecidableEq

namespace Tracker

def advanced (t : Tracker) (pos : Nat) : Tracker :=
  { t with mstart := if t.mstart == t.mend then pos else t.mstart, mend := pos + 1 }

def numberEnd (t : Tracker) (isOrd : Bool) (text : Word) (value : Value) (forget : Bool) : Tracker :=
  let occ : Occ := ⟨t.mstart, t.mend, text, value, isOrd⟩
  let kind : Kind := if isOrd then .ordinal else .cardinal
  -- Rust: `if last != kind { last = None }; if !last.is_none() { … }` — as `kind` is never `None`,
  -- the test is `last == kind`
  if t.last == kind then
    { t with queue := t.queue ++ (match t.onHold with | some p => [p] | none => []) ++ [occ],
             onHold := none, last := kind, mstart := t.mend }
  else if forget then
    { t with onHold := some occ, last := kind, mstart := t.mend }
  else
    { t with queue := t.queue ++ [occ], onHold := none, last := kind, mstart := t.mend }

def breaker (t : Tracker) : Tracker := { t with last := .none }

end Tracker

/-- Everything `FindNumbers` is parameterised by. -/
structure ScanCfg where
  lang : Lang
  cc : CharClasses
  /-- `token.nt_separated(previous)` -/
  sep : Tok → Tok → Bool
  /-- `value < threshold` for an integer value (see DESIGN.md on exactness) -/
  thrLt : Nat → Bool

def valueOfMSB (ds : List Nat) : Nat := ds.foldl (fun acc d => acc * 10 + d) 0

def ScanCfg.small (cfg : ScanCfg) : Value → Bool
  | .dec i [] => cfg.thrLt (valueOfMSB i)
  | _ => false

structure Scanner where
  parser : Parser := {}
  tracker : Tracker := {}
  previous : Option Tok := none
  deriving Repr, Inhabited

namespace Scanner

def numberEnd (cfg : ScanCfg) (s : Scanner) : Except Fault Scanner :=
  let isOrd := s.parser.isOrdinal
  match s.parser.finish cfg.lang with
  | .error f => .error f
  | .ok (text, value) =>
    let forget := (utf8Len text == 1 || isOrd) && cfg.small value
    .ok { s with parser := {}, tracker := s.tracker.numberEnd isOrd text value forget }

def outside (cfg : ScanCfg) (s : Scanner) (tok : Tok) : Scanner :=
  if !((tok.text.all (fun c => !cfg.cc.isAlphabetic c) && cfg.cc.trim tok.text != ['.'])
        || cfg.lang.isLinking tok.lower) then
    { s with tracker := s.tracker.breaker }
  else s

def isSkipped (cfg : ScanCfg) (tok : Tok) : Bool :=
  !tok.nan && (tok.text == ['-'] || tok.text.all cfg.cc.isWhitespace)

/-- the word handed to the parser: the lowercase text, or `","` (a forced stop that does not lose
the token) when the token declares itself unrelated to its predecessor while a number is open -/
def testWord (cfg : ScanCfg) (s : Scanner) (tok : Tok) : Word :=
  match s.previous with
  | some prev => if s.parser.hasNumber && cfg.sep tok prev then [','] else tok.lower
  | none => tok.lower

/-- the `not_a_number_part` branch of `push` -/
def pushNan (cfg : ScanCfg) (s : Scanner) (tok : Tok) : Except Fault Scanner :=
  match (if s.parser.hasNumber then s.numberEnd cfg else .ok s) with
  | .error f => .error f
  | .ok s1 => .ok { (s1.outside cfg tok) with previous := some tok }

/-- the `Err(_)` arms of `push` (`s` already holds the parser after the failed push) -/
def pushRejected (cfg : ScanCfg) (s : Scanner) (pos : Nat) (tok : Tok) : Except Fault Scanner :=
  if s.parser.hasNumber then
    match s.numberEnd cfg with
    | .error f => .error f
    | .ok s1 =>
      -- the end of that match may be the start of another
      let (r2, p2) := s1.parser.push cfg.lang tok.lower
      let s2 := { s1 with parser := p2 }
      let s3 := if r2.isNone then { s2 with tracker := s2.tracker.advanced pos }
                else if r2 == some .incomplete then s2 else s2.outside cfg tok
      .ok { s3 with previous := some tok }
  else .ok { (s.outside cfg tok) with previous := some tok }

def push (cfg : ScanCfg) (s : Scanner) (pos : Nat) (tok : Tok) : Except Fault Scanner :=
  if isSkipped cfg tok then .ok s
  else if tok.nan then pushNan cfg s tok
  else
    let (r, p') := s.parser.push cfg.lang (testWord cfg s tok)
    let s := { s with parser := p' }
    match r with
    | none => .ok { s with tracker := s.tracker.advanced pos, previous := some tok }
    | some .incomplete => .ok { s with previous := some tok }
    | some _ => pushRejected cfg s pos tok

def finalize (cfg : ScanCfg) (s : Scanner) : Except Fault Scanner :=
  if s.parser.hasNumber then s.numberEnd cfg else .ok s

/-- the `while let Some((pos, token)) = input.next() { push }` loop on an enumerated stream -/
def pushAll (cfg : ScanCfg) : Scanner → List (Nat × Tok) → Except Fault Scanner
  | s, [] => .ok s
  | s, (pos, tok) :: rest =>
    match s.push cfg pos tok with
    | .error f => .error f
    | .ok s' => pushAll cfg s' rest

end Scanner

def enumFrom {α} : Nat → List α → List (Nat × α)
  | _, [] => []
  | n, x :: xs => (n, x) :: enumFrom (n + 1) xs

/-- `find_numbers` -/
def findNumbers (cfg : ScanCfg) (toks : List Tok) : Except Fault (List Occ) :=
  match Scanner.pushAll cfg {} (enumFrom 0 toks) with
  | .error f => .error f
  | .ok s =>
    match s.finalize cfg with
    | .error f => .error f
    | .ok s' => .ok s'.tracker.queue

/-! ### the lazy iterator -/

structure Iter where
  sc : Scanner := {}
  rest : List (Nat × Tok)
  consumed : Nat := 0

namespace Iter

/-- the `while` loop of `Iterator::next`: push until the queue is non-empty or the input ends -/
def drive (cfg : ScanCfg) : Scanner → List (Nat × Tok) → Nat → Except Fault (Option Occ × Iter)
  | s, [], n =>
    match s.finalize cfg with
    | .error f => .error f
    | .ok s' =>
      match s'.tracker.queue with
      | o :: ms => .ok (some o, ⟨{ s' with tracker := { s'.tracker with queue := ms } }, [], n⟩)
      | [] => .ok (none, ⟨s', [], n⟩)
  | s, (pos, tok) :: rest, n =>
    match s.push cfg pos tok with
    | .error f => .error f
    | .ok s' =>
      match s'.tracker.queue with
      | o :: ms => .ok (some o, ⟨{ s' with tracker := { s'.tracker with queue := ms } }, rest, n + 1⟩)
      | [] => drive cfg s' rest (n + 1)

def next (cfg : ScanCfg) (it : Iter) : Except Fault (Option Occ × Iter) :=
  match it.sc.tracker.queue with
  | o :: ms => .ok (some o, { it with sc := { it.sc with tracker := { it.sc.tracker with queue := ms } } })
  | [] => drive cfg it.sc it.rest it.consumed

end Iter

def iterNew (toks : List Tok) : Iter := { rest := enumFrom 0 toks }

/-- call `next` until it returns `none` (at most `fuel` times), collecting the items -/
def iterCollect (cfg : ScanCfg) : Nat → Iter → Except Fault (List Occ)
  | 0, _ => .ok []
  | fuel + 1, it =>
    match it.next cfg with
    | .error f => .error f
    | .ok (none, _) => .ok []
    | .ok (some o, it') =>
      match iterCollect cfg fuel it' with
      | .error f => .error f
      | .ok os => .ok (o :: os)

/-! ### replacement -/

/-- one `drain(start..end)` + `insert(start, …)`; faults like `Vec::drain` on a bad range -/
def replaceOne {T} (mk : List T → Word → T) (ts : List T) (o : Occ) : Except Fault (List T) :=
  if o.start ≤ o.stop && o.stop ≤ ts.length then
    .ok (ts.take o.start ++ [mk ((ts.drop o.start).take (o.stop - o.start)) o.text] ++ ts.drop o.stop)
  else .error .drainRange

/-- `NumTracker::replace`: occurrences are processed last to first -/
def replaceAll {T} (mk : List T → Word → T) : List Occ → List T → Except Fault (List T)
  | [], ts => .ok ts
  | o :: os, ts =>
    match replaceOne mk ts o with
    | .error f => .error f
    | .ok ts' => replaceAll mk os ts'

def replaceStream {T} (mk : List T → Word → T) (toks : List T) (occs : List Occ) : Except Fault (List T) :=
  replaceAll mk occs.reverse toks

end T2N
