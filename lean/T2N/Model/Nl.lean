/- T2N.Model.Nl — STUB (to be replaced by the model of src/lang/nl/mod.rs) -/
import T2N.Model.Lang

namespace T2N.Nl

def lang : Lang where
  code := "nl"
  apply := fun _ b => (some .nan, b)
  applyDecimal := fun _ b => (some .nan, b)
  morph := fun _ => .none
  isDecSep := fun _ => false
  decMark := ','
  isLinking := fun _ => false

end T2N.Nl
