/-
  T2N.Model.Nl — model of `src/lang/nl/mod.rs` (struct `Dutch`).

  Dutch numbers are compounds ("drieënvijftigduizendtweehonderdvier"): `apply` first asks the
  `WordSplitter` whether the word splits into at least two pieces; if so the pieces are interpreted
  as a group on a fresh builder and the result is `put` into `b`.  Otherwise the word is looked up in
  the `match`.  No word occurs in two arms, so an arm whose `if` guard fails falls through to the
  final `_ => Err(Error::NaN)`.  There is no lemmatizer.
-/
import T2N.Model.Lang

namespace T2N.Nl

/-- The patterns of the `WordSplitter` (`impl Default for Dutch`), in the same order. -/
def patterns : List Word := [
  w!"honderd", w!"honderdste",
  w!"duizend", w!"duizendste",
  w!"miljoen", w!"miljoenste",
  w!"miljard", w!"miljardste",
  w!"biljoen", w!"biljoenste",
  w!"een",
  w!"drie",
  w!"zeven", w!"zevende",
  w!"negen", w!"negende",
  w!"tien", w!"tiende",
  w!"dertien", w!"dertiende",
  w!"veertien", w!"veertiende",
  w!"vijftien", w!"vijftiende",
  w!"zestien", w!"zestiende",
  w!"zeventien", w!"zeventiende",
  w!"achttien", w!"achttiende",
  w!"negentien", w!"negentiende",
  w!"zeventig", w!"zeventigste",
  w!"negentig", w!"negentigste",
  w!"en", w!"ën"
]

/-- units: `if b.is_free(2) => { to_block = Excludable::TENS; b.put(d) }` -/
def unit (d : Nat) : Act := .when (.free 2) (.block 1 (.put [d]))

/-- tens: `if !blocked.contains(Excludable::TENS) => b.put_digit_at(d, 1)` -/
def tens (d : Nat) : Act := .when (.neg (.flag 1)) (.putAt d 1)

/-- `"honderd" | "honderdste"` (no guard on the arm) -/
def hundred : Act :=
  .ite (.and (.peekLen 2 1) (.peekEq 2 [1])) (.fail .overlap) (.shift 2)

/-- `"duizend" | "duizendste" if b.is_range_free(3, 5)` -/
def thousand : Act :=
  .when (.rangeFree 3 5) (.ite (.peekEq 2 [1]) (.fail .overlap) (.shift 3))

/-- word ↦ instruction (the `match num_func { … }` of `apply`) -/
def vocab : List (Word × Act) := [
  (w!"nul", .put [0]),
  (w!"één", unit 1), (w!"een", unit 1), (w!"eerste", unit 1),
  (w!"twee", unit 2), (w!"tweede", unit 2),
  (w!"drie", unit 3), (w!"derde", unit 3),
  (w!"vier", unit 4), (w!"vierde", unit 4),
  (w!"vijf", unit 5), (w!"vijfde", unit 5),
  (w!"zes", unit 6), (w!"zesde", unit 6),
  (w!"zeven", unit 7), (w!"zevende", unit 7),
  (w!"acht", unit 8), (w!"achtste", unit 8),
  (w!"negen", unit 9), (w!"negende", unit 9),
  (w!"tien", .put [1,0]), (w!"tiende", .put [1,0]),
  (w!"elf", .put [1,1]), (w!"elfde", .put [1,1]),
  (w!"twaalf", .put [1,2]), (w!"twaalfde", .put [1,2]),
  (w!"dertien", .put [1,3]), (w!"dertiende", .put [1,3]),
  (w!"veertien", .put [1,4]), (w!"veertiende", .put [1,4]),
  (w!"vijftien", .put [1,5]), (w!"vijftiende", .put [1,5]),
  (w!"zestien", .put [1,6]), (w!"zestiende", .put [1,6]),
  (w!"zeventien", .put [1,7]), (w!"zeventiende", .put [1,7]),
  (w!"achttien", .put [1,8]), (w!"achttiende", .put [1,8]),
  (w!"negentien", .put [1,9]), (w!"negentiende", .put [1,9]),
  (w!"twintig", tens 2), (w!"twintigste", tens 2),
  (w!"dertig", tens 3), (w!"dertigste", tens 3),
  (w!"veertig", tens 4), (w!"veertigste", tens 4),
  (w!"vijftig", tens 5), (w!"vijftigste", tens 5),
  (w!"zestig", tens 6), (w!"zestigste", tens 6),
  (w!"zeventig", tens 7), (w!"zeventigste", tens 7),
  (w!"tachtig", tens 8), (w!"tachtigste", tens 8),
  (w!"negentig", tens 9), (w!"negentigste", tens 9),
  (w!"honderd", hundred), (w!"honderdste", hundred),
  (w!"duizend", thousand), (w!"duizendste", thousand),
  (w!"miljoen", .when (.rangeFree 6 8) (.shift 6)), (w!"miljoenste", .when (.rangeFree 6 8) (.shift 6)),
  (w!"miljard", .shift 9), (w!"miljardste", .shift 9),
  (w!"biljoen", .shift 12), (w!"biljoenste", .shift 12),
  (w!"en", .fail .incomplete), (w!"ën", .fail .incomplete)
]

/-- `get_morph_marker` -/
def morph (w : Word) : Marker :=
  if endsWith w w!"ste" || endsWith w w!"de" then .ordinal .nlE else .none

/-- `apply`. The fuel bounds the compound recursion `apply → exec_group → apply`: a piece produced by
the splitter is either a pattern (whose leftmost-longest match is the whole piece) or a gap (which
contains no match), hence never splittable again, so depth 2 is never exceeded (`applyFuel 0` is
unreachable).

Note the asymmetry in the post-processing of the plain branch: the builder is frozen when the word
ends with "te" or "de", whereas `get_morph_marker` tests "ste" / "de"; for a word ending in "te" but
not "ste" the marker would be reset to `None` while the builder is frozen (no such word is in the
vocabulary, so this cannot happen on the `Ok` path). The compound branch touches neither `flags`
nor, on failure, anything else. -/
def applyFuel : Nat → Word → DS → Res × DS
  | 0, _, b => (some .nan, b)
  | fuel + 1, w, b =>
    if isSplittable patterns w then
      match execGroup (applyFuel fuel) (splitWord patterns w) with
      | .ok ds => mergeGroup b ds false ds.marker
      | .error e => (some e, b)
    else
      let act := (vocab.lookup w).getD (.fail .nan)
      let (r, b', toBlock) := act.exec b
      if r.isNone then
        let b' := { b' with flags := toBlock }
        if endsWith w w!"te" || endsWith w w!"de" then
          (r, { b' with marker := morph w, frozen := true })
        else (r, b')
      else (r, { b' with flags := 0 })

def apply : Word → DS → Res × DS := applyFuel 2

/-- `apply_decimal` simply delegates to `apply`. -/
def applyDecimal : Word → DS → Res × DS := apply

def insignificant : List Word := [
  w!"ja", w!"dus", w!"plus", w!"uh", w!"dan", w!"min", w!"dat", w!"is"]

def lang : Lang where
  code := "nl"
  apply := apply
  applyDecimal := applyDecimal
  morph := morph
  isDecSep := fun w => w == w!"komma"
  decMark := ','
  isLinking := fun w => insignificant.contains w

end T2N.Nl
