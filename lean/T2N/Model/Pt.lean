/- T2N.Model.Pt — STUB (to be replaced by the model of src/lang/pt/mod.rs) -/
import T2N.Model.Lang

namespace T2N.Pt

def lang : Lang where
  code := "pt"
  apply := fun _ b => (some .nan, b)
  applyDecimal := fun _ b => (some .nan, b)
  morph := fun _ => .none
  isDecSep := fun _ => false
  decMark := ','
  isLinking := fun _ => false

end T2N.Pt
