/-
  T2N.Model.Pt — model of `src/lang/pt/mod.rs` (struct `Portuguese`).

  Peculiarities of this interpreter (all modelled literally):
  * a pre-check `!b.is_empty() && num_marker != b.marker ⇒ Err(Overlap)` that leaves the builder
    (flags included) untouched;
  * the guard `smaller_blocked` depends on the marker of the *incoming word* (`num_marker.is_none()`),
    so the vocabulary is parameterised by that Boolean;
  * the builder flags are rewritten after every `match`: `Ok ⇒ next_restrictions`,
    `Err(Incomplete) ⇒ CONJUNCTION`, any other error ⇒ 0;
  * no lemma occurs in two arms of the `match`, hence a failing `if` guard always ends in
    `_ => Err(NaN)`.
-/
import T2N.Model.Lang

namespace T2N.Pt

/-- `Restriction::CONJUNCTION` -/
def CONJUNCTION : Nat := 1
/-- `Restriction::ONLY_MULTIPLIERS` -/
def ONLY_MULTIPLIERS : Nat := 2

/-- `lemmatize`: the `if / else if` chain, in order. `trim_end_matches` strips *repeatedly*. -/
def lemmatize (w : Word) : Word :=
  if endsWith w w!"a" then trimEndBy (· == 'a') w
  else if endsWith w w!"as" && w != w!"duas" then trimEndStr w!"as" w
  else if endsWith w w!"o" && w != w!"zero" then trimEndBy (· == 'o') w
  else if endsWith w w!"os" then trimEndStr w!"os" w
  else w

/-- lemmas for which `get_morph_marker` keeps the probable marker (besides `…im`) -/
def ordinalLemmas : List Word := [
  w!"primeir", w!"segund", w!"terceir", w!"quart", w!"quint", w!"sext", w!"sétim", w!"oitav", w!"non"]

/-- `get_morph_marker` -/
def morph (w : Word) : Marker :=
  let lemma := lemmatize w
  let prob : Option Marker :=
    if endsWith w w!"a" then some (.ordinal .fa)
    else if endsWith w w!"as" then some (.ordinal .fas)
    else if endsWith w w!"o" then some (.ordinal .mo)
    else if endsWith w w!"os" then some (.ordinal .mos)
    else none
  match prob with
  | none => .none
  | some m =>
    if ordinalLemmas.contains lemma then m
    else if endsWith lemma w!"im" then m
    else .none

/-- `only_multipliers = restrictions.contains(ONLY_MULTIPLIERS)` -/
def onlyMult : Guard := .flag ONLY_MULTIPLIERS

/-- `smaller_blocked = only_multipliers || !restrictions.contains(CONJUNCTION) && num_marker.is_none() && !b.is_free(4)`;
`mnone` is `num_marker.is_none()` (a property of the word, not of the builder). -/
def smallerBlocked (mnone : Bool) : Guard :=
  if mnone then .or onlyMult (.and (.neg (.flag CONJUNCTION)) (.neg (.free 4)))
  else onlyMult

/-- cardinal units: `if b.peek(2) != b"10" && !smaller_blocked => b.put(d)` -/
def unit (mnone : Bool) (d : Nat) : Act :=
  .when (.and (.neg (.peekEq 2 [1, 0])) (.neg (smallerBlocked mnone))) (.put [d])

/-- `if !smaller_blocked => b.put(ds)` -/
def small (mnone : Bool) (ds : List Nat) : Act := .when (.neg (smallerBlocked mnone)) (.put ds)

/-- `if !only_multipliers => b.put(ds)` -/
def hundreds (ds : List Nat) : Act := .when (.neg onlyMult) (.put ds)

/-- the "mil" | "milésim" arm -/
def mil : Act :=
  .when (.and (.rangeFree 3 5) (.or onlyMult (.neg (.peekEq 3 [1, 0, 0]))))
    (.ite (.peekEq 2 [1]) (.fail .overlap) (.shift 3))

def milhao : Act := .when (.rangeFree 6 8) (.shift 6)

/-- lemma ↦ instruction (the `match lemmatize(num_func) { … }` of `apply`);
`mnone = num_marker.is_none()`. -/
def vocab (mnone : Bool) : List (Word × Act) := [
  (w!"zero", .put [0]),
  (w!"um", unit mnone 1),
  (w!"primeir", .put [1]),
  (w!"dois", unit mnone 2), (w!"duas", unit mnone 2),
  (w!"segund", .put [2]),
  (w!"três", unit mnone 3), (w!"tres", unit mnone 3),
  (w!"terceir", .put [3]),
  (w!"quatr", unit mnone 4),
  (w!"quart", .put [4]),
  (w!"cinc", unit mnone 5),
  (w!"quint", .put [5]),
  (w!"seis", unit mnone 6),
  (w!"sext", .put [6]),
  (w!"sete", unit mnone 7),
  (w!"sétim", .put [7]),
  (w!"oit", unit mnone 8),
  (w!"oitav", .put [8]),
  (w!"nove", unit mnone 9),
  (w!"non", small mnone [9]),
  (w!"dez", small mnone [1,0]), (w!"décim", small mnone [1,0]),
  (w!"onze", small mnone [1,1]), (w!"undécim", small mnone [1,1]),
  (w!"doze", small mnone [1,2]), (w!"duodécim", small mnone [1,2]),
  (w!"treze", small mnone [1,3]),
  (w!"catorze", small mnone [1,4]), (w!"quatorze", small mnone [1,4]),
  (w!"quinze", small mnone [1,5]),
  (w!"dezasseis", small mnone [1,6]), (w!"dezesseis", small mnone [1,6]),
  (w!"dezassete", small mnone [1,7]), (w!"dezessete", small mnone [1,7]),
  (w!"dezoit", small mnone [1,8]),
  (w!"dezanove", small mnone [1,9]), (w!"dezenove", small mnone [1,9]),
  (w!"vinte", small mnone [2,0]), (w!"vigésim", small mnone [2,0]),
  (w!"trint", small mnone [3,0]), (w!"trigésim", small mnone [3,0]),
  (w!"quarent", small mnone [4,0]), (w!"quadragésim", small mnone [4,0]),
  (w!"cinquent", small mnone [5,0]), (w!"cinqüent", small mnone [5,0]),
  (w!"quinquagésim", small mnone [5,0]), (w!"qüinquagésim", small mnone [5,0]),
  (w!"sessent", small mnone [6,0]), (w!"sexagésim", small mnone [6,0]),
  (w!"setent", small mnone [7,0]), (w!"septuagésim", small mnone [7,0]), (w!"setuagésim", small mnone [7,0]),
  (w!"oitent", small mnone [8,0]), (w!"octogésim", small mnone [8,0]),
  (w!"novent", small mnone [9,0]), (w!"nonagésim", small mnone [9,0]),
  (w!"cem", .when (.neg onlyMult) (.block ONLY_MULTIPLIERS (.put [1,0,0]))),
  (w!"cent", hundreds [1,0,0]), (w!"centésim", hundreds [1,0,0]),
  (w!"duzent", hundreds [2,0,0]), (w!"ducentésim", hundreds [2,0,0]),
  (w!"trezent", hundreds [3,0,0]), (w!"trecentésim", hundreds [3,0,0]), (w!"tricentésim", hundreds [3,0,0]),
  (w!"quatrocent", hundreds [4,0,0]), (w!"quadringentésim", hundreds [4,0,0]),
  (w!"quinhent", hundreds [5,0,0]), (w!"quingentésim", hundreds [5,0,0]), (w!"qüingentésim", hundreds [5,0,0]),
  (w!"seiscent", hundreds [6,0,0]), (w!"sexcentésim", hundreds [6,0,0]), (w!"seiscentésim", hundreds [6,0,0]),
  (w!"setecent", hundreds [7,0,0]), (w!"septingentésim", hundreds [7,0,0]),
  (w!"oitocent", hundreds [8,0,0]), (w!"octingentésim", hundreds [8,0,0]),
  (w!"novecent", hundreds [9,0,0]), (w!"noningentésim", hundreds [9,0,0]), (w!"nongentésim", hundreds [9,0,0]),
  (w!"mil", mil), (w!"milésim", mil),
  (w!"milhã", milhao), (w!"milhões", milhao), (w!"milionésim", milhao),
  (w!"bilhã", .shift 9), (w!"biliã", .shift 9), (w!"bilhões", .shift 9), (w!"biliões", .shift 9),
  (w!"bilionésim", .shift 9),
  (w!"e", .when (.and (.lenGe 2) (.and .markerNone (.neg onlyMult))) (.fail .incomplete))
]

/-- `apply` -/
def apply (w : Word) (b : DS) : Res × DS :=
  let numMarker := morph w
  if !b.isEmpty && numMarker != b.marker then (some .overlap, b)
  else
    let act := ((vocab numMarker.isNone).lookup (lemmatize w)).getD (.fail .nan)
    let (r, b', next) := act.exec b
    match r with
    | none => (r, { b' with marker := numMarker, flags := next })
    | some .incomplete => (r, { b' with flags := CONJUNCTION })
    | some _ => (r, { b' with flags := 0 })

/-- `apply_decimal` is `apply` -/
def applyDecimal (w : Word) (b : DS) : Res × DS := apply w b

def insignificant : List Word := [
  w!"eh", w!"então", w!"bem", w!"isso", w!"outra vez", w!"e", w!"uh", w!"ha", w!"ah", w!"hu", w!"um",
  w!"menos", w!"ok", w!"sim", w!"mais", w!"aí está",
  w!"digo", w!"ou", w!"seja", w!"aquele", w!"é", w!"aquilo", w!"em", w!"fim", w!"mais tarde", w!"mas",
  w!"ei", w!"agora", w!"hum", w!"não", w!"com", w!"são", w!"novamente"]

def lang : Lang where
  code := "pt"
  apply := apply
  applyDecimal := applyDecimal
  morph := morph
  isDecSep := fun w => w == w!"vírgula"
  decMark := ','
  isLinking := fun w => insignificant.contains w

end T2N.Pt
