/-
  T2N.Model.Script — the scripted interpreter of the harness (`harness/src/script.rs`): words are
  opcodes. Used to compare the *generic* scanner code with its model independently of any vocabulary.
-/
import T2N.Model.Lang

namespace T2N.Script

def digitOf (c : Char) : Option Nat :=
  if '1' ≤ c && c ≤ '9' then some (c.toNat - 48) else none

def apply (w : Word) (b : DS) : Res × DS :=
  match w with
  | ['z'] => b.put [0]
  | ['d', k] => match digitOf k with | some d => b.put [d] | none => (some .nan, b)
  | ['t', k] => match digitOf k with | some d => b.put [d, 0] | none => (some .nan, b)
  | ['o', k] =>
    match digitOf k with
    | some d =>
      let (r, b') := b.put [d]
      if r.isNone then (r, { b' with marker := .ordinal .th, frozen := true }) else (r, b')
    | none => (some .nan, b)
  | ['e', k] =>   -- a digit that freezes the number without a marker (like German `eins`)
    match digitOf k with
    | some d =>
      let (r, b') := b.put [d]
      if r.isNone then (r, { b' with frozen := true }) else (r, b')
    | none => (some .nan, b)
  | ['h'] => b.shift 2
  | ['a', 'n', 'd'] => if !b.isEmpty then (some .incomplete, b) else (some .nan, b)
  | ['c', 'j'] => (some .incomplete, b)   -- unguarded conjunction, not a linking word (German `und`, Dutch `en`)
  | _ => (some .nan, b)

def applyDecimal (w : Word) (b : DS) : Res × DS :=
  match w with
  | ['z'] => b.push [0]
  | ['d', k] => match digitOf k with | some d => b.push [d] | none => (some .nan, b)
  | _ => (some .nan, b)

def lang : Lang where
  code := "script"
  apply := apply
  applyDecimal := applyDecimal
  morph := fun _ => .none
  isDecSep := fun w => w == ['p', 't']
  decMark := '.'
  isLinking := fun w => w == ['l', 'k'] || w == ['a', 'n', 'd']

end T2N.Script
