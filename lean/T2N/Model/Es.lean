/-
  T2N.Model.Es — model of `src/lang/es/mod.rs` (struct `Spanish`).
-/
import T2N.Model.Lang

namespace T2N.Es

/-- `lemmatize`. Rust: `if word.ends_with("os") && word != "dos" || word.ends_with("as")`
(`&&` binds tighter than `||`) strip *all* trailing `s` (`trim_end_matches('s')`);
`else if word.ends_with("es") && word != "tres"` strip the string `"es"` repeatedly. -/
def lemmatize (w : Word) : Word :=
  if (endsWith w w!"os" && w != w!"dos") || endsWith w w!"as" then trimEndBy (· == 's') w
  else if endsWith w w!"es" && w != w!"tres" then trimEndStr w!"es" w
  else w

/-- units: `if b.peek(2) != b"10" && b.peek(2) != b"20" => b.put(d)` -/
def unit (d : Nat) : Act :=
  .when (.and (.neg (.peekEq 2 [1, 0])) (.neg (.peekEq 2 [2, 0]))) (.put [d])

/-- `"mil" | … if b.is_range_free(3, 5) => if b.peek(2) == b"1" { Err(Overlap) } else { b.shift(3) }` -/
def mil : Act :=
  .when (.rangeFree 3 5) (.ite (.peekEq 2 [1]) (.fail .overlap) (.shift 3))

def millon : Act := .when (.rangeFree 6 8) (.shift 6)

/-- lemma ↦ instruction (the `match lemmatize(num_func) { … }` of `apply`).
No lemma occurs in two arms ("segundo" and "segunda" are distinct arms), so a failing guard
falls through to `_ => Err(NaN)`. -/
def vocab : List (Word × Act) := [
  (w!"cero", .put [0]),
  (w!"un", unit 1), (w!"uno", unit 1), (w!"una", unit 1),
  (w!"primer", .put [1]), (w!"primero", .put [1]), (w!"primera", .put [1]),
  (w!"dos", unit 2),
  (w!"segundo", .when .markerOrd (.put [2])),
  (w!"segunda", .put [2]),
  (w!"tres", unit 3),
  (w!"tercer", .put [3]), (w!"tercero", .put [3]), (w!"tercera", .put [3]),
  (w!"cuatro", unit 4),
  (w!"cuarto", .put [4]), (w!"cuarta", .put [4]),
  (w!"cinco", unit 5),
  (w!"quinto", .put [5]), (w!"quinta", .put [5]),
  (w!"seis", unit 6),
  (w!"sexto", .put [6]), (w!"sexta", .put [6]),
  (w!"siete", unit 7),
  (w!"séptimo", .put [7]), (w!"séptima", .put [7]),
  (w!"ocho", unit 8),
  (w!"octavo", .put [8]), (w!"octava", .put [8]),
  (w!"nueve", unit 9),
  (w!"noveno", .put [9]), (w!"novena", .put [9]),
  (w!"diez", .put [1,0]), (w!"décimo", .put [1,0]), (w!"décima", .put [1,0]),
  (w!"once", .put [1,1]), (w!"undécimo", .put [1,1]), (w!"undécima", .put [1,1]),
  (w!"decimoprimero", .put [1,1]), (w!"decimoprimera", .put [1,1]), (w!"onceavo", .put [1,1]),
  (w!"doce", .put [1,2]), (w!"duodécimo", .put [1,2]), (w!"duodécima", .put [1,2]),
  (w!"decimosegundo", .put [1,2]), (w!"decimosegunda", .put [1,2]), (w!"doceavo", .put [1,2]),
  (w!"trece", .put [1,3]), (w!"decimotercero", .put [1,3]), (w!"decimotercera", .put [1,3]),
  (w!"treceavo", .put [1,3]),
  (w!"catorce", .put [1,4]), (w!"decimocuarto", .put [1,4]), (w!"decimocuarta", .put [1,4]),
  (w!"catorceavo", .put [1,4]),
  (w!"quince", .put [1,5]), (w!"decimoquinto", .put [1,5]), (w!"decimoquinta", .put [1,5]),
  (w!"quinceavo", .put [1,5]),
  (w!"dieciseis", .put [1,6]), (w!"dieciséis", .put [1,6]), (w!"decimosexto", .put [1,6]),
  (w!"decimosexta", .put [1,6]), (w!"deciseisavo", .put [1,6]),
  (w!"diecisiete", .put [1,7]), (w!"decimoséptimo", .put [1,7]), (w!"decimoséptima", .put [1,7]),
  (w!"diecisieteavo", .put [1,7]),
  (w!"dieciocho", .put [1,8]), (w!"decimoctavo", .put [1,8]), (w!"decimoctava", .put [1,8]),
  (w!"dieciochoavo", .put [1,8]),
  (w!"diecinueve", .put [1,9]), (w!"decimonoveno", .put [1,9]), (w!"decimonovena", .put [1,9]),
  (w!"decinueveavo", .put [1,9]),
  (w!"veinte", .put [2,0]), (w!"vigésimo", .put [2,0]), (w!"vigésima", .put [2,0]),
  (w!"veintavo", .put [2,0]), (w!"veinteavo", .put [2,0]),
  (w!"veintiuno", .put [2,1]), (w!"veintiuna", .put [2,1]), (w!"veintiún", .put [2,1]),
  (w!"veintiunoavo", .put [2,1]),
  (w!"veintidós", .put [2,2]), (w!"veintidos", .put [2,2]), (w!"veintidosavo", .put [2,2]),
  (w!"veintitrés", .put [2,3]), (w!"veintitres", .put [2,3]), (w!"veintitresavo", .put [2,3]),
  (w!"veinticuatro", .put [2,4]), (w!"veinticuatroavo", .put [2,4]),
  (w!"veinticinco", .put [2,5]), (w!"veinticincoavo", .put [2,5]),
  (w!"veintiseis", .put [2,6]), (w!"veintiséis", .put [2,6]), (w!"veintiseisavo", .put [2,6]),
  (w!"veintisiete", .put [2,7]), (w!"veintisieteavo", .put [2,7]),
  (w!"veintiocho", .put [2,8]), (w!"veintiochoavo", .put [2,8]),
  (w!"veintinueve", .put [2,9]), (w!"veintinueveavo", .put [2,9]),
  (w!"treinta", .put [3,0]), (w!"trigésimo", .put [3,0]), (w!"trigésima", .put [3,0]),
  (w!"treintavo", .put [3,0]),
  (w!"cuarenta", .put [4,0]), (w!"cuadragésimo", .put [4,0]), (w!"cuadragésima", .put [4,0]),
  (w!"cuarentavo", .put [4,0]),
  (w!"cincuenta", .put [5,0]), (w!"quincuagésimo", .put [5,0]), (w!"quincuagésima", .put [5,0]),
  (w!"cincuentavo", .put [5,0]),
  (w!"sesenta", .put [6,0]), (w!"sexagésimo", .put [6,0]), (w!"sexagésima", .put [6,0]),
  (w!"sesentavo", .put [6,0]),
  (w!"setenta", .put [7,0]), (w!"septuagésimo", .put [7,0]), (w!"septuagésima", .put [7,0]),
  (w!"setentavo", .put [7,0]),
  (w!"ochenta", .put [8,0]), (w!"octogésimo", .put [8,0]), (w!"octogésima", .put [8,0]),
  (w!"ochentavo", .put [8,0]),
  (w!"noventa", .put [9,0]), (w!"nonagésimo", .put [9,0]), (w!"nonagésima", .put [9,0]),
  (w!"noventavo", .put [9,0]),
  (w!"cien", .put [1,0,0]), (w!"ciento", .put [1,0,0]), (w!"cienta", .put [1,0,0]),
  (w!"centésimo", .put [1,0,0]), (w!"centésima", .put [1,0,0]), (w!"centavo", .put [1,0,0]),
  (w!"dosciento", .put [2,0,0]), (w!"doscienta", .put [2,0,0]),
  (w!"ducentésimo", .put [2,0,0]), (w!"ducentésima", .put [2,0,0]),
  (w!"tresciento", .put [3,0,0]), (w!"trescienta", .put [3,0,0]),
  (w!"tricentésimo", .put [3,0,0]), (w!"tricentésima", .put [3,0,0]),
  (w!"cuatrociento", .put [4,0,0]), (w!"cuatrocienta", .put [4,0,0]),
  (w!"cuadringentésimo", .put [4,0,0]), (w!"cuadringentésima", .put [4,0,0]),
  (w!"quadringentésimo", .put [4,0,0]), (w!"quadringentésima", .put [4,0,0]),
  (w!"quiniento", .put [5,0,0]), (w!"quinienta", .put [5,0,0]),
  (w!"quingentésimo", .put [5,0,0]), (w!"quingentésima", .put [5,0,0]),
  (w!"seisciento", .put [6,0,0]), (w!"seiscienta", .put [6,0,0]),
  (w!"sexcentésimo", .put [6,0,0]), (w!"sexcentésima", .put [6,0,0]),
  (w!"seteciento", .put [7,0,0]), (w!"setecienta", .put [7,0,0]),
  (w!"septingentésimo", .put [7,0,0]), (w!"septingentésima", .put [7,0,0]),
  (w!"ochociento", .put [8,0,0]), (w!"ochocienta", .put [8,0,0]),
  (w!"octingentésimo", .put [8,0,0]), (w!"octingentésima", .put [8,0,0]),
  (w!"noveciento", .put [9,0,0]), (w!"novecienta", .put [9,0,0]),
  (w!"noningentésimo", .put [9,0,0]), (w!"noningentésima", .put [9,0,0]),
  (w!"mil", mil), (w!"milésimo", mil), (w!"milésima", mil),
  (w!"millon", millon), (w!"millón", millon), (w!"millonésimo", millon), (w!"millonésima", millon),
  (w!"y", .when (.lenGe 2) (.fail .incomplete))
]

def mascOrdinals : List Word := [
  w!"primero", w!"segundo", w!"tercero", w!"cuarto", w!"quinto", w!"sexto", w!"séptimo",
  w!"octavo", w!"ctavo", w!"noveno"]

def femOrdinals : List Word := [
  w!"primera", w!"segunda", w!"tercera", w!"cuarta", w!"quinta", w!"sexta", w!"séptima",
  w!"octava", w!"ctava", w!"novena"]

/-- `get_morph_marker` -/
def morph (w : Word) : Marker :=
  let sing := trimStartStr w!"decimo" (lemmatize w)
  let isPlur := endsWith w w!"s"
  if sing == w!"primer" then .ordinal .esPrimer
  else if mascOrdinals.contains sing then .ordinal (if isPlur then .mos else .mo)
  else if femOrdinals.contains sing then .ordinal (if isPlur then .fas else .fa)
  else if endsWith sing w!"imo" then .ordinal (if isPlur then .mos else .mo)
  else if endsWith sing w!"ima" then .ordinal (if isPlur then .fas else .fa)
  else if endsWith sing w!"avo" then .fraction .avo
  else .none

/-- `apply` -/
def apply (w : Word) (b : DS) : Res × DS :=
  let numMarker := morph w
  if !b.isEmpty && numMarker != b.marker && !numMarker.isFraction then (some .overlap, b)
  else
    let act := (vocab.lookup (lemmatize w)).getD (.fail .nan)
    let (r, b', _) := act.exec b
    if r.isNone then
      let b'' := { b' with marker := numMarker }
      (r, if numMarker.isFraction then b''.freeze else b'')
    else (r, b')

/-- `apply_decimal` = `apply` -/
def applyDecimal (w : Word) (b : DS) : Res × DS := apply w b

def insignificant : List Word := [
  w!"pues", w!"y", w!"digo", w!"o", w!"sea", w!"entonces", w!"así", w!"que", w!"bueno", w!"es",
  w!"eso", w!"en", w!"fin", w!"luego", w!"mas", w!"menos", w!"pero", w!"vale", w!"eh", w!"ah",
  w!"oye", w!"ya", w!"hum", w!"ok", w!"sí", w!"no", w!"con", w!"son"]

def lang : Lang where
  code := "es"
  apply := apply
  applyDecimal := applyDecimal
  morph := morph
  isDecSep := fun w => w == w!"coma"
  decMark := ','
  isLinking := fun w => insignificant.contains w

end T2N.Es
