/- T2N.Model.Es — STUB (to be replaced by the model of src/lang/es/mod.rs) -/
import T2N.Model.Lang

namespace T2N.Es

def lang : Lang where
  code := "es"
  apply := fun _ b => (some .nan, b)
  applyDecimal := fun _ b => (some .nan, b)
  morph := fun _ => .none
  isDecSep := fun _ => false
  decMark := ','
  isLinking := fun _ => false

end T2N.Es
