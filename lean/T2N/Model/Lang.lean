/-
  T2N.Model.Lang — the interpreter interface (`trait LangInterpreter`) and the small instruction
  language in which the `match` arms of the seven `apply` functions are written.

  A Rust arm such as

      "one" | "first" | "oneth" if b.peek(2) != b"10" => b.put(b"1"),

  becomes the vocabulary entries `one, first, oneth ↦ .ite (.neg (.peekEq 2 [1,0])) (.put [1]) (.fail .nan)`
  (a guard that fails falls through to the final `_ => Err(NaN)` arm, because no word occurs in two arms;
  the exceptions are written out in the language files).
-/
import T2N.Model.DS

namespace T2N

inductive Guard where
  | tt
  | neg (g : Guard)
  | and (a b : Guard)
  | or (a b : Guard)
  | peekEq (k : Nat) (ds : List Nat)      -- `b.peek(k) == ds`
  | peekLt (k : Nat) (ds : List Nat)      -- `b.peek(k) < ds` (byte-lexicographic)
  | peekLen (k n : Nat)                   -- `b.peek(k).len() == n`
  | free (k : Nat)                        -- `b.is_free(k)`
  | empty                                 -- `b.is_empty()`
  | null                                  -- `b.is_null()`
  | rangeFree (s e : Nat)                 -- `b.is_range_free(s, e)` (literals with `s < e`)
  | lenGe (n : Nat)                       -- `b.len() >= n`
  | lenEq (n : Nat)                       -- `b.len() == n`
  | flag (m : Nat)                        -- `flags.contains(m)`
  | markerOrd                             -- `b.marker.is_ordinal()`
  | markerNone                            -- `b.marker.is_none()`
  | groupOne (k : Nat)                    -- it: `group_is_one(b, k)`
  deriving Repr, Inhabited

inductive Act where
  | put (ds : List Nat)
  | fput (ds : List Nat)
  | shift (k : Nat)
  | putAt (d p : Nat)
  | push (ds : List Nat)
  | fail (e : Err)
  | ite (g : Guard) (a b : Act)
  | block (m : Nat) (a : Act)             -- `to_block = m; a`
  deriving Repr, Inhabited

/-- `flags.contains(m)` for bitflags: all bits of `m` set. -/
def hasBits (flags m : Nat) : Bool := flags &&& m == m

def groupIsOne (b : DS) (k : Nat) : Bool :=
  match b.rbuf.take k with
  | [] => false
  | d :: rest => d == 1 && allZero rest

def Guard.eval (b : DS) : Guard → Bool
  | .tt => true
  | .neg g => !(g.eval b)
  | .and x y => x.eval b && y.eval b
  | .or x y => x.eval b || y.eval b
  | .peekEq k ds => b.peek k == ds
  | .peekLt k ds => lexLt (b.peek k) ds
  | .peekLen k n => (b.peek k).length == n
  | .free k => b.isFree k
  | .empty => b.isEmpty
  | .null => b.isNull
  | .rangeFree s e => b.rangeFree s e
  | .lenGe n => b.len ≥ n
  | .lenEq n => b.len == n
  | .flag m => hasBits b.flags m
  | .markerOrd => b.marker.isOrdinal
  | .markerNone => b.marker.isNone
  | .groupOne k => groupIsOne b k

/-- Run an instruction. Returns the status, the builder and the accumulated `to_block` value
(the last `block` executed on the path taken; 0 if none). -/
def Act.exec (b : DS) : Act → Res × DS × Nat
  | .put ds => let (r, b') := b.put ds; (r, b', 0)
  | .fput ds => let (r, b') := b.fput ds; (r, b', 0)
  | .shift k => let (r, b') := b.shift k; (r, b', 0)
  | .putAt d p => let (r, b') := b.putDigitAt d p; (r, b', 0)
  | .push ds => let (r, b') := b.push ds; (r, b', 0)
  | .fail e => (some e, b, 0)
  | .ite g x y => if g.eval b then x.exec b else y.exec b
  | .block m a => let (r, b', _) := a.exec b; (r, b', m)

/-- `guard ? act : Err(NaN)` — an arm with an `if` guard. -/
def Act.when (g : Guard) (a : Act) : Act := .ite g a (.fail .nan)

/-- `LangInterpreter::exec_group`, generic in the per-word function. -/
def execGroupFrom (apply : Word → DS → Res × DS) : List Word → DS → Bool → Except Err DS
  | [], b, inc => if inc then .error .incomplete else .ok b
  | w :: ws, b, _ =>
    match apply w b with
    | (none, b') => execGroupFrom apply ws b' false
    | (some .incomplete, b') => execGroupFrom apply ws b' true
    | (some e, _) => .error e

def execGroup (apply : Word → DS → Res × DS) (ws : List Word) : Except Err DS :=
  execGroupFrom apply ws DS.new false

/-- What every compound branch (`-` groups in en/fr, split compounds in de/nl/it) does with the
sub-builder `ds` once the group has been interpreted. -/
def mergeGroup (b ds : DS) (copyFlags : Bool) (marker : Marker) : Res × DS :=
  if ds.len > 3 && ds.len ≤ 6 && !b.rangeFree 3 5 then (some .overlap, b)
  else
    match b.put ds.rbuf.reverse with       -- `b.put(&ds)`: `Deref` gives the buffer without leading zeroes
    | (some e, b') => (some e, b')
    | (none, b') =>
      let b' := if copyFlags then { b' with flags := ds.flags } else b'
      (none, if marker.isOrdinal then { b' with marker := marker, frozen := true } else b')

/-! ### compound splitting (`WordSplitter`, crate daachorse, `MatchKind::LeftmostLongest`) -/

/-- length of the longest pattern that is a prefix of `s` -/
def longestAt (pats : List Word) (s : Word) : Option Nat :=
  pats.foldl (fun acc p =>
    if p.isPrefixOf s && !p.isEmpty then
      match acc with
      | none => some p.length
      | some n => some (max n p.length)
    else acc) none

/-- first leftmost-longest match: (start, end) in characters -/
def firstMatch (pats : List Word) : Word → Nat → Option (Nat × Nat)
  | [], _ => none
  | c :: cs, i =>
    match longestAt pats (c :: cs) with
    | some n => some (i, i + n)
    | none => firstMatch pats cs (i + 1)

def isSplittable (pats : List Word) (w : Word) : Bool :=
  match firstMatch pats w 0 with
  | some (s, e) => s > 0 || e < w.length
  | none => false

/-- `WordSplitter::split`: the pieces (matches and the gaps between them), in order. -/
def splitWordFuel (pats : List Word) : Nat → Word → Word → List Word
  | 0, _, gap => if gap.isEmpty then [] else [gap.reverse]
  | _ + 1, [], gap => if gap.isEmpty then [] else [gap.reverse]
  | fuel + 1, c :: cs, gap =>
    match longestAt pats (c :: cs) with
    | some n =>
      (if gap.isEmpty then [] else [gap.reverse]) ++ [(c :: cs).take n] ++
        splitWordFuel pats fuel ((c :: cs).drop n) []
    | none => splitWordFuel pats fuel cs (c :: gap)

def splitWord (pats : List Word) (w : Word) : List Word := splitWordFuel pats (w.length + 1) w []

/-- `str::split(c)` -/
def splitOnChar (c : Char) (w : Word) : List Word :=
  let rec go : Word → Word → List Word
    | [], cur => [cur.reverse]
    | x :: xs, cur => if x == c then cur.reverse :: go xs [] else go xs (x :: cur)
  go w []

/-- The services of `trait LangInterpreter`. -/
structure Lang where
  code : String
  apply : Word → DS → Res × DS
  applyDecimal : Word → DS → Res × DS
  morph : Word → Marker
  isDecSep : Word → Bool
  /-- decimal mark used by `format_decimal_and_value` -/
  decMark : Char
  isLinking : Word → Bool

/-- exact value of an occurrence: the f64 in Rust is `parse` of the corresponding decimal text -/
inductive Value where
  | dec (int : List Nat) (frac : List Nat)     -- "int.frac" (frac may be empty: an integer)
  | recip (int : List Nat)                     -- es fraction: `val.recip()`
  deriving DecidableEq, Repr, Inhabited

def markerSuffix : Marker → String
  | .ordinal m => m.str
  | _ => ""

/-- `format_and_value`; faults when the digit text is empty (`"".parse().unwrap()`). -/
def Lang.format (_l : Lang) (b : DS) : Except Fault (String × Value) :=
  if b.render.isEmpty then .error .parseEmpty
  else
    match b.marker with
    | .fraction _ => .ok ("1/" ++ b.toStr, .recip b.render)
    | .ordinal m => .ok (b.toStr ++ m.str, .dec b.render [])
    | .none => .ok (b.toStr, .dec b.render [])

/-- `format_decimal_and_value` (never faults: `"<int>.<dec>"` with possibly empty parts parses
unless both are empty; callers guarantee both non-empty — the fault is modelled for completeness). -/
def Lang.formatDecimal (l : Lang) (i d : DS) : Except Fault (String × Value) :=
  if i.render.isEmpty && d.render.isEmpty then .error .parseEmpty
  else .ok (i.toStr ++ String.singleton l.decMark ++ d.toStr, .dec i.render d.render)

end T2N
