/-
  T2N.Spec.SpellIt — Italian spellings: cardinals below 10^12 with their accepted variants,
  ordinals (four inflections), decimals, digit dictation. Written from Italian orthography
  (Treccani: `centouno (o centuno; anche cento uno e cento e uno)`, `ventitré`, `centottanta`,
  `centunesimo`, `centodecimo`) and the repository's tests (see DESIGN.md §3 C01, C04, C05).

  Standard orthography (`v = fun _ => 0`): every number below one million is ONE word
  (`duemilatrecentoquarantacinque`); `milione/milioni`, `miliardo/miliardi` are separate words
  (`un milione`, `due milioni duecentomila`). `mille` (1000) vs `Xmila`. Mandatory elisions: tens + `uno`/`otto`
  (`ventuno`, `ventotto`; never split: the tests reject `venti uno`, `venti otto`, `novantaotto`);
  `mille`/`mila` never elide (`milleotto`, `duemilaottanta`).

  Variant axes (independent per group / choice point; g = 0 units … 3 = 10^9):
    * compound vs split words, `pick v (cp g 0) 4` = split level of a word; the word below one million
      (groups 1 and 0 together) reads (cp 0 0), the multiplier of `milioni` (cp 2 0), of `miliardi` (cp 3 0).
      A word is split at ALL its boundaries of rank ≤ level, never partially:
        level 0  one word                     `duemilatrecentoquarantacinque`
        level 1  after `mila`/`mille`         `duemila trecentoquarantacinque`   (test: `…cinquemila duecento`)
        level 2  + after `cento`              `duemila trecento quarantacinque`  (Treccani `cento uno`)
        level 3  + between tens and units     `duemila trecento quaranta cinque` (test: `novanta cinque`)
      `mila` is a suffix: it is detached exactly when its multiplier is itself written in several words
      (`trecento quarantacinque mila`; the hybrid `trecento quarantacinquemila` would read 300, 45000).
      `trecento`, `duemila` themselves are never cut (`tre cento`, `due mila` are not included).
      Split forms carry no elision (`cento uno`, `cento ottanta`) and a detached `tre` no accent.
    * optional `e` after a scale word when something follows:
        after `miliardo/miliardi` (cp 3 1), after `milione/milioni` (cp 2 1),
        after `mille`/`…mila` when the word is split (level ≥ 1) (cp 1 1)        (test: `tremila e seicento`)
        after `cento` of the units group when split (level ≥ 2) (cp 0 2)         (test: `cento e uno`)
      (not after the `cento` of a multiplier: `cento e due mila` is ambiguous).
    * accent of a compound ending in `tre`: `ventitré` | `ventitre` (cp g 3)     (test: `trentatré`)
    * elision of `cento` (cp g 4): before `ottanta…`  `(due)centottanta` (std) | `(due)centoottanta`;
      before `otto`  `(due)centootto` (std) | `(due)centotto`; before `uno`  `centouno` (std) | `centuno`
      (bare `cento` only: `duecentuno` … `novecentuno` are not dictionary forms and the library rejects
      them, so the `uno` elision was removed for `Xcento`, X ≥ 2; `millecentuno`, `centunomila` remain).
    * apocope `ventuno milioni` | `ventun milioni` (tens + uno before milioni/miliardi) (cp g 5), g = 2, 3
      (test: `ventun`). `un milione`, `un miliardo` are the only forms for one.
    * scale words: `milione`/`miliardo` after `un`, `milioni`/`miliardi` otherwise (grammatical, no choice).

  Ordinals (1 … 10^6): `primo … decimo`; above ten the one-word cardinal without its final vowel + `-esimo`
  (`undicesimo`, `ventunesimo`), keeping the vowel of `tre`, `sei` (`ventitreesimo`, `ventiseiesimo`);
  `…mila` ↦ `…millesimo` (`duemillesimo`), `mille` ↦ `millesimo`, final `dieci` ↦ `decimo` (`centodecimo`),
  `milionesimo`. Always one word. The `cento` elision axis (cp 0 4) applies (`centounesimo` | `centunesimo`).
  Inflections: 0 `-o` "º", 1 `-a` "ª", 2 `-i` "º", 3 `-e` "ª". Not spelled: rank 2 masculine plural
  (`secondi` is the time unit: deliberate exclusion in the tests).

  No divergence of the library is known on the spellings kept here. Three findings of an earlier tree have
  been repaired in the library; the model accepts these spellings now (`#eval text2digitsWords It.lang [w!"…"]`):
    * `…centottantuno`, `…centottantotto` (181, 188, 281, …: standard elided forms) ↦ `181`, `188`, `281`, …,
      also inside ordinals (`centottantunesimo` ↦ `181º`), like `centottantadue` etc.
    * `centunesimo/a/i/e` (and `millecentunesimo` …) ↦ `101º`, `101ª`, … (`1101º`), like `centounesimo`.
    * `…decimo` in a compound (`centodecimo`, `milledecimo`, rank ≡ 10 mod 100 above ten) is converted
      with the ordinal marker (`110º`, `1010º`).

  Fractions: after `virgola` every leading zero is said `zero`, the remaining digits are read as one cardinal
  (with its own variant choices: choice points shifted by 64).
-/
import T2N.Spec.Basic

namespace T2N.Spec.It

def unitWords : List Word := [w!"zero", w!"uno", w!"due", w!"tre", w!"quattro", w!"cinque", w!"sei", w!"sette",
  w!"otto", w!"nove", w!"dieci", w!"undici", w!"dodici", w!"tredici", w!"quattordici", w!"quindici", w!"sedici",
  w!"diciassette", w!"diciotto", w!"diciannove"]

def tensWords : List Word := [[], [], w!"venti", w!"trenta", w!"quaranta", w!"cinquanta", w!"sessanta",
  w!"settanta", w!"ottanta", w!"novanta"]

def unitWord (n : Nat) : Word := unitWords.getD n []

def tensWord (t : Nat) : Word := tensWords.getD t []

def conj : Word := w!"e"

/-- 1..99 at split level `lvl` -/
def below100 (lvl n : Nat) : List Word :=
  if n < 20 then [unitWord n]
  else
    let t := n / 10
    let u := n % 10
    if u == 0 then [tensWord t]
    else if u == 1 || u == 8 then [(tensWord t).dropLast ++ unitWord u]     -- ventuno, ventotto
    else if lvl ≥ 3 then [tensWord t, unitWord u]
    else [tensWord t ++ unitWord u]

def hundredWord (h : Nat) : Word := if h == 1 then w!"cento" else unitWord h ++ w!"cento"

/-- `…cento` glued to the following word of the same group, with the elision choice -/
def glueCento (v : Var) (g : Nat) (c w : Word) : Word :=
  let alt := flag v (cp g 4)
  let elide : Bool :=
    if w!"ottant".isPrefixOf w then !alt
    else if w == w!"otto" then alt
    else if w == w!"uno" then alt && c == w!"cento"
    else false
  (if elide then c.dropLast else c) ++ w

/-- 1..999 at split level `lvl` -/
def group (v : Var) (g lvl n : Nat) : List Word :=
  let h := n / 100
  let r := n % 100
  if h == 0 then below100 lvl r
  else if r == 0 then [hundredWord h]
  else if lvl ≥ 2 then
    [hundredWord h] ++ (if g == 0 && flag v (cp 0 2) then [conj] else []) ++ below100 lvl r
  else
    match below100 lvl r with
    | w :: rest => glueCento v g (hundredWord h) w :: rest
    | [] => [hundredWord h]

/-- a compound ending in `tre` takes the accent (unless the variant drops it) -/
def accent (v : Var) (g : Nat) (w : Word) : Word :=
  if w.length > 3 && w!"tre".isSuffixOf w && !flag v (cp g 3) then w.dropLast ++ ['é'] else w

/-- thousands 1..999 with `mille` / `mila` (accent not yet applied) -/
def thousands (v : Var) (lvl n : Nat) : List Word :=
  if n == 1 then [w!"mille"]
  else
    match group v 1 lvl n with
    | [w] => [w ++ w!"mila"]
    | ws => ws ++ [w!"mila"]

/-- 1..999999: one word in standard orthography -/
def belowMillion (v : Var) (n : Nat) : List Word :=
  let lvl := pick v (cp 0 0) 4
  let g1 := n / 1000
  let g0 := n % 1000
  let p1 := thousands v lvl g1
  let p0 := group v 0 lvl g0
  if g1 == 0 then p0.map (accent v 0)
  else if g0 == 0 then p1.map (accent v 1)
  else if lvl == 0 then
    match p1, p0 with
    | [w1], [w0] => [accent v 0 (w1 ++ w0)]
    | _, _ => p1 ++ p0
  else
    p1.map (accent v 1) ++ (if flag v (cp 1 1) then [conj] else []) ++ p0.map (accent v 0)

def scaleWord (g : Nat) (plural : Bool) : Word :=
  match g, plural with
  | 2, false => w!"milione" | 2, true => w!"milioni"
  | _, false => w!"miliardo" | _, true => w!"miliardi"

/-- group `g ≥ 2` (0..999) followed by its scale word -/
def scaled (v : Var) (g n : Nat) : List Word :=
  if n == 0 then []
  else if n == 1 then [w!"un", scaleWord g false]
  else
    let lvl := pick v (cp g 0) 4
    let ws := group v g lvl n
    let apo := n % 10 == 1 && n % 100 > 20 && flag v (cp g 5)
    let ws := if apo then (match ws.reverse with | l :: rest => (l.dropLast :: rest).reverse | [] => ws) else ws
    ws.map (accent v g) ++ [scaleWord g true]

/-- cardinal, `n < 10^12` -/
def cardinal (v : Var) (n : Nat) : List Word :=
  if n == 0 then [w!"zero"]
  else
    let g3 := n / 1000000000 % 1000
    let g2 := n / 1000000 % 1000
    let lo := n % 1000000
    let p3 := scaled v 3 g3
    let p2 := scaled v 2 g2
    let p0 := if lo == 0 then [] else belowMillion v lo
    let l3 : List Word := if g3 != 0 && (g2 != 0 || lo != 0) && flag v (cp 3 1) then [conj] else []
    let l2 : List Word := if g2 != 0 && lo != 0 && flag v (cp 2 1) then [conj] else []
    p3 ++ l3 ++ p2 ++ l2 ++ p0

/-! ### ordinals -/

def ordUnitStems : List Word := [[], w!"prim", w!"second", w!"terz", w!"quart", w!"quint", w!"sest",
  w!"settim", w!"ottav", w!"non", w!"decim"]

/-- the ordinal without its inflectional vowel, ranks 1..10^6 -/
def ordStem (v : Var) (n : Nat) : Word :=
  if n == 1000000 then w!"milionesim"
  else if n ≤ 10 then ordUnitStems.getD n []
  else
    -- the one-word cardinal, without accent, with the `cento` elision choice of `v`
    let v0 : Var := fun i => if i % 16 == 4 then v i else if i % 16 == 3 then 1 else 0
    let w : Word := match belowMillion v0 n with | [w] => w | _ => []
    let r := n % 100
    if n == 1000 then w!"millesim"
    else if n % 1000 == 0 then w.dropLast.dropLast.dropLast.dropLast ++ w!"millesim"          -- …mila
    else if r == 10 then w.dropLast.dropLast.dropLast.dropLast.dropLast ++ w!"decim"          -- …dieci
    else if (n % 10 == 3 || n % 10 == 6) && r != 13 && r != 16 then w ++ w!"esim"             -- …treesimo, …seiesimo
    else w.dropLast ++ w!"esim"

def inflVowel (i : Nat) : Char := match i with | 0 => 'o' | 1 => 'a' | 2 => 'i' | _ => 'e'

def ordinalMarker (i : Nat) : Word := if i == 0 || i == 2 then ['º'] else ['ª']

def ordinal (v : Var) (n i : Nat) : Option (List Word × Word) :=
  if n == 0 || n > 1000000 || i ≥ 4 then none
  else if n == 2 && i == 2 then none                     -- `secondi`: the time unit
  else some ([ordStem v n ++ [inflVowel i]], ordinalMarker i)

/-! ### decimals and dictation -/

def sepWord : Word := w!"virgola"
def decMark : Char := ','

/-- leading zeros one by one, the rest as one cardinal -/
def fraction (v : Var) (ds : List Nat) : List Word :=
  let zs := ds.takeWhile (· == 0)
  let rest := ds.dropWhile (· == 0)
  let v' : Var := fun i => v (i + 64)
  zs.map (fun _ => w!"zero") ++
    (if rest.isEmpty then []
     else if rest.length ≤ 12 then cardinal v' (rest.foldl (fun a d => 10 * a + d) 0)
     else rest.map unitWord)

def zeroWord : Word := w!"zero"

def digitWord (d : Nat) : Word := unitWord d

end T2N.Spec.It

namespace T2N.Spec.It

def speller : Speller where
  code := "it"
  cardinal := cardinal
  nInfl := 4
  ordMax := 1000000
  ordinal := ordinal
  sepWord := sepWord
  decMark := decMark
  fraction := fraction
  zeroWord := zeroWord
  digitWord := digitWord
  conj := conj

end T2N.Spec.It
