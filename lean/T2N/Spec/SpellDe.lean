/- T2N.Spec.SpellDe — STUB (to be replaced by the specification of de spellings) -/
import T2N.Spec.Basic

namespace T2N.Spec.De

def speller : Speller where
  code := "de"
  cardinal := fun _ _ => []
  nInfl := 0
  ordMax := 0
  ordinal := fun _ _ _ => none
  sepWord := []
  decMark := ','
  fraction := fun _ _ => []
  zeroWord := []
  digitWord := fun _ => []
  conj := []

end T2N.Spec.De
