/-
  T2N.Spec.SpellDe — German spellings: cardinals below 10^12 with their accepted variants,
  ordinals (five declension endings), decimals, digit dictation. Written from German orthography
  (Duden) and the repository's module doc / tests (src/lang/de/mod.rs).

  Everything is spelled in lower case (the library lowercases; case-insensitivity is a separate
  property). Numbers below one million are ONE word (`dreiundfünfzigtausendzweihundertvier`);
  `million(en)` / `milliarde(n)` are separate nouns, plural whenever the multiplier is not 1
  (number agreement is grammar, not a free choice: `eine million`, `zwei millionen`,
  `hundertein millionen`).

  A spelling is built as a list of *atoms* (`ein`, `und`, `zwanzig`, `hundert`, `tausend`, …), each
  with the strength of the boundary that follows it; the global split level decides which boundaries
  are written as spaces:
      boundary 0 : always a space (around million / milliarde)
      boundary 1 : around `tausend`
      boundary 2 : around `hundert`
      boundary 3 : around the `und` of `einundzwanzig`
      boundary 9 : never a space
  level L writes a space at every boundary ≤ L, so a lower-level boundary is never cut without
  the higher ones (module doc: "ein und zwanzig" is treated like "einundzwanzig"; tests:
  `zwei tausend ein und zwanzig`, `ein hundert fünfzehn`, `einhundert fünfzehn`).

  Variant axes (cp g j: g = group 0 units … 3 = 10^9; independent per group unless `cp 0`):
    * `dreißig` | `dreissig`                                                       (cp g 0)
    * `zwei` | `zwo` as unit of the tens-unit part (`zwoundzwanzig`, `zwo`)        (cp g 1)
    * `zwei` | `zwo` as multiplier of `hundert` (`zwohundert`)                     (cp g 2)
    * optional `und` after `hundert` when the rest has no `und` of its own
      (`hundertundeins`, `einhundert und drei`; boundary 2 on both sides)          (cp g 3)
    * leading `ein` before `hundert` present | absent, only when nothing precedes  (cp g 4)
    * g = 1: leading `ein` before `tausend` present | absent, only when nothing precedes;
      g = 2, 3: multiplier 1 spelled `eine` (standard feminine) | `ein`            (cp g 5)
    * global split level 0 (compound) | 1 | 2 | 3                                  (cp 0 7)
    * at level ≥ 2: multiplier stays glued to `hundert` (`einhundert fünfzehn`)    (cp g 8)
    * g = 1, at level 1: multiplier stays glued to `tausend`
      (`dreiundfünfzigtausend zweihundertvier`)                                    (cp 1 9)
    * ordinals only: `siebte` | `siebente`                                         (cp 0 10)
    * ordinals only, rank 10^6: `millionste` | `einmillionste`                     (cp 0 11)
  `eins` is used only for a final 1 that is the whole tens-unit part of the units group (`eins`,
  `hunderteins`, `tausendeins`); everywhere else `ein` (`einundzwanzig`, `einhundert`, `eintausend`,
  `hundertein millionen`).

  Not included (kept simple / not standard): counting in hundreds (`neunzehnhundert…`), `und` after
  `tausend` (`tausendundeins`), colloquial `zwote`, ASCII transliterations (`fuenf`, `zwoelf`).
  No value had to be removed from an axis because the library rejects it (no kind-2 removals).

  Standard spellings kept although the library (text2num-rs) mishandles them — findings:
    * `eine million` / `eine milliarde` (cp 2 5 / cp 3 5 = 0, the standard form): `eine` is not
      recognised (text2digits: NaN; in a sentence `eine 1000000`); `ein million` is accepted.
    * not a spelling issue, seen with `conj`: `null und drei` is rewritten to `03` (the `und` is lost).
  No longer a finding: `siebente` (cp 0 10 = 1; Duden lists `siebte` and `siebente`) was not recognised on an
  earlier tree (NaN); it is now, with the five endings and in compounds (`siebente` ↦ `7.`,
  `hundertsiebenter` ↦ `107.`).
-/
import T2N.Spec.Basic

namespace T2N.Spec.De

/-- a component of a compound, with the strength of the boundary after it -/
structure Atom where
  w : Word
  b : Nat

/-- write the atoms at split level `L`: a space at every boundary `≤ L` -/
def render (L : Nat) : List Atom → Word → List Word
  | [], cur => if cur.isEmpty then [] else [cur]
  | a :: rest, cur =>
    if a.b ≤ L then (cur ++ a.w) :: render L rest [] else render L rest (cur ++ a.w)

/-- set the boundary after the last atom -/
def setLastB (b : Nat) : List Atom → List Atom
  | [] => []
  | [a] => [{ a with b := b }]
  | a :: rest => a :: setLastB b rest

def unitWords : List Word := [w!"null", w!"ein", w!"zwei", w!"drei", w!"vier", w!"fünf", w!"sechs", w!"sieben",
  w!"acht", w!"neun", w!"zehn", w!"elf", w!"zwölf", w!"dreizehn", w!"vierzehn", w!"fünfzehn", w!"sechzehn",
  w!"siebzehn", w!"achtzehn", w!"neunzehn"]

def tensWords : List Word := [[], [], w!"zwanzig", w!"dreißig", w!"vierzig", w!"fünfzig", w!"sechzig", w!"siebzig",
  w!"achtzig", w!"neunzig"]

/-- unit word; `one` is the form of 1 in this position, `zwo` selects the variant of 2 -/
def unitWord (one : Word) (zwo : Bool) (n : Nat) : Word :=
  if n == 1 then one else if n == 2 && zwo then w!"zwo" else unitWords.getD n []

def tensWord (v : Var) (g t : Nat) : Word :=
  if t == 3 && flag v (cp g 0) then w!"dreissig" else tensWords.getD t []

/-- 1..99; `one` is the spelling of a lone 1 (`eins` | `ein` | `eine`); boundaries inside are 3 -/
def below100 (v : Var) (g n : Nat) (one : Word) : List Atom :=
  let zwo := flag v (cp g 1)
  if n < 20 then [⟨unitWord one zwo n, 3⟩]
  else
    let t := n / 10
    let u := n % 10
    if u == 0 then [⟨tensWord v g t, 3⟩]
    else [⟨unitWord w!"ein" zwo u, 3⟩, ⟨w!"und", 3⟩, ⟨tensWord v g t, 3⟩]

/-- 1..999; `first` = nothing precedes this group in the number (only then may the leading `ein`
of `einhundert` be dropped); the boundary after the group is left at 3 (set by the caller) -/
def group (v : Var) (g n : Nat) (first : Bool) (one : Word) : List Atom :=
  let h := n / 100
  let r := n % 100
  let hs : List Atom :=
    if h == 0 then []
    else if h == 1 && first && flag v (cp g 4) then [⟨w!"hundert", 2⟩]
    else [⟨unitWord w!"ein" (flag v (cp g 2)) h, if flag v (cp g 8) then 9 else 2⟩, ⟨w!"hundert", 2⟩]
  let link : List Atom :=
    if h != 0 && r != 0 && (r < 20 || r % 10 == 0) && flag v (cp g 3) then [⟨w!"und", 2⟩] else []
  hs ++ link ++ (if r == 0 then [] else below100 v g r one)

/-- group `g ≥ 1` followed by its scale word; `first`: no higher group was spelled -/
def scaled (v : Var) (g n : Nat) (first : Bool) : List Atom :=
  if n == 0 then []
  else if g == 1 then
    if n == 1 && first && flag v (cp g 5) then [⟨w!"tausend", 1⟩]
    else setLastB (if flag v (cp g 9) then 2 else 1) (group v g n first w!"ein") ++ [⟨w!"tausend", 1⟩]
  else
    let sg : Word := if g == 2 then w!"million" else w!"milliarde"
    let pl : Word := if g == 2 then w!"millionen" else w!"milliarden"
    if n == 1 then [⟨if flag v (cp g 5) then w!"ein" else w!"eine", 0⟩, ⟨sg, 0⟩]
    else setLastB 0 (group v g n first w!"ein") ++ [⟨pl, 0⟩]

/-- atoms of the cardinal `0 < n < 10^12` -/
def cardinalAtoms (v : Var) (n : Nat) : List Atom :=
  let g3 := n / 1000000000 % 1000
  let g2 := n / 1000000 % 1000
  let g1 := n / 1000 % 1000
  let g0 := n % 1000
  let p3 := scaled v 3 g3 true
  let p2 := scaled v 2 g2 (g3 == 0)
  let p1 := scaled v 1 g1 (g3 == 0 && g2 == 0)
  let hi := p3 ++ p2 ++ p1
  hi ++ (if g0 == 0 then [] else group v 0 g0 hi.isEmpty w!"eins")

/-- global split level -/
def level (v : Var) : Nat := pick v (cp 0 7) 4

/-- cardinal, `n < 10^12` -/
def cardinal (v : Var) (n : Nat) : List Word :=
  if n == 0 then [w!"null"] else render (level v) (cardinalAtoms v n) []

/-! ### ordinals -/

/-- ordinal stems 1..19 (without the declension ending) -/
def ordUnitStems : List Word := [[], w!"erst", w!"zweit", w!"dritt", w!"viert", w!"fünft", w!"sechst", w!"siebt",
  w!"acht", w!"neunt", w!"zehnt", w!"elft", w!"zwölft", w!"dreizehnt", w!"vierzehnt", w!"fünfzehnt", w!"sechzehnt",
  w!"siebzehnt", w!"achtzehnt", w!"neunzehnt"]

/-- declension endings: -e, -er, -es, -en, -em -/
def inflEndings : List Word := [w!"e", w!"er", w!"es", w!"en", w!"em"]

/-- make the last atom ordinal: `r` = tens-unit part of the units group (0: the last atom is
`hundert` / `tausend`; < 20: a unit word; otherwise a tens word) -/
def ordLast (v : Var) (r : Nat) (ending : Word) : List Atom → List Atom
  | [] => []
  | [a] =>
    let stem : Word :=
      if r == 0 || r ≥ 20 then a.w ++ w!"st"
      else if r == 7 && flag v (cp 0 10) then w!"siebent"
      else ordUnitStems.getD r a.w
    [{ a with w := stem ++ ending }]
  | a :: rest => a :: ordLast v r ending rest

/-- ordinal of rank `1 ≤ n ≤ 10^6` with declension ending `ending`: the cardinal whose last
component is made ordinal (`zwei` is never `zwo` there: `zweite`) -/
def ordinal (v : Var) (n : Nat) (ending : Word) : List Word :=
  if n == 1000000 then
    [(if flag v (cp 0 11) then w!"ein" else []) ++ w!"millionst" ++ ending]
  else
    let r := n % 100
    let v' : Var := fun i => if i == cp 0 1 && r == 2 then 0 else v i
    render (level v) (ordLast v r ending (cardinalAtoms v' n)) []

/-! ### decimals and dictation -/

def sepWord : Word := w!"komma"
def decMark : Char := ','

/-- dictation word of a digit (1 is `eins`) -/
def digitWord (d : Nat) : Word := unitWord w!"eins" false d

/-- fraction digits spoken one by one -/
def fraction (_v : Var) (ds : List Nat) : List Word := ds.map digitWord

def zeroWord : Word := w!"null"

/-- the conjunction that may stand between two numbers -/
def conj : Word := w!"und"

end T2N.Spec.De

namespace T2N.Spec.De

def speller : Speller where
  code := "de"
  cardinal := cardinal
  nInfl := 5
  ordMax := 1000000
  ordinal := fun v n i =>
    if n == 0 || n > 1000000 then none
    else match inflEndings[i]? with
      | some e => some (ordinal v n e, w!".")
      | none => none
  sepWord := sepWord
  decMark := decMark
  fraction := fraction
  zeroWord := zeroWord
  digitWord := digitWord
  conj := conj

end T2N.Spec.De
