/-
  T2N.Spec.SpellPt — Portuguese spellings: cardinals below 10^12 with their accepted variants,
  ordinals 1..1999 in their four inflections, decimals, digit dictation. Written from Portuguese
  orthography (Cunha & Cintra, Nova Gramática, «Numerais»; Acordo Ortográfico de 1990) and the
  repository's tests for /repo/src/lang/pt (see DESIGN.md §3 C01, C04, C05).

  The conjunction `e` is NOT an optional variant in Portuguese; the rule (also the one the library
  enforces through `smaller_blocked` / the CONJUNCTION flag / `!b.is_free(4)`) is:
    (R1) inside a 3-digit group, `e` stands between hundreds, tens and units:
         `duzentos e vinte e um`, `cento e um`, `trinta e dois`; exactly 100 is `cem` (`cem`,
         `cem mil`, `cem milhões`), otherwise `cento e …`;
    (R2) between two groups there is no `e`, except before the LAST non-zero group of the number
         when that group is below 100 or a whole number of hundreds:
         `mil e um`, `dois mil e vinte`, `mil e novecentos`, `dois milhões e duzentos mil`,
         but `mil trezentos e vinte e cinco`, `dois mil cento e vinte e cinco`;
    (R3) long scale (European norm): 10^9 is `mil milhões`; the number of millions (< 10^6) is itself
         spelled by (R1)–(R2): `cinquenta e três mil e vinte milhões duzentos e quarenta e três mil
         setecentos e vinte e quatro` — so `e` before the millions group is obligatory there when that
         group is < 100 or a multiple of 100, whatever follows.
  `mil` is never preceded by `um`; `um milhão`/`um bilhão` always are.

  Variant axes (choice points; `cp g j`, g = group 0 units … 3 = 10^9):
    * regional norm, one choice for the whole number                                   (cp 0 2)
        0 = European:  `dezasseis, dezassete, dezanove, catorze`, 10^9 = `mil milhões`
        1 = Brazilian: `dezesseis, dezessete, dezenove`, 10^9 = `bilhão/bilhões`
    * Brazilian only: `catorze` | `quatorze`, per group                                (cp g 3)
    * Brazilian only: `bilhão/bilhões` | `bilião/biliões` (variant form, VOLP)         (cp 3 7)
    * gender of the counted noun, one choice for the whole number                      (cp 0 8)
        masculine | feminine: `um/uma`, `dois/duas`, `duzentos/duzentas` … `novecentos/novecentas`
        in the units group and in the thousands group (`duas mil`, `duzentas e uma mil`);
        `milhão`, `bilhão` are masculine nouns, so the groups counting them stay masculine.
    * `e` also before a NON-last group (g = 1, or g = 2 in the Brazilian form) that is < 100 or a
      multiple of 100 — absent (standard, R2) | present. This is the usage of the repository's own
      test `cinquenta e três bilhões e vinte milhões duzentos e quarenta e três mil …`.   (cp g 6)
    * scale words: `milhão` (exactly one) | `milhões`, `bilhão` | `bilhões` — determined by the
      number, not a free choice.
    * ordinals: `septuagésimo` | `setuagésimo` (cp 0 9), `sexcentésimo` | `seiscentésimo` (cp 0 10),
      `noningentésimo` | `nongentésimo` (cp 0 11); `décimo primeiro` | `undécimo` (cp 0 12),
      `décimo segundo` | `duodécimo` (cp 0 13), `trecentésimo` | `tricentésimo` (cp 0 14) — the last
      three second forms are standard (Cunha & Cintra list them as equal alternatives); they were missing
      from the library's vocabulary on an earlier tree and are known to it now, in the four inflections
      (`undécimo` ↦ `11º`, `duodécimo` ↦ `12º`, `tricentésimo` ↦ `300º`): no finding is left here.

  Deliberately NOT included (non-standard, or pre-1990 orthography):
    * `cinqüenta`, `qüinquagésimo`, `qüingentésimo` (trema abolished by the 1990 agreement; not used
      in the repository's tests), `tres` without accent;
    * omission of an obligatory `e` (`sessenta seis`, `dois mil vinte`, `mil novecentos` for 1900):
      the tests list `sessenta seis` → `60 6`;
    * `cem e um`, `cento mil`, `um mil` (listed invalid by the tests);
    * `quatorze` together with European teens.

  Ordinals: every word of a compound ordinal is an ordinal word and all agree in gender and number
  (`centésimo quadragésimo quinto`, `décimas sextas`). Inflections: 0 masc. sg. (º), 1 fem. sg. (ª),
  2 masc. pl. (ᵒˢ), 3 fem. pl. (ᵃˢ). The `segundo` of the tests (time unit vs ordinal) is not a
  lexical exclusion: it is the lone-number threshold at work, so rank 2 is spelled normally.
-/
import T2N.Spec.Basic

namespace T2N.Spec.Pt

/-- regional norm: `false` European, `true` Brazilian -/
def brazilian (v : Var) : Bool := flag v (cp 0 2)

/-- gender of the counted noun -/
def feminine (v : Var) : Bool := flag v (cp 0 8)

def unitWords : List Word := [w!"zero", w!"um", w!"dois", w!"três", w!"quatro", w!"cinco", w!"seis", w!"sete",
  w!"oito", w!"nove", w!"dez", w!"onze", w!"doze", w!"treze", w!"catorze", w!"quinze", w!"dezasseis",
  w!"dezassete", w!"dezoito", w!"dezanove"]

def tensWords : List Word := [[], [], w!"vinte", w!"trinta", w!"quarenta", w!"cinquenta", w!"sessenta",
  w!"setenta", w!"oitenta", w!"noventa"]

/-- stems of 200..900 (ending `-os` | `-as`) -/
def hundredStems : List Word := [[], [], w!"duzent", w!"trezent", w!"quatrocent", w!"quinhent", w!"seiscent",
  w!"setecent", w!"oitocent", w!"novecent"]

/-- 0..19; `fem`: feminine form of 1 and 2 -/
def unitWord (v : Var) (g : Nat) (fem : Bool) (n : Nat) : Word :=
  if fem && n == 1 then w!"uma"
  else if fem && n == 2 then w!"duas"
  else if brazilian v && n == 14 && flag v (cp g 3) then w!"quatorze"
  else if brazilian v && n == 16 then w!"dezesseis"
  else if brazilian v && n == 17 then w!"dezessete"
  else if brazilian v && n == 19 then w!"dezenove"
  else unitWords.getD n []

def conj : Word := w!"e"

/-- 1..99 -/
def below100 (v : Var) (g : Nat) (fem : Bool) (n : Nat) : List Word :=
  if n < 20 then [unitWord v g fem n]
  else
    let t := n / 10
    let u := n % 10
    if u == 0 then [tensWords.getD t []]
    else [tensWords.getD t [], conj, unitWord v g fem u]

/-- 100, 200, …, 900 as the hundreds word of a group whose remainder is `r` -/
def hundredWord (fem : Bool) (h r : Nat) : Word :=
  if h == 1 then (if r == 0 then w!"cem" else w!"cento")
  else hundredStems.getD h [] ++ (if fem then w!"as" else w!"os")

/-- 1..999 (rule R1) -/
def group (v : Var) (g : Nat) (fem : Bool) (n : Nat) : List Word :=
  let h := n / 100
  let r := n % 100
  let hs : List Word := if h == 0 then [] else [hundredWord fem h r]
  let link : List Word := if h != 0 && r != 0 then [conj] else []
  hs ++ link ++ (if r == 0 then [] else below100 v g fem r)

/-- `n` thousand (`mil` is never preceded by `um`) -/
def thousands (v : Var) (g : Nat) (fem : Bool) (n : Nat) : List Word :=
  if n == 0 then []
  else if n == 1 then [w!"mil"]
  else group v g fem n ++ [w!"mil"]

/-- does a group of value `x`, standing last, take `e` before it (rule R2)? -/
def takesE (x : Nat) : Bool := x != 0 && (x < 100 || x % 100 == 0)

def billionWord (v : Var) (plural : Bool) : Word :=
  if flag v (cp 3 7) then (if plural then w!"biliões" else w!"bilião")
  else (if plural then w!"bilhões" else w!"bilhão")

def millionWord (plural : Bool) : Word := if plural then w!"milhões" else w!"milhão"

/-- cardinal, `n < 10^12` -/
def cardinal (v : Var) (n : Nat) : List Word :=
  if n == 0 then [w!"zero"]
  else
    let g3 := n / 1000000000 % 1000
    let g2 := n / 1000000 % 1000
    let g1 := n / 1000 % 1000
    let g0 := n % 1000
    let br := brazilian v
    let fem := feminine v
    -- 10^9 group: `… bilhões` (Brazilian) or the thousands of the number of millions (European, R3)
    let p3 : List Word :=
      if g3 == 0 then []
      else if br then group v 3 false g3 ++ [billionWord v (g3 != 1)]
      else thousands v 3 false g3
    -- `e` before the millions group
    let e2 : Bool := g3 != 0 && takesE g2 &&
      (if br then (g1 == 0 && g0 == 0) || flag v (cp 2 6) else true)
    -- millions group with its scale word; in the European form the scale word also closes `… mil`
    let p2 : List Word :=
      if g2 == 0 then (if g3 != 0 && !br then [millionWord true] else [])
      else group v 2 false g2 ++ [millionWord (!(g2 == 1 && (br || g3 == 0)))]
    let hi2 := p3 ++ (if e2 then [conj] else []) ++ p2
    let e1 : Bool := !hi2.isEmpty && takesE g1 && (g0 == 0 || flag v (cp 1 6))
    let p1 := thousands v 1 fem g1
    let hi := hi2 ++ (if e1 then [conj] else []) ++ p1
    let e0 : Bool := !hi.isEmpty && takesE g0
    hi ++ (if e0 then [conj] else []) ++ (if g0 == 0 then [] else group v 0 fem g0)

/-! ### ordinals -/

def ordUnitStems : List Word := [[], w!"primeir", w!"segund", w!"terceir", w!"quart", w!"quint", w!"sext",
  w!"sétim", w!"oitav", w!"non"]

def ordTensStems : List Word := [[], w!"décim", w!"vigésim", w!"trigésim", w!"quadragésim", w!"quinquagésim",
  w!"sexagésim", w!"septuagésim", w!"octogésim", w!"nonagésim"]

def ordHundredStems : List Word := [[], w!"centésim", w!"ducentésim", w!"trecentésim", w!"quadringentésim",
  w!"quingentésim", w!"sexcentésim", w!"septingentésim", w!"octingentésim", w!"noningentésim"]

def ordTensStem (v : Var) (t : Nat) : Word :=
  if t == 7 && flag v (cp 0 9) then w!"setuagésim" else ordTensStems.getD t []

def ordHundredStem (v : Var) (h : Nat) : Word :=
  if h == 3 && flag v (cp 0 14) then w!"tricentésim"
  else if h == 6 && flag v (cp 0 10) then w!"seiscentésim"
  else if h == 9 && flag v (cp 0 11) then w!"nongentésim"
  else ordHundredStems.getD h []

/-- ending of every word of the ordinal for inflection `i` -/
def ordEnding (i : Nat) : Word :=
  match i with
  | 0 => w!"o" | 1 => w!"a" | 2 => w!"os" | _ => w!"as"

/-- marker on the digit form -/
def ordMarker (i : Nat) : Word :=
  match i with
  | 0 => w!"º" | 1 => w!"ª" | 2 => w!"ᵒˢ" | _ => w!"ᵃˢ"

/-- ordinal stems of `1 ≤ n ≤ 1999`: thousand, hundreds, tens, units, each an ordinal word -/
def ordinalStems (v : Var) (n : Nat) : List Word :=
  let k := n / 1000
  let h := n / 100 % 10
  let t := n / 10 % 10
  let u := n % 10
  (if k == 0 then [] else [w!"milésim"]) ++
  (if h == 0 then [] else [ordHundredStem v h]) ++
  (if t == 1 && u == 1 && flag v (cp 0 12) then [w!"undécim"]
   else if t == 1 && u == 2 && flag v (cp 0 13) then [w!"duodécim"]
   else
    (if t == 0 then [] else [ordTensStem v t]) ++
    (if u == 0 then [] else [ordUnitStems.getD u []]))

def ordinal (v : Var) (n i : Nat) : List Word :=
  (ordinalStems v n).map (· ++ ordEnding i)

/-! ### decimals and dictation -/

def sepWord : Word := w!"vírgula"
def decMark : Char := ','

def zeroWord : Word := w!"zero"

/-- value of a digit string -/
def digitsValue (ds : List Nat) : Nat := ds.foldl (fun acc d => 10 * acc + d) 0

/-- fraction digits: every leading zero is said `zero`, the remaining digits are read as one cardinal -/
def fraction (v : Var) (ds : List Nat) : List Word :=
  let zs := ds.takeWhile (· == 0)
  let rest := ds.dropWhile (· == 0)
  zs.map (fun _ => zeroWord) ++ (if rest.isEmpty then [] else cardinal v (digitsValue rest))

def digitWord (d : Nat) : Word := unitWords.getD d []

end T2N.Spec.Pt

namespace T2N.Spec.Pt

def speller : Speller where
  code := "pt"
  cardinal := cardinal
  nInfl := 4
  ordMax := 1999
  ordinal := fun v n i =>
    if n == 0 || n > 1999 || i ≥ 4 then none
    else some (ordinal v n i, ordMarker i)
  sepWord := sepWord
  decMark := decMark
  fraction := fraction
  zeroWord := zeroWord
  digitWord := digitWord
  conj := conj

end T2N.Spec.Pt
