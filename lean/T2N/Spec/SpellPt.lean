/- T2N.Spec.SpellPt — STUB (to be replaced by the specification of pt spellings) -/
import T2N.Spec.Basic

namespace T2N.Spec.Pt

def speller : Speller where
  code := "pt"
  cardinal := fun _ _ => []
  nInfl := 0
  ordMax := 0
  ordinal := fun _ _ _ => none
  sepWord := []
  decMark := ','
  fraction := fun _ _ => []
  zeroWord := []
  digitWord := fun _ => []
  conj := []

end T2N.Spec.Pt
