import T2N.Spec.SpellEn
import T2N.Spec.SpellFr
import T2N.Spec.SpellEs
import T2N.Spec.SpellPt
import T2N.Spec.SpellIt
import T2N.Spec.SpellDe
import T2N.Spec.SpellNl

namespace T2N.Spec

def allSpellers : List Speller :=
  [En.speller, Fr.speller, Es.speller, Pt.speller, It.speller, De.speller, Nl.speller]

def spellerByCode (c : String) : Option Speller := allSpellers.find? (·.code == c)

/-- dictation grouping: zeros attach to the following non-zero digit, trailing zeros stand alone -/
def dictationGroups : List Nat → List (List Nat)
  | ds =>
    let rec go : List Nat → List Nat → List (List Nat)
      | [], zs => if zs.isEmpty then [] else [zs]
      | d :: rest, zs => if d == 0 then go rest (zs ++ [0]) else (zs ++ [d]) :: go rest []
    go ds []

/-- words of a spelling with hyphens opened up (`twenty-one` ↦ `twenty`, `one`) -/
def openHyphens (ws : List Word) : List Word := ws.flatMap (fun w => (w.splitOn '-').filter (· ≠ []))

end T2N.Spec
