/-
  T2N.Spec.SpellEs — Spanish spellings: cardinals below 10^12 with their accepted variants,
  ordinals 1..1999 with gender / number / apocope, decimals, digit dictation. Written from Spanish
  orthography (RAE) and the repository's tests for `es` (see DESIGN.md §3 C01, C04, C05).

  Structure of a cardinal: 3-digit groups g3 g2 g1 g0. Spanish uses the long scale, so numbers
  ≥ 10^9 are `<g3> mil <g2> millones`: the count of millions is the 6-digit number g3·1000 + g2 and
  is itself spelled `<g3> mil <g2>`. `mil` is never preceded by `un` (`mil`, `mil millones`);
  `millón` only for exactly one million (`un millón`), otherwise `millones` (`mil un millones`).
  `cien` for exactly 100 in a group (`cien`, `cien mil`, `cien millones`), else `ciento …`.
  Before a scale word the unit 1 is apocopated: `un millón`, `veintiún mil`, `treinta y un mil`;
  at the end of the number it is the full form `uno`, `veintiuno`.

  Variant axes (independent per group `g` / choice point; `v = fun _ => 0` is the dictionary form):
    * (cp g 0)  `treinta y uno` | `treinta uno`: conjunction `y` between tens (30..90) and units
                present | absent (the repository's tests list `treinta cuatro` as accepted)
    * (cp g 1)  gender of the group, g ∈ {0, 1} only (groups counting millions are always
                masculine because `millón` is a masculine noun): masculine `doscientos … uno` |
                feminine `doscientas … una` / `veintiuna`. The hundreds 200..900 and the unit 1
                of the group agree.
    * (cp 1 2)  only for a feminine thousands group ending in 1: full feminine `veintiuna mil`,
                `treinta y una mil` | apocope `veintiún mil`, `treinta y un mil` (both RAE-accepted)
    * (cp 2 4)  `millón` | accent-less `millon` (accepted in the repository's tests)
    * ordinals: (cp 0 8) 11 = `undécimo` | `decimoprimero` | `décimo primero`;
                12 = `duodécimo` | `decimosegundo` | `décimo segundo`;
                13..19 = `decimotercero` | `décimo tercero` (compound | split)

  Deliberately NOT included (not standard orthography, although the library accepts them):
  `cienta`, accent-less `dieciseis veintidos veintitres veintiseis`, full `veintiuno mil`,
  `uno mil` / `un mil` (listed as invalid in the repository's tests), `quadringentésimo`.

  Ordinal inflections (nInfl = 5): 0 masculine singular `º`, 1 feminine singular `ª`,
  2 masculine plural `ᵒˢ`, 3 feminine plural `ᵃˢ`, 4 apocope `primer` (`.ᵉʳ`; only ranks whose last
  word is `primero`; `tercer` carries no marker in the library's conventions and is not spelled here).
  All words of a compound ordinal agree (`centésima vigésima tercera`). Rank 2 alone in the
  masculine (`segundo`, `segundos`) is the time unit and is not an ordinal here (`none`).
-/
import T2N.Spec.Basic

namespace T2N.Spec.Es

/-- 0..29 (standard accented forms); 1 and 21 are handled by `oneWord` / `twentyOneWord` -/
def unitWords : List Word := [w!"cero", w!"uno", w!"dos", w!"tres", w!"cuatro", w!"cinco", w!"seis", w!"siete",
  w!"ocho", w!"nueve", w!"diez", w!"once", w!"doce", w!"trece", w!"catorce", w!"quince", w!"dieciséis",
  w!"diecisiete", w!"dieciocho", w!"diecinueve", w!"veinte", w!"veintiuno", w!"veintidós", w!"veintitrés",
  w!"veinticuatro", w!"veinticinco", w!"veintiséis", w!"veintisiete", w!"veintiocho", w!"veintinueve"]

def tensWords : List Word := [[], [], w!"veinte", w!"treinta", w!"cuarenta", w!"cincuenta", w!"sesenta",
  w!"setenta", w!"ochenta", w!"noventa"]

def unitWord (n : Nat) : Word := unitWords.getD n []

def tensWord (t : Nat) : Word := tensWords.getD t []

/-- form of the unit 1: 0 = full masculine, 1 = full feminine, 2 = apocope -/
def oneWord (f : Nat) : Word :=
  match f with
  | 1 => w!"una" | 2 => w!"un" | _ => w!"uno"

def twentyOneWord (f : Nat) : Word :=
  match f with
  | 1 => w!"veintiuna" | 2 => w!"veintiún" | _ => w!"veintiuno"

/-- 1..99; `f` = form of a final unit 1 -/
def below100 (v : Var) (g n f : Nat) : List Word :=
  if n == 1 then [oneWord f]
  else if n == 21 then [twentyOneWord f]
  else if n < 30 then [unitWord n]
  else
    let t := n / 10
    let u := n % 10
    let uw : Word := if u == 1 then oneWord f else unitWord u
    if u == 0 then [tensWord t]
    else if flag v (cp g 0) then [tensWord t, uw]
    else [tensWord t, w!"y", uw]

def hundredStems : List Word := [[], w!"cient", w!"doscient", w!"trescient", w!"cuatrocient", w!"quinient",
  w!"seiscient", w!"setecient", w!"ochocient", w!"novecient"]

/-- 200..900 -/
def hundredWord (h : Nat) (fem : Bool) : Word :=
  hundredStems.getD h [] ++ (if fem then w!"as" else w!"os")

/-- is group `g` spelled in the feminine? (never the groups that count millions) -/
def isFem (v : Var) (g : Nat) : Bool := g ≤ 1 && flag v (cp g 1)

/-- form of a final unit 1 in group `g` -/
def oneForm (v : Var) (g : Nat) : Nat :=
  if g == 0 then (if isFem v 0 then 1 else 0)
  else if g == 1 then (if isFem v 1 && !flag v (cp 1 2) then 1 else 2)
  else 2

/-- 1..999 -/
def group (v : Var) (g n : Nat) : List Word :=
  let h := n / 100
  let r := n % 100
  let hs : List Word :=
    if h == 0 then []
    else if h == 1 then (if r == 0 then [w!"cien"] else [w!"ciento"])
    else [hundredWord h (isFem v g)]
  hs ++ (if r == 0 then [] else below100 v g r (oneForm v g))

/-- group followed by `mil` (`g` = 1 or 3); never `un mil` -/
def thousands (v : Var) (g n : Nat) : List Word :=
  if n == 0 then []
  else if n == 1 then [w!"mil"]
  else group v g n ++ [w!"mil"]

def millionWord (v : Var) (plural : Bool) : Word :=
  if plural then w!"millones"
  else if flag v (cp 2 4) then w!"millon" else w!"millón"

/-- cardinal, `n < 10^12` -/
def cardinal (v : Var) (n : Nat) : List Word :=
  if n == 0 then [w!"cero"]
  else
    let g3 := n / 1000000000 % 1000
    let g2 := n / 1000000 % 1000
    let g1 := n / 1000 % 1000
    let g0 := n % 1000
    let p3 := thousands v 3 g3
    let p2 : List Word :=
      if g3 == 0 && g2 == 0 then []
      else (if g2 == 0 then [] else group v 2 g2) ++ [millionWord v (!(g3 == 0 && g2 == 1))]
    let p1 := thousands v 1 g1
    p3 ++ p2 ++ p1 ++ (if g0 == 0 then [] else group v 0 g0)

/-! ### ordinals (1..1999) -/

def ordUnitWords : List Word := [[], w!"primero", w!"segundo", w!"tercero", w!"cuarto", w!"quinto", w!"sexto",
  w!"séptimo", w!"octavo", w!"noveno"]

def ordTeenWords : List Word := [w!"décimo", w!"decimoprimero", w!"decimosegundo", w!"decimotercero",
  w!"decimocuarto", w!"decimoquinto", w!"decimosexto", w!"decimoséptimo", w!"decimoctavo", w!"decimonoveno"]

def ordTensWords : List Word := [[], w!"décimo", w!"vigésimo", w!"trigésimo", w!"cuadragésimo", w!"quincuagésimo",
  w!"sexagésimo", w!"septuagésimo", w!"octogésimo", w!"nonagésimo"]

def ordHundredWords : List Word := [[], w!"centésimo", w!"ducentésimo", w!"tricentésimo", w!"cuadringentésimo",
  w!"quingentésimo", w!"sexcentésimo", w!"septingentésimo", w!"octingentésimo", w!"noningentésimo"]

/-- 1..99, masculine singular -/
def ordBelow100 (v : Var) (n : Nat) : List Word :=
  if n < 10 then [ordUnitWords.getD n []]
  else if n == 10 then [w!"décimo"]
  else if n < 20 then
    let split : List Word := [w!"décimo", ordUnitWords.getD (n - 10) []]
    let compound : List Word := [ordTeenWords.getD (n - 10) []]
    if n == 11 then
      (match pick v (cp 0 8) 3 with | 0 => [w!"undécimo"] | 1 => compound | _ => split)
    else if n == 12 then
      (match pick v (cp 0 8) 3 with | 0 => [w!"duodécimo"] | 1 => compound | _ => split)
    else (if flag v (cp 0 8) then split else compound)
  else
    let t := n / 10
    let u := n % 10
    [ordTensWords.getD t []] ++ (if u == 0 then [] else [ordUnitWords.getD u []])

/-- masculine singular ordinal of `1 ≤ n ≤ 1999` -/
def ordinalBase (v : Var) (n : Nat) : List Word :=
  let k := n / 1000
  let h := n / 100 % 10
  let r := n % 100
  (if k == 0 then [] else [w!"milésimo"]) ++
  (if h == 0 then [] else [ordHundredWords.getD h []]) ++
  (if r == 0 then [] else ordBelow100 v r)

/-- gender / number inflection of one ordinal word ending in `-o` -/
def inflect (i : Nat) (w : Word) : Word :=
  match i with
  | 1 => w.dropLast ++ w!"a"
  | 2 => w ++ w!"s"
  | 3 => w.dropLast ++ w!"as"
  | _ => w

def marker (i : Nat) : Word :=
  match i with
  | 0 => w!"º" | 1 => w!"ª" | 2 => w!"ᵒˢ" | 3 => w!"ᵃˢ" | _ => w!".ᵉʳ"

def ordinal (v : Var) (n i : Nat) : Option (List Word × Word) :=
  if n == 0 || n > 1999 || i > 4 then none
  else if n == 2 && (i == 0 || i == 2) then none      -- `segundo(s)` alone: the time unit
  else
    let ws := ordinalBase v n
    if i == 4 then
      (match ws.reverse with
       | last :: rest => if last == w!"primero" then some ((w!"primer" :: rest).reverse, marker 4) else none
       | [] => none)
    else some (ws.map (inflect i), marker i)

/-! ### decimals and dictation -/

def sepWord : Word := w!"coma"
def decMark : Char := ','

def digitsValue (ds : List Nat) : Nat := ds.foldl (fun acc d => 10 * acc + d) 0

/-- leading zeros spoken `cero` each, the remaining digits read as one cardinal -/
def fraction (v : Var) (ds : List Nat) : List Word :=
  let zs := ds.takeWhile (· == 0)
  let rest := ds.dropWhile (· == 0)
  zs.map (fun _ => w!"cero") ++ (if rest.isEmpty then [] else cardinal v (digitsValue rest))

def zeroWord : Word := w!"cero"

def digitWord (d : Nat) : Word := unitWord d

def conj : Word := w!"y"

end T2N.Spec.Es

namespace T2N.Spec.Es

def speller : Speller where
  code := "es"
  cardinal := cardinal
  nInfl := 5
  ordMax := 1999
  ordinal := ordinal
  sepWord := sepWord
  decMark := decMark
  fraction := fraction
  zeroWord := zeroWord
  digitWord := digitWord
  conj := conj

end T2N.Spec.Es
