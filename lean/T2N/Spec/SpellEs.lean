/- T2N.Spec.SpellEs — STUB (to be replaced by the specification of es spellings) -/
import T2N.Spec.Basic

namespace T2N.Spec.Es

def speller : Speller where
  code := "es"
  cardinal := fun _ _ => []
  nInfl := 0
  ordMax := 0
  ordinal := fun _ _ _ => none
  sepWord := []
  decMark := ','
  fraction := fun _ _ => []
  zeroWord := []
  digitWord := fun _ => []
  conj := []

end T2N.Spec.Es
