/-
  T2N.Spec.Basic — common vocabulary of the specification side (what a spelled number *should* be),
  independent of the model of the code.

  A speller takes a *variant function* `v : Var`: every orthographic choice point reads `v i` for a
  choice-point index `i` (reduced modulo the number of alternatives). Quantifying over all `v`
  quantifies over every combination of choices, independently at every choice point.
-/
import T2N.Model.Basic

namespace T2N.Spec

/-- variant function: raw choice at choice point `i` -/
abbrev Var := Nat → Nat

/-- choice among `k` alternatives at choice point `i` -/
def pick (v : Var) (i k : Nat) : Nat := if k = 0 then 0 else v i % k

/-- boolean choice -/
def flag (v : Var) (i : Nat) : Bool := v i % 2 == 1

/-- a deterministic variant function from a seed (driver / oracle side): splitmix64 of (seed, i) -/
def varOfSeed (seed : Nat) : Var := fun i =>
  let m : Nat := 18446744073709551616
  let z0 := (seed * 11400714819323198485 + (i + 1) * 14029467366897019727) % m
  let z1 := ((z0 ^^^ (z0 >>> 30)) * 13787848793156543929) % m
  let z2 := ((z1 ^^^ (z1 >>> 27)) * 10723151780598845931) % m
  (z2 ^^^ (z2 >>> 31)) >>> 7

/-- decimal digits of `n`, most significant first (`0 ↦ [0]`) -/
def decDigits (n : Nat) : List Nat :=
  if n < 10 then [n] else decDigits (n / 10) ++ [n % 10]

def decChars (n : Nat) : Word := (decDigits n).map digitChar

/-- join words with single spaces -/
def joinWords : List Word → Word
  | [] => []
  | [w] => w
  | w :: ws => w ++ [' '] ++ joinWords ws

/-- choice-point index for group `g` (0 = units group, 1 = thousands, …), local point `j` (< 16) -/
def cp (g j : Nat) : Nat := 16 * g + j

end T2N.Spec

namespace T2N.Spec

/-- What the specification says about one language (used by theorems and by the oracle generator). -/
structure Speller where
  code : String
  /-- spelling of the cardinal `n < 10^12` under the variant choices `v` -/
  cardinal : Var → Nat → List Word
  /-- number of ordinal inflections the language has (gender / number / declension) -/
  nInfl : Nat
  /-- largest rank the specification spells -/
  ordMax : Nat
  /-- spelling of the ordinal of rank `n` with inflection `i < nInfl`, and the marker expected on the
  digit form; `none` when that inflection is not spelled for this rank -/
  ordinal : Var → Nat → Nat → Option (List Word × Word)
  sepWord : Word
  decMark : Char
  /-- spelling of the fractional digit string `ds` (any leading zeros) -/
  fraction : Var → List Nat → List Word
  zeroWord : Word
  /-- dictation word of a single digit 0..9 -/
  digitWord : Nat → Word
  /-- conjunction that may be said between two numbers -/
  conj : Word

end T2N.Spec
