/-
  T2N.Spec.SpellFr — French spellings: cardinals below 10^12 with their accepted variants,
  ordinals (ranks 1..10^6) with gender / number, decimals, digit dictation. Written from French
  orthography (traditional rules and the 1990 "rectifications") and the repository's tests.

  Groups: g = 0 units, 1 `mille`, 2 `million`, 3 `milliard`. `million` and `milliard` are nouns
  (`un million`, plural `millions`); `mille` is an invariable numeral that never takes `un`.

  Variant axes (independent per group `g` / choice point `cp g j`):
    * (cp g 0), 3 values — hyphenation of the group:
        0 traditional: hyphens inside the part below 100 (`quatre-vingt-dix-sept`), spaces around `et`
          (`vingt et un`) and around `cent`, `mille`;
        1 spaces everywhere (`quatre vingt dix sept`);
        2 1990 reform: every word of the group hyphenated (`deux-cent-vingt-et-un`), including the
          invariable numeral `mille` after group 1 (`deux-cent-mille`); `mille` is hyphenated to the
          units group as well when that group is written in the reform style too
          (`sept-cent-mille-trois-cent-vingt-et-un`). The nouns `million(s)`, `milliard(s)` are never
          hyphenated to their neighbours.
    * (cp g 1) 70..79: `soixante-dix` | `septante`
    * (cp g 2), 3 values, 80..89: `quatre-vingt(s)` | `huitante` | `octante`
    * (cp g 3) 90..99: `quatre-vingt-dix` | `nonante`
    * (cp g 4) `cents` (multiplied, nothing follows in the group, not before `mille`) | `cent`
    * (cp g 5) `quatre-vingts` (nothing follows in the group, not before `mille`) | `quatre-vingt`
    * (cp g 6), g = 2, 3: plural `millions` / `milliards` (group value > 1) | without `s`
    * (cp 1 7) `mille` | `mil` (only 1001..1999, i.e. `mil` begins the number and is followed by
      other numerals, as in dates: `mil neuf cent vingt`)
  Fixed by the orthography (no choice): `et` in 21, 31, 41, 51, 61, 71 and after `septante`, `huitante`,
  `octante`, `nonante` (`nonante et un`); no `et` in 81, 91 (`quatre-vingt-un`, `quatre-vingt-onze`), in
  `cent un`, `mille un`; no `un` before `cent` / `mille`; `un million`, `un milliard`.
  Fractions read choice points of groups 0 and 1 (the digits after the leading zeros are one cardinal).

  Ordinals: the last numeral of the cardinal takes `-ième` (`unième` after tens / hundreds / `mille`;
  `premier` for rank 1; rank 10^6 is `millionième`), plural marks of `cent` / `vingt` dropped, `mille` not
  `mil`. Inflections: 0 `-ième` / `premier`, 1 `-ièmes` / `premiers`, 2 `première`, 3 `premières`
  (2, 3 for rank 1 only). `second(e)` is not an ordinal for the library (its tests keep it), so it is not
  spelled here.

  Not included (non-standard, although the library may accept them): `cents` / `vingts` before another
  numeral (`deux cents trois`), `vingt un`, `mille millions`, `un` before `cent` / `mille`.
-/
import T2N.Spec.Basic

namespace T2N.Spec.Fr

def unitWords : List Word := [w!"zéro", w!"un", w!"deux", w!"trois", w!"quatre", w!"cinq", w!"six", w!"sept",
  w!"huit", w!"neuf", w!"dix", w!"onze", w!"douze", w!"treize", w!"quatorze", w!"quinze", w!"seize"]

def tensWords : List Word := [[], [], w!"vingt", w!"trente", w!"quarante", w!"cinquante", w!"soixante"]

def unitWord (n : Nat) : Word := unitWords.getD n []

/-- 1..19 as numerals (`dix-sept` is `dix`, `sept`) -/
def teens (n : Nat) : List Word :=
  if n < 17 then [unitWord n] else [w!"dix", unitWord (n - 10)]

/-- a tens word followed by a unit 0..9, with `et` before `un` -/
def regular (tens : Word) (u : Nat) : List Word :=
  if u == 0 then [tens]
  else if u == 1 then [tens, w!"et", w!"un"]
  else [tens, unitWord u]

/-- numerals of 1..99; `sOk`: the plural mark of `quatre-vingts` may be written (nothing follows) -/
def below100 (v : Var) (g n : Nat) (sOk : Bool) : List Word :=
  if n < 20 then teens n
  else
    let t := n / 10
    let u := n % 10
    if t < 7 then regular (tensWords.getD t []) u
    else if t == 7 then
      if flag v (cp g 1) then regular w!"septante" u
      else if u == 1 then [w!"soixante", w!"et", w!"onze"]
      else w!"soixante" :: teens (10 + u)
    else if t == 8 then
      match pick v (cp g 2) 3 with
      | 0 =>
        if u == 0 then [w!"quatre", if sOk && !flag v (cp g 5) then w!"vingts" else w!"vingt"]
        else [w!"quatre", w!"vingt", unitWord u]
      | 1 => regular w!"huitante" u
      | _ => regular w!"octante" u
    else
      if flag v (cp g 3) then regular w!"nonante" u
      else w!"quatre" :: w!"vingt" :: teens (10 + u)

/-- join numerals with hyphens into one word -/
def hyphenate : List Word → Word
  | [] => []
  | [w] => w
  | w :: ws => w ++ ['-'] ++ hyphenate ws

/-- numerals of the hundreds part -/
def hundreds (v : Var) (g h : Nat) (sOk : Bool) : List Word :=
  if h == 0 then []
  else if h == 1 then [w!"cent"]
  else [unitWord h, if sOk && !flag v (cp g 4) then w!"cents" else w!"cent"]

/-- 1..999 as words, in the hyphenation style of the group; `sOk`: plural marks allowed (not before `mille`) -/
def group (v : Var) (g n : Nat) (sOk : Bool) : List Word :=
  let h := n / 100
  let r := n % 100
  let hs := hundreds v g h (sOk && r == 0)
  let rs := if r == 0 then [] else below100 v g r sOk
  match pick v (cp g 0) 3 with
  | 0 => hs ++ (if rs.isEmpty then [] else if rs.contains w!"et" then rs else [hyphenate rs])
  | 1 => hs ++ rs
  | _ => [hyphenate (hs ++ rs)]

def reform (v : Var) (g : Nat) : Bool := pick v (cp g 0) 3 == 2

/-- thousands: `mille` is invariable and takes no `un` -/
def thousands (v : Var) (n : Nat) (mil : Bool) : List Word :=
  if n == 0 then []
  else if n == 1 then [if mil && flag v (cp 1 7) then w!"mil" else w!"mille"]
  else if reform v 1 then [hyphenate (group v 1 n false ++ [w!"mille"])]
  else group v 1 n false ++ [w!"mille"]

/-- the nouns `million`, `milliard` (g = 2, 3) with their count -/
def scaled (v : Var) (g n : Nat) : List Word :=
  if n == 0 then []
  else
    let base : Word := if g == 2 then w!"million" else w!"milliard"
    group v g n true ++ [if n > 1 && !flag v (cp g 6) then base ++ ['s'] else base]

/-- the thousands and the units; in the reform style `mille` is hyphenated to what follows -/
def low (v : Var) (g1 g0 : Nat) (mil : Bool) : List Word :=
  let p1 := thousands v g1 mil
  let p0 := if g0 == 0 then [] else group v 0 g0 true
  if g1 != 0 && g0 != 0 && reform v 1 && reform v 0 then [hyphenate (p1 ++ p0)] else p1 ++ p0

/-- cardinal, `n < 10^12` -/
def cardinal (v : Var) (n : Nat) : List Word :=
  if n == 0 then [w!"zéro"]
  else
    let g3 := n / 1000000000 % 1000
    let g2 := n / 1000000 % 1000
    let g1 := n / 1000 % 1000
    let g0 := n % 1000
    scaled v 3 g3 ++ scaled v 2 g2 ++ low v g1 g0 (g3 == 0 && g2 == 0 && g0 != 0)

/-! ### ordinals -/

def dropLast (w : Word) : Word := w.take (w.length - 1)

/-- ordinal of a numeral: `quatre → quatrième`, `cinq → cinquième`, `neuf → neuvième`, `cent → centième` -/
def ordinalOfNumeral (w : Word) : Word :=
  let stem : Word :=
    if w == w!"cinq" then w!"cinqu"
    else if w == w!"neuf" then w!"neuv"
    else if w.getLast? == some 'e' then dropLast w
    else w
  stem ++ w!"ième"

/-- the last word of a spelling with its last hyphen component made ordinal -/
def ordinalOfLastWord (w : Word) : Word :=
  match (w.splitOn '-').reverse with
  | [] => w
  | u :: ts => hyphenate (ts.reverse ++ [ordinalOfNumeral u])

/-- ordinal `2 ≤ n ≤ 10^6`, masculine singular: the cardinal (no plural marks, `mille` not `mil`)
with its last numeral made ordinal -/
def ordinalWords (v : Var) (n : Nat) : List Word :=
  if n == 1000000 then [w!"millionième"]
  else
    let v' : Var := fun i => if i % 16 == 4 || i % 16 == 5 then 1 else if i == cp 1 7 then 0 else v i
    match (cardinal v' n).reverse with
    | [] => []
    | last :: rest => (ordinalOfLastWord last :: rest).reverse

def pluralize (ws : List Word) : List Word :=
  match ws.reverse with
  | [] => []
  | last :: rest => ((last ++ ['s']) :: rest).reverse

def ordinal (v : Var) (n i : Nat) : Option (List Word × Word) :=
  if n == 0 || n > 1000000 then none
  else if n == 1 then
    match i with
    | 0 => some ([w!"premier"], w!"er")
    | 1 => some ([w!"premiers"], w!"ers")
    | 2 => some ([w!"première"], w!"ère")
    | 3 => some ([w!"premières"], w!"ères")
    | _ => none
  else
    match i with
    | 0 => some (ordinalWords v n, w!"ème")
    | 1 => some (pluralize (ordinalWords v n), w!"èmes")
    | _ => none

/-! ### decimals and dictation -/

def sepWord : Word := w!"virgule"
def decMark : Char := ','

def valueOf (ds : List Nat) : Nat := ds.foldl (fun a d => 10 * a + d) 0

/-- leading zeros are spoken one by one, the remaining digits are read as one cardinal -/
def fraction (v : Var) (ds : List Nat) : List Word :=
  let zs := ds.takeWhile (· == 0)
  let rest := ds.dropWhile (· == 0)
  zs.map (fun _ => w!"zéro") ++ (if rest.isEmpty then [] else cardinal v (valueOf rest))

def zeroWord : Word := w!"zéro"

def digitWord (d : Nat) : Word := unitWord d

/-- the conjunction that may stand between two numbers -/
def conj : Word := w!"et"

def speller : Speller where
  code := "fr"
  cardinal := cardinal
  nInfl := 4
  ordMax := 1000000
  ordinal := ordinal
  sepWord := sepWord
  decMark := decMark
  fraction := fraction
  zeroWord := zeroWord
  digitWord := digitWord
  conj := conj

end T2N.Spec.Fr
