/-
  T2N.Spec.SpellEn — English spellings: cardinals below 10^12 with their accepted variants,
  ordinals, decimals, digit dictation. Written from English orthography and the repository's
  doc comments / tests (see DESIGN.md §3 C01, C04, C05).

  Variant axes (independent per group / choice point):
    * `twenty-one` | `twenty one`                               (cp g 0)
    * `and` after `hundred` when something follows in the group  (cp g 1)
    * `forty` | `fourty`                                         (cp g 2)
    * scale word singular | plural (`thousands`)                 (cp g 3)
    * leading `one` before `hundred` present | absent            (cp g 4)
    * leading `one` before a scale word present | absent (only when nothing precedes) (cp g 5)
    * `and` after the last scale word when the last group is < 100 (cp 0 6)
-/
import T2N.Spec.Basic

namespace T2N.Spec.En

def unitWords : List Word := [w!"zero", w!"one", w!"two", w!"three", w!"four", w!"five", w!"six", w!"seven",
  w!"eight", w!"nine", w!"ten", w!"eleven", w!"twelve", w!"thirteen", w!"fourteen", w!"fifteen", w!"sixteen",
  w!"seventeen", w!"eighteen", w!"nineteen"]

def tensWords : List Word := [[], [], w!"twenty", w!"thirty", w!"forty", w!"fifty", w!"sixty", w!"seventy",
  w!"eighty", w!"ninety"]

def unitWord (n : Nat) : Word := unitWords.getD n []

def tensWord (v : Var) (g t : Nat) : Word :=
  if t == 4 && flag v (cp g 2) then w!"fourty" else tensWords.getD t []

/-- 1..99 -/
def below100 (v : Var) (g n : Nat) : List Word :=
  if n < 20 then [unitWord n]
  else
    let t := n / 10
    let u := n % 10
    if u == 0 then [tensWord v g t]
    else if flag v (cp g 0) then [tensWord v g t, unitWord u]
    else [tensWord v g t ++ ['-'] ++ unitWord u]

/-- 1..999; `first` = nothing precedes this group in the number (only then may the leading
`one` of `one hundred` be dropped) -/
def group (v : Var) (g n : Nat) (first : Bool) : List Word :=
  let h := n / 100
  let r := n % 100
  let hs : List Word :=
    if h == 0 then []
    else if h == 1 && first && flag v (cp g 4) then [w!"hundred"]
    else [unitWord h, w!"hundred"]
  let link : List Word := if h != 0 && r != 0 && flag v (cp g 1) then [w!"and"] else []
  hs ++ link ++ (if r == 0 then [] else below100 v g r)

def scaleWord (v : Var) (g : Nat) : Word :=
  let base : Word := match g with
    | 1 => w!"thousand" | 2 => w!"million" | _ => w!"billion"
  if flag v (cp g 3) then base ++ ['s'] else base

/-- group `g ≥ 1` followed by its scale word; `first`: no higher group was spelled -/
def scaled (v : Var) (g n : Nat) (first : Bool) : List Word :=
  if n == 0 then []
  else if n == 1 && first && flag v (cp g 5) then [scaleWord v g]
  else group v g n first ++ [scaleWord v g]

/-- cardinal, `n < 10^12` -/
def cardinal (v : Var) (n : Nat) : List Word :=
  if n == 0 then [w!"zero"]
  else
    let g3 := n / 1000000000 % 1000
    let g2 := n / 1000000 % 1000
    let g1 := n / 1000 % 1000
    let g0 := n % 1000
    let p3 := scaled v 3 g3 true
    let p2 := scaled v 2 g2 (g3 == 0)
    let p1 := scaled v 1 g1 (g3 == 0 && g2 == 0)
    let hi := p3 ++ p2 ++ p1
    let link : List Word := if !hi.isEmpty && g0 != 0 && g0 < 100 && flag v (cp 0 6) then [w!"and"] else []
    hi ++ link ++ (if g0 == 0 then [] else group v 0 g0 hi.isEmpty)

/-! ### ordinals -/

def ordUnitWords : List Word := [[], w!"first", w!"second", w!"third", w!"fourth", w!"fifth", w!"sixth",
  w!"seventh", w!"eighth", w!"ninth", w!"tenth", w!"eleventh", w!"twelfth", w!"thirteenth", w!"fourteenth",
  w!"fifteenth", w!"sixteenth", w!"seventeenth", w!"eighteenth", w!"nineteenth"]

def ordTensWords : List Word := [[], [], w!"twentieth", w!"thirtieth", w!"fortieth", w!"fiftieth", w!"sixtieth",
  w!"seventieth", w!"eightieth", w!"ninetieth"]

/-- ordinal form of the last word of a cardinal spelling of `n` (the last word spells `m`) -/
def ordinalOfLast (v : Var) (m : Nat) (w : Word) : Word :=
  if m < 20 then ordUnitWords.getD m w
  else if m < 100 && m % 10 == 0 then
    (if m == 40 && flag v (cp 0 2) then w!"fourtieth" else ordTensWords.getD (m / 10) w)
  else w ++ w!"th"          -- hundred, thousand, million, billion

/-- marker expected for the inflection: singular or plural (`-ths`, `thirds`) -/
def ordinalMarker (n : Nat) (plural : Bool) : Word :=
  let r := n % 100
  let base : Word :=
    if r == 11 || r == 12 || r == 13 then w!"th"
    else match n % 10 with
      | 1 => w!"st" | 2 => w!"nd" | 3 => w!"rd" | _ => w!"th"
  -- plural is only spelled for forms in -th and for `third`
  if plural then base ++ ['s'] else base

/-- can the plural be spelled with this library's conventions? (`firsts`, `seconds` are not ordinals here) -/
def pluralOk (n : Nat) : Bool :=
  let r := n % 100
  !(r != 11 && n % 10 == 1) && !(r != 12 && n % 10 == 2)

/-- ordinal `n ≥ 1`: the cardinal with its last word (or last hyphen component) made ordinal.
Scale words are kept singular. -/
def ordinal (v : Var) (n : Nat) (plural : Bool) : List Word :=
  let v' : Var := fun i => if i % 16 == 3 then 0 else v i    -- singular scale words
  let ws := cardinal v' n
  let g0 := n % 1000
  -- the number spelled by the last word
  let lastVal : Nat :=
    if g0 % 100 != 0 then (if g0 % 100 < 20 then g0 % 100 else if g0 % 10 != 0 then g0 % 10 else g0 % 100)
    else 0
  match ws.reverse with
  | [] => []
  | last :: rest =>
    let newLast : Word :=
      if lastVal == 0 then last ++ w!"th"
      else if last.contains '-' then
        -- hyphenated tens-unit: only the unit becomes ordinal
        let parts := last.splitOn '-' |>.reverse
        match parts with
        | u :: ts => (ts.reverse.foldr (fun t acc => t ++ ['-'] ++ acc) []) ++ ordinalOfLast v lastVal u
        | [] => last
      else ordinalOfLast v lastVal last
    let newLast := if plural then newLast ++ ['s'] else newLast
    (newLast :: rest).reverse

/-! ### decimals and dictation -/

def sepWord : Word := w!"point"
def decMark : Char := '.'

/-- fraction digits spoken one by one; zero as `zero` | `o` | `nought` (cp 15 j) -/
def fraction (v : Var) (ds : List Nat) : List Word :=
  (List.range ds.length).zip ds |>.map (fun (i, d) =>
    if d == 0 then (match pick v (cp 15 (i % 16)) 2 with | 0 => w!"zero" | _ => w!"nought") else unitWord d)

def zeroWord : Word := w!"zero"

def digitWord (d : Nat) : Word := unitWord d

/-- the conjunction that may stand between two numbers -/
def conj : Word := w!"and"

end T2N.Spec.En

namespace T2N.Spec.En

def speller : Speller where
  code := "en"
  cardinal := cardinal
  nInfl := 2
  ordMax := 1000000
  ordinal := fun v n i =>
    if n == 0 then none
    else if i == 0 then some (ordinal v n false, ordinalMarker n false)
    else if i == 1 && pluralOk n then some (ordinal v n true, ordinalMarker n true)
    else none
  sepWord := sepWord
  decMark := decMark
  fraction := fraction
  zeroWord := zeroWord
  digitWord := digitWord
  conj := conj

end T2N.Spec.En
