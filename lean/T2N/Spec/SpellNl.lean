/-
  T2N.Spec.SpellNl — Dutch spellings: cardinals below 10^12 with their accepted variants, ordinals,
  decimals, digit dictation. Written from Dutch orthography (Taalunie: numbers up to a thousand are one
  word, a space follows `duizend`, `miljoen` / `miljard` are separate words, tens-units are compounded
  with `en` / `ën`) and from the repository's module doc / tests (src/lang/nl/mod.rs: the interpreter
  "accepts splitted words, that is `negen en zeventig` is treated like `negenenzeventig`").

  Standard spelling (`v = fun _ => 0`):
      driehonderdzevenenveertig miljard zeshonderdvijfentwintig miljoen
      zevenhonderdachtentwintigduizend tweehonderdeenentwintig

  Variant axes; `g` is the group index (0 = units, 1 = duizend, 2 = miljoen, 3 = miljard), every choice
  point is independent of the others:
    * (cp g 0)  scale word attached to / separated from its multiplier, toggled from the standard:
                g = 1: `vijfenzeventigduizend` (std) | `vijfenzeventig duizend`
                g ≥ 2: `vijfentwintig miljoen` (std) | `vijfentwintigmiljoen`
                The scale word is only ever attached to a multiplier written as ONE word: a split
                multiplier forces a separate scale word (`vijf honderd vier duizend`; never the partial
                split `vijf honderd vierduizend`, which reads 500 4000 and is rejected by the repository).
    * (cp g 1)  split level inside the group (pick of 4, each level includes the previous cuts):
                0 one word `driehonderdvijfenveertig` | 1 space after `honderd` `driehonderd vijfenveertig`
                | 2 spaces around `honderd` `drie honderd vijfenveertig`
                | 3 also around `en` `drie honderd vijf en veertig`
    * (cp 1 2)  units group attached after `duizend`: `tweeduizend driehonderdvijf` (std) |
                `tweeduizenddriehonderdvijf`; only when the `duizend` word and the units group are one
                word each (no lower-level cut without the higher one).
    * (cp g 3)  `een` | `één` for the unit 1 of the group (alone, in `eenentwintig`, `honderdeen`,
                `een miljoen`).
    * (cp g 4)  `drieën…` | `drieen…` (trema dropped) in an attached tens-unit compound of the group.
    * (cp 2 5)  ordinal of 10^6 only: `miljoenste` (std) | `een miljoenste` (cardinal kept whole).
  Fixed (no choice): no `een` before `honderd` / `duizend` (`eenhonderd`, `eenduizend` are rejected by the
  repository — excluded); `een miljoen`, `een miljard` always with `een`; scale words have no plural
  (`twee miljoen`); a space always follows `miljoen` / `miljard`.

  Removed after validation against the library (non-standard and rejected):
    * `tweeentwintig` (trema dropped after `twee`): not orthographic (ASCII fallback), the library's word
      splitter reads `…een…` in it and answers NaN. The trema-less form is kept for `drie` only, which is
      what the repository tests (`drieenzeventig`).
  Not covered (outside the axes of the property statement): counting in hundreds (`negentienhonderd
  negentig`, `vijfenzeventighonderd`), `en` after `honderd` / `duizend` (`honderd en een`).

  Ordinals: one form (index 0), marker `e`. Only the last element is ordinal: `-de` below 20 (`eerste`,
  `derde`, `achtste` irregular), `-ste` from 20 (`twintigste`, `honderdste`, `duizendste`, `miljoenste`).
  Fractions: every leading zero is `nul`, the remaining digits are read as one cardinal (its choice points
  are those of the integer part shifted by 64, so that both parts vary independently).
-/
import T2N.Spec.Basic

namespace T2N.Spec.Nl

def unitWords : List Word := [w!"nul", w!"een", w!"twee", w!"drie", w!"vier", w!"vijf", w!"zes", w!"zeven",
  w!"acht", w!"negen", w!"tien", w!"elf", w!"twaalf", w!"dertien", w!"veertien", w!"vijftien", w!"zestien",
  w!"zeventien", w!"achttien", w!"negentien"]

def tensWords : List Word := [[], [], w!"twintig", w!"dertig", w!"veertig", w!"vijftig", w!"zestig",
  w!"zeventig", w!"tachtig", w!"negentig"]

def tensWord (t : Nat) : Word := tensWords.getD t []

/-- 1..19; the unit 1 is `een` | `één` -/
def unitWord (v : Var) (g n : Nat) : Word :=
  if n == 1 && flag v (cp g 3) then w!"één" else unitWords.getD n []

/-- the link of an attached tens-unit compound: `ën` after `twee` / `drie` (the trema may be dropped
after `drie`), `en` otherwise -/
def linkWord (v : Var) (g u : Nat) : Word :=
  if u == 2 then w!"ën"
  else if u == 3 then (if flag v (cp g 4) then w!"en" else w!"ën")
  else w!"en"

/-- concatenation of the words into one word (nothing stays nothing) -/
def fuse (ws : List Word) : List Word :=
  if ws.isEmpty then [] else [ws.foldr (· ++ ·) []]

/-- 1..99; `splitEn`: written in three words around `en` -/
def below100 (v : Var) (g n : Nat) (splitEn : Bool) : List Word :=
  if n < 20 then [unitWord v g n]
  else
    let t := n / 10
    let u := n % 10
    if u == 0 then [tensWord t]
    else if splitEn then [unitWord v g u, w!"en", tensWord t]
    else [unitWord v g u ++ linkWord v g u ++ tensWord t]

/-- 1..999 at the split level chosen for the group -/
def group (v : Var) (g n : Nat) : List Word :=
  let lvl := pick v (cp g 1) 4
  let h := n / 100
  let r := n % 100
  let hs : List Word :=
    if h == 0 then []
    else if h == 1 then [w!"honderd"]
    else if lvl ≥ 2 then [unitWord v g h, w!"honderd"]
    else [unitWord v g h ++ w!"honderd"]
  let rs : List Word := if r == 0 then [] else below100 v g r (lvl == 3)
  if lvl == 0 then fuse (hs ++ rs) else hs ++ rs

def scaleWord (g : Nat) : Word :=
  match g with
  | 1 => w!"duizend" | 2 => w!"miljoen" | _ => w!"miljard"

/-- group `g ≥ 1` with its scale word -/
def scaled (v : Var) (g n : Nat) : List Word :=
  if n == 0 then []
  else if g == 1 && n == 1 then [scaleWord g]          -- `duizend`, never `eenduizend`
  else
    let ws := group v g n
    -- standard: attached for `duizend`, separate for `miljoen` / `miljard`
    let attach := ws.length == 1 && ((g == 1) != flag v (cp g 0))
    if attach then fuse (ws ++ [scaleWord g]) else ws ++ [scaleWord g]

/-- cardinal, `n < 10^12` -/
def cardinal (v : Var) (n : Nat) : List Word :=
  if n == 0 then [w!"nul"]
  else
    let g3 := n / 1000000000 % 1000
    let g2 := n / 1000000 % 1000
    let g1 := n / 1000 % 1000
    let g0 := n % 1000
    let hi := scaled v 3 g3 ++ scaled v 2 g2
    let p1 := scaled v 1 g1
    let p0 : List Word := if g0 == 0 then [] else group v 0 g0
    if p1.length == 1 && p0.length == 1 && flag v (cp 1 2) then hi ++ fuse (p1 ++ p0)
    else hi ++ p1 ++ p0

/-! ### ordinals -/

def ordUnitWords : List Word := [[], w!"eerste", w!"tweede", w!"derde", w!"vierde", w!"vijfde", w!"zesde",
  w!"zevende", w!"achtste", w!"negende", w!"tiende", w!"elfde", w!"twaalfde", w!"dertiende", w!"veertiende",
  w!"vijftiende", w!"zestiende", w!"zeventiende", w!"achttiende", w!"negentiende"]

/-- ordinal `1 ≤ n ≤ 10^6`: the cardinal with its last element made ordinal. When `n % 100` is in
1..19 the last word ends with that unit word, which is replaced by its ordinal form; otherwise the
last element is a tens word, `honderd`, `duizend` or `miljoen`, which takes `-ste`. -/
def ordinal (v : Var) (n : Nat) : List Word :=
  let ws := if n == 1000000 && !flag v (cp 2 5) then [w!"miljoen"] else cardinal v n
  let r := n % 100
  match ws.reverse with
  | [] => []
  | last :: rest =>
    let newLast : Word :=
      if r != 0 && r < 20 then
        last.take (last.length - (unitWord v 0 r).length) ++ ordUnitWords.getD r []
      else last ++ w!"ste"
    (newLast :: rest).reverse

def ordinalMarker : Word := w!"e"

/-! ### decimals and dictation -/

def sepWord : Word := w!"komma"
def decMark : Char := ','

/-- fraction digits: every leading zero is spoken `nul`, the remaining digits (at most 12) are read as
one cardinal number -/
def fraction (v : Var) (ds : List Nat) : List Word :=
  let zs := ds.takeWhile (· == 0)
  let rest := ds.dropWhile (· == 0)
  zs.map (fun _ => w!"nul") ++
    (if rest.isEmpty then [] else cardinal (fun i => v (i + 64)) (rest.foldl (fun a d => 10 * a + d) 0))

def zeroWord : Word := w!"nul"

def digitWord (d : Nat) : Word := unitWords.getD d []

/-- the conjunction that may stand between two numbers -/
def conj : Word := w!"en"

end T2N.Spec.Nl

namespace T2N.Spec.Nl

def speller : Speller where
  code := "nl"
  cardinal := cardinal
  nInfl := 1
  ordMax := 1000000
  ordinal := fun v n i =>
    if n == 0 || n > 1000000 then none
    else if i == 0 then some (ordinal v n, ordinalMarker)
    else none
  sepWord := sepWord
  decMark := decMark
  fraction := fraction
  zeroWord := zeroWord
  digitWord := digitWord
  conj := conj

end T2N.Spec.Nl
