/- T2N.Spec.SpellNl — STUB (to be replaced by the specification of nl spellings) -/
import T2N.Spec.Basic

namespace T2N.Spec.Nl

def speller : Speller where
  code := "nl"
  cardinal := fun _ _ => []
  nInfl := 0
  ordMax := 0
  ordinal := fun _ _ _ => none
  sepWord := []
  decMark := ','
  fraction := fun _ _ => []
  zeroWord := []
  digitWord := fun _ => []
  conj := []

end T2N.Spec.Nl
