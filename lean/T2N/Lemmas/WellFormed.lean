/-
  T2N.Lemmas.WellFormed — every occurrence reported by `find_numbers` carries a well-formed numeral.

  * builder level: the digit buffer only ever holds decimal digits and the marker is one of the
    language's own markers (`BInv`), for every instruction, for the compound merge and for the
    per-word functions of the seven interpreters (`LangWF`, `langWF_all`);
  * parser level: `PI` (both builders are well-formed; decimal mode is only entered on a number that
    bears no marker);
  * what `string_and_value` produces from such a parser: `Shaped` (four shapes: integer, ordinal,
    Spanish fraction, decimal), and what a shaped text satisfies: the grammar `isNumeral`, the reading
    `readText`, the marker test `hasOrdMarker`;
  * scanner level: every decided occurrence is shaped (`findNumbers_shaped`);
  * the edges of a span are word tokens the language accepted (`findNumbers_edges`).
-/
import T2N.Props.C12
import T2N.Lemmas.Agree
import T2N.Model.Langs

namespace T2N.WellFormed
open T2N T2N.C12

/-! ## the markers of a language -/

/-- the ordinal markers of each of the seven interpreters, by language code -/
def ordMks (l : Lang) : List Mk :=
  if l.code == "en" then [.th, .ths, .st, .nd, .rd, .rds]
  else if l.code == "fr" then [.eme, .emes, .er, .ers, .ere, .eres]
  else if l.code == "es" then [.esPrimer, .mo, .mos, .fa, .fas]
  else if l.code == "pt" then [.mo, .mos, .fa, .fas]
  else if l.code == "it" then [.mo, .fa]
  else if l.code == "de" then [.dot]
  else if l.code == "nl" then [.nlE]
  else []

/-- only Spanish writes fractions (`1/n`) -/
def allowsFraction (l : Lang) : Bool := l.code == "es"

/-- the ordinal marker strings of the language -/
def ordSuffixes (l : Lang) : List Word := (ordMks l).map Mk.chars

/-- the markers a builder of language `l` may bear -/
def mkOk (l : Lang) : Marker → Bool
  | .none => true
  | .ordinal m => (ordMks l).contains m
  | .fraction _ => allowsFraction l

/-! ## builder invariant -/

/-- every stored digit is a decimal digit and the marker is allowed (`M`) -/
def BInv (M : Marker → Bool) (b : DS) : Prop := DigitsOk b.rbuf ∧ M b.marker = true

theorem BInv.new (M : Marker → Bool) (h : M .none = true) : BInv M DS.new :=
  ⟨(by intro d hd; cases hd), h⟩

def digitsOkB (ds : List Nat) : Bool := ds.all (· < 10)

theorem digitsOkB_spec {ds : List Nat} (h : digitsOkB ds = true) : DigitsOk ds := by
  intro d hd
  have := List.all_eq_true.mp h d hd
  simpa using this

/-- all digit arguments of an instruction are decimal digits -/
def actOk : Act → Bool
  | .put ds => digitsOkB ds
  | .fput ds => digitsOkB ds
  | .shift _ => true
  | .putAt d _ => decide (d < 10)
  | .push ds => digitsOkB ds
  | .fail _ => true
  | .ite _ a b => actOk a && actOk b
  | .block _ a => actOk a

theorem exec_digitsOk (a : Act) : ∀ b : DS, actOk a = true → DigitsOk b.rbuf →
    DigitsOk (a.exec b).2.1.rbuf := by
  induction a with
  | put ds =>
    intro b ha hb; simp only [Act.exec]
    exact step_wf b (.put ds) hb (digitsOkB_spec ha)
  | fput ds =>
    intro b ha hb; simp only [Act.exec]
    exact step_wf b (.fput ds) hb (digitsOkB_spec ha)
  | shift k =>
    intro b _ hb; simp only [Act.exec]
    exact step_wf b (.shift k) hb trivial
  | putAt d p =>
    intro b ha hb; simp only [Act.exec]
    have hd : d < 10 := by simpa [actOk] using ha
    exact step_wf b (.putAt d p) hb hd
  | push ds =>
    intro b ha hb; simp only [Act.exec]
    exact step_wf b (.push ds) hb (digitsOkB_spec ha)
  | fail e => intro b _ hb; exact hb
  | ite g x y ihx ihy =>
    intro b ha hb
    have ha' : actOk x = true ∧ actOk y = true := by simpa [actOk] using ha
    simp only [Act.exec]
    split
    · exact ihx b ha'.1 hb
    · exact ihy b ha'.2 hb
  | block m a ih =>
    intro b ha hb
    simp only [Act.exec]
    exact ih b (by simpa [actOk] using ha) hb

theorem exec_binv (M : Marker → Bool) (a : Act) (b : DS) (ha : actOk a = true) (hb : BInv M b) :
    BInv M (a.exec b).2.1 :=
  ⟨exec_digitsOk a b ha hb.1, by rw [(Act.exec_frame a b).2.2]; exact hb.2⟩

theorem lookup_all {β : Type} (P : β → Bool) (l : List (Word × β)) (hl : (l.all fun p => P p.2) = true)
    (k : Word) (v : β) (h : l.lookup k = some v) : P v = true := by
  induction l with
  | nil => cases h
  | cons p ps ih =>
    cases p with
    | mk a x =>
      rw [List.all_cons, Bool.and_eq_true] at hl
      rw [List.lookup_cons] at h
      cases hk : (k == a) with
      | true => rw [hk] at h; cases h; exact hl.1
      | false => rw [hk] at h; exact ih hl.2 h

theorem lookup_actOk (l : List (Word × Act)) (hl : (l.all fun p => actOk p.2) = true) (k : Word) :
    actOk ((l.lookup k).getD (.fail .nan)) = true := by
  cases h : l.lookup k with
  | none => rfl
  | some v => exact lookup_all actOk l hl k v h

theorem put_marker (b : DS) (ds : List Nat) : (b.put ds).2.marker = b.marker := by
  have := (Act.exec_frame (.put ds) b).2.2
  simpa only [Act.exec] using this

theorem put_digitsOk (b : DS) (ds : List Nat) (hb : DigitsOk b.rbuf) (hds : DigitsOk ds) :
    DigitsOk (b.put ds).2.rbuf := step_wf b (.put ds) hb hds

theorem push_binv (M : Marker → Bool) (b : DS) (d : Nat) (hd : d < 10) (hb : BInv M b) :
    BInv M (b.push [d]).2 := by
  refine ⟨step_wf b (.push [d]) hb.1 (by intro x hx; simp at hx; omega), ?_⟩
  have := (Act.exec_frame (.push [d]) b).2.2
  simp only [Act.exec] at this
  rw [this]; exact hb.2

theorem digitsOk_reverse {ds : List Nat} (h : DigitsOk ds) : DigitsOk ds.reverse :=
  digitsOk_of_subset h (by intro d hd; simpa using hd)

/-- the compound merge keeps the invariant -/
theorem mergeGroup_binv (M : Marker → Bool) (b ds : DS) (cf : Bool) (m : Marker) (hb : BInv M b)
    (hds : DigitsOk ds.rbuf) (hm : m.isOrdinal = true → M m = true) : BInv M (mergeGroup b ds cf m).2 := by
  unfold mergeGroup
  split
  · exact hb
  · have hw := put_digitsOk b ds.rbuf.reverse hb.1 (digitsOk_reverse hds)
    have hmk := put_marker b ds.rbuf.reverse
    cases hp : b.put ds.rbuf.reverse with
    | mk r b' =>
      rw [hp] at hw hmk
      have hb' : BInv M b' := ⟨hw, by rw [show b'.marker = b.marker from hmk]; exact hb.2⟩
      cases r with
      | some e => exact hb'
      | none =>
        dsimp only
        cases hmo : m.isOrdinal with
        | true =>
          rw [if_pos rfl]
          cases cf
          · exact ⟨hb'.1, hm hmo⟩
          · exact ⟨hb'.1, hm hmo⟩
        | false =>
          rw [if_neg (by simp)]
          cases cf
          · exact hb'
          · exact hb'

theorem execGroupFrom_inv (P : DS → Prop) (apply : Word → DS → Res × DS)
    (h : ∀ w b, P b → P (apply w b).2) :
    ∀ (ws : List Word) (b : DS) (inc : Bool) (b0 : DS), P b → execGroupFrom apply ws b inc = .ok b0 → P b0 := by
  intro ws
  induction ws with
  | nil =>
    intro b inc b0 hb he
    cases inc with
    | true => simp [execGroupFrom] at he
    | false => simp only [execGroupFrom, Bool.false_eq_true, if_false] at he; cases he; exact hb
  | cons w ws ih =>
    intro b inc b0 hb he
    have hb' := h w b hb
    cases hr : apply w b with
    | mk r b' =>
      rw [hr] at hb'
      cases r with
      | none => rw [execGroupFrom_cons_ok hr] at he; exact ih b' false b0 hb' he
      | some e =>
        by_cases hinc : e = .incomplete
        · subst hinc; rw [execGroupFrom_cons_inc hr] at he; exact ih b' true b0 hb' he
        · rw [execGroupFrom_cons_err hr hinc] at he; cases he

/-- a compound branch: interpret the group on a fresh builder, then merge -/
theorem group_binv (M : Marker → Bool) (hM : M .none = true) (apply : Word → DS → Res × DS)
    (h : ∀ w b, BInv M b → BInv M (apply w b).2) (ws : List Word) (b : DS) (cf : Bool)
    (mk : DS → Marker) (hmk : ∀ ds, BInv M ds → (mk ds).isOrdinal = true → M (mk ds) = true)
    (hb : BInv M b) :
    BInv M (match execGroup apply ws with
      | .ok ds => mergeGroup b ds cf (mk ds)
      | .error e => (some e, b)).2 := by
  cases hg : execGroup apply ws with
  | error e => exact hb
  | ok ds =>
    have hds : BInv M ds := execGroupFrom_inv (BInv M) apply h ws DS.new false ds (BInv.new M hM) hg
    exact mergeGroup_binv M b ds cf (mk ds) hb hds.1 (hmk ds hds)

/-- digit-by-digit decimals (en, de) -/
theorem decimal_binv (M : Marker → Bool) (tbl : List (Word × Nat)) (ht : (tbl.all fun p => decide (p.2 < 10)) = true)
    (w : Word) (b : DS) (hb : BInv M b) :
    BInv M (match tbl.lookup w with
      | some d => b.push [d]
      | none => (some .nan, b)).2 := by
  cases h : tbl.lookup w with
  | none => exact hb
  | some d =>
    have := lookup_all (fun n => decide (n < 10)) tbl ht w d h
    exact push_binv M b d (by simpa using this) hb

/-! ## the seven interpreters -/

/-- what the well-formedness of occurrences needs from a language -/
structure LangWF (l : Lang) : Prop where
  apply_inv : ∀ w b, BInv (mkOk l) b → BInv (mkOk l) (l.apply w b).2
  dec_inv : ∀ w b, BInv (mkOk l) b → BInv (mkOk l) (l.applyDecimal w b).2
  mark_not_digit : l.decMark.isDigit = false
  mark_not_slash : l.decMark ≠ '/'

/-! ### English -/

theorem En.vocab_ok : (En.vocab.all fun p => actOk p.2) = true := by decide

theorem En.morph_ok (w : Word) : mkOk En.lang (En.morph w) = true := by
  unfold En.morph
  repeat' split
  all_goals decide

theorem En.applyFuel_binv : ∀ (fuel : Nat) (w : Word) (b : DS), BInv (mkOk En.lang) b →
    BInv (mkOk En.lang) (En.applyFuel fuel w b).2 := by
  intro fuel
  induction fuel with
  | zero => intro w b hb; exact hb
  | succ fuel ih =>
    intro w b hb
    unfold En.applyFuel
    by_cases hc : w.contains '-' = true
    · rw [if_pos hc]
      exact group_binv _ rfl _ ih _ b false (fun ds => ds.marker) (fun ds hds _ => hds.2) hb
    · rw [if_neg hc]
      dsimp only
      have hb' := exec_binv (mkOk En.lang) _ b (lookup_actOk En.vocab En.vocab_ok (En.lemmatize w)) hb
      cases hr : ((En.vocab.lookup (En.lemmatize w)).getD (.fail .nan)).exec b with
      | mk r rest =>
        cases rest with
        | mk b' tb =>
          rw [hr] at hb'
          dsimp only
          split
          · exact ⟨hb'.1, En.morph_ok w⟩
          · exact hb'

theorem langWF_en : LangWF En.lang where
  apply_inv := En.applyFuel_binv 2
  dec_inv := fun w b hb => decimal_binv _ En.decVocab (by decide) w b hb
  mark_not_digit := by decide
  mark_not_slash := by decide

/-! ### French -/

theorem Fr.vocab_ok : (Fr.vocab.all fun p => actOk p.2) = true := by decide

theorem Fr.morph_ok (w : Word) : mkOk Fr.lang (Fr.morph w) = true := by
  unfold Fr.morph
  repeat' split
  all_goals decide

theorem Fr.applyFuel_binv : ∀ (fuel : Nat) (w : Word) (b : DS), BInv (mkOk Fr.lang) b →
    BInv (mkOk Fr.lang) (Fr.applyFuel fuel w b).2 := by
  intro fuel
  induction fuel with
  | zero => intro w b hb; exact hb
  | succ fuel ih =>
    intro w b hb
    unfold Fr.applyFuel
    by_cases hc : w.contains '-' = true
    · rw [if_pos hc]
      exact group_binv _ rfl _ ih _ b true (fun ds => ds.marker) (fun ds hds _ => hds.2) hb
    · rw [if_neg hc]
      dsimp only
      have hb' := exec_binv (mkOk Fr.lang) _ b (lookup_actOk Fr.vocab Fr.vocab_ok (Fr.lemmatize w)) hb
      cases hr : ((Fr.vocab.lookup (Fr.lemmatize w)).getD (.fail .nan)).exec b with
      | mk r rest =>
        cases rest with
        | mk b' tb =>
          rw [hr] at hb'
          dsimp only
          split
          · split
            · exact hb'
            · exact ⟨hb'.1, Fr.morph_ok w⟩
          · exact hb'

theorem langWF_fr : LangWF Fr.lang where
  apply_inv := Fr.applyFuel_binv 2
  dec_inv := Fr.applyFuel_binv 2
  mark_not_digit := by decide
  mark_not_slash := by decide

/-! ### Spanish -/

theorem Es.vocab_ok : (Es.vocab.all fun p => actOk p.2) = true := by decide

theorem Es.morph_ok (w : Word) : mkOk Es.lang (Es.morph w) = true := by
  unfold Es.morph
  dsimp only
  repeat' split
  all_goals decide

theorem Es.apply_binv (w : Word) (b : DS) (hb : BInv (mkOk Es.lang) b) :
    BInv (mkOk Es.lang) (Es.apply w b).2 := by
  unfold Es.apply
  dsimp only
  split
  · exact hb
  · have hb' := exec_binv (mkOk Es.lang) _ b (lookup_actOk Es.vocab Es.vocab_ok (Es.lemmatize w)) hb
    cases hr : ((Es.vocab.lookup (Es.lemmatize w)).getD (.fail .nan)).exec b with
    | mk r rest =>
      cases rest with
      | mk b' tb =>
        rw [hr] at hb'
        dsimp only
        split
        · split
          · exact ⟨hb'.1, Es.morph_ok w⟩
          · exact ⟨hb'.1, Es.morph_ok w⟩
        · exact hb'

theorem langWF_es : LangWF Es.lang where
  apply_inv := Es.apply_binv
  dec_inv := Es.apply_binv
  mark_not_digit := by decide
  mark_not_slash := by decide

/-! ### Portuguese -/

def ordinalLemmasContains (w : Word) : Bool := Pt.ordinalLemmas.contains (Pt.lemmatize w)

theorem Pt.vocab_ok (mnone : Bool) : ((Pt.vocab mnone).all fun p => actOk p.2) = true := by
  cases mnone <;> decide

theorem Pt.morph_ok (w : Word) : mkOk Pt.lang (Pt.morph w) = true := by
  have key : ∀ m : Marker, mkOk Pt.lang m = true →
      mkOk Pt.lang (if ordinalLemmasContains w then m else if endsWith (Pt.lemmatize w) w!"im" then m else .none) = true := by
    intro m hm
    repeat' split
    all_goals first | exact hm | decide
  unfold Pt.morph
  dsimp only
  by_cases h1 : endsWith w w!"a" = true
  · rw [if_pos h1]; exact key _ (by decide)
  rw [if_neg h1]
  by_cases h2 : endsWith w w!"as" = true
  · rw [if_pos h2]; exact key _ (by decide)
  rw [if_neg h2]
  by_cases h3 : endsWith w w!"o" = true
  · rw [if_pos h3]; exact key _ (by decide)
  rw [if_neg h3]
  by_cases h4 : endsWith w w!"os" = true
  · rw [if_pos h4]; exact key _ (by decide)
  rw [if_neg h4]
  rfl

theorem Pt.apply_binv (w : Word) (b : DS) (hb : BInv (mkOk Pt.lang) b) :
    BInv (mkOk Pt.lang) (Pt.apply w b).2 := by
  unfold Pt.apply
  dsimp only
  split
  · exact hb
  · have hb' := exec_binv (mkOk Pt.lang) _ b
      (lookup_actOk (Pt.vocab (Pt.morph w).isNone) (Pt.vocab_ok _) (Pt.lemmatize w)) hb
    cases hr : (((Pt.vocab (Pt.morph w).isNone).lookup (Pt.lemmatize w)).getD (.fail .nan)).exec b with
    | mk r rest =>
      cases rest with
      | mk b' tb =>
        rw [hr] at hb'
        dsimp only
        split
        · exact ⟨hb'.1, Pt.morph_ok w⟩
        · exact hb'
        · exact hb'

theorem langWF_pt : LangWF Pt.lang where
  apply_inv := Pt.apply_binv
  dec_inv := Pt.apply_binv
  mark_not_digit := by decide
  mark_not_slash := by decide

/-! ### Italian -/

theorem It.vocab_ok : (It.vocab.all fun p => actOk p.2) = true := by decide

theorem It.morph_ok (w : Word) : mkOk It.lang (It.morph w) = true := by
  unfold It.morph
  repeat' split
  all_goals decide

theorem It.applyFuel_binv : ∀ (fuel : Nat) (w : Word) (b : DS), BInv (mkOk It.lang) b →
    BInv (mkOk It.lang) (It.applyFuel fuel w b).2 := by
  intro fuel
  induction fuel with
  | zero => intro w b hb; exact hb
  | succ fuel ih =>
    intro w b hb
    unfold It.applyFuel
    dsimp only
    by_cases hc : isSplittable It.patterns (It.lemmatize w) = true
    · rw [if_pos hc]
      exact group_binv _ rfl _ ih _ b false (fun _ => It.morph w) (fun _ _ _ => It.morph_ok w) hb
    · rw [if_neg hc]
      have hok : actOk (if (It.lemmatize w == w!"non" && w == w!"non") = true then Act.fail Err.nan
          else (It.vocab.lookup (It.lemmatize w)).getD (.fail .nan)) = true := by
        split
        · rfl
        · exact lookup_actOk It.vocab It.vocab_ok (It.lemmatize w)
      have hb' := exec_binv (mkOk It.lang) _ b hok hb
      cases hr : (if (It.lemmatize w == w!"non" && w == w!"non") = true then Act.fail Err.nan
          else (It.vocab.lookup (It.lemmatize w)).getD (.fail .nan)).exec b with
      | mk r rest =>
        cases rest with
        | mk b' tb =>
          rw [hr] at hb'
          dsimp only
          split
          · exact ⟨hb'.1, It.morph_ok w⟩
          · exact hb'

theorem langWF_it : LangWF It.lang where
  apply_inv := It.applyFuel_binv 2
  dec_inv := It.applyFuel_binv 2
  mark_not_digit := by decide
  mark_not_slash := by decide

/-! ### German -/

theorem De.vocab_ok : (De.vocab.all fun p => actOk p.2) = true := by decide

theorem De.morph_ok (w : Word) : mkOk De.lang (De.morph w) = true := by
  unfold De.morph
  repeat' split
  all_goals decide

theorem De.applyFuel_binv : ∀ (fuel : Nat) (w : Word) (b : DS), BInv (mkOk De.lang) b →
    BInv (mkOk De.lang) (De.applyFuel fuel w b).2 := by
  intro fuel
  induction fuel with
  | zero => intro w b hb; exact hb
  | succ fuel ih =>
    intro w b hb
    unfold De.applyFuel
    dsimp only
    by_cases hc : isSplittable De.patterns (De.lemmatize w) = true
    · rw [if_pos hc]
      exact group_binv _ rfl _ ih _ b false (fun ds => ds.marker) (fun ds hds _ => hds.2) hb
    · rw [if_neg hc]
      have hb' := exec_binv (mkOk De.lang) _ b (lookup_actOk De.vocab De.vocab_ok (De.lemmatize w)) hb
      cases hr : ((De.vocab.lookup (De.lemmatize w)).getD (.fail .nan)).exec b with
      | mk r rest =>
        cases rest with
        | mk b' tb =>
          rw [hr] at hb'
          dsimp only
          split
          · cases endsWith (De.lemmatize w) w!"te" <;> cases (De.lemmatize w == w!"eins")
            · exact hb'
            · exact hb'
            · exact ⟨hb'.1, De.morph_ok _⟩
            · exact ⟨hb'.1, De.morph_ok _⟩
          · exact hb'

theorem langWF_de : LangWF De.lang where
  apply_inv := De.applyFuel_binv 2
  dec_inv := fun w b hb => decimal_binv _ De.decVocab (by decide) w b hb
  mark_not_digit := by decide
  mark_not_slash := by decide

/-! ### Dutch -/

theorem Nl.vocab_ok : (Nl.vocab.all fun p => actOk p.2) = true := by decide

theorem Nl.morph_ok (w : Word) : mkOk Nl.lang (Nl.morph w) = true := by
  unfold Nl.morph
  repeat' split
  all_goals decide

theorem Nl.applyFuel_binv : ∀ (fuel : Nat) (w : Word) (b : DS), BInv (mkOk Nl.lang) b →
    BInv (mkOk Nl.lang) (Nl.applyFuel fuel w b).2 := by
  intro fuel
  induction fuel with
  | zero => intro w b hb; exact hb
  | succ fuel ih =>
    intro w b hb
    unfold Nl.applyFuel
    by_cases hc : isSplittable Nl.patterns w = true
    · rw [if_pos hc]
      exact group_binv _ rfl _ ih _ b false (fun ds => ds.marker) (fun ds hds _ => hds.2) hb
    · rw [if_neg hc]
      dsimp only
      have hb' := exec_binv (mkOk Nl.lang) _ b (lookup_actOk Nl.vocab Nl.vocab_ok w) hb
      cases hr : ((Nl.vocab.lookup w).getD (.fail .nan)).exec b with
      | mk r rest =>
        cases rest with
        | mk b' tb =>
          rw [hr] at hb'
          dsimp only
          split
          · split
            · exact ⟨hb'.1, Nl.morph_ok w⟩
            · exact hb'
          · exact hb'

theorem langWF_nl : LangWF Nl.lang where
  apply_inv := Nl.applyFuel_binv 2
  dec_inv := Nl.applyFuel_binv 2
  mark_not_digit := by decide
  mark_not_slash := by decide

theorem langWF_all : ∀ l ∈ allLangs, LangWF l := by
  intro l hl
  simp only [allLangs, List.mem_cons, List.not_mem_nil, or_false] at hl
  rcases hl with rfl | rfl | rfl | rfl | rfl | rfl | rfl
  · exact langWF_en
  · exact langWF_fr
  · exact langWF_es
  · exact langWF_pt
  · exact langWF_it
  · exact langWF_de
  · exact langWF_nl

/-! ## the grammar of occurrence texts -/

/-- one or more ASCII digits -/
def isDigits (w : Word) : Bool := !w.isEmpty && w.all Char.isDigit

/-- **well-formed base-10 numeral of language `l`**: one or more ASCII digits, followed by nothing, or
by one of the language's ordinal marker strings, or by the language's decimal mark and one or more
digits; or (Spanish only) the fraction form `1/` digits. -/
def isNumeral (l : Lang) (t : Word) : Bool :=
  let i := t.takeWhile Char.isDigit      -- the leading digits
  let r := t.dropWhile Char.isDigit      -- what follows them
  (!i.isEmpty &&
    (r.isEmpty || (ordSuffixes l).contains r || (r.head? == some l.decMark && isDigits r.tail)))
  || (allowsFraction l && t.take 2 == ['1', '/'] && isDigits (t.drop 2))

def digitVal (c : Char) : Nat := c.toNat - 48

/-- the digits of a string of ASCII digits, most significant first -/
def digitsOf (w : Word) : List Nat := w.map digitVal

/-- **the numeric reading of a numeral**, as the model's exact `Value` (digit lists, not floats) -/
def readText (l : Lang) (t : Word) : Option Value :=
  let i := t.takeWhile Char.isDigit
  let r := t.dropWhile Char.isDigit
  if !i.isEmpty && (r.isEmpty || (ordSuffixes l).contains r) then some (.dec (digitsOf i) [])
  else if !i.isEmpty && r.head? == some l.decMark && isDigits r.tail then
    some (.dec (digitsOf i) (digitsOf r.tail))
  else if allowsFraction l && t.take 2 == ['1', '/'] && isDigits (t.drop 2) then
    some (.recip (digitsOf (t.drop 2)))
  else none

/-- the text ends with one of the language's ordinal marker strings -/
def hasOrdMarker (l : Lang) (t : Word) : Bool := (ordSuffixes l).any (fun s => endsWith t s)

/-! ### digit characters -/

theorem isDigit_digitChar : ∀ d, d < 10 → (digitChar d).isDigit = true := by decide

theorem digitVal_digitChar : ∀ d, d < 10 → digitVal (digitChar d) = d := by decide

theorem all_isDigit_map {ds : List Nat} (h : DigitsOk ds) : (ds.map digitChar).all Char.isDigit = true := by
  rw [List.all_eq_true]
  intro c hc
  obtain ⟨d, hd, rfl⟩ := List.mem_map.mp hc
  exact isDigit_digitChar d (h d hd)

theorem digitsOf_map {ds : List Nat} (h : DigitsOk ds) : digitsOf (ds.map digitChar) = ds := by
  induction ds with
  | nil => rfl
  | cons d ds ih =>
    have hd : d < 10 := h d (by simp)
    have ht : DigitsOk ds := fun x hx => h x (by simp [hx])
    simp only [digitsOf, List.map_cons] at ih ⊢
    rw [digitVal_digitChar d hd, ih ht]

theorem isDigits_map {ds : List Nat} (h : DigitsOk ds) (hne : ds ≠ []) : isDigits (ds.map digitChar) = true := by
  unfold isDigits
  rw [all_isDigit_map h]
  cases ds with
  | nil => exact absurd rfl hne
  | cons d ds => rfl

/-- the first character (if any) is not a digit -/
def headNotDigit (r : Word) : Bool := r.head?.all (fun c => !c.isDigit)

theorem span_digits (ds : List Nat) (h : DigitsOk ds) (r : Word) (hr : headNotDigit r = true) :
    (ds.map digitChar ++ r).takeWhile Char.isDigit = ds.map digitChar ∧
    (ds.map digitChar ++ r).dropWhile Char.isDigit = r := by
  induction ds with
  | nil =>
    cases r with
    | nil => exact ⟨rfl, rfl⟩
    | cons c cs =>
      have hc : c.isDigit = false := by simpa [headNotDigit] using hr
      simp [hc]
  | cons d ds ih =>
    have hd : (digitChar d).isDigit = true := isDigit_digitChar d (h d (by simp))
    have ht : DigitsOk ds := fun x hx => h x (by simp [hx])
    obtain ⟨i1, i2⟩ := ih ht
    simp only [List.map_cons, List.cons_append, List.takeWhile_cons, List.dropWhile_cons, hd, if_true]
    exact ⟨by rw [i1], i2⟩

/-- the last character is a digit -/
def lastIsDigit (w : Word) : Bool := w.getLast?.any Char.isDigit

theorem lastIsDigit_append_map (pre : Word) {ds : List Nat} (h : DigitsOk ds) (hne : ds ≠ []) :
    lastIsDigit (pre ++ ds.map digitChar) = true := by
  unfold lastIsDigit
  have hm : (ds.map digitChar).getLast? = some (digitChar (ds.getLast hne)) := by
    rw [List.getLast?_map, List.getLast?_eq_some_getLast hne]; rfl
  rw [List.getLast?_append, hm]
  simp only [Option.some_or, Option.any_some]
  exact isDigit_digitChar _ (h _ (List.getLast_mem hne))

/-! ### marker strings -/

theorem mk_head_not_digit (m : Mk) : headNotDigit m.chars = true := by
  cases m <;> decide

theorem mk_last_not_digit (m : Mk) : lastIsDigit m.chars = false := by
  cases m <;> decide

theorem mk_ne_nil (m : Mk) : m.chars ≠ [] := by
  cases m <;> decide

theorem not_suffix_of_lastIsDigit (l : Lang) (w : Word) (hw : lastIsDigit w = true) :
    (ordSuffixes l).contains w = false := by
  cases hc : (ordSuffixes l).contains w with
  | false => rfl
  | true =>
    have hmem : w ∈ ordSuffixes l := by simpa using hc
    obtain ⟨m, _, rfl⟩ := List.mem_map.mp hmem
    rw [mk_last_not_digit m] at hw; cases hw

theorem getLast?_of_suffix {s t : Word} (h : s <:+ t) (hs : s ≠ []) : t.getLast? = s.getLast? := by
  obtain ⟨pre, rfl⟩ := h
  rw [List.getLast?_append]
  cases hl : s.getLast? with
  | none => rw [List.getLast?_eq_none_iff] at hl; exact absurd hl hs
  | some c => rfl

theorem no_marker_of_lastIsDigit (l : Lang) (t : Word) (ht : lastIsDigit t = true) :
    hasOrdMarker l t = false := by
  cases hc : hasOrdMarker l t with
  | false => rfl
  | true =>
    unfold hasOrdMarker at hc
    rw [List.any_eq_true] at hc
    obtain ⟨s, hs, he⟩ := hc
    obtain ⟨m, _, rfl⟩ := List.mem_map.mp hs
    have hsuf : m.chars <:+ t := by simpa [endsWith] using he
    have := getLast?_of_suffix hsuf (mk_ne_nil m)
    unfold lastIsDigit at ht
    rw [this] at ht
    have hm := mk_last_not_digit m
    unfold lastIsDigit at hm
    rw [hm] at ht; cases ht

/-! ## the four shapes of an occurrence -/

/-- what `string_and_value` produces: text, value and ordinal flag come in one of four shapes -/
inductive Shaped (l : Lang) (t : Word) (v : Value) (o : Bool) : Prop
  | int (ds : List Nat) (h : DigitsOk ds) (hne : ds ≠ []) (ht : t = ds.map digitChar)
      (hv : v = .dec ds []) (ho : o = false)
  | ord (ds : List Nat) (m : Mk) (h : DigitsOk ds) (hne : ds ≠ []) (hm : m ∈ ordMks l)
      (ht : t = ds.map digitChar ++ m.chars) (hv : v = .dec ds []) (ho : o = true)
  | frac (ds : List Nat) (h : DigitsOk ds) (hne : ds ≠ []) (hf : allowsFraction l = true)
      (ht : t = ['1', '/'] ++ ds.map digitChar) (hv : v = .recip ds) (ho : o = false)
  | decimal (i d : List Nat) (hi : DigitsOk i) (hd : DigitsOk d) (hine : i ≠ []) (hdne : d ≠ [])
      (ht : t = i.map digitChar ++ [l.decMark] ++ d.map digitChar) (hv : v = .dec i d) (ho : o = false)

theorem map_isEmpty_false {ds : List Nat} (hne : ds ≠ []) : (ds.map digitChar).isEmpty = false := by
  cases ds with
  | nil => exact absurd rfl hne
  | cons d ds => rfl

theorem mem_suffixes {l : Lang} {m : Mk} (hm : m ∈ ordMks l) : (ordSuffixes l).contains m.chars = true := by
  have : m.chars ∈ ordSuffixes l := List.mem_map.mpr ⟨m, hm, rfl⟩
  simpa using this

/-- the decomposition of a fraction text -/
theorem frac_split (ds : List Nat) :
    (['1', '/'] ++ ds.map digitChar).takeWhile Char.isDigit = ['1'] ∧
    (['1', '/'] ++ ds.map digitChar).dropWhile Char.isDigit = '/' :: ds.map digitChar := by
  have h1 : Char.isDigit '1' = true := by decide
  have h2 : Char.isDigit '/' = false := by decide
  simp [h1, h2]

theorem shaped_isNumeral (l : Lang) (hmd : l.decMark.isDigit = false) (t : Word) (v : Value) (o : Bool)
    (h : Shaped l t v o) : isNumeral l t = true := by
  unfold isNumeral
  dsimp only
  cases h with
  | int ds h hne ht hv ho =>
    subst ht
    have := span_digits ds h [] rfl
    rw [List.append_nil] at this
    rw [this.1, this.2, map_isEmpty_false hne]
    rfl
  | ord ds m h hne hm ht hv ho =>
    subst ht
    obtain ⟨a, b⟩ := span_digits ds h m.chars (mk_head_not_digit m)
    rw [a, b, map_isEmpty_false hne, mem_suffixes hm]
    simp
  | frac ds h hne hf ht hv ho =>
    subst ht
    rw [hf]
    have h1 : List.take 2 (['1', '/'] ++ ds.map digitChar) = ['1', '/'] := rfl
    have h2 : List.drop 2 (['1', '/'] ++ ds.map digitChar) = ds.map digitChar := rfl
    rw [h1, h2, isDigits_map h hne]
    simp
  | decimal i d hi hd hine hdne ht hv ho =>
    subst ht
    rw [List.append_assoc]
    obtain ⟨a, b⟩ := span_digits i hi ([l.decMark] ++ d.map digitChar) (by simp [headNotDigit, hmd])
    rw [a, b, map_isEmpty_false hine]
    have h1 : ([l.decMark] ++ d.map digitChar).head? = some l.decMark := rfl
    have h2 : ([l.decMark] ++ d.map digitChar).tail = d.map digitChar := rfl
    rw [h1, h2, isDigits_map hd hdne]
    simp

theorem shaped_readText (l : Lang) (hmd : l.decMark.isDigit = false) (hms : l.decMark ≠ '/')
    (t : Word) (v : Value) (o : Bool) (h : Shaped l t v o) : readText l t = some v := by
  unfold readText
  dsimp only
  cases h with
  | int ds h hne ht hv ho =>
    subst ht hv
    have := span_digits ds h [] rfl
    rw [List.append_nil] at this
    rw [this.1, this.2, map_isEmpty_false hne, digitsOf_map h]
    rfl
  | ord ds m h hne hm ht hv ho =>
    subst ht hv
    obtain ⟨a, b⟩ := span_digits ds h m.chars (mk_head_not_digit m)
    rw [a, b, map_isEmpty_false hne, mem_suffixes hm, digitsOf_map h]
    simp
  | frac ds h hne hf ht hv ho =>
    subst ht hv
    obtain ⟨a, b⟩ := frac_split ds
    rw [a, b]
    have hns : (ordSuffixes l).contains ('/' :: ds.map digitChar) = false :=
      not_suffix_of_lastIsDigit l _ (lastIsDigit_append_map ['/'] h hne)
    rw [hns]
    have hh : (('/' :: ds.map digitChar).head? == some l.decMark) = false := by
      simp only [List.head?_cons]
      cases hc : (some '/' == some l.decMark) with
      | false => rfl
      | true =>
        have : '/' = l.decMark := by simpa using hc
        exact absurd this.symm hms
    rw [hh, hf]
    have h1 : List.take 2 (['1', '/'] ++ ds.map digitChar) = ['1', '/'] := rfl
    have h2 : List.drop 2 (['1', '/'] ++ ds.map digitChar) = ds.map digitChar := rfl
    rw [h1, h2, isDigits_map h hne, digitsOf_map h]
    simp
  | decimal i d hi hd hine hdne ht hv ho =>
    subst ht hv
    rw [List.append_assoc]
    obtain ⟨a, b⟩ := span_digits i hi ([l.decMark] ++ d.map digitChar) (by simp [headNotDigit, hmd])
    rw [a, b, map_isEmpty_false hine]
    have hns : (ordSuffixes l).contains ([l.decMark] ++ d.map digitChar) = false :=
      not_suffix_of_lastIsDigit l _ (lastIsDigit_append_map [l.decMark] hd hdne)
    rw [hns]
    have h1 : ([l.decMark] ++ d.map digitChar).head? = some l.decMark := rfl
    have h2 : ([l.decMark] ++ d.map digitChar).tail = d.map digitChar := rfl
    have h3 : ([l.decMark] ++ d.map digitChar).isEmpty = false := rfl
    rw [h1, h2, h3, isDigits_map hd hdne, digitsOf_map hi, digitsOf_map hd]
    simp

theorem shaped_ordinal_iff (l : Lang) (t : Word) (v : Value) (o : Bool) (h : Shaped l t v o) :
    o = true ↔ hasOrdMarker l t = true := by
  cases h with
  | int ds h hne ht hv ho =>
    subst ht ho
    have := no_marker_of_lastIsDigit l _ (lastIsDigit_append_map [] h hne)
    rw [List.nil_append] at this
    rw [this]
  | ord ds m h hne hm ht hv ho =>
    subst ht ho
    refine ⟨fun _ => ?_, fun _ => rfl⟩
    unfold hasOrdMarker
    rw [List.any_eq_true]
    refine ⟨m.chars, List.mem_map.mpr ⟨m, hm, rfl⟩, ?_⟩
    simp [endsWith]
  | frac ds h hne hf ht hv ho =>
    subst ht ho
    rw [no_marker_of_lastIsDigit l _ (lastIsDigit_append_map ['1', '/'] h hne)]
  | decimal i d hi hd hine hdne ht hv ho =>
    subst ht ho
    rw [no_marker_of_lastIsDigit l _ (lastIsDigit_append_map _ hd hdne)]

/-- a shaped occurrence with a fractional part is not ordinal -/
theorem shaped_decimal_not_ordinal (l : Lang) (t : Word) (i f : List Nat) (o : Bool)
    (h : Shaped l t (.dec i f) o) (hf : f ≠ []) : o = false := by
  cases h with
  | int ds h hne ht hv ho => exact ho
  | ord ds m h hne hm ht hv ho => cases hv; exact absurd rfl hf
  | frac ds h hne hf ht hv ho => exact ho
  | decimal i d hi hd hine hdne ht hv ho => exact ho

/-! ## parser invariant -/

/-- both builders are well-formed; decimal mode is only entered on a number that bears no marker -/
def PI (l : Lang) (p : Parser) : Prop :=
  BInv (mkOk l) p.int ∧ BInv (mkOk l) p.dec ∧ (p.isDec = true → p.int.marker = .none)

theorem PI.init (l : Lang) : PI l {} :=
  ⟨BInv.new _ rfl, BInv.new _ rfl, fun h => by cases h⟩

theorem push_pi (l : Lang) (hl : LangWF l) (p : Parser) (hp : PI l p) (w : Word) : PI l (p.push l w).2 := by
  unfold Parser.push
  by_cases hd : p.isDec = true
  · rw [if_pos hd]
    have hdec := hl.dec_inv w p.dec hp.2.1
    cases hr : l.applyDecimal w p.dec with
    | mk r d =>
      rw [hr] at hdec
      dsimp only
      have hcond : (r.isSome && !p.isDec && !p.int.isEmpty && p.int.marker.isNone && l.isDecSep w) = false := by
        rw [hd]; simp
      rw [hcond]
      exact ⟨hp.1, hdec, hp.2.2⟩
  · rw [if_neg hd]
    have hd' : p.isDec = false := by simpa using hd
    have hint := hl.apply_inv w p.int hp.1
    cases hr : l.apply w p.int with
    | mk r b' =>
      rw [hr] at hint
      dsimp only
      split
      · rename_i hc
        refine ⟨hint, hp.2.1, fun _ => ?_⟩
        simp only [Bool.and_eq_true] at hc
        have hnone : b'.marker.isNone = true := hc.1.2
        show b'.marker = .none
        cases hm : b'.marker with
        | none => rfl
        | ordinal m => rw [hm] at hnone; cases hnone
        | fraction m => rw [hm] at hnone; cases hnone
      · exact ⟨hint, hp.2.1, fun h => by rw [hd'] at h; cases h⟩

theorem render_digitsOk {b : DS} (h : DigitsOk b.rbuf) : DigitsOk b.render :=
  digitsOk_append (digitsOk_replicate _) (digitsOk_reverse h)

/-- **what `string_and_value` produces from a well-formed parser that holds a number** -/
theorem finish_shaped (l : Lang) (p : Parser) (hp : PI l p) (hn : p.hasNumber = true)
    (t : Word) (v : Value) (h : p.finish l = .ok (t, v)) : Shaped l t v p.isOrdinal := by
  have hine : p.int.isEmpty = false := by simpa [Parser.hasNumber] using hn
  have hri := render_ne_nil p.int hine
  have hdi := render_digitsOk hp.1.1
  unfold Parser.finish at h
  by_cases hc : (p.isDec && !p.dec.isEmpty) = true
  · rw [if_pos hc] at h
    simp only [Bool.and_eq_true, Bool.not_eq_eq_eq_not, Bool.not_true] at hc
    have hmk := hp.2.2 hc.1
    have hord : p.isOrdinal = false := by
      unfold Parser.isOrdinal DS.isOrdinal; rw [hmk]; rfl
    unfold Lang.formatDecimalW at h
    split at h
    · cases h
    · cases h
      exact Shaped.decimal p.int.render p.dec.render hdi (render_digitsOk hp.2.1.1) hri
        (render_ne_nil p.dec hc.2) rfl rfl hord
  · rw [if_neg hc] at h
    unfold Lang.formatW at h
    split at h
    · cases h
    · have hmok := hp.1.2
      unfold Parser.isOrdinal DS.isOrdinal
      cases hm : p.int.marker with
      | none =>
        rw [hm] at h; cases h
        exact Shaped.int p.int.render hdi hri rfl rfl rfl
      | ordinal m =>
        rw [hm] at h hmok; cases h
        have hmem : m ∈ ordMks l := by simpa [mkOk] using hmok
        exact Shaped.ord p.int.render m hdi hri hmem rfl rfl rfl
      | fraction m =>
        rw [hm] at h hmok; cases h
        exact Shaped.frac p.int.render hdi hri hmok rfl rfl rfl

/-! ## scanner invariant: every decided occurrence is shaped -/

def OccShaped (l : Lang) (o : Occ) : Prop := Shaped l o.text o.value o.isOrdinal

def WInv (cfg : ScanCfg) (s : Scanner) : Prop :=
  PI cfg.lang s.parser ∧ ∀ o ∈ s.tracker.queue ++ s.tracker.onHold.toList, OccShaped cfg.lang o

theorem WInv.init (cfg : ScanCfg) : WInv cfg {} :=
  ⟨PI.init _, fun o ho => by cases ho⟩

theorem numberEnd_winv (cfg : ScanCfg) (s s1 : Scanner) (h : WInv cfg s) (hn : s.parser.hasNumber = true)
    (he : s.numberEnd cfg = .ok s1) : WInv cfg s1 := by
  unfold Scanner.numberEnd at he
  cases hf : s.parser.finish cfg.lang with
  | error f => rw [hf] at he; cases he
  | ok r =>
    obtain ⟨text, value⟩ := r
    rw [hf] at he
    cases he
    refine ⟨PI.init _, fun o ho => ?_⟩
    dsimp only at ho
    rcases Tracker.numberEnd_mem _ _ _ _ _ o ho with h' | h'
    · exact h.2 o h'
    · subst h'
      exact finish_shaped cfg.lang s.parser h.1 hn text value hf

theorem outside_winv (cfg : ScanCfg) (s : Scanner) (tok : Tok) (h : WInv cfg s) : WInv cfg (s.outside cfg tok) := by
  unfold Scanner.outside
  split
  · exact h
  · exact h

theorem pushRejected_winv (cfg : ScanCfg) (hl : LangWF cfg.lang) (s s' : Scanner) (pos : Nat) (tok : Tok)
    (h : WInv cfg s) (he : Scanner.pushRejected cfg s pos tok = .ok s') : WInv cfg s' := by
  unfold Scanner.pushRejected at he
  by_cases hn : s.parser.hasNumber = true
  · rw [if_pos hn] at he
    cases h1 : s.numberEnd cfg with
    | error f => rw [h1] at he; cases he
    | ok s1 =>
      rw [h1] at he
      dsimp only at he
      have hs1 := numberEnd_winv cfg s s1 h hn h1
      have hp2 := push_pi cfg.lang hl s1.parser hs1.1 tok.lower
      have hs2 : WInv cfg { s1 with parser := (s1.parser.push cfg.lang tok.lower).2 } := ⟨hp2, hs1.2⟩
      by_cases hr : (s1.parser.push cfg.lang tok.lower).1.isNone = true
      · rw [if_pos hr] at he; cases he; exact hs2
      · rw [if_neg hr] at he
        by_cases hi : ((s1.parser.push cfg.lang tok.lower).1 == some Err.incomplete) = true
        · rw [if_pos hi] at he; cases he; exact hs2
        · rw [if_neg hi] at he; cases he; exact outside_winv cfg _ tok hs2
  · rw [if_neg hn] at he; cases he
    exact outside_winv cfg s tok h

theorem push_winv (cfg : ScanCfg) (hl : LangWF cfg.lang) (s s' : Scanner) (pos : Nat) (tok : Tok)
    (h : WInv cfg s) (he : s.push cfg pos tok = .ok s') : WInv cfg s' := by
  unfold Scanner.push at he
  by_cases hs : Scanner.isSkipped cfg tok = true
  · rw [if_pos hs] at he; cases he; exact h
  rw [if_neg hs] at he
  by_cases hnan : tok.nan = true
  · rw [if_pos hnan] at he
    unfold Scanner.pushNan at he
    by_cases hn : s.parser.hasNumber = true
    · rw [if_pos hn] at he
      cases h1 : s.numberEnd cfg with
      | error f => rw [h1] at he; cases he
      | ok s1 =>
        rw [h1] at he; cases he
        exact outside_winv cfg s1 tok (numberEnd_winv cfg s s1 h hn h1)
    · rw [if_neg hn] at he; cases he
      exact outside_winv cfg s tok h
  rw [if_neg hnan] at he
  dsimp only at he
  have hp := push_pi cfg.lang hl s.parser h.1 (Scanner.testWord cfg s tok)
  have hinv : WInv cfg { s with parser := (s.parser.push cfg.lang (Scanner.testWord cfg s tok)).2 } := ⟨hp, h.2⟩
  cases hr : (s.parser.push cfg.lang (Scanner.testWord cfg s tok)).1 with
  | none => rw [hr] at he; cases he; exact hinv
  | some e =>
    rw [hr] at he
    cases e with
    | incomplete => cases he; exact hinv
    | overlap => exact pushRejected_winv cfg hl _ s' pos tok hinv he
    | nan => exact pushRejected_winv cfg hl _ s' pos tok hinv he
    | frozen => exact pushRejected_winv cfg hl _ s' pos tok hinv he

theorem pushAll_winv (cfg : ScanCfg) (hl : LangWF cfg.lang) : ∀ (l : List (Nat × Tok)) (s s' : Scanner),
    WInv cfg s → Scanner.pushAll cfg s l = .ok s' → WInv cfg s' := by
  intro l
  induction l with
  | nil => intro s s' h he; simp only [Scanner.pushAll] at he; cases he; exact h
  | cons x xs ih =>
    intro s s' h he
    obtain ⟨pos, tok⟩ := x
    simp only [Scanner.pushAll] at he
    cases h1 : s.push cfg pos tok with
    | error f => rw [h1] at he; cases he
    | ok s1 =>
      rw [h1] at he
      exact ih s1 s' (push_winv cfg hl s s1 pos tok h h1) he

/-- **every occurrence reported by `find_numbers` is shaped** -/
theorem findNumbers_shaped (cfg : ScanCfg) (hl : LangWF cfg.lang) (toks : List Tok) (occs : List Occ)
    (h : findNumbers cfg toks = .ok occs) : ∀ o ∈ occs, Shaped cfg.lang o.text o.value o.isOrdinal := by
  unfold findNumbers at h
  cases h1 : Scanner.pushAll cfg {} (enumFrom 0 toks) with
  | error f => rw [h1] at h; cases h
  | ok s =>
    rw [h1] at h
    dsimp only at h
    have hs := pushAll_winv cfg hl _ {} s (WInv.init cfg) h1
    unfold Scanner.finalize at h
    by_cases hn : s.parser.hasNumber = true
    · rw [if_pos hn] at h
      cases h2 : s.numberEnd cfg with
      | error f => rw [h2] at h; cases h
      | ok s2 =>
        rw [h2] at h; cases h
        have := numberEnd_winv cfg s s2 hs hn h2
        exact fun o ho => this.2 o (List.mem_append_left _ ho)
    · rw [if_neg hn] at h; cases h
      exact fun o ho => hs.2 o (List.mem_append_left _ ho)

/-! ## the edges of a span are word tokens that the language accepted -/

/-- the forced stop `","` is refused in decimal mode too -/
def CommaDec (l : Lang) : Prop := ∀ b, (l.applyDecimal [','] b).1 ≠ none

theorem commaDec_builtin (l : Lang) (hl : l ∈ allLangs) (hla : LangAgree l) : CommaDec l := by
  intro b
  have hint : (l.apply [','] b).1 ≠ none := by
    obtain ⟨e, he, _⟩ := hla.comma_rejected b
    rw [he]; intro h; cases h
  simp only [allLangs, List.mem_cons, List.not_mem_nil, or_false] at hl
  rcases hl with rfl | rfl | rfl | rfl | rfl | rfl | rfl
  · have : T2N.En.lang.applyDecimal [','] b = (some .nan, b) := rfl
    rw [this]; intro h; cases h
  · exact hint
  · exact hint
  · exact hint
  · exact hint
  · have : T2N.De.lang.applyDecimal [','] b = (some .nan, b) := rfl
    rw [this]; intro h; cases h
  · exact hint

/-- a token that can open a match: a word token (not skipped, not set aside) whose word the fresh
builder accepts -/
def StartOk (cfg : ScanCfg) (t : Tok) : Prop :=
  Scanner.isSkipped cfg t = false ∧ t.nan = false ∧ (cfg.lang.apply t.lower DS.new).1 = none

/-- a token that can close a match: a word token whose word was accepted, by `apply` or (in decimal
mode) by `apply_decimal`, in some builder state -/
def EndOk (cfg : ScanCfg) (t : Tok) : Prop :=
  Scanner.isSkipped cfg t = false ∧ t.nan = false ∧
  ∃ b, (cfg.lang.apply t.lower b).1 = none ∨ (cfg.lang.applyDecimal t.lower b).1 = none

/-- the span `[a, b)` of the stream `pre` begins on a `StartOk` token and ends on an `EndOk` token -/
def Edges (cfg : ScanCfg) (pre : List Tok) (a b : Nat) : Prop :=
  (∃ t, pre[a]? = some t ∧ StartOk cfg t) ∧ (∃ t, pre[b - 1]? = some t ∧ EndOk cfg t)

theorem getElem?_append_some {α} {l : List α} {i : Nat} {x : α} (h : l[i]? = some x) (r : List α) :
    (l ++ r)[i]? = some x := by
  have hi : i < l.length := by
    rcases Nat.lt_or_ge i l.length with hlt | hge
    · exact hlt
    · rw [List.getElem?_eq_none hge] at h; cases h
  rw [List.getElem?_append_left hi]; exact h

theorem Edges.mono {cfg : ScanCfg} {pre : List Tok} {a b : Nat} (h : Edges cfg pre a b) (r : List Tok) :
    Edges cfg (pre ++ r) a b := by
  obtain ⟨⟨t1, h1, s1⟩, ⟨t2, h2, s2⟩⟩ := h
  exact ⟨⟨t1, getElem?_append_some h1 r, s1⟩, ⟨t2, getElem?_append_some h2 r, s2⟩⟩

theorem getElem?_snoc_length (pre : List Tok) (tok : Tok) : (pre ++ [tok])[pre.length]? = some tok := by
  simp

def EProp (cfg : ScanCfg) (pre : List Tok) (ms me : Nat) (os : List Occ) : Prop :=
  (ms < me → Edges cfg pre ms me) ∧ ∀ o ∈ os, Edges cfg pre o.start o.stop

def EInv (cfg : ScanCfg) (pre : List Tok) (s : Scanner) : Prop :=
  EProp cfg pre s.tracker.mstart s.tracker.mend (s.tracker.queue ++ s.tracker.onHold.toList)

theorem EInv.init (cfg : ScanCfg) : EInv cfg [] {} :=
  ⟨fun h => absurd h (Nat.lt_irrefl _), fun o ho => by cases ho⟩

theorem EProp.mono {cfg : ScanCfg} {pre : List Tok} {ms me : Nat} {os : List Occ}
    (h : EProp cfg pre ms me os) (r : List Tok) : EProp cfg (pre ++ r) ms me os :=
  ⟨fun hlt => (h.1 hlt).mono r, fun o ho => (h.2 o ho).mono r⟩

theorem EInv.outside {cfg : ScanCfg} {pre : List Tok} {s : Scanner} (h : EInv cfg pre s) (tok : Tok) :
    EInv cfg pre (s.outside cfg tok) := by
  unfold Scanner.outside
  split
  · exact h
  · exact h

/-- ending a number whose match is open -/
theorem numberEnd_edges (cfg : ScanCfg) (pre : List Tok) (s s1 : Scanner)
    (hopen : s.tracker.mstart < s.tracker.mend) (h : EInv cfg pre s) (he : s.numberEnd cfg = .ok s1) :
    s1.parser = {} ∧ s1.tracker.mstart = s1.tracker.mend ∧ s1.tracker.mend = s.tracker.mend ∧
    (∀ o ∈ s1.tracker.queue ++ s1.tracker.onHold.toList, Edges cfg pre o.start o.stop) := by
  unfold Scanner.numberEnd at he
  cases hf : s.parser.finish cfg.lang with
  | error f => rw [hf] at he; cases he
  | ok r =>
    obtain ⟨text, value⟩ := r
    rw [hf] at he
    cases he
    obtain ⟨a, b⟩ := Tracker.numberEnd_bounds s.tracker s.parser.isOrdinal text value
      ((utf8Len text == 1 || s.parser.isOrdinal) && cfg.small value)
    refine ⟨rfl, ?_, b, ?_⟩
    · dsimp only; rw [a, b]
    · intro o ho
      dsimp only at ho
      rcases Tracker.numberEnd_mem _ _ _ _ _ o ho with h' | h'
      · exact h.2 o h'
      · subst h'; exact h.1 hopen

/-- a word accepted by the fresh parser is accepted by the fresh builder -/
theorem push_new_ok (l : Lang) (w : Word) (h : (({} : Parser).push l w).1 = none) :
    (l.apply w DS.new).1 = none := by
  rcases Parser.push_nondec_cases l {} w rfl with ⟨b', ha, _⟩ | ⟨e, b', _, _, _, hp⟩ | ⟨e, b', _, hp⟩
  · have ha' : l.apply w DS.new = (none, b') := ha
    rw [ha']
  · rw [hp] at h; cases h
  · rw [hp] at h; cases h

theorem edges_single (cfg : ScanCfg) (pre : List Tok) (tok : Tok) (h1 : StartOk cfg tok) :
    Edges cfg (pre ++ [tok]) pre.length (pre.length + 1) :=
  ⟨⟨tok, getElem?_snoc_length pre tok, h1⟩,
   ⟨tok, by rw [Nat.add_sub_cancel]; exact getElem?_snoc_length pre tok,
     h1.1, h1.2.1, DS.new, Or.inl h1.2.2⟩⟩

theorem pushRejected_edges (cfg : ScanCfg) (pre : List Tok) (s s' : Scanner) (tok : Tok)
    (hs : Scanner.isSkipped cfg tok = false) (hnan : tok.nan = false)
    (hopen : s.parser.hasNumber = true → s.tracker.mstart < s.tracker.mend)
    (h : EInv cfg pre s) (he : Scanner.pushRejected cfg s pre.length tok = .ok s') :
    EInv cfg (pre ++ [tok]) s' := by
  unfold Scanner.pushRejected at he
  by_cases hn : s.parser.hasNumber = true
  · rw [if_pos hn] at he
    cases h1 : s.numberEnd cfg with
    | error f => rw [h1] at he; cases he
    | ok s1 =>
      rw [h1] at he
      dsimp only at he
      obtain ⟨hp1, hcl, _, hocc⟩ := numberEnd_edges cfg pre s s1 (hopen hn) h h1
      by_cases hr : (s1.parser.push cfg.lang tok.lower).1.isNone = true
      · rw [if_pos hr] at he; cases he
        have hr' : (({} : Parser).push cfg.lang tok.lower).1 = none := by
          rw [hp1] at hr; simpa using hr
        have hst : StartOk cfg tok := ⟨hs, hnan, push_new_ok cfg.lang tok.lower hr'⟩
        refine ⟨fun _ => ?_, fun o ho => (hocc o ho).mono [tok]⟩
        show Edges cfg (pre ++ [tok]) (s1.tracker.advanced pre.length).mstart (s1.tracker.advanced pre.length).mend
        rw [Tracker.advanced_closed _ _ hcl, Tracker.advanced_mend]
        exact edges_single cfg pre tok hst
      · rw [if_neg hr] at he
        by_cases hi : ((s1.parser.push cfg.lang tok.lower).1 == some Err.incomplete) = true
        · rw [if_pos hi] at he; cases he
          exact ⟨fun hlt => absurd hlt (by dsimp only; rw [hcl]; exact Nat.lt_irrefl _),
            fun o ho => (hocc o ho).mono [tok]⟩
        · rw [if_neg hi] at he; cases he
          apply EInv.outside
          exact ⟨fun hlt => absurd hlt (by dsimp only; rw [hcl]; exact Nat.lt_irrefl _),
            fun o ho => (hocc o ho).mono [tok]⟩
  · rw [if_neg hn] at he; cases he
    exact EInv.outside (EProp.mono h [tok]) tok

/-- **the edge invariant is preserved by `push`** -/
theorem push_edges (cfg : ScanCfg) (hl : LangAgree cfg.lang) (hcd : CommaDec cfg.lang) (pre : List Tok)
    (s s' : Scanner) (tok : Tok) (h : AInv cfg pre s) (hE : EInv cfg pre s)
    (he : s.push cfg pre.length tok = .ok s') : EInv cfg (pre ++ [tok]) s' := by
  have hagree : AProp cfg pre s.parser s.tracker.mstart s.tracker.mend
      (s.tracker.queue ++ s.tracker.onHold.toList) := h.agree
  obtain ⟨hP, hopen, hmsme, _⟩ := h.strict
  unfold Scanner.push at he
  by_cases hs : Scanner.isSkipped cfg tok = true
  · rw [if_pos hs] at he; cases he; exact EProp.mono hE [tok]
  rw [if_neg hs] at he
  have hs' : Scanner.isSkipped cfg tok = false := by simpa using hs
  by_cases hnan : tok.nan = true
  · rw [if_pos hnan] at he
    unfold Scanner.pushNan at he
    by_cases hn : s.parser.hasNumber = true
    · rw [if_pos hn] at he
      cases h1 : s.numberEnd cfg with
      | error f => rw [h1] at he; cases he
      | ok s1 =>
        rw [h1] at he; cases he
        obtain ⟨_, hcl, _, hocc⟩ := numberEnd_edges cfg pre s s1 (hopen.mp hn) hE h1
        apply EInv.outside
        exact ⟨fun hlt => absurd hlt (by rw [hcl]; exact Nat.lt_irrefl _), fun o ho => (hocc o ho).mono [tok]⟩
    · rw [if_neg hn] at he; cases he
      exact EInv.outside (EProp.mono hE [tok]) tok
  rw [if_neg hnan] at he
  have hnan' : tok.nan = false := by simpa using hnan
  dsimp only at he
  obtain ⟨_, _, f3⟩ := parser_push_facts cfg.lang hl.langOk s.parser hP (Scanner.testWord cfg s tok)
  have hEmid : EInv cfg pre { s with parser := (s.parser.push cfg.lang (Scanner.testWord cfg s tok)).2 } := hE
  cases hr : (s.parser.push cfg.lang (Scanner.testWord cfg s tok)).1 with
  | none =>
    rw [hr] at he; cases he
    -- the token's word was accepted: which word, and by which builder
    have hend : EndOk cfg tok ∧ (s.parser.hasNumber = false → StartOk cfg tok) := by
      by_cases hd : s.parser.isDec = true
      · have hn : s.parser.hasNumber = true := hP hd
        rw [Parser.push_dec _ _ _ hd] at hr
        have hr' : (cfg.lang.applyDecimal (Scanner.testWord cfg s tok) s.parser.dec).1 = none := hr
        refine ⟨?_, fun hn' => by rw [hn] at hn'; cases hn'⟩
        rcases testWord_cases cfg s tok with hw | ⟨hw, _⟩
        · rw [hw] at hr'
          exact ⟨hs', hnan', s.parser.dec, Or.inr hr'⟩
        · rw [hw] at hr'; exact absurd hr' (hcd _)
      · have hd' : s.parser.isDec = false := by simpa using hd
        rcases Parser.push_nondec_cases cfg.lang s.parser (Scanner.testWord cfg s tok) hd' with
          ⟨b', ha, _⟩ | ⟨e, b', _, _, _, hp⟩ | ⟨e, b', _, hp⟩
        · have hw : Scanner.testWord cfg s tok = tok.lower := by
            rcases testWord_cases cfg s tok with hw | ⟨hw, _⟩
            · exact hw
            · rw [hw] at ha
              obtain ⟨e, h1, _⟩ := hl.comma_rejected s.parser.int
              rw [ha] at h1; cases h1
          rw [hw] at ha
          refine ⟨⟨hs', hnan', s.parser.int, Or.inl (by rw [ha])⟩, fun hn' => ?_⟩
          have hi := hagree.1 hn'
          rw [hi] at ha
          exact ⟨hs', hnan', by rw [ha]⟩
        · rw [hp] at hr; cases hr
        · rw [hp] at hr; cases hr
    refine ⟨fun _ => ?_, fun o ho => (hE.2 o ho).mono [tok]⟩
    show Edges cfg (pre ++ [tok]) (s.tracker.advanced pre.length).mstart (s.tracker.advanced pre.length).mend
    rw [Tracker.advanced_mend]
    by_cases hn : s.parser.hasNumber = true
    · have hlt := hopen.mp hn
      rw [Tracker.advanced_open _ _ hlt]
      refine ⟨((hE.1 hlt).mono [tok]).1, tok, ?_, hend.1⟩
      rw [Nat.add_sub_cancel]; exact getElem?_snoc_length pre tok
    · have hn' : s.parser.hasNumber = false := by simpa using hn
      have heq : s.tracker.mstart = s.tracker.mend := by
        have : ¬ s.tracker.mstart < s.tracker.mend := fun hlt => hn (hopen.mpr hlt)
        omega
      rw [Tracker.advanced_closed _ _ heq]
      exact edges_single cfg pre tok (hend.2 hn')
  | some e =>
    have hsame := f3 e hr
    have hopen' : (s.parser.push cfg.lang (Scanner.testWord cfg s tok)).2.hasNumber = true →
        s.tracker.mstart < s.tracker.mend := fun hn => hopen.mp (by rw [← hsame]; exact hn)
    rw [hr] at he
    cases e with
    | incomplete => cases he; exact EProp.mono hE [tok]
    | overlap => exact pushRejected_edges cfg pre _ s' tok hs' hnan' hopen' hEmid he
    | nan => exact pushRejected_edges cfg pre _ s' tok hs' hnan' hopen' hEmid he
    | frozen => exact pushRejected_edges cfg pre _ s' tok hs' hnan' hopen' hEmid he

theorem pushAll_edges (cfg : ScanCfg) (hl : LangAgree cfg.lang) (hcd : CommaDec cfg.lang) :
    ∀ (rest pre : List Tok) (s s' : Scanner), AInv cfg pre s → EInv cfg pre s →
      Scanner.pushAll cfg s (enumFrom pre.length rest) = .ok s' →
      AInv cfg (pre ++ rest) s' ∧ EInv cfg (pre ++ rest) s' := by
  intro rest
  induction rest with
  | nil =>
    intro pre s s' h hE he
    simp only [enumFrom, Scanner.pushAll] at he
    cases he
    rw [List.append_nil]; exact ⟨h, hE⟩
  | cons t ts ih =>
    intro pre s s' h hE he
    simp only [enumFrom, Scanner.pushAll] at he
    cases h1 : s.push cfg pre.length t with
    | error f => rw [h1] at he; cases he
    | ok s1 =>
      rw [h1] at he
      have h2 := push_agree cfg hl pre s s1 t h h1
      have h2' := push_edges cfg hl hcd pre s s1 t h hE h1
      have h3 := ih (pre ++ [t]) s1 s' h2 h2' (by rw [length_snoc]; exact he)
      rw [List.append_assoc] at h3
      exact h3

/-- **every reported span begins and ends on a word token that the language accepted** -/
theorem findNumbers_edges (cfg : ScanCfg) (hl : LangAgree cfg.lang) (hcd : CommaDec cfg.lang)
    (toks : List Tok) (occs : List Occ) (h : findNumbers cfg toks = .ok occs) :
    ∀ o ∈ occs, Edges cfg toks o.start o.stop := by
  unfold findNumbers at h
  cases h1 : Scanner.pushAll cfg {} (enumFrom 0 toks) with
  | error f => rw [h1] at h; cases h
  | ok s =>
    rw [h1] at h
    dsimp only at h
    obtain ⟨hA, hE⟩ := pushAll_edges cfg hl hcd toks [] {} s (AInv.init cfg) (EInv.init cfg) h1
    rw [List.nil_append] at hA hE
    unfold Scanner.finalize at h
    by_cases hn : s.parser.hasNumber = true
    · rw [if_pos hn] at h
      cases h2 : s.numberEnd cfg with
      | error f => rw [h2] at h; cases h
      | ok s2 =>
        rw [h2] at h; cases h
        obtain ⟨_, _, _, hocc⟩ := numberEnd_edges cfg toks s s2 (hA.strict.2.1.mp hn) hE h2
        exact fun o ho => hocc o (List.mem_append_left _ ho)
    · rw [if_neg hn] at h; cases h
      exact fun o ho => hE.2 o (List.mem_append_left _ ho)

theorem slice_single {α} (l : List α) (i : Nat) (x : α) (h : l[i]? = some x) : slice l i (i + 1) = [x] := by
  have hi : i < l.length := by
    rcases Nat.lt_or_ge i l.length with hlt | hge
    · exact hlt
    · rw [List.getElem?_eq_none hge] at h; cases h
  have hx : l[i] = x := by
    rw [List.getElem?_eq_getElem hi] at h; injection h
  unfold slice
  rw [List.drop_eq_getElem_cons hi, hx, Nat.add_sub_cancel_left]
  rfl

end T2N.WellFormed
