import T2N.Model.Scanner
import T2N.Lemmas.Finite

namespace T2N

/-- explicit character classes for kernel-evaluated instance tables over lower-case spelled words:
whitespace = space/tab/newline, ASCII punctuation is neither alphabetic nor alphanumeric, digits are
alphanumeric, every other character counts as a letter; lowercasing is the identity (inputs are
already lower case). -/
def simpleCC : CharClasses where
  isWhitespace := simpleIsWs
  isAlphabetic := fun c => !simpleIsWs c && !simpleIsPunct c && !simpleIsDigit c
  isAlphanumeric := fun c => !simpleIsWs c && !simpleIsPunct c
  lower := fun c => [c]

/-- tokens of a phrase given as words: word tokens separated by single-space tokens -/
def wordTokens : List Word → List Tok
  | [] => []
  | [w] => [{ text := w, lower := w }]
  | w :: ws => { text := w, lower := w } :: { text := [' '], lower := [' '] } :: wordTokens ws

def zeroThr : Nat → Bool := fun _ => false

def scanCfg (l : Lang) (thr : Nat → Bool) : ScanCfg := { lang := l, cc := simpleCC, sep := fun _ _ => false, thrLt := thr }

/-- the texts of the occurrences found in a phrase (threshold `thr`) -/
def occTexts (l : Lang) (thr : Nat → Bool) (ws : List Word) : Option (List Word) :=
  match findNumbers (scanCfg l thr) (wordTokens ws) with
  | .ok occs => some (occs.map (·.text))
  | .error _ => none

end T2N
