/-
  T2N.Lemmas.ExtDe — extensions of the unbounded German round-trip (T2N.Lemmas.C01De):
  leading zeros (C16), digit dictation (C08), decimals (C05); the ordinals (C04) are in ExtDeO.lean.

  Everything about cardinals carries the hypothesis `EinVariant v` (`flag v (cp 2 5) ∧ flag v (cp 3 5)`):
  the standard form `eine Million / Milliarde` is not recognised by the library (known finding, see
  `C01_de_eine_million_rejected`).
-/
import T2N.Lemmas.C01De
import T2N.Lemmas.EnExt

namespace T2N.ExtDe
open T2N T2N.DS T2N.Spec T2N.C01De
open T2N.C01En (lsb lsb_ne_nil lsb_rev_dec lsb_zero)
open T2N.EnExt (setLz)

/-! ## Part 1 — leading zeros: the German interpreter does not look at `lz` -/

theorem isFree_setLz (b : DS) (k j : Nat) : (setLz j b).isFree k = b.isFree k := by
  cases b with
  | mk r z f fl m =>
    cases r with
    | nil => simp [DS.isFree, setLz, allZero]
    | cons a t => rfl

/-- guards that do not depend on the leading-zero counter (`free` is one of them: an empty buffer is
free whatever the number of leading zeros) -/
def gLz : Guard → Bool
  | .tt => true
  | .neg g => gLz g
  | .and a b => gLz a && gLz b
  | .or a b => gLz a && gLz b
  | .peekEq _ _ => true
  | .peekLt _ _ => true
  | .peekLen _ _ => true
  | .null => true
  | .rangeFree _ _ => true
  | .flag _ => true
  | .markerOrd => true
  | .markerNone => true
  | .groupOne _ => true
  | .free _ => true
  | .empty => false
  | .lenGe _ => false
  | .lenEq _ => false

theorem gLz_eval (g : Guard) (b : DS) (k : Nat) (h : gLz g = true) : g.eval (setLz k b) = g.eval b := by
  induction g with
  | tt => rfl
  | neg g ih => simp only [Guard.eval, ih h]
  | and x y ihx ihy =>
    simp only [gLz, Bool.and_eq_true] at h
    simp only [Guard.eval, ihx h.1, ihy h.2]
  | or x y ihx ihy =>
    simp only [gLz, Bool.and_eq_true] at h
    simp only [Guard.eval, ihx h.1, ihy h.2]
  | peekEq _ _ => rfl
  | peekLt _ _ => rfl
  | peekLen _ _ => rfl
  | null => rfl
  | rangeFree _ _ => rfl
  | flag _ => rfl
  | markerOrd => rfl
  | markerNone => rfl
  | groupOne _ => rfl
  | free n => exact isFree_setLz b n k
  | empty => exact absurd h Bool.false_ne_true
  | lenGe _ => exact absurd h Bool.false_ne_true
  | lenEq _ => exact absurd h Bool.false_ne_true

def okAct : Act → Bool
  | .ite g a b => gLz g && okAct a && okAct b
  | .block _ a => okAct a
  | _ => true

/-- a `lz`-blind instruction that did not add a leading zero does the same on any number of zeros -/
theorem exec_lz (a : Act) (h : okAct a = true) : ∀ (b : DS) (k : Nat), (a.exec b).2.1.lz = b.lz →
    a.exec (setLz k b) = ((a.exec b).1, setLz k (a.exec b).2.1, (a.exec b).2.2) := by
  induction a with
  | put ds => intro b k hl; simp only [Act.exec] at *; rw [EnExt.put_lz b ds k hl]
  | fput ds => intro b k _; simp only [Act.exec]; rw [(EnExt.fput_lz b ds k).1]
  | shift p => intro b k _; simp only [Act.exec]; rw [(EnExt.shift_lz b p k).1]
  | putAt d p => intro b k _; simp only [Act.exec]; rw [(EnExt.putAt_lz b d p k).1]
  | push ds => intro b k _; simp only [Act.exec]; rw [(EnExt.push_lz b ds k).1]
  | fail e => intro b k _; rfl
  | ite g x y ihx ihy =>
    intro b k hl
    simp only [okAct, Bool.and_eq_true] at h
    simp only [Act.exec] at *
    rw [gLz_eval g b k h.1.1]
    by_cases hg : g.eval b = true
    · simp only [if_pos hg] at hl ⊢; exact ihx h.1.2 b k hl
    · simp only [if_neg hg] at hl ⊢; exact ihy h.2 b k hl
  | block m a ih =>
    intro b k hl
    simp only [okAct] at h
    simp only [Act.exec] at *
    rw [ih h b k hl]

theorem vocab_all_ok : De.vocab.all (fun p => okAct p.2) = true := by decide

theorem vocab_ok (key : Word) : okAct ((De.vocab.lookup key).getD (.fail .nan)) = true := by
  cases h : De.vocab.lookup key with
  | none => rfl
  | some a =>
    have hm := EnExt.lookup_mem key a _ h
    exact List.all_eq_true.mp vocab_all_ok _ hm

/-! ### word level -/

/-- the post-processing of `apply` for an unsplittable lemma -/
def post (lemma : Word) (t : Res × DS × Nat) : Res × DS :=
  if t.1.isNone then
    let b1 : DS := { t.2.1 with flags := t.2.2 }
    let b2 : DS := if endsWith lemma w!"te" then { b1 with marker := De.morph lemma, frozen := true } else b1
    let b3 : DS := if lemma == w!"eins" then b2.freeze else b2
    (t.1, b3)
  else (t.1, { t.2.1 with flags := 0 })

theorem applyFuel_unsplit (f : Nat) (w : Word) (b : DS) (h : isSplittable De.patterns (De.lemmatize w) = false) :
    De.applyFuel (f + 1) w b =
      post (De.lemmatize w) (((De.vocab.lookup (De.lemmatize w)).getD (.fail .nan)).exec b) := by
  rw [De.applyFuel]
  dsimp only
  rw [h, if_neg Bool.false_ne_true]
  rfl

theorem applyFuel_split (f : Nat) (w : Word) (b : DS) (h : isSplittable De.patterns (De.lemmatize w) = true) :
    De.applyFuel (f + 1) w b =
      match execGroup (De.applyFuel f) (splitWord De.patterns (De.lemmatize w)) with
      | .ok ds => mergeGroup b ds false ds.marker
      | .error e => (some e, b) := by
  rw [De.applyFuel]
  dsimp only
  rw [h, if_pos rfl]
  rfl

theorem post_fst (l : Word) (t : Res × DS × Nat) : (post l t).1 = t.1 := by
  unfold post; split <;> rfl

theorem post_lz (l : Word) (t : Res × DS × Nat) : (post l t).2.lz = t.2.1.lz := by
  unfold post
  split
  · dsimp only
    split <;> split <;> rfl
  · rfl

theorem post_setLz (l : Word) (r : Res) (b : DS) (n k : Nat) :
    post l (r, setLz k b, n) = ((post l (r, b, n)).1, setLz k (post l (r, b, n)).2) := by
  unfold post
  dsimp only
  split
  · split <;> split <;> rfl
  · rfl

theorem applyFuel_lz_mono (f : Nat) (w : Word) (b : DS) : b.lz ≤ (De.applyFuel f w b).2.lz := by
  cases f with
  | zero => exact Nat.le_refl _
  | succ f =>
    by_cases hc : isSplittable De.patterns (De.lemmatize w) = true
    · rw [applyFuel_split f w b hc]
      cases execGroup (De.applyFuel f) (splitWord De.patterns (De.lemmatize w)) with
      | error e => exact Nat.le_refl _
      | ok ds => exact EnExt.mergeGroup_lz_mono b ds _
    · rw [applyFuel_unsplit f w b (by simpa using hc), post_lz]
      exact EnExt.exec_lz_mono _ b

/-- **`lz`-independence of the German interpreter**: a word that is accepted (or `Incomplete`)
without adding a leading zero behaves the same whatever the number of leading zeros -/
theorem applyFuel_lz (f : Nat) (w : Word) (b : DS) (k : Nat)
    (hst : (De.applyFuel f w b).1 = none ∨ (De.applyFuel f w b).1 = some .incomplete)
    (hlz : (De.applyFuel f w b).2.lz = b.lz) :
    De.applyFuel f w (setLz k b) = ((De.applyFuel f w b).1, setLz k (De.applyFuel f w b).2) := by
  cases f with
  | zero => rcases hst with h | h <;> exact absurd h (by simp [De.applyFuel])
  | succ f =>
    by_cases hc : isSplittable De.patterns (De.lemmatize w) = true
    · rw [applyFuel_split f w b hc] at hlz ⊢
      rw [applyFuel_split f w _ hc]
      cases hx : execGroup (De.applyFuel f) (splitWord De.patterns (De.lemmatize w)) with
      | error e => rfl
      | ok ds =>
        rw [hx] at hlz
        exact EnExt.mergeGroup_lz b ds _ k hlz
    · have hc' : isSplittable De.patterns (De.lemmatize w) = false := by simpa using hc
      rw [applyFuel_unsplit f w b hc'] at hlz ⊢
      rw [applyFuel_unsplit f w _ hc']
      rw [post_lz] at hlz
      rw [exec_lz _ (vocab_ok _) b k hlz, post_setLz]

/-! ### run level (generic in the per-word function) -/

theorem run_lz_mono (ap : Word → DS → Res × DS) (hm : ∀ w b, b.lz ≤ (ap w b).2.lz) :
    ∀ (ws : List Word) (b : DS) (inc : Bool) (r : DS), execGroupFrom ap ws b inc = .ok r → b.lz ≤ r.lz := by
  intro ws
  induction ws with
  | nil =>
    intro b inc r h
    rw [execGroupFrom] at h
    cases inc with
    | true => exact absurd h (by simp)
    | false =>
      have : b = r := by simpa using h
      rw [this]; exact Nat.le_refl _
  | cons w ws ih =>
    intro b inc r h
    rw [execGroupFrom] at h
    have hm' := hm w b
    rcases hx : ap w b with ⟨st, b1⟩
    rw [hx] at h hm'
    cases st with
    | none => exact Nat.le_trans hm' (ih b1 false r h)
    | some e =>
      cases e with
      | incomplete => exact Nat.le_trans hm' (ih b1 true r h)
      | overlap => exact absurd h (by simp)
      | nan => exact absurd h (by simp)
      | frozen => exact absurd h (by simp)

/-- a run that added no leading zero is reproduced verbatim on `k` leading zeros -/
theorem run_lz_append (ap : Word → DS → Res × DS) (hm : ∀ w b, b.lz ≤ (ap w b).2.lz)
    (hl : ∀ w b k, ((ap w b).1 = none ∨ (ap w b).1 = some .incomplete) → (ap w b).2.lz = b.lz →
      ap w (setLz k b) = ((ap w b).1, setLz k (ap w b).2))
    (k : Nat) (rest : List Word) : ∀ (ws : List Word) (b : DS) (inc : Bool) (r : DS),
    execGroupFrom ap ws b inc = .ok r → r.lz = b.lz →
    execGroupFrom ap (ws ++ rest) (setLz k b) inc = execGroupFrom ap rest (setLz k r) false := by
  intro ws
  induction ws with
  | nil =>
    intro b inc r h _
    rw [execGroupFrom] at h
    cases inc with
    | true => exact absurd h (by simp)
    | false =>
      have : b = r := by simpa using h
      rw [this]; rfl
  | cons w ws ih =>
    intro b inc r h hlr
    rw [execGroupFrom] at h
    rw [List.cons_append, execGroupFrom]
    have hm' := hm w b
    have ht := hl w b k
    rcases hx : ap w b with ⟨st, b1⟩
    rw [hx] at h hm' ht
    dsimp only at ht hm'
    cases st with
    | none =>
      have hm2 := run_lz_mono ap hm ws b1 false r h
      have hb1 : b1.lz = b.lz := by omega
      rw [ht (Or.inl rfl) hb1]
      exact ih b1 false r h (by omega)
    | some e =>
      cases e with
      | incomplete =>
        have hm2 := run_lz_mono ap hm ws b1 true r h
        have hb1 : b1.lz = b.lz := by omega
        rw [ht (Or.inr rfl) hb1]
        exact ih b1 true r h (by omega)
      | overlap => exact absurd h (by simp)
      | nan => exact absurd h (by simp)
      | frozen => exact absurd h (by simp)

theorem de_mono (w : Word) (b : DS) : b.lz ≤ (De.apply w b).2.lz := applyFuel_lz_mono 2 w b

theorem de_lz (w : Word) (b : DS) (k : Nat)
    (hst : (De.apply w b).1 = none ∨ (De.apply w b).1 = some .incomplete) (hlz : (De.apply w b).2.lz = b.lz) :
    De.apply w (setLz k b) = ((De.apply w b).1, setLz k (De.apply w b).2) := applyFuel_lz 2 w b k hst hlz

theorem run_lz_append_de (k : Nat) (rest ws : List Word) (b : DS) (inc : Bool) (r : DS)
    (h : execGroupFrom De.apply ws b inc = .ok r) (hl : r.lz = b.lz) :
    execGroupFrom De.apply (ws ++ rest) (setLz k b) inc = execGroupFrom De.apply rest (setLz k r) false :=
  run_lz_append De.apply de_mono de_lz k rest ws b inc r h hl

theorem run_lz_de (k : Nat) (ws : List Word) (b : DS) (inc : Bool) (r : DS)
    (h : execGroupFrom De.apply ws b inc = .ok r) (hl : r.lz = b.lz) :
    execGroupFrom De.apply ws (setLz k b) inc = .ok (setLz k r) := by
  have := run_lz_append_de k [] ws b inc r h hl
  rw [List.append_nil] at this
  rw [this, execGroupFrom, if_neg Bool.false_ne_true]

/-! ### C16 -/

theorem plain_null : Plain w!"null" (.put [0]) := ⟨by decide, by decide, by rfl, by decide, by decide⟩

theorem null_apply_empty (j : Nat) : De.apply De.zeroWord (setLz j DS.new) = (none, setLz (j + 1) DS.new) := by
  show De.applyFuel (1 + 1) w!"null" _ = _
  rw [applyFuel_plain 1 _ _ _ plain_null]
  rfl

theorem zeros_run (rest : List Word) : ∀ (k j : Nat),
    execGroupFrom De.apply (List.replicate k De.zeroWord ++ rest) (setLz j DS.new) false =
      execGroupFrom De.apply rest (setLz (j + k) DS.new) false := by
  intro k
  induction k with
  | zero => intro j; rfl
  | succ k ih =>
    intro j
    rw [List.replicate_succ, List.cons_append, execGroupFrom, null_apply_empty]
    dsimp only
    rw [ih (j + 1)]
    have : j + 1 + k = j + (k + 1) := by omega
    rw [this]

/-- the run of a non-zero cardinal on the empty builder -/
theorem cardinal_run (v : Var) (n : Nat) (h : n < 10 ^ 12) (hv : EinVariant v) (hn : n ≠ 0) :
    ∃ f z, execGroupFrom De.apply (De.cardinal v n) DS.new false = .ok (st n f z) := by
  have hL3 : De.level v ≤ 3 := by
    unfold De.level pick
    rw [if_neg (by decide)]
    omega
  obtain ⟨f, z, W, _, hr, hs⟩ := cardinal_REnd (De.level v) hL3 v n h hv
  refine ⟨f, z, ?_⟩
  unfold De.cardinal
  rw [if_neg (by simpa using hn), hr]
  have := hs []
  rw [List.append_nil, st_zero] at this
  show execGroupFrom (De.applyFuel 2) W DS.new false = _
  rw [this, execGroupFrom, if_neg Bool.false_ne_true]

theorem cardinal_run_lz (v : Var) (k n : Nat) (h : n < 10 ^ 12) (hv : EinVariant v) (hn : n ≠ 0) :
    ∃ f z, execGroupFrom De.apply (De.cardinal v n) (setLz k DS.new) false = .ok (setLz k (st n f z)) := by
  obtain ⟨f, z, hr⟩ := cardinal_run v n h hv hn
  exact ⟨f, z, run_lz_de k _ DS.new false _ hr rfl⟩

/-- rendering of a number with `k` leading zeros (any flags / frozen / marker-free state) -/
theorem format_lz (k n f : Nat) (z : Bool) (hn : n ≠ 0) :
    (setLz k (st n f z)).isEmpty = false ∧
    De.lang.formatW (setLz k (st n f z)) =
      .ok (List.replicate k '0' ++ decChars n, .dec (List.replicate k 0 ++ decDigits n) []) := by
  have hne := lsb_ne_nil hn
  have hrender : (setLz k (st n f z)).render = List.replicate k 0 ++ decDigits n := by
    show List.replicate k 0 ++ (lsb n).reverse = _
    rw [lsb_rev_dec n hn]
  constructor
  · show ((lsb n).isEmpty && k == 0) = false
    cases hl : lsb n with
    | nil => exact absurd hl hne
    | cons a t => rfl
  · have hrne : (setLz k (st n f z)).render.isEmpty = false := by
      rw [hrender, ← lsb_rev_dec n hn]
      cases hl : lsb n with
      | nil => exact absurd hl hne
      | cons a t => simp
    unfold Lang.formatW
    rw [hrne, if_neg Bool.false_ne_true]
    show Except.ok (renderChars (setLz k (st n f z)), Value.dec (setLz k (st n f z)).render []) = _
    unfold renderChars decChars
    rw [hrender, List.map_append, EnExt.replicate_map]
    rfl

/-- the builder after `k` zeros and the cardinal `n` -/
theorem zeros_cardinal_run (v : Var) (k n : Nat) (hn : 0 < n) (h : n < 10 ^ 12) (hv : EinVariant v) :
    ∃ f z, execGroupFrom De.apply (List.replicate k De.zeroWord ++ De.cardinal v n) DS.new false =
      .ok (setLz k (st n f z)) := by
  obtain ⟨f, z, hr⟩ := cardinal_run_lz v k n h hv (by omega)
  refine ⟨f, z, ?_⟩
  show execGroupFrom De.apply _ (setLz 0 DS.new) false = _
  rw [zeros_run, Nat.zero_add, hr]

/-- **C16 for German, every number of leading zeros** (`0 < n < 10^12`, `ein Million` variant) -/
theorem C16_validate_de (v : Spec.Var) (k n : Nat) (hn : 0 < n) (h : n < 10 ^ 12)
    (hv : flag v (cp 2 5) = true ∧ flag v (cp 3 5) = true) :
    text2digitsWords De.lang (List.replicate k Spec.De.zeroWord ++ Spec.De.cardinal v n) =
      .ok (List.replicate k '0' ++ decChars n) := by
  have hn' : n ≠ 0 := by omega
  obtain ⟨f, z, hex⟩ := zeros_cardinal_run v k n hn h hv
  have hex' : execGroup De.lang.apply (List.replicate k Spec.De.zeroWord ++ Spec.De.cardinal v n) =
      .ok (setLz k (st n f z)) := hex
  unfold text2digitsWords
  rw [hex']
  dsimp only
  rw [(format_lz k n f z hn').1, if_neg Bool.false_ne_true, (format_lz k n f z hn').2]

example : text2digitsWords De.lang (List.replicate 3 Spec.De.zeroWord ++ Spec.De.cardinal (fun _ => 1) 100045) =
    .ok (List.replicate 3 '0' ++ decChars 100045) := C16_validate_de _ 3 _ (by decide) (by decide) (by decide)

/-- `k ≥ 1` zeros alone validate to `k` digits `0` -/
theorem C16_zeros_only_de (k : Nat) (hk : 0 < k) :
    text2digitsWords De.lang (List.replicate k Spec.De.zeroWord) = .ok (List.replicate k '0') := by
  have hex : execGroup De.lang.apply (List.replicate k Spec.De.zeroWord) = .ok (setLz k DS.new) := by
    have := zeros_run [] k 0
    rw [List.append_nil, Nat.zero_add] at this
    show execGroupFrom De.apply _ (setLz 0 DS.new) false = _
    rw [this, execGroupFrom, if_neg Bool.false_ne_true]
  unfold text2digitsWords
  rw [hex]
  dsimp only
  have he : (setLz k DS.new).isEmpty = false := by
    show (([] : List Nat).isEmpty && k == 0) = false
    have : (k == 0) = false := by simp; omega
    rw [this]; rfl
  rw [he, if_neg Bool.false_ne_true]
  have hr : (setLz k DS.new).render = List.replicate k 0 := by
    show List.replicate k 0 ++ [] = _
    rw [List.append_nil]
  unfold Lang.formatW
  have hrne : (setLz k DS.new).render.isEmpty = false := by
    rw [hr]; cases k with
    | zero => omega
    | succ k => rfl
  rw [hrne, if_neg Bool.false_ne_true]
  show ValOut.ok (renderChars (setLz k DS.new)) = _
  unfold renderChars
  rw [hr, EnExt.replicate_map]
  rfl

theorem C16_lone_zero_de : text2digitsWords De.lang [Spec.De.zeroWord] = .ok ['0'] :=
  C16_zeros_only_de 1 (by decide)

/-- `null` on a builder that holds a non-zero number: refused — `Frozen` when the number ended with the word
`eins` (which freezes the builder), `Overlap` otherwise; only the blocking flags are reset -/
theorem null_refused (k n f : Nat) (z : Bool) (hn : n ≠ 0) :
    De.apply Spec.De.zeroWord (setLz k (st n f z)) =
      (some (if z then .frozen else .overlap), setLz k (st n 0 z)) := by
  show De.applyFuel (1 + 1) w!"null" _ = _
  rw [applyFuel_plain 1 _ _ _ plain_null]
  have hne := lsb_ne_nil hn
  cases z with
  | true => rfl
  | false =>
    cases hl : lsb n with
    | nil => exact absurd hl hne
    | cons a t =>
      simp only [Act.exec, DS.put, setLz, st, hl]
      rfl

/-- **C16, `null` after a number**: after (`k` zeros and) the spelling of `0 < n < 10^12` the builder `b`
refuses `null` (error `Overlap`, or `Frozen` after a final `eins`), its digits are unchanged, and the
validation of the whole phrase fails with that error -/
theorem C16_zero_after_de (v : Spec.Var) (k n : Nat) (hn : 0 < n) (h : n < 10 ^ 12)
    (hv : flag v (cp 2 5) = true ∧ flag v (cp 3 5) = true) :
    ∃ b e, execGroup De.lang.apply (List.replicate k Spec.De.zeroWord ++ Spec.De.cardinal v n) = .ok b ∧
      (De.lang.apply Spec.De.zeroWord b).1 = some e ∧ (e = .overlap ∨ e = .frozen) ∧
      (De.lang.apply Spec.De.zeroWord b).2 = { b with flags := 0 } ∧
      text2digitsWords De.lang (List.replicate k Spec.De.zeroWord ++ Spec.De.cardinal v n ++ [Spec.De.zeroWord]) =
        .err e := by
  have hn' : n ≠ 0 := by omega
  obtain ⟨f, z, hex⟩ := zeros_cardinal_run v k n hn h hv
  have hz := null_refused k n f z hn'
  refine ⟨setLz k (st n f z), if z then .frozen else .overlap, hex, ?_, ?_, ?_, ?_⟩
  · exact congrArg Prod.fst hz
  · cases z
    · exact Or.inl rfl
    · exact Or.inr rfl
  · exact congrArg Prod.snd hz
  · obtain ⟨f', z', hcr⟩ := cardinal_run v n h hv hn'
    have hcr2 := run_lz_de k _ DS.new false _ hcr rfl
    have e1 : setLz k (st n f' z') = setLz k (st n f z) := by
      have hx : execGroupFrom De.apply (List.replicate k De.zeroWord ++ De.cardinal v n) DS.new false =
          .ok (setLz k (st n f' z')) := by
        show execGroupFrom De.apply _ (setLz 0 DS.new) false = _
        rw [zeros_run, Nat.zero_add, hcr2]
      have hex2 : execGroupFrom De.apply (List.replicate k De.zeroWord ++ De.cardinal v n) DS.new false =
          .ok (setLz k (st n f z)) := hex
      rw [hx] at hex2
      exact Except.ok.inj hex2
    unfold text2digitsWords
    have : execGroup De.lang.apply (List.replicate k Spec.De.zeroWord ++ Spec.De.cardinal v n ++ [Spec.De.zeroWord]) =
        .error (if z then .frozen else .overlap) := by
      show execGroupFrom De.apply _ (setLz 0 DS.new) false = _
      rw [List.append_assoc, zeros_run, Nat.zero_add]
      rw [run_lz_append_de k [Spec.De.zeroWord] _ DS.new false _ hcr rfl, e1, execGroupFrom, hz]
      cases z <;> rfl
    rw [this]

/-! ## Part 2 — the scanner on a phrase of words (generic in the language) -/

open T2N.EnExt (wt skipW pushWords SI SD pendL grpDigits dg)

/-- integer phase with a history: the parser holds `B`, nothing on hold, the texts emitted so far are `q` -/
def StQ (s : Scanner) (B : DS) (q : List Word) : Prop :=
  s.parser = { int := B } ∧ s.tracker.onHold = none ∧ s.tracker.queue.map (·.text) = q

/-- the words that the interpreter accepts are neither skipped by the scanner nor the decimal separator -/
def AccOk (l : Lang) : Prop :=
  ∀ w b, ((l.apply w b).1 = none ∨ (l.apply w b).1 = some .incomplete) → skipW w = false ∧ l.isDecSep w = false

/-- **lifting**: a successful interpreter run is reproduced by the scanner, word by word, as one open match -/
theorem lift_run (l : Lang) (hacc : AccOk l) (thr : Nat → Bool) : ∀ (ws : List Word) (b : DS) (inc : Bool) (r : DS),
    execGroupFrom l.apply ws b inc = .ok r → ∀ (s : Scanner) (i : Nat), SI s b →
    ∃ s', pushWords (scanCfg l thr) s i ws = .ok s' ∧ SI s' r := by
  intro ws
  induction ws with
  | nil =>
    intro b inc r h s i hs
    rw [execGroupFrom] at h
    cases inc with
    | true => exact absurd h (by simp)
    | false =>
      have : b = r := by simpa using h
      rw [← this]
      exact ⟨s, rfl, hs⟩
  | cons w ws ih =>
    intro b inc r h s i hs
    rw [execGroupFrom] at h
    obtain ⟨hp, hq, hh⟩ := hs
    rcases hx : l.apply w b with ⟨st, b1⟩
    rw [hx] at h
    have hx' : l.apply w s.parser.int = (st, b1) := by rw [hp]; exact hx
    have hpush : st = none ∨ st = some .incomplete → s.parser.push l w = (st, { int := b1 }) := by
      intro hst
      have hw := hacc w b (by rw [hx]; exact hst)
      rw [EnExt.parser_push_nosep l s.parser w (by rw [hp]) hw.2, hx', hp]
    rw [pushWords]
    cases st with
    | none =>
      have hw := hacc w b (by rw [hx]; exact Or.inl rfl)
      rw [EnExt.push_word l thr s i w hw.1, hpush (Or.inl rfl)]
      exact ih b1 false r h _ (i + 2) ⟨rfl, hq, hh⟩
    | some e =>
      cases e with
      | incomplete =>
        have hw := hacc w b (by rw [hx]; exact Or.inr rfl)
        rw [EnExt.push_word l thr s i w hw.1, hpush (Or.inr rfl)]
        exact ih b1 true r h _ (i + 2) ⟨rfl, hq, hh⟩
      | overlap => exact absurd h (by simp)
      | nan => exact absurd h (by simp)
      | frozen => exact absurd h (by simp)

/-- an accepted word in integer mode -/
theorem step_accept (l : Lang) (s : Scanner) (pos : Nat) (B B' : DS) (q : List Word) (w : Word)
    (hw : skipW w = false ∧ l.isDecSep w = false) (hst : StQ s B q) (ha : l.apply w B = (none, B')) :
    ∃ s', s.push (scanCfg l zeroThr) pos (wt w) = .ok s' ∧ StQ s' B' q := by
  obtain ⟨hp, hh, hq⟩ := hst
  have hpush : s.parser.push l w = (none, { int := B' }) := by
    rw [EnExt.parser_push_nosep l s.parser w (by rw [hp]) hw.2, hp]
    have ha' : l.apply w ({ int := B } : Parser).int = (none, B') := ha
    rw [ha']
  rw [EnExt.push_word l zeroThr s pos w hw.1, hpush]
  exact ⟨_, rfl, rfl, hh, hq⟩

/-- a refused word while a number is open (integer mode, threshold 0): the number is emitted and the word
starts the next one -/
theorem step_reject (l : Lang) (s : Scanner) (pos : Nat) (B B1 B' : DS) (e : Err) (text : Word) (val : Value)
    (q : List Word) (w : Word)
    (hw : skipW w = false ∧ l.isDecSep w = false) (hst : StQ s B q)
    (ha : l.apply w B = (some e, B1)) (he : e ≠ .incomplete) (hne : B1.isEmpty = false)
    (hf : l.formatW B1 = .ok (text, val))
    (hb : l.apply w {} = (none, B')) :
    ∃ s', s.push (scanCfg l zeroThr) pos (wt w) = .ok s' ∧ StQ s' B' (q ++ [text]) := by
  obtain ⟨hp, hh, hq⟩ := hst
  have hpush : s.parser.push l w = (some e, { int := B1 }) := by
    rw [EnExt.parser_push_nosep l s.parser w (by rw [hp]) hw.2, hp]
    have ha' : l.apply w ({ int := B } : Parser).int = (some e, B1) := ha
    rw [ha']
  rw [EnExt.push_word l zeroThr s pos w hw.1, hpush]
  have hgo : Scanner.pushRejected (scanCfg l zeroThr) { s with parser := { int := B1 } } pos (wt w) =
      .ok { parser := { int := B' },
            tracker := ((s.tracker.numberEnd B1.isOrdinal text val false).advanced pos),
            previous := some (wt w) } := by
    unfold Scanner.pushRejected
    have hn : ({ s with parser := { int := B1 } } : Scanner).parser.hasNumber = true := by
      show (!B1.isEmpty) = true; rw [hne]; rfl
    rw [if_pos hn]
    unfold Scanner.numberEnd
    have hfin : ({ s with parser := { int := B1 } } : Scanner).parser.finish (scanCfg l zeroThr).lang =
        .ok (text, val) := hf
    rw [hfin]
    dsimp only
    rw [EnExt.small_zeroThr, Bool.and_false]
    have hpush2 : Parser.push (scanCfg l zeroThr).lang {} (wt w).lower = (none, { int := B' }) := by
      show ({} : Parser).push l w = _
      rw [EnExt.parser_push_nosep l {} w rfl hw.2]
      have hb' : l.apply w ({} : Parser).int = (none, B') := hb
      rw [hb']
    rw [hpush2]
    rfl
  have fin : ∃ s', Scanner.pushRejected (scanCfg l zeroThr) { s with parser := { int := B1 } } pos (wt w) = .ok s' ∧
      StQ s' B' (q ++ [text]) := by
    rw [hgo]
    obtain ⟨t1, t2⟩ := EnExt.tracker_numberEnd s.tracker B1.isOrdinal text val hh
    refine ⟨_, rfl, rfl, t1, ?_⟩
    show List.map (·.text) (s.tracker.numberEnd B1.isOrdinal text val false).queue = _
    rw [t2, List.map_append, hq]
    rfl
  cases e with
  | incomplete => exact absurd rfl he
  | overlap => exact fin
  | nan => exact fin
  | frozen => exact fin

theorem finalize_none (l : Lang) (s : Scanner) (B : DS) (q : List Word) (hst : StQ s B q) (he : B.isEmpty = true) :
    ∃ sf, s.finalize (scanCfg l zeroThr) = .ok sf ∧ sf.tracker.queue.map (·.text) = q := by
  obtain ⟨hp, _, hq⟩ := hst
  unfold Scanner.finalize
  have : s.parser.hasNumber = false := by rw [hp]; show (!B.isEmpty) = false; rw [he]; rfl
  rw [this, if_neg Bool.false_ne_true]
  exact ⟨s, rfl, hq⟩

theorem finalize_some (l : Lang) (s : Scanner) (B : DS) (q : List Word) (text : Word) (val : Value)
    (hst : StQ s B q) (hne : B.isEmpty = false) (hf : l.formatW B = .ok (text, val)) :
    ∃ sf, s.finalize (scanCfg l zeroThr) = .ok sf ∧ sf.tracker.queue.map (·.text) = q ++ [text] := by
  obtain ⟨hp, hh, hq⟩ := hst
  unfold Scanner.finalize
  have hn : s.parser.hasNumber = true := by
    rw [hp]; show (!B.isEmpty) = true; rw [hne]; rfl
  rw [hn, if_pos rfl]
  unfold Scanner.numberEnd
  have hfin : s.parser.finish (scanCfg l zeroThr).lang = .ok (text, val) := by
    rw [hp]; exact hf
  rw [hfin]
  dsimp only
  rw [EnExt.small_zeroThr, Bool.and_false]
  obtain ⟨_, t2⟩ := EnExt.tracker_numberEnd s.tracker s.parser.isOrdinal text val hh
  refine ⟨_, rfl, ?_⟩
  show List.map (·.text) (s.tracker.numberEnd s.parser.isOrdinal text val false).queue = _
  rw [t2, List.map_append, hq]
  rfl

theorem StQ.ofSI {s : Scanner} {b : DS} (h : SI s b) : StQ s b [] := by
  obtain ⟨hp, hq, hh⟩ := h
  exact ⟨hp, hh, by rw [hq]; rfl⟩

/-- **whatever validates is found by the scanner** (threshold 0): a word list accepted by
`text2digitsWords` yields exactly one occurrence, with the same text -/
theorem scan_of_validate (l : Lang) (hacc : AccOk l) (ws : List Word) (t : Word)
    (h : text2digitsWords l ws = .ok t) : occTexts l zeroThr ws = some [t] := by
  unfold text2digitsWords at h
  cases hx : execGroup l.apply ws with
  | error e => rw [hx] at h; exact absurd h (by simp)
  | ok r =>
    rw [hx] at h
    dsimp only at h
    cases hne : r.isEmpty with
    | true => rw [hne, if_pos rfl] at h; exact absurd h (by simp)
    | false =>
      rw [hne, if_neg Bool.false_ne_true] at h
      cases hf : l.formatW r with
      | error f => rw [hf] at h; exact absurd h (by simp)
      | ok tv =>
        obtain ⟨t', val⟩ := tv
        rw [hf] at h
        have : t' = t := by simpa using h
        subst this
        obtain ⟨s1, e1, hs1⟩ := lift_run l hacc zeroThr ws DS.new false r hx {} 0 ⟨rfl, rfl, rfl⟩
        obtain ⟨sf, e2, hq⟩ := finalize_some l s1 r [] t' val (StQ.ofSI hs1) hne hf
        unfold occTexts
        rw [EnExt.findNumbers_words, e1]
        dsimp only
        rw [e2]
        dsimp only
        rw [hq]
        rfl

/-! ### the German interpreter accepts no blank word, no `-`, no `komma` -/

theorem vocab_keys_ok : De.vocab.all (fun p => !p.1.isEmpty && p.1.all (fun c => !simpleIsWs c)) = true := by decide

theorem longestAt_ws (c : Char) (cs : Word) (hc : simpleIsWs c = true) : longestAt De.patterns (c :: cs) = none := by
  have : (c = ' ' ∨ c = '\t') ∨ c = '\n' := by
    simpa [simpleIsWs] using hc
  rcases this with (rfl | rfl) | rfl <;> rfl

theorem firstMatch_ws : ∀ (w : Word) (j : Nat), w.all simpleIsWs = true → firstMatch De.patterns w j = none := by
  intro w
  induction w with
  | nil => intro j _; rfl
  | cons c cs ih =>
    intro j h
    rw [List.all_cons, Bool.and_eq_true] at h
    rw [firstMatch, longestAt_ws c cs h.1]
    exact ih (j + 1) h.2

theorem endsWith_ws (w s : Word) (c : Char) (hc : simpleIsWs c = false) (hs : c ∈ s) (h : w.all simpleIsWs = true) :
    endsWith w s = false := by
  cases he : endsWith w s with
  | false => rfl
  | true =>
    have hsuf : s <:+ w := List.isSuffixOf_iff_suffix.mp he
    have hm : c ∈ w := hsuf.subset hs
    have := List.all_eq_true.mp h c hm
    rw [hc] at this
    exact absurd this Bool.false_ne_true

theorem apply_ws (w : Word) (b : DS) (h : w.all simpleIsWs = true) : (De.apply w b).1 = some .nan := by
  have hl : De.lemmatize w = w := by
    unfold De.lemmatize
    rw [endsWith_ws w _ 't' (by decide) (by decide) h, endsWith_ws w _ 't' (by decide) (by decide) h,
      endsWith_ws w _ 't' (by decide) (by decide) h, endsWith_ws w _ 't' (by decide) (by decide) h]
    rfl
  have hsp : isSplittable De.patterns (De.lemmatize w) = false := by
    rw [hl]; unfold isSplittable; rw [firstMatch_ws w 0 h]
  have hlk : De.vocab.lookup w = none := by
    cases hlk : De.vocab.lookup w with
    | none => rfl
    | some a =>
      exfalso
      have hm := EnExt.lookup_mem _ a _ hlk
      have hk := List.all_eq_true.mp vocab_keys_ok _ hm
      simp only [Bool.and_eq_true, Bool.not_eq_true'] at hk
      cases w with
      | nil => exact absurd hk.1 (by simp)
      | cons c t =>
        have h1 : simpleIsWs c = true := (List.all_eq_true.mp h) c List.mem_cons_self
        have h2 := (List.all_eq_true.mp hk.2) c List.mem_cons_self
        rw [h1] at h2
        exact absurd h2 (by decide)
  show (De.applyFuel (1 + 1) w b).1 = _
  rw [applyFuel_unsplit 1 w b hsp, post_fst, hl, hlk]
  rfl

theorem accOk_de : AccOk De.lang := by
  intro w b h
  have hnan : (De.apply w b).1 = some .nan → False := by
    intro hx
    have h' : (De.apply w b).1 = none ∨ (De.apply w b).1 = some .incomplete := h
    rw [hx] at h'
    rcases h' with h' | h' <;> exact absurd h' (by simp)
  constructor
  · unfold skipW
    rw [Bool.or_eq_false_iff]
    constructor
    · cases hq : (w == ['-']) with
      | false => rfl
      | true =>
        have : w = ['-'] := by simpa using hq
        subst this
        exact (hnan rfl).elim
    · cases hq : w.all simpleCC.isWhitespace with
      | false => rfl
      | true => exact (hnan (apply_ws w b hq)).elim
  · cases hq : De.lang.isDecSep w with
    | false => rfl
    | true =>
      have : w = w!"komma" := by
        have : (w == w!"komma") = true := hq
        simpa using this
      subst this
      exact (hnan rfl).elim

theorem scan_of_validate_de (ws : List Word) (t : Word) (h : text2digitsWords De.lang ws = .ok t) :
    occTexts De.lang zeroThr ws = some [t] := scan_of_validate De.lang accOk_de ws t h

/-- the scanner (threshold 0) finds a spelled cardinal as one occurrence -/
theorem C01_scan_de (v : Spec.Var) (n : Nat) (h : n < 10 ^ 12)
    (hv : flag v (cp 2 5) = true ∧ flag v (cp 3 5) = true) :
    occTexts De.lang zeroThr (Spec.De.cardinal v n) = some [decChars n] :=
  scan_of_validate_de _ _ (C01_validate_de v n h hv)

/-- the scanner (threshold 0) finds the zero-prefixed number as one occurrence -/
theorem C16_scan_de (v : Spec.Var) (k n : Nat) (hn : 0 < n) (h : n < 10 ^ 12)
    (hv : flag v (cp 2 5) = true ∧ flag v (cp 3 5) = true) :
    occTexts De.lang zeroThr (List.replicate k Spec.De.zeroWord ++ Spec.De.cardinal v n) =
      some [List.replicate k '0' ++ decChars n] :=
  scan_of_validate_de _ _ (C16_validate_de v k n hn h hv)

theorem C16_zeros_only_scan_de (k : Nat) (hk : 0 < k) :
    occTexts De.lang zeroThr (List.replicate k Spec.De.zeroWord) = some [List.replicate k '0'] :=
  scan_of_validate_de _ _ (C16_zeros_only_de k hk)

/-- **C16, `null` after a number, at the scanner**: the number ends and the zero is a number of its own -/
theorem C16_zero_after_scan_de (v : Spec.Var) (k n : Nat) (hn : 0 < n) (h : n < 10 ^ 12)
    (hv : flag v (cp 2 5) = true ∧ flag v (cp 3 5) = true) :
    occTexts De.lang zeroThr (List.replicate k Spec.De.zeroWord ++ Spec.De.cardinal v n ++ [Spec.De.zeroWord]) =
      some [List.replicate k '0' ++ decChars n, ['0']] := by
  have hn' : n ≠ 0 := by omega
  obtain ⟨f, z, hrun⟩ := zeros_cardinal_run v k n hn h hv
  have hz := null_refused k n f z hn'
  obtain ⟨hne, hf⟩ := format_lz k n 0 z hn'
  obtain ⟨s1, e1, hs1⟩ := lift_run De.lang accOk_de zeroThr _ DS.new false _ hrun {} 0 ⟨rfl, rfl, rfl⟩
  obtain ⟨s2, e2, hs2⟩ := step_reject De.lang s1 (0 + 2 * (List.replicate k Spec.De.zeroWord ++ Spec.De.cardinal v n).length)
    _ _ (setLz 1 DS.new) _ _ _ [] Spec.De.zeroWord ⟨by decide, by decide⟩ (StQ.ofSI hs1) hz
    (by cases z <;> simp) hne hf (null_apply_empty 0)
  obtain ⟨sf, e3, hq⟩ := finalize_some De.lang s2 (setLz 1 DS.new) _ ['0'] (.dec [0] []) hs2 rfl rfl
  unfold occTexts
  rw [EnExt.findNumbers_words, EnExt.pushWords_append, e1]
  dsimp only
  rw [pushWords, e2]
  dsimp only
  rw [pushWords]
  dsimp only
  rw [e3]
  dsimp only
  rw [hq]
  rfl

/-! ## Part 3 — digit dictation (C08) -/

/-- builder while digits are dictated: `z` leading zeros, then at most one non-zero digit `e`; a unit word
sets the blocking flag TENS, and the word `eins` freezes the builder -/
def dB (z : Nat) (pend : Option Nat) : DS :=
  { rbuf := pendL pend, lz := z, flags := if pend.isSome then 1 else 0, frozen := pend == some 1 }

theorem digitWord_zero : De.digitWord 0 = w!"null" := rfl
theorem digitWord_one : De.digitWord 1 = w!"eins" := rfl

theorem apply_zero_empty (z : Nat) : De.apply (De.digitWord 0) (dB z none) = (none, dB (z + 1) none) := by
  show De.applyFuel (1 + 1) w!"null" _ = _
  rw [applyFuel_plain 1 _ _ _ plain_null]
  rfl

theorem apply_zero_pend (z e : Nat) :
    ∃ err, De.apply (De.digitWord 0) (dB z (some e)) = (some err, { dB z (some e) with flags := 0 }) ∧
      err ≠ .incomplete := by
  show ∃ err, De.applyFuel (1 + 1) w!"null" _ = _ ∧ _
  rw [applyFuel_plain 1 _ _ _ plain_null]
  by_cases h1 : e = 1
  · subst h1
    exact ⟨.frozen, rfl, by simp⟩
  · refine ⟨.overlap, ?_, by simp⟩
    have : ((some e : Option Nat) == some 1) = false := by simp [h1]
    simp [dB, Act.exec, DS.put, pendL, allZero, this]

theorem apply_digit_empty (z d : Nat) (h0 : d ≠ 0) (h9 : d < 10) :
    De.apply (De.digitWord d) (dB z none) = (none, dB z (some d)) := by
  show De.applyFuel (1 + 1) (De.unitWord w!"eins" false d) _ = _
  by_cases h1 : d = 1
  · subst h1
    show De.applyFuel (1 + 1) w!"eins" _ = _
    rw [applyFuel_eins 1]
    simp [dB, T2N.De.unit, Act.when, Act.exec, Guard.eval, DS.isFree, DS.isEmpty, DS.put, pendL, allZero]
  · rw [applyFuel_plain 1 _ _ _ (plain_unit _ false d (by omega) h9)]
    have hd : (d == 0) = false := by simp [h0]
    have hd1 : ((some d : Option Nat) == some 1) = false := by simp [h1]
    simp [dB, T2N.De.unit, Act.when, Act.exec, Guard.eval, DS.isFree, DS.isEmpty, DS.put, pendL, allZero, hd, hd1]

theorem apply_digit_pend (z e d : Nat) (he : e ≠ 0) (h0 : d ≠ 0) (h9 : d < 10) :
    De.apply (De.digitWord d) (dB z (some e)) = (some .nan, { dB z (some e) with flags := 0 }) := by
  show De.applyFuel (1 + 1) (De.unitWord w!"eins" false d) _ = _
  have he' : (e == 0) = false := by simp [he]
  by_cases h1 : d = 1
  · subst h1
    show De.applyFuel (1 + 1) w!"eins" _ = _
    rw [applyFuel_eins 1]
    simp [dB, T2N.De.unit, Act.when, Act.exec, Guard.eval, DS.isFree, DS.isEmpty, pendL, allZero, he']
  · rw [applyFuel_plain 1 _ _ _ (plain_unit _ false d (by omega) h9)]
    simp [dB, T2N.De.unit, Act.when, Act.exec, Guard.eval, DS.isFree, DS.isEmpty, pendL, allZero, he']

theorem digit_noskip (d : Nat) (h9 : d < 10) :
    skipW (De.digitWord d) = false ∧ De.lang.isDecSep (De.digitWord d) = false := by
  have : d = 0 ∨ d = 1 ∨ d = 2 ∨ d = 3 ∨ d = 4 ∨ d = 5 ∨ d = 6 ∨ d = 7 ∨ d = 8 ∨ d = 9 := by omega
  rcases this with rfl | rfl | rfl | rfl | rfl | rfl | rfl | rfl | rfl | rfl <;> exact ⟨by decide, by decide⟩

/-- text of a pending group -/
theorem format_pend (z e f : Nat) (fr : Bool) :
    ({ rbuf := [e], lz := z, flags := f, frozen := fr } : DS).isEmpty = false ∧
    De.lang.formatW { rbuf := [e], lz := z, flags := f, frozen := fr } =
      .ok ((grpDigits z (some e)).map digitChar, .dec (grpDigits z (some e)) []) := by
  refine ⟨rfl, ?_⟩
  unfold Lang.formatW
  have hr : ({ rbuf := [e], lz := z, flags := f, frozen := fr } : DS).render = grpDigits z (some e) := rfl
  have hrne : (grpDigits z (some e)).isEmpty = false := by simp [grpDigits, pendL]
  rw [hr, hrne, if_neg Bool.false_ne_true]
  show Except.ok (renderChars _, _) = _
  unfold renderChars
  rw [hr]

theorem format_zeros (z : Nat) (hz : z ≠ 0) :
    (dB z none).isEmpty = false ∧
    De.lang.formatW (dB z none) = .ok ((grpDigits z none).map digitChar, .dec (grpDigits z none) []) := by
  have hr : (dB z none).render = grpDigits z none := rfl
  constructor
  · show (([] : List Nat).isEmpty && z == 0) = false
    have : (z == 0) = false := by simp [hz]
    rw [this]; rfl
  · unfold Lang.formatW
    have hrne : (grpDigits z none).isEmpty = false := by
      cases z with
      | zero => exact absurd rfl hz
      | succ z => simp [grpDigits, List.replicate_succ]
    rw [hr, hrne, if_neg Bool.false_ne_true]
    show Except.ok (renderChars _, _) = _
    unfold renderChars
    rw [hr]

/-- **the scanner on dictated digits**, from any state `(z, pend)` -/
theorem dict_run : ∀ (ds : List Nat), (∀ d ∈ ds, d < 10) → ∀ (s : Scanner) (z : Nat) (pend : Option Nat)
    (q : List Word) (i : Nat), StQ s (dB z pend) q → (∀ e, pend = some e → e ≠ 0) →
    ∃ s' sf, pushWords (scanCfg De.lang zeroThr) s i (ds.map De.digitWord) = .ok s' ∧
      s'.finalize (scanCfg De.lang zeroThr) = .ok sf ∧
      sf.tracker.queue.map (·.text) = q ++ (dg z pend ds).map (fun g => g.map digitChar) := by
  intro ds
  induction ds with
  | nil =>
    intro _ s z pend q i hst _
    refine ⟨s, ?_⟩
    cases pend with
    | none =>
      by_cases hz : z = 0
      · subst hz
        obtain ⟨sf, h1, h2⟩ := finalize_none De.lang s _ q hst rfl
        exact ⟨sf, rfl, h1, by rw [h2]; simp [dg]⟩
      · obtain ⟨hne, hf⟩ := format_zeros z hz
        obtain ⟨sf, h1, h2⟩ := finalize_some De.lang s _ q _ _ hst hne hf
        exact ⟨sf, rfl, h1, by rw [h2, dg, if_neg hz]; rfl⟩
    | some e =>
      obtain ⟨hne, hf⟩ := format_pend z e 1 (some e == some 1)
      obtain ⟨sf, h1, h2⟩ := finalize_some De.lang s _ q _ _ hst hne hf
      exact ⟨sf, rfl, h1, by rw [h2, dg]; rfl⟩
  | cons d ds ih =>
    intro hds s z pend q i hst hpe
    have hd9 : d < 10 := hds d List.mem_cons_self
    have hds' : ∀ x ∈ ds, x < 10 := fun x hx => hds x (List.mem_cons_of_mem _ hx)
    have hw := digit_noskip d hd9
    rw [List.map_cons, pushWords]
    cases pend with
    | none =>
      by_cases hd : d = 0
      · subst hd
        obtain ⟨s1, e1, st1⟩ := step_accept De.lang s i _ _ q _ hw hst (apply_zero_empty z)
        obtain ⟨s', sf, r1, r2, r3⟩ := ih hds' s1 (z + 1) none q (i + 2) st1 (fun e h => by simp at h)
        refine ⟨s', sf, by rw [e1]; exact r1, r2, ?_⟩
        rw [r3, dg, if_pos rfl]
      · obtain ⟨s1, e1, st1⟩ := step_accept De.lang s i _ _ q _ hw hst (apply_digit_empty z d hd hd9)
        obtain ⟨s', sf, r1, r2, r3⟩ := ih hds' s1 z (some d) q (i + 2) st1
          (fun e h => by have : d = e := by simpa using h
                         rw [← this]; exact hd)
        refine ⟨s', sf, by rw [e1]; exact r1, r2, ?_⟩
        rw [r3, dg, if_neg hd]
    | some e =>
      have he : e ≠ 0 := hpe e rfl
      obtain ⟨hne, hf⟩ := format_pend z e 0 (some e == some 1)
      by_cases hd : d = 0
      · subst hd
        obtain ⟨err, ha, herr⟩ := apply_zero_pend z e
        obtain ⟨s1, e1, st1⟩ := step_reject De.lang s i _ _ (dB 1 none) err _ _ q _ hw hst ha herr hne hf
          (apply_zero_empty 0)
        obtain ⟨s', sf, r1, r2, r3⟩ := ih hds' s1 1 none _ (i + 2) st1 (fun e h => by simp at h)
        refine ⟨s', sf, by rw [e1]; exact r1, r2, ?_⟩
        rw [r3, dg, if_pos rfl, List.map_cons, List.append_assoc]
        rfl
      · obtain ⟨s1, e1, st1⟩ := step_reject De.lang s i _ _ (dB 0 (some d)) .nan _ _ q _ hw hst
          (apply_digit_pend z e d he hd hd9) (by simp) hne hf (apply_digit_empty 0 d hd hd9)
        obtain ⟨s', sf, r1, r2, r3⟩ := ih hds' s1 0 (some d) _ (i + 2) st1
          (fun e h => by have : d = e := by simpa using h
                         rw [← this]; exact hd)
        refine ⟨s', sf, by rw [e1]; exact r1, r2, ?_⟩
        rw [r3, dg, if_neg hd, List.map_cons, List.append_assoc]
        rfl

/-- **C08 for German, every digit sequence**: the scanner groups dictated digits exactly as
`Spec.dictationGroups` (zeros attach to the following non-zero digit, trailing zeros stand alone) -/
theorem C08_dictation_de (ds : List Nat) (h : ∀ d ∈ ds, d < 10) :
    occTexts De.lang zeroThr (ds.map Spec.De.digitWord) =
      some ((dictationGroups ds).map (fun g => g.map digitChar)) := by
  have hst : StQ {} (dB 0 none) [] := ⟨rfl, rfl, rfl⟩
  obtain ⟨s', sf, r1, r2, r3⟩ := dict_run ds h {} 0 none [] 0 hst (fun e h => by simp at h)
  unfold occTexts
  rw [EnExt.findNumbers_words, r1]
  dsimp only
  rw [r2]
  dsimp only
  rw [r3, EnExt.dg_dictation, List.nil_append]

/-- the same statement on `findNumbers` -/
theorem C08_dictation_de_occ (ds : List Nat) (h : ∀ d ∈ ds, d < 10) :
    ∃ occs, findNumbers (scanCfg De.lang zeroThr) (wordTokens (ds.map Spec.De.digitWord)) = .ok occs ∧
      occs.map (·.text) = (dictationGroups ds).map (fun g => g.map digitChar) := by
  have hst : StQ {} (dB 0 none) [] := ⟨rfl, rfl, rfl⟩
  obtain ⟨s', sf, r1, r2, r3⟩ := dict_run ds h {} 0 none [] 0 hst (fun e h => by simp at h)
  refine ⟨sf.tracker.queue, ?_, by rw [r3, EnExt.dg_dictation, List.nil_append]⟩
  rw [EnExt.findNumbers_words, r1]
  dsimp only
  rw [r2]

example : occTexts De.lang zeroThr ([0, 0, 7, 0, 1, 2, 0, 0].map Spec.De.digitWord) =
    some [w!"007", w!"01", w!"2", w!"00"] := C08_dictation_de _ (by decide)

/-! ## Part 4 — decimals (C05) -/

theorem komma_apply (b : DS) : De.apply De.sepWord b = (some .nan, { b with flags := 0 }) := by
  show De.applyFuel (1 + 1) w!"komma" b = _
  rw [applyFuel_unsplit 1 _ b (by decide)]
  rfl

/-- the separator `komma` after a (non-ordinal) integer part: the parser switches to decimal mode; the
blocking flags of the integer part are reset by the refused word -/
theorem parser_push_sep (p : Parser) (hd : p.isDec = false) (hne : p.int.isEmpty = false)
    (hm : p.int.marker = .none) :
    p.push De.lang De.sepWord = (some .incomplete, { p with int := { p.int with flags := 0 }, isDec := true }) := by
  unfold Parser.push
  rw [hd, if_neg Bool.false_ne_true]
  have ha : De.lang.apply De.sepWord p.int = (some .nan, { p.int with flags := 0 }) := komma_apply p.int
  rw [ha]
  dsimp only
  have hne' : ({ rbuf := p.int.rbuf, lz := p.int.lz, frozen := p.int.frozen, marker := p.int.marker } : DS).isEmpty =
      false := hne
  rw [hne', hm]
  rfl

theorem parser_push_dec (p : Parser) (w : Word) (d : Nat) (hd : p.isDec = true) (hf : p.dec.frozen = false)
    (hl : De.decVocab.lookup w = some d) :
    p.push De.lang w = (none, { p with dec := { p.dec with rbuf := d :: p.dec.rbuf } }) := by
  unfold Parser.push
  rw [hd, if_pos rfl]
  have ha : De.lang.applyDecimal w p.dec = (none, { p.dec with rbuf := d :: p.dec.rbuf }) := by
    show De.applyDecimal w _ = _
    unfold De.applyDecimal
    rw [hl]
    dsimp only
    unfold DS.push
    rw [hf, if_neg Bool.false_ne_true]
    rfl
  rw [ha]
  rfl

theorem step_komma (thr : Nat → Bool) (s : Scanner) (i : Nat) (I : DS) (hs : SI s I) (hne : I.isEmpty = false)
    (hm : I.marker = .none) :
    ∃ s', s.push (scanCfg De.lang thr) i (wt De.sepWord) = .ok s' ∧ SD s' { I with flags := 0 } [] := by
  obtain ⟨hp, hq, hh⟩ := hs
  have hpush : s.parser.push De.lang De.sepWord =
      (some .incomplete, { int := { I with flags := 0 }, dec := {}, isDec := true }) := by
    rw [parser_push_sep s.parser (by rw [hp]) (by rw [hp]; exact hne) (by rw [hp]; exact hm), hp]
  rw [EnExt.push_word De.lang thr s i De.sepWord (by decide), hpush]
  exact ⟨_, rfl, rfl, hq, hh⟩

theorem digitWord_ok (d : Nat) (h : d < 10) :
    skipW (De.digitWord d) = false ∧ De.decVocab.lookup (De.digitWord d) = some d := by
  have : d = 0 ∨ d = 1 ∨ d = 2 ∨ d = 3 ∨ d = 4 ∨ d = 5 ∨ d = 6 ∨ d = 7 ∨ d = 8 ∨ d = 9 := by omega
  rcases this with rfl | rfl | rfl | rfl | rfl | rfl | rfl | rfl | rfl | rfl <;> exact ⟨by decide, by rfl⟩

theorem step_frac (thr : Nat → Bool) (s : Scanner) (i : Nat) (I : DS) (R : List Nat) (w : Word) (d : Nat)
    (hs : SD s I R) (hw : skipW w = false) (hl : De.decVocab.lookup w = some d) :
    ∃ s', s.push (scanCfg De.lang thr) i (wt w) = .ok s' ∧ SD s' I (d :: R) := by
  obtain ⟨hp, hq, hh⟩ := hs
  have hpush : s.parser.push De.lang w = (none, { int := I, dec := { rbuf := d :: R }, isDec := true }) := by
    rw [parser_push_dec s.parser w d (by rw [hp]) (by rw [hp]) hl, hp]
  rw [EnExt.push_word De.lang thr s i w hw, hpush]
  exact ⟨_, rfl, rfl, hq, hh⟩

theorem frac_run (thr : Nat → Bool) (I : DS) : ∀ (ds : List Nat), (∀ d ∈ ds, d < 10) →
    ∀ (s : Scanner) (i : Nat) (R : List Nat), SD s I R →
    ∃ s', pushWords (scanCfg De.lang thr) s i (ds.map De.digitWord) = .ok s' ∧ SD s' I (ds.reverse ++ R) := by
  intro ds
  induction ds with
  | nil => intro _ s i R hs; exact ⟨s, rfl, hs⟩
  | cons d ds ih =>
    intro hl s i R hs
    obtain ⟨h1, h2⟩ := digitWord_ok d (hl d List.mem_cons_self)
    obtain ⟨s1, e1, hs1⟩ := step_frac thr s i I R _ d hs h1 h2
    obtain ⟨s', e2, hs2⟩ := ih (fun q hq => hl q (List.mem_cons_of_mem _ hq)) s1 (i + 2) (d :: R) hs1
    refine ⟨s', ?_, ?_⟩
    · rw [List.map_cons, pushWords, e1]; exact e2
    · rw [List.reverse_cons, List.append_assoc]; exact hs2

/-- end of a decimal number: exactly one occurrence, whatever the threshold -/
theorem finalize_decimal (thr : Nat → Bool) (s : Scanner) (I : DS) (R : List Nat) (hs : SD s I R)
    (hne : I.isEmpty = false) (hm : I.marker = .none) (hR : R ≠ []) :
    ∃ sf a b, s.finalize (scanCfg De.lang thr) = .ok sf ∧
      sf.tracker.queue = [⟨a, b, renderChars I ++ [','] ++ R.reverse.map digitChar, .dec I.render R.reverse, false⟩] := by
  obtain ⟨hp, hq, hh⟩ := hs
  unfold Scanner.finalize
  have hn : s.parser.hasNumber = true := by
    rw [hp]; show (!I.isEmpty) = true; rw [hne]; rfl
  rw [hn, if_pos rfl]
  unfold Scanner.numberEnd
  have ho : s.parser.isOrdinal = false := by
    rw [hp]; show I.marker.isOrdinal = false; rw [hm]; rfl
  have hdr : ({ rbuf := R } : DS).render = R.reverse := rfl
  obtain ⟨x, xs, hrr⟩ : ∃ x xs, R.reverse = x :: xs := by
    cases hrv : R.reverse with
    | nil => exact absurd (by simpa using hrv) hR
    | cons x xs => exact ⟨x, xs, rfl⟩
  have hf : s.parser.finish (scanCfg De.lang thr).lang =
      .ok (renderChars I ++ [','] ++ R.reverse.map digitChar, .dec I.render R.reverse) := by
    rw [hp]
    unfold Parser.finish
    have hde : ({ rbuf := R } : DS).isEmpty = false := by
      show (R.isEmpty && (0 : Nat) == 0) = false
      cases R with
      | nil => exact absurd rfl hR
      | cons a t => rfl
    dsimp only
    rw [hde]
    show ((scanCfg De.lang thr).lang.formatDecimalW I { rbuf := R }) = _
    unfold Lang.formatDecimalW
    have hrc2 : renderChars ({ rbuf := R } : DS) = R.reverse.map digitChar := rfl
    have hc : (I.render.isEmpty && R.reverse.isEmpty) = false := by rw [hrr]; simp
    rw [hrc2, hdr, hc, if_neg Bool.false_ne_true]
    rfl
  rw [hf, ho]
  dsimp only
  have hsm : (scanCfg De.lang thr).small (.dec I.render R.reverse) = false := by
    rw [hrr]; rfl
  rw [hsm, Bool.and_false]
  obtain ⟨_, t2⟩ := EnExt.tracker_numberEnd s.tracker false (renderChars I ++ [','] ++ R.reverse.map digitChar)
    (.dec I.render R.reverse) hh
  refine ⟨_, s.tracker.mstart, s.tracker.mend, rfl, ?_⟩
  show (s.tracker.numberEnd false _ _ false).queue = _
  rw [t2, hq]
  rfl

/-- **C05 for German**: integer part `n < 10^12` (`ein Million` variant), any non-empty fraction spoken digit
by digit, any threshold: exactly one occurrence, whose text is `<digits of n>,<fraction digits>` -/
theorem C05_decimal_de_occ (v : Spec.Var) (n : Nat) (ds : List Nat) (thr : Nat → Bool) (h : n < 10 ^ 12)
    (hv : flag v (cp 2 5) = true ∧ flag v (cp 3 5) = true) (hds : ds ≠ []) (h9 : ∀ d ∈ ds, d < 10) :
    ∃ a b, findNumbers (scanCfg De.lang thr)
        (wordTokens (Spec.De.cardinal v n ++ [Spec.De.sepWord] ++ Spec.De.fraction v ds)) =
      .ok [⟨a, b, decChars n ++ [','] ++ ds.map digitChar, .dec (decDigits n) ds, false⟩] := by
  -- the integer part as an interpreter run
  obtain ⟨I, hrun, hne, hm, hrc, hrd⟩ : ∃ I, execGroupFrom De.lang.apply (De.cardinal v n) DS.new false = .ok I ∧
      I.isEmpty = false ∧ I.marker = .none ∧ renderChars { I with flags := 0 } = decChars n ∧
      ({ I with flags := 0 } : DS).render = decDigits n := by
    by_cases hn : n = 0
    · subst hn
      have e0 : decDigits 0 = [0] := by rw [decDigits, if_pos (by decide)]
      refine ⟨setLz 1 DS.new, ?_, rfl, rfl, ?_, ?_⟩
      · show execGroupFrom De.apply [De.zeroWord] (setLz 0 DS.new) false = _
        rw [execGroupFrom, null_apply_empty]
        rfl
      · unfold decChars; rw [e0]; rfl
      · rw [e0]; rfl
    · obtain ⟨f, z, hr⟩ := cardinal_run v n h hv hn
      have hr0 : ({ st n f z with flags := 0 } : DS).render = decDigits n := by
        show List.replicate 0 0 ++ (lsb n).reverse = _
        rw [lsb_rev_dec n hn]; rfl
      refine ⟨st n f z, hr, ?_, rfl, ?_, hr0⟩
      · exact (format_lz 0 n f z hn).1
      · unfold renderChars decChars; rw [hr0]
  have hs0 : SI {} DS.new := ⟨rfl, rfl, rfl⟩
  obtain ⟨s1, e1, hs1⟩ := lift_run De.lang accOk_de thr _ _ _ _ hrun {} 0 hs0
  obtain ⟨s2, e2, hs2⟩ := step_komma thr s1 (0 + 2 * (De.cardinal v n).length) I hs1 hne hm
  obtain ⟨s3, e3, hs3⟩ := frac_run thr _ ds h9 s2 (0 + 2 * (De.cardinal v n).length + 2) [] hs2
  rw [List.append_nil] at hs3
  obtain ⟨sf, a, b, e4, hq⟩ := finalize_decimal thr s3 _ ds.reverse hs3 hne hm (by simpa using hds)
  rw [List.reverse_reverse, hrc, hrd] at hq
  refine ⟨a, b, ?_⟩
  rw [EnExt.findNumbers_words, List.append_assoc, EnExt.pushWords_append, e1]
  dsimp only
  rw [List.singleton_append, pushWords, e2]
  dsimp only
  have e3' : pushWords (scanCfg De.lang thr) s2 (0 + 2 * (De.cardinal v n).length + 2) (Spec.De.fraction v ds) =
      .ok s3 := e3
  rw [e3']
  dsimp only
  rw [e4]
  dsimp only
  rw [hq]

theorem C05_decimal_de (v : Spec.Var) (n : Nat) (ds : List Nat) (thr : Nat → Bool) (h : n < 10 ^ 12)
    (hv : flag v (cp 2 5) = true ∧ flag v (cp 3 5) = true) (hds : ds ≠ []) (h9 : ∀ d ∈ ds, d < 10) :
    occTexts De.lang thr (Spec.De.cardinal v n ++ [Spec.De.sepWord] ++ Spec.De.fraction v ds) =
      some [decChars n ++ [Spec.De.decMark] ++ ds.map digitChar] := by
  obtain ⟨a, b, e⟩ := C05_decimal_de_occ v n ds thr h hv hds h9
  unfold occTexts
  rw [e]
  rfl

example : occTexts De.lang (fun _ => true) (Spec.De.cardinal (fun _ => 1) 0 ++ [Spec.De.sepWord] ++
    Spec.De.fraction (fun _ => 1) [0, 0, 7]) = some [decChars 0 ++ [','] ++ w!"007"] :=
  C05_decimal_de (fun _ => 1) 0 [0, 0, 7] (fun _ => true) (by decide) (by decide) (by decide) (by decide)

example : occTexts De.lang (fun _ => true) (Spec.De.cardinal (fun _ => 1) 1021 ++ [Spec.De.sepWord] ++
    Spec.De.fraction (fun _ => 1) [1, 0]) = some [decChars 1021 ++ [','] ++ w!"10"] :=
  C05_decimal_de (fun _ => 1) 1021 [1, 0] (fun _ => true) (by decide) (by decide) (by decide) (by decide)

/-! ## the restriction on the variant function is necessary

The full statements (`∀ v`, no hypothesis on `cp 2 5` / `cp 3 5`) are FALSE: with the standard feminine form
`eine Million` / `eine Milliarde` the word `eine` is not recognised (known finding on this tree). -/

/-- C16 without the hypothesis: `null null eine million` is refused -/
theorem C16_de_eine_million_rejected :
    text2digitsWords De.lang (List.replicate 2 Spec.De.zeroWord ++ Spec.De.cardinal (fun _ => 0) 1000000) =
      .err .nan := by decide

set_option maxRecDepth 100000 in
/-- C16 / C01 at the scanner without the hypothesis: the zeros and the million are two numbers (`eine` is left) -/
theorem C16_de_eine_million_scan :
    occTexts De.lang zeroThr (List.replicate 2 Spec.De.zeroWord ++ Spec.De.cardinal (fun _ => 0) 1000000) =
      some [w!"00", w!"1000000"] := by decide +kernel

set_option maxRecDepth 100000 in
/-- C05 without the hypothesis: `eine milliarde eine million komma fünf` is read as two numbers -/
theorem C05_de_eine_million_scan :
    occTexts De.lang zeroThr (Spec.De.cardinal (fun _ => 0) 1001000000 ++ [Spec.De.sepWord] ++
      Spec.De.fraction (fun _ => 0) [5]) = some [w!"1000000000", w!"1000000,5"] := by decide +kernel

end T2N.ExtDe
