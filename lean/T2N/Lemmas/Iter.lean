/-
  T2N.Lemmas.Iter — the lazy iterator yields exactly the queue of the batch loop.
  Key fact: `push` never reads the queue of decided occurrences and only appends to it, so removing a
  prefix of the queue (what `pop` does) commutes with everything.
-/
import T2N.Model.Scanner

namespace T2N

def Tracker.prep (a : List Occ) (t : Tracker) : Tracker := { t with queue := a ++ t.queue }
def Scanner.prep (a : List Occ) (s : Scanner) : Scanner := { s with tracker := s.tracker.prep a }

def mapPrep (a : List Occ) : Except Fault Scanner → Except Fault Scanner
  | .ok s => .ok (s.prep a)
  | .error f => .error f

theorem Tracker.prep_advanced (a : List Occ) (t : Tracker) (pos : Nat) :
    (t.prep a).advanced pos = (t.advanced pos).prep a := rfl

theorem Tracker.prep_breaker (a : List Occ) (t : Tracker) : (t.prep a).breaker = t.breaker.prep a := rfl

theorem Tracker.prep_numberEnd (a : List Occ) (t : Tracker) (o : Bool) (tx : Word) (v : Value) (f : Bool) :
    (t.prep a).numberEnd o tx v f = (t.numberEnd o tx v f).prep a := by
  unfold Tracker.numberEnd Tracker.prep
  dsimp only
  generalize (if o = true then Kind.ordinal else Kind.cardinal) = kind
  by_cases hc : (t.last == kind) = true
  · rw [if_pos hc, if_pos hc]; simp [List.append_assoc]
  · rw [if_neg hc, if_neg hc]
    by_cases hf : f = true
    · rw [if_pos hf, if_pos hf]
    · rw [if_neg hf, if_neg hf]; simp [List.append_assoc]

theorem Scanner.prep_numberEnd (cfg : ScanCfg) (a : List Occ) (s : Scanner) :
    (s.prep a).numberEnd cfg = mapPrep a (s.numberEnd cfg) := by
  unfold Scanner.numberEnd
  show (match (s.parser.finish cfg.lang) with | .error f => _ | .ok (text, value) => _) = _
  cases s.parser.finish cfg.lang with
  | error f => rfl
  | ok r =>
    obtain ⟨text, value⟩ := r
    simp only [mapPrep, Scanner.prep]
    rw [Tracker.prep_numberEnd]

theorem Scanner.prep_outside (cfg : ScanCfg) (a : List Occ) (s : Scanner) (tok : Tok) :
    (s.prep a).outside cfg tok = (s.outside cfg tok).prep a := by
  unfold Scanner.outside
  split <;> rfl

theorem Scanner.prep_pushNan (cfg : ScanCfg) (a : List Occ) (s : Scanner) (tok : Tok) :
    Scanner.pushNan cfg (s.prep a) tok = mapPrep a (Scanner.pushNan cfg s tok) := by
  unfold Scanner.pushNan
  show (match (if s.parser.hasNumber = true then (s.prep a).numberEnd cfg else .ok (s.prep a)) with
        | .error f => _ | .ok s1 => _) = _
  by_cases hn : s.parser.hasNumber = true
  · rw [if_pos hn, if_pos hn, Scanner.prep_numberEnd]
    cases s.numberEnd cfg with
    | error f => rfl
    | ok s1 => simp only [mapPrep]; rw [Scanner.prep_outside]; rfl
  · rw [if_neg hn, if_neg hn]
    simp only [mapPrep]; rw [Scanner.prep_outside]; rfl

theorem Scanner.prep_pushRejected (cfg : ScanCfg) (a : List Occ) (s : Scanner) (pos : Nat) (tok : Tok) :
    Scanner.pushRejected cfg (s.prep a) pos tok = mapPrep a (Scanner.pushRejected cfg s pos tok) := by
  unfold Scanner.pushRejected
  show (if s.parser.hasNumber = true then _ else _) = _
  by_cases hn : s.parser.hasNumber = true
  · rw [if_pos hn, if_pos hn, Scanner.prep_numberEnd]
    cases s.numberEnd cfg with
    | error f => rfl
    | ok s1 =>
      simp only [mapPrep]
      show Except.ok _ = Except.ok _
      congr 1
      by_cases hr : (s1.parser.push cfg.lang tok.lower).1.isNone = true
      · simp only [Scanner.prep, hr, if_true]; rfl
      · by_cases hi : ((s1.parser.push cfg.lang tok.lower).1 == some Err.incomplete) = true
        · simp only [Scanner.prep, hr, hi, Bool.false_eq_true, if_false, if_true]
        · simp only [Scanner.prep, hr, hi, Bool.false_eq_true, if_false]
          have := Scanner.prep_outside cfg a { s1 with parser := (s1.parser.push cfg.lang tok.lower).2 } tok
          simp only [Scanner.prep] at this
          rw [this]
  · rw [if_neg hn, if_neg hn]
    simp only [mapPrep]; rw [Scanner.prep_outside]; rfl

theorem Scanner.prep_push (cfg : ScanCfg) (a : List Occ) (s : Scanner) (pos : Nat) (tok : Tok) :
    (s.prep a).push cfg pos tok = mapPrep a (s.push cfg pos tok) := by
  unfold Scanner.push
  by_cases hs : Scanner.isSkipped cfg tok = true
  · rw [if_pos hs, if_pos hs]; rfl
  rw [if_neg hs, if_neg hs]
  by_cases hnan : tok.nan = true
  · rw [if_pos hnan, if_pos hnan]; exact Scanner.prep_pushNan cfg a s tok
  rw [if_neg hnan, if_neg hnan]
  have htw : Scanner.testWord cfg (s.prep a) tok = Scanner.testWord cfg s tok := rfl
  show (match (s.parser.push cfg.lang (Scanner.testWord cfg (s.prep a) tok)).1 with | none => _ | some .incomplete => _ | some _ => _) = _
  rw [htw]
  cases hr : (s.parser.push cfg.lang (Scanner.testWord cfg s tok)).1 with
  | none => simp only [hr]; rfl
  | some e =>
    cases e with
    | incomplete => simp only [hr]; rfl
    | overlap =>
      simp only [hr]
      exact Scanner.prep_pushRejected cfg a { s with parser := (s.parser.push cfg.lang (Scanner.testWord cfg s tok)).2 } pos tok
    | nan =>
      simp only [hr]
      exact Scanner.prep_pushRejected cfg a { s with parser := (s.parser.push cfg.lang (Scanner.testWord cfg s tok)).2 } pos tok
    | frozen =>
      simp only [hr]
      exact Scanner.prep_pushRejected cfg a { s with parser := (s.parser.push cfg.lang (Scanner.testWord cfg s tok)).2 } pos tok

theorem Scanner.prep_finalize (cfg : ScanCfg) (a : List Occ) (s : Scanner) :
    (s.prep a).finalize cfg = mapPrep a (s.finalize cfg) := by
  unfold Scanner.finalize
  show (if s.parser.hasNumber = true then _ else _) = _
  by_cases hn : s.parser.hasNumber = true
  · rw [if_pos hn, if_pos hn]; exact Scanner.prep_numberEnd cfg a s
  · rw [if_neg hn, if_neg hn]; rfl

/-- the queue at the end of the batch loop started from state `s` on the remaining input -/
def batchQ (cfg : ScanCfg) (s : Scanner) (rest : List (Nat × Tok)) : Except Fault (List Occ) :=
  match Scanner.pushAll cfg s rest with
  | .error f => .error f
  | .ok s' =>
    match s'.finalize cfg with
    | .error f => .error f
    | .ok s'' => .ok s''.tracker.queue

def mapCons (a : List Occ) : Except Fault (List Occ) → Except Fault (List Occ)
  | .ok q => .ok (a ++ q)
  | .error f => .error f

theorem Scanner.prep_pushAll (cfg : ScanCfg) (a : List Occ) (rest : List (Nat × Tok)) :
    ∀ s : Scanner, Scanner.pushAll cfg (s.prep a) rest = mapPrep a (Scanner.pushAll cfg s rest) := by
  induction rest with
  | nil => intro s; rfl
  | cons pt rest ih =>
    intro s
    obtain ⟨pos, tok⟩ := pt
    simp only [Scanner.pushAll]
    rw [Scanner.prep_push]
    cases s.push cfg pos tok with
    | error f => rfl
    | ok s' => simp only [mapPrep]; exact ih s'

theorem batchQ_prep (cfg : ScanCfg) (a : List Occ) (s : Scanner) (rest : List (Nat × Tok)) :
    batchQ cfg (s.prep a) rest = mapCons a (batchQ cfg s rest) := by
  unfold batchQ
  rw [Scanner.prep_pushAll]
  cases Scanner.pushAll cfg s rest with
  | error f => rfl
  | ok s' =>
    simp only [mapPrep]
    rw [Scanner.prep_finalize]
    cases s'.finalize cfg with
    | error f => rfl
    | ok s'' => rfl

/-- popping the head of the queue = un-prepending it -/
theorem pop_is_unprep (s : Scanner) (o : Occ) (ms : List Occ) (h : s.tracker.queue = o :: ms) :
    s = ({ s with tracker := { s.tracker with queue := ms } } : Scanner).prep [o] := by
  cases s with
  | mk p t prev =>
    cases t with
    | mk q hold last a b =>
      simp only at h
      subst h
      rfl

/-- finalizing twice is finalizing once -/
theorem finalize_idem (cfg : ScanCfg) (s s' : Scanner) (h : s.finalize cfg = .ok s') :
    s'.finalize cfg = .ok s' := by
  unfold Scanner.finalize at h ⊢
  by_cases hn : s.parser.hasNumber = true
  · rw [if_pos hn] at h
    unfold Scanner.numberEnd at h
    cases hf : s.parser.finish cfg.lang with
    | error f => rw [hf] at h; cases h
    | ok r =>
      rw [hf] at h
      cases h
      rfl
  · rw [if_neg hn] at h
    cases h
    rw [if_neg hn]

/-- what the loop of `next` does when the queue is empty: it returns the first element of the batch
queue (or `none` when the batch queue is empty) and leaves a state whose batch queue is the rest -/
theorem drive_spec (cfg : ScanCfg) (rest : List (Nat × Tok)) :
    ∀ (s : Scanner) (n : Nat) (q : List Occ), s.tracker.queue = [] → batchQ cfg s rest = .ok q →
      match q with
      | [] => ∃ it', Iter.drive cfg s rest n = .ok (none, it') ∧ it'.sc.tracker.queue = [] ∧
          batchQ cfg it'.sc it'.rest = .ok []
      | o :: os => ∃ it', Iter.drive cfg s rest n = .ok (some o, it') ∧
          batchQ cfg it'.sc it'.rest = .ok os := by
  induction rest with
  | nil =>
    intro s n q _ hbq
    unfold batchQ at hbq
    simp only [Scanner.pushAll] at hbq
    unfold Iter.drive
    cases hf : s.finalize cfg with
    | error f => rw [hf] at hbq; cases hbq
    | ok s' =>
      rw [hf] at hbq
      dsimp only at hbq ⊢
      cases hbq
      have hidem := finalize_idem cfg s s' hf
      cases hq : s'.tracker.queue with
      | nil =>
        dsimp only
        refine ⟨_, rfl, hq, ?_⟩
        simp only [batchQ, Scanner.pushAll, hidem, hq]
      | cons o ms =>
        dsimp only
        refine ⟨_, rfl, ?_⟩
        have hp := pop_is_unprep s' o ms hq
        have h1 : batchQ cfg s' [] = .ok (o :: ms) := by
          simp only [batchQ, Scanner.pushAll, hidem, hq]
        rw [hp, batchQ_prep] at h1
        cases hb : batchQ cfg ({ s' with tracker := { s'.tracker with queue := ms } } : Scanner) [] with
        | error f => rw [hb] at h1; cases h1
        | ok q' =>
          rw [hb] at h1
          simp only [mapCons, List.singleton_append] at h1
          cases h1
          first | exact hb | rfl
  | cons pt rest ih =>
    intro s n q hs hbq
    obtain ⟨pos, tok⟩ := pt
    have hb : batchQ cfg s ((pos, tok) :: rest) =
        match s.push cfg pos tok with
        | .error f => .error f
        | .ok s1 => batchQ cfg s1 rest := by
      unfold batchQ
      simp only [Scanner.pushAll]
      cases s.push cfg pos tok <;> rfl
    rw [hb] at hbq
    unfold Iter.drive
    cases hp : s.push cfg pos tok with
    | error f => rw [hp] at hbq; cases hbq
    | ok s1 =>
      rw [hp] at hbq
      dsimp only at hbq ⊢
      cases hq : s1.tracker.queue with
      | nil => dsimp only; exact ih s1 (n + 1) q hq hbq
      | cons o ms =>
        dsimp only
        have hpp := pop_is_unprep s1 o ms hq
        have h1 : batchQ cfg s1 rest =
            mapCons [o] (batchQ cfg ({ s1 with tracker := { s1.tracker with queue := ms } } : Scanner) rest) := by
          conv => lhs; rw [hpp]
          exact batchQ_prep cfg [o] _ rest
        rw [h1] at hbq
        cases hb2 : batchQ cfg ({ s1 with tracker := { s1.tracker with queue := ms } } : Scanner) rest with
        | error f => rw [hb2] at hbq; cases hbq
        | ok q' =>
          rw [hb2] at hbq
          simp only [mapCons, List.singleton_append] at hbq
          cases hbq
          exact ⟨_, rfl, by first | exact hb2 | rfl⟩

/-- one call of `next` from any state: head of the batch queue, or the end -/
theorem next_spec (cfg : ScanCfg) (it : Iter) (q : List Occ) (hbq : batchQ cfg it.sc it.rest = .ok q) :
    match q with
    | [] => ∃ it', it.next cfg = .ok (none, it') ∧ batchQ cfg it'.sc it'.rest = .ok []
    | o :: os => ∃ it', it.next cfg = .ok (some o, it') ∧ batchQ cfg it'.sc it'.rest = .ok os := by
  unfold Iter.next
  cases hq : it.sc.tracker.queue with
  | nil =>
    dsimp only
    have := drive_spec cfg it.rest it.sc it.consumed q hq hbq
    cases q with
    | nil => obtain ⟨it', h1, _, h3⟩ := this; exact ⟨it', h1, h3⟩
    | cons o os => exact this
  | cons o ms =>
    dsimp only
    have hpp := pop_is_unprep it.sc o ms hq
    have h1 : batchQ cfg it.sc it.rest =
        mapCons [o] (batchQ cfg ({ it.sc with tracker := { it.sc.tracker with queue := ms } } : Scanner) it.rest) := by
      conv => lhs; rw [hpp]
      exact batchQ_prep cfg [o] _ it.rest
    rw [h1] at hbq
    cases hb2 : batchQ cfg ({ it.sc with tracker := { it.sc.tracker with queue := ms } } : Scanner) it.rest with
    | error f => rw [hb2] at hbq; cases hbq
    | ok q' =>
      rw [hb2] at hbq
      simp only [mapCons, List.singleton_append] at hbq
      cases hbq
      exact ⟨_, rfl, by first | exact hb2 | rfl⟩

/-- calling `next` until it returns `None` collects exactly the batch queue, in order -/
theorem iterCollect_spec (cfg : ScanCfg) : ∀ (fuel : Nat) (it : Iter) (q : List Occ),
    batchQ cfg it.sc it.rest = .ok q → q.length < fuel → iterCollect cfg fuel it = .ok q := by
  intro fuel
  induction fuel with
  | zero => intro it q _ h; omega
  | succ fuel ih =>
    intro it q hbq hlen
    unfold iterCollect
    have := next_spec cfg it q hbq
    cases q with
    | nil =>
      obtain ⟨it', h1, _⟩ := this
      rw [h1]
    | cons o os =>
      obtain ⟨it', h1, h2⟩ := this
      rw [h1]
      dsimp only
      rw [ih it' os h2 (by simp at hlen; omega)]

end T2N
