/-
  T2N.Lemmas.Inert — separator tokens are inert for every built-in language.

  A word that shares no character with the "letters" of a language (the characters occurring in its
  vocabulary keys, decimal vocabulary keys and splitter patterns, plus a few explicitly listed extras)
  is called `Sepish`.  For each of the seven interpreters a `Sepish` word is treated exactly like the
  empty word: `apply`, `applyDecimal` reject it along the language's plain error path, it is neither the
  decimal separator nor a linking word.  Hence any two `Sepish` words are `LangEq`.

  The general part shows that every test an interpreter performs on its word (`==` against a constant,
  `ends_with`, table lookup, list membership, splitter match) fails for a `Sepish` word as soon as the
  constant contains at least one letter (`hasLetter`, checked by `decide` on the tables), and that the
  lemmatizers (`trimEndBy`, `trimEndStr`, `trimStartStr`) keep a `Sepish` word `Sepish`.
-/
import T2N.Lemmas.Congr
import T2N.Model.Langs

namespace T2N

/-- no character of `w` is one of `ls` -/
def Sepish (ls : List Char) (w : Word) : Prop := ∀ c ∈ w, c ∉ ls

instance (ls : List Char) (w : Word) : Decidable (Sepish ls w) := by unfold Sepish; infer_instance

/-- some character of `k` is one of `ls` (so `k` is non-empty) -/
def hasLetter (ls : List Char) (k : Word) : Bool := k.any (fun c => ls.contains c)

namespace Sepish
variable {ls : List Char} {w : Word}

theorem nil : Sepish ls [] := fun _ h => by cases h

theorem of_subset {v : Word} (hw : Sepish ls w) (h : ∀ c ∈ v, c ∈ w) : Sepish ls v :=
  fun c hc => hw c (h c hc)

/-- a word with a letter is not contained (as a set of characters) in a `Sepish` word -/
theorem not_subset {k : Word} (hw : Sepish ls w) (hk : hasLetter ls k = true) : ¬ (∀ c ∈ k, c ∈ w) := by
  intro h
  unfold hasLetter at hk
  rw [List.any_eq_true] at hk
  obtain ⟨c, hc, hcl⟩ := hk
  exact hw c (h c hc) (by simpa using hcl)

theorem ne {k : Word} (hw : Sepish ls w) (hk : hasLetter ls k = true) : w ≠ k := by
  intro h; subst h
  exact hw.not_subset hk (fun _ h => h)

theorem beq_false {k : Word} (hw : Sepish ls w) (hk : hasLetter ls k = true) : (w == k) = false := by
  simpa using hw.ne hk

theorem bne_true {k : Word} (hw : Sepish ls w) (hk : hasLetter ls k = true) : (w != k) = true := by
  simpa using hw.ne hk

theorem endsWith_false {k : Word} (hw : Sepish ls w) (hk : hasLetter ls k = true) : endsWith w k = false := by
  unfold endsWith
  cases h : k.isSuffixOf w with
  | false => rfl
  | true =>
    rw [List.isSuffixOf_iff_suffix] at h
    exact absurd (fun c hc => h.subset hc) (hw.not_subset hk)

theorem isPrefixOf_false {k : Word} (hw : Sepish ls w) (hk : hasLetter ls k = true) : k.isPrefixOf w = false := by
  cases h : k.isPrefixOf w with
  | false => rfl
  | true =>
    rw [List.isPrefixOf_iff_prefix] at h
    exact absurd (fun c hc => h.subset hc) (hw.not_subset hk)

theorem contains_char_false {c : Char} (hw : Sepish ls w) (hc : c ∈ ls) : w.contains c = false := by
  cases h : w.contains c with
  | false => rfl
  | true => exact absurd hc (hw c (by simpa using h))

theorem lookup_none {α} (hw : Sepish ls w) :
    ∀ (tbl : List (Word × α)), (tbl.all fun p => hasLetter ls p.1) = true → tbl.lookup w = none
  | [], _ => rfl
  | (k, a) :: tbl, h => by
    simp only [List.all_cons, Bool.and_eq_true] at h
    rw [List.lookup_cons, hw.beq_false h.1]
    exact lookup_none hw tbl h.2

theorem contains_false (hw : Sepish ls w) :
    ∀ (l : List Word), (l.all (hasLetter ls)) = true → l.contains w = false
  | [], _ => rfl
  | k :: l, h => by
    simp only [List.all_cons, Bool.and_eq_true] at h
    rw [List.contains_cons, hw.beq_false h.1, contains_false hw l h.2]; rfl

theorem trimEndBy (hw : Sepish ls w) (p : Char → Bool) : Sepish ls (trimEndBy p w) := by
  apply hw.of_subset
  intro c hc
  unfold T2N.trimEndBy at hc
  rw [List.mem_reverse] at hc
  exact List.mem_reverse.mp ((List.dropWhile_sublist p).subset hc)

theorem trimEndStr_go (rp : Word) : ∀ (fuel : Nat) (r : Word) (c : Char), c ∈ trimEndStr.go rp fuel r → c ∈ r
  | 0, _, _, h => h
  | fuel + 1, r, c, h => by
    unfold trimEndStr.go at h
    split at h
    · exact List.mem_of_mem_drop (trimEndStr_go rp fuel _ c h)
    · exact h

theorem trimEndStr (hw : Sepish ls w) (pat : Word) : Sepish ls (trimEndStr pat w) := by
  apply hw.of_subset
  intro c hc
  unfold T2N.trimEndStr at hc
  split at hc
  · exact hc
  · dsimp only at hc
    rw [List.mem_reverse] at hc
    exact List.mem_reverse.mp (trimEndStr_go _ _ _ c hc)

theorem trimStartStr_go (pat : Word) : ∀ (fuel : Nat) (r : Word) (c : Char), c ∈ trimStartStr.go pat fuel r → c ∈ r
  | 0, _, _, h => h
  | fuel + 1, r, c, h => by
    unfold trimStartStr.go at h
    split at h
    · exact List.mem_of_mem_drop (trimStartStr_go pat fuel _ c h)
    · exact h

theorem trimStartStr (hw : Sepish ls w) (pat : Word) : Sepish ls (trimStartStr pat w) := by
  apply hw.of_subset
  intro c hc
  unfold T2N.trimStartStr at hc
  split at hc
  · exact hc
  · exact trimStartStr_go _ _ _ c hc

/-! ### the compound splitter finds nothing in a `Sepish` word -/

theorem longestAt_foldl (hw : Sepish ls w) :
    ∀ (pats : List Word), (pats.all (hasLetter ls)) = true →
      pats.foldl (fun acc p =>
        if p.isPrefixOf w && !p.isEmpty then
          match acc with
          | none => some p.length
          | some n => some (max n p.length)
        else acc) (none : Option Nat) = none
  | [], _ => rfl
  | p :: pats, h => by
    simp only [List.all_cons, Bool.and_eq_true] at h
    rw [List.foldl_cons, hw.isPrefixOf_false h.1]
    exact longestAt_foldl hw pats h.2

theorem longestAt_none (hw : Sepish ls w) (pats : List Word) (hp : (pats.all (hasLetter ls)) = true) :
    longestAt pats w = none := by
  unfold longestAt
  exact longestAt_foldl hw pats hp

theorem firstMatch_none (pats : List Word) (hp : (pats.all (hasLetter ls)) = true) :
    ∀ (w : Word) (i : Nat), Sepish ls w → firstMatch pats w i = none
  | [], _, _ => rfl
  | c :: cs, i, hw => by
    unfold firstMatch
    rw [longestAt_none hw pats hp]
    exact firstMatch_none pats hp cs (i + 1) (hw.of_subset (fun _ h => List.mem_cons_of_mem _ h))

theorem isSplittable_false (hw : Sepish ls w) (pats : List Word) (hp : (pats.all (hasLetter ls)) = true) :
    isSplittable pats w = false := by
  unfold isSplittable
  rw [firstMatch_none pats hp w 0 hw]

theorem mono {ls' : List Char} (hw : Sepish ls w) (h : ∀ c ∈ ls', c ∈ ls) : Sepish ls' w :=
  fun c hc hl => hw c hc (h c hl)

theorem cons_of_not_contains {c : Char} (hw : Sepish ls w) (hc : w.contains c = false) :
    Sepish (ls ++ [c]) w := by
  intro x hx hl
  rw [List.mem_append, List.mem_singleton] at hl
  cases hl with
  | inl h => exact hw x hx h
  | inr h => subst h; simp [hx] at hc

end Sepish

/-! ### `-` compounds: only the first piece matters when it is rejected with `NaN` -/

/-- `str::split(c)` yields at least one piece; the first one is made of characters of the word and does
not contain `c` -/
theorem splitOnChar_go_head (c : Char) : ∀ (w cur : Word), ∃ p ps, splitOnChar.go c w cur = p :: ps ∧
    (∀ x ∈ p, x ∈ w ∨ x ∈ cur) ∧ (c ∉ cur → c ∉ p)
  | [], cur => ⟨cur.reverse, [], rfl, fun x hx => Or.inr (List.mem_reverse.mp hx),
      fun h hx => h (List.mem_reverse.mp hx)⟩
  | x :: xs, cur => by
    unfold splitOnChar.go
    by_cases hxc : (x == c) = true
    · rw [if_pos hxc]
      exact ⟨cur.reverse, _, rfl, fun y hy => Or.inr (List.mem_reverse.mp hy),
        fun h hy => h (List.mem_reverse.mp hy)⟩
    · rw [if_neg hxc]
      obtain ⟨p, ps, he, h1, h2⟩ := splitOnChar_go_head c xs (x :: cur)
      refine ⟨p, ps, he, ?_, ?_⟩
      · intro y hy
        cases h1 y hy with
        | inl h => exact Or.inl (List.mem_cons_of_mem _ h)
        | inr h =>
          cases List.mem_cons.mp h with
          | inl h => exact Or.inl (h ▸ List.mem_cons_self)
          | inr h => exact Or.inr h
      · intro hcur
        apply h2
        intro hm
        cases List.mem_cons.mp hm with
        | inl h => exact hxc (by simp [h])
        | inr h => exact hcur h

theorem splitOnChar_head (c : Char) (w : Word) : ∃ p ps, splitOnChar c w = p :: ps ∧
    (∀ x ∈ p, x ∈ w) ∧ p.contains c = false := by
  obtain ⟨p, ps, he, h1, h2⟩ := splitOnChar_go_head c w []
  refine ⟨p, ps, he, ?_, ?_⟩
  · intro x hx
    cases h1 x hx with
    | inl h => exact h
    | inr h => cases h
  · have := h2 (fun h => by cases h)
    simpa using this

theorem execGroup_head_nan (f : Word → DS → Res × DS) (p : Word) (ps : List Word) (b' : DS)
    (h : f p DS.new = (some .nan, b')) : execGroup f (p :: ps) = .error .nan := by
  unfold execGroup execGroupFrom
  rw [h]

/-! ## English

`'-'` need not be counted as a letter: a `Sepish` word containing `-` goes through the compound branch, its
first piece is `Sepish` without `-` and is rejected with `NaN`, the group fails with `NaN`, and the compound
error path returns the builder unchanged — exactly what the plain error path does. -/
namespace En

/-- the letters of the language, written out; `letters_spec` shows how the list is obtained -/
def letters : List Char := w!"zeronughtfiswcdvxlyamb"

theorem letters_spec : letters = (vocab.map (·.1) ++ decVocab.map (·.1)).flatten.eraseDups := by decide +kernel

abbrev Sepish (w : Word) : Prop := T2N.Sepish letters w

theorem vocab_letters : (vocab.all fun p => hasLetter letters p.1) = true := by decide +kernel
theorem decVocab_letters : (decVocab.all fun p => hasLetter letters p.1) = true := by decide +kernel
theorem insignificant_letters : (insignificant.all (hasLetter letters)) = true := by decide +kernel

theorem lemmatize_sepish {w : Word} (hw : Sepish w) : Sepish (lemmatize w) := by
  unfold lemmatize
  split
  · exact Sepish.trimEndBy hw _
  · exact hw

/-- plain branch -/
theorem applyFuel_nodash (fuel : Nat) (w : Word) (hw : Sepish w) (hd : w.contains '-' = false) (b : DS) :
    applyFuel (fuel + 1) w b = (some .nan, b) := by
  unfold applyFuel
  rw [if_neg (by rw [hd]; decide)]
  dsimp only
  rw [Sepish.lookup_none (lemmatize_sepish hw) vocab vocab_letters]
  rfl

/-- a `Sepish` word is rejected with `NaN` and leaves the builder unchanged (plain and compound branch) -/
theorem apply_sepish_nan (w : Word) (hw : Sepish w) (b : DS) : apply w b = (some .nan, b) := by
  cases hd : w.contains '-' with
  | false => exact applyFuel_nodash 1 w hw hd b
  | true =>
    unfold apply applyFuel
    rw [if_pos hd]
    obtain ⟨p, ps, he, hsub, hpd⟩ := splitOnChar_head '-' w
    rw [he, execGroup_head_nan _ p ps DS.new (applyFuel_nodash 0 p (hw.of_subset hsub) hpd DS.new)]

theorem apply_sepish (w : Word) (hw : Sepish w) (b : DS) : apply w b = apply [] b := by
  rw [apply_sepish_nan w hw, apply_sepish_nan [] Sepish.nil]

theorem applyDecimal_sepish_nan (w : Word) (hw : Sepish w) (b : DS) : applyDecimal w b = (some .nan, b) := by
  unfold applyDecimal
  rw [Sepish.lookup_none hw decVocab decVocab_letters]

theorem applyDecimal_sepish (w : Word) (hw : Sepish w) (b : DS) : applyDecimal w b = applyDecimal [] b := by
  rw [applyDecimal_sepish_nan w hw, applyDecimal_sepish_nan [] Sepish.nil]

theorem isDecSep_sepish (w : Word) (hw : Sepish w) : lang.isDecSep w = false :=
  Sepish.beq_false hw (by decide +kernel)

theorem isLinking_sepish (w : Word) (hw : Sepish w) : lang.isLinking w = false :=
  Sepish.contains_false hw insignificant insignificant_letters

theorem langEq_sepish (a b : Word) (ha : Sepish a) (hb : Sepish b) : LangEq lang a b :=
  ⟨fun d => (apply_sepish a ha d).trans (apply_sepish b hb d).symm,
   fun d => (applyDecimal_sepish a ha d).trans (applyDecimal_sepish b hb d).symm,
   (isDecSep_sepish a ha).trans (isDecSep_sepish b hb).symm⟩

example : Sepish w!", " := by decide +kernel
example : Sepish w!",\t  " := by decide +kernel
example : Sepish w!"?!… 12" := by decide +kernel

example : Sepish w!" - " ∧ Sepish w!"--" := by decide +kernel

end En

/-! ## French

`'-'` is counted as a letter, and has to be: the compound branch returns `(some e, b)` without clearing the
blocking flags whereas the plain error path clears them, so `"-"` and `""` are told apart
(`dash_counterexample`). -/
namespace Fr

/-- the letters of the language, written out; `letters_spec` shows how the list is obtained -/
def letters : List Char := w!"zérounièmepdxtsqachfvgl-"

theorem letters_spec : letters = (vocab.map (·.1)).flatten.eraseDups ++ ['-'] := by decide +kernel

abbrev Sepish (w : Word) : Prop := T2N.Sepish letters w

theorem vocab_letters : (vocab.all fun p => hasLetter letters p.1) = true := by decide +kernel
theorem insignificant_letters : (insignificant.all (hasLetter letters)) = true := by decide +kernel

/-- the letters without `-` -/
def letters0 : List Char := w!"zérounièmepdxtsqachfvgl"

theorem letters_eq : letters = letters0 ++ ['-'] := rfl

theorem vocab_letters0 : (vocab.all fun p => hasLetter letters0 p.1) = true := by decide +kernel

theorem lemmatize_sepish {w : Word} (hw : T2N.Sepish letters0 w) : T2N.Sepish letters0 (lemmatize w) := by
  unfold lemmatize
  split
  · exact Sepish.trimEndBy hw _
  · exact hw

/-- plain branch: the error path clears the blocking flags -/
theorem applyFuel_nodash (fuel : Nat) (w : Word) (hw : T2N.Sepish letters0 w) (hd : w.contains '-' = false)
    (b : DS) : applyFuel (fuel + 1) w b = (some .nan, { b with flags := 0 }) := by
  unfold applyFuel
  rw [if_neg (by rw [hd]; decide)]
  dsimp only
  rw [Sepish.lookup_none (lemmatize_sepish hw) vocab vocab_letters0]
  rfl

theorem sepish0 {w : Word} (hw : Sepish w) : T2N.Sepish letters0 w :=
  hw.mono (fun c hc => by rw [letters_eq]; exact List.mem_append_left _ hc)

/-- a `Sepish` word is rejected along the plain error path, which clears the blocking flags -/
theorem apply_sepish_nan (w : Word) (hw : Sepish w) (b : DS) :
    apply w b = (some .nan, { b with flags := 0 }) :=
  applyFuel_nodash 1 w (sepish0 hw) (Sepish.contains_char_false hw (by decide +kernel)) b

theorem applyDecimal_sepish_nan (w : Word) (hw : Sepish w) (b : DS) :
    applyDecimal w b = (some .nan, { b with flags := 0 }) := apply_sepish_nan w hw b

/-- compound branch: a word without letters that contains `-` is rejected with `NaN` and the builder is left
untouched, flags included -/
theorem apply_dash_nan (w : Word) (hw : T2N.Sepish letters0 w) (hd : w.contains '-' = true) (b : DS) :
    apply w b = (some .nan, b) := by
  unfold apply applyFuel
  rw [if_pos hd]
  obtain ⟨p, ps, he, hsub, hpd⟩ := splitOnChar_head '-' w
  rw [he, execGroup_head_nan _ p ps _ (applyFuel_nodash 0 p (hw.of_subset hsub) hpd DS.new)]

theorem isDecSep_sepish0 (w : Word) (hw : T2N.Sepish letters0 w) : lang.isDecSep w = false :=
  Sepish.beq_false hw (by decide +kernel)

theorem isLinking_sepish0 (w : Word) (hw : T2N.Sepish letters0 w) : lang.isLinking w = false :=
  Sepish.contains_false hw insignificant (by decide +kernel)

/-- two words without letters (`-` allowed) that agree on whether they contain `-` cannot be told apart -/
theorem langEq_sepish0 (a b : Word) (ha : T2N.Sepish letters0 a) (hb : T2N.Sepish letters0 b)
    (hd : a.contains '-' = b.contains '-') : LangEq lang a b := by
  have key : ∀ d, apply a d = apply b d := by
    intro d
    cases hda : a.contains '-' with
    | true => rw [apply_dash_nan a ha hda, apply_dash_nan b hb (hd ▸ hda)]
    | false =>
      have ha' : Sepish a := by rw [Sepish, letters_eq]; exact Sepish.cons_of_not_contains ha hda
      have hb' : Sepish b := by rw [Sepish, letters_eq]; exact Sepish.cons_of_not_contains hb (hd ▸ hda)
      rw [apply_sepish_nan a ha', apply_sepish_nan b hb']
  exact ⟨key, key, (isDecSep_sepish0 a ha).trans (isDecSep_sepish0 b hb).symm⟩

example : T2N.Sepish letters0 w!" - " ∧ T2N.Sepish letters0 w!" -\t " := by decide +kernel

/-- why `-` cannot be a separator character in French: the compound error path keeps the flags -/
theorem dash_counterexample : apply w!"-" { flags := 1 } ≠ apply [] { flags := 1 } := by decide +kernel

theorem apply_sepish (w : Word) (hw : Sepish w) (b : DS) : apply w b = apply [] b := by
  rw [apply_sepish_nan w hw, apply_sepish_nan [] Sepish.nil]

theorem applyDecimal_sepish (w : Word) (hw : Sepish w) (b : DS) : applyDecimal w b = applyDecimal [] b := by
  rw [applyDecimal_sepish_nan w hw, applyDecimal_sepish_nan [] Sepish.nil]

theorem isDecSep_sepish (w : Word) (hw : Sepish w) : lang.isDecSep w = false :=
  Sepish.beq_false hw (by decide +kernel)

theorem isLinking_sepish (w : Word) (hw : Sepish w) : lang.isLinking w = false :=
  Sepish.contains_false hw insignificant insignificant_letters

theorem langEq_sepish (a b : Word) (ha : Sepish a) (hb : Sepish b) : LangEq lang a b :=
  ⟨fun d => (apply_sepish a ha d).trans (apply_sepish b hb d).symm,
   fun d => (applyDecimal_sepish a ha d).trans (applyDecimal_sepish b hb d).symm,
   (isDecSep_sepish a ha).trans (isDecSep_sepish b hb).symm⟩

example : Sepish w!", " := by decide +kernel
example : Sepish w!",\t  " := by decide +kernel
example : Sepish w!"?!… 12" := by decide +kernel

end Fr

/-! ## Spanish -/
namespace Es

/-- the letters of the language, written out; `letters_spec` shows how the list is obtained -/
def letters : List Char := w!"cerounapimdsgtqxéhvzúóly"

theorem letters_spec : letters = (vocab.map (·.1)).flatten.eraseDups := by decide +kernel

abbrev Sepish (w : Word) : Prop := T2N.Sepish letters w

theorem vocab_letters : (vocab.all fun p => hasLetter letters p.1) = true := by decide +kernel
theorem insignificant_letters : (insignificant.all (hasLetter letters)) = true := by decide +kernel
theorem mascOrdinals_letters : (mascOrdinals.all (hasLetter letters)) = true := by decide +kernel
theorem femOrdinals_letters : (femOrdinals.all (hasLetter letters)) = true := by decide +kernel

theorem lemmatize_sepish {w : Word} (hw : Sepish w) : Sepish (lemmatize w) := by
  unfold lemmatize
  split
  · exact Sepish.trimEndBy hw _
  · split
    · exact Sepish.trimEndStr hw _
    · exact hw

theorem morph_sepish {w : Word} (hw : Sepish w) : morph w = .none := by
  unfold morph
  have hs : Sepish (trimStartStr w!"decimo" (lemmatize w)) := Sepish.trimStartStr (lemmatize_sepish hw) _
  dsimp only
  rw [Sepish.beq_false hs (by decide +kernel), Sepish.contains_false hs _ mascOrdinals_letters,
    Sepish.contains_false hs _ femOrdinals_letters, Sepish.endsWith_false hs (k := w!"imo") (by decide +kernel),
    Sepish.endsWith_false hs (k := w!"ima") (by decide +kernel),
    Sepish.endsWith_false hs (k := w!"avo") (by decide +kernel)]
  rfl

/-- a `Sepish` word bears no marker: it is refused with `Overlap` by the marker pre-check or else rejected
along the plain error path -/
theorem apply_sepish_nan (w : Word) (hw : Sepish w) (b : DS) :
    apply w b = if (!b.isEmpty && Marker.none != b.marker) = true then (some .overlap, b) else (some .nan, b) := by
  unfold apply
  rw [morph_sepish hw, Sepish.lookup_none (lemmatize_sepish hw) vocab vocab_letters]
  dsimp only
  rw [show (!Marker.none.isFraction) = true from rfl, Bool.and_true]
  cases (!b.isEmpty && Marker.none != b.marker) <;> rfl

theorem applyDecimal_sepish_nan (w : Word) (hw : Sepish w) (b : DS) :
    applyDecimal w b = if (!b.isEmpty && Marker.none != b.marker) = true then (some .overlap, b) else (some .nan, b) :=
  apply_sepish_nan w hw b

theorem apply_sepish (w : Word) (hw : Sepish w) (b : DS) : apply w b = apply [] b := by
  rw [apply_sepish_nan w hw, apply_sepish_nan [] Sepish.nil]

theorem applyDecimal_sepish (w : Word) (hw : Sepish w) (b : DS) : applyDecimal w b = applyDecimal [] b := by
  rw [applyDecimal_sepish_nan w hw, applyDecimal_sepish_nan [] Sepish.nil]

theorem isDecSep_sepish (w : Word) (hw : Sepish w) : lang.isDecSep w = false :=
  Sepish.beq_false hw (by decide +kernel)

theorem isLinking_sepish (w : Word) (hw : Sepish w) : lang.isLinking w = false :=
  Sepish.contains_false hw insignificant insignificant_letters

theorem langEq_sepish (a b : Word) (ha : Sepish a) (hb : Sepish b) : LangEq lang a b :=
  ⟨fun d => (apply_sepish a ha d).trans (apply_sepish b hb d).symm,
   fun d => (applyDecimal_sepish a ha d).trans (applyDecimal_sepish b hb d).symm,
   (isDecSep_sepish a ha).trans (isDecSep_sepish b hb).symm⟩

example : Sepish w!", " := by decide +kernel
example : Sepish w!",\t  " := by decide +kernel
example : Sepish w!"?!… 12" := by decide +kernel

end Es

/-! ## Portuguese -/
namespace Pt

/-- the letters of the language, written out; `letters_spec` shows how the list is obtained -/
def letters : List Char := w!"zeroumpidsagntêcqxévühlãõb"

theorem letters_spec : letters = ((vocab true).map (·.1)).flatten.eraseDups := by decide +kernel

abbrev Sepish (w : Word) : Prop := T2N.Sepish letters w

theorem vocab_letters (m : Bool) : ((vocab m).all fun p => hasLetter letters p.1) = true := by
  cases m <;> decide +kernel
theorem insignificant_letters : (insignificant.all (hasLetter letters)) = true := by decide +kernel

theorem lemmatize_sepish {w : Word} (hw : Sepish w) : Sepish (lemmatize w) := by
  unfold lemmatize
  split
  · exact Sepish.trimEndBy hw _
  · split
    · exact Sepish.trimEndStr hw _
    · split
      · exact Sepish.trimEndBy hw _
      · split
        · exact Sepish.trimEndStr hw _
        · exact hw

theorem morph_sepish {w : Word} (hw : Sepish w) : morph w = .none := by
  unfold morph
  rw [Sepish.endsWith_false hw (k := w!"a") (by decide +kernel),
    Sepish.endsWith_false hw (k := w!"as") (by decide +kernel),
    Sepish.endsWith_false hw (k := w!"o") (by decide +kernel),
    Sepish.endsWith_false hw (k := w!"os") (by decide +kernel)]
  rfl

/-- a `Sepish` word bears no marker: it is refused with `Overlap` by the marker pre-check (flags untouched) or
else rejected along the plain error path, which clears the flags -/
theorem apply_sepish_nan (w : Word) (hw : Sepish w) (b : DS) :
    apply w b = if (!b.isEmpty && Marker.none != b.marker) = true then (some .overlap, b)
      else (some .nan, { b with flags := 0 }) := by
  unfold apply
  rw [morph_sepish hw]
  dsimp only
  rw [Sepish.lookup_none (lemmatize_sepish hw) _ (vocab_letters _)]
  cases (!b.isEmpty && Marker.none != b.marker) <;> rfl

theorem applyDecimal_sepish_nan (w : Word) (hw : Sepish w) (b : DS) :
    applyDecimal w b = if (!b.isEmpty && Marker.none != b.marker) = true then (some .overlap, b)
      else (some .nan, { b with flags := 0 }) :=
  apply_sepish_nan w hw b

theorem apply_sepish (w : Word) (hw : Sepish w) (b : DS) : apply w b = apply [] b := by
  rw [apply_sepish_nan w hw, apply_sepish_nan [] Sepish.nil]

theorem applyDecimal_sepish (w : Word) (hw : Sepish w) (b : DS) : applyDecimal w b = applyDecimal [] b := by
  rw [applyDecimal_sepish_nan w hw, applyDecimal_sepish_nan [] Sepish.nil]

theorem isDecSep_sepish (w : Word) (hw : Sepish w) : lang.isDecSep w = false :=
  Sepish.beq_false hw (by decide +kernel)

theorem isLinking_sepish (w : Word) (hw : Sepish w) : lang.isLinking w = false :=
  Sepish.contains_false hw insignificant insignificant_letters

theorem langEq_sepish (a b : Word) (ha : Sepish a) (hb : Sepish b) : LangEq lang a b :=
  ⟨fun d => (apply_sepish a ha d).trans (apply_sepish b hb d).symm,
   fun d => (applyDecimal_sepish a ha d).trans (applyDecimal_sepish b hb d).symm,
   (isDecSep_sepish a ha).trans (isDecSep_sepish b hb).symm⟩

example : Sepish w!", " := by decide +kernel
example : Sepish w!",\t  " := by decide +kernel
example : Sepish w!"?!… 12" := by decide +kernel

end Pt

/-! ## Italian

`'è'` (the linking word "è") occurs in no vocabulary key or pattern and is added explicitly. -/
namespace It

/-- the letters of the language, written out; `letters_spec` shows how the list is obtained -/
def letters : List Char := w!"zerounasimpdctéqvlbè"

theorem letters_spec : letters = (vocab.map (·.1) ++ patterns).flatten.eraseDups ++ ['è'] := by decide +kernel

abbrev Sepish (w : Word) : Prop := T2N.Sepish letters w

theorem vocab_letters : (vocab.all fun p => hasLetter letters p.1) = true := by decide +kernel
theorem patterns_letters : (patterns.all (hasLetter letters)) = true := by decide +kernel
theorem ordStems_letters : (ordStems.all (hasLetter letters)) = true := by decide +kernel
theorem insignificant_letters : (insignificant.all (hasLetter letters)) = true := by decide +kernel

/-- no stem is recognised: the word is its own lemma -/
theorem lemmatize_sepish {w : Word} (hw : Sepish w) : lemmatize w = w := by
  unfold lemmatize
  have hc : Sepish (trimEndBy isVowelEnding w) := Sepish.trimEndBy hw _
  dsimp only
  rw [Sepish.contains_false hc _ ordStems_letters, Sepish.endsWith_false hc (k := w!"esim") (by decide +kernel),
    Sepish.endsWith_false hc (k := w!"decim") (by decide +kernel)]
  rfl

/-- a `Sepish` word is not split and is rejected along the plain error path -/
theorem apply_sepish_nan (w : Word) (hw : Sepish w) (b : DS) : apply w b = (some .nan, b) := by
  unfold apply applyFuel
  dsimp only
  rw [lemmatize_sepish hw, Sepish.isSplittable_false hw patterns patterns_letters,
    Sepish.lookup_none hw vocab vocab_letters, Sepish.beq_false hw (k := w!"non") (by decide +kernel)]
  rfl

theorem applyDecimal_sepish_nan (w : Word) (hw : Sepish w) (b : DS) : applyDecimal w b = (some .nan, b) :=
  apply_sepish_nan w hw b

theorem apply_sepish (w : Word) (hw : Sepish w) (b : DS) : apply w b = apply [] b := by
  rw [apply_sepish_nan w hw, apply_sepish_nan [] Sepish.nil]

theorem applyDecimal_sepish (w : Word) (hw : Sepish w) (b : DS) : applyDecimal w b = applyDecimal [] b := by
  rw [applyDecimal_sepish_nan w hw, applyDecimal_sepish_nan [] Sepish.nil]

theorem isDecSep_sepish (w : Word) (hw : Sepish w) : lang.isDecSep w = false :=
  Sepish.beq_false hw (by decide +kernel)

theorem isLinking_sepish (w : Word) (hw : Sepish w) : lang.isLinking w = false :=
  Sepish.contains_false hw insignificant insignificant_letters

theorem langEq_sepish (a b : Word) (ha : Sepish a) (hb : Sepish b) : LangEq lang a b :=
  ⟨fun d => (apply_sepish a ha d).trans (apply_sepish b hb d).symm,
   fun d => (applyDecimal_sepish a ha d).trans (applyDecimal_sepish b hb d).symm,
   (isDecSep_sepish a ha).trans (isDecSep_sepish b hb).symm⟩

example : Sepish w!", " := by decide +kernel
example : Sepish w!",\t  " := by decide +kernel
example : Sepish w!"?!… 12" := by decide +kernel

end It

/-! ## German -/
namespace De

/-- the letters of the language, written out; `letters_spec` shows how the list is obtained -/
def letters : List Char := w!"nuleisrtzwodvfüchbaögßm"

theorem letters_spec : letters = (vocab.map (·.1) ++ decVocab.map (·.1) ++ patterns).flatten.eraseDups := by decide +kernel

abbrev Sepish (w : Word) : Prop := T2N.Sepish letters w

theorem vocab_letters : (vocab.all fun p => hasLetter letters p.1) = true := by decide +kernel
theorem decVocab_letters : (decVocab.all fun p => hasLetter letters p.1) = true := by decide +kernel
theorem patterns_letters : (patterns.all (hasLetter letters)) = true := by decide +kernel
theorem insignificant_letters : (insignificant.all (hasLetter letters)) = true := by decide +kernel

theorem lemmatize_sepish {w : Word} (hw : Sepish w) : Sepish (lemmatize w) := by
  unfold lemmatize
  split
  · exact Sepish.trimEndBy hw _
  · exact hw

/-- a `Sepish` word is not split and is rejected along the plain error path, which clears the flags -/
theorem apply_sepish_nan (w : Word) (hw : Sepish w) (b : DS) :
    apply w b = (some .nan, { b with flags := 0 }) := by
  unfold apply applyFuel
  dsimp only
  rw [Sepish.isSplittable_false (lemmatize_sepish hw) patterns patterns_letters,
    Sepish.lookup_none (lemmatize_sepish hw) vocab vocab_letters]
  rfl

theorem applyDecimal_sepish_nan (w : Word) (hw : Sepish w) (b : DS) : applyDecimal w b = (some .nan, b) := by
  unfold applyDecimal
  rw [Sepish.lookup_none hw decVocab decVocab_letters]

theorem apply_sepish (w : Word) (hw : Sepish w) (b : DS) : apply w b = apply [] b := by
  rw [apply_sepish_nan w hw, apply_sepish_nan [] Sepish.nil]

theorem applyDecimal_sepish (w : Word) (hw : Sepish w) (b : DS) : applyDecimal w b = applyDecimal [] b := by
  rw [applyDecimal_sepish_nan w hw, applyDecimal_sepish_nan [] Sepish.nil]

theorem isDecSep_sepish (w : Word) (hw : Sepish w) : lang.isDecSep w = false :=
  Sepish.beq_false hw (by decide +kernel)

theorem isLinking_sepish (w : Word) (hw : Sepish w) : lang.isLinking w = false :=
  Sepish.contains_false hw insignificant insignificant_letters

theorem langEq_sepish (a b : Word) (ha : Sepish a) (hb : Sepish b) : LangEq lang a b :=
  ⟨fun d => (apply_sepish a ha d).trans (apply_sepish b hb d).symm,
   fun d => (applyDecimal_sepish a ha d).trans (applyDecimal_sepish b hb d).symm,
   (isDecSep_sepish a ha).trans (isDecSep_sepish b hb).symm⟩

example : Sepish w!", " := by decide +kernel
example : Sepish w!",\t  " := by decide +kernel
example : Sepish w!"?!… 12" := by decide +kernel

end De

/-! ## Dutch -/
namespace Nl

/-- the letters of the language, written out; `letters_spec` shows how the list is obtained -/
def letters : List Char := w!"nuléerstwdivjfzachgombë"

theorem letters_spec : letters = (vocab.map (·.1) ++ patterns).flatten.eraseDups := by decide +kernel

abbrev Sepish (w : Word) : Prop := T2N.Sepish letters w

theorem vocab_letters : (vocab.all fun p => hasLetter letters p.1) = true := by decide +kernel
theorem patterns_letters : (patterns.all (hasLetter letters)) = true := by decide +kernel
theorem insignificant_letters : (insignificant.all (hasLetter letters)) = true := by decide +kernel

/-- a `Sepish` word is not split and is rejected along the plain error path, which clears the flags -/
theorem apply_sepish_nan (w : Word) (hw : Sepish w) (b : DS) :
    apply w b = (some .nan, { b with flags := 0 }) := by
  unfold apply applyFuel
  rw [Sepish.isSplittable_false hw patterns patterns_letters]
  dsimp only
  rw [Sepish.lookup_none hw vocab vocab_letters]
  rfl

theorem applyDecimal_sepish_nan (w : Word) (hw : Sepish w) (b : DS) :
    applyDecimal w b = (some .nan, { b with flags := 0 }) := apply_sepish_nan w hw b

theorem apply_sepish (w : Word) (hw : Sepish w) (b : DS) : apply w b = apply [] b := by
  rw [apply_sepish_nan w hw, apply_sepish_nan [] Sepish.nil]

theorem applyDecimal_sepish (w : Word) (hw : Sepish w) (b : DS) : applyDecimal w b = applyDecimal [] b := by
  rw [applyDecimal_sepish_nan w hw, applyDecimal_sepish_nan [] Sepish.nil]

theorem isDecSep_sepish (w : Word) (hw : Sepish w) : lang.isDecSep w = false :=
  Sepish.beq_false hw (by decide +kernel)

theorem isLinking_sepish (w : Word) (hw : Sepish w) : lang.isLinking w = false :=
  Sepish.contains_false hw insignificant insignificant_letters

theorem langEq_sepish (a b : Word) (ha : Sepish a) (hb : Sepish b) : LangEq lang a b :=
  ⟨fun d => (apply_sepish a ha d).trans (apply_sepish b hb d).symm,
   fun d => (applyDecimal_sepish a ha d).trans (applyDecimal_sepish b hb d).symm,
   (isDecSep_sepish a ha).trans (isDecSep_sepish b hb).symm⟩

example : Sepish w!", " := by decide +kernel
example : Sepish w!",\t  " := by decide +kernel
example : Sepish w!"?!… 12" := by decide +kernel

end Nl

end T2N
