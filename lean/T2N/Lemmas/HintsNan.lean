/-
  T2N.Lemmas.HintsNan — the case left out of `Hints.findNumbers_comma`: the token that declares itself
  "separated from its predecessor" ALSO declares itself "not a number part".

  Such a token goes through `Scanner.pushNan`, which never consults the separation hint: it ends the open
  number (if any) with the parser AS IT IS and stays outside. In the stream with a comma token inserted in
  front of it, the open number is ended by the comma token, i.e. with the parser AFTER it has refused the
  forced stop `","`. The two streams agree as soon as the refused forced stop leaves the parser unchanged up
  to what `Parser.finish` and `Parser.isOrdinal` observe (`Inert cfg.lang [',']`). This holds for every word
  of every one of the seven interpreters (`inert_builtin`), because a refused word leaves no trace in the
  builders but in the blocking flags (`ErrSame`, from T2N/Lemmas/LangFacts.lean), and neither `finish` nor
  `isOrdinal` looks at the flags.

  Main results: `comma_step_nan`, `findNumbers_comma_nan` (no hypothesis on the separation hint at all:
  a comma token in front of a token hinted "not a number part" is invisible), `findNumbers_comma_any`
  (`Hints.findNumbers_comma` without the hypothesis `t.nan = false`).
-/
import T2N.Lemmas.Hints
import T2N.Lemmas.LangFacts

namespace T2N.HintsNan
open T2N T2N.Hints

/-! ### the language fact -/

/-- both per-word functions: a refused (or `Incomplete`) word leaves the builder unchanged but for the
blocking flags -/
structure ErrSame (l : Lang) : Prop where
  int : ∀ w b e, (l.apply w b).1 = some e → SameButFlags b (l.apply w b).2
  dec : ∀ w b e, (l.applyDecimal w b).1 = some e → SameButFlags b (l.applyDecimal w b).2

theorem errSame_en : ErrSame En.lang := ⟨En.apply_err_same, En.applyDecimal_err_same⟩
theorem errSame_fr : ErrSame Fr.lang := ⟨Fr.apply_err_same, Fr.applyDecimal_err_same⟩
theorem errSame_es : ErrSame Es.lang := ⟨Es.apply_err_same, Es.applyDecimal_err_same⟩
theorem errSame_pt : ErrSame Pt.lang := ⟨Pt.apply_err_same, Pt.applyDecimal_err_same⟩
theorem errSame_it : ErrSame It.lang := ⟨It.apply_err_same, It.applyDecimal_err_same⟩
theorem errSame_de : ErrSame De.lang := ⟨De.apply_err_same, De.applyDecimal_err_same⟩
theorem errSame_nl : ErrSame Nl.lang := ⟨Nl.apply_err_same, Nl.applyDecimal_err_same⟩

theorem errSame_builtin (l : Lang) (hl : l ∈ allLangs) : ErrSame l := by
  simp only [allLangs, List.mem_cons, List.not_mem_nil, or_false] at hl
  rcases hl with rfl | rfl | rfl | rfl | rfl | rfl | rfl
  · exact errSame_en
  · exact errSame_fr
  · exact errSame_es
  · exact errSame_pt
  · exact errSame_it
  · exact errSame_de
  · exact errSame_nl

/-- the parser refuses the word `w` (with an error other than `Incomplete`) without any effect that
`finish` (digit text and value of the number held) or `isOrdinal` could observe -/
def Inert (l : Lang) (w : Word) : Prop :=
  ∀ (p : Parser) (e : Err), (p.push l w).1 = some e → e ≠ Err.incomplete →
    (p.push l w).2.finish l = p.finish l ∧ (p.push l w).2.isOrdinal = p.isOrdinal

/-! #### `finish` and `isOrdinal` do not look at the blocking flags -/

theorem render_same {b b' : DS} (h : SameButFlags b b') : b'.render = b.render := by
  obtain ⟨h1, h2, _, _⟩ := h
  unfold DS.render; rw [h1, h2]

theorem renderChars_same {b b' : DS} (h : SameButFlags b b') : renderChars b' = renderChars b := by
  unfold renderChars; rw [render_same h]

theorem formatW_same (l : Lang) {b b' : DS} (h : SameButFlags b b') : l.formatW b' = l.formatW b := by
  unfold Lang.formatW
  rw [render_same h, renderChars_same h, h.2.2.2]

theorem formatDecimalW_same (l : Lang) {i i' d d' : DS} (hi : SameButFlags i i') (hd : SameButFlags d d') :
    l.formatDecimalW i' d' = l.formatDecimalW i d := by
  unfold Lang.formatDecimalW
  rw [render_same hi, render_same hd, renderChars_same hi, renderChars_same hd]

theorem finish_same (l : Lang) (p p' : Parser) (hi : SameButFlags p.int p'.int)
    (hd : SameButFlags p.dec p'.dec) (hdec : p'.isDec = p.isDec) :
    p'.finish l = p.finish l ∧ p'.isOrdinal = p.isOrdinal := by
  refine ⟨?_, ?_⟩
  · unfold Parser.finish
    rw [hdec, hd.isEmpty_eq, formatDecimalW_same l hi hd, formatW_same l hi]
  · unfold Parser.isOrdinal DS.isOrdinal
    rw [hi.2.2.2]

/-- the shape of a push that is refused with an error other than `Incomplete` -/
theorem push_err_shape (l : Lang) (p : Parser) (w : Word) (e : Err) (h : (p.push l w).1 = some e)
    (hne : e ≠ Err.incomplete) :
    (p.isDec = true ∧ (l.applyDecimal w p.dec).1 = some e ∧
      (p.push l w).2 = { p with dec := (l.applyDecimal w p.dec).2 }) ∨
    (p.isDec = false ∧ (l.apply w p.int).1 = some e ∧
      (p.push l w).2 = { p with int := (l.apply w p.int).2 }) := by
  unfold Parser.push at h ⊢
  by_cases hd : p.isDec = true
  · left
    simp only [hd, if_true, Bool.not_true, Bool.and_false, Bool.false_and, Bool.false_eq_true, if_false] at h ⊢
    exact ⟨trivial, h, trivial⟩
  · right
    have hd' : p.isDec = false := by simpa using hd
    simp only [hd', Bool.false_eq_true, if_false] at h ⊢
    by_cases hc : ((l.apply w p.int).1.isSome && !false && !(l.apply w p.int).2.isEmpty &&
        (l.apply w p.int).2.marker.isNone && l.isDecSep w) = true
    · rw [if_pos hc] at h
      exact absurd (Option.some.inj h).symm hne
    · rw [if_neg hc] at h ⊢
      exact ⟨trivial, h, rfl⟩

theorem inert_of_errSame (l : Lang) (h : ErrSame l) (w : Word) : Inert l w := by
  intro p e he hne
  rcases push_err_shape l p w e he hne with ⟨_, h2, h3⟩ | ⟨_, h2, h3⟩
  · rw [h3]
    exact finish_same l p _ (SameButFlags.refl _) (h.dec w p.dec e h2) rfl
  · rw [h3]
    exact finish_same l p _ (h.int w p.int e h2) (SameButFlags.refl _) rfl

/-- **the language fact, for the seven interpreters**: every refused word — in particular the forced stop
`","` — is refused without an effect on what `finish` / `isOrdinal` observe -/
theorem inert_builtin (l : Lang) (hl : l ∈ allLangs) (w : Word) : Inert l w :=
  inert_of_errSame l (errSame_builtin l hl) w

/-! ### scanner level -/

/-- `numberEnd` looks at the parser through `finish` and `isOrdinal` only -/
theorem numberEnd_congr (cfg : ScanCfg) (s : Scanner) (p' : Parser)
    (hf : p'.finish cfg.lang = s.parser.finish cfg.lang) (ho : p'.isOrdinal = s.parser.isOrdinal) :
    Scanner.numberEnd cfg { s with parser := p' } = s.numberEnd cfg := by
  unfold Scanner.numberEnd
  dsimp only
  rw [hf, ho]

/-- what the comma token does: it ends the open number (as the parser that has refused the forced stop
sees it) and is otherwise invisible (but as the remembered previous token) -/
theorem push_comma_open (cfg : ScanCfg) (hl : LangOk cfg.lang) (hf : cfg.lang.ErrFresh)
    (hc : cfg.lang.Rejects [',']) (hcc : CommaChar cfg.cc) (s sN : Scanner) (i : Nat)
    (hsi : SInv s) (hn : s.parser.hasNumber = true)
    (eN : Scanner.numberEnd cfg { s with parser := (s.parser.push cfg.lang [',']).2 } = .ok sN) :
    s.push cfg i commaTok = .ok ⟨{}, sN.tracker, some commaTok⟩ := by
  have hcs := comma_notSkipped cfg hcc
  have hcb := comma_notBreaks cfg hcc
  have hfresh : (({} : Parser).push cfg.lang [',']).2 = {} := Parser.push_fresh_of_rejects cfg.lang hl hf [','] hc
  obtain ⟨e0, hr0, hne0⟩ := hc {}
  obtain ⟨e, hr, hne⟩ := hc s.parser
  obtain ⟨_, _, f3⟩ := parser_push_facts cfg.lang hl s.parser hsi.1 [',']
  have hn' : (s.parser.push cfg.lang [',']).2.hasNumber = true := by rw [f3 e hr]; exact hn
  have hform := pushRejected_form cfg { s with parser := (s.parser.push cfg.lang [',']).2 } sN i commaTok hn' eN
  have hcomma : freshStep cfg sN.tracker i commaTok = ⟨{}, sN.tracker, some commaTok⟩ := by
    unfold freshStep
    have hl' : commaTok.lower = [','] := rfl
    rw [hl', hfresh, hr0, hcb]
    cases e0 with
    | incomplete => exact absurd rfl hne0
    | overlap => rfl
    | nan => rfl
    | frozen => rfl
  rw [hcomma] at hform
  unfold Scanner.push
  rw [if_neg (by rw [hcs]; simp), if_neg (by simp [commaTok]), testWord_comma cfg s]
  dsimp only
  cases e with
  | incomplete => exact absurd rfl hne
  | overlap => rw [hr]; exact hform
  | nan => rw [hr]; exact hform
  | frozen => rw [hr]; exact hform

theorem push_comma_idle (cfg : ScanCfg) (hl : LangOk cfg.lang) (hf : cfg.lang.ErrFresh)
    (hc : cfg.lang.Rejects [',']) (hcc : CommaChar cfg.cc) (tr : Tracker) (prev : Option Tok) (i : Nat) :
    Scanner.push cfg ⟨{}, tr, prev⟩ i commaTok = .ok ⟨{}, tr, some commaTok⟩ := by
  have hcs := comma_notSkipped cfg hcc
  have hcb := comma_notBreaks cfg hcc
  have hfresh : (({} : Parser).push cfg.lang [',']).2 = {} := Parser.push_fresh_of_rejects cfg.lang hl hf [','] hc
  obtain ⟨e0, hr0, hne0⟩ := hc {}
  rw [push_fresh_form cfg hl tr prev i commaTok hcs rfl]
  unfold freshStep
  have hl' : commaTok.lower = [','] := rfl
  rw [hl', hfresh, hr0, hcb]
  cases e0 with
  | incomplete => exact absurd rfl hne0
  | overlap => rfl
  | nan => rfl
  | frozen => rfl

/-- a token hinted "not a number part" on the pristine parser -/
theorem push_nan_idle (cfg : ScanCfg) (tr : Tracker) (prev : Option Tok) (i : Nat) (t : Tok)
    (hnan : t.nan = true) :
    Scanner.push cfg ⟨{}, tr, prev⟩ i t =
      .ok { (Scanner.outside cfg ⟨{}, tr, prev⟩ t) with previous := some t } := by
  unfold Scanner.push
  rw [if_neg (by rw [isSkipped_of_nan cfg t hnan]; simp), if_pos hnan]
  unfold Scanner.pushNan
  rw [if_neg (by rw [fresh_noNumber]; simp)]

/-- the remembered previous token does not matter to `outside` followed by its replacement -/
theorem outside_setPrev (cfg : ScanCfg) (p : Parser) (tr : Tracker) (a b c : Option Tok) (t : Tok) :
    ({ (Scanner.outside cfg ⟨p, tr, a⟩ t) with previous := c } : Scanner) =
      { (Scanner.outside cfg ⟨p, tr, b⟩ t) with previous := c } := by
  rw [outside_eq, outside_eq]
  split <;> rfl

/-- **one step, hinted token "not a number part"**: pushing the comma token, then the hinted token, leaves
the state that the hinted token alone leaves (shifted by one; nothing to shift, in fact) -/
theorem comma_step_nan (cfg : ScanCfg) (hl : LangOk cfg.lang) (hf : cfg.lang.ErrFresh)
    (hc : cfg.lang.Rejects [',']) (hk : Inert cfg.lang [',']) (hcc : CommaChar cfg.cc) (s : Scanner)
    (i : Nat) (t : Tok) (hsc : ScInv s i) (hsi : SInv s) (hidle : Idle s.parser) (hnan : t.nan = true) :
    ∃ sc, s.push cfg i commaTok = .ok sc ∧ sc.push cfg (i + 1) t = mapShift i (s.push cfg i t) := by
  by_cases hn : s.parser.hasNumber = true
  · -- a number is open: the comma token ends it, the hinted token alone ends it too
    obtain ⟨e, hr, hne⟩ := hc s.parser
    obtain ⟨_, _, f3⟩ := parser_push_facts cfg.lang hl s.parser hsi.1 [',']
    have hn' : (s.parser.push cfg.lang [',']).2.hasNumber = true := by rw [f3 e hr]; exact hn
    obtain ⟨sN, eN, cN⟩ := numberEnd_ok cfg { s with parser := (s.parser.push cfg.lang [',']).2 } i hsc hn'
    have hpN := numberEnd_parser cfg _ sN eN
    obtain ⟨k1, k2⟩ := hk s.parser e hr hne
    have eN' : s.numberEnd cfg = .ok sN := by
      rw [← numberEnd_congr cfg s _ k1 k2]; exact eN
    refine ⟨⟨{}, sN.tracker, some commaTok⟩, push_comma_open cfg hl hf hc hcc s sN i hsi hn eN, ?_⟩
    rw [push_nan_idle cfg sN.tracker _ (i + 1) t hnan]
    have h1 : s.push cfg i t = .ok { (sN.outside cfg t) with previous := some t } := by
      unfold Scanner.push
      rw [if_neg (by rw [isSkipped_of_nan cfg t hnan]; simp), if_pos hnan]
      unfold Scanner.pushNan
      rw [if_pos hn, eN']
    rw [h1]
    simp only [mapShift]
    congr 1
    have h2 : shiftS i { (sN.outside cfg t) with previous := some t } =
        { ((shiftS i sN).outside cfg t) with previous := some t } := by
      rw [shiftS_outside]; rfl
    rw [h2, shiftS_below i sN cN]
    obtain ⟨pN, trN, prevN⟩ := sN
    simp only at hpN
    subst hpN
    exact outside_setPrev cfg {} trN _ _ _ t
  · -- no number is open: the comma changes nothing but the remembered previous token
    have hn0 : s.parser.hasNumber = false := by simpa using hn
    have hp := hidle hn0
    obtain ⟨p, tr, prev⟩ := s
    simp only at hp
    subst hp
    refine ⟨⟨{}, tr, some commaTok⟩, push_comma_idle cfg hl hf hc hcc tr prev i, ?_⟩
    rw [push_nan_idle cfg tr _ (i + 1) t hnan, push_nan_idle cfg tr prev i t hnan]
    simp only [mapShift]
    congr 1
    have h2 : shiftS i { (Scanner.outside cfg ⟨{}, tr, prev⟩ t) with previous := some t } =
        { ((shiftS i ⟨{}, tr, prev⟩).outside cfg t) with previous := some t } := by
      rw [shiftS_outside]; rfl
    rw [h2, shiftS_below i ⟨{}, tr, prev⟩ hsc]
    exact outside_setPrev cfg {} tr _ _ _ t

/-- the run of `findNumbers_comma` from the two related states on -/
theorem findNumbers_of_step (cfg : ScanCfg) (A B : List Tok) (t : Tok) (sA sc : Scanner)
    (eA : Scanner.pushAll cfg {} (enumFrom 0 A) = .ok sA) (cA : ScInv sA A.length)
    (e1 : sA.push cfg A.length commaTok = .ok sc)
    (e2 : sc.push cfg (A.length + 1) t = mapShift A.length (sA.push cfg A.length t)) :
    ∃ occs, findNumbers cfg (A ++ t :: B) = .ok occs ∧
      findNumbers cfg (A ++ commaTok :: t :: B) = .ok (occs.map (Hints.shiftOcc A.length)) := by
  obtain ⟨s1, e3, c1⟩ := push_ok cfg sA A.length t cA
  rw [e3] at e2
  simp only [mapShift] at e2
  obtain ⟨s2, e4, c2⟩ := pushAll_ok cfg B s1 (A.length + 1) c1
  have e5 := shiftS_pushAll cfg A.length B s1 (A.length + 1) (by omega) c1
  rw [e4] at e5
  simp only [mapShift] at e5
  obtain ⟨s3, e6, _⟩ := finalize_ok cfg s2 _ c2
  have e7 := shiftS_finalize cfg A.length s2
  rw [e6] at e7
  simp only [mapShift] at e7
  refine ⟨s3.tracker.queue, ?_, ?_⟩
  · unfold findNumbers
    rw [enumFrom_append, Scanner.pushAll_append, eA]
    simp only [enumFrom, Scanner.pushAll, Nat.zero_add, e3, e4, e6]
  · unfold findNumbers
    rw [enumFrom_append, Scanner.pushAll_append, eA]
    simp only [enumFrom, Scanner.pushAll, Nat.zero_add, e1, e2, e5, e7]
    rfl

/-- **a comma token in front of a token hinted "not a number part" is invisible** (positions from the token
on shifted by one) — whatever the token says about its predecessor -/
theorem findNumbers_comma_nan (cfg : ScanCfg) (hl : LangOk cfg.lang) (hf : cfg.lang.ErrFresh)
    (hc : cfg.lang.Rejects [',']) (hk : Inert cfg.lang [',']) (hcc : CommaChar cfg.cc) (A B : List Tok)
    (t : Tok) (hnan : t.nan = true) :
    ∃ occs, findNumbers cfg (A ++ t :: B) = .ok occs ∧
      findNumbers cfg (A ++ commaTok :: t :: B) = .ok (occs.map (Hints.shiftOcc A.length)) := by
  obtain ⟨sA, eA, iA, cA, dA⟩ := pushAll_rinv cfg hl hf A {} 0 RInv.init
  rw [Nat.zero_add] at cA
  obtain ⟨sc, e1, e2⟩ := comma_step_nan cfg hl hf hc hk hcc sA A.length t cA iA dA hnan
  exact findNumbers_of_step cfg A B t sA sc eA cA e1 e2

/-- `Hints.findNumbers_comma` for every token that is not skipped, hinted "not a number part" or not -/
theorem findNumbers_comma_any (cfg : ScanCfg) (hl : LangOk cfg.lang) (hf : cfg.lang.ErrFresh)
    (hc : cfg.lang.Rejects [',']) (hk : Inert cfg.lang [',']) (hcc : CommaChar cfg.cc) (A B : List Tok)
    (t p : Tok) (hp : prevSig cfg A = some p) (hsep : cfg.sep t p = true)
    (hs : Scanner.isSkipped cfg t = false) :
    ∃ occs, findNumbers cfg (A ++ t :: B) = .ok occs ∧
      findNumbers cfg (A ++ commaTok :: t :: B) = .ok (occs.map (Hints.shiftOcc A.length)) := by
  by_cases hnan : t.nan = true
  · exact findNumbers_comma_nan cfg hl hf hc hk hcc A B t hnan
  · exact findNumbers_comma cfg hl hf hc hcc A B t p hp hsep hs (by simpa using hnan)

/-! ### the two forms of the shift -/

/-- on a non-empty occurrence that does not contain position `i` together with an earlier one, the shift of
the spans (`Hints.shiftOcc`) is "all or nothing" (`Hints.shiftFrom`) -/
theorem shiftOcc_eq_shiftFrom (i : Nat) (o : Occ) (hstrict : o.start < o.stop)
    (hcut : ¬ (o.start < i ∧ i < o.stop)) : Hints.shiftOcc i o = shiftFrom i o := by
  cases o with
  | mk a b tx v od =>
    simp only at hcut hstrict
    simp only [Hints.shiftOcc, shiftFrom, Hints.sA, Hints.sB]
    by_cases hle : i ≤ a
    · rw [if_pos ⟨hle, by omega⟩, if_pos (by omega), if_pos hle]
    · rw [if_neg (fun hh => hle hh.1), if_neg (by omega), if_neg hle]

/-- a token hinted "not a number part" after the prefix `A` is in no occurrence -/
theorem nan_cut (cfg : ScanCfg) (hl : LangOk cfg.lang) (A B : List Tok) (t : Tok) (hnan : t.nan = true)
    (occs : List Occ) (h : findNumbers cfg (A ++ t :: B) = .ok occs) :
    ∀ o ∈ occs, ¬ (o.start ≤ A.length ∧ A.length < o.stop) := by
  intro o ho hc
  exact findNumbers_cut cfg hl A B t (A.length + 1) A.length occs (Nat.le_refl _)
    (fun s s' _ hsc hsi he => push_nan_cut cfg s s' A.length t hsc hsi hnan he) h o ho ⟨by omega, hc.2⟩

end T2N.HintsNan
