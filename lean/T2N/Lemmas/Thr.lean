/-
  T2N.Lemmas.Thr — two runs of the scanner that differ only in the threshold: recognition (parser,
  positions, kinds) is identical; what is reported under the higher threshold is a sub-list of what is
  reported under the lower one.
-/
import T2N.Model.Scanner

namespace T2N

/-- same configuration up to the threshold test, the second hiding at least as much as the first -/
structure ThrLe (c1 c2 : ScanCfg) : Prop where
  lang : c1.lang = c2.lang
  cc : c1.cc = c2.cc
  sep : c1.sep = c2.sep
  le : ∀ n, c1.thrLt n = true → c2.thrLt n = true

def TrRel (t1 t2 : Tracker) : Prop :=
  t1.mstart = t2.mstart ∧ t1.mend = t2.mend ∧ t1.last = t2.last ∧
  t2.queue.Sublist t1.queue ∧ (t2.queue ++ t2.onHold.toList).Sublist (t1.queue ++ t1.onHold.toList)

def ThrRel (s1 s2 : Scanner) : Prop :=
  s1.parser = s2.parser ∧ s1.previous = s2.previous ∧ TrRel s1.tracker s2.tracker

theorem TrRel.advanced {t1 t2 : Tracker} (h : TrRel t1 t2) (pos : Nat) :
    TrRel (t1.advanced pos) (t2.advanced pos) := by
  obtain ⟨a, b, c, d, e⟩ := h
  unfold Tracker.advanced
  rw [a, b]
  exact ⟨rfl, rfl, c, d, e⟩

theorem TrRel.breaker {t1 t2 : Tracker} (h : TrRel t1 t2) : TrRel t1.breaker t2.breaker := by
  obtain ⟨a, b, _, d, e⟩ := h
  exact ⟨a, b, rfl, d, e⟩

theorem sublist_append_one {α} {a b : List α} (x : α) (h : a.Sublist b) : (a ++ [x]).Sublist (b ++ [x]) :=
  List.Sublist.append h (List.Sublist.refl _)

theorem TrRel.numberEnd {t1 t2 : Tracker} (h : TrRel t1 t2) (isOrd : Bool) (text : Word) (v : Value)
    (f1 f2 : Bool) (hf : f1 = true → f2 = true) :
    TrRel (t1.numberEnd isOrd text v f1) (t2.numberEnd isOrd text v f2) := by
  obtain ⟨a, b, c, d, e⟩ := h
  unfold Tracker.numberEnd
  dsimp only
  rw [a, b, c]
  generalize (if isOrd = true then Kind.ordinal else Kind.cardinal) = kind
  by_cases hc : (t2.last == kind) = true
  · rw [if_pos hc, if_pos hc]
    refine ⟨rfl, rfl, rfl, ?_, ?_⟩
    · dsimp only
      cases h1 : t1.onHold <;> cases h2 : t2.onHold <;> rw [h1, h2] at e <;>
        simp only [Option.toList, List.append_nil] at e ⊢ <;> exact sublist_append_one _ e
    · dsimp only
      cases h1 : t1.onHold <;> cases h2 : t2.onHold <;> rw [h1, h2] at e <;>
        simp only [Option.toList, List.append_nil] at e ⊢ <;> exact sublist_append_one _ e
  · rw [if_neg hc, if_neg hc]
    by_cases h1 : f1 = true
    · have h2 := hf h1
      rw [if_pos h1, if_pos h2]
      refine ⟨rfl, rfl, rfl, d, ?_⟩
      dsimp only
      simp only [Option.toList]
      exact sublist_append_one _ d
    · rw [if_neg h1]
      by_cases h2 : f2 = true
      · rw [if_pos h2]
        refine ⟨rfl, rfl, rfl, ?_, ?_⟩
        · dsimp only; exact d.trans (List.sublist_append_left _ _)
        · dsimp only; simp only [Option.toList, List.append_nil]; exact sublist_append_one _ d
      · rw [if_neg h2]
        refine ⟨rfl, rfl, rfl, ?_, ?_⟩
        · dsimp only; exact sublist_append_one _ d
        · dsimp only; simp only [Option.toList, List.append_nil]; exact sublist_append_one _ d

def ThrRes : Except Fault Scanner → Except Fault Scanner → Prop
  | .ok a, .ok b => ThrRel a b
  | .error f, .error g => f = g
  | _, _ => False

theorem small_le {c1 c2 : ScanCfg} (h : ThrLe c1 c2) (v : Value) (hs : c1.small v = true) : c2.small v = true := by
  cases v with
  | dec i f => cases f with
    | nil => exact h.le _ hs
    | cons x xs => cases hs
  | recip i => cases hs

theorem numberEnd_thr {c1 c2 : ScanCfg} (h : ThrLe c1 c2) {s1 s2 : Scanner} (hs : ThrRel s1 s2) :
    ThrRes (s1.numberEnd c1) (s2.numberEnd c2) := by
  obtain ⟨hp, hprev, ht⟩ := hs
  unfold Scanner.numberEnd
  rw [hp, h.lang]
  cases hfin : s2.parser.finish c2.lang with
  | error f => rfl
  | ok r =>
    obtain ⟨text, value⟩ := r
    refine ⟨rfl, hprev, ?_⟩
    apply TrRel.numberEnd ht
    intro hf
    simp only [Bool.and_eq_true] at hf ⊢
    exact ⟨hf.1, small_le h value hf.2⟩

theorem outside_thr {c1 c2 : ScanCfg} (h : ThrLe c1 c2) {s1 s2 : Scanner} (hs : ThrRel s1 s2) (tok : Tok) :
    ThrRel (s1.outside c1 tok) (s2.outside c2 tok) := by
  obtain ⟨hp, hprev, ht⟩ := hs
  unfold Scanner.outside
  rw [h.cc, h.lang]
  split
  · exact ⟨hp, hprev, ht.breaker⟩
  · exact ⟨hp, hprev, ht⟩

theorem setPrev_thr {s1 s2 : Scanner} (hs : ThrRel s1 s2) (p : Option Tok) :
    ThrRel { s1 with previous := p } { s2 with previous := p } := ⟨hs.1, rfl, hs.2.2⟩

theorem setParser_thr {s1 s2 : Scanner} (hs : ThrRel s1 s2) (p : Parser) :
    ThrRel { s1 with parser := p } { s2 with parser := p } := ⟨rfl, hs.2.1, hs.2.2⟩

theorem pushNan_thr {c1 c2 : ScanCfg} (h : ThrLe c1 c2) {s1 s2 : Scanner} (hs : ThrRel s1 s2) (tok : Tok) :
    ThrRes (Scanner.pushNan c1 s1 tok) (Scanner.pushNan c2 s2 tok) := by
  unfold Scanner.pushNan
  rw [hs.1]
  by_cases hn : s2.parser.hasNumber = true
  · simp only [hn, if_true]
    have := numberEnd_thr h hs
    cases h1 : s1.numberEnd c1 with
    | error f =>
      cases h2 : s2.numberEnd c2 with
      | error g => rw [h1, h2] at this; exact this
      | ok b => rw [h1, h2] at this; cases this
    | ok a =>
      cases h2 : s2.numberEnd c2 with
      | error g => rw [h1, h2] at this; cases this
      | ok b => rw [h1, h2] at this; exact setPrev_thr (outside_thr h this tok) _
  · simp only [hn, Bool.false_eq_true, if_false]
    exact setPrev_thr (outside_thr h hs tok) _

theorem pushRejected_thr {c1 c2 : ScanCfg} (h : ThrLe c1 c2) {s1 s2 : Scanner} (hs : ThrRel s1 s2)
    (pos : Nat) (tok : Tok) :
    ThrRes (Scanner.pushRejected c1 s1 pos tok) (Scanner.pushRejected c2 s2 pos tok) := by
  unfold Scanner.pushRejected
  rw [hs.1]
  by_cases hn : s2.parser.hasNumber = true
  · simp only [hn, if_true]
    have := numberEnd_thr h hs
    cases h1 : s1.numberEnd c1 with
    | error f =>
      cases h2 : s2.numberEnd c2 with
      | error g => rw [h1, h2] at this; exact this
      | ok b => rw [h1, h2] at this; cases this
    | ok a =>
      cases h2 : s2.numberEnd c2 with
      | error g => rw [h1, h2] at this; cases this
      | ok b =>
        rw [h1, h2] at this
        obtain ⟨tp, tprev, tt⟩ := this
        dsimp only
        rw [tp, h.lang]
        split
        · exact ⟨rfl, rfl, tt.advanced pos⟩
        · split
          · exact setPrev_thr (setParser_thr ⟨tp, tprev, tt⟩ _) _
          · exact setPrev_thr (outside_thr h (setParser_thr ⟨tp, tprev, tt⟩ _) tok) _
  · simp only [hn, Bool.false_eq_true, if_false]
    exact setPrev_thr (outside_thr h hs tok) _

theorem push_thr {c1 c2 : ScanCfg} (h : ThrLe c1 c2) {s1 s2 : Scanner} (hs : ThrRel s1 s2)
    (pos : Nat) (tok : Tok) : ThrRes (s1.push c1 pos tok) (s2.push c2 pos tok) := by
  unfold Scanner.push
  have hsk : Scanner.isSkipped c1 tok = Scanner.isSkipped c2 tok := by
    unfold Scanner.isSkipped; rw [h.cc]
  rw [hsk]
  by_cases hs' : Scanner.isSkipped c2 tok = true
  · simp only [hs', if_true]; exact hs
  simp only [hs', Bool.false_eq_true, if_false]
  by_cases hnan : tok.nan = true
  · simp only [hnan, if_true]; exact pushNan_thr h hs tok
  simp only [hnan, Bool.false_eq_true, if_false]
  have htw : Scanner.testWord c1 s1 tok = Scanner.testWord c2 s2 tok := by
    unfold Scanner.testWord; rw [hs.2.1, hs.1, h.sep]
  rw [htw, hs.1, h.lang]
  cases hr : (s2.parser.push c2.lang (Scanner.testWord c2 s2 tok)).1 with
  | none => exact ⟨rfl, rfl, hs.2.2.advanced pos⟩
  | some e =>
    cases e with
    | incomplete => exact ⟨rfl, rfl, hs.2.2⟩
    | overlap => exact pushRejected_thr h (setParser_thr hs _) pos tok
    | nan => exact pushRejected_thr h (setParser_thr hs _) pos tok
    | frozen => exact pushRejected_thr h (setParser_thr hs _) pos tok

theorem pushAll_thr {c1 c2 : ScanCfg} (h : ThrLe c1 c2) (rest : List (Nat × Tok)) :
    ∀ {s1 s2 : Scanner}, ThrRel s1 s2 → ThrRes (Scanner.pushAll c1 s1 rest) (Scanner.pushAll c2 s2 rest) := by
  induction rest with
  | nil => intro s1 s2 hs; exact hs
  | cons pt rest ih =>
    intro s1 s2 hs
    obtain ⟨pos, tok⟩ := pt
    simp only [Scanner.pushAll]
    have := push_thr h hs pos tok
    cases h1 : s1.push c1 pos tok with
    | error f =>
      cases h2 : s2.push c2 pos tok with
      | error g => rw [h1, h2] at this; exact this
      | ok b => rw [h1, h2] at this; cases this
    | ok a =>
      cases h2 : s2.push c2 pos tok with
      | error g => rw [h1, h2] at this; cases this
      | ok b => rw [h1, h2] at this; exact ih this

/-- **raising the threshold never adds a rewrite**: what is reported under the higher threshold is a
sub-list (same occurrences, same order, some left out) of what is reported under the lower one -/
theorem findNumbers_thr_sublist {c1 c2 : ScanCfg} (h : ThrLe c1 c2) (toks : List Tok)
    (o1 o2 : List Occ) (h1 : findNumbers c1 toks = .ok o1) (h2 : findNumbers c2 toks = .ok o2) :
    o2.Sublist o1 := by
  unfold findNumbers at h1 h2
  have hr := pushAll_thr h (enumFrom 0 toks) (s1 := {}) (s2 := {}) ⟨rfl, rfl, rfl, rfl, rfl, List.Sublist.refl _, List.Sublist.refl _⟩
  cases ha : Scanner.pushAll c1 {} (enumFrom 0 toks) with
  | error f => rw [ha] at h1; cases h1
  | ok a =>
    cases hb : Scanner.pushAll c2 {} (enumFrom 0 toks) with
    | error g => rw [hb] at h2; cases h2
    | ok b =>
      rw [ha, hb] at hr
      rw [ha] at h1
      rw [hb] at h2
      dsimp only at h1 h2
      unfold Scanner.finalize at h1 h2
      rw [hr.1] at h1
      by_cases hn : b.parser.hasNumber = true
      · rw [if_pos hn] at h1 h2
        have := numberEnd_thr h hr
        cases e1 : a.numberEnd c1 with
        | error f => rw [e1] at h1; cases h1
        | ok a' =>
          cases e2 : b.numberEnd c2 with
          | error g => rw [e2] at h2; cases h2
          | ok b' =>
            rw [e1, e2] at this
            rw [e1] at h1; rw [e2] at h2
            cases h1; cases h2
            exact this.2.2.2.2.2.1
      · rw [if_neg hn] at h1 h2
        cases h1; cases h2
        exact hr.2.2.2.2.2.1

end T2N
