/-
  T2N.Lemmas.Finite — lifting exhaustive kernel-checked tables to universally quantified statements.
-/
namespace T2N

/-- `f n` for every `n` in `[lo, lo+len)` -/
def checkRange (f : Nat → Bool) (lo len : Nat) : Bool :=
  match len with
  | 0 => true
  | len + 1 => f lo && checkRange f (lo + 1) len

theorem checkRange_spec (f : Nat → Bool) : ∀ (len lo : Nat), checkRange f lo len = true →
    ∀ n, lo ≤ n → n < lo + len → f n = true := by
  intro len
  induction len with
  | zero => intro lo _ n h1 h2; omega
  | succ len ih =>
    intro lo h n h1 h2
    simp only [checkRange, Bool.and_eq_true] at h
    by_cases hn : n = lo
    · subst hn; exact h.1
    · exact ih (lo + 1) h.2 n (by omega) (by omega)

/-- a small, fully explicit `CharClasses`-like classification used for kernel-evaluated instance
tables (spaces / ASCII punctuation / everything else is a letter) -/
def simpleIsWs (c : Char) : Bool := c == ' ' || c == '\t' || c == '\n'
def simpleIsPunct (c : Char) : Bool :=
  c == ',' || c == '.' || c == ';' || c == ':' || c == '!' || c == '?' || c == '-' || c == '\'' || c == '(' || c == ')'
def simpleIsDigit (c : Char) : Bool := '0' ≤ c && c ≤ '9'

end T2N
