/-
  T2N.Lemmas.C01Text — C01 at the TEXT level: a spelled cardinal standing in a sentence (words joined by
  single spaces) is rewritten by `replace_numbers_in_text` as the decimal digits of the number, the other
  words being kept.

  A. the tokenizer on `joinWords ws` (every word a single token) gives `wordTokens ws`;
  B. the splice of the single occurrence gives `joinWords (pre ++ [digits] ++ post)`;
  C. the scanner on `wordTokens (pre ++ ws ++ post)` for any character classes (from the validator theorems,
     by `Lift.valid_is_one_sentence`), and for any threshold under which the number is not "small";
  D. words over the alphabet of the seven languages (first character a letter, then letters or `-`) are single
     lower-case tokens; that every word of `Spec.<L>.cardinal v n` is such a word is proved language by
     language in T2N/Lemmas/C01Text/{En,Es,Pt,It,De,Nl,FrOver}.lean;
  E. the annotation passes (en: `o`, fr: `neuf`) leave tokens that do not concern them untouched; the French
     pass on a spelled cardinal is analysed in T2N/Lemmas/C01Text/Fr.lean (a `neuf` with a number-word
     neighbour is never marked) and FrKept.lean (the lone `neuf` of 9 is marked exactly when the words
     before it say so). T2N/Lemmas/C01Text/Assemble.lean puts A–D together.
-/
import T2N.Lemmas.C01Sent
import T2N.Lemmas.ResetText
import T2N.Lemmas.Policy
import T2N.Model.Api

namespace T2N.C01Text
open T2N T2N.Lift T2N.Spec

/-! ## A. the tokenizer on a sentence given as words -/

/-- a word that the tokenizer keeps as ONE word token: first character alphanumeric, the others
alphanumeric or `-` or `'` -/
def isTokWord (cc : CharClasses) : Word → Bool
  | [] => false
  | c :: cs => cc.isAlphanumeric c && cs.all (isWordChar cc)

/-- a word that is one token and its own lowercase copy -/
def isPlainWord (cc : CharClasses) (w : Word) : Bool := isTokWord cc w && cc.lowerStr w == w

/-- what the theorems of this file need of the character classes (true of Rust's `char` methods) -/
structure TextLaws (cc : CharClasses) : Prop where
  space_ws : cc.isWhitespace ' ' = true
  space_lower : cc.lower ' ' = [' ']
  ws_not_alnum : ∀ c, cc.isWhitespace c = true → cc.isAlphanumeric c = false
  hyphen_not_alnum : cc.isAlphanumeric '-' = false
  hyphen_lower : cc.lower '-' = ['-']

theorem TextLaws.space_not_alnum {cc : CharClasses} (L : TextLaws cc) : cc.isAlphanumeric ' ' = false :=
  L.ws_not_alnum ' ' L.space_ws

theorem TextLaws.space_not_wordChar {cc : CharClasses} (L : TextLaws cc) : isWordChar cc ' ' = false := by
  unfold isWordChar
  rw [L.space_not_alnum]
  rfl

/-- the words with a single-space word between them -/
def sepWords : List Word → List Word
  | [] => []
  | [w] => [w]
  | w :: w2 :: ws => w :: [' '] :: sepWords (w2 :: ws)

theorem wordTokens_eq_map : ∀ ws : List Word, wordTokens ws = (sepWords ws).map wtok
  | [] => rfl
  | [_] => rfl
  | w :: w2 :: ws => by
    show wtok w :: sp :: wordTokens (w2 :: ws) = _
    rw [wordTokens_eq_map (w2 :: ws)]
    rfl

theorem aux_run (cc : CharClasses) : ∀ (cs cur rest : Word), cs.all (isWordChar cc) = true →
    tokenizeAux cc (some true) cur (cs ++ rest) = tokenizeAux cc (some true) (cs.reverse ++ cur) rest := by
  intro cs
  induction cs with
  | nil => intro cur rest _; rfl
  | cons x xs ih =>
    intro cur rest h
    rw [List.all_cons, Bool.and_eq_true] at h
    rw [List.cons_append, ResetText.aux_true, if_pos h.1, ih (x :: cur) rest h.2, List.reverse_cons,
      List.append_assoc]
    rfl

theorem tokenizeWords_word (cc : CharClasses) (w : Word) (h : isTokWord cc w = true) :
    tokenizeWords cc w = [w] := by
  cases w with
  | nil => cases h
  | cons c cs =>
    unfold isTokWord at h
    rw [Bool.and_eq_true] at h
    rw [ResetText.tokenizeWords_cons, h.1]
    have := aux_run cc cs [c] [] h.2
    rw [List.append_nil] at this
    rw [this]
    have e : cs.reverse ++ [c] = (c :: cs).reverse := by rw [List.reverse_cons]
    rw [e]
    cases hr : (c :: cs).reverse with
    | nil => simp at hr
    | cons a t =>
      rw [ResetText.aux_nil, ← hr, List.reverse_reverse]

theorem tokenizeWords_word_space {cc : CharClasses} (L : TextLaws cc) (w : Word) (h : isTokWord cc w = true)
    (c2 : Char) (r : Word) (h2 : cc.isAlphanumeric c2 = true) :
    tokenizeWords cc (w ++ [' '] ++ c2 :: r) = w :: [' '] :: tokenizeWords cc (c2 :: r) := by
  cases w with
  | nil => cases h
  | cons c cs =>
    unfold isTokWord at h
    rw [Bool.and_eq_true] at h
    rw [List.append_assoc, List.cons_append, ResetText.tokenizeWords_cons, h.1, aux_run cc cs [c] _ h.2]
    have e : cs.reverse ++ [c] = (c :: cs).reverse := by rw [List.reverse_cons]
    rw [e, List.singleton_append, ResetText.aux_true, if_neg (by rw [L.space_not_wordChar]; exact Bool.false_ne_true),
      List.reverse_reverse, ResetText.aux_false, if_pos h2, ResetText.tokenizeWords_cons, h2]
    rfl

theorem isTokWord_head {cc : CharClasses} {w : Word} (h : isTokWord cc w = true) :
    ∃ c cs, w = c :: cs ∧ cc.isAlphanumeric c = true := by
  cases w with
  | nil => cases h
  | cons c cs =>
    unfold isTokWord at h
    rw [Bool.and_eq_true] at h
    exact ⟨c, cs, rfl, h.1⟩

theorem joinWords_cons2 (w w2 : Word) (ws : List Word) :
    joinWords (w :: w2 :: ws) = w ++ [' '] ++ joinWords (w2 :: ws) := rfl

theorem joinWords_head (w : Word) (ws : List Word) : ∃ r, joinWords (w :: ws) = w ++ r := by
  cases ws with
  | nil => exact ⟨[], (List.append_nil _).symm⟩
  | cons w2 t => exact ⟨[' '] ++ joinWords (w2 :: t), by rw [joinWords_cons2, List.append_assoc]⟩

/-- **the tokenizer on a sentence**: words that are single tokens, joined by single spaces -/
theorem tokenizeWords_join {cc : CharClasses} (L : TextLaws cc) : ∀ (ws : List Word),
    (∀ w ∈ ws, isTokWord cc w = true) → tokenizeWords cc (joinWords ws) = sepWords ws
  | [], _ => rfl
  | [w], h => tokenizeWords_word cc w (h w (List.mem_singleton.mpr rfl))
  | w :: w2 :: ws, h => by
    have hw := h w (List.mem_cons_self ..)
    have hw2 := h w2 (List.mem_cons_of_mem _ (List.mem_cons_self ..))
    obtain ⟨c2, cs2, e2, ha2⟩ := isTokWord_head hw2
    obtain ⟨r, hr⟩ := joinWords_head w2 ws
    have ih := tokenizeWords_join L (w2 :: ws) (fun x hx => h x (List.mem_cons_of_mem _ hx))
    rw [joinWords_cons2]
    have e : joinWords (w2 :: ws) = c2 :: (cs2 ++ r) := by rw [hr, e2]; rfl
    rw [e] at ih ⊢
    rw [tokenizeWords_word_space L w hw c2 _ ha2, ih]
    rfl

theorem lowerStr_space {cc : CharClasses} (L : TextLaws cc) : cc.lowerStr [' '] = [' '] := by
  show List.flatMap cc.lower [' '] = _
  rw [List.flatMap_cons, List.flatMap_nil, List.append_nil, L.space_lower]

theorem isPlainWord_tok {cc : CharClasses} {w : Word} (h : isPlainWord cc w = true) : isTokWord cc w = true := by
  unfold isPlainWord at h
  rw [Bool.and_eq_true] at h
  exact h.1

theorem isPlainWord_lower {cc : CharClasses} {w : Word} (h : isPlainWord cc w = true) : cc.lowerStr w = w := by
  unfold isPlainWord at h
  rw [Bool.and_eq_true] at h
  exact eq_of_beq h.2

theorem map_basicToken_sepWords {cc : CharClasses} (L : TextLaws cc) : ∀ (ws : List Word),
    (∀ w ∈ ws, cc.lowerStr w = w) → (sepWords ws).map (basicToken cc) = (sepWords ws).map wtok
  | [], _ => rfl
  | [w], h => by
    show [basicToken cc w] = [wtok w]
    unfold basicToken wtok
    rw [h w (List.mem_singleton.mpr rfl)]
  | w :: w2 :: ws, h => by
    have ih := map_basicToken_sepWords L (w2 :: ws) (fun x hx => h x (List.mem_cons_of_mem _ hx))
    show basicToken cc w :: basicToken cc [' '] :: (sepWords (w2 :: ws)).map (basicToken cc) = _
    rw [ih]
    unfold basicToken wtok
    rw [h w (List.mem_cons_self ..), lowerStr_space L]
    rfl

/-- **A**: the tokens of a sentence given as plain words -/
theorem tokenize_join {cc : CharClasses} (L : TextLaws cc) (ws : List Word)
    (h : ∀ w ∈ ws, isPlainWord cc w = true) : tokenize cc (joinWords ws) = wordTokens ws := by
  unfold tokenize
  rw [tokenizeWords_join L ws (fun w hw => isPlainWord_tok (h w hw)),
    map_basicToken_sepWords L ws (fun w hw => isPlainWord_lower (h w hw)), wordTokens_eq_map]

/-! ## B. the splice -/

theorem flatMap_text_preToks : ∀ (pre : List Word) (r : List Word), r ≠ [] →
    (preToks pre).flatMap (·.text) ++ joinWords r = joinWords (pre ++ r)
  | [], _, _ => rfl
  | p :: pre, r, hr => by
    have ih := flatMap_text_preToks pre r hr
    obtain ⟨x, t, hx⟩ := List.exists_cons_of_ne_nil (show pre ++ r ≠ [] by simp [hr])
    show (p ++ ([' '] ++ (preToks pre).flatMap (·.text))) ++ joinWords r = joinWords (p :: (pre ++ r))
    rw [hx, joinWords_cons2, ← hx, ← ih]
    simp only [List.append_assoc]

theorem flatMap_text_postToks : ∀ (post : List Word) (w : Word) (a : List Word),
    joinWords (a ++ [w]) ++ (postToks post).flatMap (·.text) = joinWords (a ++ [w] ++ post)
  | [], w, a => by
    show joinWords (a ++ [w]) ++ [] = _
    rw [List.append_nil, List.append_nil]
  | q :: post, w, a => by
    have ih := flatMap_text_postToks post q (a ++ [w])
    show joinWords (a ++ [w]) ++ ([' '] ++ (q ++ (postToks post).flatMap (·.text))) = _
    have e1 : a ++ [w] ++ q :: post = a ++ [w] ++ [q] ++ post := by simp
    rw [e1, ← ih]
    have e2 : joinWords (a ++ [w] ++ [q]) = joinWords (a ++ [w]) ++ [' '] ++ q := by
      clear ih e1
      induction a with
      | nil => show w ++ [' '] ++ q = w ++ [' '] ++ q; rfl
      | cons x a iha =>
        obtain ⟨y, t, hy⟩ := List.exists_cons_of_ne_nil (show a ++ [w] ≠ [] by simp)
        have hy2 : a ++ [w] ++ [q] = y :: (t ++ [q]) := by rw [hy]; rfl
        show joinWords (x :: (a ++ [w] ++ [q])) = joinWords (x :: (a ++ [w])) ++ [' '] ++ q
        rw [hy2, joinWords_cons2, ← hy2, iha, hy, joinWords_cons2]
        simp only [List.append_assoc]
    rw [e2]
    simp only [List.append_assoc]

/-- **B**: replacing the tokens of the phrase `ws` by one token with text `d` -/
theorem splice_text (mk : List Tok → Word → Tok) (hmk : ∀ ts d, (mk ts d).text = d)
    (pre ws post : List Word) (hne : ws ≠ []) (d : Word) (v : Value) (o : Bool) :
    ∃ out, replaceStream mk (wordTokens (pre ++ ws ++ post))
        [⟨2 * pre.length, 2 * pre.length + (2 * ws.length - 1), d, v, o⟩] = .ok out ∧
      out.flatMap (·.text) = joinWords (pre ++ [d] ++ post) := by
  have htoks : wordTokens (pre ++ ws ++ post) = preToks pre ++ wordTokens ws ++ postToks post := by
    rw [List.append_assoc, wordTokens_pre pre (ws ++ post) (by simp [hne]), wordTokens_post ws post hne,
      List.append_assoc]
  have hl1 : (preToks pre).length = 2 * pre.length := length_preToks pre
  have hl2 : (wordTokens ws).length = 2 * ws.length - 1 := length_wordTokens ws
  unfold replaceStream
  rw [List.reverse_singleton, replaceAll, replaceOne]
  dsimp only
  have hcond : (decide (2 * pre.length ≤ 2 * pre.length + (2 * ws.length - 1)) &&
      decide (2 * pre.length + (2 * ws.length - 1) ≤ (wordTokens (pre ++ ws ++ post)).length)) = true := by
    rw [htoks]
    simp only [List.length_append, hl1, hl2, Bool.and_eq_true, decide_eq_true_eq]
    omega
  rw [if_pos hcond]
  dsimp only [replaceAll]
  refine ⟨_, rfl, ?_⟩
  have htake : (wordTokens (pre ++ ws ++ post)).take (2 * pre.length) = preToks pre := by
    rw [htoks, List.append_assoc, ← hl1, List.take_left']
    rfl
  have hdrop : (wordTokens (pre ++ ws ++ post)).drop (2 * pre.length + (2 * ws.length - 1)) = postToks post := by
    rw [htoks, ← hl1, ← hl2, ← List.length_append, List.drop_left']
    rfl
  rw [htake, hdrop]
  simp only [List.flatMap_append, List.flatMap_cons, List.flatMap_nil, List.append_nil, hmk]
  have h1 := flatMap_text_postToks post d []
  rw [List.nil_append] at h1
  have e : joinWords [d] = d := rfl
  rw [e] at h1
  rw [List.append_assoc, h1, flatMap_text_preToks pre ([d] ++ post) (by simp), List.append_assoc]

/-- **A + B**: the text-level statement from the token-level one -/
theorem replaceText_of_scan {cc : CharClasses} (L : TextLaws cc) (l : Language) (thr : Nat → Bool)
    (pre ws post : List Word) (hne : ws ≠ []) (d : Word) (v : Value) (o : Bool)
    (hplain : ∀ w ∈ pre ++ ws ++ post, isPlainWord cc w = true)
    (hann : l.annotate cc (wordTokens (pre ++ ws ++ post)) = wordTokens (pre ++ ws ++ post))
    (hscan : findNumbers { lang := l.interp, cc := cc, sep := noSep, thrLt := thr }
        (wordTokens (pre ++ ws ++ post)) =
      .ok [⟨2 * pre.length, 2 * pre.length + (2 * ws.length - 1), d, v, o⟩]) :
    replaceText cc l thr (joinWords (pre ++ ws ++ post)) = .ok (joinWords (pre ++ [d] ++ post)) := by
  unfold replaceText replaceTextWith
  dsimp only
  rw [tokenize_join L _ hplain, hann, hscan]
  dsimp only
  obtain ⟨out, h1, h2⟩ := splice_text (basicReplace cc) (fun _ _ => rfl) pre ws post hne d v o
  rw [h1]
  dsimp only
  rw [h2]

/-! ## C. the scanner, for any character classes and thresholds -/

theorem not_skipped_of_tokWord (cfg : ScanCfg) (L : TextLaws cfg.cc) (w : Word) (h : isTokWord cfg.cc w = true) :
    Scanner.isSkipped cfg (wtok w) = false := by
  cases w with
  | nil => cases h
  | cons c cs =>
    unfold isTokWord at h
    rw [Bool.and_eq_true] at h
    have hws : cfg.cc.isWhitespace c = false := by
      cases hc : cfg.cc.isWhitespace c with
      | false => rfl
      | true => rw [L.ws_not_alnum c hc] at h; cases h.1
    have hne : ((c :: cs) == ['-']) = false := by
      cases he : ((c :: cs) == ['-']) with
      | false => rfl
      | true =>
        have := eq_of_beq he
        injection this with h1 h2
        rw [h1, L.hyphen_not_alnum] at h
        cases h.1
    unfold Scanner.isSkipped wtok
    dsimp only
    rw [hne, List.all_cons, hws]
    rfl

/-- the first word of a phrase that validates is accepted by the fresh builder if it is not answered
`Incomplete` -/
theorem first_none_of_valid (l : Lang) (ws : List Word) (d : Word) (hval : text2digitsWords l ws = .ok d)
    (hfirst : ∀ w ∈ ws.head?, (l.apply w DS.new).1 ≠ some .incomplete) :
    ∀ w ∈ ws.head?, (l.apply w DS.new).1 = none := by
  obtain ⟨ds0, _, hx0, _, _⟩ := text2digitsWords_ok hval
  have hst := execGroupFrom_stepsOk _ _ _ _ _ hx0
  intro w hw
  cases ws with
  | nil => cases hw
  | cons w0 t =>
    have : w = w0 := by simpa using hw.symm
    subst this
    rcases hst.1 with h | h
    · exact h
    · exact absurd h (hfirst w (by simp))

theorem ne_nil_of_valid (l : Lang) (ws : List Word) (d : Word) (hval : text2digitsWords l ws = .ok d) :
    ws ≠ [] := by
  intro hnil
  subst hnil
  obtain ⟨ds, v, hx, hemp, _⟩ := text2digitsWords_ok hval
  simp only [execGroup, execGroupFrom, Bool.false_eq_true, if_false] at hx
  cases hx; cases hemp

/-- **C (threshold 0)**: a phrase that validates to the decimal digits of `n`, whose words are single tokens,
between refused words: one occurrence — for any character classes satisfying `TextLaws` -/
theorem scan_cc (cfg : ScanCfg) (hmem : cfg.lang ∈ allLangs) (hl : LangAgree cfg.lang)
    (hsep : ∀ x y, cfg.sep x y = false) (hthr : ∀ n, cfg.thrLt n = false) (L : TextLaws cfg.cc)
    (ws : List Word) (n : Nat) (hval : text2digitsWords cfg.lang ws = .ok (decChars n))
    (hfirst : ∀ w ∈ ws.head?, (cfg.lang.apply w DS.new).1 = none)
    (htok : ∀ w ∈ ws, isTokWord cfg.cc w = true)
    (pre post : List Word) (hpre : ∀ w ∈ pre, cfg.lang.Rejects w) (hpost : ∀ w ∈ post, cfg.lang.Rejects w) :
    findNumbers cfg (wordTokens (pre ++ ws ++ post)) =
      .ok [⟨2 * pre.length, 2 * pre.length + (2 * ws.length - 1), decChars n,
        .dec (decDigits n) [], false⟩] := by
  have hws : ∀ w ∈ ws, Scanner.isSkipped cfg (wtok w) = false ∧ cfg.lang.isDecSep w = false :=
    fun w hw => ⟨not_skipped_of_tokWord cfg L w (htok w hw),
      nosep_of_valid_builtin cfg.lang hmem ws _ hval w hw⟩
  obtain ⟨ds, val, hx, hf, hfind⟩ := valid_is_one_sentence cfg hl hsep hthr L.space_ws pre ws post (decChars n)
    (fun w hw => Or.inr (Or.inr (not_accepted_of_rejects _ _ (hpre w hw))))
    (fun w hw => Or.inr (Or.inr (hpost w hw))) hws hfirst hval
  obtain ⟨h1, h2⟩ := C01Sent.value_of_format cfg.lang ds n val hf
  rw [hfind, h1, h2]

/-! ### any threshold under which the number is not small -/

theorem keptGo_of_not_small (cfg : ScanCfg) : ∀ (evs : List Ev) (prev : Option Ev),
    (∀ o ∈ nums evs, smallEv cfg o = false) → keptGo cfg prev evs = nums evs
  | [], _, _ => rfl
  | .brk :: rest, _, h => by
    simp only [keptGo, nums]
    exact keptGo_of_not_small cfg rest _ (fun o ho => h o (by simpa only [nums] using ho))
  | .num o :: rest, prev, h => by
    have ho : smallEv cfg o = false := h o (by simp only [nums]; exact List.mem_cons_self ..)
    simp only [keptGo, nums, ho, Bool.not_false, Bool.true_or, if_true]
    rw [keptGo_of_not_small cfg rest _ (fun p hp => h p (by simp only [nums]; exact List.mem_cons_of_mem _ hp))]
    rfl

/-- what is reported at threshold 0 is reported at any threshold under which none of it is small -/
theorem findNumbers_of_not_small (c0 c : ScanCfg) (hl : c0.lang = c.lang) (hc : c0.cc = c.cc) (hs : c0.sep = c.sep)
    (h0 : ∀ n, c0.thrLt n = false) (toks : List Tok) (occs : List Occ)
    (h : findNumbers c0 toks = .ok occs) (hsm : ∀ o ∈ occs, smallEv c o = false) :
    findNumbers c toks = .ok occs := by
  obtain ⟨evs, he⟩ := events_ok c0 toks
  have he' : events c toks = .ok evs := by rw [← events_thr c0 c hl hc hs]; exact he
  have e0 : findNumbers c0 toks = .ok (nums evs) := by
    rw [findNumbers_eq_kept c0 toks evs he, keptList_all c0 h0]
  rw [h] at e0
  have e0' : occs = nums evs := by injection e0
  rw [findNumbers_eq_kept c toks evs he', ← keptGo_eq_keptList,
    keptGo_of_not_small c evs none (by rw [← e0']; exact hsm), e0']

theorem valueOfMSB_snoc (ds : List Nat) (d : Nat) : valueOfMSB (ds ++ [d]) = valueOfMSB ds * 10 + d := by
  unfold valueOfMSB
  rw [List.foldl_append]
  rfl

theorem valueOfMSB_decDigits (n : Nat) : valueOfMSB (decDigits n) = n := by
  induction n using Nat.strongRecOn with
  | _ n ih =>
    rw [decDigits]
    by_cases h : n < 10
    · rw [if_pos h]
      show 0 * 10 + n = n
      omega
    · rw [if_neg h, valueOfMSB_snoc, ih (n / 10) (by omega)]
      omega

theorem length_decDigits_ge (n : Nat) (h : 10 ≤ n) : 2 ≤ (decDigits n).length := by
  rw [decDigits, if_neg (by omega), List.length_append]
  have : 1 ≤ (decDigits (n / 10)).length := by
    rw [decDigits]
    split
    · simp
    · rw [List.length_append]; simp
  simp only [List.length_cons, List.length_nil]
  omega

theorem utf8Len_decChars (n : Nat) : utf8Len (decChars n) = (decDigits n).length := by
  unfold utf8Len decChars
  have : ∀ (l : List Nat), (∀ d ∈ l, d < 10) → ((l.map digitChar).map (fun c => c.utf8Size)).sum = l.length := by
    intro l
    induction l with
    | nil => intro _; rfl
    | cons a t ih =>
      intro h
      have ha : (digitChar a).utf8Size = 1 := by
        have : ∀ d, d < 10 → (digitChar d).utf8Size = 1 := by decide
        exact this a (h a (List.mem_cons_self ..))
      simp only [List.map_cons, List.sum_cons, List.length_cons, ha]
      rw [ih (fun d hd => h d (List.mem_cons_of_mem _ hd))]
      omega
  exact this _ (C01Sent.decDigits_lt n)

/-- the occurrence of the cardinal `n` is not "small" when `n ≥ 10` or `n` is not below the threshold -/
theorem not_small_cardinal (cfg : ScanCfg) (n a e : Nat) (hthr : n < 10 → cfg.thrLt n = false) :
    smallEv cfg ⟨a, e, decChars n, .dec (decDigits n) [], false⟩ = false := by
  unfold smallEv
  dsimp only
  rw [utf8Len_decChars]
  by_cases h : n < 10
  · have : cfg.small (.dec (decDigits n) []) = false := by
      show cfg.thrLt (valueOfMSB (decDigits n)) = false
      rw [valueOfMSB_decDigits]
      exact hthr h
    rw [this, Bool.and_false]
  · have := length_decDigits_ge n (by omega)
    have e1 : ((decDigits n).length == 1) = false := by
      rw [beq_eq_false_iff_ne]; omega
    rw [e1]
    rfl

/-- **C (any threshold)** -/
theorem scan_cc_thr (cfg : ScanCfg) (hmem : cfg.lang ∈ allLangs) (hl : LangAgree cfg.lang)
    (hsep : ∀ x y, cfg.sep x y = false) (L : TextLaws cfg.cc)
    (ws : List Word) (n : Nat) (hthr : n < 10 → cfg.thrLt n = false)
    (hval : text2digitsWords cfg.lang ws = .ok (decChars n))
    (hfirst : ∀ w ∈ ws.head?, (cfg.lang.apply w DS.new).1 = none)
    (htok : ∀ w ∈ ws, isTokWord cfg.cc w = true)
    (pre post : List Word) (hpre : ∀ w ∈ pre, cfg.lang.Rejects w) (hpost : ∀ w ∈ post, cfg.lang.Rejects w) :
    findNumbers cfg (wordTokens (pre ++ ws ++ post)) =
      .ok [⟨2 * pre.length, 2 * pre.length + (2 * ws.length - 1), decChars n,
        .dec (decDigits n) [], false⟩] := by
  have h0 := scan_cc { cfg with thrLt := fun _ => false } hmem hl hsep (fun _ => rfl) L ws n hval hfirst htok
    pre post hpre hpost
  refine findNumbers_of_not_small { cfg with thrLt := fun _ => false } cfg rfl rfl rfl (fun _ => rfl) _ _ h0 ?_
  intro o ho
  rw [List.mem_singleton] at ho
  subst ho
  exact not_small_cardinal cfg n _ _ hthr

/-- **A + B + C**: the text-level statement for a phrase that validates, any character classes, any threshold
under which the number is not small; `hann`: the annotation pass leaves the tokens alone -/
theorem replaceText_valid {cc : CharClasses} (L : TextLaws cc) (l : Language) (thr : Nat → Bool)
    (hmem : l.interp ∈ allLangs) (hl : LangAgree l.interp)
    (ws : List Word) (n : Nat) (hthr : n < 10 → thr n = false)
    (hval : text2digitsWords l.interp ws = .ok (decChars n))
    (hfirst : ∀ w ∈ ws.head?, (l.interp.apply w DS.new).1 = none)
    (pre post : List Word) (hpre : ∀ w ∈ pre, l.interp.Rejects w) (hpost : ∀ w ∈ post, l.interp.Rejects w)
    (hplain : ∀ w ∈ pre ++ ws ++ post, isPlainWord cc w = true)
    (hann : l.annotate cc (wordTokens (pre ++ ws ++ post)) = wordTokens (pre ++ ws ++ post)) :
    replaceText cc l thr (joinWords (pre ++ ws ++ post)) = .ok (joinWords (pre ++ [decChars n] ++ post)) := by
  refine replaceText_of_scan L l thr pre ws post (ne_nil_of_valid _ ws _ hval) (decChars n)
    (.dec (decDigits n) []) false hplain hann ?_
  exact scan_cc_thr { lang := l.interp, cc := cc, sep := noSep, thrLt := thr } hmem hl (fun _ _ => rfl) L ws n hthr
    hval hfirst (fun w hw => isPlainWord_tok (hplain w (by simp [hw]))) pre post hpre hpost

/-! ## D. words over the alphabet of the seven languages

The letters the seven spellers use (and a few more accented lower-case letters). The theorems about
arbitrary character classes assume that these are alphanumeric and lower case (`AlphaLaws`). -/

def alphabet : List Char := w!"abcdefghijklmnopqrstuvwxyzßàáâãäçèéêëíîïñóôõöùúûü"

def isLetter (c : Char) : Bool := alphabet.contains c

/-- letters only (possibly empty): a piece of a compound word -/
def isLetters (w : Word) : Bool := w.all isLetter

/-- a word over the alphabet: a letter, then letters or hyphens -/
def isOver : Word → Bool
  | [] => false
  | c :: cs => isLetter c && cs.all (fun x => isLetter x || x == '-')

def allOver (ws : List Word) : Bool := ws.all isOver

structure AlphaLaws (cc : CharClasses) : Prop where
  alnum : ∀ c, isLetter c = true → cc.isAlphanumeric c = true
  lower : ∀ c, isLetter c = true → cc.lower c = [c]

theorem isOver_of_letters {w : Word} (h : isLetters w = true) (hne : w ≠ []) : isOver w = true := by
  cases w with
  | nil => exact absurd rfl hne
  | cons c cs =>
    unfold isLetters at h
    rw [List.all_cons, Bool.and_eq_true] at h
    show (isLetter c && cs.all (fun x => isLetter x || x == '-')) = true
    rw [h.1, Bool.true_and, List.all_eq_true]
    intro x hx
    rw [List.all_eq_true.mp h.2 x hx]
    rfl

theorem isLetters_append {a b : Word} (ha : isLetters a = true) (hb : isLetters b = true) :
    isLetters (a ++ b) = true := by
  unfold isLetters at *
  rw [List.all_append, ha, hb]
  rfl

theorem isLetters_nil : isLetters [] = true := rfl

/-- `a-b` -/
theorem isOver_hyphen {a b : Word} (ha : isOver a = true) (hb : isOver b = true) :
    isOver (a ++ ['-'] ++ b) = true := by
  cases a with
  | nil => cases ha
  | cons c cs =>
    cases b with
    | nil => cases hb
    | cons d ds =>
      unfold isOver at *
      rw [Bool.and_eq_true] at ha hb
      simp only [List.cons_append, List.all_append, List.all_cons, List.all_nil, ha.1, ha.2, hb.1, hb.2,
        Bool.and_true, Bool.true_or, beq_self_eq_true, Bool.or_true]

/-- `ab` (the second part may contain hyphens, or be empty) -/
theorem isOver_append {a b : Word} (ha : isOver a = true) (hb : b.all (fun x => isLetter x || x == '-') = true) :
    isOver (a ++ b) = true := by
  cases a with
  | nil => cases ha
  | cons c cs =>
    unfold isOver at *
    rw [Bool.and_eq_true] at ha
    rw [List.cons_append]
    dsimp only
    rw [List.all_append, ha.1, ha.2, hb]
    rfl

theorem isOver_tail {b : Word} (hb : isOver b = true) : b.all (fun x => isLetter x || x == '-') = true := by
  cases b with
  | nil => cases hb
  | cons d ds =>
    unfold isOver at hb
    rw [Bool.and_eq_true] at hb
    rw [List.all_cons, hb.1, hb.2]
    rfl

theorem isLetters_tail {b : Word} (hb : isLetters b = true) : b.all (fun x => isLetter x || x == '-') = true := by
  rw [List.all_eq_true]
  intro x hx
  rw [List.all_eq_true.mp hb x hx]
  rfl

theorem allOver_nil : allOver [] = true := rfl

theorem allOver_cons (w : Word) (ws : List Word) : allOver (w :: ws) = (isOver w && allOver ws) := rfl

theorem allOver_append (a b : List Word) : allOver (a ++ b) = (allOver a && allOver b) := by
  unfold allOver
  rw [List.all_append]

theorem allOver_mem {ws : List Word} (h : allOver ws = true) : ∀ w ∈ ws, isOver w = true :=
  fun w hw => List.all_eq_true.mp h w hw

/-- a word over the alphabet is a single token and its own lowercase copy, for any character classes under
which the alphabet is made of lower-case alphanumeric characters -/
theorem isPlainWord_of_over {cc : CharClasses} (L : TextLaws cc) (A : AlphaLaws cc) {w : Word}
    (h : isOver w = true) : isPlainWord cc w = true := by
  cases w with
  | nil => cases h
  | cons c cs =>
    unfold isOver at h
    rw [Bool.and_eq_true] at h
    have htail : ∀ x ∈ cs, isWordChar cc x = true ∧ cc.lower x = [x] := by
      intro x hx
      have := List.all_eq_true.mp h.2 x hx
      rw [Bool.or_eq_true] at this
      rcases this with hl | hh
      · exact ⟨ResetText.alnum_wordChar cc x (A.alnum x hl), A.lower x hl⟩
      · have : x = '-' := eq_of_beq hh
        subst this
        exact ⟨by unfold isWordChar; simp, L.hyphen_lower⟩
    show ((cc.isAlphanumeric c && cs.all (isWordChar cc)) && cc.lowerStr (c :: cs) == c :: cs) = true
    rw [A.alnum c h.1, Bool.true_and, Bool.and_eq_true]
    refine ⟨List.all_eq_true.mpr (fun x hx => (htail x hx).1), ?_⟩
    rw [beq_iff_eq]
    show List.flatMap cc.lower (c :: cs) = c :: cs
    rw [List.flatMap_cons, A.lower c h.1]
    have : ∀ (l : Word), (∀ x ∈ l, cc.lower x = [x]) → List.flatMap cc.lower l = l := by
      intro l
      induction l with
      | nil => intro _; rfl
      | cons y t ih =>
        intro hl
        rw [List.flatMap_cons, hl y (List.mem_cons_self ..), ih (fun x hx => hl x (List.mem_cons_of_mem _ hx))]
        rfl
    rw [this cs (fun x hx => (htail x hx).2)]
    rfl

/-! ### the explicit classes `simpleCC` satisfy the laws -/

theorem simple_textLaws : TextLaws simpleCC where
  space_ws := rfl
  space_lower := rfl
  ws_not_alnum := by
    intro c h
    show (!simpleIsWs c && !simpleIsPunct c) = false
    have : simpleIsWs c = true := h
    rw [this]
    rfl
  hyphen_not_alnum := by decide
  hyphen_lower := rfl

theorem simple_alphaLaws : AlphaLaws simpleCC where
  alnum := by
    have : (alphabet.all fun c => simpleCC.isAlphanumeric c) = true := by decide
    intro c hc
    unfold isLetter at hc
    exact List.all_eq_true.mp this c (List.contains_iff_mem.mp hc)
  lower := fun _ _ => rfl

/-! ## E. the annotation passes on tokens that do not concern them -/

theorem lowerAt_cases (toks : List Tok) (i : Nat) : lowerAt toks i = [] ∨ ∃ t ∈ toks, lowerAt toks i = t.lower := by
  unfold lowerAt
  by_cases h : i < toks.length
  · right
    refine ⟨toks[i], List.getElem_mem h, ?_⟩
    rw [List.getD_eq_getElem?_getD, List.getElem?_eq_getElem h]
    rfl
  · left
    rw [List.getD_eq_getElem?_getD, List.getElem?_eq_none (by omega)]
    rfl

/-- the English pass only touches tokens whose lowercase copy is `o` -/
theorem annotateEn_id (cc : CharClasses) (apply : Word → DS → Res × DS) (toks : List Tok)
    (h : ∀ t ∈ toks, (t.lower == ['o']) = false) : annotateEn cc apply toks = toks := by
  unfold annotateEn
  dsimp only
  apply ResetText.enLoop_no_o
  intro i _
  rcases lowerAt_cases toks i with e | ⟨t, ht, e⟩
  · rw [e]; rfl
  · rw [e]; exact h t ht

theorem annotateEn_wordTokens (cc : CharClasses) (apply : Word → DS → Res × DS) (ws : List Word)
    (h : ∀ w ∈ ws, w ≠ ['o']) : annotateEn cc apply (wordTokens ws) = wordTokens ws := by
  apply annotateEn_id
  intro t ht
  rcases mem_wordTokens ht with rfl | ⟨w, hw, rfl⟩
  · rfl
  · show (w == ['o']) = false
    rw [beq_eq_false_iff_ne]
    exact h w hw

/-- the French pass leaves the tokens alone when every decision is negative -/
theorem frLoop_id (apply : Word → DS → Res × DS) (isDecSep : Word → Bool) (tw : List Nat) :
    ∀ (amb : List Nat) (b : DS) (toks : List Tok),
      (∀ i ∈ amb, ResetText.frDec apply isDecSep tw i toks = false) →
      annotateFrLoop apply isDecSep tw amb b toks = toks := by
  intro amb
  induction amb with
  | nil => intro b toks _; rfl
  | cons i rest ih =>
    intro b toks h
    rw [ResetText.frLoop_step, h i (List.mem_cons_self ..), if_neg Bool.false_ne_true]
    exact ih _ _ (fun k hk => h k (List.mem_cons_of_mem _ hk))

/-- a refused word is not `o` / any word accepted by the fresh builder -/
theorem ne_of_rejects {l : Lang} {w x : Word} (h : l.Rejects w) (hx : (l.apply x DS.new).1 = none) : w ≠ x := by
  intro e
  subst e
  exact not_accepted_of_rejects l w h hx

end T2N.C01Text
