/-
  T2N.Lemmas.C01En — the unbounded cardinal round-trip for English (property C01):
  for every `n < 10^12` and every variant function `v`, validating `Spec.En.cardinal v n` with the model
  of the English interpreter yields the decimal digits of `n`.

  Structure of the proof
  * `lsb n`: little-endian digits of `n` (`lsb 0 = []`); every builder state reached is `mk (lsb N)`;
  * list-level frame lemmas for `put`, `shift` (`shift_frame`), `rangeFree`;
  * one arithmetic step lemma per kind of word (`unit_step`, `teen_step`, `tens_step`, `compound_step`,
    `hundred_step`, `and_step`, `scale_step`, …): the word takes state `N` to state `N'`;
  * `Steps ws N N'`: running the words `ws` from state `N` is the same as continuing from state `N'`;
    `below100_steps`, `group_steps`, `scaled_steps`, `cardinal_steps` compose the spelling;
  * `C01_validate_en`: rendering of the final state.
-/
import T2N.Model.En
import T2N.Model.Scanner
import T2N.Spec.SpellEn
import T2N.Lemmas.DS
import T2N.Lemmas.Act

namespace T2N.C01En
open T2N T2N.DS T2N.Spec

/-! ## little-endian digits -/

/-- digits of `n`, least significant first, no high-order zeros (`lsb 0 = []`) -/
def lsb (n : Nat) : List Nat :=
  if h : n = 0 then [] else (n % 10) :: lsb (n / 10)
termination_by n
decreasing_by omega

theorem lsb_zero : lsb 0 = [] := by rw [lsb]; rfl

theorem lsb_pos {n : Nat} (h : n ≠ 0) : lsb n = n % 10 :: lsb (n / 10) := by
  conv => lhs; rw [lsb]
  rw [dif_neg h]

theorem lsb_cons (d m : Nat) (hd : d < 10) (h : d ≠ 0 ∨ m ≠ 0) : lsb (d + 10 * m) = d :: lsb m := by
  have h1 : (d + 10 * m) % 10 = d := by omega
  have h2 : (d + 10 * m) / 10 = m := by omega
  rw [lsb_pos (by omega), h1, h2]

theorem lsb_digit (d : Nat) (hd : d < 10) (h : d ≠ 0) : lsb d = [d] := by
  have := lsb_cons d 0 hd (Or.inl h)
  simpa [lsb_zero] using this

theorem lsb_ne_nil {n : Nat} (h : n ≠ 0) : lsb n ≠ [] := by
  rw [lsb_pos h]; exact List.cons_ne_nil _ _

theorem lsb_rev_dec (n : Nat) (h : n ≠ 0) : (lsb n).reverse = decDigits n := by
  induction n using Nat.strongRecOn with
  | ind n ih =>
    rw [lsb_pos h, decDigits]
    by_cases h10 : n < 10
    · rw [if_pos h10]
      have h0 : n / 10 = 0 := by omega
      have h1 : n % 10 = n := by omega
      rw [h0, h1, lsb_zero]; rfl
    · rw [if_neg h10, List.reverse_cons, ih (n / 10) (by omega) (by omega)]

theorem lsb_length_ge2 {n : Nat} (h : 10 ≤ n) : 2 ≤ (lsb n).length := by
  rw [lsb_pos (by omega), lsb_pos (n := n / 10) (by omega)]
  simp

theorem lsb_mul_pow (m p : Nat) (hm : m ≠ 0) : lsb (m * 10 ^ p) = List.replicate p 0 ++ lsb m := by
  induction p with
  | zero => simp
  | succ p ih =>
    have hne : m * 10 ^ p ≠ 0 := Nat.mul_ne_zero hm (Nat.pos_iff_ne_zero.mp (Nat.pow_pos (by decide)))
    have e : m * 10 ^ (p + 1) = 0 + 10 * (m * 10 ^ p) := by
      rw [Nat.pow_succ, Nat.zero_add, ← Nat.mul_assoc, Nat.mul_comm 10]
    rw [e, lsb_cons 0 _ (by decide) (Or.inr hne), ih, List.replicate_succ, List.cons_append]

theorem lsb_add_pow (q : Nat) : ∀ (g A : Nat), A ≠ 0 → g < 10 ^ q →
    lsb (g + 10 ^ q * A) = lsb g ++ List.replicate (q - (lsb g).length) 0 ++ lsb A := by
  induction q with
  | zero =>
    intro g A _ hg
    have : g = 0 := by simpa using hg
    subst this; simp [lsb_zero]
  | succ q ih =>
    intro g A hA hg
    by_cases hg0 : g = 0
    · subst hg0
      rw [Nat.zero_add, Nat.mul_comm, lsb_mul_pow A (q + 1) hA, lsb_zero]
      simp
    · have e1 : 10 ^ (q + 1) * A = 10 * (10 ^ q * A) := by
        rw [Nat.pow_succ, Nat.mul_comm (10 ^ q) 10, Nat.mul_assoc]
      have e : g + 10 ^ (q + 1) * A = g % 10 + 10 * (g / 10 + 10 ^ q * A) := by
        rw [e1]; omega
      have hlt : g / 10 < 10 ^ q := by
        rw [Nat.pow_succ] at hg; omega
      have hA' : 10 ^ q * A ≠ 0 := Nat.mul_ne_zero (Nat.pos_iff_ne_zero.mp (Nat.pow_pos (by decide))) hA
      rw [e, lsb_cons (g % 10) _ (by omega) (Or.inr (by omega)), ih (g / 10) A hA hlt, lsb_pos hg0]
      simp

theorem lsb_length_le (q : Nat) : ∀ g, g < 10 ^ q → (lsb g).length ≤ q := by
  induction q with
  | zero => intro g hg; have : g = 0 := by simpa using hg
            subst this; simp [lsb_zero]
  | succ q ih =>
    intro g hg
    by_cases hg0 : g = 0
    · subst hg0; simp [lsb_zero]
    · rw [lsb_pos hg0, List.length_cons]
      have : g / 10 < 10 ^ q := by rw [Nat.pow_succ] at hg; omega
      have := ih _ this
      omega

/-- the most significant digit of a non-zero number is not zero -/
theorem lsb_rev_head (n : Nat) (h : n ≠ 0) : ∃ x t, (lsb n).reverse = x :: t ∧ x ≠ 0 := by
  induction n using Nat.strongRecOn with
  | ind n ih =>
    rw [lsb_pos h, List.reverse_cons]
    by_cases h10 : n / 10 = 0
    · rw [h10, lsb_zero]
      exact ⟨n % 10, [], rfl, by omega⟩
    · obtain ⟨x, t, e, hx⟩ := ih (n / 10) (by omega) h10
      exact ⟨x, t ++ [n % 10], by rw [e]; rfl, hx⟩

/-! ## builder states and list-level frame lemmas -/

/-- the builder states reached while interpreting a cardinal: only `rbuf` is ever non-default -/
def mk (r : List Nat) : DS := { rbuf := r }

theorem mk_nil : mk [] = DS.new := rfl

theorem put1_empty (d : Nat) (hd : d ≠ 0) : (mk []).put [d] = (none, mk [d]) := by
  simp [DS.put, mk, allZero, hd]

theorem put1_cons (d : Nat) (r : List Nat) (hd : d ≠ 0) : (mk (0 :: r)).put [d] = (none, mk (d :: r)) := by
  simp [DS.put, mk, allZero, hd]

theorem put2_empty (a b : Nat) (ha : a ≠ 0) : (mk []).put [a, b] = (none, mk [b, a]) := by
  simp [DS.put, mk, allZero, ha]

theorem put2_cons (a b : Nat) (r : List Nat) (ha : a ≠ 0) :
    (mk (0 :: 0 :: r)).put [a, b] = (none, mk (b :: a :: r)) := by
  simp [DS.put, mk, allZero, ha]

theorem shift_empty (p : Nat) (hp : p ≠ 0) : (mk []).shift p = (none, mk (List.replicate p 0 ++ [1])) := by
  rw [shift_eq _ _ rfl hp]
  show (match shiftBuf [1] p with | some r => _ | none => _) = _
  rw [shiftBuf_one p hp]; rfl

theorem shift_top (r : List Nat) (p : Nat) (hr : r ≠ []) (hl : r.length ≤ p) (hp : p ≠ 0) :
    (mk r).shift p = (none, mk (List.replicate p 0 ++ r)) := by
  rw [shift_eq _ _ rfl hp]
  have : (if (mk r).rbuf.isEmpty then [1] else (mk r).rbuf) = r := by
    show (if r.isEmpty then [1] else r) = r
    cases r with
    | nil => exact absurd rfl hr
    | cons a t => rfl
  rw [this]
  unfold shiftBuf
  rw [if_pos hl]; rfl

theorem dropWhile_replicate_zero (z : Nat) (l : List Nat) :
    (List.replicate z 0 ++ l).dropWhile (· == 0) = l.dropWhile (· == 0) := by
  induction z with
  | zero => rfl
  | succ z ih => rw [List.replicate_succ, List.cons_append, List.dropWhile_cons]; simp

theorem shiftSig_lsb_pad (g z : Nat) (hg : g ≠ 0) : shiftSig (lsb g ++ List.replicate z 0) = lsb g := by
  unfold shiftSig
  obtain ⟨x, t, e, hx⟩ := lsb_rev_head g hg
  have e2 : (lsb g ++ List.replicate z 0).reverse.dropWhile (· == 0) = (lsb g).reverse := by
    rw [List.reverse_append, List.reverse_replicate, dropWhile_replicate_zero, e, List.dropWhile_cons]
    simp [hx]
  simp only [e2, List.reverse_reverse]
  rw [if_neg]
  simp [lsb_ne_nil hg]

/-- **frame lemma for `shift`**: a group `sig` (no high-order zero) standing in the low `p = |sig| + z`
positions, with `|sig|` free positions above, is moved up by `p` positions; the part `t` above is
untouched. -/
theorem shift_frame (sig t : List Nat) (z : Nat) (hsig : shiftSig (sig ++ List.replicate z 0) = sig)
    (hne : sig ≠ []) :
    (mk (sig ++ List.replicate z 0 ++ (List.replicate sig.length 0 ++ t))).shift (sig.length + z) =
      (none, mk (List.replicate (sig.length + z) 0 ++ sig ++ t)) := by
  have hlen : 0 < sig.length := List.length_pos_iff.mpr hne
  rw [shift_eq _ _ rfl (by omega)]
  have hr : (if (mk (sig ++ List.replicate z 0 ++ (List.replicate sig.length 0 ++ t))).rbuf.isEmpty then [1]
      else (mk (sig ++ List.replicate z 0 ++ (List.replicate sig.length 0 ++ t))).rbuf) =
      sig ++ List.replicate z 0 ++ (List.replicate sig.length 0 ++ t) := by
    show (if (sig ++ List.replicate z 0 ++ (List.replicate sig.length 0 ++ t)).isEmpty then [1] else _) = _
    rw [if_neg (by simp [hne])]; rfl
  rw [hr]
  have hl1 : (sig ++ List.replicate z 0).length = sig.length + z := by simp
  unfold shiftBuf
  rw [if_neg (by simp; omega)]
  dsimp only
  rw [List.take_left' hl1, hsig, List.drop_left' hl1, List.take_left' (by simp)]
  have hz : allZero (List.replicate sig.length 0) = true := by simp [allZero]
  rw [hz, Bool.and_true, if_pos (by simp; omega)]
  have hd : (sig ++ List.replicate z 0 ++ (List.replicate sig.length 0 ++ t)).drop (sig.length + z + sig.length) = t := by
    rw [← List.append_assoc]
    exact List.drop_left' (by simp; omega)
  rw [hd]; rfl

/-- the positions `s .. s+k-1` inside a run of zeros are free -/
theorem drop_take_zero (X Y : List Nat) (m s k : Nat) (h1 : X.length ≤ s) (h2 : s + k ≤ X.length + m) :
    ((X ++ List.replicate m 0 ++ Y).drop s).take k = List.replicate k 0 := by
  have e : X ++ List.replicate m 0 ++ Y =
      (X ++ List.replicate (s - X.length) 0) ++ (List.replicate k 0 ++ (List.replicate (m - (s - X.length) - k) 0 ++ Y)) := by
    have : List.replicate m 0 = List.replicate (s - X.length) 0 ++
        (List.replicate k 0 ++ List.replicate (m - (s - X.length) - k) 0) := by
      rw [List.replicate_append_replicate, List.replicate_append_replicate]
      congr 1; omega
    rw [this]; simp only [List.append_assoc]
  rw [e, List.drop_left' (by simp; omega), List.take_left' (by simp)]

/-! ## the vocabulary: plain (non-hyphenated, non-ordinal) words -/

/-- `w` is a word without hyphen whose lemma is bound to instruction `a` and which is not an ordinal form -/
def Plain (w : Word) (a : Act) : Prop :=
  w.contains '-' = false ∧ En.vocab.lookup (En.lemmatize w) = some a ∧
    (endsWith (En.lemmatize w) w!"th" || w == w!"first" || w == w!"second" || En.lemmatize w == w!"third") = false

theorem applyFuel_plain (f : Nat) (w : Word) (a : Act) (b : DS) (h : Plain w a) :
    En.applyFuel (f + 1) w b = ((a.exec b).1, (a.exec b).2.1) := by
  obtain ⟨h1, h2, h3⟩ := h
  rw [En.applyFuel, if_neg (by rw [h1]; exact Bool.false_ne_true)]
  dsimp only
  rw [h2, h3]
  simp

theorem plain_unit (d : Nat) (h0 : d ≠ 0) (h9 : d < 10) : Plain (En.unitWord d) (T2N.En.unit d) := by
  have : d = 1 ∨ d = 2 ∨ d = 3 ∨ d = 4 ∨ d = 5 ∨ d = 6 ∨ d = 7 ∨ d = 8 ∨ d = 9 := by omega
  rcases this with rfl | rfl | rfl | rfl | rfl | rfl | rfl | rfl | rfl <;>
    exact ⟨by decide, by rfl, by decide⟩

theorem plain_teen (b : Nat) (h9 : b < 10) : Plain (En.unitWord (10 + b)) (.put [1, b]) := by
  have : b = 0 ∨ b = 1 ∨ b = 2 ∨ b = 3 ∨ b = 4 ∨ b = 5 ∨ b = 6 ∨ b = 7 ∨ b = 8 ∨ b = 9 := by omega
  rcases this with rfl | rfl | rfl | rfl | rfl | rfl | rfl | rfl | rfl | rfl <;>
    exact ⟨by decide, by rfl, by decide⟩

theorem plain_tens (v : Var) (g t : Nat) (h2 : 2 ≤ t) (h9 : t < 10) : Plain (En.tensWord v g t) (.put [t, 0]) := by
  unfold En.tensWord
  have : t = 2 ∨ t = 3 ∨ t = 4 ∨ t = 5 ∨ t = 6 ∨ t = 7 ∨ t = 8 ∨ t = 9 := by omega
  rcases this with rfl | rfl | rfl | rfl | rfl | rfl | rfl | rfl <;>
    cases flag v (cp g 2) <;> exact ⟨by decide, by rfl, by decide⟩

theorem plain_hundred : Plain w!"hundred" T2N.En.hundred := ⟨by decide, by rfl, by decide⟩

theorem plain_and : Plain w!"and" (.when (.lenGe 2) (.fail .incomplete)) := ⟨by decide, by rfl, by decide⟩

theorem plain_thousand (v : Var) : Plain (En.scaleWord v 1) (.when (.rangeFree 3 5) (.shift 3)) := by
  unfold En.scaleWord
  cases flag v (cp 1 3) <;> exact ⟨by decide, by rfl, by decide⟩

theorem plain_million (v : Var) : Plain (En.scaleWord v 2) (.when (.rangeFree 6 8) (.shift 6)) := by
  unfold En.scaleWord
  cases flag v (cp 2 3) <;> exact ⟨by decide, by rfl, by decide⟩

theorem plain_billion (v : Var) : Plain (En.scaleWord v 3) (.shift 9) := by
  unfold En.scaleWord
  cases flag v (cp 3 3) <;> exact ⟨by decide, by rfl, by decide⟩

/-! ### hyphenated compounds -/

theorem splitOnChar_go_nohyphen (T rest cur : Word) (h : T.contains '-' = false) :
    splitOnChar.go '-' (T ++ rest) cur = splitOnChar.go '-' rest (T.reverse ++ cur) := by
  induction T generalizing cur with
  | nil => rfl
  | cons c T ih =>
    have hc : (c == '-') = false := by
      simp only [List.contains_cons, Bool.or_eq_false_iff] at h
      have := h.1
      rw [Bool.beq_comm] ; exact this
    have hT : T.contains '-' = false := by
      simp only [List.contains_cons, Bool.or_eq_false_iff] at h; exact h.2
    rw [List.cons_append, splitOnChar.go, if_neg (by rw [hc]; exact Bool.false_ne_true), ih _ hT]
    simp

theorem splitOnChar_hyphen (T U : Word) (hT : T.contains '-' = false) (hU : U.contains '-' = false) :
    splitOnChar '-' (T ++ ['-'] ++ U) = [T, U] := by
  unfold splitOnChar
  rw [List.append_assoc, splitOnChar_go_nohyphen T _ _ hT]
  rw [List.singleton_append, splitOnChar.go, if_pos (by decide)]
  have := splitOnChar_go_nohyphen U [] [] hU
  rw [List.append_nil] at this
  rw [this, splitOnChar.go]
  simp

theorem contains_hyphen (T U : Word) : (T ++ ['-'] ++ U).contains '-' = true := by
  simp

/-! ## arithmetic form of the builder operations on `mk (lsb N)` -/

theorem put1_lsb (d N : Nat) (h0 : d ≠ 0) (h9 : d < 10) (hN : N % 10 = 0) :
    (mk (lsb N)).put [d] = (none, mk (lsb (N + d))) := by
  by_cases hz : N = 0
  · subst hz; rw [lsb_zero, put1_empty d h0, Nat.zero_add, lsb_digit d h9 h0]
  · obtain ⟨m, rfl⟩ : ∃ m, N = 0 + 10 * m := ⟨N / 10, by omega⟩
    have e : 0 + 10 * m + d = d + 10 * m := by omega
    rw [e, lsb_cons 0 m (by decide) (Or.inr (by omega)), lsb_cons d m h9 (Or.inl h0), put1_cons d _ h0]

theorem put2_lsb (a b N : Nat) (h0 : a ≠ 0) (h9 : a < 10) (hb : b < 10) (hN : N % 100 = 0) :
    (mk (lsb N)).put [a, b] = (none, mk (lsb (N + (10 * a + b)))) := by
  have ea : lsb (a + 10 * 0) = [a] := by rw [lsb_cons a 0 h9 (Or.inl h0), lsb_zero]
  by_cases hz : N = 0
  · subst hz
    have e : 0 + (10 * a + b) = b + 10 * (a + 10 * 0) := by omega
    rw [lsb_zero, put2_empty a b h0, e, lsb_cons b _ hb (Or.inr (by omega)), ea]
  · obtain ⟨m, rfl⟩ : ∃ m, N = 0 + 10 * (0 + 10 * m) := ⟨N / 100, by omega⟩
    have hm : m ≠ 0 := by omega
    have e : 0 + 10 * (0 + 10 * m) + (10 * a + b) = b + 10 * (a + 10 * m) := by omega
    rw [e, lsb_cons 0 _ (by decide) (Or.inr (by omega)), lsb_cons 0 m (by decide) (Or.inr hm),
      lsb_cons b _ hb (Or.inr (by omega)), lsb_cons a m h9 (Or.inl h0), put2_cons a b _ h0]

theorem unit_guard_lsb (N : Nat) (hN : N % 10 = 0) (hx : N / 10 % 10 ≠ 1) :
    (Guard.neg (.peekEq 2 [1, 0])).eval (mk (lsb N)) = true := by
  by_cases hz : N = 0
  · subst hz; rw [lsb_zero]; rfl
  · obtain ⟨x, m, rfl, hx9, hx1⟩ : ∃ x m, N = 0 + 10 * (x + 10 * m) ∧ x < 10 ∧ x ≠ 1 :=
      ⟨N / 10 % 10, N / 100, by omega, by omega, by omega⟩
    rw [lsb_cons 0 _ (by decide) (Or.inr (by omega)), lsb_cons x m hx9 (by omega)]
    simp [Guard.eval, DS.peek, mk, hx1]

/-! ## one lemma per kind of word: state `N` ↦ state `N'` -/

theorem unit_apply (f d N : Nat) (h0 : d ≠ 0) (h9 : d < 10) (hN : N % 10 = 0) (hx : N / 10 % 10 ≠ 1) :
    En.applyFuel (f + 1) (En.unitWord d) (mk (lsb N)) = (none, mk (lsb (N + d))) := by
  rw [applyFuel_plain f _ _ _ (plain_unit d h0 h9)]
  simp only [T2N.En.unit, Act.when, Act.exec]
  rw [if_pos (unit_guard_lsb N hN hx), put1_lsb d N h0 h9 hN]

theorem teen_apply (f b N : Nat) (hb : b < 10) (hN : N % 100 = 0) :
    En.applyFuel (f + 1) (En.unitWord (10 + b)) (mk (lsb N)) = (none, mk (lsb (N + (10 + b)))) := by
  rw [applyFuel_plain f _ _ _ (plain_teen b hb)]
  simp only [Act.exec]
  rw [put2_lsb 1 b N (by decide) (by decide) hb hN]

theorem tens_apply (f : Nat) (v : Var) (g t N : Nat) (h2 : 2 ≤ t) (h9 : t < 10) (hN : N % 100 = 0) :
    En.applyFuel (f + 1) (En.tensWord v g t) (mk (lsb N)) = (none, mk (lsb (N + 10 * t))) := by
  rw [applyFuel_plain f _ _ _ (plain_tens v g t h2 h9)]
  simp only [Act.exec]
  rw [put2_lsb t 0 N (by omega) h9 (by decide) hN]; rfl

/-- hyphenated `tens-unit`: interpreted in a fresh sub-builder, then merged with `put` -/
theorem compound_apply (v : Var) (g t u N : Nat) (h2 : 2 ≤ t) (h9 : t < 10) (u0 : u ≠ 0) (u9 : u < 10)
    (hN : N % 100 = 0) :
    En.apply (En.tensWord v g t ++ ['-'] ++ En.unitWord u) (mk (lsb N)) = (none, mk (lsb (N + (10 * t + u)))) := by
  have hT := (plain_tens v g t h2 h9).1
  have hU := (plain_unit u u0 u9).1
  have hsub : execGroup (En.applyFuel 1) [En.tensWord v g t, En.unitWord u] = .ok (mk [u, t]) := by
    rw [execGroup, execGroupFrom, ← mk_nil, ← lsb_zero, tens_apply 0 v g t 0 h2 h9 (by decide)]
    dsimp only
    rw [execGroupFrom, unit_apply 0 u _ u0 u9 (by omega) (by omega)]
    dsimp only
    rw [execGroupFrom, if_neg (by decide)]
    have e : 0 + 10 * t + u = u + 10 * (t + 10 * 0) := by omega
    rw [e, lsb_cons u _ u9 (Or.inl u0), lsb_cons t 0 h9 (Or.inl (by omega)), lsb_zero]
  rw [En.apply, En.applyFuel, if_pos (contains_hyphen _ _), splitOnChar_hyphen _ _ hT hU, hsub]
  dsimp only
  have hlen : (mk [u, t]).len = 2 := rfl
  rw [mergeGroup, hlen, if_neg (by simp)]
  have hp : (mk [u, t]).rbuf.reverse = [t, u] := rfl
  rw [hp, put2_lsb t u N (by omega) h9 u9 hN]
  rfl

theorem hundred_apply_zero : En.apply w!"hundred" (mk (lsb 0)) = (none, mk (lsb 100)) := by
  rw [En.apply, applyFuel_plain 1 _ _ _ plain_hundred, lsb_zero]
  have e : lsb 100 = List.replicate 2 0 ++ [1] := by
    have := lsb_mul_pow 1 2 (by decide)
    rw [lsb_digit 1 (by decide) (by decide)] at this
    exact this
  rw [e]
  have hg : (Guard.or (.peekLen 2 1) (.neg (.peekEq 2 [0, 0]))).eval (mk []) = true := rfl
  simp only [T2N.En.hundred, Act.exec]
  rw [if_pos hg, shift_empty 2 (by decide)]

theorem hundred_apply (d N : Nat) (h0 : d ≠ 0) (h9 : d < 10) (hN : N % 1000 = d) :
    En.apply w!"hundred" (mk (lsb N)) = (none, mk (lsb (N + 99 * d))) := by
  rw [En.apply, applyFuel_plain 1 _ _ _ plain_hundred]
  simp only [T2N.En.hundred, Act.exec]
  by_cases hz : N = d
  · subst hz
    have hg : (Guard.or (.peekLen 2 1) (.neg (.peekEq 2 [0, 0]))).eval (mk [N]) = true := rfl
    have e : N + 99 * N = N * 10 ^ 2 := by omega
    rw [e, lsb_mul_pow N 2 h0, lsb_digit N h9 h0, if_pos hg, shift_top [N] 2 (by simp) (by simp) (by decide)]
  · obtain ⟨m, rfl⟩ : ∃ m, N = d + 10 * (0 + 10 * (0 + 10 * m)) := ⟨N / 1000, by omega⟩
    have hm : m ≠ 0 := by omega
    have e : d + 10 * (0 + 10 * (0 + 10 * m)) + 99 * d = 0 + 10 * (0 + 10 * (d + 10 * m)) := by omega
    rw [e, lsb_cons d _ h9 (Or.inl h0), lsb_cons 0 _ (by decide) (Or.inr (by omega)),
      lsb_cons 0 m (by decide) (Or.inr hm), lsb_cons 0 _ (by decide) (Or.inr (by omega)),
      lsb_cons 0 _ (by decide) (Or.inr (by omega)), lsb_cons d m h9 (Or.inl h0)]
    have hg : (Guard.or (.peekLen 2 1) (.neg (.peekEq 2 [0, 0]))).eval (mk (d :: 0 :: 0 :: lsb m)) = true := by
      simp [Guard.eval, DS.peek, mk, h0]
    rw [if_pos hg]
    have hs : shiftSig ([d] ++ List.replicate 1 0) = [d] := by
      simp [shiftSig, h0]
    have hsh : (mk (d :: 0 :: 0 :: lsb m)).shift 2 = (none, mk (0 :: 0 :: d :: lsb m)) :=
      shift_frame [d] (lsb m) 1 hs (by simp)
    rw [hsh]

theorem and_apply (N : Nat) (hN : 10 ≤ N) :
    En.apply w!"and" (mk (lsb N)) = (some .incomplete, mk (lsb N)) := by
  rw [En.apply, applyFuel_plain 1 _ _ _ plain_and]
  have hg : (Guard.lenGe 2).eval (mk (lsb N)) = true := by
    have := lsb_length_ge2 hN
    simp only [Guard.eval, DS.len, mk]
    simp; omega
  simp only [Act.when, Act.exec]
  rw [if_pos hg]

/-! ### scale words -/

theorem lsb_len3 (g : Nat) (g1 : g < 1000) : (lsb g).length ≤ 3 := lsb_length_le 3 g (by omega)

theorem pow_ge_1000 (p : Nat) : 1000 ≤ 10 ^ (p + 3) := by
  rw [Nat.pow_add]
  have : 0 < 10 ^ p := Nat.pow_pos (by decide)
  omega

/-- `shift p` (p = 3, 6, 9) of a state whose low `p+3` positions hold only the group `g` -/
theorem shift_lsb (p g A : Nat) (hp : 3 ≤ p) (g0 : g ≠ 0) (g1 : g < 1000) :
    (mk (lsb (g + 10 ^ (p + 3) * A))).shift p = (none, mk (lsb (g * 10 ^ p + 10 ^ (p + 3) * A))) := by
  have hlen := lsb_len3 g g1
  by_cases hA : A = 0
  · subst hA
    simp only [Nat.mul_zero, Nat.add_zero]
    rw [lsb_mul_pow g p g0]
    exact shift_top (lsb g) p (lsb_ne_nil g0) (by omega) (by omega)
  · have hg : g < 10 ^ (p + 3) := by have := pow_ge_1000 p; omega
    have e : g * 10 ^ p + 10 ^ (p + 3) * A = (g + 10 ^ 3 * A) * 10 ^ p := by
      rw [Nat.add_mul, Nat.pow_add, Nat.mul_comm (10 ^ p) (10 ^ 3), Nat.mul_right_comm (10 ^ 3) (10 ^ p) A]
    rw [e, lsb_mul_pow _ p (by omega), lsb_add_pow 3 g A hA (by omega), lsb_add_pow (p + 3) g A hA hg]
    have hr : List.replicate (p + 3 - (lsb g).length) 0 = List.replicate (p - (lsb g).length) 0 ++
        (List.replicate (lsb g).length 0 ++ List.replicate (3 - (lsb g).length) 0) := by
      rw [List.replicate_append_replicate, List.replicate_append_replicate]
      congr 1; omega
    have hsh := shift_frame (lsb g) (List.replicate (3 - (lsb g).length) 0 ++ lsb A) (p - (lsb g).length)
      (shiftSig_lsb_pad g _ g0) (lsb_ne_nil g0)
    have hpl : (lsb g).length + (p - (lsb g).length) = p := by omega
    rw [hpl] at hsh
    rw [hr]
    simp only [List.append_assoc] at hsh ⊢
    exact hsh

theorem rangeFree_lsb (p g A : Nat) (hp : 3 ≤ p) (g1 : g < 1000) :
    (mk (lsb (g + 10 ^ (p + 3) * A))).rangeFree p (p + 2) = true := by
  have hlen := lsb_len3 g g1
  unfold DS.rangeFree
  show (decide (p ≥ (lsb (g + 10 ^ (p + 3) * A)).length) ||
    allZero (((lsb (g + 10 ^ (p + 3) * A)).drop p).take (p + 2 + 1 - p))) = true
  by_cases hA : A = 0
  · subst hA
    simp only [Nat.mul_zero, Nat.add_zero]
    rw [Bool.or_eq_true]; left
    simp; omega
  · have hg : g < 10 ^ (p + 3) := by have := pow_ge_1000 p; omega
    have h3 : p + 2 + 1 - p = 3 := by omega
    rw [lsb_add_pow (p + 3) g A hA hg, h3, drop_take_zero _ _ _ p 3 (by omega) (by omega)]
    simp [allZero]

theorem scale_apply (v : Var) (k N0 g : Nat) (hk : k = 1 ∨ k = 2 ∨ k = 3) (hN : N0 % 10 ^ (3 * k + 3) = 0)
    (g0 : g ≠ 0) (g1 : g < 1000) :
    En.apply (En.scaleWord v k) (mk (lsb (N0 + g))) = (none, mk (lsb (N0 + g * 10 ^ (3 * k)))) := by
  obtain ⟨A, rfl⟩ : ∃ A, N0 = 10 ^ (3 * k + 3) * A := ⟨N0 / 10 ^ (3 * k + 3), by
    rw [Nat.mul_comm, Nat.div_mul_cancel (Nat.dvd_of_mod_eq_zero hN)]⟩
  rw [Nat.add_comm _ g, Nat.add_comm _ (g * _)]
  rcases hk with rfl | rfl | rfl
  · rw [En.apply, applyFuel_plain 1 _ _ _ (plain_thousand v)]
    simp only [Act.when, Act.exec]
    have hg : (Guard.rangeFree 3 5).eval (mk (lsb (g + 10 ^ (3 * 1 + 3) * A))) = true :=
      rangeFree_lsb 3 g A (by decide) g1
    have hs : (mk (lsb (g + 10 ^ (3 * 1 + 3) * A))).shift 3 =
        (none, mk (lsb (g * 10 ^ (3 * 1) + 10 ^ (3 * 1 + 3) * A))) := shift_lsb 3 g A (by decide) g0 g1
    rw [if_pos hg, hs]
  · rw [En.apply, applyFuel_plain 1 _ _ _ (plain_million v)]
    simp only [Act.when, Act.exec]
    have hg : (Guard.rangeFree 6 8).eval (mk (lsb (g + 10 ^ (3 * 2 + 3) * A))) = true :=
      rangeFree_lsb 6 g A (by decide) g1
    have hs : (mk (lsb (g + 10 ^ (3 * 2 + 3) * A))).shift 6 =
        (none, mk (lsb (g * 10 ^ (3 * 2) + 10 ^ (3 * 2 + 3) * A))) := shift_lsb 6 g A (by decide) g0 g1
    rw [if_pos hg, hs]
  · rw [En.apply, applyFuel_plain 1 _ _ _ (plain_billion v)]
    simp only [Act.exec]
    have hs : (mk (lsb (g + 10 ^ (3 * 3 + 3) * A))).shift 9 =
        (none, mk (lsb (g * 10 ^ (3 * 3) + 10 ^ (3 * 3 + 3) * A))) := shift_lsb 9 g A (by decide) g0 g1
    rw [hs]

/-- a scale word as first word: implicit `one` -/
theorem scale_apply_zero (v : Var) (k : Nat) (hk : k = 1 ∨ k = 2 ∨ k = 3) :
    En.apply (En.scaleWord v k) (mk (lsb 0)) = (none, mk (lsb (10 ^ (3 * k)))) := by
  have e : ∀ p, lsb (10 ^ p) = List.replicate p 0 ++ [1] := by
    intro p
    have := lsb_mul_pow 1 p (by decide)
    rw [lsb_digit 1 (by decide) (by decide), Nat.one_mul] at this
    exact this
  rw [e, lsb_zero]
  rcases hk with rfl | rfl | rfl
  · rw [En.apply, applyFuel_plain 1 _ _ _ (plain_thousand v)]
    simp only [Act.when, Act.exec]
    have hg : (Guard.rangeFree 3 5).eval (mk []) = true := rfl
    rw [if_pos hg, shift_empty 3 (by decide)]
  · rw [En.apply, applyFuel_plain 1 _ _ _ (plain_million v)]
    simp only [Act.when, Act.exec]
    have hg : (Guard.rangeFree 6 8).eval (mk []) = true := rfl
    rw [if_pos hg, shift_empty 6 (by decide)]
  · rw [En.apply, applyFuel_plain 1 _ _ _ (plain_billion v)]
    simp only [Act.exec]
    rw [shift_empty 9 (by decide)]

/-! ## sequences of words -/

/-- running `ws` (then anything) from state `N` is running the rest from state `N'` -/
def Steps (ws : List Word) (N N' : Nat) : Prop :=
  ∀ rest, execGroupFrom En.apply (ws ++ rest) (mk (lsb N)) false = execGroupFrom En.apply rest (mk (lsb N')) false

theorem Steps.nil (N : Nat) : Steps [] N N := fun _ => rfl

theorem Steps.append {a b : List Word} {N N' N'' : Nat} (h1 : Steps a N N') (h2 : Steps b N' N'') :
    Steps (a ++ b) N N'' := by
  intro rest; rw [List.append_assoc, h1, h2]

theorem Steps.single {w : Word} {N N' : Nat} (h : En.apply w (mk (lsb N)) = (none, mk (lsb N'))) :
    Steps [w] N N' := by
  intro rest
  rw [List.singleton_append, execGroupFrom, h]

theorem Steps.cast {ws : List Word} {N N' M : Nat} (h : Steps ws N N') (e : N' = M) : Steps ws N M := e ▸ h

/-- `and` is accepted as `Incomplete`, leaves the builder alone, and the next word resets the flag -/
theorem Steps.and {ws : List Word} {N N' : Nat} (hN : 10 ≤ N) (h : Steps ws N N') (hne : ws ≠ []) :
    Steps (w!"and" :: ws) N N' := by
  intro rest
  obtain ⟨w, ws', rfl⟩ := List.exists_cons_of_ne_nil hne
  rw [List.cons_append, execGroupFrom, and_apply N hN]
  dsimp only
  have := h rest
  rw [List.cons_append, execGroupFrom] at this
  rw [List.cons_append, execGroupFrom]
  exact this

/-! ## the spelling, group by group -/

theorem below100_steps (v : Var) (k r N : Nat) (h0 : r ≠ 0) (h1 : r < 100) (hN : N % 100 = 0) :
    Steps (En.below100 v k r) N (N + r) ∧ En.below100 v k r ≠ [] := by
  unfold En.below100
  by_cases h20 : r < 20
  · rw [if_pos h20]
    refine ⟨Steps.single ?_, by simp⟩
    by_cases h10 : r < 10
    · exact unit_apply 1 r N h0 h10 (by omega) (by omega)
    · obtain ⟨b, rfl⟩ : ∃ b, r = 10 + b := ⟨r - 10, by omega⟩
      exact teen_apply 1 b N (by omega) hN
  · rw [if_neg h20]
    dsimp only
    have ht2 : 2 ≤ r / 10 := by omega
    have ht9 : r / 10 < 10 := by omega
    by_cases hu : r % 10 = 0
    · rw [if_pos (by simp [hu])]
      refine ⟨Steps.single ?_, by simp⟩
      have := tens_apply 1 v k (r / 10) N ht2 ht9 hN
      have e : N + 10 * (r / 10) = N + r := by omega
      rw [e] at this; exact this
    · rw [if_neg (by simp [hu])]
      cases hf : flag v (cp k 0)
      · rw [if_neg (by simp)]
        refine ⟨Steps.single ?_, by simp⟩
        have := compound_apply v k (r / 10) (r % 10) N ht2 ht9 hu (by omega) hN
        have e : N + (10 * (r / 10) + r % 10) = N + r := by omega
        rw [e] at this; exact this
      · rw [if_pos rfl]
        refine ⟨?_, by simp⟩
        have s1 : Steps [En.tensWord v k (r / 10)] N (N + 10 * (r / 10)) :=
          Steps.single (tens_apply 1 v k (r / 10) N ht2 ht9 hN)
        have s2 : Steps [En.unitWord (r % 10)] (N + 10 * (r / 10)) (N + 10 * (r / 10) + r % 10) :=
          Steps.single (unit_apply 1 (r % 10) _ hu (by omega) (by omega) (by omega))
        exact (Steps.append s1 s2).cast (by omega)

/-- **per-group theorem**: a group `1 ≤ g ≤ 999` spelled on a state whose three low positions are free
(arbitrary higher part) adds `g`; `first` (which allows the dropped `one`) only when the state is empty -/
theorem group_steps (v : Var) (k g : Nat) (first : Bool) (N : Nat) (g0 : g ≠ 0) (g1 : g < 1000)
    (hN : N % 1000 = 0) (hf : first = true → N = 0) :
    Steps (En.group v k g first) N (N + g) ∧ En.group v k g first ≠ [] := by
  unfold En.group
  dsimp only
  -- hundreds
  have hs : Steps (if (g / 100 == 0) = true then []
      else if (g / 100 == 1 && first && flag v (cp k 4)) = true then [w!"hundred"]
      else [En.unitWord (g / 100), w!"hundred"]) N (N + 100 * (g / 100)) ∧
      (g / 100 ≠ 0 → (if (g / 100 == 0) = true then []
      else if (g / 100 == 1 && first && flag v (cp k 4)) = true then [w!"hundred"]
      else [En.unitWord (g / 100), w!"hundred"]) ≠ []) := by
    by_cases hh : g / 100 = 0
    · rw [if_pos (by simp [hh]), hh]
      exact ⟨Steps.nil N, fun h => absurd rfl h⟩
    · rw [if_neg (by simp [hh])]
      by_cases hc : (g / 100 == 1 && first && flag v (cp k 4)) = true
      · rw [if_pos hc]
        simp only [Bool.and_eq_true, beq_iff_eq] at hc
        have hN0 : N = 0 := hf hc.1.2
        subst hN0
        rw [hc.1.1]
        exact ⟨Steps.single hundred_apply_zero, fun _ => by simp⟩
      · rw [if_neg hc]
        refine ⟨?_, fun _ => by simp⟩
        have s1 : Steps [En.unitWord (g / 100)] N (N + g / 100) :=
          Steps.single (unit_apply 1 (g / 100) N hh (by omega) (by omega) (by omega))
        have s2 : Steps [w!"hundred"] (N + g / 100) (N + g / 100 + 99 * (g / 100)) :=
          Steps.single (hundred_apply (g / 100) _ hh (by omega) (by omega))
        exact (Steps.append s1 s2).cast (by omega)
  generalize (if (g / 100 == 0) = true then []
      else if (g / 100 == 1 && first && flag v (cp k 4)) = true then [w!"hundred"]
      else [En.unitWord (g / 100), w!"hundred"]) = hsw at hs
  -- link and the part below 100
  by_cases hr : g % 100 = 0
  · have hl : (g / 100 != 0 && g % 100 != 0 && flag v (cp k 1)) = false := by simp [hr]
    have hr' : (g % 100 == 0) = true := by simp [hr]
    rw [hl, if_neg Bool.false_ne_true, if_pos hr', List.append_nil, List.append_nil]
    exact ⟨hs.1.cast (by omega), hs.2 (by omega)⟩
  · have hr' : ¬ ((g % 100 == 0) = true) := by simp [hr]
    rw [if_neg hr']
    obtain ⟨sb, hb⟩ := below100_steps v k (g % 100) (N + 100 * (g / 100)) hr (by omega) (by omega)
    by_cases hc : (g / 100 != 0 && g % 100 != 0 && flag v (cp k 1)) = true
    · rw [if_pos hc]
      have hh : g / 100 ≠ 0 := by
        simp only [Bool.and_eq_true, bne_iff_ne] at hc; exact hc.1.1
      refine ⟨?_, by simp⟩
      rw [List.append_assoc]
      exact (Steps.append hs.1 (Steps.and (by omega) sb hb)).cast (by omega)
    · rw [if_neg hc, List.append_nil]
      refine ⟨(Steps.append hs.1 sb).cast (by omega), ?_⟩
      intro h
      exact hb (List.append_eq_nil_iff.mp h).2

/-! ## composition over the four groups -/

theorem isEmpty_append {α} (a b : List α) : (a ++ b).isEmpty = (a.isEmpty && b.isEmpty) := by
  cases a <;> cases b <;> rfl

theorem scaled_isEmpty (v : Var) (k g : Nat) (first : Bool) : (En.scaled v k g first).isEmpty = (g == 0) := by
  unfold En.scaled
  by_cases hg : g = 0
  · subst hg; rfl
  · have hg' : (g == 0) = false := by simp [hg]
    rw [hg', if_neg Bool.false_ne_true]
    split <;> simp

theorem mod1000_of_pow (k N : Nat) (hN : N % 10 ^ (3 * k + 3) = 0) : N % 1000 = 0 := by
  have h1 : (1000 : Nat) ∣ 10 ^ (3 * k + 3) := ⟨10 ^ (3 * k), by rw [Nat.pow_add, Nat.mul_comm]⟩
  exact Nat.mod_eq_zero_of_dvd (Nat.dvd_trans h1 (Nat.dvd_of_mod_eq_zero hN))

theorem scaled_steps (v : Var) (k g : Nat) (first : Bool) (N : Nat) (hk : k = 1 ∨ k = 2 ∨ k = 3) (g1 : g < 1000)
    (hN : N % 10 ^ (3 * k + 3) = 0) (hf : first = true → N = 0) :
    Steps (En.scaled v k g first) N (N + g * 10 ^ (3 * k)) := by
  unfold En.scaled
  by_cases hg : g = 0
  · subst hg
    have h00 : ((0 : Nat) == 0) = true := rfl
    rw [if_pos h00]
    exact (Steps.nil N).cast (by simp)
  · have hg' : (g == 0) = false := by simp [hg]
    rw [hg', if_neg Bool.false_ne_true]
    by_cases hc : (g == 1 && first && flag v (cp k 5)) = true
    · rw [if_pos hc]
      simp only [Bool.and_eq_true, beq_iff_eq] at hc
      have hN0 : N = 0 := hf hc.1.2
      subst hN0
      rw [hc.1.1]
      exact (Steps.single (scale_apply_zero v k hk)).cast (by simp)
    · rw [if_neg hc]
      have sg := (group_steps v k g first N hg g1 (mod1000_of_pow k N hN) hf).1
      exact Steps.append sg (Steps.single (scale_apply v k N g hk hN hg g1))

theorem cardinal_steps (v : Var) (n : Nat) (hn : n ≠ 0) (h : n < 10 ^ 12) : Steps (En.cardinal v n) 0 n := by
  unfold En.cardinal
  have hn' : (n == 0) = false := by simp [hn]
  rw [hn', if_neg Bool.false_ne_true]
  dsimp only
  obtain ⟨g3, hg3⟩ : ∃ g3, g3 = n / 1000000000 % 1000 := ⟨_, rfl⟩
  obtain ⟨g2, hg2⟩ : ∃ g2, g2 = n / 1000000 % 1000 := ⟨_, rfl⟩
  obtain ⟨g1, hg1⟩ : ∃ g1, g1 = n / 1000 % 1000 := ⟨_, rfl⟩
  obtain ⟨g0, hg0⟩ : ∃ g0, g0 = n % 1000 := ⟨_, rfl⟩
  rw [← hg3, ← hg2, ← hg1, ← hg0]
  have e3 : (10 : Nat) ^ (3 * 3) = 1000000000 := by decide
  have e2 : (10 : Nat) ^ (3 * 2) = 1000000 := by decide
  have e1 : (10 : Nat) ^ (3 * 1) = 1000 := by decide
  have f3 : (10 : Nat) ^ (3 * 3 + 3) = 1000000000000 := by decide
  have f2 : (10 : Nat) ^ (3 * 2 + 3) = 1000000000 := by decide
  have f1 : (10 : Nat) ^ (3 * 1 + 3) = 1000000 := by decide
  have s3 := scaled_steps v 3 g3 true 0 (Or.inr (Or.inr rfl)) (by omega) (Nat.zero_mod _) (fun _ => rfl)
  have hf2 : (g3 == 0) = true → 0 + g3 * 10 ^ (3 * 3) = 0 := by
    intro hh
    have h0 : g3 = 0 := by simpa using hh
    rw [h0]
  have s2 := scaled_steps v 2 g2 (g3 == 0) (0 + g3 * 10 ^ (3 * 3)) (Or.inr (Or.inl rfl)) (by omega)
    (by omega) hf2
  have hf1 : (g3 == 0 && g2 == 0) = true → 0 + g3 * 10 ^ (3 * 3) + g2 * 10 ^ (3 * 2) = 0 := by
    intro hh
    simp only [Bool.and_eq_true, beq_iff_eq] at hh
    rw [hh.1, hh.2]
  have s1 := scaled_steps v 1 g1 (g3 == 0 && g2 == 0) (0 + g3 * 10 ^ (3 * 3) + g2 * 10 ^ (3 * 2))
    (Or.inl rfl) (by omega) (by omega) hf1
  have shi := Steps.append (Steps.append s3 s2) s1
  rw [e3, e2, e1] at shi
  have hie : (En.scaled v 3 g3 true ++ En.scaled v 2 g2 (g3 == 0) ++ En.scaled v 1 g1 (g3 == 0 && g2 == 0)).isEmpty
      = (g3 == 0 && g2 == 0 && g1 == 0) := by
    rw [isEmpty_append, isEmpty_append, scaled_isEmpty, scaled_isEmpty, scaled_isEmpty]
  generalize (En.scaled v 3 g3 true ++ En.scaled v 2 g2 (g3 == 0) ++ En.scaled v 1 g1 (g3 == 0 && g2 == 0)) = hi
    at shi hie
  rw [hie]
  have hsum : 0 + g3 * 1000000000 + g2 * 1000000 + g1 * 1000 + g0 = n := by omega
  by_cases hz0 : g0 = 0
  · have hl : (!(g3 == 0 && g2 == 0 && g1 == 0) && g0 != 0 && decide (g0 < 100) && flag v (cp 0 6)) = false := by
      simp [hz0]
    have hz0' : (g0 == 0) = true := by simp [hz0]
    rw [hl, if_neg Bool.false_ne_true, if_pos hz0', List.append_nil, List.append_nil]
    exact shi.cast (by omega)
  · have hz0' : ¬ ((g0 == 0) = true) := by simp [hz0]
    rw [if_neg hz0']
    have hfirst : (g3 == 0 && g2 == 0 && g1 == 0) = true →
        0 + g3 * 1000000000 + g2 * 1000000 + g1 * 1000 = 0 := by
      intro hh
      simp only [Bool.and_eq_true, beq_iff_eq] at hh
      rw [hh.1.1, hh.1.2, hh.2]
    obtain ⟨sg, hgne⟩ := group_steps v 0 g0 (g3 == 0 && g2 == 0 && g1 == 0)
      (0 + g3 * 1000000000 + g2 * 1000000 + g1 * 1000) hz0 (by omega) (by omega) hfirst
    by_cases hc : (!(g3 == 0 && g2 == 0 && g1 == 0) && g0 != 0 && decide (g0 < 100) && flag v (cp 0 6)) = true
    · rw [if_pos hc, List.append_assoc]
      have hN10 : 10 ≤ 0 + g3 * 1000000000 + g2 * 1000000 + g1 * 1000 := by
        have hne : (g3 == 0 && g2 == 0 && g1 == 0) = false := by
          simp only [Bool.and_eq_true, Bool.not_eq_true'] at hc; exact hc.1.1.1
        by_cases a3 : g3 = 0
        · by_cases a2 : g2 = 0
          · by_cases a1 : g1 = 0
            · subst a3; subst a2; subst a1; simp at hne
            · omega
          · omega
        · omega
      exact (Steps.append shi (Steps.and hN10 sg hgne)).cast (by omega)
    · rw [if_neg hc, List.append_nil]
      exact (Steps.append shi sg).cast (by omega)

/-- **C01 for English, unbounded**: every cardinal below 10^12, in every accepted spelling variant,
validates to its decimal digits. -/
theorem C01_validate_en (v : T2N.Spec.Var) (n : Nat) (h : n < 10 ^ 12) :
    T2N.text2digitsWords T2N.En.lang (T2N.Spec.En.cardinal v n) = .ok (T2N.Spec.decChars n) := by
  by_cases hn : n = 0
  · subst hn
    have e : decChars 0 = ['0'] := by
      unfold decChars; rw [decDigits, if_pos (by decide)]; decide
    rw [e]
    show text2digitsWords T2N.En.lang [w!"zero"] = _
    decide
  · have hs := cardinal_steps v n hn h []
    rw [List.append_nil, lsb_zero, mk_nil] at hs
    have hex : execGroup T2N.En.lang.apply (En.cardinal v n) = .ok (mk (lsb n)) := by
      show execGroupFrom T2N.En.apply (En.cardinal v n) DS.new false = _
      rw [hs, execGroupFrom, if_neg Bool.false_ne_true]
    have hne := lsb_ne_nil hn
    have hemp : (mk (lsb n)).isEmpty = false := by
      show ((lsb n).isEmpty && (0 : Nat) == 0) = false
      cases hl : lsb n with
      | nil => exact absurd hl hne
      | cons a t => rfl
    have hrender : (mk (lsb n)).render = decDigits n := by
      show List.replicate 0 0 ++ (lsb n).reverse = _
      rw [lsb_rev_dec n hn]; rfl
    have hrne : (mk (lsb n)).render.isEmpty = false := by
      rw [hrender, ← lsb_rev_dec n hn]
      cases hl : lsb n with
      | nil => exact absurd hl hne
      | cons a t => simp
    unfold text2digitsWords
    rw [hex]
    dsimp only
    rw [hemp, if_neg Bool.false_ne_true]
    unfold Lang.formatW
    rw [hrne, if_neg Bool.false_ne_true]
    show ValOut.ok (renderChars (mk (lsb n))) = _
    unfold renderChars decChars
    rw [hrender]

/-- the hypothesis is satisfiable; an instance with every variant switch on -/
example : T2N.text2digitsWords T2N.En.lang (T2N.Spec.En.cardinal (fun _ => 1) 123456789012) =
    .ok (T2N.Spec.decChars 123456789012) := C01_validate_en _ _ (by decide)

end T2N.C01En
