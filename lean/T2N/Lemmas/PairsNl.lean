/-
  T2N.Lemmas.PairsNl — C08 (first half, the pair rule) for Dutch.

  Two complete numbers below 100 in their standard (one-word) spelling, spoken one after the other, optionally with the
  conjunction `en` between them.  The scanner (threshold 0) reports
    * the single number `b + a` when `a` is a unit (1..9), `b` a round ten (20..90) and `en` stands between them
      (`vier en twintig` is the split spelling of `vierentwintig`) — the only fusion;
    * `0b` (the zero attached in front of the digits of `b`) when `a = 0`, with or without `en`;
    * both numbers, in order, in every other case.
-/
import T2N.Lemmas.ExtNl
import T2N.Lemmas.SpecCheck

set_option maxRecDepth 1000000

namespace T2N.PairsNl
open T2N T2N.Spec T2N.C01Nl T2N.ExtNl
open T2N.EnExt (wt skipW pushWords SI setLz)

/-- the standard spelling -/
def std (n : Nat) : List Word := Spec.Nl.cardinal (fun _ => 0) n

/-- **the only fusion**: a unit, `en`, a round ten — the split spelling of the compound `<unit>en<ten>` -/
def fused (a b : Nat) (conj : Bool) : Option Nat :=
  if conj = true ∧ 1 ≤ a ∧ a ≤ 9 ∧ 20 ≤ b ∧ b % 10 = 0 then some (b + a) else none

/-- what the scanner reports for `std a (en) std b`: the fused number; a leading zero attached to the digits of `b`
(with or without `en`); otherwise both numbers -/
def expected (a b : Nat) (conj : Bool) : List Word :=
  match fused a b conj with
  | some c => [decChars c]
  | none => if a = 0 then ['0' :: decChars b] else [decChars a, decChars b]

/-- the phrase: `std a`, optionally the conjunction, `std b` -/
def phrase (a b : Nat) (conj : Bool) : List Word :=
  std a ++ (if conj then [Spec.Nl.conj] else []) ++ std b

/-! ## 1. the fusion is a spelling of the fused number -/

/-- normalised words of a phrase: hyphens opened, the conjunction dropped -/
def norm (ws : List Word) : List Word :=
  (ws.flatMap (splitOnChar '-')).filter (fun w => w != Spec.Nl.conj)

/-- the 100 combinations (unit digit `i % 10`, ten `10 * (i / 10)`): wherever `fused` answers `some c`, the spelling of `c`
under the variant seed 4 (split level 3: `vier en twintig`) has the same normalised words as `std a ++ std b` -/
def fusedRow (i : Nat) : Bool :=
  match fused (i % 10) (10 * (i / 10)) true with
  | some c => norm (Spec.Nl.cardinal (varOfSeed 4) c) == norm (std (i % 10) ++ std (10 * (i / 10)))
  | none => true

theorem tbl_fused : checkRange fusedRow 0 100 = true := by decide +kernel

theorem fused_some (a b : Nat) (cj : Bool) (c : Nat) (h : fused a b cj = some c) :
    cj = true ∧ 1 ≤ a ∧ a ≤ 9 ∧ 20 ≤ b ∧ b % 10 = 0 ∧ c = b + a := by
  unfold fused at h
  by_cases hc : cj = true ∧ 1 ≤ a ∧ a ≤ 9 ∧ 20 ≤ b ∧ b % 10 = 0
  · rw [if_pos hc] at h
    obtain ⟨h1, h2, h3, h4, h5⟩ := hc
    exact ⟨h1, h2, h3, h4, h5, by injection h with h; omega⟩
  · rw [if_neg hc] at h
    exact absurd h (by simp)

/-- **every fusion is a spelling**: when `fused a b conj = some c`, the words of `std a` and `std b` (conjunction dropped)
are the words of the spelling of `c` in the variant with seed 4 (`<unit> en <ten>`, the fully split spelling) -/
theorem fused_is_spelling (a b : Nat) (_ha : a < 100) (hb : b < 100) (cj : Bool) (c : Nat)
    (h : fused a b cj = some c) :
    ∃ k, k < 48 ∧ norm (Spec.Nl.cardinal (varOfSeed k) c) = norm (std a ++ std b) := by
  obtain ⟨h1, h2, h3, h4, h5, _⟩ := fused_some a b cj c h
  subst h1
  refine ⟨4, by decide, ?_⟩
  have hrow := checkRange_spec fusedRow 100 0 tbl_fused (10 * (b / 10) + a) (Nat.zero_le _) (by omega)
  unfold fusedRow at hrow
  have e1 : (10 * (b / 10) + a) % 10 = a := by omega
  have e2 : 10 * ((10 * (b / 10) + a) / 10) = b := by omega
  rw [e1, e2, h] at hrow
  exact eq_of_beq hrow

/-! ## 2. the words of the standard spelling and what they do on an empty builder -/

/-- the one word of the standard spelling of `n < 100` -/
def W (n : Nat) : Word :=
  if n < 20 then Nl.unitWords.getD n []
  else if n % 10 = 0 then Nl.tensWord (n / 10)
  else Nl.unitWords.getD (n % 10) [] ++ (if n % 10 = 2 ∨ n % 10 = 3 then w!"ën" else w!"en") ++ Nl.tensWord (n / 10)

theorem tbl_std : checkRange (fun n => std n == [W n]) 0 100 = true := by decide +kernel

theorem std_eq (n : Nat) (h : n < 100) : std n = [W n] :=
  eq_of_beq (checkRange_spec _ 100 0 tbl_std n (Nat.zero_le _) (by omega))

/-- digits of `1 ≤ n < 100`, least significant first -/
def dig (n : Nat) : List Nat := if n < 10 then [n] else [n % 10, n / 10]

/-- flags after the word of `n`: a unit word sets `TENS` -/
def fl1 (n : Nat) : Nat := if n < 10 then 1 else 0

/-- builder after the word of `n` on an empty builder -/
def first (n : Nat) : DS := if n = 0 then setLz 1 DS.new else mkf (dig n) (fl1 n)

theorem tbl_first : checkRange (fun n => decide (Nl.apply (W n) DS.new = (none, first n))) 0 100 = true := by
  decide +kernel

theorem apply_first (n : Nat) (h : n < 100) : Nl.apply (W n) DS.new = (none, first n) :=
  of_decide_eq_true (checkRange_spec _ 100 0 tbl_first n (Nat.zero_le _) (by omega))

/-- the digits of `n` are rendered as `decChars n` (whatever the flags) -/
def fmtRow (n : Nat) : Bool :=
  !(mkf (dig n) 0).isEmpty &&
    (match Nl.lang.formatW (mkf (dig n) 0) with
     | .ok (t, _) => t == decChars n
     | .error _ => false)

theorem tbl_fmt : checkRange fmtRow 1 99 = true := by decide +kernel

theorem fmt_dig (n f : Nat) (h0 : n ≠ 0) (h : n < 100) :
    (mkf (dig n) f).isEmpty = false ∧ ∃ v, Nl.lang.formatW (mkf (dig n) f) = .ok (decChars n, v) := by
  have hrow := checkRange_spec fmtRow 99 1 tbl_fmt n (by omega) (by omega)
  unfold fmtRow at hrow
  rw [Bool.and_eq_true] at hrow
  obtain ⟨r1, r2⟩ := hrow
  have e1 : (mkf (dig n) f).isEmpty = (mkf (dig n) 0).isEmpty := rfl
  have e2 : Nl.lang.formatW (mkf (dig n) f) = Nl.lang.formatW (mkf (dig n) 0) := rfl
  rw [e1, e2]
  constructor
  · cases hx : (mkf (dig n) 0).isEmpty with
    | false => rfl
    | true => rw [hx] at r1; exact absurd r1 (by decide)
  · cases hx : Nl.lang.formatW (mkf (dig n) 0) with
    | error e => rw [hx] at r2; exact absurd r2 (by simp)
    | ok tv =>
      obtain ⟨t, v⟩ := tv
      rw [hx] at r2
      exact ⟨v, by rw [eq_of_beq r2]⟩

theorem fmt_first (n : Nat) (h : n < 100) :
    (first n).isEmpty = false ∧ ∃ v, Nl.lang.formatW (first n) = .ok (decChars n, v) := by
  unfold first
  by_cases h0 : n = 0
  · subst h0
    rw [if_pos rfl]
    have e : decChars 0 = ['0'] := by decide +kernel
    rw [e]
    exact ⟨rfl, _, rfl⟩
  · rw [if_neg h0]; exact fmt_dig n _ h0 h

/-! ## 3. the second word on a builder that holds a number -/

/-- `w` is refused (not with `Incomplete`) by the builder holding the digits `r`; the digits stay -/
def Rej (w : Word) (r : List Nat) (f : Nat) : Prop :=
  ∃ e f', e ≠ Err.incomplete ∧ Nl.apply w (mkf r f) = (some e, mkf r f')

theorem rej_plain (w : Word) (a : Act) (r : List Nat) (f tb : Nat) (e : Err) (hp : Plain w a) (he : e ≠ .incomplete)
    (hx : a.exec (mkf r f) = (some e, mkf r f, tb)) : Rej w r f :=
  ⟨e, 0, he, by
    show Nl.applyFuel (1 + 1) w (mkf r f) = _
    rw [applyFuel_err 1 w a _ _ tb e hp hx]; rfl⟩

/-- a compound word: the pieces are interpreted on a fresh builder and the result is `put` -/
theorem apply_compound (w : Word) (ds S : DS) (h1 : isSplittable Nl.patterns w = true)
    (h2 : execGroup (Nl.applyFuel 1) (splitWord Nl.patterns w) = .ok ds) :
    Nl.apply w S = mergeGroup S ds false ds.marker := by
  show Nl.applyFuel (1 + 1) w S = _
  rw [Nl.applyFuel, if_pos h1, h2]

/-- the compounds `eenentwintig` … `negenennegentig`: splittable, the pieces give the two digits -/
def cmpRow (n : Nat) : Bool :=
  n % 10 == 0 ||
    (isSplittable Nl.patterns (W n) &&
      (match execGroup (Nl.applyFuel 1) (splitWord Nl.patterns (W n)) with
       | .ok ds => decide (ds = mkf (dig n) 0)
       | .error _ => false))

theorem tbl_cmp : checkRange cmpRow 20 80 = true := by decide +kernel

theorem cmp_facts (n : Nat) (h20 : 20 ≤ n) (h : n < 100) (hu : n % 10 ≠ 0) :
    isSplittable Nl.patterns (W n) = true ∧
      execGroup (Nl.applyFuel 1) (splitWord Nl.patterns (W n)) = .ok (mkf (dig n) 0) := by
  have hrow := checkRange_spec cmpRow 80 20 tbl_cmp n h20 (by omega)
  unfold cmpRow at hrow
  have : (n % 10 == 0) = false := by simp [hu]
  rw [this, Bool.false_or, Bool.and_eq_true] at hrow
  refine ⟨hrow.1, ?_⟩
  cases hx : execGroup (Nl.applyFuel 1) (splitWord Nl.patterns (W n)) with
  | error e => rw [hx] at hrow; exact absurd hrow.2 (by simp)
  | ok ds => rw [hx] at hrow; rw [of_decide_eq_true hrow.2]

/-- `put` of two digits `[t, u]` (`t ≠ 0`) on a builder holding one non-zero digit or two digits with a non-zero ten -/
theorem merge_rej (r : List Nat) (f : Nat) (n : Nat) (h20 : 20 ≤ n) (h : n < 100)
    (hr : (∃ x, x ≠ 0 ∧ r = [x]) ∨ (∃ u t, t ≠ 0 ∧ r = [u, t])) :
    mergeGroup (mkf r f) (mkf (dig n) 0) false (mkf (dig n) 0).marker = (some .overlap, mkf r f) := by
  have hd : dig n = [n % 10, n / 10] := by unfold dig; rw [if_neg (by omega)]
  have ht : n / 10 ≠ 0 := by omega
  rcases hr with ⟨x, hx, rfl⟩ | ⟨u, t, ht', rfl⟩
  · simp [mergeGroup, hd, mkf, DS.len, DS.put, allZero, ht]
  · simp [mergeGroup, hd, mkf, DS.len, DS.put, allZero, ht, ht']

/-- the builder holds one non-zero digit, or two digits with a non-zero ten -/
def Held (r : List Nat) : Prop := (∃ x, x ≠ 0 ∧ r = [x]) ∨ (∃ u t, t ≠ 0 ∧ r = [u, t])

theorem held_dig (n : Nat) (h0 : n ≠ 0) (h : n < 100) : Held (dig n) := by
  unfold dig
  by_cases h10 : n < 10
  · rw [if_pos h10]; exact Or.inl ⟨n, h0, rfl⟩
  · rw [if_neg h10]; exact Or.inr ⟨n % 10, n / 10, by omega, rfl⟩

theorem plain_nul : Plain w!"nul" (.put [0]) := ⟨by decide, by rfl, by decide⟩

theorem exec_zero (r : List Nat) (f : Nat) (hr : Held r) :
    (Act.put [0]).exec (mkf r f) = (some .overlap, mkf r f, 0) := by
  rcases hr with ⟨x, _, rfl⟩ | ⟨u, t, _, rfl⟩ <;> simp [Act.exec, DS.put, mkf, allZero]

theorem exec_unit (r : List Nat) (f d : Nat) (hr : Held r) :
    (T2N.Nl.unit d).exec (mkf r f) = (some .nan, mkf r f, 0) := by
  rcases hr with ⟨x, hx, rfl⟩ | ⟨u, t, ht, rfl⟩ <;>
    simp [T2N.Nl.unit, Act.when, Act.exec, Guard.eval, DS.isFree, DS.isEmpty, mkf, allZero, *]

theorem exec_teen (r : List Nat) (f y : Nat) (hr : Held r) :
    (Act.put [1, y]).exec (mkf r f) = (some .overlap, mkf r f, 0) := by
  rcases hr with ⟨x, hx, rfl⟩ | ⟨u, t, ht, rfl⟩ <;> simp [Act.exec, DS.put, mkf, allZero, *]

/-- a tens word after a unit word (flag `TENS` set) -/
theorem exec_tens_flag (x t : Nat) : (T2N.Nl.tens t).exec (mkf [x] 1) = (some .nan, mkf [x] 1, 0) := by
  simp [T2N.Nl.tens, Act.when, Act.exec, Guard.eval, hasBits, mkf]

/-- a tens word on two digits with a non-zero ten -/
theorem exec_tens_two (u t' t f : Nat) (ht' : t' ≠ 0) (ht : t ≠ 0) :
    (T2N.Nl.tens t).exec (mkf [u, t'] f) = (some (if hasBits f 1 then .nan else .overlap), mkf [u, t'] f, 0) := by
  by_cases hf : hasBits f 1 = true <;>
    simp [T2N.Nl.tens, Act.when, Act.exec, Guard.eval, DS.putDigitAt, mkf, hf, ht, ht']

/-- **the fusion step**: a tens word on a single unit digit with the flag `TENS` cleared (by `en`) -/
theorem exec_tens_unit (x t : Nat) (ht : t ≠ 0) : (T2N.Nl.tens t).exec (mkf [x] 0) = (none, mkf [x, t] 0, 0) := by
  simp [T2N.Nl.tens, Act.when, Act.exec, Guard.eval, hasBits, DS.putDigitAt, mkf, ht]

theorem W_zero : W 0 = w!"nul" := rfl

theorem W_unit (d : Nat) (h0 : d ≠ 0) (h9 : d < 10) : W d = Nl.unitWord (fun _ => 0) 0 d := by
  have : d = 1 ∨ d = 2 ∨ d = 3 ∨ d = 4 ∨ d = 5 ∨ d = 6 ∨ d = 7 ∨ d = 8 ∨ d = 9 := by omega
  rcases this with rfl | rfl | rfl | rfl | rfl | rfl | rfl | rfl | rfl <;> rfl

theorem W_teen (y : Nat) (h9 : y < 10) : W (10 + y) = Nl.unitWord (fun _ => 0) 0 (10 + y) := by
  have : y = 0 ∨ y = 1 ∨ y = 2 ∨ y = 3 ∨ y = 4 ∨ y = 5 ∨ y = 6 ∨ y = 7 ∨ y = 8 ∨ y = 9 := by omega
  rcases this with rfl | rfl | rfl | rfl | rfl | rfl | rfl | rfl | rfl | rfl <;> rfl

theorem W_tens (n : Nat) (h20 : 20 ≤ n) (hu : n % 10 = 0) : W n = Nl.tensWord (n / 10) := by
  unfold W
  rw [if_neg (by omega), if_pos hu]

/-- **the second word is refused** by a builder that holds a number below 100 — unless it is a round ten coming after a lone
unit whose flag `TENS` has been cleared (the fusion) -/
theorem rej_second (r : List Nat) (f b : Nat) (hr : Held r) (hb : b < 100)
    (hcase : 20 ≤ b → b % 10 = 0 → f = 1 ∨ ∃ u t, t ≠ 0 ∧ r = [u, t]) : Rej (W b) r f := by
  by_cases h0 : b = 0
  · subst h0
    rw [W_zero]
    exact rej_plain _ _ r f 0 .overlap plain_nul (by intro h; cases h) (exec_zero r f hr)
  by_cases h10 : b < 10
  · rw [W_unit b h0 h10]
    exact rej_plain _ _ r f 0 .nan (plain_unit _ 0 b h0 h10) (by intro h; cases h) (exec_unit r f b hr)
  by_cases h20 : b < 20
  · obtain ⟨y, rfl⟩ : ∃ y, b = 10 + y := ⟨b - 10, by omega⟩
    rw [W_teen y (by omega)]
    exact rej_plain _ _ r f 0 .overlap (plain_teen _ 0 y (by omega)) (by intro h; cases h) (exec_teen r f y hr)
  by_cases hu : b % 10 = 0
  · rw [W_tens b (by omega) hu]
    have hp := plain_tens (b / 10) (by omega) (by omega)
    rcases hcase (by omega) hu with hf | ⟨u, t, ht, rfl⟩
    · subst hf
      rcases hr with ⟨x, _, rfl⟩ | ⟨u, t, ht, rfl⟩
      · exact rej_plain _ _ _ 1 0 .nan hp (by intro h; cases h) (exec_tens_flag x (b / 10))
      · refine rej_plain _ _ _ 1 0 _ hp ?_ (exec_tens_two u t (b / 10) 1 ht (by omega))
        split <;> (intro h; cases h)
    · refine rej_plain _ _ _ f 0 _ hp ?_ (exec_tens_two u t (b / 10) f ht (by omega))
      split <;> (intro h; cases h)
  · obtain ⟨c1, c2⟩ := cmp_facts b (by omega) hb hu
    refine ⟨.overlap, f, (by intro h; cases h), ?_⟩
    rw [apply_compound (W b) _ (mkf r f) c1 c2]
    exact merge_rej r f b (by omega) hb hr

/-! ## 4. the scanner on two words (and the conjunction) -/

/-- a word answered `Incomplete` (the conjunction): the scanner keeps the match open, nothing else changes -/
theorem step_incomplete (l : Lang) (thr : Nat → Bool) (s : Scanner) (pos : Nat) (b b' : DS) (q : List Word) (w : Word)
    (hw : skipW w = false ∧ l.isDecSep w = false) (hst : SQ s b q) (ha : l.apply w b = (some .incomplete, b')) :
    ∃ s', s.push (scanCfg l thr) pos (wt w) = .ok s' ∧ SQ s' b' q := by
  obtain ⟨hp, hh, hq⟩ := hst
  have hpush : s.parser.push l w = (some .incomplete, { int := b' }) := by
    rw [EnExt.parser_push_nosep l s.parser w (by rw [hp]) hw.2, hp]
    have ha' : l.apply w ({ int := b } : Parser).int = (some .incomplete, b') := ha
    rw [ha']
  rw [EnExt.push_word l thr s pos w hw.1, hpush]
  exact ⟨_, rfl, rfl, hh, hq⟩

theorem noskip_of_accept (w : Word) (b b' : DS) (h : Nl.apply w b = (none, b')) :
    skipW w = false ∧ Nl.lang.isDecSep w = false :=
  accOk_nl w b (Or.inl (by show (Nl.apply w b).1 = none; rw [h]))

theorem noskip_en : skipW w!"en" = false ∧ Nl.lang.isDecSep w!"en" = false := ⟨by decide, by decide⟩

/-- `en` on a builder: `Incomplete`, the flags are cleared -/
theorem apply_en (b : DS) : Nl.apply w!"en" b = (some .incomplete, { b with flags := 0 }) := by
  show Nl.applyFuel (1 + 1) _ _ = _
  rw [applyFuel_err 1 _ _ b b 0 .incomplete plain_en rfl]

/-- **both numbers**: the first word is accepted, (the conjunction keeps the match open,) the second word is refused: the
first number ends and the second word starts the next one -/
theorem scan_two (w1 w2 : Word) (cj : Bool) (b1 b1' b2 : DS) (e : Err) (t1 t2 : Word) (v1 v2 : Value)
    (A1 : Nl.apply w1 DS.new = (none, b1))
    (R : Nl.apply w2 (if cj then { b1 with flags := 0 } else b1) = (some e, b1')) (he : e ≠ .incomplete)
    (hne1 : b1'.isEmpty = false) (hf1 : Nl.lang.formatW b1' = .ok (t1, v1))
    (A2 : Nl.apply w2 DS.new = (none, b2)) (hne2 : b2.isEmpty = false) (hf2 : Nl.lang.formatW b2 = .ok (t2, v2)) :
    occTexts Nl.lang zeroThr ([w1] ++ (if cj then [w!"en"] else []) ++ [w2]) = some [t1, t2] := by
  have hw1 := noskip_of_accept w1 _ _ A1
  have hw2 := noskip_of_accept w2 _ _ A2
  have st0 : SQ {} DS.new [] := ⟨rfl, rfl, rfl⟩
  obtain ⟨s1, e1, st1⟩ := step_accept Nl.lang zeroThr {} 0 DS.new b1 [] w1 hw1 st0 A1
  cases cj with
  | false =>
    obtain ⟨s2, e2, st2⟩ := step_reject Nl.lang s1 (0 + 2) b1 b1' b2 e [] t1 v1 w2 hw2 st1 R he hne1 hf1 A2
    obtain ⟨sf, e3, hq⟩ := finalize_pending Nl.lang s2 b2 _ t2 v2 st2 hne2 hf2
    show occTexts Nl.lang zeroThr [w1, w2] = _
    unfold occTexts
    rw [EnExt.findNumbers_words, pushWords, e1]
    dsimp only
    rw [pushWords, e2]
    dsimp only
    rw [pushWords]
    dsimp only
    rw [e3]
    dsimp only
    rw [hq]
    rfl
  | true =>
    obtain ⟨s2, e2, st2⟩ := step_incomplete Nl.lang zeroThr s1 (0 + 2) b1 _ [] w!"en" noskip_en st1 (apply_en b1)
    obtain ⟨s3, e3, st3⟩ := step_reject Nl.lang s2 (0 + 2 + 2) _ b1' b2 e [] t1 v1 w2 hw2 st2 R he hne1 hf1 A2
    obtain ⟨sf, e4, hq⟩ := finalize_pending Nl.lang s3 b2 _ t2 v2 st3 hne2 hf2
    show occTexts Nl.lang zeroThr [w1, w!"en", w2] = _
    unfold occTexts
    rw [EnExt.findNumbers_words, pushWords, e1]
    dsimp only
    rw [pushWords, e2]
    dsimp only
    rw [pushWords, e3]
    dsimp only
    rw [pushWords]
    dsimp only
    rw [e4]
    dsimp only
    rw [hq]
    rfl

/-- a run of the interpreter that ends on a non-empty builder validates -/
theorem validate_of_run (ws : List Word) (r : DS) (t : Word) (v : Value)
    (hex : execGroupFrom Nl.apply ws DS.new false = .ok r) (hne : r.isEmpty = false)
    (hf : Nl.lang.formatW r = .ok (t, v)) : text2digitsWords Nl.lang ws = .ok t := by
  have hex' : execGroup Nl.lang.apply ws = .ok r := hex
  unfold text2digitsWords
  rw [hex']
  dsimp only
  rw [hne, if_neg Bool.false_ne_true, hf]

/-- **one number**: first word, `en`, second word all taken by the same builder -/
theorem scan_three (w1 w3 : Word) (b1 b3 : DS) (t : Word) (v : Value)
    (A1 : Nl.apply w1 DS.new = (none, b1)) (A3 : Nl.apply w3 { b1 with flags := 0 } = (none, b3))
    (hne : b3.isEmpty = false) (hf : Nl.lang.formatW b3 = .ok (t, v)) :
    occTexts Nl.lang zeroThr [w1, w!"en", w3] = some [t] := by
  apply scan_of_validate_nl
  apply validate_of_run _ b3 t v _ hne hf
  rw [execGroupFrom, A1]
  dsimp only
  rw [execGroupFrom, apply_en b1]
  dsimp only
  rw [execGroupFrom, A3]
  dsimp only
  rw [execGroupFrom, if_neg Bool.false_ne_true]

/-! ## 5. the pair rule -/

theorem expected_zero (b : Nat) (cj : Bool) : expected 0 b cj = ['0' :: decChars b] := by
  unfold expected fused
  rw [if_neg (by omega)]
  rfl

theorem expected_both (a b : Nat) (cj : Bool) (ha : a ≠ 0)
    (h : ¬ (cj = true ∧ 1 ≤ a ∧ a ≤ 9 ∧ 20 ≤ b ∧ b % 10 = 0)) : expected a b cj = [decChars a, decChars b] := by
  unfold expected fused
  rw [if_neg h]
  dsimp only
  rw [if_neg ha]

theorem expected_fused (a b : Nat) (h1 : 1 ≤ a) (h2 : a ≤ 9) (h3 : 20 ≤ b) (h4 : b % 10 = 0) :
    expected a b true = [decChars (b + a)] := by
  unfold expected fused
  rw [if_pos ⟨rfl, h1, h2, h3, h4⟩]

theorem first_pos (a : Nat) (h : a ≠ 0) : first a = mkf (dig a) (fl1 a) := by
  unfold first; rw [if_neg h]

/-- a leading `nul`, the conjunction, then a non-zero number: one number, the zero in front -/
theorem zero_en (b : Nat) (hb0 : b ≠ 0) (hb : b < 100) :
    occTexts Nl.lang zeroThr [w!"nul", w!"en", W b] = some ['0' :: decChars b] := by
  obtain ⟨fl, hr⟩ := cardinal_run_lz (fun _ => 0) 1 b hb0 (by omega)
  have hs : Nl.cardinal (fun _ => 0) b = [W b] := std_eq b hb
  rw [hs] at hr
  obtain ⟨hne, _, hf⟩ := format_lz 1 b fl hb0
  apply scan_of_validate_nl
  apply validate_of_run _ _ _ _ _ hne hf
  rw [execGroupFrom, show Nl.apply w!"nul" DS.new = (none, setLz 1 DS.new) from rfl]
  dsimp only
  rw [execGroupFrom, apply_en]
  dsimp only
  exact hr

/-- **C08, pair rule (nl)**: for all `a, b < 100` in standard spelling, with or without `en` between them, the scanner
(threshold 0) reports exactly `expected a b conj` -/
theorem C08_pairs_nl (a b : Nat) (ha : a < 100) (hb : b < 100) (cj : Bool) :
    occTexts Nl.lang zeroThr (std a ++ (if cj then [Spec.Nl.conj] else []) ++ std b) = some (expected a b cj) := by
  rw [std_eq a ha, std_eq b hb]
  by_cases ha0 : a = 0
  · subst ha0
    rw [expected_zero]
    by_cases hb0 : b = 0
    · subst hb0
      cases cj <;> decide +kernel
    · cases cj with
      | false =>
        have := C16_scan_nl (fun _ => 0) 1 b (by omega) (by omega)
        rw [show Spec.Nl.cardinal (fun _ => 0) b = [W b] from std_eq b hb] at this
        exact this
      | true => exact zero_en b hb0 hb
  · have A1 := apply_first a ha
    rw [first_pos a ha0] at A1
    have A2 := apply_first b hb
    obtain ⟨hne2, v2, hf2⟩ := fmt_first b hb
    have hheld := held_dig a ha0 ha
    by_cases hfu : cj = true ∧ 1 ≤ a ∧ a ≤ 9 ∧ 20 ≤ b ∧ b % 10 = 0
    · obtain ⟨rfl, h1, h2, h3, h4⟩ := hfu
      rw [expected_fused a b h1 h2 h3 h4]
      have hd : dig a = [a] := by unfold dig; rw [if_pos (by omega)]
      have hd' : dig (b + a) = [a, b / 10] := by
        unfold dig; rw [if_neg (by omega)]
        rw [show (b + a) % 10 = a from by omega, show (b + a) / 10 = b / 10 from by omega]
      obtain ⟨hne, v, hf⟩ := fmt_dig (b + a) 0 (by omega) (by omega)
      rw [hd'] at hne hf
      rw [hd] at A1
      have A3 : Nl.apply (W b) { mkf [a] (fl1 a) with flags := 0 } = (none, mkf [a, b / 10] 0) := by
        rw [W_tens b h3 h4]
        show Nl.applyFuel (1 + 1) _ (mkf [a] 0) = _
        rw [applyFuel_ok 1 _ _ _ _ _ (plain_tens (b / 10) (by omega) (by omega)) (exec_tens_unit a (b / 10) (by omega))]
        rfl
      exact scan_three (W a) (W b) _ _ _ v A1 A3 hne hf
    · rw [expected_both a b cj ha0 hfu]
      have hR : Rej (W b) (dig a) (if cj then 0 else fl1 a) := by
        apply rej_second _ _ _ hheld hb
        intro h20 hu
        by_cases h10 : a < 10
        · left
          cases cj with
          | false => show fl1 a = 1; unfold fl1; rw [if_pos h10]
          | true => exact absurd ⟨rfl, by omega, by omega, h20, hu⟩ hfu
        · right
          exact ⟨a % 10, a / 10, by omega, by unfold dig; rw [if_neg h10]⟩
      obtain ⟨e, f', he, R⟩ := hR
      obtain ⟨hne1, v1, hf1⟩ := fmt_dig a f' ha0 ha
      refine scan_two (W a) (W b) cj _ _ _ e _ _ v1 v2 A1 ?_ he hne1 hf1 A2 hne2 hf2
      cases cj with
      | false => exact R
      | true => exact R

/-- the scanner output is one of the outcomes the property allows: both numbers, the zero-prefixed second number, or a single
number one of whose spellings consists of exactly those words -/
theorem C08_pairs_nl_allowed (a b : Nat) (ha : a < 100) (hb : b < 100) (cj : Bool) :
    ∃ out, occTexts Nl.lang zeroThr (std a ++ (if cj then [Spec.Nl.conj] else []) ++ std b) = some out ∧
      (out = [decChars a, decChars b] ∨ (a = 0 ∧ out = ['0' :: decChars b]) ∨
        ∃ c k, k < 48 ∧ out = [decChars c] ∧
          norm (Spec.Nl.cardinal (varOfSeed k) c) = norm (std a ++ std b)) := by
  refine ⟨_, C08_pairs_nl a b ha hb cj, ?_⟩
  unfold expected
  cases hfu : fused a b cj with
  | some c =>
    obtain ⟨k, hk, hs⟩ := fused_is_spelling a b ha hb cj c hfu
    exact Or.inr (Or.inr ⟨c, k, hk, rfl, hs⟩)
  | none =>
    dsimp only
    by_cases ha0 : a = 0
    · rw [if_pos ha0]; exact Or.inr (Or.inl ⟨ha0, rfl⟩)
    · rw [if_neg ha0]; exact Or.inl rfl

/-- instances: the phrase and the expected output are computed by the kernel -/
theorem pairs_instance (a b : Nat) (cj : Bool) (ws out : List Word) (ha : a < 100) (hb : b < 100)
    (h1 : (std a ++ (if cj then [Spec.Nl.conj] else []) ++ std b) = ws) (h2 : expected a b cj = out) :
    occTexts Nl.lang zeroThr ws = some out := by
  rw [← h1, ← h2]; exact C08_pairs_nl a b ha hb cj

/-- `twintig twaalf` ↦ `20 12` (never 32) -/
example : occTexts Nl.lang zeroThr [w!"twintig", w!"twaalf"] = some [w!"20", w!"12"] :=
  pairs_instance 20 12 false _ _ (by decide) (by decide) (by decide +kernel) (by decide +kernel)

/-- `vier en twintig` ↦ `24` (the split spelling of `vierentwintig`), but `vier twintig` ↦ `4 20` -/
example : occTexts Nl.lang zeroThr [w!"vier", w!"en", w!"twintig"] = some [w!"24"] :=
  pairs_instance 4 20 true _ _ (by decide) (by decide) (by decide +kernel) (by decide +kernel)

example : occTexts Nl.lang zeroThr [w!"vier", w!"twintig"] = some [w!"4", w!"20"] :=
  pairs_instance 4 20 false _ _ (by decide) (by decide) (by decide +kernel) (by decide +kernel)

/-- `eenentwintig en drieëndertig` ↦ `21 33`; `nul en zeven` ↦ `07` -/
example : occTexts Nl.lang zeroThr [w!"eenentwintig", w!"en", w!"drieëndertig"] = some [w!"21", w!"33"] :=
  pairs_instance 21 33 true _ _ (by decide) (by decide) (by decide +kernel) (by decide +kernel)

example : occTexts Nl.lang zeroThr [w!"nul", w!"en", w!"zeven"] = some [w!"07"] :=
  pairs_instance 0 7 true _ _ (by decide) (by decide) (by decide +kernel) (by decide +kernel)

end T2N.PairsNl
