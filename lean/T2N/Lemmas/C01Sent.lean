/-
  T2N.Lemmas.C01Sent — C01, "in a sentence" half for fr, es, nl, de: every spelled cardinal is found by the
  scanner as exactly one occurrence.
-/
import T2N.Lemmas.Lift
import T2N.Lemmas.Inert
import T2N.Lemmas.C01Fr
import T2N.Lemmas.C01Es
import T2N.Lemmas.C01Nl
import T2N.Lemmas.C01De
import T2N.Lemmas.C01Pt
import T2N.Lemmas.C01It

namespace T2N.C01Sent
open T2N T2N.Lift T2N.Spec

/-! ## generic part -/

theorem decDigits_lt : ∀ (n : Nat), ∀ d ∈ decDigits n, d < 10 := by
  intro n
  induction n using Nat.strongRecOn with
  | _ n ih =>
    intro d hd
    rw [decDigits] at hd
    by_cases h : n < 10
    · rw [if_pos h] at hd
      have : d = n := by simpa using hd
      omega
    · rw [if_neg h] at hd
      rcases List.mem_append.mp hd with hd | hd
      · exact ih (n / 10) (by omega) d hd
      · have : d = n % 10 := by simpa using hd
        omega

theorem digitChar_toNat (d : Nat) (h : d < 10) : (digitChar d).toNat = 48 + d := by
  have : ∀ d, d < 10 → (digitChar d).toNat = 48 + d := by decide
  exact this d h

theorem digitChar_inj (d d' : Nat) (h' : d' < 10) (h : digitChar d = digitChar d') : d = d' := by
  have h2 := digitChar_toNat d' h'
  rw [← h] at h2
  unfold digitChar at h2
  by_cases hv : (48 + d).isValidChar
  · rw [Char.ofNat, dif_pos hv] at h2
    have : (Char.ofNatAux (48 + d) hv).toNat = 48 + d := rfl
    omega
  · rw [Char.ofNat, dif_neg hv] at h2
    have h3 : (0 : Nat) = 48 + d' := h2
    omega

theorem map_digitChar_inj : ∀ (l l' : List Nat), (∀ d ∈ l', d < 10) → l.map digitChar = l'.map digitChar → l = l'
  | [], [], _, _ => rfl
  | [], _ :: _, _, h => by cases h
  | _ :: _, [], _, h => by cases h
  | a :: l, b :: l', hb, h => by
    rw [List.map_cons, List.map_cons] at h
    injection h with h1 h2
    rw [digitChar_inj a b (hb b List.mem_cons_self) h1,
      map_digitChar_inj l l' (fun d hd => hb d (List.mem_cons_of_mem _ hd)) h2]

/-- an ASCII digit -/
def isDig (c : Char) : Bool := decide (48 ≤ c.toNat) && decide (c.toNat ≤ 57)

theorem decChars_dig (n : Nat) : ∀ c ∈ decChars n, isDig c = true := by
  intro c hc
  unfold decChars at hc
  obtain ⟨d, hd, rfl⟩ := List.mem_map.mp hc
  have : ∀ d, d < 10 → isDig (digitChar d) = true := by decide
  exact this d (decDigits_lt n d hd)

theorem mk_last (m : Mk) : ∃ c t, m.chars.reverse = c :: t ∧ isDig c = false := by
  cases m <;> exact ⟨_, _, rfl, rfl⟩

/-- the value and the ordinal flag of a builder whose text is the decimal digits of `n` -/
theorem value_of_format (l : Lang) (ds : DS) (n : Nat) (val : Value)
    (hf : l.formatW ds = .ok (decChars n, val)) : val = .dec (decDigits n) [] ∧ ds.isOrdinal = false := by
  unfold Lang.formatW at hf
  split at hf
  · cases hf
  · cases hm : ds.marker with
    | none =>
      rw [hm] at hf
      dsimp only at hf
      injection hf with hf
      injection hf with h1 h2
      have : ds.render = decDigits n := map_digitChar_inj _ _ (decDigits_lt n) h1
      rw [this] at h2
      exact ⟨h2.symm, by unfold DS.isOrdinal; rw [hm]; rfl⟩
    | fraction m =>
      rw [hm] at hf
      dsimp only at hf
      injection hf with hf
      injection hf with h1 h2
      have := decChars_dig n '/' (by rw [← h1]; simp)
      exact absurd this (by decide)
    | ordinal m =>
      rw [hm] at hf
      dsimp only at hf
      injection hf with hf
      injection hf with h1 h2
      obtain ⟨c, t, hc, hd⟩ := mk_last m
      have hmem : c ∈ decChars n := by
        rw [← h1, List.mem_append]
        right
        have : c ∈ m.chars.reverse := by rw [hc]; exact List.mem_cons_self
        exact List.mem_reverse.mp this
      rw [decChars_dig n c hmem] at hd
      cases hd

/-- a word token skipped by the scanner is `-` or white space only (possibly empty) -/
theorem skipped_cases (l : Lang) (thr : Nat → Bool) (w : Word)
    (h : Scanner.isSkipped (scanCfg l thr) (wtok w) = true) : w = ['-'] ∨ ∀ c ∈ w, simpleIsWs c = true := by
  unfold Scanner.isSkipped at h
  rcases (Bool.or_eq_true _ _).mp h with h | h
  · exact Or.inl (by simpa [wtok] using h)
  · exact Or.inr (fun c hc => List.all_eq_true.mp h c hc)

/-- **from the validator to the scanner, for a spelled cardinal**: a phrase that validates to the decimal
digits of `n`, in a language that refuses the skipped tokens (`-`, white space) in every state, and whose
first word is not answered `Incomplete` by the fresh builder, is found as one occurrence with value `n`. -/
theorem scan_sentence_of_valid (l : Lang) (hmem : l ∈ allLangs) (hl : LangAgree l)
    (hskip : ∀ w, (w = ['-'] ∨ ∀ c ∈ w, simpleIsWs c = true) →
      ∀ b, ∃ e, (l.apply w b).1 = some e ∧ e ≠ .incomplete)
    (ws : List Word) (n : Nat) (hval : text2digitsWords l ws = .ok (decChars n))
    (hfirst : ∀ w ∈ ws.head?, (l.apply w DS.new).1 ≠ some .incomplete)
    (pre post : List Word) (hpre : ∀ w ∈ pre, l.Rejects w) (hpost : ∀ w ∈ post, l.Rejects w) :
    findNumbers (scanCfg l zeroThr) (wordTokens (pre ++ ws ++ post)) =
      .ok [⟨2 * pre.length, 2 * pre.length + (2 * ws.length - 1), decChars n,
        .dec (decDigits n) [], false⟩] := by
  obtain ⟨ds0, _, hx0, _, _⟩ := text2digitsWords_ok hval
  have hst := execGroupFrom_stepsOk _ _ _ _ _ hx0
  have hws : ∀ w ∈ ws, Scanner.isSkipped (scanCfg l zeroThr) (wtok w) = false ∧
      (scanCfg l zeroThr).lang.isDecSep w = false := by
    intro w hw
    refine ⟨?_, nosep_of_valid_builtin l hmem ws _ hval w hw⟩
    cases hs : Scanner.isSkipped (scanCfg l zeroThr) (wtok w) with
    | false => rfl
    | true =>
      obtain ⟨b', hb'⟩ := stepsOk_mem _ _ _ hst w hw
      obtain ⟨e, he, hne⟩ := hskip w (skipped_cases l zeroThr w hs) b'
      rcases hb' with hb' | hb'
      · rw [he] at hb'; cases hb'
      · rw [he] at hb'; injection hb' with hb'; exact absurd hb' hne
  have hfirst' : ∀ w ∈ ws.head?, ((scanCfg l zeroThr).lang.apply w DS.new).1 = none := by
    intro w hw
    cases ws with
    | nil => cases hw
    | cons w0 t =>
      have : w = w0 := by simpa using hw.symm
      subst this
      rcases hst.1 with h | h
      · exact h
      · exact absurd h (hfirst w (by simp))
  obtain ⟨ds, val, hx, hf, hfind⟩ := valid_is_one_sentence (scanCfg l zeroThr) hl (fun _ _ => rfl)
    (fun _ => rfl) rfl pre ws post (decChars n)
    (fun w hw => Or.inr (Or.inr (not_accepted_of_rejects _ _ (hpre w hw))))
    (fun w hw => Or.inr (Or.inr (hpost w hw))) hws hfirst' hval
  obtain ⟨h1, h2⟩ := value_of_format l ds n val hf
  rw [hfind, h1, h2]

theorem scan_all_of_valid (l : Lang) (hmem : l ∈ allLangs) (hl : LangAgree l)
    (hskip : ∀ w, (w = ['-'] ∨ ∀ c ∈ w, simpleIsWs c = true) →
      ∀ b, ∃ e, (l.apply w b).1 = some e ∧ e ≠ .incomplete)
    (ws : List Word) (n : Nat) (hval : text2digitsWords l ws = .ok (decChars n))
    (hfirst : ∀ w ∈ ws.head?, (l.apply w DS.new).1 ≠ some .incomplete) :
    findNumbers (scanCfg l zeroThr) (wordTokens ws) =
      .ok [⟨0, (wordTokens ws).length, decChars n, .dec (decDigits n) [], false⟩] := by
  have := scan_sentence_of_valid l hmem hl hskip ws n hval hfirst [] [] (fun _ h => by cases h)
    (fun _ h => by cases h)
  rw [List.nil_append, List.append_nil] at this
  rw [this, length_wordTokens]
  simp

/-- white-space characters are not letters -/
theorem ws_sepish (ls : List Char) (hls : (ls.all fun c => !simpleIsWs c) = true) (w : Word)
    (h : ∀ c ∈ w, simpleIsWs c = true) : Sepish ls w := by
  intro c hc hl
  have := List.all_eq_true.mp hls c hl
  rw [h c hc] at this
  cases this

/-- a skipped word shares no character with the letters `ls` (which contain neither `-` nor white space) -/
theorem skipped_sepish (ls : List Char) (hls : (ls.all fun c => !simpleIsWs c && c != '-') = true) (w : Word)
    (h : w = ['-'] ∨ ∀ c ∈ w, simpleIsWs c = true) : Sepish ls w := by
  rcases h with rfl | h
  · intro c hc hl
    have : c = '-' := by simpa using hc
    subst this
    have := List.all_eq_true.mp hls _ hl
    simp at this
  · intro c hc hl
    have := List.all_eq_true.mp hls c hl
    rw [h c hc] at this
    cases this

/-! ## Spanish -/

namespace Es

theorem mem_all : T2N.Es.lang ∈ allLangs := by simp [allLangs]

theorem hskip (w : Word) (h : w = ['-'] ∨ ∀ c ∈ w, simpleIsWs c = true) (b : DS) :
    ∃ e, (T2N.Es.lang.apply w b).1 = some e ∧ e ≠ .incomplete := by
  have hs : T2N.Es.Sepish w := skipped_sepish _ (by decide) w h
  show ∃ e, (T2N.Es.apply w b).1 = some e ∧ e ≠ .incomplete
  rw [T2N.Es.apply_sepish_nan w hs b]
  split
  · exact ⟨.overlap, rfl, by intro h; cases h⟩
  · exact ⟨.nan, rfl, by intro h; cases h⟩

theorem new_not_incomplete :
    (T2N.Es.vocab.all fun p => (p.2.exec DS.new).1 != some .incomplete) = true := by decide

/-- no Spanish word is answered `Incomplete` by the fresh builder (`y` needs two digits) -/
theorem first (w : Word) : (T2N.Es.lang.apply w DS.new).1 ≠ some .incomplete := by
  have hni := lookup_all' (fun a => (a.exec DS.new).1 != some .incomplete) T2N.Es.vocab
    new_not_incomplete (by decide) (T2N.Es.lemmatize w)
  show (T2N.Es.apply w DS.new).1 ≠ some .incomplete
  unfold T2N.Es.apply
  dsimp only
  rw [if_neg (by simp [DS.new, DS.isEmpty])]
  cases hr : ((T2N.Es.vocab.lookup (T2N.Es.lemmatize w)).getD (.fail .nan)).exec DS.new with
  | mk r rest =>
    rw [hr] at hni
    dsimp only at hni ⊢
    have hne : r ≠ some .incomplete := by
      intro he; subst he; simp at hni
    split
    · exact hne
    · exact hne

theorem scan_es_sentence (hl : LangAgree T2N.Es.lang) (v : Var) (n : Nat) (h : n < 10 ^ 12)
    (pre post : List Word) (hpre : ∀ w ∈ pre, T2N.Es.lang.Rejects w) (hpost : ∀ w ∈ post, T2N.Es.lang.Rejects w) :
    findNumbers (scanCfg T2N.Es.lang zeroThr) (wordTokens (pre ++ Spec.Es.cardinal v n ++ post)) =
      .ok [⟨2 * pre.length, 2 * pre.length + (2 * (Spec.Es.cardinal v n).length - 1), decChars n,
        .dec (decDigits n) [], false⟩] :=
  scan_sentence_of_valid _ mem_all hl hskip _ n (C01Es.C01_validate_es v n h) (fun w _ => first w)
    pre post hpre hpost

theorem scan_es_all (hl : LangAgree T2N.Es.lang) (v : Var) (n : Nat) (h : n < 10 ^ 12) :
    findNumbers (scanCfg T2N.Es.lang zeroThr) (wordTokens (Spec.Es.cardinal v n)) =
      .ok [⟨0, (wordTokens (Spec.Es.cardinal v n)).length, decChars n, .dec (decDigits n) [], false⟩] :=
  scan_all_of_valid _ mem_all hl hskip _ n (C01Es.C01_validate_es v n h) (fun w _ => first w)

end Es

/-! ## French -/

namespace Fr
open T2N.C01Fr T2N.C01En

theorem mem_all : T2N.Fr.lang ∈ allLangs := by simp [allLangs]

theorem hskip (w : Word) (h : w = ['-'] ∨ ∀ c ∈ w, simpleIsWs c = true) (b : DS) :
    ∃ e, (T2N.Fr.lang.apply w b).1 = some e ∧ e ≠ .incomplete := by
  show ∃ e, (T2N.Fr.apply w b).1 = some e ∧ e ≠ .incomplete
  rcases h with rfl | h
  · rw [T2N.Fr.apply_dash_nan ['-'] (by decide) (by decide) b]
    exact ⟨.nan, rfl, by intro h; cases h⟩
  · have hs : T2N.Fr.Sepish w := ws_sepish _ (by decide) w h
    rw [T2N.Fr.apply_sepish_nan w hs b]
    exact ⟨.nan, rfl, by intro h; cases h⟩

theorem new_not_incomplete :
    (T2N.Fr.vocab.all fun p => (p.2.exec DS.new).1 != some .incomplete) = true := by decide

/-- no French word without hyphen is answered `Incomplete` by the fresh builder (`et` needs two digits) -/
theorem atom_first (w : Word) (h : w.contains '-' = false) :
    (T2N.Fr.apply w DS.new).1 ≠ some .incomplete := by
  have hni := lookup_all' (fun a => (a.exec DS.new).1 != some .incomplete) T2N.Fr.vocab
    new_not_incomplete (by decide) (T2N.Fr.lemmatize w)
  unfold T2N.Fr.apply T2N.Fr.applyFuel
  rw [if_neg (by rw [h]; exact Bool.false_ne_true)]
  dsimp only
  cases hr : ((T2N.Fr.vocab.lookup (T2N.Fr.lemmatize w)).getD (.fail .nan)).exec DS.new with
  | mk r rest =>
    rw [hr] at hni
    dsimp only at hni ⊢
    have hne : r ≠ some .incomplete := by
      intro he; subst he; simp at hni
    split
    · exact hne
    · exact hne

/-- a word that alone leads the fresh builder somewhere is accepted by the fresh builder -/
theorem single_first (W : Word) (N : Nat) (h : StepsE 1 [W] 0 0 N) : (T2N.Fr.apply W DS.new).1 = none := by
  obtain ⟨fl, h⟩ := h
  have h := h []
  rw [List.append_nil, lsb_zero, mkF_new] at h
  show (T2N.Fr.applyFuel (1 + 1) W DS.new).1 = none
  cases hr : T2N.Fr.applyFuel (1 + 1) W DS.new with
  | mk r b' =>
    unfold execGroupFrom at h
    rw [hr] at h
    cases r with
    | none => rfl
    | some e =>
      cases e <;> simp [execGroupFrom] at h

/-- the word has no hyphen, or is accepted by the fresh builder -/
def Good (w : Word) : Prop := w.contains '-' = false ∨ (T2N.Fr.apply w DS.new).1 = none

def HeadGood (ws : List Word) : Prop := ∀ w ∈ ws.head?, Good w

theorem Good.first {w : Word} (h : Good w) : (T2N.Fr.apply w DS.new).1 ≠ some .incomplete := by
  rcases h with h | h
  · exact atom_first w h
  · rw [h]; intro h; cases h

theorem HeadGood.nil : HeadGood [] := fun _ h => by cases h

theorem HeadGood.append {a b : List Word} (ha : HeadGood a) (hb : HeadGood b) : HeadGood (a ++ b) := by
  cases a with
  | nil => exact hb
  | cons x t => exact fun w hw => ha w hw

theorem HeadGood.atoms {a : List Word} (h : Atoms a) : HeadGood a := by
  intro w hw
  cases a with
  | nil => cases hw
  | cons x t =>
    have : w = x := by simpa using hw.symm
    subst this
    exact Or.inl (h w List.mem_cons_self)

theorem HeadGood.single {W : Word} {N : Nat} (h : StepsE 1 [W] 0 0 N) : HeadGood [W] := by
  intro w hw
  have : w = W := by simpa using hw.symm
  subst this
  exact Or.inr (single_first w N h)

theorem rs_atoms (v : Var) (g r : Nat) (sOk : Bool) :
    Atoms (if (r == 0) = true then [] else Spec.Fr.below100 v g r sOk) := by
  split
  · exact Atoms.nil
  · exact below100_atoms v g r sOk

/-- the first word of a group is a numeral without hyphen, or the group is one hyphenated word -/
theorem group_head (v : Var) (g n : Nat) (sOk : Bool) (n0 : n ≠ 0) (n1 : n < 1000) :
    HeadGood (Spec.Fr.group v g n sOk) := by
  have hsingle : ∀ W, Spec.Fr.group v g n sOk = [W] → HeadGood (Spec.Fr.group v g n sOk) := by
    intro W e
    have := group_steps 0 v g n sOk 0 n0 n1 (by decide)
    rw [e] at this ⊢
    exact HeadGood.single this
  have hgen : (∃ W, Spec.Fr.group v g n sOk = [W]) ∨ HeadGood (Spec.Fr.group v g n sOk) := by
    unfold Spec.Fr.group
    dsimp only
    have hh := hundreds_atoms v g (n / 100) (sOk && n % 100 == 0)
    have hr := rs_atoms v g (n % 100) sOk
    generalize Spec.Fr.hundreds v g (n / 100) (sOk && n % 100 == 0) = hs at hh
    generalize (if (n % 100 == 0) = true then [] else Spec.Fr.below100 v g (n % 100) sOk) = rs at hr
    split
    · cases hs with
      | nil =>
        rw [List.nil_append]
        split
        · exact Or.inr HeadGood.nil
        · split
          · exact Or.inr (HeadGood.atoms hr)
          · exact Or.inl ⟨_, rfl⟩
      | cons a t =>
        right
        intro w hw
        have : w = a := by simpa using hw.symm
        subst this
        exact Or.inl (hh w List.mem_cons_self)
    · exact Or.inr (HeadGood.atoms (Atoms.append hh hr))
    · exact Or.inl ⟨_, rfl⟩
  rcases hgen with ⟨W, e⟩ | h
  · exact hsingle W e
  · exact h

theorem thousands_head (v : Var) (n : Nat) (mil : Bool) (n1 : n < 1000) :
    HeadGood (Spec.Fr.thousands v n mil) := by
  by_cases n0 : n = 0
  · subst n0
    unfold Spec.Fr.thousands
    rw [if_pos (by rfl)]
    exact HeadGood.nil
  · have hst := thousands_steps 0 v n mil 0 n1 (by decide)
    unfold Spec.Fr.thousands at hst ⊢
    rw [if_neg (by simp [n0])] at hst ⊢
    by_cases h1 : (n == 1) = true
    · rw [if_pos h1]
      refine HeadGood.atoms (Atoms.cons ?_ Atoms.nil)
      split <;> decide
    · rw [if_neg h1] at hst ⊢
      by_cases hr : Spec.Fr.reform v 1 = true
      · rw [if_pos hr] at hst ⊢
        exact HeadGood.single hst.toE
      · rw [if_neg hr]
        exact HeadGood.append (group_head v 1 n false n0 n1) (HeadGood.atoms (Atoms.cons (by decide) Atoms.nil))

theorem scaled_head (v : Var) (k n : Nat) (n1 : n < 1000) : HeadGood (Spec.Fr.scaled v k n) := by
  unfold Spec.Fr.scaled
  by_cases n0 : n = 0
  · rw [if_pos (by simp [n0])]
    exact HeadGood.nil
  · rw [if_neg (by simp [n0])]
    dsimp only
    refine HeadGood.append (group_head v k n true n0 n1) (HeadGood.atoms (Atoms.cons ?_ Atoms.nil))
    split <;> split <;> decide

theorem low_head (v : Var) (g1 g0 : Nat) (mil : Bool) (h1 : g1 < 1000) (h0 : g0 < 1000) :
    HeadGood (Spec.Fr.low v g1 g0 mil) := by
  have hst := low_steps 0 v g1 g0 mil 0 h1 h0 (by decide)
  unfold Spec.Fr.low at hst ⊢
  dsimp only at hst ⊢
  by_cases hc : (g1 != 0 && g0 != 0 && Spec.Fr.reform v 1 && Spec.Fr.reform v 0) = true
  · rw [if_pos hc] at hst ⊢
    exact HeadGood.single hst
  · rw [if_neg hc]
    refine HeadGood.append (thousands_head v g1 mil h1) ?_
    by_cases hz : g0 = 0
    · rw [if_pos (by simp [hz])]
      exact HeadGood.nil
    · rw [if_neg (by simp [hz])]
      exact group_head v 0 g0 true hz h0

theorem cardinal_head (v : Var) (n : Nat) : HeadGood (Spec.Fr.cardinal v n) := by
  unfold Spec.Fr.cardinal
  split
  · exact HeadGood.atoms (Atoms.cons (by decide) Atoms.nil)
  · dsimp only
    exact HeadGood.append (HeadGood.append (scaled_head v 3 _ (Nat.mod_lt _ (by decide)))
      (scaled_head v 2 _ (Nat.mod_lt _ (by decide))))
      (low_head v _ _ _ (Nat.mod_lt _ (by decide)) (Nat.mod_lt _ (by decide)))

theorem first (v : Var) (n : Nat) : ∀ w ∈ (Spec.Fr.cardinal v n).head?,
    (T2N.Fr.lang.apply w DS.new).1 ≠ some .incomplete :=
  fun w hw => (cardinal_head v n w hw).first

theorem scan_fr_sentence (hl : LangAgree T2N.Fr.lang) (v : Var) (n : Nat) (h : n < 10 ^ 12)
    (pre post : List Word) (hpre : ∀ w ∈ pre, T2N.Fr.lang.Rejects w) (hpost : ∀ w ∈ post, T2N.Fr.lang.Rejects w) :
    findNumbers (scanCfg T2N.Fr.lang zeroThr) (wordTokens (pre ++ Spec.Fr.cardinal v n ++ post)) =
      .ok [⟨2 * pre.length, 2 * pre.length + (2 * (Spec.Fr.cardinal v n).length - 1), decChars n,
        .dec (decDigits n) [], false⟩] :=
  scan_sentence_of_valid _ mem_all hl hskip _ n (C01Fr.C01_validate_fr v n h) (first v n)
    pre post hpre hpost

theorem scan_fr_all (hl : LangAgree T2N.Fr.lang) (v : Var) (n : Nat) (h : n < 10 ^ 12) :
    findNumbers (scanCfg T2N.Fr.lang zeroThr) (wordTokens (Spec.Fr.cardinal v n)) =
      .ok [⟨0, (wordTokens (Spec.Fr.cardinal v n)).length, decChars n, .dec (decDigits n) [], false⟩] :=
  scan_all_of_valid _ mem_all hl hskip _ n (C01Fr.C01_validate_fr v n h) (first v n)

end Fr

/-! ## Dutch -/

namespace Nl
open T2N.C01Nl T2N.C01En

theorem mem_all : T2N.Nl.lang ∈ allLangs := by simp [allLangs]

theorem hskip (w : Word) (h : w = ['-'] ∨ ∀ c ∈ w, simpleIsWs c = true) (b : DS) :
    ∃ e, (T2N.Nl.lang.apply w b).1 = some e ∧ e ≠ .incomplete := by
  have hs : T2N.Nl.Sepish w := skipped_sepish _ (by decide) w h
  show ∃ e, (T2N.Nl.apply w b).1 = some e ∧ e ≠ .incomplete
  rw [T2N.Nl.apply_sepish_nan w hs b]
  exact ⟨.nan, rfl, by intro h; cases h⟩

/-- the first word is accepted by the fresh builder -/
def HeadAcc (ws : List Word) : Prop := ∀ w ∈ ws.head?, (T2N.Nl.apply w DS.new).1 = none

theorem HeadAcc.nil : HeadAcc [] := fun _ h => by cases h

theorem HeadAcc.append {a b : List Word} (ha : HeadAcc a) (hb : HeadAcc b) : HeadAcc (a ++ b) := by
  cases a with
  | nil => exact hb
  | cons x t => exact fun w hw => ha w hw

theorem HeadAcc.append' {a b : List Word} (ha : HeadAcc a) (hne : a ≠ []) : HeadAcc (a ++ b) := by
  cases a with
  | nil => exact absurd rfl hne
  | cons x t => exact fun w hw => ha w hw

/-- a word that alone leads the fresh builder somewhere is accepted by the fresh builder -/
theorem single_first (W : Word) (N : Nat) (h : ∃ fl, Steps 1 [W] 0 0 N fl) :
    (T2N.Nl.apply W DS.new).1 = none := by
  obtain ⟨fl, h⟩ := h
  have h := h []
  rw [List.append_nil, mkf_new] at h
  show (T2N.Nl.applyFuel (1 + 1) W DS.new).1 = none
  cases hr : T2N.Nl.applyFuel (1 + 1) W DS.new with
  | mk r b' =>
    unfold execGroupFrom at h
    rw [hr] at h
    cases r with
    | none => rfl
    | some e =>
      cases e <;> simp [execGroupFrom] at h

theorem HeadAcc.single {W : Word} {N : Nat} (h : ∃ fl, Steps 1 [W] 0 0 N fl) : HeadAcc [W] := by
  intro w hw
  have : w = W := by simpa using hw.symm
  subst this
  exact single_first w N h

theorem HeadAcc.le1 {ws : List Word} {N : Nat} (hlen : ws.length ≤ 1) (h : ∃ fl, Steps 1 ws 0 0 N fl) :
    HeadAcc ws := by
  match ws, hlen, h with
  | [], _, _ => exact HeadAcc.nil
  | [W], _, h => exact HeadAcc.single h

theorem tbl_first : ((w!"honderd" :: w!"duizend" :: lowWs).all fun a =>
    decide ((T2N.Nl.apply a DS.new).1 = none)) = true := by decide +kernel

theorem atom_first {a : Word} (h : a ∈ w!"honderd" :: w!"duizend" :: lowWs) :
    (T2N.Nl.apply a DS.new).1 = none := by
  have := List.all_eq_true.mp tbl_first a h
  exact of_decide_eq_true this

theorem HeadAcc.cons {a : Word} {t : List Word} (h : a ∈ w!"honderd" :: w!"duizend" :: lowWs) :
    HeadAcc (a :: t) := by
  intro w hw
  have : w = a := by simpa using hw.symm
  subst this
  exact atom_first h

theorem low_mem {a : Word} (h : a ∈ lowWs) : a ∈ w!"honderd" :: w!"duizend" :: lowWs :=
  List.mem_cons_of_mem _ (List.mem_cons_of_mem _ h)

theorem hsAtoms_head (v : Var) (g h : Nat) (h9 : h < 10) : HeadAcc (hsAtoms v g h) := by
  unfold hsAtoms
  by_cases h0 : h = 0
  · rw [if_pos h0]; exact HeadAcc.nil
  · rw [if_neg h0]
    by_cases h1 : h = 1
    · rw [if_pos h1]; exact HeadAcc.cons List.mem_cons_self
    · rw [if_neg h1]; exact HeadAcc.cons (low_mem (low_unit (mem_unit v g h h0 h9)))

theorem rsAtoms_head (v : Var) (g r : Nat) (l : Word) (h1 : r < 100) : HeadAcc (rsAtoms v g r l) := by
  unfold rsAtoms
  by_cases h0 : r = 0
  · rw [if_pos h0]; exact HeadAcc.nil
  · rw [if_neg h0]
    by_cases h20 : r < 20
    · rw [if_pos h20]
      by_cases h10 : r < 10
      · exact HeadAcc.cons (low_mem (low_unit (mem_unit v g r h0 h10)))
      · obtain ⟨b, rfl⟩ : ∃ b, r = 10 + b := ⟨r - 10, by omega⟩
        exact HeadAcc.cons (low_mem (low_teen (mem_teen v g b (by omega))))
    · rw [if_neg h20]
      by_cases hu : r % 10 = 0
      · rw [if_pos hu]; exact HeadAcc.cons (low_mem (low_tens (mem_tens _ (by omega) (by omega))))
      · rw [if_neg hu]; exact HeadAcc.cons (low_mem (low_unit (mem_unit v g _ hu (by omega))))

theorem hsW_head (v : Var) (g h : Nat) (h9 : h < 10) : HeadAcc (hsW v g h) := by
  refine HeadAcc.le1 ?_ ⟨0, hsW_steps v g h 0 h9 (by decide)⟩
  unfold hsW; split <;> simp

theorem rsW_head (v : Var) (g r : Nat) (h1 : r < 100) : HeadAcc (rsW v g r) := by
  refine HeadAcc.le1 ?_ (rsW_steps v g r 0 h1 (by decide))
  unfold rsW; split <;> simp

theorem group_head' (v : Var) (g n : Nat) (h0 : n ≠ 0) (h1 : n < 1000) : HeadAcc (Spec.Nl.group v g n) := by
  rcases pick4 v (cp g 1) with hl | hl | hl | hl
  · have := group_steps v g n 0 h0 h1 (by decide)
    rw [group_lvl0 v g n h0 hl] at this ⊢
    exact HeadAcc.single this
  · rw [group_lvl1 v g n hl]
    exact HeadAcc.append (hsW_head v g _ (by omega)) (rsW_head v g _ (by omega))
  · rw [group_lvl2 v g n hl]
    exact HeadAcc.append (hsAtoms_head v g _ (by omega)) (rsW_head v g _ (by omega))
  · rw [group_lvl3 v g n hl]
    exact HeadAcc.append (hsAtoms_head v g _ (by omega)) (rsAtoms_head v g _ _ (by omega))

theorem scaled_head (v : Var) (j g : Nat) (hj : j = 1 ∨ j = 2 ∨ j = 3) (g1 : g < 1000) :
    HeadAcc (Spec.Nl.scaled v j g) := by
  by_cases g0 : g = 0
  · subst g0
    have : Spec.Nl.scaled v j 0 = [] := by unfold Spec.Nl.scaled; rfl
    rw [this]; exact HeadAcc.nil
  · have hst := scaled_steps v j g 0 hj g1 (Nat.zero_mod _)
    rcases scaled_cases v j g g0 with e | ⟨_, e⟩
    · rw [e] at hst ⊢
      exact HeadAcc.single ⟨0, hst⟩
    · rw [e]
      exact HeadAcc.append' (group_head' v j g g0 g1) (group_ne_nil v j g g0)

theorem cardinal_head (v : Var) (n : Nat) (h : n < 10 ^ 12) : HeadAcc (Spec.Nl.cardinal v n) := by
  by_cases hn : n = 0
  · subst hn
    have : Spec.Nl.cardinal v 0 = [w!"nul"] := rfl
    rw [this]
    intro w hw
    have : w = w!"nul" := by simpa using hw.symm
    subst this
    decide +kernel
  · have hst := C01Nl.cardinal_steps v n hn h
    unfold Spec.Nl.cardinal at hst ⊢
    have hn' : (n == 0) = false := by simp [hn]
    rw [hn', if_neg Bool.false_ne_true] at hst
    rw [hn', if_neg Bool.false_ne_true]
    dsimp only at hst ⊢
    have h3 := scaled_head v 3 (n / 1000000000 % 1000) (Or.inr (Or.inr rfl)) (Nat.mod_lt _ (by decide))
    have h2 := scaled_head v 2 (n / 1000000 % 1000) (Or.inr (Or.inl rfl)) (Nat.mod_lt _ (by decide))
    have h1 := scaled_head v 1 (n / 1000 % 1000) (Or.inl rfl) (Nat.mod_lt _ (by decide))
    have h0 : HeadAcc (if (n % 1000 == 0) = true then [] else Spec.Nl.group v 0 (n % 1000)) := by
      by_cases hz : n % 1000 = 0
      · rw [if_pos (by simp [hz])]; exact HeadAcc.nil
      · rw [if_neg (by simp [hz])]; exact group_head' v 0 _ hz (Nat.mod_lt _ (by decide))
    generalize Spec.Nl.scaled v 3 (n / 1000000000 % 1000) = p3 at hst h3 ⊢
    generalize Spec.Nl.scaled v 2 (n / 1000000 % 1000) = p2 at hst h2 ⊢
    generalize Spec.Nl.scaled v 1 (n / 1000 % 1000) = p1 at hst h1 ⊢
    generalize (if (n % 1000 == 0) = true then [] else Spec.Nl.group v 0 (n % 1000)) = p0 at hst h0 ⊢
    by_cases hc : (p1.length == 1 && p0.length == 1 && flag v (cp 1 2)) = true
    · rw [if_pos hc] at hst ⊢
      have hne : p1 ++ p0 ≠ [] := by
        simp only [Bool.and_eq_true, beq_iff_eq] at hc
        intro e
        have := congrArg List.length e
        rw [List.length_append, List.length_nil] at this
        omega
      rw [fuse_eq _ hne] at hst ⊢
      cases hp : p3 ++ p2 with
      | nil =>
        rw [hp] at hst
        rw [List.nil_append] at hst ⊢
        exact HeadAcc.single hst
      | cons x t =>
        have := HeadAcc.append h3 h2
        rw [hp] at this
        exact fun w hw => this w hw
    · rw [if_neg hc]
      exact HeadAcc.append (HeadAcc.append (HeadAcc.append h3 h2) h1) h0

theorem first (v : Var) (n : Nat) (h : n < 10 ^ 12) : ∀ w ∈ (Spec.Nl.cardinal v n).head?,
    (T2N.Nl.lang.apply w DS.new).1 ≠ some .incomplete := by
  intro w hw
  have : (T2N.Nl.apply w DS.new).1 = none := cardinal_head v n h w hw
  show (T2N.Nl.apply w DS.new).1 ≠ some .incomplete
  rw [this]; intro h; cases h

theorem scan_nl_sentence (hl : LangAgree T2N.Nl.lang) (v : Var) (n : Nat) (h : n < 10 ^ 12)
    (pre post : List Word) (hpre : ∀ w ∈ pre, T2N.Nl.lang.Rejects w) (hpost : ∀ w ∈ post, T2N.Nl.lang.Rejects w) :
    findNumbers (scanCfg T2N.Nl.lang zeroThr) (wordTokens (pre ++ Spec.Nl.cardinal v n ++ post)) =
      .ok [⟨2 * pre.length, 2 * pre.length + (2 * (Spec.Nl.cardinal v n).length - 1), decChars n,
        .dec (decDigits n) [], false⟩] :=
  scan_sentence_of_valid _ mem_all hl hskip _ n (C01Nl.C01_validate_nl v n h) (first v n h)
    pre post hpre hpost

theorem scan_nl_all (hl : LangAgree T2N.Nl.lang) (v : Var) (n : Nat) (h : n < 10 ^ 12) :
    findNumbers (scanCfg T2N.Nl.lang zeroThr) (wordTokens (Spec.Nl.cardinal v n)) =
      .ok [⟨0, (wordTokens (Spec.Nl.cardinal v n)).length, decChars n, .dec (decDigits n) [], false⟩] :=
  scan_all_of_valid _ mem_all hl hskip _ n (C01Nl.C01_validate_nl v n h) (first v n h)

end Nl

/-! ## German -/

namespace De
open T2N.C01De T2N.C01En

theorem mem_all : T2N.De.lang ∈ allLangs := by simp [allLangs]

theorem hskip (w : Word) (h : w = ['-'] ∨ ∀ c ∈ w, simpleIsWs c = true) (b : DS) :
    ∃ e, (T2N.De.lang.apply w b).1 = some e ∧ e ≠ .incomplete := by
  have hs : T2N.De.Sepish w := skipped_sepish _ (by decide) w h
  show ∃ e, (T2N.De.apply w b).1 = some e ∧ e ≠ .incomplete
  rw [T2N.De.apply_sepish_nan w hs b]
  exact ⟨.nan, rfl, by intro h; cases h⟩

/-- the first word of the rendering is accepted by the fresh builder -/
def FH (L : Nat) (as : List Spec.De.Atom) : Prop :=
  ∀ w ∈ (Spec.De.render L as []).head?, (T2N.De.apply w DS.new).1 = none

theorem acc_single (w : Word) (b' : DS) (h : Steps 1 [w] DS.new b') : (T2N.De.apply w DS.new).1 = none := by
  have h := h []
  rw [List.append_nil] at h
  show (T2N.De.applyFuel (1 + 1) w DS.new).1 = none
  cases hr : T2N.De.applyFuel (1 + 1) w DS.new with
  | mk r b'' =>
    unfold execGroupFrom at h
    rw [hr] at h
    cases r with
    | none => rfl
    | some e =>
      cases e <;> simp [execGroupFrom] at h

theorem acc_le1 (X : List Word) (b' : DS) (h : Steps 1 X DS.new b') (hl : X.length ≤ 1) :
    ∀ w ∈ X.head?, (T2N.De.apply w DS.new).1 = none := by
  match X, hl, h with
  | [], _, _ => intro w hw; cases hw
  | [x], _, h =>
    intro w hw
    have : w = x := by simpa using hw.symm
    subst this
    exact acc_single w b' h

theorem RS.steps {L : Nat} {P : List Spec.De.Atom} {b b' : DS} (h : RS L P b b') :
    Steps 1 (Spec.De.render L P []) b b' := by
  obtain ⟨W, _, r, s⟩ := h
  have := r []
  rw [List.append_nil] at this
  have e : Spec.De.render L [] [] = [] := rfl
  rw [this, e, List.append_nil]
  exact s

theorem REnd.steps {L : Nat} {P : List Spec.De.Atom} {b b' : DS} (h : REnd L P b b') :
    Steps 1 (Spec.De.render L P []) b b' := by
  obtain ⟨W, _, r, s⟩ := h
  rw [r]; exact s

/-- a chunk whose last boundary is cut, in front of anything -/
theorem FH.closed {L β : Nat} (hβ : β ≤ L) {P : List Spec.De.Atom} (hP : P ≠ []) (ho : opensInit L P) {b' : DS}
    (h : RS L (Spec.De.setLastB β P) DS.new b') (rest : List Spec.De.Atom) :
    FH L (Spec.De.setLastB β P ++ rest) := by
  have hs := RS.steps h
  have e0 := render_closed L β hβ P [] [] hP ho
  rw [List.append_nil] at e0
  have e1 : Spec.De.render L [] [] = [] := rfl
  rw [e0, e1] at hs
  intro w hw
  rw [render_closed L β hβ P rest [] hP ho] at hw
  have : w = [] ++ flat P := by simpa using hw.symm
  subst this
  exact acc_single _ b' hs

theorem render_le1 (L : Nat) : ∀ (P : List Spec.De.Atom) (cur : Word), opensInit L P →
    (Spec.De.render L P cur).length ≤ 1
  | [], cur, _ => by
    rw [Spec.De.render]; split <;> simp
  | [a], cur, _ => by
    rw [Spec.De.render]
    split
    · rw [Spec.De.render]; simp
    · rw [Spec.De.render]; split <;> simp
  | a :: b :: t, cur, ho => by
    rw [Spec.De.render, if_neg (by have := ho.1; omega)]
    exact render_le1 L (b :: t) _ ho.2

/-- a chunk that ends the text -/
theorem FH.ended {L : Nat} {P : List Spec.De.Atom} (ho : opensInit L P) {b' : DS} (h : REnd L P DS.new b') :
    FH L P :=
  acc_le1 _ b' (REnd.steps h) (render_le1 L P [] ho)

/-- an atom whose boundary is cut -/
theorem FH.atom {L : Nat} (a : Spec.De.Atom) (rest : List Spec.De.Atom) (hb : a.b ≤ L)
    (h : (T2N.De.apply a.w DS.new).1 = none) : FH L (a :: rest) := by
  intro w hw
  rw [Spec.De.render, if_pos hb] at hw
  have : w = [] ++ a.w := by simpa using hw.symm
  rw [this, List.nil_append]
  exact h

/-- a chunk (rendered as one word), closed by a cut boundary or by the end of the text -/
theorem FH.chunk {L : Nat} {P : List Spec.De.Atom} (hP : P ≠ []) (ho : opensInit L P) {b' : DS}
    (h : RSβ L P (st 0 0 false) b') :
    (∀ β, β ≤ L → ∀ rest, FH L (Spec.De.setLastB β P ++ rest)) ∧ FH L P := by
  rw [st_zero] at h
  exact ⟨fun β hβ rest => FH.closed hβ hP ho (h.1 β hβ) rest, FH.ended ho h.2⟩

theorem unitw_acc (zwo : Bool) (d : Nat) (h0 : d ≠ 0) (h9 : d < 10) :
    (T2N.De.apply (Spec.De.unitWord w!"ein" zwo d) DS.new).1 = none := by
  have := unitw_apply 1 zwo d 0 0 h0 h9 (by decide)
  rw [st_zero] at this
  show (T2N.De.applyFuel (1 + 1) _ DS.new).1 = none
  rw [this]

/-- **the first word of a group that begins the number** is accepted by the fresh builder, whether the
group is followed by a cut boundary or ends the text -/
theorem group_FH (L : Nat) (hL3 : L ≤ 3) (v : Var) (g n : Nat) (one : Word)
    (hone : one = w!"ein" ∨ one = w!"eins") (n0 : n ≠ 0) (n1 : n < 1000) :
    (∀ β, β ≤ L → ∀ rest, FH L (Spec.De.setLastB β (Spec.De.group v g n true one) ++ rest)) ∧
      FH L (Spec.De.group v g n true one) := by
  by_cases hL2 : 2 ≤ L
  · rw [group_eq]
    by_cases hh : n / 100 = 0
    · have e1 : hsA v g (n / 100) true = [] := by unfold hsA; rw [if_pos (by simp [hh])]
      have e2 : linkA v g (n / 100) (n % 100) = [] := by
        unfold linkA; rw [if_neg (by simp [hh])]
      have hr : n % 100 ≠ 0 := by omega
      have e3 : blA v g (n % 100) one = Spec.De.below100 v g (n % 100) one := by
        unfold blA; rw [if_neg (by simp [hr])]
      rw [e1, e2, e3, List.nil_append, List.nil_append]
      obtain ⟨f, z, rb, _⟩ := bl_RSβ L hL2 hL3 v g (n % 100) one 0 hr (by omega) (by decide) hone
      have hne : Spec.De.below100 v g (n % 100) one ≠ [] := ws_ne_nil (below100_ne_nil v g (n % 100) one)
      by_cases h20 : n % 100 < 20
      · exact FH.chunk hne (by rw [below100_lt20 v g _ one h20]; trivial) rb
      · by_cases hu : n % 100 % 10 = 0
        · exact FH.chunk hne (by rw [below100_tens v g _ one h20 hu]; trivial) rb
        · by_cases hL : L = 2
          · exact FH.chunk hne (opensInit_of_minB L _ (by rw [hL]; exact minB_below100 v g _ one)) rb
          · have hL' : 3 ≤ L := by omega
            rw [below100_comp v g _ one h20 hu]
            have hacc := unitw_acc (flag v (cp g 1)) (n % 100 % 10) hu (by omega)
            exact ⟨fun β _ rest => FH.atom _ _ hL' hacc, FH.atom _ _ hL' hacc⟩
    · rcases hsA_forms v g (n / 100) true hh with e | e | e
      · -- `hundert` alone: a chunk
        obtain ⟨rβ, _⟩ := hs_RS L hL2 hL3 v g (n / 100) true 0 hh (by omega) (by decide) (fun _ => rfl)
        have hP : hsA v g (n / 100) true ≠ [] := by rw [e]; exact List.cons_ne_nil _ _
        have ho : opensInit L (hsA v g (n / 100) true) := by rw [e]; trivial
        have e2 : Spec.De.setLastB 2 (hsA v g (n / 100) true) = hsA v g (n / 100) true := by rw [e]; rfl
        have C := FH.chunk hP ho rβ
        rw [List.append_assoc]
        by_cases hX : linkA v g (n / 100) (n % 100) ++ blA v g (n % 100) one = []
        · rw [hX, List.append_nil]; exact C
        · refine ⟨fun β _ rest => ?_, ?_⟩
          · rw [setLastB_append β _ _ hX, List.append_assoc]
            have := C.1 2 hL2 (Spec.De.setLastB β (linkA v g (n / 100) (n % 100) ++ blA v g (n % 100) one) ++ rest)
            rw [e2] at this
            exact this
          · have := C.1 2 hL2 (linkA v g (n / 100) (n % 100) ++ blA v g (n % 100) one)
            rw [e2] at this
            exact this
      · -- multiplier glued to `hundert`: a chunk
        obtain ⟨rβ, _⟩ := hs_RS L hL2 hL3 v g (n / 100) true 0 hh (by omega) (by decide) (fun _ => rfl)
        have hP : hsA v g (n / 100) true ≠ [] := by rw [e]; exact List.cons_ne_nil _ _
        have ho : opensInit L (hsA v g (n / 100) true) := by
          rw [e]; exact ⟨by show L < 9; omega, trivial⟩
        have e2 : Spec.De.setLastB 2 (hsA v g (n / 100) true) = hsA v g (n / 100) true := by rw [e]; rfl
        have C := FH.chunk hP ho rβ
        rw [List.append_assoc]
        by_cases hX : linkA v g (n / 100) (n % 100) ++ blA v g (n % 100) one = []
        · rw [hX, List.append_nil]; exact C
        · refine ⟨fun β _ rest => ?_, ?_⟩
          · rw [setLastB_append β _ _ hX, List.append_assoc]
            have := C.1 2 hL2 (Spec.De.setLastB β (linkA v g (n / 100) (n % 100) ++ blA v g (n % 100) one) ++ rest)
            rw [e2] at this
            exact this
          · have := C.1 2 hL2 (linkA v g (n / 100) (n % 100) ++ blA v g (n % 100) one)
            rw [e2] at this
            exact this
      · -- multiplier as a word of its own
        rw [e]
        have hacc := unitw_acc (flag v (cp g 2)) (n / 100) hh (by omega)
        refine ⟨fun β _ rest => ?_, ?_⟩
        · have : ∀ X : List Spec.De.Atom, Spec.De.setLastB β
              ([(⟨Spec.De.unitWord w!"ein" (flag v (cp g 2)) (n / 100), 2⟩ : Spec.De.Atom), ⟨w!"hundert", 2⟩] ++ X) =
              ⟨Spec.De.unitWord w!"ein" (flag v (cp g 2)) (n / 100), 2⟩ ::
                Spec.De.setLastB β (⟨w!"hundert", 2⟩ :: X) := fun X => setLastB_cons_cons β _ _ _
          rw [List.append_assoc, this]
          exact FH.atom _ _ hL2 hacc
        · exact FH.atom _ _ hL2 hacc
  · obtain ⟨f, z, hr, _⟩ := group_RSβ L hL3 v g n true one 0 n0 n1 (by decide) (fun _ => rfl) hone
    exact FH.chunk (ws_ne_nil (chain_group v g n true one hone n0 n1).ne_nil)
      (opensInit_of_minB L _ (minB_mono (by omega) (minB_group v g n true one))) hr

theorem scaledM_FH (L : Nat) (hL3 : L ≤ 3) (v : Var) (g n : Nat) (hg : g = 2 ∨ g = 3) (n0 : n ≠ 0)
    (n1 : n < 1000) (hv : EinVariant v) (rest : List Spec.De.Atom) :
    FH L (Spec.De.scaled v g n true ++ rest) := by
  have hg1 : g ≠ 1 := by omega
  have hv' : flag v (cp g 5) = true := by
    rcases hg with rfl | rfl
    · exact hv.1
    · exact hv.2
  by_cases h1 : n = 1
  · subst h1
    rw [scaledM_one v g true hg1, hv', if_pos rfl]
    exact FH.atom ⟨w!"ein", 0⟩ _ (Nat.zero_le L) (unitw_acc false 1 (by decide) (by decide))
  · rw [scaledM_full v g n true hg1 n0 h1, List.append_assoc]
    exact (group_FH L hL3 v g n w!"ein" (Or.inl rfl) n0 n1).1 0 (Nat.zero_le L) _

theorem tausend_acc : (T2N.De.apply w!"tausend" DS.new).1 = none := by
  have := tausend_apply_zero 1 0
  rw [st_zero] at this
  show (T2N.De.applyFuel (1 + 1) _ DS.new).1 = none
  rw [this]

theorem scaled1_FH (L : Nat) (hL1 : 1 ≤ L) (hL3 : L ≤ 3) (v : Var) (n : Nat) (n0 : n ≠ 0) (n1 : n < 1000)
    (hv : EinVariant v) (rest : List Spec.De.Atom) : FH L (Spec.De.scaled v 1 n true ++ rest) := by
  by_cases hc : (n == 1 && true && flag v (cp 1 5)) = true
  · rw [scaled1_drop v n true hc]
    exact FH.atom ⟨w!"tausend", 1⟩ _ hL1 tausend_acc
  · by_cases hβ : (if flag v (cp 1 9) then 2 else 1) ≤ L
    · rw [scaled1_full v n true n0 hc, List.append_assoc]
      exact (group_FH L hL3 v 1 n w!"ein" (Or.inl rfl) n0 n1).1 _ hβ _
    · -- level 1 and the multiplier glued to `tausend`: one compound
      have hfl : flag v (cp 1 9) = true := by
        cases h : flag v (cp 1 9)
        · rw [h] at hβ; exact absurd hL1 hβ
        · rfl
      have hL : L = 1 := by
        rw [hfl] at hβ
        simp only [if_true] at hβ
        omega
      have hform := scaled1_full v n true n0 hc
      rw [hfl] at hform
      simp only [if_true] at hform
      have ho : opensInit L (Spec.De.scaled v 1 n true) := by
        rw [hform, hL]
        exact opensInit_snoc 1 _ _ (minB_setLastB (Nat.le_refl 2) _ (minB_group v 1 n true _))
      have e : Spec.De.setLastB 1 (Spec.De.scaled v 1 n true) = Spec.De.scaled v 1 n true := by
        rw [hform, setLastB_append _ _ _ (List.cons_ne_nil _ _)]
        rfl
      have hP : Spec.De.scaled v 1 n true ≠ [] := by rw [hform]; simp
      have r := scaled1_RS L hL1 hL3 v n true 0 n1 (by decide) (fun _ => rfl) hv
      rw [st_zero, ← e] at r
      have := FH.closed hL1 hP ho r rest
      rw [e] at this
      exact this

/-- **the first word of every spelled cardinal is accepted by the fresh builder** -/
theorem cardinal_first (v : Var) (n : Nat) (h : n < 10 ^ 12) (hv : EinVariant v) :
    ∀ w ∈ (Spec.De.cardinal v n).head?, (T2N.De.apply w DS.new).1 = none := by
  by_cases hn : n = 0
  · subst hn
    have : Spec.De.cardinal v 0 = [w!"null"] := rfl
    rw [this]
    intro w hw
    have : w = w!"null" := by simpa using hw.symm
    subst this
    decide +kernel
  · unfold Spec.De.cardinal
    rw [if_neg (by simpa using hn)]
    have hL3 : Spec.De.level v ≤ 3 := by
      unfold Spec.De.level pick
      rw [if_neg (by decide)]
      omega
    generalize Spec.De.level v = L at hL3
    show FH L (Spec.De.cardinalAtoms v n)
    obtain ⟨f, z, rend⟩ := cardinal_REnd L hL3 v n h hv
    rw [cardinalAtoms_eq'] at rend ⊢
    obtain ⟨g3, hg3⟩ : ∃ g3, g3 = n / 1000000000 % 1000 := ⟨_, rfl⟩
    obtain ⟨g2, hg2⟩ : ∃ g2, g2 = n / 1000000 % 1000 := ⟨_, rfl⟩
    obtain ⟨g1, hg1⟩ : ∃ g1, g1 = n / 1000 % 1000 := ⟨_, rfl⟩
    obtain ⟨g0, hg0⟩ : ∃ g0, g0 = n % 1000 := ⟨_, rfl⟩
    rw [← hg3, ← hg2, ← hg1, ← hg0] at rend ⊢
    by_cases h3 : g3 = 0
    · rw [h3, scaled_zero, List.nil_append] at rend ⊢
      simp only [beq_self_eq_true, Bool.true_and] at rend ⊢
      by_cases h2 : g2 = 0
      · rw [h2, scaled_zero, List.nil_append] at rend ⊢
        simp only [beq_self_eq_true, Bool.true_and] at rend ⊢
        by_cases hL0 : L = 0
        · -- one compound word
          have hmin : minB 1 (Spec.De.scaled v 1 g1 true ++ g0A v g0 (g1 == 0)) := by
            refine minB_append (minB_scaled1 v g1 true) ?_
            unfold g0A
            split
            · exact minB_nil 1
            · exact minB_mono (by decide) (minB_group v 0 g0 _ _)
          rw [st_zero] at rend
          exact FH.ended (opensInit_of_minB L _ (by rw [hL0]; exact hmin)) rend
        · by_cases h1 : g1 = 0
          · rw [h1, scaled_zero, List.nil_append]
            have e00 : ((0 : Nat) == 0) = true := rfl
            rw [e00, g0A_pos v g0 true (by omega)]
            exact (group_FH L hL3 v 0 g0 w!"eins" (Or.inr rfl) (by omega) (by omega)).2
          · exact scaled1_FH L (by omega) hL3 v g1 h1 (by omega) hv _
      · exact scaledM_FH L hL3 v 2 g2 (Or.inl rfl) h2 (by omega) hv _
    · rw [List.append_assoc]
      exact scaledM_FH L hL3 v 3 g3 (Or.inr rfl) h3 (by omega) hv _

theorem first (v : Var) (n : Nat) (h : n < 10 ^ 12) (hv : EinVariant v) : ∀ w ∈ (Spec.De.cardinal v n).head?,
    (T2N.De.lang.apply w DS.new).1 ≠ some .incomplete := by
  intro w hw
  have : (T2N.De.apply w DS.new).1 = none := cardinal_first v n h hv w hw
  show (T2N.De.apply w DS.new).1 ≠ some .incomplete
  rw [this]; intro h; cases h

theorem scan_de_sentence (hl : LangAgree T2N.De.lang) (v : Var) (n : Nat) (h : n < 10 ^ 12)
    (hv : flag v (cp 2 5) = true ∧ flag v (cp 3 5) = true)
    (pre post : List Word) (hpre : ∀ w ∈ pre, T2N.De.lang.Rejects w) (hpost : ∀ w ∈ post, T2N.De.lang.Rejects w) :
    findNumbers (scanCfg T2N.De.lang zeroThr) (wordTokens (pre ++ Spec.De.cardinal v n ++ post)) =
      .ok [⟨2 * pre.length, 2 * pre.length + (2 * (Spec.De.cardinal v n).length - 1), decChars n,
        .dec (decDigits n) [], false⟩] :=
  scan_sentence_of_valid _ mem_all hl hskip _ n (C01De.C01_validate_de v n h hv) (first v n h hv)
    pre post hpre hpost

theorem scan_de_all (hl : LangAgree T2N.De.lang) (v : Var) (n : Nat) (h : n < 10 ^ 12)
    (hv : flag v (cp 2 5) = true ∧ flag v (cp 3 5) = true) :
    findNumbers (scanCfg T2N.De.lang zeroThr) (wordTokens (Spec.De.cardinal v n)) =
      .ok [⟨0, (wordTokens (Spec.De.cardinal v n)).length, decChars n, .dec (decDigits n) [], false⟩] :=
  scan_all_of_valid _ mem_all hl hskip _ n (C01De.C01_validate_de v n h hv) (first v n h hv)

end De

/-! ## Portuguese -/

namespace Pt

theorem mem_all : T2N.Pt.lang ∈ allLangs := by simp [allLangs]

theorem hskip (w : Word) (h : w = ['-'] ∨ ∀ c ∈ w, simpleIsWs c = true) (b : DS) :
    ∃ e, (T2N.Pt.lang.apply w b).1 = some e ∧ e ≠ .incomplete := by
  have hs : T2N.Pt.Sepish w := skipped_sepish _ (by decide) w h
  show ∃ e, (T2N.Pt.apply w b).1 = some e ∧ e ≠ .incomplete
  rw [T2N.Pt.apply_sepish_nan w hs b]
  split
  · exact ⟨.overlap, rfl, by intro h; cases h⟩
  · exact ⟨.nan, rfl, by intro h; cases h⟩

theorem new_not_incomplete (mnone : Bool) :
    ((T2N.Pt.vocab mnone).all fun p => (p.2.exec DS.new).1 != some .incomplete) = true := by
  cases mnone <;> decide

/-- no Portuguese word is answered `Incomplete` by the fresh builder (`e` needs two digits) -/
theorem first (w : Word) : (T2N.Pt.lang.apply w DS.new).1 ≠ some .incomplete := by
  have hni := lookup_all' (fun a => (a.exec DS.new).1 != some .incomplete)
    (T2N.Pt.vocab (T2N.Pt.morph w).isNone) (new_not_incomplete _) (by decide) (T2N.Pt.lemmatize w)
  show (T2N.Pt.apply w DS.new).1 ≠ some .incomplete
  unfold T2N.Pt.apply
  dsimp only
  rw [if_neg (by simp [DS.new, DS.isEmpty])]
  cases hr : (((T2N.Pt.vocab (T2N.Pt.morph w).isNone).lookup (T2N.Pt.lemmatize w)).getD (.fail .nan)).exec
      DS.new with
  | mk r rest =>
    rw [hr] at hni
    dsimp only at hni ⊢
    have hne : r ≠ some .incomplete := by
      intro he; subst he; simp at hni
    split
    · intro h; cases h
    · exact absurd rfl hne
    · exact hne

theorem scan_pt_sentence (hl : LangAgree T2N.Pt.lang) (v : Var) (n : Nat) (h : n < 10 ^ 12)
    (pre post : List Word) (hpre : ∀ w ∈ pre, T2N.Pt.lang.Rejects w) (hpost : ∀ w ∈ post, T2N.Pt.lang.Rejects w) :
    findNumbers (scanCfg T2N.Pt.lang zeroThr) (wordTokens (pre ++ Spec.Pt.cardinal v n ++ post)) =
      .ok [⟨2 * pre.length, 2 * pre.length + (2 * (Spec.Pt.cardinal v n).length - 1), decChars n,
        .dec (decDigits n) [], false⟩] :=
  scan_sentence_of_valid _ mem_all hl hskip _ n (C01Pt.C01_validate_pt v n h) (fun w _ => first w)
    pre post hpre hpost

theorem scan_pt_all (hl : LangAgree T2N.Pt.lang) (v : Var) (n : Nat) (h : n < 10 ^ 12) :
    findNumbers (scanCfg T2N.Pt.lang zeroThr) (wordTokens (Spec.Pt.cardinal v n)) =
      .ok [⟨0, (wordTokens (Spec.Pt.cardinal v n)).length, decChars n, .dec (decDigits n) [], false⟩] :=
  scan_all_of_valid _ mem_all hl hskip _ n (C01Pt.C01_validate_pt v n h) (fun w _ => first w)

end Pt

/-! ## Italian -/

namespace It
open T2N.C01It
open T2N.C01En (mk lsb lsb_zero mk_nil)

theorem mem_all : T2N.It.lang ∈ allLangs := by simp [allLangs]

theorem hskip (w : Word) (h : w = ['-'] ∨ ∀ c ∈ w, simpleIsWs c = true) (b : DS) :
    ∃ e, (T2N.It.lang.apply w b).1 = some e ∧ e ≠ .incomplete := by
  have hs : T2N.It.Sepish w := skipped_sepish _ (by decide) w h
  show ∃ e, (T2N.It.apply w b).1 = some e ∧ e ≠ .incomplete
  rw [T2N.It.apply_sepish_nan w hs b]
  exact ⟨.nan, rfl, by intro h; cases h⟩

/-- the first word is accepted by the fresh builder -/
def HeadAcc (ws : List Word) : Prop := ∀ w ∈ ws.head?, (T2N.It.apply w DS.new).1 = none

theorem HeadAcc.nil : HeadAcc [] := fun _ h => by cases h

theorem HeadAcc.append' {a b : List Word} (ha : HeadAcc a) (hne : a ≠ []) : HeadAcc (a ++ b) := by
  cases a with
  | nil => exact absurd rfl hne
  | cons x t => exact fun w hw => ha w hw

theorem HeadAcc.cons {x : Word} (t : List Word) (h : (T2N.It.apply x DS.new).1 = none) : HeadAcc (x :: t) := by
  intro w hw
  have : w = x := by simpa using hw.symm
  subst this
  exact h

/-- a word that alone leads the fresh builder somewhere is accepted by the fresh builder -/
theorem single_first (W : Word) (N : Nat) (h : StepsF 1 [W] 0 N) : (T2N.It.apply W DS.new).1 = none := by
  have h := h []
  rw [List.append_nil, lsb_zero, mk_nil] at h
  show (T2N.It.applyFuel (1 + 1) W DS.new).1 = none
  cases hr : T2N.It.applyFuel (1 + 1) W DS.new with
  | mk r b' =>
    unfold execGroupFrom at h
    rw [hr] at h
    cases r with
    | none => rfl
    | some e =>
      cases e <;> simp [execGroupFrom] at h

theorem HeadAcc.le1 {ws : List Word} {N : Nat} (hlen : ws.length ≤ 1) (h : StepsF 1 ws 0 N) : HeadAcc ws := by
  match ws, hlen, h with
  | [], _, _ => exact HeadAcc.nil
  | [W], _, h => exact HeadAcc.cons [] (single_first W N h)

theorem tens_tbl : ∀ t, t < 10 → 2 ≤ t → accB true (Spec.It.tensWord t) = Spec.It.tensWord t ∧
    (T2N.It.apply (Spec.It.tensWord t) DS.new).1 = none := by decide +kernel

theorem hundred_tbl : ∀ h, h < 10 → h ≠ 0 → accB true (Spec.It.hundredWord h) = Spec.It.hundredWord h ∧
    (T2N.It.apply (Spec.It.hundredWord h) DS.new).1 = none := by decide +kernel

/-- the first word of a group written in several words: a tens word or a hundreds word -/
theorem group_first_word (v : Var) (g lvl n : Nat) (hl : lvl < 4) (n0 : n ≠ 0) (n1 : n < 1000)
    (x y : Word) (rest : List Word) (e : Spec.It.group v g lvl n = x :: y :: rest) :
    (∃ t, t < 10 ∧ 2 ≤ t ∧ x = Spec.It.tensWord t) ∨ (∃ h, h < 10 ∧ h ≠ 0 ∧ x = Spec.It.hundredWord h) := by
  by_cases hl2 : lvl < 2
  · rw [group_low v g lvl n hl2, (baseFacts _ n n0 n1).spec] at e
    cases (List.cons.inj e).2
  · unfold Spec.It.group at e
    dsimp only at e
    by_cases hh : n / 100 = 0
    · rw [if_pos (by simp [hh])] at e
      have hr : n % 100 = n := by omega
      rw [hr, below100_eq lvl n n0] at e
      by_cases hc : lvl ≥ 3 ∧ ¬ single n
      · rw [if_pos hc, rToks_pair n hc.2] at e
        left
        have h2 := hc.2
        unfold single at h2
        exact ⟨n / 10, by omega, by omega, (List.cons.inj e).1.symm⟩
      · rw [if_neg hc] at e
        cases (List.cons.inj e).2
    · rw [if_neg (by simp [hh])] at e
      by_cases hr : n % 100 = 0
      · rw [if_pos (by simp [hr])] at e
        cases (List.cons.inj e).2
      · rw [if_neg (by simp [hr]), if_pos (by omega : lvl ≥ 2)] at e
        right
        exact ⟨n / 100, by omega, hh, (List.cons.inj e).1.symm⟩

/-- **the first word of a group that begins the number** -/
theorem group_head (v : Var) (g lvl n : Nat) (apo : Bool) (hl : lvl < 4) (n0 : n ≠ 0) (n1 : n < 1000)
    (hapo : apo = true → n % 10 = 1 ∧ 20 < n % 100) :
    HeadAcc ((apoOp apo (Spec.It.group v g lvl n)).map (Spec.It.accent v g)) := by
  have hst := group_steps v g lvl n 0 apo hl n0 n1 (by decide) hapo
  rcases group_shape v g lvl n hl n0 n1 with e | ⟨x, y, rest, e⟩
  · rw [e] at hst ⊢
    refine HeadAcc.le1 ?_ hst
    cases apo
    · rw [apoOp_false]; simp
    · rw [apoOp_single]; simp
  · have hx := group_first_word v g lvl n hl n0 n1 x y rest e
    rw [e]
    have : apoOp apo (x :: y :: rest) = x :: apoOp apo (y :: rest) :=
      apoOp_append apo [x] (y :: rest) (List.cons_ne_nil _ _)
    rw [this, List.map_cons, accent_eq]
    rcases hx with ⟨t, t9, t2, rfl⟩ | ⟨h, h9, h0, rfl⟩
    · obtain ⟨a1, a2⟩ := tens_tbl t t9 t2
      rw [accB_fixed _ _ a1]
      exact HeadAcc.cons _ a2
    · obtain ⟨a1, a2⟩ := hundred_tbl h h9 h0
      rw [accB_fixed _ _ a1]
      exact HeadAcc.cons _ a2

theorem thousands_head (v : Var) (lvl n : Nat) (hl : lvl < 4) (n0 : n ≠ 0) (n1 : n < 1000) :
    HeadAcc ((Spec.It.thousands v lvl n).map (Spec.It.accent v 1)) := by
  have hst := thousands_steps v lvl n 0 hl n0 n1 (by decide)
  unfold Spec.It.thousands at hst ⊢
  by_cases h1 : n = 1
  · subst h1
    rw [if_pos (by decide)] at hst ⊢
    exact HeadAcc.le1 (by simp) hst
  · rw [if_neg (by simp [h1])] at hst ⊢
    rcases group_shape v 1 lvl n hl n0 n1 with e | ⟨x, y, rest, e⟩
    · rw [e] at hst ⊢
      dsimp only at hst ⊢
      exact HeadAcc.le1 (by simp) hst
    · have hg := group_head v 1 lvl n false hl n0 n1 (fun h => by cases h)
      rw [apoOp_false] at hg
      rw [e] at hg ⊢
      show HeadAcc (List.map (Spec.It.accent v 1) ((x :: y :: rest) ++ [w!"mila"]))
      rw [List.map_append]
      exact HeadAcc.append' hg (by simp)

theorem belowMillion_head (v : Var) (n : Nat) (n0 : n ≠ 0) (n1 : n < 10 ^ 6) :
    HeadAcc (Spec.It.belowMillion v n) := by
  have hst := belowMillion_steps v n 0 n0 n1 (by decide)
  rw [pow6] at n1
  have hl := pick_lt4 v (cp 0 0)
  unfold Spec.It.belowMillion at hst ⊢
  dsimp only at hst ⊢
  by_cases h1 : n / 1000 = 0
  · rw [if_pos (by simp [h1])]
    have := group_head v 0 (pick v (cp 0 0) 4) (n % 1000) false hl (by omega) (by omega) (fun h => by cases h)
    rw [apoOp_false] at this
    exact this
  · rw [if_neg (by simp [h1])] at hst ⊢
    have hT := thousands_head v (pick v (cp 0 0) 4) (n / 1000) hl h1 (by omega)
    by_cases h0 : n % 1000 = 0
    · rw [if_pos (by simp [h0])]
      exact hT
    · rw [if_neg (by simp [h0])] at hst ⊢
      by_cases hz : pick v (cp 0 0) 4 = 0
      · rw [hz, if_pos (by decide)] at hst ⊢
        -- one word
        have e0 : Spec.It.group v 0 0 (n % 1000) = [flat (gToks (flag v (cp 0 4)) false false (n % 1000))] := by
          rw [group_low v 0 0 _ (by decide)]
          exact (baseFacts _ _ h0 (by omega)).spec
        have e1 : Spec.It.thousands v 0 (n / 1000) = [flat (pToks (flag v (cp 1 4)) (n / 1000))] := by
          unfold Spec.It.thousands
          rw [flat_pToks]
          by_cases h11 : n / 1000 = 1
          · rw [h11]; rfl
          · rw [if_neg (by simp [h11]), if_neg (by simp [h11]), group_low v 1 0 _ (by decide),
              (baseFacts _ _ h1 (by omega)).spec]
        rw [e0, e1] at hst ⊢
        dsimp only at hst ⊢
        exact HeadAcc.le1 (by simp) hst
      · rw [if_neg (by simp [hz])]
        have sT := thousands_steps v (pick v (cp 0 0) 4) (n / 1000) 0 hl h1 (by omega) (by decide)
        rw [List.append_assoc]
        exact HeadAcc.append' hT (sT.ne_nil (by omega))

theorem un_acc : (T2N.It.apply w!"un" DS.new).1 = none := by decide +kernel

theorem scaled_head (v : Var) (g n : Nat) (n1 : n < 1000) : HeadAcc (Spec.It.scaled v g n) := by
  rw [scaled_eq]
  by_cases h0 : n = 0
  · subst h0; rw [if_pos (by decide)]; exact HeadAcc.nil
  · rw [if_neg (by simp [h0])]
    by_cases h1 : n = 1
    · subst h1
      rw [if_pos (by decide)]
      exact HeadAcc.cons _ un_acc
    · rw [if_neg (by simp [h1])]
      have sg := scaled_group_steps v g n 0 h0 n1 (by decide)
      refine HeadAcc.append' (group_head v g _ n _ (pick_lt4 v _) h0 n1 ?_) (sg.ne_nil (by omega))
      intro h
      simp only [Bool.and_eq_true, beq_iff_eq, decide_eq_true_eq] at h
      exact ⟨h.1.1, h.1.2⟩

theorem scaled_zero (v : Var) (g : Nat) : Spec.It.scaled v g 0 = [] := rfl

theorem scaled_ne_nil (v : Var) (g n : Nat) (h0 : n ≠ 0) : Spec.It.scaled v g n ≠ [] := by
  rw [scaled_eq, if_neg (by simp [h0])]
  split <;> simp

theorem cardinal_head (v : Var) (n : Nat) (h : n < 10 ^ 12) : HeadAcc (Spec.It.cardinal v n) := by
  by_cases hn : n = 0
  · subst hn
    have : Spec.It.cardinal v 0 = [w!"zero"] := rfl
    rw [this]
    exact HeadAcc.cons _ (by decide +kernel)
  · unfold Spec.It.cardinal
    rw [if_neg (by simp [hn])]
    dsimp only
    obtain ⟨g3, hg3⟩ : ∃ g3, g3 = n / 1000000000 % 1000 := ⟨_, rfl⟩
    obtain ⟨g2, hg2⟩ : ∃ g2, g2 = n / 1000000 % 1000 := ⟨_, rfl⟩
    obtain ⟨lo, hlo⟩ : ∃ lo, lo = n % 1000000 := ⟨_, rfl⟩
    rw [← hg3, ← hg2, ← hlo]
    simp only [List.append_assoc]
    by_cases h3 : g3 = 0
    · rw [h3, scaled_zero, List.nil_append]
      have e3 : (((0 : Nat) != 0) && (g2 != 0 || lo != 0) && flag v (cp 3 1)) = false := by simp
      rw [e3, if_neg Bool.false_ne_true, List.nil_append]
      by_cases h2 : g2 = 0
      · rw [h2, scaled_zero, List.nil_append]
        have e2 : (((0 : Nat) != 0) && lo != 0 && flag v (cp 2 1)) = false := by simp
        rw [e2, if_neg Bool.false_ne_true, List.nil_append]
        have hlo0 : lo ≠ 0 := by omega
        rw [if_neg (by simp [hlo0])]
        exact belowMillion_head v lo hlo0 (by rw [pow6]; omega)
      · exact HeadAcc.append' (scaled_head v 2 g2 (by omega)) (scaled_ne_nil v 2 g2 h2)
    · exact HeadAcc.append' (scaled_head v 3 g3 (by omega)) (scaled_ne_nil v 3 g3 h3)

theorem first (v : Var) (n : Nat) (h : n < 10 ^ 12) : ∀ w ∈ (Spec.It.cardinal v n).head?,
    (T2N.It.lang.apply w DS.new).1 ≠ some .incomplete := by
  intro w hw
  have : (T2N.It.apply w DS.new).1 = none := cardinal_head v n h w hw
  show (T2N.It.apply w DS.new).1 ≠ some .incomplete
  rw [this]; intro h; cases h

theorem scan_it_sentence (hl : LangAgree T2N.It.lang) (v : Var) (n : Nat) (h : n < 10 ^ 12)
    (pre post : List Word) (hpre : ∀ w ∈ pre, T2N.It.lang.Rejects w) (hpost : ∀ w ∈ post, T2N.It.lang.Rejects w) :
    findNumbers (scanCfg T2N.It.lang zeroThr) (wordTokens (pre ++ Spec.It.cardinal v n ++ post)) =
      .ok [⟨2 * pre.length, 2 * pre.length + (2 * (Spec.It.cardinal v n).length - 1), decChars n,
        .dec (decDigits n) [], false⟩] :=
  scan_sentence_of_valid _ mem_all hl hskip _ n (C01It.C01_validate_it v n h) (first v n h)
    pre post hpre hpost

theorem scan_it_all (hl : LangAgree T2N.It.lang) (v : Var) (n : Nat) (h : n < 10 ^ 12) :
    findNumbers (scanCfg T2N.It.lang zeroThr) (wordTokens (Spec.It.cardinal v n)) =
      .ok [⟨0, (wordTokens (Spec.It.cardinal v n)).length, decChars n, .dec (decDigits n) [], false⟩] :=
  scan_all_of_valid _ mem_all hl hskip _ n (C01It.C01_validate_it v n h) (first v n h)

end It

end T2N.C01Sent
