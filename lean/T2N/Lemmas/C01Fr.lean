/-
  T2N.Lemmas.C01Fr — the unbounded cardinal round-trip for French (property C01):
  for every `n < 10^12` and every variant function `v` (no restriction: traditional hyphens / spaces /
  1990 reform per group, `septante` `huitante` `octante` `nonante`, plural marks, `mil`), validating
  `Spec.Fr.cardinal v n` with the model of the French interpreter yields the decimal digits of `n`.

  Structure of the proof (the language independent parts come from `T2N.Lemmas.C01En`)
  * `mkF (lsb N) fl`: every builder state reached has value `N` and `Excludable` flags `fl`;
  * one lemma per kind of word (`unit_apply`, `dix_apply`, `teen_apply`, `tens_apply`, `regional_apply`,
    `vingt_after_quatre`, `et_apply`, `cent_apply_*`, `mille_apply_*`, `million_apply`, `milliard_apply`),
    for an arbitrary fuel, with the flags before and after;
  * `Steps f ws N fl N' fl'` / `StepsE` (final flags unspecified): running the words `ws`;
    `below100_steps`, `hundreds_steps`, `gw_steps` for the numerals of a group written with spaces;
  * hyphenated words: `split_hyphenate_atoms` (the parts), `merge_lsb` (the `put` of the sub-builder,
    up to six digits), `hyph_apply` / `hyph_steps`: a hyphenated word acts like its parts run on a
    fresh builder;
  * `group_steps` (three styles), `thousands_steps`, `low_steps` (incl. `mille` hyphenated to both
    neighbours), `scaled_steps`, `cardinal_steps`, `C01_validate_fr`.
-/
import T2N.Model.Fr
import T2N.Model.Scanner
import T2N.Spec.SpellFr
import T2N.Lemmas.DS
import T2N.Lemmas.Act
import T2N.Lemmas.C01En

namespace T2N.C01Fr
open T2N T2N.Spec T2N.C01En

/-! ## builder states: digits and the `Excludable` flags -/

/-- the builder states reached while interpreting a French cardinal -/
def mkF (r : List Nat) (fl : Nat) : DS := { rbuf := r, flags := fl }

theorem mkF_zero (r : List Nat) : mkF r 0 = mk r := rfl
theorem mkF_new : mkF [] 0 = DS.new := rfl

theorem put_flags (b : DS) (fl : Nat) (ds : List Nat) :
    ({ b with flags := fl }).put ds = ((b.put ds).1, { (b.put ds).2 with flags := fl }) := by
  unfold DS.put
  dsimp only
  repeat' split
  all_goals rfl

theorem shift_flags (b : DS) (fl : Nat) (p : Nat) :
    ({ b with flags := fl }).shift p = ((b.shift p).1, { (b.shift p).2 with flags := fl }) := by
  unfold DS.shift
  dsimp only
  by_cases hf : b.frozen = true
  · rw [if_pos hf, if_pos hf]
  · rw [if_neg hf, if_neg hf]
    by_cases hp : (p == 0) = true
    · rw [if_pos hp, if_pos hp]
    · rw [if_neg hp, if_neg hp]
      cases DS.shiftBuf (if b.rbuf.isEmpty = true then [1] else b.rbuf) p <;> rfl

theorem put_mkF {r r' : List Nat} {ds : List Nat} (fl : Nat) (h : (mk r).put ds = (none, mk r')) :
    (mkF r fl).put ds = (none, mkF r' fl) := by
  show ({ mk r with flags := fl }).put ds = _
  rw [put_flags, h]; rfl

theorem shift_mkF {r r' : List Nat} {p : Nat} (fl : Nat) (h : (mk r).shift p = (none, mk r')) :
    (mkF r fl).shift p = (none, mkF r' fl) := by
  show ({ mk r with flags := fl }).shift p = _
  rw [shift_flags, h]; rfl

theorem fput_mkF (r ds : List Nat) (fl : Nat) :
    (mkF r fl).fput ds = (none, mkF (ds.reverse ++ r.drop ds.length) fl) := rfl

theorem exec_put {b b' : DS} {ds : List Nat} (h : b.put ds = (none, b')) : (Act.put ds).exec b = (none, b', 0) := by
  simp only [Act.exec, h]

theorem exec_shift {b b' : DS} {p : Nat} (h : b.shift p = (none, b')) : (Act.shift p).exec b = (none, b', 0) := by
  simp only [Act.exec, h]

/-! ## plain words -/

def Plain (w : Word) (a : Act) : Prop :=
  w.contains '-' = false ∧ Fr.vocab.lookup (Fr.lemmatize w) = some a ∧ Fr.morph w = .none

theorem applyFuel_ok (f : Nat) {w : Word} {a : Act} {b b' : DS} {tb : Nat} (h : Plain w a)
    (he : a.exec b = (none, b', tb)) : Fr.applyFuel (f + 1) w b = (none, { b' with flags := tb }) := by
  obtain ⟨h1, h2, h3⟩ := h
  rw [Fr.applyFuel, if_neg (by rw [h1]; exact Bool.false_ne_true)]
  dsimp only
  rw [h2, h3]
  simp only [Option.getD, he]
  rfl

theorem applyFuel_err (f : Nat) {w : Word} {a : Act} {b b' : DS} {tb : Nat} {e : Err} (h : Plain w a)
    (he : a.exec b = (some e, b', tb)) : Fr.applyFuel (f + 1) w b = (some e, { b' with flags := 0 }) := by
  obtain ⟨h1, h2, h3⟩ := h
  rw [Fr.applyFuel, if_neg (by rw [h1]; exact Bool.false_ne_true)]
  dsimp only
  rw [h2, h3]
  simp only [Option.getD, he]
  rfl


theorem plain_un : Plain (Fr.unitWord 1) (T2N.Fr.unit T2N.Fr.UN 1) := ⟨by decide, by rfl, by decide⟩
theorem plain_deux : Plain (Fr.unitWord 2) (T2N.Fr.unit T2N.Fr.DEUX 2) := ⟨by decide, by rfl, by decide⟩
theorem plain_trois : Plain (Fr.unitWord 3) (T2N.Fr.unit T2N.Fr.TROIS 3) := ⟨by decide, by rfl, by decide⟩
theorem plain_quatre : Plain (Fr.unitWord 4) (T2N.Fr.unit T2N.Fr.QUATRE 4) := ⟨by decide, by rfl, by decide⟩
theorem plain_cinq : Plain (Fr.unitWord 5) (T2N.Fr.unit T2N.Fr.CINQ 5) := ⟨by decide, by rfl, by decide⟩
theorem plain_six : Plain (Fr.unitWord 6) (T2N.Fr.unit T2N.Fr.SIX 6) := ⟨by decide, by rfl, by decide⟩
theorem plain_sept : Plain (Fr.unitWord 7) (.put [7]) := ⟨by decide, by rfl, by decide⟩
theorem plain_huit : Plain (Fr.unitWord 8) (.put [8]) := ⟨by decide, by rfl, by decide⟩
theorem plain_neuf : Plain (Fr.unitWord 9) (.put [9]) := ⟨by decide, by rfl, by decide⟩
theorem plain_dix : Plain w!"dix" T2N.Fr.dix := ⟨by decide, by rfl, by decide⟩

theorem plain_teen (u : Nat) (h1 : 1 ≤ u) (h6 : u ≤ 6) : Plain (Fr.unitWord (10 + u)) (T2N.Fr.teen u) := by
  have : u = 1 ∨ u = 2 ∨ u = 3 ∨ u = 4 ∨ u = 5 ∨ u = 6 := by omega
  rcases this with rfl | rfl | rfl | rfl | rfl | rfl <;> exact ⟨by decide, by rfl, by decide⟩

theorem plain_vingt : Plain w!"vingt" T2N.Fr.vingt := ⟨by decide, by rfl, by decide⟩
theorem plain_vingts : Plain w!"vingts" T2N.Fr.vingt := ⟨by decide, by rfl, by decide⟩

theorem plain_tens (t : Nat) (h3 : 3 ≤ t) (h6 : t ≤ 6) : Plain (Fr.tensWords.getD t []) (T2N.Fr.ten t) := by
  have : t = 3 ∨ t = 4 ∨ t = 5 ∨ t = 6 := by omega
  rcases this with rfl | rfl | rfl | rfl <;> exact ⟨by decide, by rfl, by decide⟩

theorem plain_tens2 : Fr.tensWords.getD 2 [] = w!"vingt" := rfl

theorem plain_septante : Plain w!"septante" (T2N.Fr.ten 7) := ⟨by decide, by rfl, by decide⟩
theorem plain_huitante : Plain w!"huitante" (T2N.Fr.ten 8) := ⟨by decide, by rfl, by decide⟩
theorem plain_octante : Plain w!"octante" (T2N.Fr.ten 8) := ⟨by decide, by rfl, by decide⟩
theorem plain_nonante : Plain w!"nonante" (T2N.Fr.ten 9) := ⟨by decide, by rfl, by decide⟩
theorem plain_cent : Plain w!"cent" T2N.Fr.cent := ⟨by decide, by rfl, by decide⟩
theorem plain_cents : Plain w!"cents" T2N.Fr.cent := ⟨by decide, by rfl, by decide⟩
theorem plain_mille : Plain w!"mille" T2N.Fr.mille := ⟨by decide, by rfl, by decide⟩
theorem plain_mil : Plain w!"mil" T2N.Fr.mille := ⟨by decide, by rfl, by decide⟩
theorem plain_million : Plain w!"million" T2N.Fr.million := ⟨by decide, by rfl, by decide⟩
theorem plain_millions : Plain (w!"million" ++ ['s']) T2N.Fr.million := ⟨by decide, by rfl, by decide⟩
theorem plain_milliard : Plain w!"milliard" (.shift 9) := ⟨by decide, by rfl, by decide⟩
theorem plain_milliards : Plain (w!"milliard" ++ ['s']) (.shift 9) := ⟨by decide, by rfl, by decide⟩
theorem plain_et : Plain w!"et" T2N.Fr.et := ⟨by decide, by rfl, by decide⟩


/-! ## digits of the states -/

theorem lsb_two (N x y M : Nat) (h : N = x + 10 * (y + 10 * M)) (hx : x < 10) (hy : y < 10)
    (hne : y ≠ 0 ∨ M ≠ 0) : lsb N = x :: y :: lsb M := by
  subst h
  rw [lsb_cons x _ hx (Or.inr (by omega)), lsb_cons y M hy hne]

theorem peek_mkF (r : List Nat) (fl k : Nat) : (mkF r fl).peek k = (r.take k).reverse := rfl

/-- context A: the two low positions are free -/
theorem peekA (N fl : Nat) (hN : N % 100 = 0) :
    (mkF (lsb N) fl).peek 2 = [] ∨ (mkF (lsb N) fl).peek 2 = [0, 0] := by
  by_cases hz : N = 0
  · subst hz; left; rw [lsb_zero]; rfl
  · right
    rw [lsb_two N 0 0 (N / 100) (by omega) (by decide) (by decide) (Or.inr (by omega))]; rfl

theorem peekEqA (N fl : Nat) (ds : List Nat) (hN : N % 100 = 0) (h1 : ds ≠ []) (h2 : ds ≠ [0, 0]) :
    (Guard.peekEq 2 ds).eval (mkF (lsb N) fl) = false := by
  show ((mkF (lsb N) fl).peek 2 == ds) = false
  rcases peekA N fl hN with h | h <;> rw [h, beq_eq_false_iff_ne]
  · exact fun e => h1 e.symm
  · exact fun e => h2 e.symm

theorem hasBits_ok (fl d m : Nat) (hfl : fl = 0 ∨ (fl = 1 ∧ 2 ≤ d) ∨ (fl = 63 ∧ 7 ≤ d)) (hd : d ≤ 6)
    (hm : (d = 1 ∧ m = 1) ∨ (2 ≤ d ∧ (m = 2 ∨ m = 4 ∨ m = 8 ∨ m = 16 ∨ m = 32))) : hasBits fl m = false := by
  rcases hfl with rfl | ⟨rfl, h⟩ | ⟨rfl, h⟩
  · rcases hm with ⟨_, rfl⟩ | ⟨_, rfl | rfl | rfl | rfl | rfl⟩ <;> rfl
  · rcases hm with ⟨h1, rfl⟩ | ⟨_, rfl | rfl | rfl | rfl | rfl⟩
    · omega
    all_goals rfl
  · omega

/-! ## one lemma per kind of word -/

theorem exec_unit {m d : Nat} {b b' : DS} (hb : hasBits b.flags m = false) (hp : b.put [d] = (none, b')) :
    (T2N.Fr.unit m d).exec b = (none, b', 0) := by
  have hg : (Guard.neg (.flag m)).eval b = true := by
    show (!(hasBits b.flags m)) = true
    rw [hb]; rfl
  simp only [T2N.Fr.unit, Act.when, Act.exec]
  rw [if_pos hg, hp]

/-- units `un` … `neuf`: `un` … `six` must not be blocked by the flags -/
theorem unit_apply (f d N fl : Nat) (h0 : d ≠ 0) (h9 : d < 10) (hN : N % 10 = 0)
    (hfl : fl = 0 ∨ (fl = 1 ∧ 2 ≤ d) ∨ (fl = 63 ∧ 7 ≤ d)) :
    Fr.applyFuel (f + 1) (Fr.unitWord d) (mkF (lsb N) fl) = (none, mkF (lsb (N + d)) 0) := by
  have hp := put_mkF fl (put1_lsb d N h0 h9 hN)
  have hb : ∀ m, d ≤ 6 → ((d = 1 ∧ m = 1) ∨ (2 ≤ d ∧ (m = 2 ∨ m = 4 ∨ m = 8 ∨ m = 16 ∨ m = 32))) →
      hasBits (mkF (lsb N) fl).flags m = false := fun m h6 hm => hasBits_ok fl d m hfl h6 hm
  have : d = 1 ∨ d = 2 ∨ d = 3 ∨ d = 4 ∨ d = 5 ∨ d = 6 ∨ d = 7 ∨ d = 8 ∨ d = 9 := by omega
  rcases this with rfl | rfl | rfl | rfl | rfl | rfl | rfl | rfl | rfl
  · exact applyFuel_ok f plain_un (exec_unit (hb 1 (by decide) (by decide)) hp)
  · exact applyFuel_ok f plain_deux (exec_unit (hb 2 (by decide) (by decide)) hp)
  · exact applyFuel_ok f plain_trois (exec_unit (hb 4 (by decide) (by decide)) hp)
  · exact applyFuel_ok f plain_quatre (exec_unit (hb 8 (by decide) (by decide)) hp)
  · exact applyFuel_ok f plain_cinq (exec_unit (hb 16 (by decide) (by decide)) hp)
  · exact applyFuel_ok f plain_six (exec_unit (hb 32 (by decide) (by decide)) hp)
  · exact applyFuel_ok f plain_sept (exec_put hp)
  · exact applyFuel_ok f plain_huit (exec_put hp)
  · exact applyFuel_ok f plain_neuf (exec_put hp)

/-- `onze` … `seize` (and, with `u = 0`, the instruction under `dix`) on free positions -/
theorem teen_exec_A (N fl u : Nat) (hu : u < 10) (hN : N % 100 = 0) :
    (T2N.Fr.teen u).exec (mkF (lsb N) fl) = (none, mkF (lsb (N + (10 + u))) fl, 0) := by
  have hp : (mkF (lsb N) fl).put [1, u] = (none, mkF (lsb (N + (10 + u))) fl) :=
    put_mkF fl (put2_lsb 1 u N (by decide) (by decide) hu hN)
  simp only [T2N.Fr.teen, Act.exec]
  rw [if_neg (by rw [peekEqA N fl _ hN (by decide) (by decide)]; exact Bool.false_ne_true),
    if_neg (by rw [peekEqA N fl _ hN (by decide) (by decide)]; exact Bool.false_ne_true), hp]

/-- … after `soixante` / `quatre-vingt`: the tens digit is overwritten (`fput`) -/
theorem teen_exec_C (N fl u c : Nat) (hu : u < 10) (hc : c = 6 ∨ c = 8) (hN : N % 100 = 10 * c) :
    (T2N.Fr.teen u).exec (mkF (lsb N) fl) = (none, mkF (lsb (N + (10 + u))) fl, 0) := by
  rw [lsb_two N 0 c (N / 100) (by omega) (by decide) (by omega) (Or.inl (by omega)),
    lsb_two (N + (10 + u)) u (c + 1) (N / 100) (by omega) hu (by omega) (Or.inl (by omega))]
  rcases hc with rfl | rfl
  · have hg : (Guard.peekEq 2 [6, 0]).eval (mkF (0 :: 6 :: lsb (N / 100)) fl) = true := rfl
    simp only [T2N.Fr.teen, Act.exec]
    rw [if_pos hg, fput_mkF]; rfl
  · have hg1 : (Guard.peekEq 2 [6, 0]).eval (mkF (0 :: 8 :: lsb (N / 100)) fl) = false := rfl
    have hg : (Guard.peekEq 2 [8, 0]).eval (mkF (0 :: 8 :: lsb (N / 100)) fl) = true := rfl
    simp only [T2N.Fr.teen, Act.exec]
    rw [if_neg (by rw [hg1]; exact Bool.false_ne_true), if_pos hg, fput_mkF]; rfl

theorem dix_exec (b b' : DS) (h : (T2N.Fr.teen 0).exec b = (none, b', 0)) :
    T2N.Fr.dix.exec b = (none, b', 63) := by
  show (Act.block 63 (T2N.Fr.teen 0)).exec b = _
  simp only [Act.exec, h]

theorem dix_apply (f N fl : Nat) (hN : N % 100 = 0 ∨ N % 100 = 60 ∨ N % 100 = 80) :
    Fr.applyFuel (f + 1) w!"dix" (mkF (lsb N) fl) = (none, mkF (lsb (N + 10)) 63) := by
  rcases hN with h | h | h
  · exact applyFuel_ok f plain_dix (dix_exec _ _ (teen_exec_A N fl 0 (by decide) h))
  · exact applyFuel_ok f plain_dix (dix_exec _ _ (teen_exec_C N fl 0 6 (by decide) (Or.inl rfl) h))
  · exact applyFuel_ok f plain_dix (dix_exec _ _ (teen_exec_C N fl 0 8 (by decide) (Or.inr rfl) h))

theorem teen_apply (f N fl u : Nat) (h1 : 1 ≤ u) (h6 : u ≤ 6)
    (hN : N % 100 = 0 ∨ N % 100 = 60 ∨ N % 100 = 80) :
    Fr.applyFuel (f + 1) (Fr.unitWord (10 + u)) (mkF (lsb N) fl) = (none, mkF (lsb (N + (10 + u))) 0) := by
  rcases hN with h | h | h
  · exact applyFuel_ok f (plain_teen u h1 h6) (teen_exec_A N fl u (by omega) h)
  · exact applyFuel_ok f (plain_teen u h1 h6) (teen_exec_C N fl u 6 (by omega) (Or.inl rfl) h)
  · exact applyFuel_ok f (plain_teen u h1 h6) (teen_exec_C N fl u 8 (by omega) (Or.inr rfl) h)

/-- a tens word `trente` … `nonante` -/
theorem ten_exec (N fl t : Nat) (h1 : t ≠ 0) (h9 : t < 10) (hN : N % 100 = 0) :
    (T2N.Fr.ten t).exec (mkF (lsb N) fl) = (none, mkF (lsb (N + 10 * t)) fl, 1) := by
  have hp : (mkF (lsb N) fl).put [t, 0] = (none, mkF (lsb (N + 10 * t)) fl) :=
    put_mkF fl (put2_lsb t 0 N h1 h9 (by decide) hN)
  simp only [T2N.Fr.ten, Act.exec, hp]
  rfl

theorem vingt_exec_A (N fl : Nat) (hN : N % 100 = 0) :
    T2N.Fr.vingt.exec (mkF (lsb N) fl) = (none, mkF (lsb (N + 20)) fl, 1) := by
  have hp : (mkF (lsb N) fl).put [2, 0] = (none, mkF (lsb (N + 20)) fl) :=
    put_mkF fl (put2_lsb 2 0 N (by decide) (by decide) (by decide) hN)
  have hg : (Guard.or (.peekEq 2 [0, 4]) (.peekEq 2 [4])).eval (mkF (lsb N) fl) = false := by
    show ((Guard.peekEq 2 [0, 4]).eval (mkF (lsb N) fl) || (Guard.peekEq 2 [4]).eval (mkF (lsb N) fl)) = false
    rw [peekEqA N fl _ hN (by decide) (by decide), peekEqA N fl _ hN (by decide) (by decide)]; rfl
  simp only [T2N.Fr.vingt, Act.exec]
  rw [if_neg (by rw [hg]; exact Bool.false_ne_true), hp]; rfl

/-- `vingt` after `quatre` -/
theorem vingt_exec_B (N fl : Nat) (hN : N % 100 = 4) :
    T2N.Fr.vingt.exec (mkF (lsb N) fl) = (none, mkF (lsb (N + 76)) fl, 0) := by
  by_cases h4 : N = 4
  · subst h4
    rw [lsb_digit 4 (by decide) (by decide),
      lsb_two (4 + 76) 0 8 0 (by decide) (by decide) (by decide) (Or.inl (by decide)), lsb_zero]
    rfl
  · rw [lsb_two N 4 0 (N / 100) (by omega) (by decide) (by decide) (Or.inr (by omega)),
      lsb_two (N + 76) 0 8 (N / 100) (by omega) (by decide) (by decide) (Or.inl (by decide))]
    have hg : (Guard.or (.peekEq 2 [0, 4]) (.peekEq 2 [4])).eval (mkF (4 :: 0 :: lsb (N / 100)) fl) = true := rfl
    simp only [T2N.Fr.vingt, Act.exec]
    rw [if_pos hg, fput_mkF]; rfl

theorem tens_apply (f N fl t : Nat) (h2 : 2 ≤ t) (h6 : t ≤ 6) (hN : N % 100 = 0) :
    Fr.applyFuel (f + 1) (Fr.tensWords.getD t []) (mkF (lsb N) fl) = (none, mkF (lsb (N + 10 * t)) 1) := by
  by_cases ht : t = 2
  · subst ht
    exact applyFuel_ok f plain_vingt (vingt_exec_A N fl hN)
  · exact applyFuel_ok f (plain_tens t (by omega) h6) (ten_exec N fl t (by omega) (by omega) hN)

theorem regional_apply (f N fl t : Nat) (w : Word) (hw : Plain w (T2N.Fr.ten t)) (h1 : t ≠ 0) (h9 : t < 10)
    (hN : N % 100 = 0) :
    Fr.applyFuel (f + 1) w (mkF (lsb N) fl) = (none, mkF (lsb (N + 10 * t)) 1) :=
  applyFuel_ok f hw (ten_exec N fl t h1 h9 hN)

theorem vingt_after_quatre (f N fl : Nat) (w : Word) (hw : Plain w T2N.Fr.vingt) (hN : N % 100 = 4) :
    Fr.applyFuel (f + 1) w (mkF (lsb N) fl) = (none, mkF (lsb (N + 76)) 0) :=
  applyFuel_ok f hw (vingt_exec_B N fl hN)

/-- `et` after a tens word (flags = `UN`): accepted as `Incomplete`, flags reset -/
theorem et_apply (f N : Nat) (hN : 10 ≤ N) :
    Fr.applyFuel (f + 1) w!"et" (mkF (lsb N) 1) = (some .incomplete, mkF (lsb N) 0) := by
  have hg : (Guard.and (.lenGe 2) (.neg (.flag T2N.Fr.DEUX))).eval (mkF (lsb N) 1) = true := by
    have := lsb_length_ge2 hN
    show (decide ((mkF (lsb N) 1).len ≥ 2) && !(hasBits 1 2)) = true
    have h2 : hasBits 1 2 = false := rfl
    rw [h2]
    simp only [DS.len, mkF]
    simp; omega
  have he : T2N.Fr.et.exec (mkF (lsb N) 1) = (some .incomplete, mkF (lsb N) 1, 0) := by
    simp only [T2N.Fr.et, Act.when, Act.exec]
    rw [if_pos hg]
  exact applyFuel_err f plain_et he


/-! ### `cent` and the scale words -/

theorem lsb_pow (p : Nat) : lsb (10 ^ p) = List.replicate p 0 ++ [1] := by
  have := lsb_mul_pow 1 p (by decide)
  rw [lsb_digit 1 (by decide) (by decide), Nat.one_mul] at this
  exact this

theorem shiftSig_zeros (p : Nat) : DS.shiftSig (List.replicate p 0) = [1] := by
  unfold DS.shiftSig
  have : ((List.replicate p 0).reverse.dropWhile (· == 0)) = [] := by
    rw [List.reverse_replicate]
    have := dropWhile_replicate_zero p []
    rw [List.append_nil] at this
    rw [this]; rfl
  simp only [this]
  rfl

/-- `shift p` with an implicit `1`: the `p + 1` low positions are free -/
theorem shift_one_lsb (p A : Nat) (hp : p ≠ 0) :
    (mk (lsb (10 ^ (p + 1) * A))).shift p = (none, mk (lsb (10 ^ p + 10 ^ (p + 1) * A))) := by
  by_cases hA : A = 0
  · subst hA
    simp only [Nat.mul_zero, Nat.add_zero]
    rw [lsb_zero, lsb_pow, shift_empty p hp]
  · have e1 : 10 ^ (p + 1) * A = A * 10 ^ (p + 1) := Nat.mul_comm _ _
    have e2 : 10 ^ p + 10 ^ (p + 1) * A = (1 + 10 * A) * 10 ^ p := by
      rw [Nat.add_mul, Nat.one_mul, Nat.pow_succ, Nat.mul_comm (10 ^ p) 10, Nat.mul_right_comm]
    rw [e2, lsb_mul_pow _ p (by omega), lsb_cons 1 A (by decide) (Or.inl (by decide)), e1,
      lsb_mul_pow A (p + 1) hA]
    have hr : List.replicate (p + 1) 0 ++ lsb A = List.replicate p 0 ++ (0 :: lsb A) := by
      rw [List.replicate_succ', List.append_assoc]; rfl
    rw [hr, shift_eq _ _ rfl hp]
    have hne : (mk (List.replicate p 0 ++ (0 :: lsb A))).rbuf.isEmpty = false := by
      show (List.replicate p 0 ++ (0 :: lsb A)).isEmpty = false
      simp
    rw [hne, if_neg Bool.false_ne_true]
    show (match DS.shiftBuf (List.replicate p 0 ++ (0 :: lsb A)) p with
      | some r => ((none : Res), { mk (List.replicate p 0 ++ (0 :: lsb A)) with rbuf := r })
      | none => (some .overlap, mk (List.replicate p 0 ++ (0 :: lsb A)))) = _
    have hl : (List.replicate p 0).length = p := by simp
    have hsb : DS.shiftBuf (List.replicate p 0 ++ (0 :: lsb A)) p =
        some (List.replicate p 0 ++ 1 :: lsb A) := by
      unfold DS.shiftBuf
      rw [if_neg (by simp)]
      dsimp only
      rw [List.take_left' hl, shiftSig_zeros, List.drop_left' hl]
      have hz : allZero (List.take [1].length (0 :: lsb A)) = true := rfl
      rw [hz, Bool.and_true, if_pos (by simp)]
      have hd : (List.replicate p 0 ++ 0 :: lsb A).drop (p + [1].length) = lsb A := by
        have : List.replicate p 0 ++ 0 :: lsb A = (List.replicate p 0 ++ [0]) ++ lsb A := by simp
        rw [this]
        exact List.drop_left' (by simp)
      rw [hd]; simp
    rw [hsb]; rfl

theorem lsb_three (N x M : Nat) (h : N = x + 1000 * M) (hx : x < 10) (hM : M ≠ 0) :
    lsb N = x :: 0 :: 0 :: lsb M := by
  have e : N = x + 10 * (0 + 10 * (0 + 10 * M)) := by omega
  rw [e, lsb_cons x _ hx (Or.inr (by omega)), lsb_cons 0 _ (by decide) (Or.inr (by omega)),
    lsb_cons 0 M (by decide) (Or.inr hM)]

/-- `cent` after a unit `2 ≤ d ≤ 9` -/
theorem cent_exec_unit (d N fl : Nat) (h2 : 2 ≤ d) (h9 : d < 10) (hN : N % 1000 = d) :
    T2N.Fr.cent.exec (mkF (lsb N) fl) = (none, mkF (lsb (N + 99 * d)) fl, 0) := by
  have h0 : d ≠ 0 := by omega
  have h1 : d ≠ 1 := by omega
  by_cases hz : N = d
  · subst hz
    have e : N + 99 * N = N * 10 ^ 2 := by omega
    rw [e, lsb_mul_pow N 2 h0, lsb_digit N h9 h0]
    have hg : (Guard.and (.and (.or (.peekLen 2 1) (.peekLt 2 [2, 0])) (.neg (.peekEq 2 [1])))
        (.neg (.peekEq 2 [0, 1]))).eval (mkF [N] fl) = true := by
      simp [Guard.eval, DS.peek, mkF, h1]
    have hs := shift_mkF fl (shift_top [N] 2 (by simp) (by simp) (by decide))
    simp only [T2N.Fr.cent, Act.exec]
    rw [if_pos hg, hs]
  · have hm : N / 1000 ≠ 0 := by omega
    rw [lsb_three N d (N / 1000) (by omega) h9 hm]
    have e : N + 99 * d = 0 + 10 * (0 + 10 * (d + 10 * (N / 1000))) := by omega
    rw [e, lsb_cons 0 _ (by decide) (Or.inr (by omega)), lsb_cons 0 _ (by decide) (Or.inr (by omega)),
      lsb_cons d _ h9 (Or.inl h0)]
    have hg : (Guard.and (.and (.or (.peekLen 2 1) (.peekLt 2 [2, 0])) (.neg (.peekEq 2 [1])))
        (.neg (.peekEq 2 [0, 1]))).eval (mkF (d :: 0 :: 0 :: lsb (N / 1000)) fl) = true := by
      simp [Guard.eval, DS.peek, mkF, lexLt, h1]
    have hsig : DS.shiftSig ([d] ++ List.replicate 1 0) = [d] := by
      simp [DS.shiftSig, h0]
    have hsh : (mk (d :: 0 :: 0 :: lsb (N / 1000))).shift 2 = (none, mk (0 :: 0 :: d :: lsb (N / 1000))) :=
      shift_frame [d] (lsb (N / 1000)) 1 hsig (by simp)
    simp only [T2N.Fr.cent, Act.exec]
    rw [if_pos hg, shift_mkF fl hsh]

/-- `cent` alone: implicit `1` -/
theorem cent_exec_alone (N fl : Nat) (hN : N % 1000 = 0) :
    T2N.Fr.cent.exec (mkF (lsb N) fl) = (none, mkF (lsb (N + 100)) fl, 0) := by
  have hs : (mk (lsb N)).shift 2 = (none, mk (lsb (N + 100))) := by
    have := shift_one_lsb 2 (N / 1000) (by decide)
    have e1 : 10 ^ (2 + 1) * (N / 1000) = N := by omega
    have e2 : 10 ^ 2 + N = N + 100 := by omega
    rw [e1, e2] at this
    exact this
  have hg : (Guard.and (.and (.or (.peekLen 2 1) (.peekLt 2 [2, 0])) (.neg (.peekEq 2 [1])))
      (.neg (.peekEq 2 [0, 1]))).eval (mkF (lsb N) fl) = true := by
    show ((((mkF (lsb N) fl).peek 2).length == 1 || lexLt ((mkF (lsb N) fl).peek 2) [2, 0]) &&
      !((mkF (lsb N) fl).peek 2 == [1]) && !((mkF (lsb N) fl).peek 2 == [0, 1])) = true
    rcases peekA N fl (by omega) with h | h <;> rw [h] <;> rfl
  simp only [T2N.Fr.cent, Act.exec]
  rw [if_pos hg, shift_mkF fl hs]

theorem cent_apply_unit (f d N fl : Nat) (w : Word) (hw : Plain w T2N.Fr.cent) (h2 : 2 ≤ d) (h9 : d < 10)
    (hN : N % 1000 = d) :
    Fr.applyFuel (f + 1) w (mkF (lsb N) fl) = (none, mkF (lsb (N + 99 * d)) 0) :=
  applyFuel_ok f hw (cent_exec_unit d N fl h2 h9 hN)

theorem cent_apply_alone (f N fl : Nat) (hN : N % 1000 = 0) :
    Fr.applyFuel (f + 1) w!"cent" (mkF (lsb N) fl) = (none, mkF (lsb (N + 100)) 0) :=
  applyFuel_ok f plain_cent (cent_exec_alone N fl hN)

theorem peek_ne_one (N fl : Nat) (h : N ≠ 1) : (Guard.peekEq 2 [1]).eval (mkF (lsb N) fl) = false := by
  show ((mkF (lsb N) fl).peek 2 == [1]) = false
  rw [peek_mkF]
  by_cases hz : N = 0
  · subst hz; rw [lsb_zero]; rfl
  · by_cases h10 : N < 10
    · rw [lsb_digit N h10 hz]; simp [h]
    · rw [lsb_two N (N % 10) (N / 10 % 10) (N / 100) (by omega) (by omega) (by omega) (by omega)]
      simp

theorem rangeFree_mkF (r : List Nat) (fl s e : Nat) : (mkF r fl).rangeFree s e = (mk r).rangeFree s e := rfl

/-- `mille` / `mil` after a group `2 ≤ g ≤ 999` -/
theorem mille_exec_group (N0 g fl : Nat) (hN : N0 % 10 ^ 6 = 0) (g2 : 2 ≤ g) (g1 : g < 1000) :
    T2N.Fr.mille.exec (mkF (lsb (N0 + g)) fl) = (none, mkF (lsb (N0 + g * 1000)) fl, 0) := by
  obtain ⟨A, rfl⟩ : ∃ A, N0 = 10 ^ (3 + 3) * A := ⟨N0 / 10 ^ 6, by omega⟩
  rw [Nat.add_comm _ g, Nat.add_comm _ (g * 1000)]
  have hg : (Guard.rangeFree 3 5).eval (mkF (lsb (g + 10 ^ (3 + 3) * A)) fl) = true :=
    rangeFree_lsb 3 g A (by decide) g1
  have hp : (Guard.peekEq 2 [1]).eval (mkF (lsb (g + 10 ^ (3 + 3) * A)) fl) = false :=
    peek_ne_one _ fl (by omega)
  have hs : (mk (lsb (g + 10 ^ (3 + 3) * A))).shift 3 = (none, mk (lsb (g * 10 ^ 3 + 10 ^ (3 + 3) * A))) :=
    shift_lsb 3 g A (by decide) (by omega) g1
  simp only [T2N.Fr.mille, Act.when, Act.exec]
  rw [if_pos hg, if_neg (by rw [hp]; exact Bool.false_ne_true), shift_mkF fl hs]

/-- `mille` / `mil` alone -/
theorem mille_exec_alone (N0 fl : Nat) (hN : N0 % 10 ^ 6 = 0) :
    T2N.Fr.mille.exec (mkF (lsb N0) fl) = (none, mkF (lsb (N0 + 1000)) fl, 0) := by
  have hg : (Guard.rangeFree 3 5).eval (mkF (lsb N0) fl) = true := by
    have := rangeFree_lsb 3 0 (N0 / 10 ^ 6) (by decide) (by decide)
    have e : 0 + 10 ^ (3 + 3) * (N0 / 10 ^ 6) = N0 := by omega
    rw [e] at this
    exact this
  have hp : (Guard.peekEq 2 [1]).eval (mkF (lsb N0) fl) = false := peek_ne_one _ fl (by omega)
  have hs : (mk (lsb N0)).shift 3 = (none, mk (lsb (N0 + 1000))) := by
    have := shift_one_lsb 3 (N0 / 10 ^ 4) (by decide)
    have e1 : 10 ^ (3 + 1) * (N0 / 10 ^ 4) = N0 := by omega
    have e2 : 10 ^ 3 + N0 = N0 + 1000 := by omega
    rw [e1, e2] at this
    exact this
  simp only [T2N.Fr.mille, Act.when, Act.exec]
  rw [if_pos hg, if_neg (by rw [hp]; exact Bool.false_ne_true), shift_mkF fl hs]

theorem million_exec (N0 g fl : Nat) (hN : N0 % 10 ^ 9 = 0) (g0 : g ≠ 0) (g1 : g < 1000) :
    T2N.Fr.million.exec (mkF (lsb (N0 + g)) fl) = (none, mkF (lsb (N0 + g * 10 ^ 6)) fl, 0) := by
  obtain ⟨A, rfl⟩ : ∃ A, N0 = 10 ^ (6 + 3) * A := ⟨N0 / 10 ^ 9, by omega⟩
  rw [Nat.add_comm _ g, Nat.add_comm _ (g * 10 ^ 6)]
  have hg : (Guard.rangeFree 6 8).eval (mkF (lsb (g + 10 ^ (6 + 3) * A)) fl) = true :=
    rangeFree_lsb 6 g A (by decide) g1
  have hs : (mk (lsb (g + 10 ^ (6 + 3) * A))).shift 6 = (none, mk (lsb (g * 10 ^ 6 + 10 ^ (6 + 3) * A))) :=
    shift_lsb 6 g A (by decide) g0 g1
  simp only [T2N.Fr.million, Act.when, Act.exec]
  rw [if_pos hg, shift_mkF fl hs]

theorem milliard_exec (N0 g fl : Nat) (hN : N0 % 10 ^ 12 = 0) (g0 : g ≠ 0) (g1 : g < 1000) :
    (Act.shift 9).exec (mkF (lsb (N0 + g)) fl) = (none, mkF (lsb (N0 + g * 10 ^ 9)) fl, 0) := by
  obtain ⟨A, rfl⟩ : ∃ A, N0 = 10 ^ (9 + 3) * A := ⟨N0 / 10 ^ 12, by omega⟩
  rw [Nat.add_comm _ g, Nat.add_comm _ (g * 10 ^ 9)]
  have hs : (mk (lsb (g + 10 ^ (9 + 3) * A))).shift 9 = (none, mk (lsb (g * 10 ^ 9 + 10 ^ (9 + 3) * A))) :=
    shift_lsb 9 g A (by decide) g0 g1
  exact exec_shift (shift_mkF fl hs)


theorem mille_apply_group (f N0 g fl : Nat) (w : Word) (hw : Plain w T2N.Fr.mille) (hN : N0 % 10 ^ 6 = 0)
    (g2 : 2 ≤ g) (g1 : g < 1000) :
    Fr.applyFuel (f + 1) w (mkF (lsb (N0 + g)) fl) = (none, mkF (lsb (N0 + g * 1000)) 0) :=
  applyFuel_ok f hw (mille_exec_group N0 g fl hN g2 g1)

theorem mille_apply_alone (f N0 fl : Nat) (w : Word) (hw : Plain w T2N.Fr.mille) (hN : N0 % 10 ^ 6 = 0) :
    Fr.applyFuel (f + 1) w (mkF (lsb N0) fl) = (none, mkF (lsb (N0 + 1000)) 0) :=
  applyFuel_ok f hw (mille_exec_alone N0 fl hN)

theorem million_apply (f N0 g fl : Nat) (w : Word) (hw : Plain w T2N.Fr.million) (hN : N0 % 10 ^ 9 = 0)
    (g0 : g ≠ 0) (g1 : g < 1000) :
    Fr.applyFuel (f + 1) w (mkF (lsb (N0 + g)) fl) = (none, mkF (lsb (N0 + g * 10 ^ 6)) 0) :=
  applyFuel_ok f hw (million_exec N0 g fl hN g0 g1)

theorem milliard_apply (f N0 g fl : Nat) (w : Word) (hw : Plain w (.shift 9)) (hN : N0 % 10 ^ 12 = 0)
    (g0 : g ≠ 0) (g1 : g < 1000) :
    Fr.applyFuel (f + 1) w (mkF (lsb (N0 + g)) fl) = (none, mkF (lsb (N0 + g * 10 ^ 9)) 0) :=
  applyFuel_ok f hw (milliard_exec N0 g fl hN g0 g1)

/-! ## sequences of words -/

/-- running `ws` (then anything) from state `(N, fl)` with `applyFuel (f+1)` is running the rest from
state `(N', fl')` -/
def Steps (f : Nat) (ws : List Word) (N fl N' fl' : Nat) : Prop :=
  ∀ rest, execGroupFrom (Fr.applyFuel (f + 1)) (ws ++ rest) (mkF (lsb N) fl) false =
    execGroupFrom (Fr.applyFuel (f + 1)) rest (mkF (lsb N') fl') false

/-- the same with unspecified final flags -/
def StepsE (f : Nat) (ws : List Word) (N fl N' : Nat) : Prop := ∃ fl', Steps f ws N fl N' fl'

theorem Steps.nil (f N fl : Nat) : Steps f [] N fl N fl := fun _ => rfl

theorem Steps.append {f : Nat} {a b : List Word} {N fl N' fl' N'' fl'' : Nat} (h1 : Steps f a N fl N' fl')
    (h2 : Steps f b N' fl' N'' fl'') : Steps f (a ++ b) N fl N'' fl'' := by
  intro rest; rw [List.append_assoc, h1, h2]

theorem Steps.single {f : Nat} {w : Word} {N fl N' fl' : Nat}
    (h : Fr.applyFuel (f + 1) w (mkF (lsb N) fl) = (none, mkF (lsb N') fl')) : Steps f [w] N fl N' fl' := by
  intro rest
  rw [List.singleton_append, execGroupFrom, h]

theorem Steps.cons {f : Nat} {w : Word} {b : List Word} {N fl N' fl' N'' fl'' : Nat}
    (h : Fr.applyFuel (f + 1) w (mkF (lsb N) fl) = (none, mkF (lsb N') fl'))
    (h2 : Steps f b N' fl' N'' fl'') : Steps f (w :: b) N fl N'' fl'' :=
  Steps.append (Steps.single h) h2

theorem Steps.cast {f : Nat} {ws : List Word} {N fl N' fl' M : Nat} (h : Steps f ws N fl N' fl') (e : N' = M) :
    Steps f ws N fl M fl' := e ▸ h

theorem StepsE.cast {f : Nat} {ws : List Word} {N fl N' M : Nat} (h : StepsE f ws N fl N') (e : N' = M) :
    StepsE f ws N fl M := e ▸ h

theorem Steps.toE {f : Nat} {ws : List Word} {N fl N' fl' : Nat} (h : Steps f ws N fl N' fl') :
    StepsE f ws N fl N' := ⟨fl', h⟩

theorem Steps.appendE {f : Nat} {a b : List Word} {N fl N' fl' N'' : Nat} (h1 : Steps f a N fl N' fl')
    (h2 : StepsE f b N' fl' N'') : StepsE f (a ++ b) N fl N'' := by
  obtain ⟨fl'', h2⟩ := h2
  exact ⟨fl'', Steps.append h1 h2⟩

theorem Steps.consE {f : Nat} {w : Word} {b : List Word} {N fl N' fl' N'' : Nat}
    (h : Fr.applyFuel (f + 1) w (mkF (lsb N) fl) = (none, mkF (lsb N') fl'))
    (h2 : StepsE f b N' fl' N'') : StepsE f (w :: b) N fl N'' :=
  Steps.appendE (Steps.single h) h2

/-- a part with unspecified final flags followed by a part that accepts any flags -/
theorem StepsE.append {f : Nat} {a b : List Word} {N fl N' N'' fl'' : Nat} (h1 : StepsE f a N fl N')
    (h2 : ∀ fl', Steps f b N' fl' N'' fl'') : Steps f (a ++ b) N fl N'' fl'' := by
  obtain ⟨fl', h1⟩ := h1
  exact Steps.append h1 (h2 fl')

/-- `et` is accepted as `Incomplete`, resets the flags, and the next word resets the `Incomplete` status -/
theorem Steps.et {f : Nat} {w : Word} {N N' fl' : Nat} (hN : 10 ≤ N)
    (h : Fr.applyFuel (f + 1) w (mkF (lsb N) 0) = (none, mkF (lsb N') fl')) :
    Steps f [w!"et", w] N 1 N' fl' := by
  intro rest
  show execGroupFrom (Fr.applyFuel (f + 1)) (w!"et" :: w :: rest) (mkF (lsb N) 1) false = _
  rw [execGroupFrom, et_apply f N hN]
  dsimp only
  rw [execGroupFrom, h]

/-! ## the spelling below 100 -/

theorem unitWord_dix : Fr.unitWord 10 = w!"dix" := rfl

/-- 10 … 19 on free positions or after `soixante` / `quatre-vingt` -/
theorem teens10_steps (f u N fl : Nat) (hu : u < 10) (hN : N % 100 = 0 ∨ N % 100 = 60 ∨ N % 100 = 80) :
    StepsE f (Fr.teens (10 + u)) N fl (N + (10 + u)) := by
  unfold Fr.teens
  by_cases h17 : 10 + u < 17
  · rw [if_pos h17]
    by_cases h0 : u = 0
    · subst h0
      exact (Steps.single (dix_apply f N fl hN)).toE
    · exact (Steps.single (teen_apply f N fl u (by omega) (by omega) hN)).toE
  · rw [if_neg h17]
    have e : 10 + u - 10 = u := by omega
    rw [e]
    have := unit_apply f u (N + 10) 63 (by omega) hu (by omega) (Or.inr (Or.inr ⟨rfl, by omega⟩))
    have e2 : N + 10 + u = N + (10 + u) := by omega
    rw [e2] at this
    exact (Steps.cons (dix_apply f N fl hN) (Steps.single this)).toE

/-- a tens word followed by a unit, with `et` before `un` -/
theorem regular_steps (f t u N fl : Nat) (w : Word) (ht : 2 ≤ t) (hu : u < 10) (hN : N % 100 = 0)
    (hw : ∀ fl, Fr.applyFuel (f + 1) w (mkF (lsb N) fl) = (none, mkF (lsb (N + 10 * t)) 1)) :
    StepsE f (Fr.regular w u) N fl (N + (10 * t + u)) := by
  unfold Fr.regular
  by_cases h0 : u = 0
  · subst h0
    rw [if_pos (by rfl)]
    exact (Steps.single (hw fl)).toE
  · rw [if_neg (by simp [h0])]
    by_cases h1 : u = 1
    · subst h1
      rw [if_pos (by rfl)]
      have hun := unit_apply f 1 (N + 10 * t) 0 (by decide) (by decide) (by omega) (Or.inl rfl)
      exact ((Steps.append (Steps.single (hw fl)) (Steps.et (by omega) hun)).cast (by omega)).toE
    · rw [if_neg (by simp [h1])]
      have hun := unit_apply f u (N + 10 * t) 1 h0 hu (by omega) (Or.inr (Or.inl ⟨rfl, by omega⟩))
      exact ((Steps.cons (hw fl) (Steps.single hun)).cast (by omega)).toE

theorem below100_steps (f : Nat) (v : Var) (g n : Nat) (sOk : Bool) (N : Nat) (h0 : n ≠ 0) (h1 : n < 100)
    (hN : N % 100 = 0) : StepsE f (Fr.below100 v g n sOk) N 0 (N + n) := by
  unfold Fr.below100
  by_cases h20 : n < 20
  · rw [if_pos h20]
    by_cases h10 : n < 10
    · unfold Fr.teens
      rw [if_pos (by omega)]
      exact (Steps.single (unit_apply f n N 0 h0 h10 (by omega) (Or.inl rfl))).toE
    · obtain ⟨u, rfl⟩ : ∃ u, n = 10 + u := ⟨n - 10, by omega⟩
      exact teens10_steps f u N 0 (by omega) (Or.inl hN)
  · rw [if_neg h20]
    dsimp only
    have hu : n % 10 < 10 := by omega
    have hquatre := unit_apply f 4 N 0 (by decide) (by decide) (by omega) (Or.inl rfl)
    by_cases h7 : n / 10 < 7
    · rw [if_pos h7]
      exact (regular_steps f (n / 10) (n % 10) N 0 _ (by omega) hu hN
        (fun fl => tens_apply f N fl (n / 10) (by omega) (by omega) hN)).cast (by omega)
    · rw [if_neg h7]
      by_cases e7 : n / 10 = 7
      · rw [if_pos (by simp [e7])]
        have hsoix : ∀ fl, Fr.applyFuel (f + 1) w!"soixante" (mkF (lsb N) fl) = (none, mkF (lsb (N + 10 * 6)) 1) :=
          fun fl => tens_apply f N fl 6 (by decide) (by decide) hN
        cases hf : flag v (cp g 1)
        · rw [if_neg Bool.false_ne_true]
          by_cases hu1 : n % 10 = 1
          · rw [if_pos (by simp [hu1])]
            have honze := teen_apply f (N + 10 * 6) 0 1 (by decide) (by decide) (Or.inr (Or.inl (by omega)))
            exact ((Steps.append (Steps.single (hsoix 0)) (Steps.et (by omega) honze)).cast (by omega)).toE
          · rw [if_neg (by simp [hu1])]
            exact (Steps.consE (hsoix 0) (teens10_steps f (n % 10) (N + 10 * 6) 1 hu
              (Or.inr (Or.inl (by omega))))).cast (by omega)
        · rw [if_pos rfl]
          exact (regular_steps f 7 (n % 10) N 0 _ (by decide) hu hN
            (fun fl => regional_apply f N fl 7 _ plain_septante (by decide) (by decide) hN)).cast (by omega)
      · rw [if_neg (by simp [e7])]
        by_cases e8 : n / 10 = 8
        · rw [if_pos (by simp [e8])]
          split
          · by_cases hu0 : n % 10 = 0
            · rw [if_pos (by simp [hu0])]
              have hv : Plain (if (sOk && !flag v (cp g 5)) = true then w!"vingts" else w!"vingt") T2N.Fr.vingt := by
                split
                · exact plain_vingts
                · exact plain_vingt
              exact ((Steps.cons hquatre (Steps.single (vingt_after_quatre f (N + 4) 0 _ hv (by omega)))).cast
                (by omega)).toE
            · rw [if_neg (by simp [hu0])]
              have hun := unit_apply f (n % 10) (N + 4 + 76) 0 hu0 hu (by omega) (Or.inl rfl)
              exact ((Steps.cons hquatre (Steps.cons (vingt_after_quatre f (N + 4) 0 _ plain_vingt (by omega))
                (Steps.single hun))).cast (by omega)).toE
          · exact (regular_steps f 8 (n % 10) N 0 _ (by decide) hu hN
              (fun fl => regional_apply f N fl 8 _ plain_huitante (by decide) (by decide) hN)).cast (by omega)
          · exact (regular_steps f 8 (n % 10) N 0 _ (by decide) hu hN
              (fun fl => regional_apply f N fl 8 _ plain_octante (by decide) (by decide) hN)).cast (by omega)
        · rw [if_neg (by simp [e8])]
          cases hf : flag v (cp g 3)
          · rw [if_neg Bool.false_ne_true]
            exact (Steps.consE hquatre (Steps.consE (vingt_after_quatre f (N + 4) 0 _ plain_vingt (by omega))
              (teens10_steps f (n % 10) (N + 4 + 76) 0 hu (Or.inr (Or.inr (by omega)))))).cast (by omega)
          · rw [if_pos rfl]
            exact (regular_steps f 9 (n % 10) N 0 _ (by decide) hu hN
              (fun fl => regional_apply f N fl 9 _ plain_nonante (by decide) (by decide) hN)).cast (by omega)


/-! ## hundreds and the words of a group -/

theorem hundreds_steps (f : Nat) (v : Var) (g h : Nat) (sOk : Bool) (N : Nat) (h9 : h < 10) (hN : N % 1000 = 0) :
    Steps f (Fr.hundreds v g h sOk) N 0 (N + 100 * h) 0 := by
  unfold Fr.hundreds
  by_cases h0 : h = 0
  · subst h0
    rw [if_pos (by rfl)]
    exact Steps.nil f N 0
  · rw [if_neg (by simp [h0])]
    by_cases h1 : h = 1
    · subst h1
      rw [if_pos (by rfl)]
      exact Steps.single (cent_apply_alone f N 0 hN)
    · rw [if_neg (by simp [h1])]
      have hun := unit_apply f h N 0 h0 h9 (by omega) (Or.inl rfl)
      have hc : Plain (if (sOk && !flag v (cp g 4)) = true then w!"cents" else w!"cent") T2N.Fr.cent := by
        split
        · exact plain_cents
        · exact plain_cent
      exact (Steps.cons hun (Steps.single (cent_apply_unit f h (N + h) 0 _ hc (by omega) h9 (by omega)))).cast
        (by omega)

/-- the numerals of a group `1 ≤ n ≤ 999` (before hyphenation) -/
def gw (v : Var) (g n : Nat) (sOk : Bool) : List Word :=
  Fr.hundreds v g (n / 100) (sOk && n % 100 == 0) ++
    (if n % 100 == 0 then [] else Fr.below100 v g (n % 100) sOk)

theorem gw_steps (f : Nat) (v : Var) (g n : Nat) (sOk : Bool) (N : Nat) (n1 : n < 1000)
    (hN : N % 1000 = 0) : StepsE f (gw v g n sOk) N 0 (N + n) := by
  unfold gw
  have hh := hundreds_steps f v g (n / 100) (sOk && n % 100 == 0) N (by omega) hN
  by_cases hr : n % 100 = 0
  · rw [if_pos (by simp [hr]), List.append_nil]
    exact (hh.cast (by omega)).toE
  · rw [if_neg (by simp [hr])]
    exact (Steps.appendE hh (below100_steps f v g (n % 100) sOk (N + 100 * (n / 100)) hr (by omega)
      (by omega))).cast (by omega)

/-! ## hyphen-free words -/

def Atoms (ws : List Word) : Prop := ∀ w ∈ ws, w.contains '-' = false

theorem Atoms.nil : Atoms [] := fun _ h => absurd h List.not_mem_nil

theorem Atoms.cons {w : Word} {ws : List Word} (h : w.contains '-' = false) (hs : Atoms ws) : Atoms (w :: ws) := by
  intro x hx
  rcases List.mem_cons.mp hx with rfl | hx
  · exact h
  · exact hs x hx

theorem Atoms.append {a b : List Word} (ha : Atoms a) (hb : Atoms b) : Atoms (a ++ b) := by
  intro x hx
  rcases List.mem_append.mp hx with h | h
  · exact ha x h
  · exact hb x h

theorem unitWord_atom (n : Nat) : (Fr.unitWord n).contains '-' = false := by
  by_cases h : n < 17
  · have : n = 0 ∨ n = 1 ∨ n = 2 ∨ n = 3 ∨ n = 4 ∨ n = 5 ∨ n = 6 ∨ n = 7 ∨ n = 8 ∨ n = 9 ∨ n = 10 ∨ n = 11 ∨
        n = 12 ∨ n = 13 ∨ n = 14 ∨ n = 15 ∨ n = 16 := by omega
    rcases this with rfl | rfl | rfl | rfl | rfl | rfl | rfl | rfl | rfl | rfl | rfl | rfl | rfl | rfl | rfl | rfl | rfl <;>
      decide
  · obtain ⟨k, rfl⟩ : ∃ k, n = k + 17 := ⟨n - 17, by omega⟩
    rfl

theorem tensWord_atom (t : Nat) : (Fr.tensWords.getD t []).contains '-' = false := by
  by_cases h : t < 7
  · have : t = 0 ∨ t = 1 ∨ t = 2 ∨ t = 3 ∨ t = 4 ∨ t = 5 ∨ t = 6 := by omega
    rcases this with rfl | rfl | rfl | rfl | rfl | rfl | rfl <;> decide
  · obtain ⟨k, rfl⟩ : ∃ k, t = k + 7 := ⟨t - 7, by omega⟩
    rfl

theorem teens_atoms (n : Nat) : Atoms (Fr.teens n) := by
  unfold Fr.teens
  split
  · exact Atoms.cons (unitWord_atom _) Atoms.nil
  · exact Atoms.cons (by decide) (Atoms.cons (unitWord_atom _) Atoms.nil)

theorem regular_atoms (w : Word) (u : Nat) (hw : w.contains '-' = false) : Atoms (Fr.regular w u) := by
  unfold Fr.regular
  split
  · exact Atoms.cons hw Atoms.nil
  · split
    · exact Atoms.cons hw (Atoms.cons (by decide) (Atoms.cons (by decide) Atoms.nil))
    · exact Atoms.cons hw (Atoms.cons (unitWord_atom _) Atoms.nil)

theorem below100_atoms (v : Var) (g n : Nat) (sOk : Bool) : Atoms (Fr.below100 v g n sOk) := by
  unfold Fr.below100
  split
  · exact teens_atoms n
  · dsimp only
    split
    · exact regular_atoms _ _ (tensWord_atom _)
    · split
      · split
        · exact regular_atoms _ _ (by decide)
        · split
          · exact Atoms.cons (by decide) (Atoms.cons (by decide) (Atoms.cons (by decide) Atoms.nil))
          · exact Atoms.cons (by decide) (teens_atoms _)
      · split
        · split
          · split
            · refine Atoms.cons (by decide) (Atoms.cons ?_ Atoms.nil)
              split <;> decide
            · exact Atoms.cons (by decide) (Atoms.cons (by decide) (Atoms.cons (unitWord_atom _) Atoms.nil))
          · exact regular_atoms _ _ (by decide)
          · exact regular_atoms _ _ (by decide)
        · split
          · exact regular_atoms _ _ (by decide)
          · exact Atoms.cons (by decide) (Atoms.cons (by decide) (teens_atoms _))

theorem hundreds_atoms (v : Var) (g h : Nat) (sOk : Bool) : Atoms (Fr.hundreds v g h sOk) := by
  unfold Fr.hundreds
  split
  · exact Atoms.nil
  · split
    · exact Atoms.cons (by decide) Atoms.nil
    · refine Atoms.cons (unitWord_atom _) (Atoms.cons ?_ Atoms.nil)
      split <;> decide

theorem gw_atoms (v : Var) (g n : Nat) (sOk : Bool) : Atoms (gw v g n sOk) := by
  unfold gw
  refine Atoms.append (hundreds_atoms _ _ _ _) ?_
  split
  · exact Atoms.nil
  · exact below100_atoms _ _ _ _

theorem teens_ne (n : Nat) : Fr.teens n ≠ [] := by
  unfold Fr.teens; split <;> simp

theorem regular_ne (w : Word) (u : Nat) : Fr.regular w u ≠ [] := by
  unfold Fr.regular; split
  · simp
  · split <;> simp

theorem below100_ne (v : Var) (g n : Nat) (sOk : Bool) : Fr.below100 v g n sOk ≠ [] := by
  unfold Fr.below100
  split
  · exact teens_ne n
  · dsimp only
    split
    · exact regular_ne _ _
    · split
      · split
        · exact regular_ne _ _
        · split <;> simp
      · split
        · split
          · split <;> simp
          · exact regular_ne _ _
          · exact regular_ne _ _
        · split
          · exact regular_ne _ _
          · simp

theorem gw_ne (v : Var) (g n : Nat) (sOk : Bool) (n0 : n ≠ 0) (n1 : n < 1000) : gw v g n sOk ≠ [] := by
  unfold gw
  intro h
  have ⟨h1, h2⟩ := List.append_eq_nil_iff.mp h
  by_cases hr : n % 100 = 0
  · unfold Fr.hundreds at h1
    rw [if_neg (by simp; omega)] at h1
    split at h1 <;> simp at h1
  · rw [if_neg (by simp [hr])] at h2
    exact below100_ne _ _ _ _ h2


/-! ## hyphenated words: splitting -/

theorem go_hyphen (a b cur : Word) :
    splitOnChar.go '-' (a ++ '-' :: b) cur = splitOnChar.go '-' a cur ++ splitOnChar.go '-' b [] := by
  induction a generalizing cur with
  | nil =>
    simp [splitOnChar.go]
  | cons x a ih =>
    rw [List.cons_append, splitOnChar.go, splitOnChar.go]
    by_cases hx : (x == '-') = true
    · rw [if_pos hx, if_pos hx, ih, List.cons_append]
    · rw [if_neg hx, if_neg hx, ih]

theorem split_hyphen (a b : Word) :
    splitOnChar '-' (a ++ ['-'] ++ b) = splitOnChar '-' a ++ splitOnChar '-' b := by
  unfold splitOnChar
  rw [List.append_assoc, List.singleton_append, go_hyphen]

theorem split_atom (w : Word) (h : w.contains '-' = false) : splitOnChar '-' w = [w] := by
  unfold splitOnChar
  have := splitOnChar_go_nohyphen w [] [] h
  rw [List.append_nil] at this
  rw [this, splitOnChar.go]
  simp

theorem split_hyphenate_atoms (ws : List Word) (hat : Atoms ws) (hne : ws ≠ []) :
    splitOnChar '-' (Fr.hyphenate ws) = ws := by
  induction ws with
  | nil => exact absurd rfl hne
  | cons w t ih =>
    have hw := hat w (List.mem_cons_self ..)
    have ht : Atoms t := fun x hx => hat x (List.mem_cons_of_mem _ hx)
    cases t with
    | nil => exact split_atom w hw
    | cons w2 t2 =>
      show splitOnChar '-' (w ++ ['-'] ++ Fr.hyphenate (w2 :: t2)) = _
      rw [split_hyphen, split_atom w hw, ih ht (by simp)]; rfl

theorem hyphenate_contains (a b : Word) (t : List Word) : (Fr.hyphenate (a :: b :: t)).contains '-' = true := by
  show (a ++ ['-'] ++ Fr.hyphenate (b :: t)).contains '-' = true
  simp

theorem contains_append_hyphen (a b : Word) : (a ++ ['-'] ++ b).contains '-' = true := by simp

/-! ## hyphenated words: the merge of the sub-builder -/

theorem put_mk (r ds : List Nat) (h1 : (ds == [0]) = false) (h2 : allZero ds = false) :
    (mk r).put ds = if r.isEmpty = true then (none, mk ds.reverse)
      else if r.length < ds.length then (some .overlap, mk r)
      else if allZero (r.take ds.length) = true then (none, mk (ds.reverse ++ r.drop ds.length))
      else (some .overlap, mk r) := by
  unfold DS.put
  have hf : ¬ ((mk r).frozen = true) := Bool.false_ne_true
  have hc : ¬ (((mk r).rbuf.isEmpty && ds == [0]) = true) := by
    rw [h1, Bool.and_false]; exact Bool.false_ne_true
  have ha : ¬ (allZero ds = true) := by rw [h2]; exact Bool.false_ne_true
  rw [if_neg hf, if_neg hc, if_neg ha]
  rfl

theorem put_lsb (g q N : Nat) (g0 : g ≠ 0) (hg : g < 10 ^ q) (hN : N % 10 ^ q = 0) :
    (mk (lsb N)).put (lsb g).reverse = (none, mk (lsb (N + g))) := by
  obtain ⟨x, t, e, hx⟩ := lsb_rev_head g g0
  have hlen := lsb_length_le q g hg
  have h1 : ((lsb g).reverse == [0]) = false := by rw [e]; simp [hx]
  have h2 : allZero (lsb g).reverse = false := by rw [e]; simp [allZero, hx]
  rw [put_mk _ _ h1 h2]
  by_cases hz : N = 0
  · subst hz
    rw [lsb_zero, if_pos (by rfl), List.reverse_reverse, Nat.zero_add]
  · obtain ⟨A, rfl⟩ : ∃ A, N = 10 ^ q * A := ⟨N / 10 ^ q, by
      rw [Nat.mul_comm, Nat.div_mul_cancel (Nat.dvd_of_mod_eq_zero hN)]⟩
    have hA : A ≠ 0 := by
      intro h; subst h; exact hz (Nat.mul_zero _)
    have e1 : 10 ^ q * A = A * 10 ^ q := Nat.mul_comm _ _
    have e2 : A * 10 ^ q + g = g + 10 ^ q * A := by rw [e1]; exact Nat.add_comm _ _
    rw [e1, e2, lsb_mul_pow A q hA, lsb_add_pow q g A hA hg]
    have hne : (List.replicate q 0 ++ lsb A).isEmpty = false := by
      have := lsb_ne_nil hA
      cases hl : lsb A with
      | nil => exact absurd hl this
      | cons a t => simp
    rw [hne, if_neg Bool.false_ne_true, if_neg (by simp; omega)]
    have hz3 : ((List.replicate q 0 ++ lsb A).take (lsb g).reverse.length) =
        List.replicate (lsb g).reverse.length 0 := by
      have := drop_take_zero [] (lsb A) q 0 (lsb g).reverse.length (by simp) (by simp; omega)
      simpa using this
    rw [hz3, if_pos (by simp [allZero])]
    have hr : List.replicate q 0 = List.replicate (lsb g).reverse.length 0 ++
        List.replicate (q - (lsb g).length) 0 := by
      rw [List.replicate_append_replicate]; congr 1; simp; omega
    have hd : (List.replicate q 0 ++ lsb A).drop (lsb g).reverse.length =
        List.replicate (q - (lsb g).length) 0 ++ lsb A := by
      rw [hr, List.append_assoc]
      exact List.drop_left' (by simp)
    rw [hd, List.reverse_reverse, List.append_assoc]

/-- merging the sub-builder of a hyphenated word whose value is `g` -/
theorem merge_lsb (g q N fl fl' : Nat) (g0 : g ≠ 0) (hg : g < 10 ^ q) (hN : N % 10 ^ q = 0)
    (hq : q ≤ 3 ∨ q = 6) :
    mergeGroup (mkF (lsb N) fl) (mkF (lsb g) fl') true Marker.none = (none, mkF (lsb (N + g)) fl') := by
  have hlen := lsb_length_le q g hg
  have hguard : (decide ((mkF (lsb g) fl').len > 3) && decide ((mkF (lsb g) fl').len ≤ 6) &&
      !(mkF (lsb N) fl).rangeFree 3 5) = false := by
    rcases hq with hq | hq
    · have : decide ((mkF (lsb g) fl').len > 3) = false := by
        simp only [DS.len, mkF]; simp; omega
      rw [this]; rfl
    · subst hq
      have hrf : (mkF (lsb N) fl).rangeFree 3 5 = true := by
        have := rangeFree_lsb 3 0 (N / 10 ^ 6) (by decide) (by decide)
        have e : 0 + 10 ^ (3 + 3) * (N / 10 ^ 6) = N := by omega
        rw [e] at this
        exact this
      rw [hrf]; simp
  unfold mergeGroup
  rw [if_neg (by rw [hguard]; exact Bool.false_ne_true)]
  show (match (mkF (lsb N) fl).put (lsb g).reverse with
    | (some e, b') => (some e, b')
    | (none, b') => _) = _
  rw [put_mkF fl (put_lsb g q N g0 hg hN)]
  rfl

/-- a hyphenated word: its parts `ws` run on a fresh builder give `g`, which is merged into the state -/
theorem hyph_apply (f : Nat) (W : Word) (ws : List Word) (g q N fl fl' : Nat)
    (hc : W.contains '-' = true) (hsplit : splitOnChar '-' W = ws)
    (hsub : Steps f ws 0 0 g fl') (g0 : g ≠ 0) (hg : g < 10 ^ q) (hN : N % 10 ^ q = 0) (hq : q ≤ 3 ∨ q = 6) :
    Fr.applyFuel (f + 2) W (mkF (lsb N) fl) = (none, mkF (lsb (N + g)) fl') := by
  have hex : execGroup (Fr.applyFuel (f + 1)) ws = .ok (mkF (lsb g) fl') := by
    have := hsub []
    rw [List.append_nil, lsb_zero, mkF_new] at this
    show execGroupFrom (Fr.applyFuel (f + 1)) ws DS.new false = _
    rw [this, execGroupFrom, if_neg Bool.false_ne_true]
  rw [Fr.applyFuel, if_pos hc, hsplit, hex]
  exact merge_lsb g q N fl fl' g0 hg hN hq

/-- a list of numerals written as one hyphenated word -/
theorem hyph_steps (f : Nat) (ws : List Word) (g q N fl : Nat) (hat : Atoms ws) (hne : ws ≠ [])
    (hctx : StepsE (f + 1) ws N fl (N + g)) (hsub : StepsE f ws 0 0 g)
    (g0 : g ≠ 0) (hg : g < 10 ^ q) (hN : N % 10 ^ q = 0) (hq : q ≤ 3 ∨ q = 6) :
    StepsE (f + 1) [Fr.hyphenate ws] N fl (N + g) := by
  match ws, hat, hne, hctx, hsub with
  | [], _, hne, _, _ => exact absurd rfl hne
  | [w], _, _, hctx, _ => exact hctx
  | a :: b :: t, hat, _, _, hsub =>
    obtain ⟨fl', hsub⟩ := hsub
    exact (Steps.single (hyph_apply f _ _ g q N fl fl' (hyphenate_contains a b t)
      (split_hyphenate_atoms _ hat (by simp)) hsub g0 hg hN hq)).toE


/-! ## a group in its hyphenation style -/

theorem pick_of_reform (v : Var) (g : Nat) (h : Fr.reform v g = true) : pick v (cp g 0) 3 = 2 := by
  unfold Fr.reform at h
  exact beq_iff_eq.mp h

theorem group_reform (v : Var) (g n : Nat) (sOk : Bool) (h : Fr.reform v g = true) :
    Fr.group v g n sOk = [Fr.hyphenate (gw v g n sOk)] := by
  unfold Fr.group
  dsimp only
  rw [pick_of_reform v g h]
  rfl

/-- **per-group theorem**: a group `1 ≤ n ≤ 999`, in any of the three hyphenation styles and any regional
variant, spelled on a state whose three low positions are free adds `n` -/
theorem group_steps (f : Nat) (v : Var) (g n : Nat) (sOk : Bool) (N : Nat) (n0 : n ≠ 0) (n1 : n < 1000)
    (hN : N % 1000 = 0) : StepsE (f + 1) (Fr.group v g n sOk) N 0 (N + n) := by
  unfold Fr.group
  dsimp only
  split
  · -- traditional hyphens
    have hh := hundreds_steps (f + 1) v g (n / 100) (sOk && n % 100 == 0) N (by omega) hN
    by_cases hr : n % 100 = 0
    · have e : (n % 100 == 0) = true := by simp [hr]
      rw [if_pos e, if_pos (by rfl), List.append_nil]
      exact (hh.cast (by omega)).toE
    · have e : ¬ ((n % 100 == 0) = true) := by simp [hr]
      rw [if_neg e]
      have hne := below100_ne v g (n % 100) sOk
      have hat := below100_atoms v g (n % 100) sOk
      have hctx := below100_steps (f + 1) v g (n % 100) sOk (N + 100 * (n / 100)) hr (by omega) (by omega)
      have hsub := (below100_steps f v g (n % 100) sOk 0 hr (by omega) (by omega)).cast (Nat.zero_add _)
      generalize Fr.below100 v g (n % 100) sOk = rs at hne hat hctx hsub ⊢
      have hemp : ¬ (rs.isEmpty = true) := by
        cases rs with
        | nil => exact absurd rfl hne
        | cons a t => exact Bool.false_ne_true
      rw [if_neg hemp]
      by_cases hc : rs.contains w!"et" = true
      · rw [if_pos hc]
        exact (Steps.appendE hh hctx).cast (by omega)
      · rw [if_neg hc]
        have := hyph_steps f rs (n % 100) 2 (N + 100 * (n / 100)) 0 hat hne hctx hsub hr (by omega) (by omega)
          (Or.inl (by decide))
        exact (Steps.appendE hh this).cast (by omega)
  · -- spaces
    exact gw_steps (f + 1) v g n sOk N n1 hN
  · -- 1990 reform
    exact hyph_steps f (gw v g n sOk) n 3 N 0 (gw_atoms v g n sOk) (gw_ne v g n sOk n0 n1)
      (gw_steps (f + 1) v g n sOk N n1 hN) ((gw_steps f v g n sOk 0 n1 (by decide)).cast (Nat.zero_add _))
      n0 (by omega) (by omega) (Or.inl (by decide))

/-! ## thousands -/

/-- the numerals of the thousands part -/
def tw (v : Var) (n : Nat) (mil : Bool) : List Word :=
  if n == 1 then [if mil && flag v (cp 1 7) then w!"mil" else w!"mille"] else gw v 1 n false ++ [w!"mille"]

theorem plain_milword (v : Var) (mil : Bool) :
    Plain (if (mil && flag v (cp 1 7)) = true then w!"mil" else w!"mille") T2N.Fr.mille := by
  split
  · exact plain_mil
  · exact plain_mille

theorem tw_steps (f : Nat) (v : Var) (n : Nat) (mil : Bool) (N : Nat) (n0 : n ≠ 0) (n1 : n < 1000)
    (hN : N % 10 ^ 6 = 0) : Steps f (tw v n mil) N 0 (N + n * 1000) 0 := by
  unfold tw
  by_cases h1 : n = 1
  · subst h1
    rw [if_pos (by rfl)]
    exact Steps.single (mille_apply_alone f N 0 _ (plain_milword v mil) hN)
  · rw [if_neg (by simp [h1])]
    exact StepsE.append (gw_steps f v 1 n false N n1 (by omega))
      (fun fl => Steps.single (mille_apply_group f N n fl _ plain_mille hN (by omega) n1))

theorem tw_atoms (v : Var) (n : Nat) (mil : Bool) : Atoms (tw v n mil) := by
  unfold tw
  split
  · refine Atoms.cons ?_ Atoms.nil
    split <;> decide
  · exact Atoms.append (gw_atoms _ _ _ _) (Atoms.cons (by decide) Atoms.nil)

/-- in the reform style the thousands are one word, whose parts are `tw` -/
theorem thousands_reform (v : Var) (n : Nat) (mil : Bool) (hr : Fr.reform v 1 = true) (n0 : n ≠ 0)
    (n1 : n < 1000) : ∃ W, Fr.thousands v n mil = [W] ∧ splitOnChar '-' W = tw v n mil ∧
      (n ≠ 1 → W.contains '-' = true) := by
  unfold Fr.thousands tw
  rw [if_neg (by simp [n0])]
  by_cases h1 : n = 1
  · subst h1
    have e11 : ((1 : Nat) == 1) = true := rfl
    rw [if_pos e11, if_pos e11]
    refine ⟨_, rfl, split_atom _ ?_, fun h => absurd rfl h⟩
    split <;> decide
  · have e1 : ¬ ((n == 1) = true) := by simp [h1]
    rw [if_neg e1, if_neg e1, if_pos hr, group_reform v 1 n false hr]
    refine ⟨_, rfl, ?_, fun _ => ?_⟩
    · show splitOnChar '-' (Fr.hyphenate (gw v 1 n false) ++ ['-'] ++ w!"mille") = _
      rw [split_hyphen, split_hyphenate_atoms _ (gw_atoms _ _ _ _) (gw_ne _ _ _ _ n0 n1),
        split_atom w!"mille" (by decide)]
    · show (Fr.hyphenate (gw v 1 n false) ++ ['-'] ++ w!"mille").contains '-' = true
      exact contains_append_hyphen _ _

theorem thousands_steps (f : Nat) (v : Var) (n : Nat) (mil : Bool) (N : Nat) (n1 : n < 1000)
    (hN : N % 10 ^ 6 = 0) : Steps (f + 1) (Fr.thousands v n mil) N 0 (N + n * 1000) 0 := by
  by_cases n0 : n = 0
  · subst n0
    unfold Fr.thousands
    rw [if_pos (by rfl)]
    exact (Steps.nil (f + 1) N 0).cast (by omega)
  · by_cases hr : Fr.reform v 1 = true
    · obtain ⟨W, e, hs, hc⟩ := thousands_reform v n mil hr n0 n1
      rw [e]
      by_cases h1 : n = 1
      · have := tw_steps (f + 1) v n mil N n0 n1 hN
        have e1 : tw v n mil = [W] := by
          rw [← hs]
          subst h1
          unfold Fr.thousands at e
          rw [if_neg (by decide), if_pos (by rfl)] at e
          have := (List.cons.inj e).1
          rw [← this]
          refine split_atom _ ?_
          split <;> decide
        rw [e1] at this
        exact this
      · exact Steps.single (hyph_apply f W _ (n * 1000) 6 N 0 0 (hc h1) hs
          ((tw_steps f v n mil 0 n0 n1 (by decide)).cast (Nat.zero_add _)) (by omega) (by omega) hN
          (Or.inr rfl))
    · unfold Fr.thousands
      rw [if_neg (by simp [n0])]
      by_cases h1 : n = 1
      · subst h1
        rw [if_pos (by rfl)]
        exact Steps.single (mille_apply_alone (f + 1) N 0 _ (plain_milword v mil) hN)
      · rw [if_neg (by simp [h1]), if_neg hr]
        exact StepsE.append (group_steps f v 1 n false N n0 n1 (by omega))
          (fun fl => Steps.single (mille_apply_group (f + 1) N n fl _ plain_mille hN (by omega) n1))

/-! ## the thousands and the units -/

theorem low_steps (f : Nat) (v : Var) (g1 g0 : Nat) (mil : Bool) (N : Nat) (h1 : g1 < 1000) (h0 : g0 < 1000)
    (hN : N % 10 ^ 6 = 0) : StepsE (f + 1) (Fr.low v g1 g0 mil) N 0 (N + g1 * 1000 + g0) := by
  unfold Fr.low
  dsimp only
  by_cases hc : (g1 != 0 && g0 != 0 && Fr.reform v 1 && Fr.reform v 0) = true
  · rw [if_pos hc]
    simp only [Bool.and_eq_true, bne_iff_ne] at hc
    obtain ⟨⟨⟨n1, n0⟩, r1⟩, r0⟩ := hc
    obtain ⟨W, e, hs, _⟩ := thousands_reform v g1 mil r1 n1 h1
    rw [e, if_neg (by simp [n0]), group_reform v 0 g0 true r0]
    obtain ⟨fl', hg⟩ := gw_steps f v 0 g0 true (0 + g1 * 1000) h0 (by omega)
    have hsub : Steps f (tw v g1 mil ++ gw v 0 g0 true) 0 0 (g1 * 1000 + g0) fl' :=
      (Steps.append (tw_steps f v g1 mil 0 n1 h1 (by decide)) hg).cast (by omega)
    have hsplit : splitOnChar '-' (W ++ ['-'] ++ Fr.hyphenate (gw v 0 g0 true)) =
        tw v g1 mil ++ gw v 0 g0 true := by
      rw [split_hyphen, hs, split_hyphenate_atoms _ (gw_atoms _ _ _ _) (gw_ne _ _ _ _ n0 h0)]
    have := hyph_apply f _ _ (g1 * 1000 + g0) 6 N 0 fl' (contains_append_hyphen _ _) hsplit hsub
      (by omega) (by omega) hN (Or.inr rfl)
    show StepsE (f + 1) [W ++ ['-'] ++ Fr.hyphenate (gw v 0 g0 true)] N 0 (N + g1 * 1000 + g0)
    exact ((Steps.single this).cast (by omega)).toE
  · rw [if_neg hc]
    have ht := thousands_steps f v g1 mil N h1 hN
    by_cases n0 : g0 = 0
    · subst n0
      rw [if_pos (by rfl), List.append_nil]
      exact ht.toE
    · rw [if_neg (by simp [n0])]
      exact Steps.appendE ht (group_steps f v 0 g0 true (N + g1 * 1000) n0 h0 (by omega))

/-! ## millions and milliards -/

theorem scaled_steps (f : Nat) (v : Var) (k n N : Nat) (hk : k = 2 ∨ k = 3) (n1 : n < 1000)
    (hN : N % 10 ^ (3 * k + 3) = 0) : Steps (f + 1) (Fr.scaled v k n) N 0 (N + n * 10 ^ (3 * k)) 0 := by
  unfold Fr.scaled
  by_cases n0 : n = 0
  · subst n0
    rw [if_pos (by rfl)]
    exact (Steps.nil (f + 1) N 0).cast (by omega)
  · rw [if_neg (by simp [n0])]
    dsimp only
    have hg := group_steps f v k n true N n0 n1 (mod1000_of_pow k N hN)
    rcases hk with rfl | rfl
    · have hw : Plain (if (decide (n > 1) && !flag v (cp 2 6)) = true then
          (if ((2 : Nat) == 2) = true then w!"million" else w!"milliard") ++ ['s']
          else (if ((2 : Nat) == 2) = true then w!"million" else w!"milliard")) T2N.Fr.million := by
        have e22 : ((2 : Nat) == 2) = true := rfl
        rw [if_pos e22]
        split
        · exact plain_millions
        · exact plain_million
      exact StepsE.append hg (fun fl => Steps.single (million_apply (f + 1) N n fl _ hw hN n0 n1))
    · have hw : Plain (if (decide (n > 1) && !flag v (cp 3 6)) = true then
          (if ((3 : Nat) == 2) = true then w!"million" else w!"milliard") ++ ['s']
          else (if ((3 : Nat) == 2) = true then w!"million" else w!"milliard")) (.shift 9) := by
        have e32 : ¬ (((3 : Nat) == 2) = true) := by decide
        rw [if_neg e32]
        split
        · exact plain_milliards
        · exact plain_milliard
      exact StepsE.append hg (fun fl => Steps.single (milliard_apply (f + 1) N n fl _ hw hN n0 n1))

theorem cardinal_steps (v : Var) (n : Nat) (hn : n ≠ 0) (h : n < 10 ^ 12) : StepsE 1 (Fr.cardinal v n) 0 0 n := by
  unfold Fr.cardinal
  have hn' : (n == 0) = false := by simp [hn]
  rw [hn', if_neg Bool.false_ne_true]
  dsimp only
  have e3 : (10 : Nat) ^ (3 * 3) = 1000000000 := by decide
  have e2 : (10 : Nat) ^ (3 * 2) = 1000000 := by decide
  have s3 := scaled_steps 0 v 3 (n / 1000000000 % 1000) 0 (Or.inr rfl) (by omega) (Nat.zero_mod _)
  have s2 := scaled_steps 0 v 2 (n / 1000000 % 1000) (0 + n / 1000000000 % 1000 * 10 ^ (3 * 3)) (Or.inl rfl)
    (by omega) (by omega)
  have sl := low_steps 0 v (n / 1000 % 1000) (n % 1000)
    (n / 1000000000 % 1000 == 0 && n / 1000000 % 1000 == 0 && n % 1000 != 0)
    (0 + n / 1000000000 % 1000 * 10 ^ (3 * 3) + n / 1000000 % 1000 * 10 ^ (3 * 2)) (by omega) (by omega)
    (by omega)
  exact (Steps.appendE (Steps.append s3 s2) sl).cast (by omega)


/-- **C01 for French, unbounded**: every cardinal below 10^12, in every accepted spelling variant
(traditional hyphens / spaces / 1990 reform, `septante` `huitante` `octante` `nonante`, plural marks,
`mil`), validates to its decimal digits. -/
theorem C01_validate_fr (v : T2N.Spec.Var) (n : Nat) (h : n < 10 ^ 12) :
    T2N.text2digitsWords T2N.Fr.lang (T2N.Spec.Fr.cardinal v n) = .ok (T2N.Spec.decChars n) := by
  by_cases hn : n = 0
  · subst hn
    have e : decChars 0 = ['0'] := by
      unfold decChars; rw [decDigits, if_pos (by decide)]; decide
    rw [e]
    show text2digitsWords T2N.Fr.lang [w!"zéro"] = _
    decide
  · obtain ⟨fl, hs⟩ := cardinal_steps v n hn h
    have hs := hs []
    rw [List.append_nil, lsb_zero, mkF_new] at hs
    have hex : execGroup T2N.Fr.lang.apply (Fr.cardinal v n) = .ok (mkF (lsb n) fl) := by
      show execGroupFrom (T2N.Fr.applyFuel (1 + 1)) (Fr.cardinal v n) DS.new false = _
      rw [hs, execGroupFrom, if_neg Bool.false_ne_true]
    have hne := lsb_ne_nil hn
    have hemp : (mkF (lsb n) fl).isEmpty = false := by
      show ((lsb n).isEmpty && (0 : Nat) == 0) = false
      cases hl : lsb n with
      | nil => exact absurd hl hne
      | cons a t => rfl
    have hrender : (mkF (lsb n) fl).render = decDigits n := by
      show List.replicate 0 0 ++ (lsb n).reverse = _
      rw [lsb_rev_dec n hn]; rfl
    have hrne : (mkF (lsb n) fl).render.isEmpty = false := by
      rw [hrender, ← lsb_rev_dec n hn]
      cases hl : lsb n with
      | nil => exact absurd hl hne
      | cons a t => simp
    unfold text2digitsWords
    rw [hex]
    dsimp only
    rw [hemp, if_neg Bool.false_ne_true]
    unfold Lang.formatW
    rw [hrne, if_neg Bool.false_ne_true]
    show ValOut.ok (renderChars (mkF (lsb n) fl)) = _
    unfold renderChars decChars
    rw [hrender]

/-- instances: a number in the 1990-reform style with Belgian / Swiss tens, and one with traditional
hyphens -/
example : T2N.text2digitsWords T2N.Fr.lang (T2N.Spec.Fr.cardinal (fun _ => 2) 123456789012) =
    .ok (T2N.Spec.decChars 123456789012) := C01_validate_fr _ _ (by decide)

example : T2N.text2digitsWords T2N.Fr.lang (T2N.Spec.Fr.cardinal (fun _ => 0) 999999999999) =
    .ok (T2N.Spec.decChars 999999999999) := C01_validate_fr _ _ (by decide)

end T2N.C01Fr
