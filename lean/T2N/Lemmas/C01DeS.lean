/-
  T2N.Lemmas.C01DeS — German cardinals, part S: the compound splitter (`splitWord`, leftmost-longest)
  returns exactly the atoms of a compound built from the vocabulary of the speller.

  * `stable pats x`: whether a pattern matches at the head of `x ++ y` is decided by `x` alone;
  * `split_gap`, `split_pat`: the splitter steps over a gap atom / emits a pattern atom;
  * `Chain c`: `c` is a list of atoms (gap atoms = unit, teen, tens words; pattern atoms = `und`, `hundert`,
    `tausend`) without two adjacent gap atoms;
  * `splitWord_chain`, `isSplittable_chain`, `lemmatize_chain`: the three facts `De.apply` needs.
-/
import T2N.Model.De

namespace T2N.C01De
open T2N

/-! ## matching at the head of a string -/

/-- every pattern that `x` is a prefix of is itself a prefix of `x` (so it is equal to `x`): appending
characters to `x` cannot create a new match at the head -/
def stable (pats : List Word) (x : Word) : Bool := pats.all (fun p => !(x.isPrefixOf p) || p.isPrefixOf x)

theorem isPrefixOf_append_of_stable : ∀ (p x y : Word), (x.isPrefixOf p = true → p.isPrefixOf x = true) →
    p.isPrefixOf (x ++ y) = p.isPrefixOf x := by
  intro p
  induction p with
  | nil => intro x y _; simp
  | cons a p ih =>
    intro x y h
    cases x with
    | nil =>
      have := h (by simp)
      simp at this
    | cons b x =>
      rw [List.cons_append, List.isPrefixOf_cons_cons, List.isPrefixOf_cons_cons]
      by_cases hab : a = b
      · subst hab
        rw [ih x y]
        intro hx
        have := h (by rw [List.isPrefixOf_cons_cons]; simp [hx])
        rw [List.isPrefixOf_cons_cons] at this
        simpa using this
      · have : (a == b) = false := by simpa using hab
        rw [this]; rfl

theorem longestAt_congr (pats : List Word) (s t : Word) (h : ∀ p ∈ pats, p.isPrefixOf s = p.isPrefixOf t) :
    longestAt pats s = longestAt pats t := by
  unfold longestAt
  generalize (none : Option Nat) = acc
  induction pats generalizing acc with
  | nil => rfl
  | cons p ps ih =>
    rw [List.foldl_cons, List.foldl_cons, h p (List.mem_cons_self ..)]
    exact ih (fun q hq => h q (List.mem_cons_of_mem _ hq)) _

theorem longestAt_stable (pats : List Word) (x y : Word) (h : stable pats x = true) :
    longestAt pats (x ++ y) = longestAt pats x := by
  apply longestAt_congr
  intro p hp
  apply isPrefixOf_append_of_stable
  intro hx
  have := (List.all_eq_true.mp h) p hp
  simpa [hx] using this

/-! ## steps of the splitter -/

theorem split_end (pats : List Word) (fuel : Nat) (gap : Word) :
    splitWordFuel pats fuel [] gap = if gap.isEmpty then [] else [gap.reverse] := by
  cases fuel <;> rfl

/-- the splitter steps over a gap `g` in which no pattern starts -/
theorem split_gap (pats : List Word) : ∀ (g tail acc : Word) (fuel : Nat),
    (∀ i, i < g.length → longestAt pats (g.drop i ++ tail) = none) →
    splitWordFuel pats (fuel + g.length) (g ++ tail) acc = splitWordFuel pats fuel tail (g.reverse ++ acc) := by
  intro g
  induction g with
  | nil => intro tail acc fuel _; rfl
  | cons c g ih =>
    intro tail acc fuel h
    have h0 := h 0 (by simp)
    rw [List.drop_zero] at h0
    rw [List.length_cons, ← Nat.add_assoc, List.cons_append, splitWordFuel]
    rw [List.cons_append] at h0
    rw [h0]
    dsimp only
    rw [ih tail (c :: acc) fuel (fun i hi => by
      have := h (i + 1) (by simp; omega)
      simpa using this)]
    simp

/-- at a pattern `p` (the longest one matching there) the splitter emits the pending gap and `p` -/
theorem split_pat (pats : List Word) (p tail acc : Word) (fuel : Nat) (hp : p ≠ [])
    (h : longestAt pats (p ++ tail) = some p.length) :
    splitWordFuel pats (fuel + 1) (p ++ tail) acc =
      (if acc.isEmpty then [] else [acc.reverse]) ++ [p] ++ splitWordFuel pats fuel tail [] := by
  obtain ⟨c, p', rfl⟩ := List.exists_cons_of_ne_nil hp
  rw [List.cons_append, splitWordFuel]
  rw [List.cons_append] at h
  rw [h]
  dsimp only
  have e : c :: (p' ++ tail) = (c :: p') ++ tail := rfl
  rw [e, List.take_left' rfl, List.drop_left' rfl]

theorem firstMatch_gap (pats : List Word) : ∀ (g tail : Word) (j : Nat),
    (∀ i, i < g.length → longestAt pats (g.drop i ++ tail) = none) →
    firstMatch pats (g ++ tail) j = firstMatch pats tail (j + g.length) := by
  intro g
  induction g with
  | nil => intro tail j _; rfl
  | cons c g ih =>
    intro tail j h
    have h0 := h 0 (by simp)
    rw [List.drop_zero, List.cons_append] at h0
    rw [List.cons_append, firstMatch, h0]
    dsimp only
    rw [ih tail (j + 1) (fun i hi => by
      have := h (i + 1) (by simp; omega)
      simpa using this)]
    rw [List.length_cons]
    congr 1
    omega

theorem firstMatch_pat (pats : List Word) (p tail : Word) (j n : Nat) (hp : p ≠ [])
    (h : longestAt pats (p ++ tail) = some n) : firstMatch pats (p ++ tail) j = some (j, j + n) := by
  obtain ⟨c, p', rfl⟩ := List.exists_cons_of_ne_nil hp
  rw [List.cons_append, firstMatch]
  rw [List.cons_append] at h
  rw [h]

/-! ## the vocabulary -/

/-- gap atoms: unit, teen and tens words -/
def gaps : List Word := [
  w!"ein", w!"eins", w!"zwei", w!"zwo", w!"drei", w!"vier", w!"fünf", w!"sechs", w!"sieben", w!"acht", w!"neun",
  w!"zehn", w!"elf", w!"zwölf", w!"dreizehn", w!"vierzehn", w!"fünfzehn", w!"sechzehn", w!"siebzehn",
  w!"achtzehn", w!"neunzehn",
  w!"zwanzig", w!"dreißig", w!"dreissig", w!"vierzig", w!"fünfzig", w!"sechzig", w!"siebzig", w!"achtzig",
  w!"neunzig"]

/-- pattern atoms occurring inside compounds -/
def pats3 : List Word := [w!"und", w!"hundert", w!"tausend"]

def gapEndB (g : Word) : Bool :=
  (List.range g.length).all fun i => (longestAt De.patterns (g.drop i)).isNone

def gapNextB (g nx : Word) : Bool :=
  (List.range g.length).all fun i =>
    stable De.patterns (g.drop i ++ nx) && (longestAt De.patterns (g.drop i ++ nx)).isNone

def patNextB (p nx : Word) : Bool :=
  stable De.patterns (p ++ nx) && longestAt De.patterns (p ++ nx) == some p.length

set_option maxRecDepth 100000 in
theorem gapEnd_ok : gaps.all (fun g => !g.isEmpty && gapEndB g) = true := by decide +kernel

set_option maxRecDepth 100000 in
theorem gapNext_ok : gaps.all (fun g => pats3.all (fun p => gapNextB g p)) = true := by decide +kernel

set_option maxRecDepth 100000 in
theorem patEnd_ok : pats3.all (fun p => !p.isEmpty && longestAt De.patterns p == some p.length) = true := by
  decide +kernel

set_option maxRecDepth 100000 in
theorem patNext_ok : pats3.all (fun p => (gaps ++ pats3).all (fun a => patNextB p a)) = true := by decide +kernel

set_option maxRecDepth 100000 in
theorem gaps_not_pats : gaps.all (fun g => !pats3.contains g) = true := by decide +kernel

/-- undeclined: at least three characters and none of the endings `tes`, `ter`, `ten`, `tem` -/
def undeclB (y : Word) : Bool :=
  decide (3 ≤ y.length) && !endsWith y w!"tes" && !endsWith y w!"ter" && !endsWith y w!"ten" && !endsWith y w!"tem"

set_option maxRecDepth 100000 in
theorem undecl_ok : (gaps ++ pats3).all undeclB = true := by decide +kernel


/-! ## chains of atoms -/

/-- a compound: atoms of the vocabulary, never two gap atoms in a row -/
inductive Chain : List Word → Prop
  | gap1 {g : Word} : g ∈ gaps → Chain [g]
  | pat1 {p : Word} : p ∈ pats3 → Chain [p]
  | gapc {g p : Word} {rest : List Word} : g ∈ gaps → p ∈ pats3 → Chain (p :: rest) → Chain (g :: p :: rest)
  | patc {p a : Word} {rest : List Word} : p ∈ pats3 → Chain (a :: rest) → Chain (p :: a :: rest)

theorem Chain.head_mem {a : Word} {rest : List Word} (h : Chain (a :: rest)) : a ∈ gaps ++ pats3 := by
  cases h with
  | gap1 hg => exact List.mem_append_left _ hg
  | pat1 hp => exact List.mem_append_right _ hp
  | gapc hg _ _ => exact List.mem_append_left _ hg
  | patc hp _ => exact List.mem_append_right _ hp

theorem Chain.ne_nil {c : List Word} (h : Chain c) : c ≠ [] := by
  cases h <;> exact List.cons_ne_nil _ _

theorem gap_facts {g : Word} (hg : g ∈ gaps) :
    g ≠ [] ∧ (∀ i, i < g.length → longestAt De.patterns (g.drop i) = none) ∧ g ∉ pats3 := by
  have h1 := (List.all_eq_true.mp gapEnd_ok) g hg
  have h2 := (List.all_eq_true.mp gaps_not_pats) g hg
  simp only [Bool.and_eq_true, Bool.not_eq_true', gapEndB, List.all_eq_true, List.mem_range] at h1
  refine ⟨by intro e; rw [e] at h1; simp at h1, fun i hi => ?_, by simpa using h2⟩
  have := h1.2 i hi
  simpa using this

theorem gap_next {g p : Word} (hg : g ∈ gaps) (hp : p ∈ pats3) (tail : Word) :
    ∀ i, i < g.length → longestAt De.patterns (g.drop i ++ (p ++ tail)) = none := by
  intro i hi
  have h1 := (List.all_eq_true.mp ((List.all_eq_true.mp gapNext_ok) g hg)) p hp
  simp only [gapNextB, List.all_eq_true, List.mem_range, Bool.and_eq_true] at h1
  obtain ⟨hs, hn⟩ := h1 i hi
  rw [← List.append_assoc, longestAt_stable _ _ _ hs]
  simpa using hn

theorem pat_facts {p : Word} (hp : p ∈ pats3) : p ≠ [] ∧ longestAt De.patterns p = some p.length := by
  have h1 := (List.all_eq_true.mp patEnd_ok) p hp
  simp only [Bool.and_eq_true, Bool.not_eq_true', beq_iff_eq] at h1
  exact ⟨by intro e; rw [e] at h1; simp at h1, h1.2⟩

theorem pat_next {p a : Word} (hp : p ∈ pats3) (ha : a ∈ gaps ++ pats3) (tail : Word) :
    longestAt De.patterns (p ++ (a ++ tail)) = some p.length := by
  have h1 := (List.all_eq_true.mp ((List.all_eq_true.mp patNext_ok) p hp)) a ha
  simp only [patNextB, Bool.and_eq_true, beq_iff_eq] at h1
  rw [← List.append_assoc, longestAt_stable _ _ _ h1.1]
  exact h1.2

theorem vocab_ne_nil {a : Word} (ha : a ∈ gaps ++ pats3) : a ≠ [] := by
  rcases List.mem_append.mp ha with h | h
  · exact (gap_facts h).1
  · exact (pat_facts h).1

/-- the splitter on a chain: the atoms come back (a pending gap `g` is emitted before a leading pattern) -/
theorem split_chain {c : List Word} (h : Chain c) : ∀ fuel, c.flatten.length < fuel →
    splitWordFuel De.patterns fuel c.flatten [] = c ∧
    (∀ a rest, c = a :: rest → a ∈ pats3 → ∀ g : Word, g ≠ [] →
      splitWordFuel De.patterns fuel c.flatten g.reverse = g :: c) := by
  induction h with
  | @gap1 g hg =>
    intro fuel hf
    obtain ⟨hne, hend, hnp⟩ := gap_facts hg
    refine ⟨?_, fun a rest e ha => ?_⟩
    · simp only [List.flatten_cons, List.flatten_nil, List.append_nil] at hf ⊢
      obtain ⟨f', rfl⟩ : ∃ f', fuel = f' + g.length := ⟨fuel - g.length, by omega⟩
      have := split_gap De.patterns g [] [] f' (fun i hi => by simpa using hend i hi)
      rw [List.append_nil] at this
      rw [this, split_end]
      simp [hne]
    · cases e; exact absurd ha hnp
  | @pat1 p hp =>
    intro fuel hf
    obtain ⟨hne, hl⟩ := pat_facts hp
    simp only [List.flatten_cons, List.flatten_nil, List.append_nil] at hf ⊢
    obtain ⟨f', rfl⟩ : ∃ f', fuel = f' + 1 := ⟨fuel - 1, by omega⟩
    have key : ∀ acc, splitWordFuel De.patterns (f' + 1) p acc =
        (if acc.isEmpty then [] else [acc.reverse]) ++ [p] := by
      intro acc
      have := split_pat De.patterns p [] acc f' hne (by simpa using hl)
      rw [List.append_nil] at this
      rw [this, split_end]; simp
    refine ⟨by rw [key]; rfl, fun a rest _ _ g hg => ?_⟩
    rw [key]; simp [hg]
  | @gapc g p rest hg hp _ ih =>
    intro fuel hf
    obtain ⟨hne, _, hnp⟩ := gap_facts hg
    refine ⟨?_, fun a rest' e ha => ?_⟩
    · rw [List.flatten_cons] at hf ⊢
      rw [List.length_append] at hf
      obtain ⟨f', rfl⟩ : ∃ f', fuel = f' + g.length := ⟨fuel - g.length, by omega⟩
      have hn : ∀ i, i < g.length → longestAt De.patterns (g.drop i ++ (p :: rest).flatten) = none := by
        intro i hi
        rw [List.flatten_cons]
        exact gap_next hg hp _ i hi
      rw [split_gap De.patterns g _ [] f' hn, List.append_nil]
      exact (ih f' (by omega)).2 p rest rfl hp g hne
    · cases e; exact absurd ha hnp
  | @patc p a rest hp hc ih =>
    intro fuel hf
    obtain ⟨hne, _⟩ := pat_facts hp
    rw [List.flatten_cons] at hf ⊢
    rw [List.length_append] at hf
    obtain ⟨f', rfl⟩ : ∃ f', fuel = f' + 1 := ⟨fuel - 1, by omega⟩
    have hl : longestAt De.patterns (p ++ (a :: rest).flatten) = some p.length := by
      rw [List.flatten_cons]
      exact pat_next hp hc.head_mem _
    have hplen : 0 < p.length := List.length_pos_iff.mpr hne
    have key : ∀ acc, splitWordFuel De.patterns (f' + 1) (p ++ (a :: rest).flatten) acc =
        (if acc.isEmpty then [] else [acc.reverse]) ++ [p] ++ (a :: rest) := by
      intro acc
      rw [split_pat De.patterns p _ acc f' hne hl, (ih f' (by omega)).1]
    refine ⟨by rw [key]; rfl, fun _ _ _ _ g hg => ?_⟩
    rw [key]; simp [hg]

/-- **the splitter returns the atoms of a compound** -/
theorem splitWord_chain {c : List Word} (h : Chain c) : splitWord De.patterns c.flatten = c :=
  (split_chain h _ (Nat.lt_succ_self _)).1

/-- a compound of at least two atoms is splittable -/
theorem isSplittable_chain {c : List Word} (h : Chain c) (h2 : 2 ≤ c.length) :
    isSplittable De.patterns c.flatten = true := by
  unfold isSplittable
  cases h with
  | gap1 _ => simp at h2
  | pat1 _ => simp at h2
  | @gapc g p rest hg hp hc =>
    obtain ⟨hne, _, _⟩ := gap_facts hg
    obtain ⟨hpne, _⟩ := pat_facts hp
    have hn : ∀ i, i < g.length → longestAt De.patterns (g.drop i ++ (p :: rest).flatten) = none := by
      intro i hi
      rw [List.flatten_cons]
      exact gap_next hg hp _ i hi
    have hl : ∃ n, longestAt De.patterns (p ++ rest.flatten) = some n := by
      cases hc with
      | gap1 hg' => exact absurd hp (gap_facts hg').2.2
      | gapc hg' _ _ => exact absurd hp (gap_facts hg').2.2
      | pat1 _ => exact ⟨_, by simpa using (pat_facts hp).2⟩
      | patc _ hc' => exact ⟨_, by rw [List.flatten_cons]; exact pat_next hp hc'.head_mem _⟩
    obtain ⟨n, hl⟩ := hl
    rw [List.flatten_cons, firstMatch_gap De.patterns g _ 0 hn, List.flatten_cons,
      firstMatch_pat De.patterns p _ _ n hpne hl]
    have : 0 < g.length := List.length_pos_iff.mpr hne
    simp; omega
  | @patc p a rest hp hc =>
    obtain ⟨hpne, _⟩ := pat_facts hp
    have hl : longestAt De.patterns (p ++ (a :: rest).flatten) = some p.length := by
      rw [List.flatten_cons]
      exact pat_next hp hc.head_mem _
    rw [List.flatten_cons, firstMatch_pat De.patterns p _ 0 _ hpne hl]
    have : 0 < a.length := List.length_pos_iff.mpr (vocab_ne_nil hc.head_mem)
    simp; omega

/-! ## `lemmatize` leaves compounds alone -/

theorem endsWith_append (x y s : Word) (h : s.length ≤ y.length) : endsWith (x ++ y) s = endsWith y s := by
  unfold endsWith
  rw [Bool.eq_iff_iff, List.isSuffixOf_iff_suffix, List.isSuffixOf_iff_suffix]
  constructor
  · intro h1
    exact List.suffix_of_suffix_length_le h1 (List.suffix_append x y) h
  · intro h1
    exact List.IsSuffix.trans h1 (List.suffix_append x y)

theorem lemmatize_append (x y : Word) (h : undeclB y = true) : De.lemmatize (x ++ y) = x ++ y := by
  simp only [undeclB, Bool.and_eq_true, decide_eq_true_eq, Bool.not_eq_true'] at h
  obtain ⟨⟨⟨⟨h3, h1⟩, h2⟩, h4⟩, h5⟩ := h
  unfold De.lemmatize
  rw [endsWith_append x y _ (by simpa using h3), endsWith_append x y _ (by simpa using h3),
    endsWith_append x y _ (by simpa using h3), endsWith_append x y _ (by simpa using h3), h1, h2, h4, h5]
  rfl

theorem flatten_last {c : List Word} (h : Chain c) : ∃ x y, c.flatten = x ++ y ∧ y ∈ gaps ++ pats3 := by
  induction h with
  | @gap1 g hg => exact ⟨[], g, by simp, List.mem_append_left _ hg⟩
  | @pat1 p hp => exact ⟨[], p, by simp, List.mem_append_right _ hp⟩
  | @gapc g p rest _ _ _ ih =>
    obtain ⟨x, y, e, hy⟩ := ih
    exact ⟨g ++ x, y, by rw [List.flatten_cons, e, List.append_assoc], hy⟩
  | @patc p a rest _ _ ih =>
    obtain ⟨x, y, e, hy⟩ := ih
    exact ⟨p ++ x, y, by rw [List.flatten_cons, e, List.append_assoc], hy⟩

theorem lemmatize_chain {c : List Word} (h : Chain c) : De.lemmatize c.flatten = c.flatten := by
  obtain ⟨x, y, e, hy⟩ := flatten_last h
  rw [e]
  exact lemmatize_append x y ((List.all_eq_true.mp undecl_ok) y hy)


/-! ## building chains -/

/-- a chain followed by a chain that starts with a pattern atom -/
theorem Chain.append_pat {x y : List Word} {p : Word} (hx : Chain x) (hp : p ∈ pats3) (hy : Chain (p :: y)) :
    Chain (x ++ p :: y) := by
  induction hx with
  | gap1 hg => exact Chain.gapc hg hp hy
  | pat1 hq => exact Chain.patc hq hy
  | gapc hg hq _ ih => exact Chain.gapc hg hq ih
  | patc hq _ ih => exact Chain.patc hq ih

/-- a chain that ends with a pattern atom, followed by a chain -/
theorem Chain.append_last {x y : List Word} (hx : Chain x) (hl : ∀ h : x ≠ [], x.getLast h ∈ pats3)
    (hy : Chain y) : Chain (x ++ y) := by
  induction hx with
  | gap1 hg =>
    have := hl (List.cons_ne_nil _ _)
    exact absurd this (gap_facts hg).2.2
  | pat1 hq =>
    obtain ⟨a, r, rfl⟩ := List.exists_cons_of_ne_nil hy.ne_nil
    exact Chain.patc hq hy
  | @gapc g q rest hg hq _ ih =>
    refine Chain.gapc hg hq (ih (fun h => ?_))
    have := hl (List.cons_ne_nil _ _)
    rwa [List.getLast_cons h] at this
  | @patc q a rest hq _ ih =>
    refine Chain.patc hq (ih (fun h => ?_))
    have := hl (List.cons_ne_nil _ _)
    rwa [List.getLast_cons h] at this

theorem Chain.snoc_pat {x : List Word} {p : Word} (hx : Chain x) (hp : p ∈ pats3) : Chain (x ++ [p]) :=
  Chain.append_pat hx hp (Chain.pat1 hp)

theorem Chain.flatten_ne_nil {c : List Word} (h : Chain c) : c.flatten ≠ [] := by
  obtain ⟨a, r, rfl⟩ := List.exists_cons_of_ne_nil h.ne_nil
  have := vocab_ne_nil h.head_mem
  rw [List.flatten_cons]
  simp [this]

end T2N.C01De
