/-
  T2N.Lemmas.PairsDe — property C08, first half (the pair rule), for German.

  Two complete numbers below 100 spoken one after the other in their standard (one-word) spelling,
  optionally with the conjunction `und` between them: the scanner (threshold 0) finds
    * the single number `b + a` when `a` is a unit `zwei … neun`, the conjunction is present and `b` is a
      round ten `zwanzig … neunzig` (`zwei und zwanzig` is the split spelling of 22);
    * `0b` (the zero attaches to the following number) when `a = 0` — with or without `und`;
    * both numbers, in order, in every other case (`zwanzig zwölf` ↦ `20 12`, `eins und zwanzig` ↦ `1 20`).

  Structure of the proof: the builder after the word of `a` is `S a f z` (Table A, 100 rows); `und` is
  refused with `Incomplete`, which clears the flags; the word of `b` on `S a f z` is refused (`refuse`:
  structurally, by the class of `b` — `null`, unit, `zehn … neunzehn`, round ten, compound) or fuses (`fuse`);
  the scanner steps are those of `T2N/Lemmas/ExtDe.lean`.
-/
import T2N.Lemmas.ExtDeO
import T2N.Lemmas.SpecCheck

set_option maxRecDepth 100000

namespace T2N.PairsDe
open T2N T2N.DS T2N.Spec T2N.C01De T2N.ExtDe
open T2N.C01En (lsb lsb_digit lsb_cons)
open T2N.EnExt (wt skipW pushWords SI setLz)

/-! ## definitions -/

/-- the standard spelling (variant function `fun _ => 0`) -/
def std (n : Nat) : List Word := Spec.De.cardinal (fun _ => 0) n

/-- the cases in which the word of `a`, the conjunction and the word of `b` are a spelling of ONE number:
a unit `zwei … neun`, `und`, a round ten `zwanzig … neunzig` ↦ ten + unit. Nothing fuses without the conjunction
(standard spellings are one-word compounds), and `eins` is not the compound form of 1 (`ein`). -/
def fused (a b : Nat) (cj : Bool) : Option Nat :=
  if cj = true ∧ 2 ≤ a ∧ a ≤ 9 ∧ 20 ≤ b ∧ b < 100 ∧ b % 10 = 0 then some (b + a) else none

/-- the occurrence texts expected for `std a (und) std b`: the fused number; for `a = 0` the zero attaches to the
following number, with or without the conjunction (`null und drei` ↦ `03`, as the model does: the `und` is lost);
otherwise both numbers in order -/
def expected (a b : Nat) (cj : Bool) : List Word :=
  match fused a b cj with
  | some c => [decChars c]
  | none => if a = 0 then ['0' :: decChars b] else [decChars a, decChars b]

/-- the one word of the standard spelling of `n < 100` -/
def wd (n : Nat) : Word :=
  if n < 20 then De.unitWord w!"eins" false n
  else if n % 10 = 0 then De.tensWord (fun _ => 0) 0 (n / 10)
  else De.unitWord w!"ein" false (n % 10) ++ w!"und" ++ De.tensWord (fun _ => 0) 0 (n / 10)

/-- the words of a phrase with the conjunction dropped (German spellings have no hyphens) -/
def normW (ws : List Word) : List Word := ws.filter (fun w => !(w == Spec.De.conj))

/-- digits of `1 ≤ a < 100`, least significant first -/
def digs (a : Nat) : List Nat := if a < 10 then [a] else [a % 10, a / 10]

/-- builder holding `a` -/
def S (a f : Nat) (z : Bool) : DS := { rbuf := digs a, flags := f, frozen := z }

/-- flags after the word of `a`: a unit word blocks the tens -/
def fl (a : Nat) : Nat := if a < 10 then 1 else 0

/-! ## kernel tables (100 + 100 + 80 + 64 rows) -/

theorem tbl_std : checkRange (fun n => std n == [wd n]) 0 100 = true := by decide +kernel

theorem std_eq (n : Nat) (h : n < 100) : std n = [wd n] := by
  have := checkRange_spec _ 100 0 tbl_std n (Nat.zero_le _) (by omega)
  simpa using this

/-- Table A: the word of `a` on the empty builder -/
theorem tbl_A : checkRange (fun a => decide (De.apply (wd a) {} = (none, S a (fl a) (a == 1)))) 1 99 = true := by
  decide +kernel

theorem apply_new (a : Nat) (h1 : 1 ≤ a) (h : a < 100) : De.apply (wd a) {} = (none, S a (fl a) (a == 1)) := by
  have := checkRange_spec _ 99 1 tbl_A a h1 (by omega)
  simpa using this

/-- a compound word: undeclined, splittable, its pieces interpreted on a fresh builder give `b` -/
def cmpOk (b : Nat) : Bool :=
  if b % 10 = 0 then true
  else
    De.lemmatize (wd b) == wd b && isSplittable De.patterns (wd b) &&
      (match execGroup (De.applyFuel 1) (splitWord De.patterns (wd b)) with
       | .ok d => d == S b 0 false
       | .error _ => false)

theorem tbl_cmp : checkRange cmpOk 20 80 = true := by decide +kernel

/-- the fused number is spelled by exactly those words in variant 28 (split level 3, `zwei`, `dreißig`) -/
def spellOk (i : Nat) : Bool :=
  let a := 2 + i / 8
  let b := 10 * (2 + i % 8)
  Spec.De.cardinal (varOfSeed 28) (b + a) == std a ++ [Spec.De.conj] ++ std b

theorem tbl_spell : checkRange spellOk 0 64 = true := by decide +kernel


/-! ## facts about `digs` -/

theorem digs_lsb (a : Nat) (h1 : 1 ≤ a) (h : a < 100) : lsb a = digs a := by
  unfold digs
  by_cases h10 : a < 10
  · rw [if_pos h10, lsb_digit a h10 (by omega)]
  · rw [if_neg h10]
    have e : a = a % 10 + 10 * (a / 10) := by omega
    conv => lhs; rw [e]
    rw [lsb_cons (a % 10) (a / 10) (by omega) (Or.inr (by omega)), lsb_digit (a / 10) (by omega) (by omega)]

theorem S_st (a f : Nat) (z : Bool) (h1 : 1 ≤ a) (h : a < 100) : S a f z = st a f z := by
  unfold S st; rw [digs_lsb a h1 h]

theorem digs_isEmpty (a : Nat) : (digs a).isEmpty = false := by
  unfold digs; split <;> rfl

theorem digs_take2 (a : Nat) (h1 : 1 ≤ a) : allZero ((digs a).take 2) = false := by
  unfold digs
  by_cases h10 : a < 10
  · rw [if_pos h10]
    have : (a == 0) = false := by simp; omega
    simp [allZero, this]
  · rw [if_neg h10]
    have : (a / 10 == 0) = false := by simp; omega
    simp [allZero, this]

theorem digs_len (a : Nat) : (digs a).length ≤ 2 := by
  unfold digs; split <;> simp

/-! ## the builder refuses a second number -/

/-- `put` of a zero, or of two digits, on a builder that holds `1 ≤ a < 100` -/
theorem put_refused (a f : Nat) (z : Bool) (ds : List Nat) (h1 : 1 ≤ a)
    (hds : allZero ds = true ∨ ds.length = 2) :
    ∃ e, (S a f z).put ds = (some e, S a f z) ∧ e ≠ .incomplete := by
  have hE := digs_isEmpty a
  have hT := digs_take2 a h1
  unfold DS.put
  cases z with
  | true => exact ⟨.frozen, rfl, by decide⟩
  | false =>
    refine ⟨.overlap, ?_, by decide⟩
    have c1 : (S a f false).frozen = false := rfl
    have c2 : (S a f false).rbuf = digs a := rfl
    rw [c1, c2, hE, if_neg Bool.false_ne_true, Bool.false_and, if_neg Bool.false_ne_true]
    by_cases hz : allZero ds = true
    · rw [if_pos hz]
    · rw [if_neg hz, if_neg Bool.false_ne_true]
      have hl : ds.length = 2 := by
        rcases hds with h | h
        · exact absurd h hz
        · exact h
      by_cases hlt : (digs a).length < ds.length
      · rw [if_pos hlt]
      · rw [if_neg hlt, hl, hT, if_neg Bool.false_ne_true]

theorem free2_S (a f : Nat) (z : Bool) (h1 : 1 ≤ a) : (Guard.free 2).eval (S a f z) = false := by
  show ((digs a).isEmpty && (0 : Nat) == 0 || allZero ((digs a).take 2)) = false
  rw [digs_isEmpty, digs_take2 a h1]; rfl

/-- a unit word (`zwei … neun`) after a number below 100: `NaN` (the guard `is_free(2)` fails) -/
theorem unit_exec (d a f : Nat) (z : Bool) (h1 : 1 ≤ a) :
    (T2N.De.unit d).exec (S a f z) = (some .nan, S a f z, 0) := by
  simp only [T2N.De.unit, Act.when, Act.exec]
  rw [if_neg (by rw [free2_S a f z h1]; exact Bool.false_ne_true)]

theorem unit_refused (w : Word) (d a f : Nat) (z : Bool) (hw : C01De.Plain w (T2N.De.unit d)) (h1 : 1 ≤ a) :
    De.apply w (S a f z) = (some .nan, S a 0 z) := by
  show De.applyFuel (1 + 1) w _ = _
  rw [applyFuel_plain 1 w _ _ hw, unit_exec d a f z h1]
  rfl

theorem eins_refused (a f : Nat) (z : Bool) (h1 : 1 ≤ a) :
    De.apply w!"eins" (S a f z) = (some .nan, S a 0 z) := by
  show De.applyFuel (1 + 1) w!"eins" _ = _
  rw [applyFuel_eins 1, unit_exec 1 a f z h1]
  rfl

/-- a word bound to `put ds` (`null`, `zehn … neunzehn`) -/
theorem putw_refused (w : Word) (ds : List Nat) (a f : Nat) (z : Bool) (hw : C01De.Plain w (.put ds)) (h1 : 1 ≤ a)
    (hds : allZero ds = true ∨ ds.length = 2) :
    ∃ e, De.apply w (S a f z) = (some e, S a 0 z) ∧ e ≠ .incomplete := by
  obtain ⟨e, he, hne⟩ := put_refused a f z ds h1 hds
  refine ⟨e, ?_, hne⟩
  have hx : (Act.put ds).exec (S a f z) = (some e, S a f z, 0) := by
    simp only [Act.exec]
    rw [he]
  show De.applyFuel (1 + 1) w _ = _
  rw [applyFuel_plain 1 w _ _ hw, hx]
  rfl

/-- a round ten after a number: `NaN` when the flag TENS is set (after a unit word), `Frozen` after `eins`,
`Overlap` when the tens position is taken -/
theorem putAt_refused (t a f : Nat) (z : Bool) (h1 : 1 ≤ a) (ha : a < 100) (hnf : ¬ (a < 10 ∧ z = false)) :
    ∃ e, (S a f z).putDigitAt t 1 = (some e, S a f z) ∧ e ≠ .incomplete := by
  unfold DS.putDigitAt
  cases z with
  | true => exact ⟨.frozen, rfl, by decide⟩
  | false =>
    have h10 : ¬ a < 10 := fun h => hnf ⟨h, rfl⟩
    have c1 : (S a f false).frozen = false := rfl
    have c2 : (S a f false).rbuf = [a % 10, a / 10] := by
      show digs a = _
      unfold digs; rw [if_neg h10]
    refine ⟨.overlap, ?_, by decide⟩
    rw [c1, c2, if_neg Bool.false_ne_true]
    by_cases ht : (t == 0) = true
    · rw [if_pos ht]
    · rw [if_neg ht, if_neg (by simp)]
      have : ([a % 10, a / 10].getD 1 0 == 0) = false := by
        show (a / 10 == 0) = false
        simp; omega
      rw [this, if_neg Bool.false_ne_true]

theorem tens_exec (t a f : Nat) (z : Bool) (h1 : 1 ≤ a) (ha : a < 100)
    (hnf : ¬ (a < 10 ∧ z = false ∧ hasBits f 1 = false)) :
    ∃ e, (T2N.De.tens t).exec (S a f z) = (some e, S a f z, 0) ∧ e ≠ .incomplete := by
  simp only [T2N.De.tens, Act.when, Act.exec]
  have hg : (Guard.neg (.flag 1)).eval (S a f z) = !(hasBits f 1) := rfl
  rw [hg]
  cases hf : hasBits f 1 with
  | true => exact ⟨.nan, rfl, by decide⟩
  | false =>
    obtain ⟨e, he, hne⟩ := putAt_refused t a f z h1 ha (fun h => hnf ⟨h.1, h.2, hf⟩)
    rw [Bool.not_false, if_pos rfl, he]
    exact ⟨e, rfl, hne⟩

theorem tens_refused (w : Word) (t a f : Nat) (z : Bool) (hw : C01De.Plain w (T2N.De.tens t)) (h1 : 1 ≤ a) (ha : a < 100)
    (hnf : ¬ (a < 10 ∧ z = false ∧ hasBits f 1 = false)) :
    ∃ e, De.apply w (S a f z) = (some e, S a 0 z) ∧ e ≠ .incomplete := by
  obtain ⟨e, he, hne⟩ := tens_exec t a f z h1 ha hnf
  refine ⟨e, ?_, hne⟩
  show De.applyFuel (1 + 1) w _ = _
  rw [applyFuel_plain 1 w _ _ hw, he]
  rfl

/-- a compound word is interpreted on its own and merged -/
theorem cmp_apply (b : Nat) (h20 : 20 ≤ b) (hb : b < 100) (hu : b % 10 ≠ 0) (B : DS) :
    De.apply (wd b) B = mergeGroup B (S b 0 false) false .none := by
  have := checkRange_spec _ 80 20 tbl_cmp b h20 (by omega)
  unfold cmpOk at this
  rw [if_neg hu] at this
  simp only [Bool.and_eq_true, beq_iff_eq] at this
  obtain ⟨⟨hl, hs⟩, hx⟩ := this
  cases hex : execGroup (De.applyFuel 1) (splitWord De.patterns (wd b)) with
  | error e => rw [hex] at hx; exact absurd hx (by simp)
  | ok d =>
    rw [hex] at hx
    have hd : d = S b 0 false := by simpa using hx
    subst hd
    rw [De.apply, De.applyFuel]
    dsimp only
    rw [hl, hs, if_pos rfl, hex]
    rfl

theorem cmp_refused (b a f : Nat) (z : Bool) (h20 : 20 ≤ b) (hb : b < 100) (hu : b % 10 ≠ 0) (h1 : 1 ≤ a) :
    ∃ e, De.apply (wd b) (S a f z) = (some e, S a f z) ∧ e ≠ .incomplete := by
  rw [cmp_apply b h20 hb hu]
  have h20' : ¬ b < 10 := by omega
  have hr : (S b 0 false).rbuf = [b % 10, b / 10] := by
    show digs b = _
    unfold digs; rw [if_neg h20']
  obtain ⟨e, he, hne⟩ := put_refused a f z [b / 10, b % 10] h1 (Or.inr rfl)
  refine ⟨e, ?_, hne⟩
  unfold mergeGroup
  have hlen : (S b 0 false).len = 2 := by
    show (S b 0 false).rbuf.length + 0 = 2
    rw [hr]; rfl
  rw [hlen, hr]
  have : ([b % 10, b / 10] : List Nat).reverse = [b / 10, b % 10] := rfl
  rw [this, he]
  rfl


/-! ## the word of `b` on the builder that holds `a` -/

theorem wd_zero : wd 0 = w!"null" := by decide
theorem wd_one : wd 1 = w!"eins" := by decide

/-- **refusal**: unless a round ten meets a free tens position with the flag TENS clear and the builder not frozen,
the word of `b` is refused (never with `Incomplete`) and the digits stay -/
theorem refuse (a b f : Nat) (z : Bool) (h1 : 1 ≤ a) (ha : a < 100) (hb : b < 100)
    (hnf : ¬ (20 ≤ b ∧ b % 10 = 0 ∧ a < 10 ∧ z = false ∧ hasBits f 1 = false)) :
    ∃ e f', De.apply (wd b) (S a f z) = (some e, S a f' z) ∧ e ≠ .incomplete := by
  by_cases h20 : b < 20
  · by_cases hb0 : b = 0
    · subst hb0
      rw [wd_zero]
      obtain ⟨e, he, hne⟩ := putw_refused w!"null" [0] a f z plain_null h1 (Or.inl rfl)
      exact ⟨e, 0, he, hne⟩
    · by_cases hb1 : b = 1
      · subst hb1
        rw [wd_one]
        exact ⟨.nan, 0, eins_refused a f z h1, by decide⟩
      · have hw : wd b = De.unitWord w!"eins" false b := by unfold wd; rw [if_pos h20]
        rw [hw]
        by_cases hb10 : b < 10
        · exact ⟨.nan, 0, unit_refused _ b a f z (plain_unit w!"eins" false b (by omega) hb10) h1, by decide⟩
        · have e10 : b = 10 + (b - 10) := by omega
          rw [e10]
          obtain ⟨e, he, hne⟩ := putw_refused _ [1, b - 10] a f z (plain_teen w!"eins" false (b - 10) (by omega)) h1
            (Or.inr rfl)
          exact ⟨e, 0, he, hne⟩
  · by_cases hu : b % 10 = 0
    · have hw : wd b = De.tensWord (fun _ => 0) 0 (b / 10) := by unfold wd; rw [if_neg h20, if_pos hu]
      rw [hw]
      obtain ⟨e, he, hne⟩ := tens_refused _ (b / 10) a f z (plain_tens (fun _ => 0) 0 (b / 10) (by omega) (by omega)) h1 ha
        (fun h => hnf ⟨by omega, hu, h⟩)
      exact ⟨e, 0, he, hne⟩
    · obtain ⟨e, he, hne⟩ := cmp_refused b a f z (by omega) hb hu h1
      exact ⟨e, f, he, hne⟩

/-- **fusion**: a round ten after a unit `zwei … neun` whose flag has been cleared (by `und`) -/
theorem fuse (a b : Nat) (h2 : 2 ≤ a) (h9 : a ≤ 9) (h20 : 20 ≤ b) (hb : b < 100) (hu : b % 10 = 0) :
    De.apply (wd b) (S a 0 false) = (none, S (b + a) 0 false) := by
  have hw : wd b = De.tensWord (fun _ => 0) 0 (b / 10) := by
    unfold wd; rw [if_neg (by omega), if_pos hu]
  rw [hw, S_st a 0 false (by omega) (by omega), S_st (b + a) 0 false (by omega) (by omega)]
  have := tens_apply 1 _ (b / 10) a (plain_tens (fun _ => 0) 0 (b / 10) (by omega) (by omega)) (by omega) (by omega)
    (by omega)
  have e : a + 10 * (b / 10) = b + a := by omega
  rw [e] at this
  exact this

/-- `und` is refused with `Incomplete`; the error path clears the flags -/
theorem und_S (a f : Nat) (z : Bool) : De.apply Spec.De.conj (S a f z) = (some .incomplete, S a 0 z) := by
  show De.applyFuel (1 + 1) w!"und" _ = _
  rw [applyFuel_plain 1 _ _ _ plain_und]
  rfl

theorem und_zero : De.apply Spec.De.conj (setLz 1 DS.new) = (some .incomplete, setLz 1 DS.new) := by
  show De.applyFuel (1 + 1) w!"und" _ = _
  rw [applyFuel_plain 1 _ _ _ plain_und]
  rfl

/-- after a zero everything is accepted: the zero attaches -/
theorem after_zero (b : Nat) (h1 : 1 ≤ b) (hb : b < 100) :
    De.apply (wd b) (setLz 1 DS.new) = (none, setLz 1 (S b (fl b) (b == 1))) := by
  have h := apply_new b h1 hb
  have := de_lz (wd b) DS.new 1 (by rw [show (DS.new : DS) = {} from rfl, h]; exact Or.inl rfl)
    (by rw [show (DS.new : DS) = {} from rfl, h]; rfl)
  rw [this, show (DS.new : DS) = {} from rfl, h]

/-! ## formatting -/

theorem format_S (k a f : Nat) (z : Bool) (h1 : 1 ≤ a) (ha : a < 100) :
    (setLz k (S a f z)).isEmpty = false ∧
    De.lang.formatW (setLz k (S a f z)) =
      .ok (List.replicate k '0' ++ decChars a, .dec (List.replicate k 0 ++ decDigits a) []) := by
  rw [S_st a f z h1 ha]
  exact format_lz k a f z (by omega)

theorem decChars_zero : decChars 0 = ['0'] := by
  unfold decChars; rw [decDigits]; rfl

theorem format_Z (k : Nat) (hk : k ≠ 0) :
    (setLz k DS.new).isEmpty = false ∧
    De.lang.formatW (setLz k DS.new) = .ok (List.replicate k '0', .dec (List.replicate k 0) []) := by
  obtain ⟨h1, h2⟩ := format_zeros k hk
  refine ⟨h1, ?_⟩
  have : dB k none = setLz k DS.new := rfl
  rw [← this, h2]
  simp [EnExt.grpDigits, EnExt.pendL]
  exact Or.inr rfl

/-! ## the scanner on two or three words -/

/-- a word refused with `Incomplete` (the conjunction): the open match continues, the tracker does not advance -/
theorem step_incomplete (l : Lang) (s : Scanner) (pos : Nat) (B B' : DS) (q : List Word) (w : Word)
    (hw : skipW w = false ∧ l.isDecSep w = false) (hst : StQ s B q) (ha : l.apply w B = (some .incomplete, B')) :
    ∃ s', s.push (scanCfg l zeroThr) pos (wt w) = .ok s' ∧ StQ s' B' q := by
  obtain ⟨hp, hh, hq⟩ := hst
  have hpush : s.parser.push l w = (some .incomplete, { int := B' }) := by
    rw [EnExt.parser_push_nosep l s.parser w (by rw [hp]) hw.2, hp]
    have ha' : l.apply w ({ int := B } : Parser).int = (some .incomplete, B') := ha
    rw [ha']
  rw [EnExt.push_word l zeroThr s pos w hw.1, hpush]
  exact ⟨_, rfl, rfl, hh, hq⟩

theorem noskip {w : Word} {B B' : DS} {r : Res} (h : De.apply w B = (r, B')) (hr : r = none ∨ r = some .incomplete) :
    skipW w = false ∧ De.lang.isDecSep w = false :=
  accOk_de w B (by
    show (De.apply w B).1 = none ∨ (De.apply w B).1 = some .incomplete
    rw [h]; exact hr)

/-- the first word and the optional conjunction -/
theorem prefix_run (wa : Word) (cj : Bool) (Da Dm : DS) (hA : De.apply wa {} = (none, Da))
    (hU : if cj = true then De.apply Spec.De.conj Da = (some .incomplete, Dm) else Dm = Da) :
    ∃ s1, pushWords (scanCfg De.lang zeroThr) {} 0 ([wa] ++ (if cj = true then [Spec.De.conj] else [])) = .ok s1 ∧
      StQ s1 Dm [] := by
  have hst0 : StQ {} {} [] := ⟨rfl, rfl, rfl⟩
  obtain ⟨s1, e1, st1⟩ := step_accept De.lang {} 0 {} Da [] wa (noskip hA (Or.inl rfl)) hst0 hA
  cases cj with
  | false =>
    have : Dm = Da := by simpa using hU
    subst this
    refine ⟨s1, ?_, st1⟩
    show pushWords _ _ _ [wa] = _
    rw [pushWords, e1]
    rfl
  | true =>
    have hU' : De.apply Spec.De.conj Da = (some .incomplete, Dm) := by simpa using hU
    obtain ⟨s2, e2, st2⟩ := step_incomplete De.lang s1 (0 + 2) Da Dm [] _ (noskip hU' (Or.inr rfl)) st1 hU'
    refine ⟨s2, ?_, st2⟩
    show pushWords _ _ _ [wa, Spec.De.conj] = _
    rw [pushWords, e1]
    dsimp only
    rw [pushWords, e2]
    rfl

/-- the last word is accepted: one number -/
theorem scan_accept (wa wb : Word) (cj : Bool) (Da Dm Dc : DS) (t : Word) (v : Value)
    (hA : De.apply wa {} = (none, Da))
    (hU : if cj = true then De.apply Spec.De.conj Da = (some .incomplete, Dm) else Dm = Da)
    (hB : De.apply wb Dm = (none, Dc)) (hne : Dc.isEmpty = false) (hf : De.lang.formatW Dc = .ok (t, v)) :
    occTexts De.lang zeroThr ([wa] ++ (if cj = true then [Spec.De.conj] else []) ++ [wb]) = some [t] := by
  obtain ⟨s1, e1, st1⟩ := prefix_run wa cj Da Dm hA hU
  obtain ⟨s2, e2, st2⟩ := step_accept De.lang s1
    (0 + 2 * ([wa] ++ (if cj = true then [Spec.De.conj] else [])).length) Dm Dc [] wb (noskip hB (Or.inl rfl)) st1 hB
  obtain ⟨sf, e3, hq⟩ := finalize_some De.lang s2 Dc [] t v st2 hne hf
  unfold occTexts
  rw [EnExt.findNumbers_words, EnExt.pushWords_append, e1]
  dsimp only
  rw [pushWords, e2]
  dsimp only
  rw [pushWords]
  dsimp only
  rw [e3]
  dsimp only
  rw [hq]
  rfl

/-- the last word is refused: the first number ends and the word starts the second one -/
theorem scan_reject (wa wb : Word) (cj : Bool) (Da Dm D1 Db : DS) (e : Err) (t1 t2 : Word) (v1 v2 : Value)
    (hA : De.apply wa {} = (none, Da))
    (hU : if cj = true then De.apply Spec.De.conj Da = (some .incomplete, Dm) else Dm = Da)
    (hB : De.apply wb Dm = (some e, D1)) (he : e ≠ .incomplete)
    (hne1 : D1.isEmpty = false) (hf1 : De.lang.formatW D1 = .ok (t1, v1))
    (hN : De.apply wb {} = (none, Db)) (hne2 : Db.isEmpty = false) (hf2 : De.lang.formatW Db = .ok (t2, v2)) :
    occTexts De.lang zeroThr ([wa] ++ (if cj = true then [Spec.De.conj] else []) ++ [wb]) = some [t1, t2] := by
  obtain ⟨s1, e1, st1⟩ := prefix_run wa cj Da Dm hA hU
  obtain ⟨s2, e2, st2⟩ := step_reject De.lang s1
    (0 + 2 * ([wa] ++ (if cj = true then [Spec.De.conj] else [])).length) Dm D1 Db e t1 v1 [] wb
    (noskip hN (Or.inl rfl)) st1 hB he hne1 hf1 hN
  obtain ⟨sf, e3, hq⟩ := finalize_some De.lang s2 Db _ t2 v2 st2 hne2 hf2
  unfold occTexts
  rw [EnExt.findNumbers_words, EnExt.pushWords_append, e1]
  dsimp only
  rw [pushWords, e2]
  dsimp only
  rw [pushWords]
  dsimp only
  rw [e3]
  dsimp only
  rw [hq]
  rfl


/-! ## the pair rule -/

/-- **C08 (de), pairs**: for all `a, b < 100` and both joiners, the scanner (threshold 0) on the standard spelling
of `a`, the optional `und`, the standard spelling of `b` finds exactly `expected a b cj` -/
theorem C08_pairs_de (a b : Nat) (ha : a < 100) (hb : b < 100) (cj : Bool) :
    occTexts De.lang zeroThr (std a ++ (if cj = true then [Spec.De.conj] else []) ++ std b) =
      some (expected a b cj) := by
  rw [std_eq a ha, std_eq b hb]
  by_cases ha0 : a = 0
  · -- a spoken zero attaches to the following number (the conjunction is lost)
    subst ha0
    have hfu : fused 0 b cj = none := by unfold fused; rw [if_neg (by omega)]
    have hexp : expected 0 b cj = ['0' :: decChars b] := by unfold expected; rw [hfu]; rfl
    rw [hexp, wd_zero]
    have hA : De.apply w!"null" {} = (none, setLz 1 DS.new) := null_apply_empty 0
    have hU : if cj = true then De.apply Spec.De.conj (setLz 1 DS.new) = (some .incomplete, setLz 1 DS.new)
        else setLz 1 DS.new = setLz 1 DS.new := by
      cases cj
      · rfl
      · exact und_zero
    by_cases hb0 : b = 0
    · subst hb0
      rw [wd_zero, decChars_zero]
      obtain ⟨hne, hf⟩ := format_Z 2 (by decide)
      exact scan_accept _ _ cj _ _ _ _ _ hA hU (null_apply_empty 1) hne hf
    · obtain ⟨hne, hf⟩ := format_S 1 b (fl b) (b == 1) (by omega) hb
      exact scan_accept _ _ cj _ _ _ _ _ hA hU (after_zero b (by omega) hb) hne hf
  · have h1 : 1 ≤ a := by omega
    have hA := apply_new a h1 ha
    have hU : if cj = true then
          De.apply Spec.De.conj (S a (fl a) (a == 1)) = (some .incomplete, S a (if cj = true then 0 else fl a) (a == 1))
        else S a (if cj = true then 0 else fl a) (a == 1) = S a (fl a) (a == 1) := by
      cases cj
      · rfl
      · exact und_S a (fl a) (a == 1)
    have hs0 : ∀ (n f : Nat) (z : Bool), setLz 0 (S n f z) = S n f z := fun _ _ _ => rfl
    by_cases hfu : cj = true ∧ 2 ≤ a ∧ a ≤ 9 ∧ 20 ≤ b ∧ b < 100 ∧ b % 10 = 0
    · -- unit + `und` + round ten: the split spelling of ten + unit
      have hexp : expected a b cj = [decChars (b + a)] := by unfold expected fused; rw [if_pos hfu]
      obtain ⟨hc, h2, h9, h20, _, hu⟩ := hfu
      have hz : (a == 1) = false := by simp; omega
      rw [hexp]
      rw [hz, hc] at hU
      rw [hz] at hA
      rw [hc]
      obtain ⟨hne, hf⟩ := format_S 0 (b + a) 0 false (by omega) (by omega)
      rw [hs0] at hne hf
      exact scan_accept _ _ true _ _ _ _ _ hA hU (fuse a b h2 h9 h20 hb hu) hne hf
    · -- no fusion: both numbers
      have hexp : expected a b cj = [decChars a, decChars b] := by
        unfold expected fused; rw [if_neg hfu]; dsimp only; rw [if_neg ha0]
      rw [hexp]
      have hnf : ¬ (20 ≤ b ∧ b % 10 = 0 ∧ a < 10 ∧ (a == 1) = false ∧
          hasBits (if cj = true then 0 else fl a) 1 = false) := by
        intro ⟨h20, hu, h10, hz, hbits⟩
        cases cj with
        | true =>
          have : a ≠ 1 := by simpa using hz
          exact hfu ⟨rfl, by omega, by omega, h20, hb, hu⟩
        | false =>
          have : (if false = true then 0 else fl a) = 1 := by
            rw [if_neg Bool.false_ne_true]; unfold fl; rw [if_pos h10]
          rw [this] at hbits
          exact absurd hbits (by decide)
      obtain ⟨e, f', hR, he⟩ := refuse a b _ (a == 1) h1 ha hb hnf
      obtain ⟨hne1, hf1⟩ := format_S 0 a f' (a == 1) h1 ha
      rw [hs0] at hne1 hf1
      by_cases hb0 : b = 0
      · subst hb0
        rw [wd_zero] at hR ⊢
        rw [decChars_zero]
        obtain ⟨hne2, hf2⟩ := format_Z 1 (by decide)
        exact scan_reject _ _ cj _ _ _ _ e _ _ _ _ hA hU hR he hne1 hf1 (null_apply_empty 0) hne2 hf2
      · obtain ⟨hne2, hf2⟩ := format_S 0 b (fl b) (b == 1) (by omega) hb
        rw [hs0] at hne2 hf2
        exact scan_reject _ _ cj _ _ _ _ e _ _ _ _ hA hU hR he hne1 hf1 (apply_new b (by omega) hb) hne2 hf2

/-! ## `fused` against the speller -/

theorem normW_conj (x y : List Word) : normW (x ++ [Spec.De.conj] ++ y) = normW (x ++ y) := by
  unfold normW
  rw [List.filter_append, List.filter_append, List.filter_append]
  have : List.filter (fun w => !(w == Spec.De.conj)) [Spec.De.conj] = [] := by decide
  rw [this, List.append_nil]

/-- whenever `fused a b cj = some c`, the words spoken ARE a spelling of `c`: variant 28 (split level 3:
`zwei und zwanzig`) spells `c` as the words of `a`, the conjunction, the words of `b` — exactly -/
theorem fused_exact (a b c : Nat) (cj : Bool) (h : fused a b cj = some c) :
    Spec.De.cardinal (varOfSeed 28) c = std a ++ [Spec.De.conj] ++ std b := by
  unfold fused at h
  by_cases hc : cj = true ∧ 2 ≤ a ∧ a ≤ 9 ∧ 20 ≤ b ∧ b < 100 ∧ b % 10 = 0
  · rw [if_pos hc] at h
    have hcc : b + a = c := by simpa using h
    obtain ⟨_, h2, h9, h20, hb, hu⟩ := hc
    have := checkRange_spec _ 64 0 tbl_spell ((a - 2) * 8 + (b / 10 - 2)) (Nat.zero_le _) (by omega)
    unfold spellOk at this
    have e1 : 2 + ((a - 2) * 8 + (b / 10 - 2)) / 8 = a := by omega
    have e2 : 10 * (2 + ((a - 2) * 8 + (b / 10 - 2)) % 8) = b := by omega
    dsimp only at this
    rw [e1, e2, hcc] at this
    simpa using this
  · rw [if_neg hc] at h
    exact absurd h (by simp)

/-- **C08 (de), `fused` is justified by the speller**: the normalised words (conjunction dropped) of some variant
spelling (seed `k < 48`, as in the oracle) of the fused number are the normalised words of `std a ++ std b` -/
theorem C08_fused_is_spelling_de (a b c : Nat) (cj : Bool) (h : fused a b cj = some c) :
    ∃ k, k < 48 ∧ normW (Spec.De.cardinal (varOfSeed k) c) = normW (std a ++ std b) :=
  ⟨28, by decide, by rw [fused_exact a b c cj h, normW_conj]⟩

/-- fusion needs the conjunction -/
theorem fused_needs_conj (a b : Nat) : fused a b false = none := by
  unfold fused; rw [if_neg (by simp)]

/-! ## corollaries in the words of the property -/

/-- without the conjunction nothing fuses: two numbers `1 ≤ a`, `b` below 100 spoken one after the other are found
as two numbers, in order (`zwanzig zwölf` ↦ `20 12`, never `32`) -/
theorem C08_pairs_de_noconj (a b : Nat) (h1 : 1 ≤ a) (ha : a < 100) (hb : b < 100) :
    occTexts De.lang zeroThr (std a ++ std b) = some [decChars a, decChars b] := by
  have h := C08_pairs_de a b ha hb false
  have e : expected a b false = [decChars a, decChars b] := by
    unfold expected; rw [fused_needs_conj]; dsimp only; rw [if_neg (by omega)]
  rw [e] at h
  simpa using h

/-- the outcome is both numbers in order, or (for `a = 0`) the zero attached to `b`, or the single number `c`
that those words spell -/
theorem C08_pairs_de_cases (a b : Nat) (ha : a < 100) (hb : b < 100) (cj : Bool) :
    ∃ r, occTexts De.lang zeroThr (std a ++ (if cj = true then [Spec.De.conj] else []) ++ std b) = some r ∧
      (r = [decChars a, decChars b] ∨ (a = 0 ∧ r = ['0' :: decChars b]) ∨
        ∃ c, r = [decChars c] ∧ Spec.De.cardinal (varOfSeed 28) c = std a ++ [Spec.De.conj] ++ std b) := by
  refine ⟨expected a b cj, C08_pairs_de a b ha hb cj, ?_⟩
  unfold expected
  cases hfu : fused a b cj with
  | some c => exact Or.inr (Or.inr ⟨c, rfl, fused_exact a b c cj hfu⟩)
  | none =>
    dsimp only
    by_cases h0 : a = 0
    · rw [if_pos h0]; exact Or.inr (Or.inl ⟨h0, rfl⟩)
    · rw [if_neg h0]; exact Or.inl rfl

/-! ## instances -/

theorem decChars_two (n : Nat) (h1 : 10 ≤ n) (h2 : n < 100) : decChars n = [digitChar (n / 10), digitChar (n % 10)] := by
  unfold decChars
  rw [decDigits, if_neg (by omega), decDigits, if_pos (by omega)]
  rfl

theorem decChars_one (n : Nat) (h : n < 10) : decChars n = [digitChar n] := by
  unfold decChars
  rw [decDigits, if_pos h]
  rfl

/-- `zwanzig zwölf` ↦ `20 12` (never 32) -/
example : occTexts De.lang zeroThr [w!"zwanzig", w!"zwölf"] = some [w!"20", w!"12"] := by
  have h := C08_pairs_de 20 12 (by decide) (by decide) false
  have e : expected 20 12 false = [w!"20", w!"12"] := by
    show [decChars 20, decChars 12] = _
    rw [decChars_two 20 (by decide) (by decide), decChars_two 12 (by decide) (by decide)]
    rfl
  rw [e] at h
  exact h

/-- `zwei und zwanzig` ↦ `22` -/
example : occTexts De.lang zeroThr [w!"zwei", w!"und", w!"zwanzig"] = some [w!"22"] := by
  have h := C08_pairs_de 2 20 (by decide) (by decide) true
  have e : expected 2 20 true = [w!"22"] := by
    show [decChars 22] = _
    rw [decChars_two 22 (by decide) (by decide)]
    rfl
  rw [e] at h
  exact h

end T2N.PairsDe
