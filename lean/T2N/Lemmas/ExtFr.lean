/-
  T2N.Lemmas.ExtFr — extensions of the unbounded French round-trip (T2N.Lemmas.C01Fr):
  leading zeros (C16), digit dictation (C08), decimals (C05), ordinals (C04).
  The language independent scanner lemmas come from T2N.Lemmas.EnExt.
-/
import T2N.Lemmas.C01Fr
import T2N.Lemmas.EnExt
import T2N.Lemmas.SimpleCC
import T2N.Spec.Spellers

namespace T2N.ExtFr
open T2N T2N.Spec T2N.C01Fr
open T2N.C01En (lsb lsb_zero lsb_ne_nil lsb_rev_dec)
open T2N.EnExt (setLz gLz gLz_eval okAct exec_lz exec_lz_mono put_lz put_lz_mono lookup_mem)

/-! ## Part 1 — leading zeros (C16) -/

/-! ### the words of a cardinal spelling -/

/-- the numerals that occur (hyphen-free) in a cardinal spelling -/
def atomWords : List Word := [w!"un", w!"deux", w!"trois", w!"quatre", w!"cinq", w!"six", w!"sept",
  w!"huit", w!"neuf", w!"dix", w!"onze", w!"douze", w!"treize", w!"quatorze", w!"quinze", w!"seize",
  w!"vingt", w!"vingts", w!"trente", w!"quarante", w!"cinquante", w!"soixante", w!"septante", w!"huitante",
  w!"octante", w!"nonante", w!"cent", w!"cents", w!"mille", w!"mil", w!"et", w!"million", w!"millions",
  w!"milliard", w!"milliards"]

/-- all words are known numerals -/
def AW (ws : List Word) : Prop := ∀ w ∈ ws, w ∈ atomWords

theorem AW.nil : AW [] := fun _ h => absurd h List.not_mem_nil

theorem AW.cons {w : Word} {ws : List Word} (h : w ∈ atomWords) (hs : AW ws) : AW (w :: ws) := by
  intro x hx
  rcases List.mem_cons.mp hx with rfl | hx
  · exact h
  · exact hs x hx

theorem AW.append {a b : List Word} (ha : AW a) (hb : AW b) : AW (a ++ b) := by
  intro x hx
  rcases List.mem_append.mp hx with h | h
  · exact ha x h
  · exact hb x h

theorem unitWord_aw (n : Nat) (h1 : 1 ≤ n) (h16 : n ≤ 16) : Fr.unitWord n ∈ atomWords := by
  have : n = 1 ∨ n = 2 ∨ n = 3 ∨ n = 4 ∨ n = 5 ∨ n = 6 ∨ n = 7 ∨ n = 8 ∨ n = 9 ∨ n = 10 ∨ n = 11 ∨
      n = 12 ∨ n = 13 ∨ n = 14 ∨ n = 15 ∨ n = 16 := by omega
  rcases this with rfl | rfl | rfl | rfl | rfl | rfl | rfl | rfl | rfl | rfl | rfl | rfl | rfl | rfl | rfl | rfl <;>
    decide

theorem tensWord_aw (t : Nat) (h2 : 2 ≤ t) (h6 : t ≤ 6) : Fr.tensWords.getD t [] ∈ atomWords := by
  have : t = 2 ∨ t = 3 ∨ t = 4 ∨ t = 5 ∨ t = 6 := by omega
  rcases this with rfl | rfl | rfl | rfl | rfl <;> decide

theorem teens_aw (n : Nat) (h1 : 1 ≤ n) (h20 : n < 20) : AW (Fr.teens n) := by
  unfold Fr.teens
  by_cases h : n < 17
  · rw [if_pos h]
    exact AW.cons (unitWord_aw n h1 (by omega)) AW.nil
  · rw [if_neg h]
    exact AW.cons (by decide) (AW.cons (unitWord_aw _ (by omega) (by omega)) AW.nil)

theorem regular_aw (w : Word) (u : Nat) (hw : w ∈ atomWords) (hu : u < 10) : AW (Fr.regular w u) := by
  unfold Fr.regular
  by_cases h0 : u = 0
  · rw [if_pos (by simp [h0])]
    exact AW.cons hw AW.nil
  · rw [if_neg (by simp [h0])]
    by_cases h1 : u = 1
    · rw [if_pos (by simp [h1])]
      exact AW.cons hw (AW.cons (by decide) (AW.cons (by decide) AW.nil))
    · rw [if_neg (by simp [h1])]
      exact AW.cons hw (AW.cons (unitWord_aw u (by omega) (by omega)) AW.nil)

theorem below100_aw (v : Var) (g n : Nat) (sOk : Bool) (h0 : n ≠ 0) (h1 : n < 100) :
    AW (Fr.below100 v g n sOk) := by
  unfold Fr.below100
  by_cases h20 : n < 20
  · rw [if_pos h20]
    exact teens_aw n (by omega) h20
  · rw [if_neg h20]
    dsimp only
    have hu : n % 10 < 10 := by omega
    by_cases h7 : n / 10 < 7
    · rw [if_pos h7]
      exact regular_aw _ _ (tensWord_aw _ (by omega) (by omega)) hu
    · rw [if_neg h7]
      by_cases e7 : n / 10 = 7
      · rw [if_pos (by simp [e7])]
        cases flag v (cp g 1)
        · rw [if_neg Bool.false_ne_true]
          by_cases hu1 : n % 10 = 1
          · rw [if_pos (by simp [hu1])]
            exact AW.cons (by decide) (AW.cons (by decide) (AW.cons (by decide) AW.nil))
          · rw [if_neg (by simp [hu1])]
            exact AW.cons (by decide) (teens_aw _ (by omega) (by omega))
        · rw [if_pos rfl]
          exact regular_aw _ _ (by decide) hu
      · rw [if_neg (by simp [e7])]
        by_cases e8 : n / 10 = 8
        · rw [if_pos (by simp [e8])]
          split
          · by_cases hu0 : n % 10 = 0
            · rw [if_pos (by simp [hu0])]
              refine AW.cons (by decide) (AW.cons ?_ AW.nil)
              split <;> decide
            · rw [if_neg (by simp [hu0])]
              exact AW.cons (by decide) (AW.cons (by decide) (AW.cons (unitWord_aw _ (by omega) (by omega)) AW.nil))
          · exact regular_aw _ _ (by decide) hu
          · exact regular_aw _ _ (by decide) hu
        · rw [if_neg (by simp [e8])]
          cases flag v (cp g 3)
          · rw [if_neg Bool.false_ne_true]
            exact AW.cons (by decide) (AW.cons (by decide) (teens_aw _ (by omega) (by omega)))
          · rw [if_pos rfl]
            exact regular_aw _ _ (by decide) hu

theorem hundreds_aw (v : Var) (g h : Nat) (sOk : Bool) (h9 : h < 10) : AW (Fr.hundreds v g h sOk) := by
  unfold Fr.hundreds
  by_cases h0 : h = 0
  · rw [if_pos (by simp [h0])]; exact AW.nil
  · rw [if_neg (by simp [h0])]
    by_cases h1 : h = 1
    · rw [if_pos (by simp [h1])]; exact AW.cons (by decide) AW.nil
    · rw [if_neg (by simp [h1])]
      refine AW.cons (unitWord_aw h (by omega) (by omega)) (AW.cons ?_ AW.nil)
      split <;> decide

theorem gw_aw (v : Var) (g n : Nat) (sOk : Bool) (n1 : n < 1000) : AW (gw v g n sOk) := by
  unfold gw
  refine AW.append (hundreds_aw _ _ _ _ (by omega)) ?_
  by_cases hr : n % 100 = 0
  · rw [if_pos (by simp [hr])]; exact AW.nil
  · rw [if_neg (by simp [hr])]
    exact below100_aw _ _ _ _ hr (by omega)

theorem tw_aw (v : Var) (n : Nat) (mil : Bool) (n1 : n < 1000) : AW (tw v n mil) := by
  unfold tw
  split
  · refine AW.cons ?_ AW.nil
    split <;> decide
  · exact AW.append (gw_aw _ _ _ _ n1) (AW.cons (by decide) AW.nil)

/-- a word of a spelling: a hyphenated compound or a known numeral -/
def QW (w : Word) : Prop := w.contains '-' = true ∨ w ∈ atomWords

def AQ (ws : List Word) : Prop := ∀ w ∈ ws, QW w

theorem AQ.nil : AQ [] := fun _ h => absurd h List.not_mem_nil

theorem AQ.cons {w : Word} {ws : List Word} (h : QW w) (hs : AQ ws) : AQ (w :: ws) := by
  intro x hx
  rcases List.mem_cons.mp hx with rfl | hx
  · exact h
  · exact hs x hx

theorem AQ.append {a b : List Word} (ha : AQ a) (hb : AQ b) : AQ (a ++ b) := by
  intro x hx
  rcases List.mem_append.mp hx with h | h
  · exact ha x h
  · exact hb x h

theorem AW.toAQ {ws : List Word} (h : AW ws) : AQ ws := fun w hw => Or.inr (h w hw)

theorem hyphenate_qw (ws : List Word) (h : AW ws) (hne : ws ≠ []) : QW (Fr.hyphenate ws) := by
  match ws, h, hne with
  | [], _, hne => exact absurd rfl hne
  | [w], h, _ => exact Or.inr (h w List.mem_cons_self)
  | a :: b :: t, _, _ => exact Or.inl (hyphenate_contains a b t)

theorem group_aq (v : Var) (g n : Nat) (sOk : Bool) (n0 : n ≠ 0) (n1 : n < 1000) :
    AQ (Fr.group v g n sOk) := by
  unfold Fr.group
  dsimp only
  have hh := hundreds_aw v g (n / 100) (sOk && n % 100 == 0) (by omega)
  split
  · by_cases hr : n % 100 = 0
    · have e : (n % 100 == 0) = true := by simp [hr]
      rw [if_pos e, if_pos (by rfl), List.append_nil]
      exact hh.toAQ
    · have e : ¬ ((n % 100 == 0) = true) := by simp [hr]
      rw [if_neg e]
      have hne := below100_ne v g (n % 100) sOk
      have haw := below100_aw v g (n % 100) sOk hr (by omega)
      generalize Fr.below100 v g (n % 100) sOk = rs at hne haw ⊢
      refine AQ.append hh.toAQ ?_
      split
      · exact AQ.nil
      · split
        · exact haw.toAQ
        · exact AQ.cons (hyphenate_qw rs haw hne) AQ.nil
  · exact (gw_aw v g n sOk n1).toAQ
  · exact AQ.cons (hyphenate_qw _ (gw_aw v g n sOk n1) (gw_ne v g n sOk n0 n1)) AQ.nil

theorem thousands_aq (v : Var) (n : Nat) (mil : Bool) (n1 : n < 1000) : AQ (Fr.thousands v n mil) := by
  unfold Fr.thousands
  by_cases n0 : n = 0
  · rw [if_pos (by simp [n0])]; exact AQ.nil
  · rw [if_neg (by simp [n0])]
    by_cases h1 : n = 1
    · rw [if_pos (by simp [h1])]
      refine AQ.cons (Or.inr ?_) AQ.nil
      split <;> decide
    · rw [if_neg (by simp [h1])]
      by_cases hr : Fr.reform v 1 = true
      · rw [if_pos hr, group_reform v 1 n false hr]
        exact AQ.cons (Or.inl (hyphenate_contains _ _ _)) AQ.nil
      · rw [if_neg hr]
        exact AQ.append (group_aq v 1 n false n0 n1) (AQ.cons (Or.inr (by decide)) AQ.nil)

theorem low_aq (v : Var) (g1 g0 : Nat) (mil : Bool) (h1 : g1 < 1000) (h0 : g0 < 1000) :
    AQ (Fr.low v g1 g0 mil) := by
  unfold Fr.low
  dsimp only
  by_cases hc : (g1 != 0 && g0 != 0 && Fr.reform v 1 && Fr.reform v 0) = true
  · rw [if_pos hc]
    simp only [Bool.and_eq_true, bne_iff_ne] at hc
    obtain ⟨⟨⟨n1, n0⟩, r1⟩, r0⟩ := hc
    obtain ⟨W, e, _, _⟩ := thousands_reform v g1 mil r1 n1 h1
    rw [e, if_neg (by simp [n0]), group_reform v 0 g0 true r0]
    exact AQ.cons (Or.inl (hyphenate_contains _ _ _)) AQ.nil
  · rw [if_neg hc]
    refine AQ.append (thousands_aq v g1 mil h1) ?_
    by_cases n0 : g0 = 0
    · rw [if_pos (by simp [n0])]; exact AQ.nil
    · rw [if_neg (by simp [n0])]
      exact group_aq v 0 g0 true n0 h0

theorem scaled_aq (v : Var) (k n : Nat) (n1 : n < 1000) : AQ (Fr.scaled v k n) := by
  unfold Fr.scaled
  by_cases n0 : n = 0
  · rw [if_pos (by simp [n0])]; exact AQ.nil
  · rw [if_neg (by simp [n0])]
    dsimp only
    refine AQ.append (group_aq v k n true n0 n1) (AQ.cons (Or.inr ?_) AQ.nil)
    by_cases hk : k = 2
    · subst hk
      have e22 : ((2 : Nat) == 2) = true := rfl
      rw [if_pos e22]
      split <;> decide
    · have e : ¬ ((k == 2) = true) := by simp [hk]
      rw [if_neg e]
      split <;> decide

theorem cardinal_aq (v : Var) (n : Nat) (hn : n ≠ 0) : AQ (Fr.cardinal v n) := by
  unfold Fr.cardinal
  have hn' : (n == 0) = false := by simp [hn]
  rw [hn', if_neg Bool.false_ne_true]
  dsimp only
  exact AQ.append (AQ.append (scaled_aq v 3 _ (by omega)) (scaled_aq v 2 _ (by omega)))
    (low_aq v _ _ _ (by omega) (by omega))

/-! ### the French interpreter and the leading-zero counter -/

/-- the post-processing of `apply` for a word without hyphen (flags, ordinal marker, freeze) -/
def postF (w : Word) (t : Res × DS × Nat) : Res × DS :=
  if t.1.isNone then
    (t.1, if (T2N.Fr.morph w).isNone then { t.2.1 with flags := t.2.2 }
      else { t.2.1 with flags := t.2.2, marker := T2N.Fr.morph w, frozen := true })
  else (t.1, { t.2.1 with flags := 0 })

theorem applyFuel_nohyphen (f : Nat) (w : Word) (b : DS) (h : w.contains '-' = false) :
    Fr.applyFuel (f + 1) w b =
      postF w (((T2N.Fr.vocab.lookup (T2N.Fr.lemmatize w)).getD (.fail .nan)).exec b) := by
  rw [Fr.applyFuel, if_neg (by rw [h]; exact Bool.false_ne_true)]
  rfl

theorem postF_fst (w : Word) (t : Res × DS × Nat) : (postF w t).1 = t.1 := by
  unfold postF; split <;> rfl

theorem postF_lz (w : Word) (t : Res × DS × Nat) : (postF w t).2.lz = t.2.1.lz := by
  unfold postF; split
  · dsimp only; split <;> rfl
  · rfl

theorem postF_setLz (w : Word) (r : Res) (b : DS) (n k : Nat) :
    postF w (r, setLz k b, n) = ((postF w (r, b, n)).1, setLz k (postF w (r, b, n)).2) := by
  unfold postF; dsimp only; split
  · split <;> rfl
  · rfl

theorem mergeGroup_lz_mono (b ds : DS) (cf : Bool) (mk : Marker) : b.lz ≤ (mergeGroup b ds cf mk).2.lz := by
  unfold mergeGroup
  split
  · exact Nat.le_refl _
  · have hm := put_lz_mono b ds.rbuf.reverse
    rcases hp : b.put ds.rbuf.reverse with ⟨r, b1⟩
    rw [hp] at hm
    cases r with
    | some e => exact hm
    | none =>
      dsimp only
      cases mk.isOrdinal <;> cases cf <;> exact hm

theorem mergeGroup_lz (b ds : DS) (cf : Bool) (mk : Marker) (k : Nat) (h : (mergeGroup b ds cf mk).2.lz = b.lz) :
    mergeGroup (setLz k b) ds cf mk = ((mergeGroup b ds cf mk).1, setLz k (mergeGroup b ds cf mk).2) := by
  unfold mergeGroup at *
  have e : (setLz k b).rangeFree 3 5 = b.rangeFree 3 5 := rfl
  rw [e]
  by_cases hc : (decide (ds.len > 3) && decide (ds.len ≤ 6) && !b.rangeFree 3 5) = true
  · simp only [if_pos hc]
  · simp only [if_neg hc] at h ⊢
    rcases hp : b.put ds.rbuf.reverse with ⟨r, b1⟩
    rw [hp] at h
    have hl : (b.put ds.rbuf.reverse).2.lz = b.lz := by
      rw [hp]
      cases r with
      | some e => exact h
      | none =>
        dsimp only at h
        cases hm : mk.isOrdinal <;> cases cf <;> rw [hm] at h <;> exact h
    rw [put_lz b _ k hl, hp]
    cases r with
    | some e => rfl
    | none =>
      dsimp only
      cases hm : mk.isOrdinal <;> cases cf <;> rfl

theorem applyFuel_lz_mono (f : Nat) (w : Word) (b : DS) : b.lz ≤ (Fr.applyFuel f w b).2.lz := by
  cases f with
  | zero => exact Nat.le_refl _
  | succ f =>
    by_cases hc : w.contains '-' = true
    · rw [Fr.applyFuel, if_pos hc]
      cases execGroup (Fr.applyFuel f) (splitOnChar '-' w) with
      | error e => exact Nat.le_refl _
      | ok ds => exact mergeGroup_lz_mono b ds _ _
    · rw [applyFuel_nohyphen f w b (by simpa using hc), postF_lz]
      exact exec_lz_mono _ b

/-- words whose instruction does not read the leading-zero counter (all but `premier`, `première`);
`et` only compares the length with 2 -/
def lzOkB (w : Word) : Bool :=
  w.contains '-' || T2N.Fr.lemmatize w == w!"et" ||
    (match T2N.Fr.vocab.lookup (T2N.Fr.lemmatize w) with
     | none => true
     | some a => okAct a)

theorem atomWords_lzOk : atomWords.all lzOkB = true := by decide

theorem qw_lzOk {w : Word} (h : QW w) : lzOkB w = true := by
  rcases h with h | h
  · unfold lzOkB; rw [h]; rfl
  · exact List.all_eq_true.mp atomWords_lzOk w h

/-- **`lz`-independence of the French interpreter**: a word (other than `premier` / `première`) that is
accepted (or `Incomplete`) without adding a leading zero behaves the same whatever the number of leading
zeros -/
theorem applyFuel_lz (f : Nat) (w : Word) (b : DS) (k : Nat) (hk : b.lz ≤ k) (hw : lzOkB w = true)
    (hst : (Fr.applyFuel f w b).1 = none ∨ (Fr.applyFuel f w b).1 = some .incomplete)
    (hlz : (Fr.applyFuel f w b).2.lz = b.lz) :
    Fr.applyFuel f w (setLz k b) = ((Fr.applyFuel f w b).1, setLz k (Fr.applyFuel f w b).2) := by
  cases f with
  | zero => rcases hst with h | h <;> exact absurd h (by simp [Fr.applyFuel])
  | succ f =>
    by_cases hc : w.contains '-' = true
    · rw [Fr.applyFuel, if_pos hc] at hlz ⊢
      rw [Fr.applyFuel, if_pos hc]
      cases hx : execGroup (Fr.applyFuel f) (splitOnChar '-' w) with
      | error e => rfl
      | ok ds =>
        rw [hx] at hlz
        exact mergeGroup_lz b ds _ _ k hlz
    · have hc' : w.contains '-' = false := by simpa using hc
      rw [applyFuel_nohyphen f w b hc'] at hst hlz ⊢
      rw [applyFuel_nohyphen f w _ hc']
      rw [postF_fst] at hst
      rw [postF_lz] at hlz
      unfold lzOkB at hw
      rw [hc', Bool.false_or] at hw
      cases hlk : T2N.Fr.vocab.lookup (T2N.Fr.lemmatize w) with
      | none =>
        rw [hlk] at hst
        rcases hst with h | h <;> exact absurd h (by simp [Act.exec])
      | some a =>
        rw [hlk] at hst hlz hw
        simp only [Option.getD_some] at hst hlz ⊢
        have e : a.exec (setLz k b) = ((a.exec b).1, setLz k (a.exec b).2.1, (a.exec b).2.2) := by
          by_cases het : (T2N.Fr.lemmatize w == w!"et") = true
          · have hkey : T2N.Fr.lemmatize w = w!"et" := by simpa using het
            rw [hkey] at hlk
            have ea : a = T2N.Fr.et := by
              have : T2N.Fr.vocab.lookup w!"et" = some T2N.Fr.et := rfl
              rw [this] at hlk
              exact (Option.some.inj hlk).symm
            subst ea
            simp only [T2N.Fr.et, Act.when, Act.exec] at hst ⊢
            by_cases hg : (Guard.and (.lenGe 2) (.neg (.flag T2N.Fr.DEUX))).eval b = true
            · have hg' : (Guard.and (.lenGe 2) (.neg (.flag T2N.Fr.DEUX))).eval (setLz k b) = true := by
                simp only [Guard.eval, DS.len, setLz, ge_iff_le, Bool.and_eq_true, decide_eq_true_eq] at hg ⊢
                exact ⟨by omega, hg.2⟩
              simp only [if_pos hg, if_pos hg']
            · simp only [if_neg hg] at hst
              rcases hst with h | h <;> exact absurd h (by simp)
          · have het' : (T2N.Fr.lemmatize w == w!"et") = false := by simpa using het
            rw [het', Bool.false_or] at hw
            exact exec_lz a hw b k hlz
        rw [e, postF_setLz]

/-! ### run level -/

theorem run_lz_mono : ∀ (ws : List Word) (b : DS) (inc : Bool) (r : DS),
    execGroupFrom Fr.apply ws b inc = .ok r → b.lz ≤ r.lz := by
  intro ws
  induction ws with
  | nil =>
    intro b inc r h
    rw [execGroupFrom] at h
    cases inc with
    | true => exact absurd h (by simp)
    | false =>
      have : b = r := by simpa using h
      rw [this]; exact Nat.le_refl _
  | cons w ws ih =>
    intro b inc r h
    rw [execGroupFrom] at h
    have hm : b.lz ≤ (Fr.apply w b).2.lz := applyFuel_lz_mono 2 w b
    rcases hx : Fr.apply w b with ⟨st, b1⟩
    rw [hx] at h hm
    cases st with
    | none => exact Nat.le_trans hm (ih b1 false r h)
    | some e =>
      cases e with
      | incomplete => exact Nat.le_trans hm (ih b1 true r h)
      | overlap => exact absurd h (by simp)
      | nan => exact absurd h (by simp)
      | frozen => exact absurd h (by simp)

/-- a run that added no leading zero is reproduced verbatim on `k` leading zeros -/
theorem run_lz_append (k : Nat) (rest : List Word) : ∀ (ws : List Word) (b : DS) (inc : Bool) (r : DS), b.lz ≤ k →
    (∀ w ∈ ws, lzOkB w = true) →
    execGroupFrom Fr.apply ws b inc = .ok r → r.lz = b.lz →
    execGroupFrom Fr.apply (ws ++ rest) (setLz k b) inc = execGroupFrom Fr.apply rest (setLz k r) false := by
  intro ws
  induction ws with
  | nil =>
    intro b inc r _ _ h _
    rw [execGroupFrom] at h
    cases inc with
    | true => exact absurd h (by simp)
    | false =>
      have : b = r := by simpa using h
      rw [this]; rfl
  | cons w ws ih =>
    intro b inc r hk hok h hl
    have hokw := hok w List.mem_cons_self
    have hok' : ∀ x ∈ ws, lzOkB x = true := fun x hx => hok x (List.mem_cons_of_mem _ hx)
    rw [execGroupFrom] at h
    rw [List.cons_append, execGroupFrom]
    have hm : b.lz ≤ (Fr.apply w b).2.lz := applyFuel_lz_mono 2 w b
    have ht := applyFuel_lz 2 w b k hk hokw
    rcases hx : Fr.apply w b with ⟨st, b1⟩
    have hx' : Fr.applyFuel 2 w b = (st, b1) := hx
    rw [hx] at h hm
    rw [hx'] at ht
    dsimp only at ht hm
    cases st with
    | none =>
      have hm2 := run_lz_mono ws b1 false r h
      have hb1 : b1.lz = b.lz := by omega
      have e : Fr.apply w (setLz k b) = (none, setLz k b1) := ht (Or.inl rfl) hb1
      rw [e]
      exact ih b1 false r (by omega) hok' h (by omega)
    | some e =>
      cases e with
      | incomplete =>
        have hm2 := run_lz_mono ws b1 true r h
        have hb1 : b1.lz = b.lz := by omega
        have e : Fr.apply w (setLz k b) = (some .incomplete, setLz k b1) := ht (Or.inr rfl) hb1
        rw [e]
        exact ih b1 true r (by omega) hok' h (by omega)
      | overlap => exact absurd h (by simp)
      | nan => exact absurd h (by simp)
      | frozen => exact absurd h (by simp)

theorem run_lz (k : Nat) (ws : List Word) (b : DS) (inc : Bool) (r : DS) (hk : b.lz ≤ k)
    (hok : ∀ w ∈ ws, lzOkB w = true)
    (h : execGroupFrom Fr.apply ws b inc = .ok r) (hl : r.lz = b.lz) :
    execGroupFrom Fr.apply ws (setLz k b) inc = .ok (setLz k r) := by
  have := run_lz_append k [] ws b inc r hk hok h hl
  rw [List.append_nil] at this
  rw [this, execGroupFrom, if_neg Bool.false_ne_true]

/-! ### C16 -/

theorem zeros_run (rest : List Word) : ∀ (k j : Nat),
    execGroupFrom Fr.apply (List.replicate k Fr.zeroWord ++ rest) (setLz j DS.new) false =
      execGroupFrom Fr.apply rest (setLz (j + k) DS.new) false := by
  intro k
  induction k with
  | zero => intro j; rfl
  | succ k ih =>
    intro j
    have e : Fr.apply Fr.zeroWord (setLz j DS.new) = (none, setLz (j + 1) DS.new) := rfl
    rw [List.replicate_succ, List.cons_append, execGroupFrom, e]
    dsimp only
    rw [ih (j + 1)]
    have : j + 1 + k = j + (k + 1) := by omega
    rw [this]

/-- the run of a non-zero cardinal on the empty builder (from `cardinal_steps`) -/
theorem cardinal_run (v : Var) (n : Nat) (hn : n ≠ 0) (h : n < 10 ^ 12) :
    ∃ fl, execGroupFrom Fr.apply (Fr.cardinal v n) DS.new false = .ok (mkF (lsb n) fl) := by
  obtain ⟨fl, hs⟩ := cardinal_steps v n hn h
  have hs := hs []
  rw [List.append_nil, lsb_zero, mkF_new] at hs
  refine ⟨fl, ?_⟩
  show execGroupFrom (T2N.Fr.applyFuel (1 + 1)) (Fr.cardinal v n) DS.new false = _
  rw [hs, execGroupFrom, if_neg Bool.false_ne_true]

theorem cardinal_lzOk (v : Var) (n : Nat) (hn : n ≠ 0) : ∀ w ∈ Fr.cardinal v n, lzOkB w = true :=
  fun w hw => qw_lzOk (cardinal_aq v n hn w hw)

theorem cardinal_run_lz (v : Var) (k n : Nat) (hn : n ≠ 0) (h : n < 10 ^ 12) :
    ∃ fl, execGroupFrom Fr.apply (Fr.cardinal v n) DS.new false = .ok (mkF (lsb n) fl) ∧
      execGroupFrom Fr.apply (Fr.cardinal v n) (setLz k DS.new) false = .ok (setLz k (mkF (lsb n) fl)) := by
  obtain ⟨fl, hr⟩ := cardinal_run v n hn h
  exact ⟨fl, hr, run_lz k _ DS.new false _ (Nat.zero_le _) (cardinal_lzOk v n hn) hr rfl⟩

/-- rendering of a number with `k` leading zeros -/
theorem format_lz (k n fl : Nat) (hn : n ≠ 0) :
    (setLz k (mkF (lsb n) fl)).isEmpty = false ∧
    Fr.lang.formatW (setLz k (mkF (lsb n) fl)) =
      .ok (List.replicate k '0' ++ decChars n, .dec (List.replicate k 0 ++ decDigits n) []) := by
  have hne := lsb_ne_nil hn
  have hrender : (setLz k (mkF (lsb n) fl)).render = List.replicate k 0 ++ decDigits n := by
    show List.replicate k 0 ++ (lsb n).reverse = _
    rw [lsb_rev_dec n hn]
  constructor
  · show ((lsb n).isEmpty && k == 0) = false
    cases hl : lsb n with
    | nil => exact absurd hl hne
    | cons a t => rfl
  · have hrne : (setLz k (mkF (lsb n) fl)).render.isEmpty = false := by
      rw [hrender, ← lsb_rev_dec n hn]
      cases hl : lsb n with
      | nil => exact absurd hl hne
      | cons a t => simp
    unfold Lang.formatW
    rw [hrne, if_neg Bool.false_ne_true]
    show Except.ok (renderChars (setLz k (mkF (lsb n) fl)), Value.dec (setLz k (mkF (lsb n) fl)).render []) = _
    unfold renderChars decChars
    rw [hrender, List.map_append, EnExt.replicate_map]
    rfl

/-- the builder reached after `k` times `zéro` and the spelling of `n` -/
theorem zeros_cardinal_run (v : Var) (k n : Nat) (hn : n ≠ 0) (h : n < 10 ^ 12) :
    ∃ fl, execGroupFrom Fr.apply (List.replicate k Fr.zeroWord ++ Fr.cardinal v n) DS.new false =
      .ok (setLz k (mkF (lsb n) fl)) := by
  obtain ⟨fl, _, hr⟩ := cardinal_run_lz v k n hn h
  refine ⟨fl, ?_⟩
  show execGroupFrom Fr.apply _ (setLz 0 DS.new) false = _
  rw [zeros_run, Nat.zero_add, hr]

/-- **C16 for French, every number of leading zeros** (`0 < n < 10^12`, every spelling variant) -/
theorem C16_validate_fr (v : Spec.Var) (k n : Nat) (hn : 0 < n) (h : n < 10 ^ 12) :
    text2digitsWords T2N.Fr.lang (List.replicate k Spec.Fr.zeroWord ++ Spec.Fr.cardinal v n) =
      .ok (List.replicate k '0' ++ decChars n) := by
  have hn' : n ≠ 0 := by omega
  obtain ⟨fl, hex⟩ := zeros_cardinal_run v k n hn' h
  have hex' : execGroup T2N.Fr.lang.apply (List.replicate k Spec.Fr.zeroWord ++ Spec.Fr.cardinal v n) =
      .ok (setLz k (mkF (lsb n) fl)) := hex
  unfold text2digitsWords
  rw [hex']
  dsimp only
  rw [(format_lz k n fl hn').1, if_neg Bool.false_ne_true, (format_lz k n fl hn').2]

example : text2digitsWords T2N.Fr.lang (List.replicate 3 Spec.Fr.zeroWord ++ Spec.Fr.cardinal (fun _ => 2) 100091) =
    .ok (List.replicate 3 '0' ++ decChars 100091) := C16_validate_fr _ 3 _ (by decide) (by decide)

/-- `k ≥ 1` zeros alone validate to `k` digits `0` -/
theorem C16_zeros_only_fr (k : Nat) (hk : 0 < k) :
    text2digitsWords T2N.Fr.lang (List.replicate k Spec.Fr.zeroWord) = .ok (List.replicate k '0') := by
  have hex : execGroup T2N.Fr.lang.apply (List.replicate k Spec.Fr.zeroWord) = .ok (setLz k DS.new) := by
    have := zeros_run [] k 0
    rw [List.append_nil, Nat.zero_add] at this
    show execGroupFrom Fr.apply _ (setLz 0 DS.new) false = _
    rw [this, execGroupFrom, if_neg Bool.false_ne_true]
  unfold text2digitsWords
  rw [hex]
  dsimp only
  have he : (setLz k DS.new).isEmpty = false := by
    show (([] : List Nat).isEmpty && k == 0) = false
    have : (k == 0) = false := by simp; omega
    rw [this]; rfl
  rw [he, if_neg Bool.false_ne_true]
  have hr : (setLz k DS.new).render = List.replicate k 0 := by
    show List.replicate k 0 ++ [] = _
    rw [List.append_nil]
  unfold Lang.formatW
  have hrne : (setLz k DS.new).render.isEmpty = false := by
    rw [hr]; cases k with
    | zero => omega
    | succ k => rfl
  rw [hrne, if_neg Bool.false_ne_true]
  show ValOut.ok (renderChars (setLz k DS.new)) = _
  unfold renderChars
  rw [hr, EnExt.replicate_map]
  rfl

theorem C16_lone_zero_fr : text2digitsWords T2N.Fr.lang [Spec.Fr.zeroWord] = .ok ['0'] :=
  C16_zeros_only_fr 1 (by decide)

/-- `zéro` on a builder that holds a non-zero number: `Overlap`; the digits are unchanged (the French
interpreter clears its `Excludable` flags on every refusal) -/
theorem zero_refused (k n fl : Nat) (hn : n ≠ 0) :
    Fr.apply Fr.zeroWord (setLz k (mkF (lsb n) fl)) = (some .overlap, setLz k (mkF (lsb n) 0)) := by
  cases hl : lsb n with
  | nil => exact absurd hl (lsb_ne_nil hn)
  | cons a t => rfl

/-- **C16, `zéro` after a number**: after (`k` zeros and) the spelling of `0 < n < 10^12` the builder `b`
refuses `zéro` with `Overlap`, keeping its digits, and validation of the whole phrase fails with `Overlap` -/
theorem C16_zero_after_fr (v : Spec.Var) (k n : Nat) (hn : 0 < n) (h : n < 10 ^ 12) :
    ∃ b, execGroup T2N.Fr.lang.apply (List.replicate k Spec.Fr.zeroWord ++ Spec.Fr.cardinal v n) = .ok b ∧
      T2N.Fr.lang.apply Spec.Fr.zeroWord b = (some .overlap, { b with flags := 0 }) ∧
      text2digitsWords T2N.Fr.lang (List.replicate k Spec.Fr.zeroWord ++ Spec.Fr.cardinal v n ++ [Spec.Fr.zeroWord]) =
        .err .overlap := by
  have hn' : n ≠ 0 := by omega
  obtain ⟨fl, hr, hrk⟩ := cardinal_run_lz v k n hn' h
  have hz := zero_refused k n fl hn'
  refine ⟨setLz k (mkF (lsb n) fl), ?_, hz, ?_⟩
  · show execGroupFrom Fr.apply _ (setLz 0 DS.new) false = _
    rw [zeros_run, Nat.zero_add, hrk]
  · unfold text2digitsWords
    have : execGroup T2N.Fr.lang.apply (List.replicate k Spec.Fr.zeroWord ++ Spec.Fr.cardinal v n ++ [Spec.Fr.zeroWord]) =
        .error .overlap := by
      show execGroupFrom Fr.apply _ (setLz 0 DS.new) false = _
      rw [List.append_assoc, zeros_run, Nat.zero_add]
      rw [run_lz_append k [Spec.Fr.zeroWord] _ DS.new false _ (Nat.zero_le _) (cardinal_lzOk v n hn') hr rfl,
        execGroupFrom, hz]
    rw [this]

/-! ## Part 2 — lifting an interpreter run to the scanner -/

open T2N.EnExt (wt skipW pushWords findNumbers_words push_word parser_push_nosep tracker_numberEnd
  numberEnd_int pushWords_append SI St pz pendL grpDigits dg dg_dictation small_zeroThr)

theorem vocab_keys_ok : T2N.Fr.vocab.all (fun p => !p.1.isEmpty && p.1.all (fun c => !simpleIsWs c)) = true := by
  decide

theorem lemmatize_all_ws (w : Word) (h : w.all simpleIsWs = true) : (T2N.Fr.lemmatize w).all simpleIsWs = true := by
  unfold T2N.Fr.lemmatize
  split
  · unfold trimEndBy
    rw [List.all_eq_true] at h ⊢
    intro c hc
    have h1 : c ∈ w.reverse.dropWhile (· == 's') := by simpa using hc
    have h2 : c ∈ w.reverse := (List.dropWhile_sublist _).subset h1
    exact h c (by simpa using h2)
  · exact h

/-- a word that the interpreter accepts (or answers `Incomplete` to) is neither skipped by the scanner
nor the decimal separator -/
theorem accepted_word (w : Word) (b : DS)
    (h : (Fr.apply w b).1 = none ∨ (Fr.apply w b).1 = some .incomplete) :
    skipW w = false ∧ T2N.Fr.lang.isDecSep w = false := by
  have hnan : ∀ w', w = w' → (Fr.apply w' b).1 = some .nan → False := by
    intro w' e hx
    rw [e, hx] at h
    rcases h with h | h <;> exact absurd h (by simp)
  constructor
  · unfold skipW
    rw [Bool.or_eq_false_iff]
    constructor
    · cases hq : (w == ['-']) with
      | false => rfl
      | true => exact (hnan ['-'] (by simpa using hq) rfl).elim
    · cases hq : w.all simpleCC.isWhitespace with
      | false => rfl
      | true =>
        exfalso
        have hq' : w.all simpleIsWs = true := hq
        by_cases hc : w.contains '-' = true
        · have hm : '-' ∈ w := List.contains_iff_mem.mp hc
          have := List.all_eq_true.mp hq' '-' hm
          exact absurd this (by decide)
        · have hc' : w.contains '-' = false := by simpa using hc
          have hx : (Fr.apply w b).1 =
              (((T2N.Fr.vocab.lookup (T2N.Fr.lemmatize w)).getD (.fail .nan)).exec b).1 := by
            show (Fr.applyFuel (1 + 1) w b).1 = _
            rw [applyFuel_nohyphen 1 w b hc', postF_fst]
          rw [hx] at h
          cases hlk : T2N.Fr.vocab.lookup (T2N.Fr.lemmatize w) with
          | none =>
            rw [hlk] at h
            rcases h with h | h <;> exact absurd h (by simp [Act.exec])
          | some a =>
            have hm := lookup_mem _ a _ hlk
            have hk := List.all_eq_true.mp vocab_keys_ok _ hm
            have hl := lemmatize_all_ws w hq'
            simp only [Bool.and_eq_true, Bool.not_eq_true'] at hk
            cases hkey : T2N.Fr.lemmatize w with
            | nil => rw [hkey] at hk; exact absurd hk.1 (by simp)
            | cons c t =>
              rw [hkey] at hk hl
              have h1 : simpleIsWs c = true := (List.all_eq_true.mp hl) c List.mem_cons_self
              have h2 := (List.all_eq_true.mp hk.2) c List.mem_cons_self
              rw [h1] at h2
              exact absurd h2 (by decide)
  · cases hq : T2N.Fr.lang.isDecSep w with
    | false => rfl
    | true =>
      have : w = w!"virgule" := by
        have : (w == w!"virgule") = true := hq
        simpa using this
      exact (hnan _ this rfl).elim

/-- **lifting**: a successful interpreter run is reproduced by the scanner, word by word, as one open match -/
theorem lift_run (thr : Nat → Bool) : ∀ (ws : List Word) (b : DS) (inc : Bool) (r : DS),
    execGroupFrom Fr.apply ws b inc = .ok r → ∀ (s : Scanner) (i : Nat), SI s b →
    ∃ s', pushWords (scanCfg T2N.Fr.lang thr) s i ws = .ok s' ∧ SI s' r := by
  intro ws
  induction ws with
  | nil =>
    intro b inc r h s i hs
    rw [execGroupFrom] at h
    cases inc with
    | true => exact absurd h (by simp)
    | false =>
      have : b = r := by simpa using h
      rw [← this]
      exact ⟨s, rfl, hs⟩
  | cons w ws ih =>
    intro b inc r h s i hs
    rw [execGroupFrom] at h
    obtain ⟨hp, hq, hh⟩ := hs
    rcases hx : Fr.apply w b with ⟨st, b1⟩
    rw [hx] at h
    have hx' : T2N.Fr.lang.apply w s.parser.int = (st, b1) := by rw [hp]; exact hx
    have hpush : st = none ∨ st = some .incomplete → s.parser.push T2N.Fr.lang w = (st, { int := b1 }) := by
      intro hst
      have hw := accepted_word w b (by rw [hx]; exact hst)
      rw [parser_push_nosep T2N.Fr.lang s.parser w (by rw [hp]) hw.2, hx', hp]
    rw [pushWords]
    cases st with
    | none =>
      have hw := accepted_word w b (by rw [hx]; exact Or.inl rfl)
      rw [push_word T2N.Fr.lang thr s i w hw.1, hpush (Or.inl rfl)]
      exact ih b1 false r h _ (i + 2) ⟨rfl, hq, hh⟩
    | some e =>
      cases e with
      | incomplete =>
        have hw := accepted_word w b (by rw [hx]; exact Or.inr rfl)
        rw [push_word T2N.Fr.lang thr s i w hw.1, hpush (Or.inr rfl)]
        exact ih b1 true r h _ (i + 2) ⟨rfl, hq, hh⟩
      | overlap => exact absurd h (by simp)
      | nan => exact absurd h (by simp)
      | frozen => exact absurd h (by simp)

/-- end of a pending integer-mode number under threshold 0: its text is appended to the queue -/
theorem finalize_run (s : Scanner) (r : DS) (text : Word) (val : Value) (hs : SI s r) (hne : r.isEmpty = false)
    (hf : T2N.Fr.lang.formatW r = .ok (text, val)) :
    ∃ sf, s.finalize (scanCfg T2N.Fr.lang zeroThr) = .ok sf ∧ sf.parser = {} ∧ sf.tracker.onHold = none ∧
      sf.tracker.queue.map (·.text) = [text] := by
  obtain ⟨hp, hq, hh⟩ := hs
  unfold Scanner.finalize
  have hn : s.parser.hasNumber = true := by
    rw [hp]; show (!r.isEmpty) = true; rw [hne]; rfl
  rw [hn, if_pos rfl]
  unfold Scanner.numberEnd
  have hfin : s.parser.finish (scanCfg T2N.Fr.lang zeroThr).lang = .ok (text, val) := by
    rw [hp]; exact hf
  rw [hfin]
  dsimp only
  rw [small_zeroThr, Bool.and_false]
  obtain ⟨t1, t2⟩ := tracker_numberEnd s.tracker s.parser.isOrdinal text val hh
  refine ⟨_, rfl, rfl, t1, ?_⟩
  show List.map (·.text) (s.tracker.numberEnd s.parser.isOrdinal text val false).queue = _
  rw [t2, hq]
  rfl

/-- **whatever validates is found by the scanner** (French, threshold 0): a word list accepted by
`text2digitsWords` yields exactly one occurrence, with the same text -/
theorem scan_of_validate (ws : List Word) (t : Word) (h : text2digitsWords T2N.Fr.lang ws = .ok t) :
    occTexts T2N.Fr.lang zeroThr ws = some [t] := by
  unfold text2digitsWords at h
  cases hx : execGroup T2N.Fr.lang.apply ws with
  | error e => rw [hx] at h; exact absurd h (by simp)
  | ok r =>
    rw [hx] at h
    dsimp only at h
    cases hne : r.isEmpty with
    | true => rw [hne, if_pos rfl] at h; exact absurd h (by simp)
    | false =>
      rw [hne, if_neg Bool.false_ne_true] at h
      cases hf : T2N.Fr.lang.formatW r with
      | error f => rw [hf] at h; exact absurd h (by simp)
      | ok tv =>
        obtain ⟨t', val⟩ := tv
        rw [hf] at h
        have : t' = t := by simpa using h
        subst this
        obtain ⟨s1, e1, hs1⟩ := lift_run zeroThr ws DS.new false r hx {} 0 ⟨rfl, rfl, rfl⟩
        obtain ⟨sf, e2, _, _, hq⟩ := finalize_run s1 r t' val hs1 hne hf
        unfold occTexts
        rw [findNumbers_words, e1]
        dsimp only
        rw [e2]
        dsimp only
        rw [hq]

theorem C01_scan_fr (v : Spec.Var) (n : Nat) (h : n < 10 ^ 12) :
    occTexts T2N.Fr.lang zeroThr (Spec.Fr.cardinal v n) = some [decChars n] :=
  scan_of_validate _ _ (C01_validate_fr v n h)

/-- **C16 at the scanner** (threshold 0): the zero-prefixed number is exactly one occurrence -/
theorem C16_scan_fr (v : Spec.Var) (k n : Nat) (hn : 0 < n) (h : n < 10 ^ 12) :
    occTexts T2N.Fr.lang zeroThr (List.replicate k Spec.Fr.zeroWord ++ Spec.Fr.cardinal v n) =
      some [List.replicate k '0' ++ decChars n] :=
  scan_of_validate _ _ (C16_validate_fr v k n hn h)

theorem C16_zeros_only_scan_fr (k : Nat) (hk : 0 < k) :
    occTexts T2N.Fr.lang zeroThr (List.replicate k Spec.Fr.zeroWord) = some [List.replicate k '0'] :=
  scan_of_validate _ _ (C16_zeros_only_fr k hk)

/-! ### scanner steps on dictated digits -/

/-- an accepted word -/
theorem step_accept (s : Scanner) (pos z z' : Nat) (pend pend' : Option Nat) (q : List Word) (w : Word)
    (hw : skipW w = false ∧ T2N.Fr.lang.isDecSep w = false) (hst : St s z pend q)
    (ha : Fr.apply w { rbuf := pendL pend, lz := z } = (none, { rbuf := pendL pend', lz := z' })) :
    ∃ s', s.push (scanCfg T2N.Fr.lang zeroThr) pos (wt w) = .ok s' ∧ St s' z' pend' q := by
  obtain ⟨hp, hh, hq⟩ := hst
  have hpush : s.parser.push T2N.Fr.lang w = (none, pz z' pend') := by
    rw [parser_push_nosep T2N.Fr.lang s.parser w (by rw [hp]; rfl) hw.2, hp]
    have ha' : T2N.Fr.lang.apply w (pz z pend).int = (none, { rbuf := pendL pend', lz := z' }) := ha
    rw [ha']; rfl
  rw [push_word T2N.Fr.lang zeroThr s pos w hw.1, hpush]
  exact ⟨_, rfl, rfl, hh, hq⟩

/-- a word refused with `Overlap` while an integer-mode number is open: that number (the builder `r'` left
by the refusal) is emitted and the word starts the next one -/
theorem step_reject_run (s : Scanner) (pos z' : Nat) (pend' : Option Nat) (r r' : DS) (text : Word) (val : Value)
    (w : Word) (hw : skipW w = false ∧ T2N.Fr.lang.isDecSep w = false) (hs : s.parser = { int := r })
    (hh : s.tracker.onHold = none) (hne : r'.isEmpty = false)
    (hf : T2N.Fr.lang.formatW r' = .ok (text, val))
    (ha : Fr.apply w r = (some .overlap, r'))
    (hb : Fr.apply w {} = (none, { rbuf := pendL pend', lz := z' })) :
    ∃ s', s.push (scanCfg T2N.Fr.lang zeroThr) pos (wt w) = .ok s' ∧
      St s' z' pend' (s.tracker.queue.map (·.text) ++ [text]) := by
  have hpush : s.parser.push T2N.Fr.lang w = (some .overlap, { int := r' }) := by
    rw [parser_push_nosep T2N.Fr.lang s.parser w (by rw [hs]) hw.2, hs]
    have ha' : T2N.Fr.lang.apply w ({ int := r } : Parser).int = (some .overlap, r') := ha
    rw [ha']
  rw [push_word T2N.Fr.lang zeroThr s pos w hw.1, hpush]
  dsimp only
  unfold Scanner.pushRejected
  have hn : ({ s with parser := { int := r' } } : Scanner).parser.hasNumber = true := by
    show (!r'.isEmpty) = true; rw [hne]; rfl
  rw [if_pos hn]
  unfold Scanner.numberEnd
  have hfin : ({ s with parser := { int := r' } } : Scanner).parser.finish (scanCfg T2N.Fr.lang zeroThr).lang =
      .ok (text, val) := hf
  rw [hfin]
  dsimp only
  rw [small_zeroThr, Bool.and_false]
  have hpush2 : Parser.push (scanCfg T2N.Fr.lang zeroThr).lang {} (wt w).lower = (none, pz z' pend') := by
    show ({} : Parser).push T2N.Fr.lang w = _
    rw [parser_push_nosep T2N.Fr.lang {} w rfl hw.2]
    have hb' : T2N.Fr.lang.apply w ({} : Parser).int = (none, { rbuf := pendL pend', lz := z' }) := hb
    rw [hb']; rfl
  rw [hpush2]
  obtain ⟨t1, t2⟩ := tracker_numberEnd s.tracker r'.isOrdinal text val hh
  refine ⟨_, rfl, rfl, t1, ?_⟩
  show List.map (·.text) (s.tracker.numberEnd r'.isOrdinal text val false).queue = _
  rw [t2, List.map_append]
  rfl

theorem format_pz (z : Nat) (pend : Option Nat) (hne : z ≠ 0 ∨ pend ≠ none) :
    (pz z pend).int.isEmpty = false ∧
    T2N.Fr.lang.formatW (pz z pend).int = .ok ((grpDigits z pend).map digitChar, .dec (grpDigits z pend) []) := by
  have hrd : (pz z pend).int.render = grpDigits z pend := by
    cases pend <;> rfl
  have hgne : grpDigits z pend ≠ [] := by
    unfold grpDigits
    rcases hne with h | h
    · cases z with
      | zero => exact absurd rfl h
      | succ z => simp [List.replicate_succ]
    · cases pend with
      | none => exact absurd rfl h
      | some e => simp [pendL]
  constructor
  · show ((pendL pend).isEmpty && z == 0) = false
    rcases hne with h | h
    · have : (z == 0) = false := by simp [h]
      rw [this, Bool.and_false]
    · cases pend with
      | none => exact absurd rfl h
      | some e => rfl
  · unfold Lang.formatW
    have hr : (pz z pend).int.render.isEmpty = false := by
      rw [hrd]
      cases hg : grpDigits z pend with
      | nil => exact absurd hg hgne
      | cons a t => rfl
    rw [hr, if_neg Bool.false_ne_true]
    show Except.ok (renderChars (pz z pend).int, Value.dec (pz z pend).int.render []) = _
    unfold renderChars
    rw [hrd]

/-- a refused digit word: the pending number ends, the word starts the next one -/
theorem step_reject (s : Scanner) (pos z z' e : Nat) (pend' : Option Nat) (q : List Word) (w : Word)
    (hw : skipW w = false ∧ T2N.Fr.lang.isDecSep w = false) (hst : St s z (some e) q)
    (ha : Fr.apply w { rbuf := [e], lz := z } = (some .overlap, { rbuf := [e], lz := z }))
    (hb : Fr.apply w {} = (none, { rbuf := pendL pend', lz := z' })) :
    ∃ s', s.push (scanCfg T2N.Fr.lang zeroThr) pos (wt w) = .ok s' ∧
      St s' z' pend' (q ++ [(grpDigits z (some e)).map digitChar]) := by
  obtain ⟨hp, hh, hq⟩ := hst
  obtain ⟨f1, f2⟩ := format_pz z (some e) (Or.inr (by simp))
  obtain ⟨s', e1, hs'⟩ := step_reject_run s pos z' pend' (pz z (some e)).int (pz z (some e)).int _ _ w hw hp hh f1 f2
    ha hb
  rw [hq] at hs'
  exact ⟨s', e1, hs'⟩

theorem finalize_empty (s : Scanner) (q : List Word) (hst : St s 0 none q) :
    ∃ sf, s.finalize (scanCfg T2N.Fr.lang zeroThr) = .ok sf ∧ sf.tracker.queue.map (·.text) = q := by
  obtain ⟨hp, _, hq⟩ := hst
  unfold Scanner.finalize
  have : s.parser.hasNumber = false := by rw [hp]; rfl
  rw [this, if_neg Bool.false_ne_true]
  exact ⟨s, rfl, hq⟩

theorem finalize_pending (s : Scanner) (z : Nat) (pend : Option Nat) (q : List Word) (hst : St s z pend q)
    (hne : z ≠ 0 ∨ pend ≠ none) :
    ∃ sf, s.finalize (scanCfg T2N.Fr.lang zeroThr) = .ok sf ∧
      sf.tracker.queue.map (·.text) = q ++ [(grpDigits z pend).map digitChar] := by
  obtain ⟨hp, hh, hq⟩ := hst
  obtain ⟨f1, f2⟩ := format_pz z pend hne
  unfold Scanner.finalize
  have hn : s.parser.hasNumber = true := by
    rw [hp]; show (!(pz z pend).int.isEmpty) = true; rw [f1]; rfl
  rw [hn, if_pos rfl]
  unfold Scanner.numberEnd
  have hfin : s.parser.finish (scanCfg T2N.Fr.lang zeroThr).lang =
      .ok ((grpDigits z pend).map digitChar, .dec (grpDigits z pend) []) := by
    rw [hp]; exact f2
  rw [hfin]
  dsimp only
  rw [small_zeroThr, Bool.and_false]
  obtain ⟨_, t2⟩ := tracker_numberEnd s.tracker s.parser.isOrdinal ((grpDigits z pend).map digitChar)
    (.dec (grpDigits z pend) []) hh
  refine ⟨_, rfl, ?_⟩
  show List.map (·.text) (s.tracker.numberEnd s.parser.isOrdinal _ _ false).queue = _
  rw [t2, List.map_append, hq]
  rfl

/-- **C16, `zéro` after a number, at the scanner**: the number ends and the zero is a number of its own -/
theorem C16_zero_after_scan_fr (v : Spec.Var) (k n : Nat) (hn : 0 < n) (h : n < 10 ^ 12) :
    occTexts T2N.Fr.lang zeroThr (List.replicate k Spec.Fr.zeroWord ++ Spec.Fr.cardinal v n ++ [Spec.Fr.zeroWord]) =
      some [List.replicate k '0' ++ decChars n, ['0']] := by
  have hn' : n ≠ 0 := by omega
  obtain ⟨fl, hrun⟩ := zeros_cardinal_run v k n hn' h
  have hz := zero_refused k n fl hn'
  obtain ⟨hne, hf⟩ := format_lz k n 0 hn'
  obtain ⟨s1, e1, hs1⟩ := lift_run zeroThr _ DS.new false _ hrun {} 0 ⟨rfl, rfl, rfl⟩
  obtain ⟨hp1, hq1, hh1⟩ := hs1
  obtain ⟨s2, e2, hs2⟩ := step_reject_run s1 (0 + 2 * (List.replicate k Spec.Fr.zeroWord ++ Spec.Fr.cardinal v n).length)
    1 none _ _ _ _ Spec.Fr.zeroWord ⟨by decide, by decide⟩ hp1 hh1 hne hf hz rfl
  rw [hq1] at hs2
  obtain ⟨sf, e3, hq⟩ := finalize_pending s2 1 none _ hs2 (Or.inl (by decide))
  unfold occTexts
  rw [findNumbers_words, pushWords_append, e1]
  dsimp only
  rw [pushWords, e2]
  dsimp only
  rw [pushWords]
  dsimp only
  rw [e3]
  dsimp only
  rw [hq]
  rfl

/-! ## Part 3 — digit dictation (C08) -/

theorem apply_zero_empty (z : Nat) :
    Fr.apply (Fr.digitWord 0) { rbuf := [], lz := z } = (none, { rbuf := [], lz := z + 1 }) := rfl

theorem apply_zero_pend (z e : Nat) :
    Fr.apply (Fr.digitWord 0) { rbuf := [e], lz := z } = (some .overlap, { rbuf := [e], lz := z }) := rfl

/-- the instruction of a unit word on a builder whose `Excludable` flags are clear is `put` -/
theorem unit_exec (d : Nat) (h0 : d ≠ 0) (h9 : d < 10) : ∃ a, Plain (Fr.unitWord d) a ∧
    ∀ (b : DS), b.flags = 0 → a.exec b = ((b.put [d]).1, (b.put [d]).2, 0) := by
  have hu : ∀ (m : Nat) (b : DS), hasBits 0 m = false → b.flags = 0 →
      (T2N.Fr.unit m d).exec b = ((b.put [d]).1, (b.put [d]).2, 0) := by
    intro m b hm hb
    have hg : (Guard.neg (.flag m)).eval b = true := by
      show (!(hasBits b.flags m)) = true
      rw [hb, hm]; rfl
    simp only [T2N.Fr.unit, Act.when, Act.exec]
    rw [if_pos hg]
  have : d = 1 ∨ d = 2 ∨ d = 3 ∨ d = 4 ∨ d = 5 ∨ d = 6 ∨ d = 7 ∨ d = 8 ∨ d = 9 := by omega
  rcases this with rfl | rfl | rfl | rfl | rfl | rfl | rfl | rfl | rfl
  · exact ⟨_, plain_un, fun b hb => hu _ b rfl hb⟩
  · exact ⟨_, plain_deux, fun b hb => hu _ b rfl hb⟩
  · exact ⟨_, plain_trois, fun b hb => hu _ b rfl hb⟩
  · exact ⟨_, plain_quatre, fun b hb => hu _ b rfl hb⟩
  · exact ⟨_, plain_cinq, fun b hb => hu _ b rfl hb⟩
  · exact ⟨_, plain_six, fun b hb => hu _ b rfl hb⟩
  · exact ⟨_, plain_sept, fun b _ => rfl⟩
  · exact ⟨_, plain_huit, fun b _ => rfl⟩
  · exact ⟨_, plain_neuf, fun b _ => rfl⟩

theorem apply_digit_empty (z d : Nat) (h0 : d ≠ 0) (h9 : d < 10) :
    Fr.apply (Fr.digitWord d) { rbuf := [], lz := z } = (none, { rbuf := [d], lz := z }) := by
  obtain ⟨a, hpl, hex⟩ := unit_exec d h0 h9
  have hp : ({ rbuf := [], lz := z } : DS).put [d] = (none, { rbuf := [d], lz := z }) := by
    simp [DS.put, allZero, h0]
  have he := hex { rbuf := [], lz := z } rfl
  rw [hp] at he
  exact applyFuel_ok 1 hpl he

theorem put_pend (z e d : Nat) (he : e ≠ 0) (h0 : d ≠ 0) :
    ({ rbuf := [e], lz := z } : DS).put [d] = (some .overlap, { rbuf := [e], lz := z }) := by
  simp [DS.put, allZero, he, h0]

theorem apply_digit_pend (z e d : Nat) (he : e ≠ 0) (h0 : d ≠ 0) (h9 : d < 10) :
    Fr.apply (Fr.digitWord d) { rbuf := [e], lz := z } = (some .overlap, { rbuf := [e], lz := z }) := by
  obtain ⟨a, hpl, hex⟩ := unit_exec d h0 h9
  have hx := hex { rbuf := [e], lz := z } rfl
  rw [put_pend z e d he h0] at hx
  exact applyFuel_err 1 hpl hx

theorem digit_noskip (d : Nat) (h9 : d < 10) :
    skipW (Fr.digitWord d) = false ∧ T2N.Fr.lang.isDecSep (Fr.digitWord d) = false := by
  have : d = 0 ∨ d = 1 ∨ d = 2 ∨ d = 3 ∨ d = 4 ∨ d = 5 ∨ d = 6 ∨ d = 7 ∨ d = 8 ∨ d = 9 := by omega
  rcases this with rfl | rfl | rfl | rfl | rfl | rfl | rfl | rfl | rfl | rfl <;> exact ⟨by decide, by decide⟩

/-- **the scanner on dictated digits**, from any state `(z, pend)` -/
theorem dict_run : ∀ (ds : List Nat), (∀ d ∈ ds, d < 10) → ∀ (s : Scanner) (z : Nat) (pend : Option Nat)
    (q : List Word) (i : Nat), St s z pend q → (∀ e, pend = some e → e ≠ 0) →
    ∃ s' sf, pushWords (scanCfg T2N.Fr.lang zeroThr) s i (ds.map Fr.digitWord) = .ok s' ∧
      s'.finalize (scanCfg T2N.Fr.lang zeroThr) = .ok sf ∧
      sf.tracker.queue.map (·.text) = q ++ (dg z pend ds).map (fun g => g.map digitChar) := by
  intro ds
  induction ds with
  | nil =>
    intro _ s z pend q i hst _
    refine ⟨s, ?_⟩
    cases pend with
    | none =>
      by_cases hz : z = 0
      · subst hz
        obtain ⟨sf, h1, h2⟩ := finalize_empty s q hst
        exact ⟨sf, rfl, h1, by rw [h2]; simp [dg]⟩
      · obtain ⟨sf, h1, h2⟩ := finalize_pending s z none q hst (Or.inl hz)
        exact ⟨sf, rfl, h1, by rw [h2, dg, if_neg hz]; rfl⟩
    | some e =>
      obtain ⟨sf, h1, h2⟩ := finalize_pending s z (some e) q hst (Or.inr (by simp))
      exact ⟨sf, rfl, h1, by rw [h2, dg]; rfl⟩
  | cons d ds ih =>
    intro hds s z pend q i hst hpe
    have hd9 : d < 10 := hds d List.mem_cons_self
    have hds' : ∀ x ∈ ds, x < 10 := fun x hx => hds x (List.mem_cons_of_mem _ hx)
    have hw := digit_noskip d hd9
    rw [List.map_cons, pushWords]
    cases pend with
    | none =>
      by_cases hd : d = 0
      · subst hd
        obtain ⟨s1, e1, st1⟩ := step_accept s i z (z + 1) none none q _ hw hst (apply_zero_empty z)
        obtain ⟨s', sf, r1, r2, r3⟩ := ih hds' s1 (z + 1) none q (i + 2) st1 (fun e h => by simp at h)
        refine ⟨s', sf, by rw [e1]; exact r1, r2, ?_⟩
        rw [r3, dg, if_pos rfl]
      · obtain ⟨s1, e1, st1⟩ := step_accept s i z z none (some d) q _ hw hst (apply_digit_empty z d hd hd9)
        obtain ⟨s', sf, r1, r2, r3⟩ := ih hds' s1 z (some d) q (i + 2) st1
          (fun e h => by have : d = e := by simpa using h
                         rw [← this]; exact hd)
        refine ⟨s', sf, by rw [e1]; exact r1, r2, ?_⟩
        rw [r3, dg, if_neg hd]
    | some e =>
      have he : e ≠ 0 := hpe e rfl
      by_cases hd : d = 0
      · subst hd
        obtain ⟨s1, e1, st1⟩ := step_reject s i z 1 e none q _ hw hst (apply_zero_pend z e) (apply_zero_empty 0)
        obtain ⟨s', sf, r1, r2, r3⟩ := ih hds' s1 1 none _ (i + 2) st1 (fun e h => by simp at h)
        refine ⟨s', sf, by rw [e1]; exact r1, r2, ?_⟩
        rw [r3, dg, if_pos rfl, List.map_cons, List.append_assoc]
        rfl
      · obtain ⟨s1, e1, st1⟩ := step_reject s i z 0 e (some d) q _ hw hst (apply_digit_pend z e d he hd hd9)
          (apply_digit_empty 0 d hd hd9)
        obtain ⟨s', sf, r1, r2, r3⟩ := ih hds' s1 0 (some d) _ (i + 2) st1
          (fun e h => by have : d = e := by simpa using h
                         rw [← this]; exact hd)
        refine ⟨s', sf, by rw [e1]; exact r1, r2, ?_⟩
        rw [r3, dg, if_neg hd, List.map_cons, List.append_assoc]
        rfl

/-- **C08 for French, every digit sequence**: the scanner groups dictated digits exactly as
`Spec.dictationGroups` (zeros attach to the following non-zero digit, trailing zeros stand alone) -/
theorem C08_dictation_fr (ds : List Nat) (h : ∀ d ∈ ds, d < 10) :
    occTexts T2N.Fr.lang zeroThr (ds.map Spec.Fr.digitWord) =
      some ((dictationGroups ds).map (fun g => g.map digitChar)) := by
  have hst : St {} 0 none [] := ⟨rfl, rfl, rfl⟩
  obtain ⟨s', sf, r1, r2, r3⟩ := dict_run ds h {} 0 none [] 0 hst (fun e h => by simp at h)
  unfold occTexts
  rw [findNumbers_words, r1]
  dsimp only
  rw [r2]
  dsimp only
  rw [r3, dg_dictation, List.nil_append]

/-- the same statement on `findNumbers` -/
theorem C08_dictation_fr_occ (ds : List Nat) (h : ∀ d ∈ ds, d < 10) :
    ∃ occs, findNumbers (scanCfg T2N.Fr.lang zeroThr) (wordTokens (ds.map Spec.Fr.digitWord)) = .ok occs ∧
      occs.map (·.text) = (dictationGroups ds).map (fun g => g.map digitChar) := by
  have hst : St {} 0 none [] := ⟨rfl, rfl, rfl⟩
  obtain ⟨s', sf, r1, r2, r3⟩ := dict_run ds h {} 0 none [] 0 hst (fun e h => by simp at h)
  refine ⟨sf.tracker.queue, ?_, by rw [r3, dg_dictation, List.nil_append]⟩
  rw [findNumbers_words, r1]
  dsimp only
  rw [r2]

example : occTexts T2N.Fr.lang zeroThr ([0, 0, 7, 0, 1, 2, 0, 0].map Spec.Fr.digitWord) =
    some [w!"007", w!"01", w!"2", w!"00"] := C08_dictation_fr _ (by decide)

/-! ## Part 4 — decimals (C05) -/

/-- decimal phase: integer part `I`, builder of the fraction `D`, nothing emitted -/
def SD (s : Scanner) (I D : DS) : Prop :=
  s.parser = { int := I, dec := D, isDec := true } ∧ s.tracker.queue = [] ∧ s.tracker.onHold = none

theorem parser_push_decmode (l : Lang) (p : Parser) (w : Word) (hd : p.isDec = true) :
    p.push l w = ((l.applyDecimal w p.dec).1, { p with dec := (l.applyDecimal w p.dec).2 }) := by
  unfold Parser.push
  rw [hd, if_pos rfl]
  rcases l.applyDecimal w p.dec with ⟨r, d⟩
  dsimp only
  simp

theorem parser_push_sep (p : Parser) (hd : p.isDec = false) (hne : p.int.isEmpty = false)
    (hm : p.int.marker = .none) :
    p.push T2N.Fr.lang Fr.sepWord =
      (some .incomplete, { p with int := { p.int with flags := 0 }, isDec := true }) := by
  unfold Parser.push
  rw [hd, if_neg Bool.false_ne_true]
  have ha : T2N.Fr.lang.apply Fr.sepWord p.int = (some .nan, { p.int with flags := 0 }) := rfl
  rw [ha]
  dsimp only
  have h1 : ({ rbuf := p.int.rbuf, lz := p.int.lz, frozen := p.int.frozen, marker := p.int.marker } : DS).isEmpty =
      false := hne
  rw [h1, hm]
  rfl

theorem step_sep (thr : Nat → Bool) (s : Scanner) (i : Nat) (I : DS) (hs : SI s I) (hne : I.isEmpty = false)
    (hm : I.marker = .none) :
    ∃ s', s.push (scanCfg T2N.Fr.lang thr) i (wt Fr.sepWord) = .ok s' ∧ SD s' { I with flags := 0 } {} := by
  obtain ⟨hp, hq, hh⟩ := hs
  have hpush : s.parser.push T2N.Fr.lang Fr.sepWord =
      (some .incomplete, { int := { I with flags := 0 }, dec := {}, isDec := true }) := by
    rw [parser_push_sep s.parser (by rw [hp]) (by rw [hp]; exact hne) (by rw [hp]; exact hm), hp]
  rw [push_word T2N.Fr.lang thr s i Fr.sepWord (by decide), hpush]
  exact ⟨_, rfl, rfl, hq, hh⟩

/-- **lifting in the decimal phase**: an interpreter run on the fraction builder is reproduced by the scanner -/
theorem lift_run_dec (thr : Nat → Bool) (I : DS) : ∀ (ws : List Word) (b : DS) (inc : Bool) (r : DS),
    execGroupFrom Fr.apply ws b inc = .ok r → ∀ (s : Scanner) (i : Nat), SD s I b →
    ∃ s', pushWords (scanCfg T2N.Fr.lang thr) s i ws = .ok s' ∧ SD s' I r := by
  intro ws
  induction ws with
  | nil =>
    intro b inc r h s i hs
    rw [execGroupFrom] at h
    cases inc with
    | true => exact absurd h (by simp)
    | false =>
      have : b = r := by simpa using h
      rw [← this]
      exact ⟨s, rfl, hs⟩
  | cons w ws ih =>
    intro b inc r h s i hs
    rw [execGroupFrom] at h
    obtain ⟨hp, hq, hh⟩ := hs
    rcases hx : Fr.apply w b with ⟨st, b1⟩
    rw [hx] at h
    have hpush : s.parser.push T2N.Fr.lang w = (st, { int := I, dec := b1, isDec := true }) := by
      rw [parser_push_decmode T2N.Fr.lang s.parser w (by rw [hp]), hp]
      have hx' : T2N.Fr.lang.applyDecimal w b = (st, b1) := hx
      show ((T2N.Fr.lang.applyDecimal w b).1, _) = _
      rw [hx']
    rw [pushWords]
    cases st with
    | none =>
      have hw := accepted_word w b (by rw [hx]; exact Or.inl rfl)
      rw [push_word T2N.Fr.lang thr s i w hw.1, hpush]
      exact ih b1 false r h _ (i + 2) ⟨rfl, hq, hh⟩
    | some e =>
      cases e with
      | incomplete =>
        have hw := accepted_word w b (by rw [hx]; exact Or.inr rfl)
        rw [push_word T2N.Fr.lang thr s i w hw.1, hpush]
        exact ih b1 true r h _ (i + 2) ⟨rfl, hq, hh⟩
      | overlap => exact absurd h (by simp)
      | nan => exact absurd h (by simp)
      | frozen => exact absurd h (by simp)

/-- end of a decimal number: exactly one occurrence, whatever the threshold -/
theorem finalize_decimal (thr : Nat → Bool) (s : Scanner) (I D : DS) (hs : SD s I D)
    (hne : I.isEmpty = false) (hm : I.marker = .none) (hD : D.isEmpty = false) (hR : D.render ≠ []) :
    ∃ sf a b, s.finalize (scanCfg T2N.Fr.lang thr) = .ok sf ∧
      sf.tracker.queue = [⟨a, b, renderChars I ++ [','] ++ renderChars D, .dec I.render D.render, false⟩] := by
  obtain ⟨hp, hq, hh⟩ := hs
  unfold Scanner.finalize
  have hn : s.parser.hasNumber = true := by
    rw [hp]; show (!I.isEmpty) = true; rw [hne]; rfl
  rw [hn, if_pos rfl]
  unfold Scanner.numberEnd
  have ho : s.parser.isOrdinal = false := by
    rw [hp]; show I.marker.isOrdinal = false; rw [hm]; rfl
  obtain ⟨x, xs, hrr⟩ : ∃ x xs, D.render = x :: xs := by
    cases hrv : D.render with
    | nil => exact absurd hrv hR
    | cons x xs => exact ⟨x, xs, rfl⟩
  have hf : s.parser.finish (scanCfg T2N.Fr.lang thr).lang =
      .ok (renderChars I ++ [','] ++ renderChars D, .dec I.render D.render) := by
    rw [hp]
    unfold Parser.finish
    dsimp only
    rw [hD]
    show ((scanCfg T2N.Fr.lang thr).lang.formatDecimalW I D) = _
    unfold Lang.formatDecimalW
    have hc : (I.render.isEmpty && D.render.isEmpty) = false := by rw [hrr]; simp
    rw [hc, if_neg Bool.false_ne_true]
    rfl
  rw [hf, ho]
  dsimp only
  have hsm : (scanCfg T2N.Fr.lang thr).small (.dec I.render D.render) = false := by
    rw [hrr]; rfl
  rw [hsm, Bool.and_false]
  obtain ⟨_, t2⟩ := tracker_numberEnd s.tracker false (renderChars I ++ [','] ++ renderChars D)
    (.dec I.render D.render) hh
  refine ⟨_, s.tracker.mstart, s.tracker.mend, rfl, ?_⟩
  show (s.tracker.numberEnd false _ _ false).queue = _
  rw [t2, hq]
  rfl

/-! ### the digits of the fraction -/

theorem decDigits_digit (x : Nat) (h : x < 10) : decDigits x = [x] := by
  rw [decDigits, if_pos h]

theorem decDigits_snoc (a d : Nat) (ha : a ≠ 0) (hd : d < 10) : decDigits (10 * a + d) = decDigits a ++ [d] := by
  rw [decDigits, if_neg (by omega)]
  have e1 : (10 * a + d) / 10 = a := by omega
  have e2 : (10 * a + d) % 10 = d := by omega
  rw [e1, e2]

theorem foldl_digits : ∀ (t : List Nat) (a : Nat), a ≠ 0 → (∀ d ∈ t, d < 10) →
    decDigits (t.foldl (fun a d => 10 * a + d) a) = decDigits a ++ t := by
  intro t
  induction t with
  | nil => intro a _ _; simp
  | cons d t ih =>
    intro a ha h9
    have hd := h9 d List.mem_cons_self
    rw [List.foldl_cons, ih (10 * a + d) (by omega) (fun x hx => h9 x (List.mem_cons_of_mem _ hx)),
      decDigits_snoc a d ha hd, List.append_assoc]
    rfl

theorem foldl_bound : ∀ (t : List Nat) (a : Nat), (∀ d ∈ t, d < 10) →
    t.foldl (fun a d => 10 * a + d) a < (a + 1) * 10 ^ t.length := by
  intro t
  induction t with
  | nil => intro a _; simp
  | cons d t ih =>
    intro a h9
    have hd := h9 d List.mem_cons_self
    have h := ih (10 * a + d) (fun x hx => h9 x (List.mem_cons_of_mem _ hx))
    rw [List.foldl_cons, List.length_cons]
    have e : (a + 1) * 10 ^ (t.length + 1) = (10 * a + 10) * 10 ^ t.length := by
      rw [Nat.pow_succ, Nat.mul_comm (10 ^ t.length) 10, ← Nat.mul_assoc]
      congr 1; omega
    rw [e]
    exact Nat.lt_of_lt_of_le h (Nat.mul_le_mul_right _ (by omega))

/-- the significant digits `x :: t` of a fraction, read as one number, have these decimal digits -/
theorem valueOf_digits (x : Nat) (t : List Nat) (hx : x ≠ 0) (h9 : ∀ d ∈ x :: t, d < 10) :
    decDigits (Fr.valueOf (x :: t)) = x :: t ∧ Fr.valueOf (x :: t) < 10 ^ (x :: t).length ∧
      Fr.valueOf (x :: t) ≠ 0 := by
  have hx9 := h9 x List.mem_cons_self
  have ht : ∀ d ∈ t, d < 10 := fun d hd => h9 d (List.mem_cons_of_mem _ hd)
  have e : Fr.valueOf (x :: t) = t.foldl (fun a d => 10 * a + d) x := by
    unfold Fr.valueOf
    rw [List.foldl_cons, Nat.mul_zero, Nat.zero_add]
  have h1 : decDigits (Fr.valueOf (x :: t)) = x :: t := by
    rw [e, foldl_digits t x hx ht, decDigits_digit x hx9]; rfl
  refine ⟨h1, ?_, ?_⟩
  · rw [e, List.length_cons]
    have := foldl_bound t x ht
    have e2 : (10 : Nat) ^ (t.length + 1) = 10 * 10 ^ t.length := by
      rw [Nat.pow_succ, Nat.mul_comm]
    rw [e2]
    exact Nat.lt_of_lt_of_le this (Nat.mul_le_mul_right _ (by omega))
  · intro h0
    rw [h0, decDigits_digit 0 (by decide)] at h1
    have : (0 : Nat) = x := (List.cons.inj h1).1
    exact hx this.symm

theorem takeWhile_zeros : ∀ (ds : List Nat), ds.takeWhile (· == 0) = List.replicate (ds.takeWhile (· == 0)).length 0 := by
  intro ds
  induction ds with
  | nil => rfl
  | cons d ds ih =>
    by_cases hd : d = 0
    · subst hd
      rw [List.takeWhile_cons_of_pos (by rfl), List.length_cons, List.replicate_succ, ← ih]
    · rw [List.takeWhile_cons_of_neg (by simp [hd])]; rfl

theorem dropWhile_head : ∀ (ds : List Nat) (x : Nat) (t : List Nat), ds.dropWhile (· == 0) = x :: t → x ≠ 0 := by
  intro ds
  induction ds with
  | nil => intro x t h; simp at h
  | cons d ds ih =>
    intro x t h
    by_cases hd : d = 0
    · subst hd
      rw [List.dropWhile_cons_of_pos (by rfl)] at h
      exact ih x t h
    · rw [List.dropWhile_cons_of_neg (by simp [hd])] at h
      have := (List.cons.inj h).1
      rw [← this]; exact hd

theorem map_const_replicate {α β} (c : β) : ∀ (l : List α), l.map (fun _ => c) = List.replicate l.length c := by
  intro l
  induction l with
  | nil => rfl
  | cons a l ih => rw [List.map_cons, ih, List.length_cons, List.replicate_succ]

/-- **the run of a spelled fraction** on the (empty) fraction builder: the digits come out as said. The
significant part (after the leading zeros) is read as one cardinal, hence at most 12 digits. -/
theorem fraction_run (v : Var) (ds : List Nat) (hds : ds ≠ []) (h9 : ∀ d ∈ ds, d < 10)
    (hlen : (ds.dropWhile (· == 0)).length ≤ 12) :
    ∃ D, execGroupFrom Fr.apply (Fr.fraction v ds) DS.new false = .ok D ∧ D.isEmpty = false ∧ D.render = ds := by
  unfold Fr.fraction
  dsimp only
  have hsplit : ds.takeWhile (· == 0) ++ ds.dropWhile (· == 0) = ds := List.takeWhile_append_dropWhile
  rw [map_const_replicate]
  generalize hz : (ds.takeWhile (· == 0)).length = z
  have htw : ds.takeWhile (· == 0) = List.replicate z 0 := by rw [← hz]; exact takeWhile_zeros ds
  cases hrest : ds.dropWhile (· == 0) with
  | nil =>
    have e : ([] : List Nat).isEmpty = true := rfl
    rw [e, if_pos rfl]
    rw [hrest, List.append_nil, htw] at hsplit
    have hz0 : z ≠ 0 := by
      intro h0; rw [h0] at hsplit; exact hds hsplit.symm
    refine ⟨setLz z DS.new, ?_, ?_, ?_⟩
    · have := zeros_run [] z 0
      rw [Nat.zero_add] at this
      refine this.trans ?_
      rw [execGroupFrom, if_neg Bool.false_ne_true]
    · show (([] : List Nat).isEmpty && z == 0) = false
      have : (z == 0) = false := by simp [hz0]
      rw [this]; rfl
    · show List.replicate z 0 ++ [] = ds
      rw [List.append_nil]; exact hsplit
  | cons x t =>
    have e : (x :: t).isEmpty = false := rfl
    rw [e, if_neg Bool.false_ne_true]
    have hx : x ≠ 0 := dropWhile_head ds x t hrest
    have h9' : ∀ d ∈ x :: t, d < 10 := by
      intro d hd
      apply h9
      rw [← hsplit, hrest]
      exact List.mem_append_right _ hd
    obtain ⟨hdig, hlt, hm0⟩ := valueOf_digits x t hx h9'
    rw [hrest] at hlen
    have hm12 : Fr.valueOf (x :: t) < 10 ^ 12 :=
      Nat.lt_of_lt_of_le hlt (Nat.pow_le_pow_right (by decide) hlen)
    obtain ⟨fl, hrun⟩ := zeros_cardinal_run v z (Fr.valueOf (x :: t)) hm0 hm12
    refine ⟨setLz z (mkF (lsb (Fr.valueOf (x :: t))) fl), hrun, (format_lz z _ fl hm0).1, ?_⟩
    show List.replicate z 0 ++ (lsb (Fr.valueOf (x :: t))).reverse = ds
    rw [lsb_rev_dec _ hm0, hdig, ← htw, ← hrest, hsplit]

/-- the run of the integer part -/
theorem int_run (v : Var) (n : Nat) (h : n < 10 ^ 12) :
    ∃ I, execGroupFrom Fr.apply (Fr.cardinal v n) DS.new false = .ok I ∧
      I.isEmpty = false ∧ I.marker = .none ∧ I.render = decDigits n := by
  by_cases hn : n = 0
  · subst hn
    refine ⟨setLz 1 DS.new, rfl, rfl, rfl, ?_⟩
    rw [decDigits_digit 0 (by decide)]; rfl
  · obtain ⟨fl, hr⟩ := cardinal_run v n hn h
    refine ⟨mkF (lsb n) fl, hr, (format_lz 0 n fl hn).1, rfl, ?_⟩
    show List.replicate 0 0 ++ (lsb n).reverse = _
    rw [lsb_rev_dec n hn]; rfl

/-- **C05 for French**: integer part `n < 10^12`, any non-empty fraction whose significant part (after the
leading zeros, which are said one by one) has at most 12 digits, any threshold: exactly one occurrence,
whose text is `<digits of n>,<fraction digits>` -/
theorem C05_decimal_fr_occ (v : Spec.Var) (n : Nat) (ds : List Nat) (thr : Nat → Bool) (h : n < 10 ^ 12)
    (hds : ds ≠ []) (h9 : ∀ d ∈ ds, d < 10) (hlen : (ds.dropWhile (· == 0)).length ≤ 12) :
    ∃ a b, findNumbers (scanCfg T2N.Fr.lang thr)
        (wordTokens (Spec.Fr.cardinal v n ++ [Spec.Fr.sepWord] ++ Spec.Fr.fraction v ds)) =
      .ok [⟨a, b, decChars n ++ [','] ++ ds.map digitChar, .dec (decDigits n) ds, false⟩] := by
  obtain ⟨I, hrun, hne, hm, hrd⟩ := int_run v n h
  obtain ⟨D, hfr, hDne, hDr⟩ := fraction_run v ds hds h9 hlen
  have hs0 : SI {} DS.new := ⟨rfl, rfl, rfl⟩
  obtain ⟨s1, e1, hs1⟩ := lift_run thr _ _ _ _ hrun {} 0 hs0
  obtain ⟨s2, e2, hs2⟩ := step_sep thr s1 (0 + 2 * (Fr.cardinal v n).length) I hs1 hne hm
  obtain ⟨s3, e3, hs3⟩ := lift_run_dec thr _ _ _ _ _ hfr s2 (0 + 2 * (Fr.cardinal v n).length + 2) hs2
  obtain ⟨sf, a, b, e4, hq⟩ := finalize_decimal thr s3 _ D hs3 hne hm hDne (by rw [hDr]; exact hds)
  have hI : renderChars ({ I with flags := 0 } : DS) = decChars n := by
    show I.render.map digitChar = _
    rw [hrd]; rfl
  have hI2 : ({ I with flags := 0 } : DS).render = decDigits n := hrd
  have hD2 : renderChars D = ds.map digitChar := by
    unfold renderChars; rw [hDr]
  rw [hI, hI2, hD2, hDr] at hq
  refine ⟨a, b, ?_⟩
  rw [findNumbers_words, List.append_assoc, pushWords_append, e1]
  dsimp only
  rw [List.singleton_append, pushWords, e2]
  dsimp only
  rw [e3]
  dsimp only
  rw [e4]
  dsimp only
  rw [hq]

theorem C05_decimal_fr (v : Spec.Var) (n : Nat) (ds : List Nat) (thr : Nat → Bool) (h : n < 10 ^ 12)
    (hds : ds ≠ []) (h9 : ∀ d ∈ ds, d < 10) (hlen : (ds.dropWhile (· == 0)).length ≤ 12) :
    occTexts T2N.Fr.lang thr (Spec.Fr.cardinal v n ++ [Spec.Fr.sepWord] ++ Spec.Fr.fraction v ds) =
      some [decChars n ++ [Spec.Fr.decMark] ++ ds.map digitChar] := by
  obtain ⟨a, b, e⟩ := C05_decimal_fr_occ v n ds thr h hds h9 hlen
  unfold occTexts
  rw [e]
  rfl

/-- zeros said one by one, then `quatre-vingt-onze` (1990 style, `nonante` variants …) -/
example : occTexts T2N.Fr.lang (fun _ => true) (Spec.Fr.cardinal (fun _ => 0) 0 ++ [Spec.Fr.sepWord] ++
    Spec.Fr.fraction (fun _ => 2) [0, 0, 7, 9, 1]) = some [decChars 0 ++ [','] ++ w!"00791"] :=
  C05_decimal_fr (fun _ => 0) 0 [0, 0, 7, 9, 1] (fun _ => true) (by decide) (by decide) (by decide) (by decide)

/-- the bound on the significant digits is needed: the specification reads them as ONE cardinal, and
`Spec.Fr.cardinal` is only meaningful below `10^12` (13 significant digits spell nothing) -/
example : Spec.Fr.fraction (fun _ => 0) [1, 0, 0, 0, 0, 0, 0, 0, 0, 0, 0, 0, 0] = [] := by decide

/- The statement without the bound,
     `∀ v n ds thr, n < 10^12 → ds ≠ [] → (∀ d ∈ ds, d < 10) →
        occTexts Fr.lang thr (cardinal v n ++ [sepWord] ++ fraction v ds) = some [decChars n ++ [decMark] ++ ds.map digitChar]`,
   is FALSE (of the specification speller, not of the library): counter-example `un virgule` + 13 significant digits. -/
set_option maxRecDepth 100000 in
example : occTexts T2N.Fr.lang zeroThr (Spec.Fr.cardinal (fun _ => 0) 1 ++ [Spec.Fr.sepWord] ++
    Spec.Fr.fraction (fun _ => 0) [1, 0, 0, 0, 0, 0, 0, 0, 0, 0, 0, 0, 0]) ≠
    some [decChars 1 ++ [Spec.Fr.decMark] ++ [1, 0, 0, 0, 0, 0, 0, 0, 0, 0, 0, 0, 0].map digitChar] := by
  decide +kernel

/-! ## Part 5 — ordinals (C04) -/

open T2N.EnExt (mark OrdPair swap_last)

/-- `w'` is an ordinal form (without hyphen) bound to instruction `a`, with marker `m` -/
def OrdW (w' : Word) (a : Act) (m : Mk) : Prop :=
  w'.contains '-' = false ∧ T2N.Fr.vocab.lookup (T2N.Fr.lemmatize w') = some a ∧ T2N.Fr.morph w' = .ordinal m

theorem ord_of_plain (f : Nat) (w w' : Word) (a : Act) (m : Mk) (b b' : DS) (hp : Plain w a) (ho : OrdW w' a m)
    (h : Fr.applyFuel (f + 1) w b = (none, b')) : Fr.applyFuel (f + 1) w' b = (none, mark m b') := by
  rw [applyFuel_nohyphen f w b hp.1, hp.2.1] at h
  rw [applyFuel_nohyphen f w' b ho.1, ho.2.1]
  simp only [Option.getD_some] at h ⊢
  rcases hx : a.exec b with ⟨r, b1, tb⟩
  rw [hx] at h
  unfold postF at h ⊢
  rw [hp.2.2] at h
  rw [ho.2.2]
  cases r with
  | some e => exact absurd (congrArg Prod.fst h) (by simp)
  | none =>
    have h2 := congrArg Prod.snd h
    dsimp only at h2
    rw [← h2]
    rfl

theorem OrdPair.of_plain (f : Nat) {w w' : Word} {a : Act} {m : Mk} (hp : Plain w a) (ho : OrdW w' a m) :
    OrdPair (Fr.applyFuel (f + 1)) w w' m := fun b b' h => ord_of_plain f w w' a m b b' hp ho h

theorem mergeGroup_mark (b ds b' : DS) (mk0 : Marker) (m : Mk) (h : mergeGroup b ds true mk0 = (none, b')) :
    mergeGroup b (mark m ds) true (.ordinal m) = (none, mark m b') := by
  unfold mergeGroup at *
  have e1 : (mark m ds).len = ds.len := rfl
  have e2 : (mark m ds).rbuf = ds.rbuf := rfl
  have e3 : (mark m ds).flags = ds.flags := rfl
  rw [e1, e2, e3]
  by_cases hc : (decide (ds.len > 3) && decide (ds.len ≤ 6) && !b.rangeFree 3 5) = true
  · rw [if_pos hc] at h
    exact absurd (congrArg Prod.fst h) (by simp)
  · rw [if_neg hc] at h ⊢
    rcases hp : b.put ds.rbuf.reverse with ⟨r, b1⟩
    rw [hp] at h
    cases r with
    | some e => exact absurd (congrArg Prod.fst h) (by simp)
    | none =>
      dsimp only at h ⊢
      have h2 := congrArg Prod.snd h
      dsimp only at h2
      rw [← h2]
      cases mk0.isOrdinal <;> rfl

/-- a hyphenated word whose last part is made ordinal: the whole compound is marked -/
theorem OrdPair.compound (W W' : Word) (xs : List Word) (A A' : Word) (m : Mk)
    (hc : W.contains '-' = true) (hs : splitOnChar '-' W = xs ++ [A])
    (hc' : W'.contains '-' = true) (hs' : splitOnChar '-' W' = xs ++ [A'])
    (hp : OrdPair (Fr.applyFuel 1) A A' m) : OrdPair Fr.apply W W' m := by
  intro b b' h
  have h' : Fr.applyFuel (1 + 1) W b = (none, b') := h
  rw [Fr.applyFuel, if_pos hc, hs] at h'
  show Fr.applyFuel (1 + 1) W' b = _
  rw [Fr.applyFuel, if_pos hc', hs']
  cases hx : execGroup (Fr.applyFuel 1) (xs ++ [A]) with
  | error e =>
    rw [hx] at h'
    exact absurd (congrArg Prod.fst h') (by simp)
  | ok ds =>
    rw [hx] at h'
    have hx' : execGroup (Fr.applyFuel 1) (xs ++ [A']) = .ok (mark m ds) :=
      swap_last (Fr.applyFuel 1) A A' m hp xs DS.new false ds hx
    rw [hx']
    exact mergeGroup_mark b ds b' _ m h'

/-! ### the numerals that can end a cardinal below one million, and their ordinal forms -/

def ordAtoms : List Word := [w!"un", w!"deux", w!"trois", w!"quatre", w!"cinq", w!"six", w!"sept", w!"huit", w!"neuf", w!"dix", w!"onze", w!"douze", w!"treize", w!"quatorze", w!"quinze", w!"seize", w!"vingt", w!"trente", w!"quarante", w!"cinquante", w!"soixante", w!"septante", w!"huitante", w!"octante", w!"nonante", w!"cent", w!"mille"]

/-- `A` has an ordinal form in `-ième` and one in `-ièmes`, bound to the same instruction -/
def Ordable (A : Word) : Prop :=
  ∃ a, Plain A a ∧ OrdW (Fr.ordinalOfNumeral A) a .eme ∧ OrdW (Fr.ordinalOfNumeral A ++ ['s']) a .emes

theorem ordAtoms_ok : ∀ A ∈ ordAtoms, Ordable A := by
  intro A hA
  simp only [ordAtoms, List.mem_cons, List.not_mem_nil, or_false] at hA
  rcases hA with rfl | rfl | rfl | rfl | rfl | rfl | rfl | rfl | rfl | rfl | rfl | rfl | rfl | rfl | rfl | rfl | rfl | rfl | rfl | rfl | rfl | rfl | rfl | rfl | rfl | rfl | rfl <;>
    exact ⟨_, ⟨by decide, by rfl, by decide⟩, ⟨by decide, by rfl, by decide⟩, ⟨by decide, by rfl, by decide⟩⟩

/-! ### the last numeral of a spelling -/

/-- the list ends with a numeral that has an ordinal form -/
def LastIn (ws : List Word) : Prop := ∃ xs A, ws = xs ++ [A] ∧ A ∈ ordAtoms

theorem LastIn.one {A : Word} (h : A ∈ ordAtoms) : LastIn [A] := ⟨[], A, rfl, h⟩

theorem LastIn.prepend {ws : List Word} (a : List Word) (h : LastIn ws) : LastIn (a ++ ws) := by
  obtain ⟨xs, A, e, hA⟩ := h
  exact ⟨a ++ xs, A, by rw [e, List.append_assoc], hA⟩

theorem unitWord_ord (n : Nat) (h1 : 1 ≤ n) (h16 : n ≤ 16) : Fr.unitWord n ∈ ordAtoms := by
  have : n = 1 ∨ n = 2 ∨ n = 3 ∨ n = 4 ∨ n = 5 ∨ n = 6 ∨ n = 7 ∨ n = 8 ∨ n = 9 ∨ n = 10 ∨ n = 11 ∨
      n = 12 ∨ n = 13 ∨ n = 14 ∨ n = 15 ∨ n = 16 := by omega
  rcases this with rfl | rfl | rfl | rfl | rfl | rfl | rfl | rfl | rfl | rfl | rfl | rfl | rfl | rfl | rfl | rfl <;>
    decide

theorem tensWord_ord (t : Nat) (h2 : 2 ≤ t) (h6 : t ≤ 6) : Fr.tensWords.getD t [] ∈ ordAtoms := by
  have : t = 2 ∨ t = 3 ∨ t = 4 ∨ t = 5 ∨ t = 6 := by omega
  rcases this with rfl | rfl | rfl | rfl | rfl <;> decide

theorem teens_last (n : Nat) (h1 : 1 ≤ n) (h20 : n < 20) : LastIn (Fr.teens n) := by
  unfold Fr.teens
  by_cases h : n < 17
  · rw [if_pos h]
    exact LastIn.one (unitWord_ord n h1 (by omega))
  · rw [if_neg h]
    exact LastIn.prepend [w!"dix"] (LastIn.one (unitWord_ord _ (by omega) (by omega)))

theorem regular_last (w : Word) (u : Nat) (hw : w ∈ ordAtoms) (hu : u < 10) : LastIn (Fr.regular w u) := by
  unfold Fr.regular
  by_cases h0 : u = 0
  · rw [if_pos (by simp [h0])]
    exact LastIn.one hw
  · rw [if_neg (by simp [h0])]
    by_cases h1 : u = 1
    · rw [if_pos (by simp [h1])]
      exact LastIn.prepend [w, w!"et"] (LastIn.one (by decide))
    · rw [if_neg (by simp [h1])]
      exact LastIn.prepend [w] (LastIn.one (unitWord_ord u (by omega) (by omega)))

/-- (the plural mark of `quatre-vingts` is not written: `flag v (cp g 5)`) -/
theorem below100_last (v : Var) (g n : Nat) (sOk : Bool) (h0 : n ≠ 0) (h1 : n < 100)
    (hf : flag v (cp g 5) = true) : LastIn (Fr.below100 v g n sOk) := by
  unfold Fr.below100
  by_cases h20 : n < 20
  · rw [if_pos h20]
    exact teens_last n (by omega) h20
  · rw [if_neg h20]
    dsimp only
    have hu : n % 10 < 10 := by omega
    by_cases h7 : n / 10 < 7
    · rw [if_pos h7]
      exact regular_last _ _ (tensWord_ord _ (by omega) (by omega)) hu
    · rw [if_neg h7]
      by_cases e7 : n / 10 = 7
      · rw [if_pos (by simp [e7])]
        cases flag v (cp g 1)
        · rw [if_neg Bool.false_ne_true]
          by_cases hu1 : n % 10 = 1
          · rw [if_pos (by simp [hu1])]
            exact LastIn.prepend [w!"soixante", w!"et"] (LastIn.one (by decide))
          · rw [if_neg (by simp [hu1])]
            exact LastIn.prepend [w!"soixante"] (teens_last _ (by omega) (by omega))
        · rw [if_pos rfl]
          exact regular_last _ _ (by decide) hu
      · rw [if_neg (by simp [e7])]
        by_cases e8 : n / 10 = 8
        · rw [if_pos (by simp [e8])]
          split
          · by_cases hu0 : n % 10 = 0
            · rw [if_pos (by simp [hu0])]
              have : (sOk && !flag v (cp g 5)) = false := by rw [hf]; simp
              rw [this, if_neg Bool.false_ne_true]
              exact LastIn.prepend [w!"quatre"] (LastIn.one (by decide))
            · rw [if_neg (by simp [hu0])]
              exact LastIn.prepend [w!"quatre", w!"vingt"] (LastIn.one (unitWord_ord _ (by omega) (by omega)))
          · exact regular_last _ _ (by decide) hu
          · exact regular_last _ _ (by decide) hu
        · rw [if_neg (by simp [e8])]
          cases flag v (cp g 3)
          · rw [if_neg Bool.false_ne_true]
            exact LastIn.prepend [w!"quatre", w!"vingt"] (teens_last _ (by omega) (by omega))
          · rw [if_pos rfl]
            exact regular_last _ _ (by decide) hu

theorem hundreds_last (v : Var) (g h : Nat) (sOk : Bool) (h0 : h ≠ 0) (hf : flag v (cp g 4) = true) :
    LastIn (Fr.hundreds v g h sOk) := by
  unfold Fr.hundreds
  rw [if_neg (by simp [h0])]
  by_cases h1 : h = 1
  · rw [if_pos (by simp [h1])]
    exact LastIn.one (by decide)
  · rw [if_neg (by simp [h1])]
    have : (sOk && !flag v (cp g 4)) = false := by rw [hf]; simp
    rw [this, if_neg Bool.false_ne_true]
    exact LastIn.prepend [Fr.unitWord h] (LastIn.one (by decide))

theorem gw_last (v : Var) (g n : Nat) (sOk : Bool) (n0 : n ≠ 0) (_n1 : n < 1000)
    (hf4 : flag v (cp g 4) = true) (hf5 : flag v (cp g 5) = true) : LastIn (gw v g n sOk) := by
  unfold gw
  by_cases hr : n % 100 = 0
  · rw [if_pos (by simp [hr]), List.append_nil]
    exact hundreds_last v g _ _ (by omega) hf4
  · rw [if_neg (by simp [hr])]
    exact LastIn.prepend _ (below100_last v g _ sOk hr (by omega) hf5)

theorem tw_last (v : Var) (n : Nat) (mil : Bool) (hm : flag v (cp 1 7) = false) : LastIn (tw v n mil) := by
  unfold tw
  split
  · have : (mil && flag v (cp 1 7)) = false := by rw [hm]; simp
    rw [this, if_neg Bool.false_ne_true]
    exact LastIn.one (by decide)
  · exact LastIn.prepend _ (LastIn.one (by decide))

/-! ### hyphenation -/

theorem hyphenate_cons (w : Word) (ws : List Word) (h : ws ≠ []) :
    Fr.hyphenate (w :: ws) = w ++ ['-'] ++ Fr.hyphenate ws := by
  cases ws with
  | nil => exact absurd rfl h
  | cons a t => rfl

theorem hyphenate_append (a b : List Word) (ha : a ≠ []) (hb : b ≠ []) :
    Fr.hyphenate (a ++ b) = Fr.hyphenate a ++ ['-'] ++ Fr.hyphenate b := by
  induction a with
  | nil => exact absurd rfl ha
  | cons x a ih =>
    cases a with
    | nil =>
      show Fr.hyphenate (x :: b) = x ++ ['-'] ++ Fr.hyphenate b
      exact hyphenate_cons x b hb
    | cons y a' =>
      have e : x :: y :: a' ++ b = x :: (y :: a' ++ b) := rfl
      rw [e, hyphenate_cons x _ (by simp), ih (by simp), hyphenate_cons x (y :: a') (by simp)]
      simp only [List.append_assoc]

/-- two hyphenated words joined by a hyphen -/
theorem hyphenate_pair (a b : List Word) (ha : a ≠ []) (hb : b ≠ []) :
    Fr.hyphenate [Fr.hyphenate a, Fr.hyphenate b] = Fr.hyphenate (a ++ b) := by
  rw [hyphenate_append a b ha hb]; rfl

/-- the plural `s` goes to the last part -/
theorem hyphenate_snoc_s (xs : List Word) (A : Word) :
    Fr.hyphenate (xs ++ [A]) ++ ['s'] = Fr.hyphenate (xs ++ [A ++ ['s']]) := by
  cases xs with
  | nil => rfl
  | cons x t =>
    rw [hyphenate_append (x :: t) [A] (by simp) (by simp), hyphenate_append (x :: t) [A ++ ['s']] (by simp) (by simp)]
    show _ ++ A ++ ['s'] = _ ++ (A ++ ['s'])
    simp only [List.append_assoc]

theorem splitOn_hyphenate_atoms (ws : List Word) (hat : Atoms ws) (hne : ws ≠ []) :
    (Fr.hyphenate ws).splitOn '-' = ws := by
  induction ws with
  | nil => exact absurd rfl hne
  | cons w t ih =>
    have hw := hat w (List.mem_cons_self ..)
    have hw' : '-' ∉ w := by simpa using hw
    have ht : Atoms t := fun x hx => hat x (List.mem_cons_of_mem _ hx)
    cases t with
    | nil => exact List.splitOn_eq_singleton hw'
    | cons w2 t2 =>
      rw [hyphenate_cons w _ (by simp), List.append_assoc, List.singleton_append,
        List.splitOn_append_cons_self_of_not_mem hw', ih ht (by simp)]

theorem atoms_left {a b : List Word} (h : Atoms (a ++ b)) : Atoms a :=
  fun x hx => h x (List.mem_append_left _ hx)

theorem ordAtom_atom {A : Word} (h : A ∈ ordAtoms) : A.contains '-' = false := by
  obtain ⟨_, hp, _⟩ := ordAtoms_ok A h
  exact hp.1

/-- the spelling ends with a (possibly hyphenated) word whose last part has an ordinal form -/
def LastOrd (ws : List Word) : Prop :=
  ∃ pre xs A, ws = pre ++ [Fr.hyphenate (xs ++ [A])] ∧ Atoms xs ∧ A ∈ ordAtoms

theorem LastOrd.of_atoms {ws : List Word} (h : LastIn ws) : LastOrd ws := by
  obtain ⟨xs, A, e, hA⟩ := h
  exact ⟨xs, [], A, e, Atoms.nil, hA⟩

theorem LastOrd.of_hyph {ws : List Word} (pre : List Word) (h : LastIn ws) (hat : Atoms ws) :
    LastOrd (pre ++ [Fr.hyphenate ws]) := by
  obtain ⟨xs, A, e, hA⟩ := h
  subst e
  exact ⟨pre, xs, A, rfl, atoms_left hat, hA⟩

theorem LastOrd.prepend {ws : List Word} (a : List Word) (h : LastOrd ws) : LastOrd (a ++ ws) := by
  obtain ⟨pre, xs, A, e, hat, hA⟩ := h
  exact ⟨a ++ pre, xs, A, by rw [e, List.append_assoc], hat, hA⟩

theorem group_last (v : Var) (g n : Nat) (sOk : Bool) (n0 : n ≠ 0) (n1 : n < 1000)
    (hf4 : flag v (cp g 4) = true) (hf5 : flag v (cp g 5) = true) : LastOrd (Fr.group v g n sOk) := by
  have hgw := gw_last v g n sOk n0 n1 hf4 hf5
  unfold Fr.group
  dsimp only
  split
  · by_cases hr : n % 100 = 0
    · have e : (n % 100 == 0) = true := by simp [hr]
      rw [if_pos e, if_pos (by rfl)]
      unfold gw at hgw
      rw [if_pos e] at hgw
      exact LastOrd.of_atoms hgw
    · have e : ¬ ((n % 100 == 0) = true) := by simp [hr]
      rw [if_neg e]
      unfold gw at hgw
      rw [if_neg e] at hgw
      have hne := below100_ne v g (n % 100) sOk
      have hat := below100_atoms v g (n % 100) sOk
      have hl := below100_last v g (n % 100) sOk hr (by omega) hf5
      generalize Fr.below100 v g (n % 100) sOk = rs at hne hat hl hgw ⊢
      have hemp : ¬ (rs.isEmpty = true) := by
        cases rs with
        | nil => exact absurd rfl hne
        | cons a t => exact Bool.false_ne_true
      rw [if_neg hemp]
      by_cases hc : rs.contains w!"et" = true
      · rw [if_pos hc]
        exact LastOrd.of_atoms hgw
      · rw [if_neg hc]
        exact LastOrd.of_hyph _ hl hat
  · exact LastOrd.of_atoms hgw
  · exact LastOrd.of_hyph [] hgw (gw_atoms v g n sOk)

/-- in the reform style the thousands are the one word `hyphenate tw` -/
theorem thousands_reform_eq (v : Var) (n : Nat) (mil : Bool) (hr : Fr.reform v 1 = true) (n0 : n ≠ 0)
    (n1 : n < 1000) : Fr.thousands v n mil = [Fr.hyphenate (tw v n mil)] := by
  unfold Fr.thousands tw
  rw [if_neg (by simp [n0])]
  by_cases h1 : n = 1
  · subst h1
    have e11 : ((1 : Nat) == 1) = true := rfl
    rw [if_pos e11, if_pos e11]
    rfl
  · have e1 : ¬ ((n == 1) = true) := by simp [h1]
    rw [if_neg e1, if_neg e1, if_pos hr, group_reform v 1 n false hr]
    have := hyphenate_pair (gw v 1 n false) [w!"mille"] (gw_ne _ _ _ _ n0 n1) (by simp)
    exact congrArg (fun x => [x]) this

theorem thousands_last (v : Var) (n : Nat) (mil : Bool) (n0 : n ≠ 0) (n1 : n < 1000)
    (hm : flag v (cp 1 7) = false) :
    LastOrd (Fr.thousands v n mil) := by
  by_cases hr : Fr.reform v 1 = true
  · rw [thousands_reform_eq v n mil hr n0 n1]
    exact LastOrd.of_hyph [] (tw_last v n mil hm) (tw_atoms v n mil)
  · unfold Fr.thousands
    rw [if_neg (by simp [n0])]
    by_cases h1 : n = 1
    · rw [if_pos (by simp [h1])]
      have : (mil && flag v (cp 1 7)) = false := by rw [hm]; simp
      rw [this, if_neg Bool.false_ne_true]
      exact LastOrd.of_atoms (LastIn.one (by decide))
    · rw [if_neg (by simp [h1]), if_neg hr]
      exact LastOrd.of_atoms (LastIn.prepend _ (LastIn.one (by decide)))

theorem low_last (v : Var) (g1 g0 : Nat) (mil : Bool) (h1 : g1 < 1000) (h0 : g0 < 1000) (hne : g1 ≠ 0 ∨ g0 ≠ 0)
    (hf4 : ∀ g, flag v (cp g 4) = true) (hf5 : ∀ g, flag v (cp g 5) = true) (hm : flag v (cp 1 7) = false) :
    LastOrd (Fr.low v g1 g0 mil) := by
  unfold Fr.low
  dsimp only
  by_cases hc : (g1 != 0 && g0 != 0 && Fr.reform v 1 && Fr.reform v 0) = true
  · rw [if_pos hc]
    simp only [Bool.and_eq_true, bne_iff_ne] at hc
    obtain ⟨⟨⟨n1, n0⟩, r1⟩, r0⟩ := hc
    rw [thousands_reform_eq v g1 mil r1 n1 h1, if_neg (by simp [n0]), group_reform v 0 g0 true r0]
    have hne1 : tw v g1 mil ≠ [] := by
      obtain ⟨xs, A, e, _⟩ := tw_last v g1 mil hm
      rw [e]; simp
    have e : [Fr.hyphenate (tw v g1 mil)] ++ [Fr.hyphenate (gw v 0 g0 true)] =
        [Fr.hyphenate (tw v g1 mil), Fr.hyphenate (gw v 0 g0 true)] := rfl
    rw [e, hyphenate_pair _ _ hne1 (gw_ne _ _ _ _ n0 h0)]
    exact LastOrd.of_hyph [] (LastIn.prepend _ (gw_last v 0 g0 true n0 h0 (hf4 0) (hf5 0)))
      (Atoms.append (tw_atoms v g1 mil) (gw_atoms v 0 g0 true))
  · rw [if_neg hc]
    by_cases n0 : g0 = 0
    · rw [if_pos (by simp [n0]), List.append_nil]
      exact thousands_last v g1 mil (by omega) h1 hm
    · rw [if_neg (by simp [n0])]
      exact LastOrd.prepend _ (group_last v 0 g0 true n0 h0 (hf4 0) (hf5 0))

/-- the variant function used by `Spec.Fr.ordinalWords`: no plural marks on `cent` / `vingt`, `mille` not `mil` -/
def ordVar (v : Var) : Var := fun i => if i % 16 == 4 || i % 16 == 5 then 1 else if i == cp 1 7 then 0 else v i

theorem ordVar_4 (v : Var) (g : Nat) : flag (ordVar v) (cp g 4) = true := by
  unfold flag ordVar cp
  have : (16 * g + 4) % 16 = 4 := by omega
  simp [this]

theorem ordVar_5 (v : Var) (g : Nat) : flag (ordVar v) (cp g 5) = true := by
  unfold flag ordVar cp
  have : (16 * g + 5) % 16 = 5 := by omega
  simp [this]

theorem ordVar_7 (v : Var) : flag (ordVar v) (cp 1 7) = false := by
  unfold flag ordVar cp
  simp

theorem scaled_zero (v : Var) (g : Nat) : Fr.scaled v g 0 = [] := rfl

theorem cardinal_last (v : Var) (n : Nat) (hn : n ≠ 0) (h : n < 10 ^ 6) : LastOrd (Fr.cardinal (ordVar v) n) := by
  unfold Fr.cardinal
  have hn' : (n == 0) = false := by simp [hn]
  rw [hn', if_neg Bool.false_ne_true]
  dsimp only
  have e3 : n / 1000000000 % 1000 = 0 := by omega
  have e2 : n / 1000000 % 1000 = 0 := by omega
  rw [e3, e2, scaled_zero, scaled_zero, List.nil_append, List.nil_append]
  exact low_last (ordVar v) _ _ _ (by omega) (by omega) (by omega) (ordVar_4 v) (ordVar_5 v) (ordVar_7 v)

/-! ### the ordinal spelling and its run -/

theorem ordinalOfLastWord_eq (xs : List Word) (A : Word) (hat : Atoms xs) (hA : A ∈ ordAtoms) :
    Fr.ordinalOfLastWord (Fr.hyphenate (xs ++ [A])) = Fr.hyphenate (xs ++ [Fr.ordinalOfNumeral A]) := by
  unfold Fr.ordinalOfLastWord
  rw [splitOn_hyphenate_atoms _ (Atoms.append hat (Atoms.cons (ordAtom_atom hA) Atoms.nil)) (by simp),
    List.reverse_append, List.reverse_singleton, List.singleton_append]
  dsimp only
  rw [List.reverse_reverse]

theorem ordinalWords_eq (v : Var) (n : Nat) (hn : n ≠ 1000000) (pre : List Word) (W : Word)
    (h : Fr.cardinal (ordVar v) n = pre ++ [W]) :
    Fr.ordinalWords v n = pre ++ [Fr.ordinalOfLastWord W] := by
  have h' : Fr.cardinal (fun i => if i % 16 == 4 || i % 16 == 5 then 1 else if i == cp 1 7 then 0 else v i) n =
      pre ++ [W] := h
  unfold Fr.ordinalWords
  rw [if_neg (by simp [hn])]
  dsimp only
  rw [h', List.reverse_append, List.reverse_singleton, List.singleton_append]
  dsimp only
  rw [List.reverse_cons, List.reverse_reverse]

theorem pluralize_eq (pre : List Word) (W : Word) : Fr.pluralize (pre ++ [W]) = pre ++ [W ++ ['s']] := by
  unfold Fr.pluralize
  rw [List.reverse_append, List.reverse_singleton, List.singleton_append]
  dsimp only
  rw [List.reverse_cons, List.reverse_reverse]

/-- replacing the last part `A` of the last word by an ordinal form `A'` bound to the same instruction -/
theorem key_pair (xs : List Word) (A A' : Word) (a : Act) (m : Mk) (hat : Atoms xs) (hp : Plain A a)
    (ho : OrdW A' a m) :
    OrdPair Fr.apply (Fr.hyphenate (xs ++ [A])) (Fr.hyphenate (xs ++ [A'])) m := by
  cases xs with
  | nil => exact OrdPair.of_plain 1 hp ho
  | cons x t =>
    have hA : Atoms ((x :: t) ++ [A]) := Atoms.append hat (Atoms.cons hp.1 Atoms.nil)
    have hA' : Atoms ((x :: t) ++ [A']) := Atoms.append hat (Atoms.cons ho.1 Atoms.nil)
    have c1 : (Fr.hyphenate ((x :: t) ++ [A])).contains '-' = true := by
      rw [List.cons_append, hyphenate_cons x _ (by simp)]
      exact contains_append_hyphen _ _
    have c2 : (Fr.hyphenate ((x :: t) ++ [A'])).contains '-' = true := by
      rw [List.cons_append, hyphenate_cons x _ (by simp)]
      exact contains_append_hyphen _ _
    exact OrdPair.compound _ _ (x :: t) A A' m c1 (split_hyphenate_atoms _ hA (by simp)) c2
      (split_hyphenate_atoms _ hA' (by simp)) (OrdPair.of_plain 0 hp ho)

/-- the run of an ordinal `2 ≤ n < 10^6`, singular or plural -/
theorem ordinal_run (v : Var) (n : Nat) (hn : n ≠ 0) (h : n < 10 ^ 6) :
    ∃ fl, execGroup T2N.Fr.lang.apply (Fr.ordinalWords v n) = .ok (mark .eme (mkF (lsb n) fl)) ∧
      execGroup T2N.Fr.lang.apply (Fr.pluralize (Fr.ordinalWords v n)) = .ok (mark .emes (mkF (lsb n) fl)) := by
  obtain ⟨pre, xs, A, hcard, hat, hA⟩ := cardinal_last v n hn h
  obtain ⟨a, hpl, ho1, ho2⟩ := ordAtoms_ok A hA
  obtain ⟨fl, hrun⟩ := cardinal_run (ordVar v) n hn (Nat.lt_trans h (by decide))
  rw [hcard] at hrun
  have hw : Fr.ordinalWords v n = pre ++ [Fr.hyphenate (xs ++ [Fr.ordinalOfNumeral A])] := by
    rw [ordinalWords_eq v n (by omega) pre _ hcard, ordinalOfLastWord_eq xs A hat hA]
  refine ⟨fl, ?_, ?_⟩
  · rw [hw]
    exact swap_last Fr.apply _ _ _ (key_pair xs A _ a .eme hat hpl ho1) pre DS.new false _ hrun
  · rw [hw, pluralize_eq, hyphenate_snoc_s]
    exact swap_last Fr.apply _ _ _ (key_pair xs A _ a .emes hat hpl ho2) pre DS.new false _ hrun

/-- validation of a run that ends on the marked builder -/
theorem validate_marked (ws : List Word) (n fl : Nat) (m : Mk) (hn : n ≠ 0)
    (hex : execGroup T2N.Fr.lang.apply ws = .ok (mark m (mkF (lsb n) fl))) :
    text2digitsWords T2N.Fr.lang ws = .ok (decChars n ++ m.chars) := by
  have hne := lsb_ne_nil hn
  have hemp : (mark m (mkF (lsb n) fl)).isEmpty = false := by
    show ((lsb n).isEmpty && (0 : Nat) == 0) = false
    cases hl : lsb n with
    | nil => exact absurd hl hne
    | cons a t => rfl
  have hrender : (mark m (mkF (lsb n) fl)).render = decDigits n := by
    show List.replicate 0 0 ++ (lsb n).reverse = _
    rw [lsb_rev_dec n hn]; rfl
  have hrne : (mark m (mkF (lsb n) fl)).render.isEmpty = false := by
    rw [hrender, ← lsb_rev_dec n hn]
    cases hl : lsb n with
    | nil => exact absurd hl hne
    | cons a t => simp
  unfold text2digitsWords
  rw [hex]
  dsimp only
  rw [hemp, if_neg Bool.false_ne_true]
  unfold Lang.formatW
  rw [hrne, if_neg Bool.false_ne_true]
  show ValOut.ok (renderChars (mark m (mkF (lsb n) fl)) ++ m.chars) = _
  unfold renderChars decChars
  rw [hrender]

theorem eme_chars : Mk.eme.chars = w!"ème" := by decide
theorem emes_chars : Mk.emes.chars = w!"èmes" := by decide

/-- **C04 for French, unbounded**: every rank `0 < n ≤ 10^6`, every inflection the specification spells
(`-ième`, `-ièmes`; `premier`, `premiers`, `première`, `premières`), every spelling variant (hyphenation
styles, `septante` …): validating the spelled ordinal yields the digits of `n` followed by the marker. -/
theorem C04_validate_fr (v : Spec.Var) (n i : Nat) (ws : List Word) (mk : Word) (hn : 0 < n) (h : n ≤ 10 ^ 6)
    (ho : Spec.Fr.ordinal v n i = some (ws, mk)) :
    text2digitsWords T2N.Fr.lang ws = .ok (decChars n ++ mk) := by
  unfold Fr.ordinal at ho
  have c0 : ¬ ((n == 0 || decide (n > 1000000)) = true) := by simp; omega
  rw [if_neg c0] at ho
  by_cases h1 : n = 1
  · subst h1
    rw [if_pos (by rfl)] at ho
    rcases i with _ | _ | _ | _ | i
    · obtain ⟨rfl, rfl⟩ : [w!"premier"] = ws ∧ w!"er" = mk := by simpa using ho
      decide +kernel
    · obtain ⟨rfl, rfl⟩ : [w!"premiers"] = ws ∧ w!"ers" = mk := by simpa using ho
      decide +kernel
    · obtain ⟨rfl, rfl⟩ : [w!"première"] = ws ∧ w!"ère" = mk := by simpa using ho
      decide +kernel
    · obtain ⟨rfl, rfl⟩ : [w!"premières"] = ws ∧ w!"ères" = mk := by simpa using ho
      decide +kernel
    · exact absurd ho (by simp)
  · rw [if_neg (by simp [h1])] at ho
    by_cases hM : n = 1000000
    · subst hM
      have eM : Fr.ordinalWords v 1000000 = [w!"millionième"] := rfl
      rcases i with _ | _ | i
      · obtain ⟨rfl, rfl⟩ : Fr.ordinalWords v 1000000 = ws ∧ w!"ème" = mk := by simpa using ho
        rw [eM]
        decide +kernel
      · obtain ⟨rfl, rfl⟩ : Fr.pluralize (Fr.ordinalWords v 1000000) = ws ∧ w!"èmes" = mk := by simpa using ho
        rw [eM]
        decide +kernel
      · exact absurd ho (by simp)
    · obtain ⟨fl, r1, r2⟩ := ordinal_run v n (by omega) (by omega)
      rcases i with _ | _ | i
      · obtain ⟨rfl, rfl⟩ : Fr.ordinalWords v n = ws ∧ w!"ème" = mk := by simpa using ho
        rw [← eme_chars]
        exact validate_marked _ n fl .eme (by omega) r1
      · obtain ⟨rfl, rfl⟩ : Fr.pluralize (Fr.ordinalWords v n) = ws ∧ w!"èmes" = mk := by simpa using ho
        rw [← emes_chars]
        exact validate_marked _ n fl .emes (by omega) r2
      · exact absurd ho (by simp)

/-- the scanner (threshold 0) finds the spelled ordinal as exactly one occurrence with that text -/
theorem C04_scan_fr (v : Spec.Var) (n i : Nat) (ws : List Word) (mk : Word) (hn : 0 < n) (h : n ≤ 10 ^ 6)
    (ho : Spec.Fr.ordinal v n i = some (ws, mk)) :
    occTexts T2N.Fr.lang zeroThr ws = some [decChars n ++ mk] :=
  scan_of_validate _ _ (C04_validate_fr v n i ws mk hn h ho)

/-- `trois-cent-un-mille-unième` (1990 style) and `quatre-vingt-onzièmes` -/
example : text2digitsWords T2N.Fr.lang [w!"trois-cent-un-mille-unième"] = .ok (decChars 301001 ++ w!"ème") :=
  C04_validate_fr (fun _ => 2) 301001 0 _ _ (by decide) (by decide) (by decide)

example : text2digitsWords T2N.Fr.lang [w!"quatre-vingt-onzièmes"] = .ok (decChars 91 ++ w!"èmes") :=
  C04_validate_fr (fun _ => 0) 91 1 _ _ (by decide) (by decide) (by decide)

end T2N.ExtFr
