/-
  T2N.Lemmas.LangFacts — two facts about the per-word function of each of the seven interpreters:

  * a rejected word leaves no trace in the number being built, except possibly in the blocking
    flags (`L.apply_err_same`, `L.applyDecimal_err_same`);
  * an accepted word always leaves a non-empty builder (`L.apply_ok_nonempty`,
    `L.applyDecimal_ok_nonempty`).

  Both are first proved for the instruction language (`Act.exec_cases`, for well-formed
  instructions `Act.wf`), then every vocabulary table is checked to be well-formed (`decide`), and
  the post-processing of each `apply` is inspected.
-/
import T2N.Lemmas.Act
import T2N.Model.Langs

namespace T2N
open DS

/-- the builders agree on everything but the blocking flags -/
def SameButFlags (b b' : DS) : Prop :=
  b'.rbuf = b.rbuf ∧ b'.lz = b.lz ∧ b'.frozen = b.frozen ∧ b'.marker = b.marker

theorem SameButFlags.refl (b : DS) : SameButFlags b b := ⟨rfl, rfl, rfl, rfl⟩

/-- What both theorems say about the outcome `p` of one interpreter step on `b`. -/
def StepOK (b : DS) (p : Res × DS) : Prop :=
  (∃ e, p.1 = some e ∧ SameButFlags b p.2) ∨ (p.1 = none ∧ p.2.isEmpty = false)

theorem StepOK.err_same {b : DS} {p : Res × DS} (hs : StepOK b p) (e : Err) (h : p.1 = some e) :
    SameButFlags b p.2 := by
  cases hs with
  | inl h1 =>
    cases h1 with
    | intro e' he => exact he.2
  | inr h1 => rw [h1.1] at h; cases h

theorem StepOK.ok_nonempty {b : DS} {p : Res × DS} (hs : StepOK b p) (h : p.1 = none) :
    p.2.isEmpty = false := by
  cases hs with
  | inl h1 =>
    cases h1 with
    | intro e he => rw [he.1] at h; cases h
  | inr h1 => exact h1.2

/-! ### primitives: success ⇒ non-empty -/

theorem isEmpty_false_of_rbuf {b : DS} (h : b.rbuf ≠ []) : b.isEmpty = false := by
  unfold DS.isEmpty
  cases hb : b.rbuf with
  | nil => exact absurd hb h
  | cons x xs => rfl

theorem ne_nil_of_not_allZero {ds : List Nat} (h : ¬ allZero ds = true) : ds ≠ [] := by
  intro hd; subst hd; exact h rfl

theorem put_ok_nonempty (b : DS) (ds : List Nat) (h : (b.put ds).1 = none) :
    (b.put ds).2.isEmpty = false := by
  unfold DS.put at *
  by_cases h1 : b.frozen = true
  · rw [if_pos h1] at h; cases h
  · rw [if_neg h1] at h ⊢
    by_cases h2 : (b.rbuf.isEmpty && ds == [0]) = true
    · rw [if_pos h2]
      simp [DS.isEmpty]
    · rw [if_neg h2] at h ⊢
      by_cases h3 : allZero ds = true
      · rw [if_pos h3] at h; cases h
      · rw [if_neg h3] at h ⊢
        have hds : ds ≠ [] := ne_nil_of_not_allZero h3
        by_cases h4 : b.rbuf.isEmpty = true
        · rw [if_pos h4]
          apply isEmpty_false_of_rbuf
          simpa using hds
        · rw [if_neg h4] at h ⊢
          by_cases h5 : b.rbuf.length < ds.length
          · rw [if_pos h5] at h; cases h
          · rw [if_neg h5] at h ⊢
            by_cases h6 : allZero (b.rbuf.take ds.length) = true
            · rw [if_pos h6]
              apply isEmpty_false_of_rbuf
              simp [hds]
            · rw [if_neg h6] at h; cases h

theorem fput_ok_nonempty (b : DS) (ds : List Nat) (hds : ds ≠ []) (h : (b.fput ds).1 = none) :
    (b.fput ds).2.isEmpty = false := by
  unfold DS.fput at *
  by_cases h1 : b.frozen = true
  · rw [if_pos h1] at h; cases h
  · rw [if_neg h1]
    apply isEmpty_false_of_rbuf
    simp [hds]

theorem push_ok_nonempty (b : DS) (ds : List Nat) (hds : ds ≠ []) (h : (b.push ds).1 = none) :
    (b.push ds).2.isEmpty = false := by
  unfold DS.push at *
  by_cases h1 : b.frozen = true
  · rw [if_pos h1] at h; cases h
  · rw [if_neg h1]
    apply isEmpty_false_of_rbuf
    simp [hds]

theorem putDigitAt_ok_nonempty (b : DS) (d p : Nat) (h : (b.putDigitAt d p).1 = none) :
    (b.putDigitAt d p).2.isEmpty = false := by
  unfold DS.putDigitAt at *
  by_cases h1 : b.frozen = true
  · rw [if_pos h1] at h; cases h
  · rw [if_neg h1] at h ⊢
    by_cases h2 : (d == 0) = true
    · rw [if_pos h2] at h; cases h
    · rw [if_neg h2] at h ⊢
      by_cases h3 : p ≥ b.rbuf.length
      · rw [if_pos h3]
        apply isEmpty_false_of_rbuf
        simp
      · rw [if_neg h3] at h ⊢
        by_cases h4 : (b.rbuf.getD p 0 == 0) = true
        · rw [if_pos h4]
          apply isEmpty_false_of_rbuf
          intro hs
          have hs' : b.rbuf.set p d = [] := hs
          have hl : (b.rbuf.set p d).length = 0 := by rw [hs']; rfl
          rw [List.length_set] at hl
          omega
        · rw [if_neg h4] at h; cases h

theorem shiftBuf_ne_nil (r0 : List Nat) (p : Nat) (hp : p ≠ 0) (r : List Nat)
    (h : shiftBuf r0 p = some r) : r ≠ [] := by
  unfold shiftBuf at h
  have hrep : List.replicate p 0 ≠ [] := by
    intro hr
    have : (List.replicate p (0 : Nat)).length = 0 := by rw [hr]; rfl
    rw [List.length_replicate] at this
    exact hp this
  by_cases h1 : r0.length ≤ p
  · rw [if_pos h1] at h
    injection h with h; subst h
    simp [hrep]
  · rw [if_neg h1] at h
    dsimp only at h
    split at h
    · injection h with h; subst h
      simp [hrep]
    · cases h

theorem shift_ok_nonempty (b : DS) (p : Nat) (hp : p ≠ 0) (h : (b.shift p).1 = none) :
    (b.shift p).2.isEmpty = false := by
  have hf := shift_not_frozen h
  rw [shift_eq b p hf hp] at h ⊢
  cases hs : shiftBuf (if b.rbuf.isEmpty then [1] else b.rbuf) p with
  | none => rw [hs] at h; cases h
  | some r =>
    apply isEmpty_false_of_rbuf
    exact shiftBuf_ne_nil _ p hp r hs

/-! ### instructions -/

/-- Well-formed instructions: no empty `fput` / `push`, no `shift 0` (the only primitives that can
succeed without writing a digit). -/
def Act.wf : Act → Bool
  | .put _ => true
  | .fput ds => !ds.isEmpty
  | .shift k => k != 0
  | .putAt _ _ => true
  | .push ds => !ds.isEmpty
  | .fail _ => true
  | .ite _ a b => a.wf && b.wf
  | .block _ a => a.wf

theorem Act.exec_ok_nonempty (a : Act) : ∀ (b : DS), a.wf = true → (a.exec b).1 = none →
    (a.exec b).2.1.isEmpty = false := by
  induction a with
  | put ds => intro b _ h; simp only [Act.exec] at *; exact put_ok_nonempty b ds h
  | fput ds =>
    intro b hw h; simp only [Act.exec] at *
    exact fput_ok_nonempty b ds (by simpa [Act.wf] using hw) h
  | shift k =>
    intro b hw h; simp only [Act.exec] at *
    exact shift_ok_nonempty b k (by simpa [Act.wf] using hw) h
  | putAt d p => intro b _ h; simp only [Act.exec] at *; exact putDigitAt_ok_nonempty b d p h
  | push ds =>
    intro b hw h; simp only [Act.exec] at *
    exact push_ok_nonempty b ds (by simpa [Act.wf] using hw) h
  | fail e' => intro b _ h; simp only [Act.exec] at h; cases h
  | ite g x y ihx ihy =>
    intro b hw h
    have hw' : x.wf = true ∧ y.wf = true := by simpa [Act.wf] using hw
    simp only [Act.exec] at *
    split
    · rename_i hg; rw [if_pos hg] at h; exact ihx b hw'.1 h
    · rename_i hg; rw [if_neg hg] at h; exact ihy b hw'.2 h
  | block m a ih =>
    intro b hw h
    simp only [Act.exec] at *
    exact ih b (by simpa [Act.wf] using hw) h

/-- the two possible outcomes of a well-formed instruction -/
theorem Act.exec_cases (a : Act) (hw : a.wf = true) (b : DS) :
    (∃ e tb, a.exec b = (some e, b, tb)) ∨
    (∃ b' tb, a.exec b = (none, b', tb) ∧ b'.isEmpty = false) := by
  cases hr : a.exec b with
  | mk r rest =>
    cases rest with
    | mk b' tb =>
      cases r with
      | some e =>
        have := Act.exec_atomic a b e (by rw [hr])
        rw [hr] at this
        have hb : b' = b := this
        subst hb
        exact Or.inl ⟨e, tb, rfl⟩
      | none =>
        have := Act.exec_ok_nonempty a b hw (by rw [hr])
        rw [hr] at this
        exact Or.inr ⟨b', tb, rfl, this⟩

/-! ### vocabulary tables -/

theorem lookup_wf (l : List (Word × Act)) (hl : (l.all fun p => p.2.wf) = true) (k : Word) :
    ((l.lookup k).getD (.fail .nan)).wf = true := by
  induction l with
  | nil => rfl
  | cons p ps ih =>
    cases p with
    | mk a v =>
      rw [List.all_cons, Bool.and_eq_true] at hl
      rw [List.lookup_cons]
      cases hk : (k == a) with
      | true => exact hl.1
      | false => exact ih hl.2

/-! ### the compound merge -/

theorem mergeGroup_stepOK (b ds : DS) (cf : Bool) (m : Marker) : StepOK b (mergeGroup b ds cf m) := by
  unfold mergeGroup
  split
  · exact Or.inl ⟨_, rfl, SameButFlags.refl b⟩
  · cases hp : b.put ds.rbuf.reverse with
    | mk r b' =>
      cases r with
      | some e' =>
        have := put_atomic b ds.rbuf.reverse e' (by rw [hp])
        rw [hp] at this
        have hb : b' = b := this
        subst hb
        exact Or.inl ⟨e', rfl, SameButFlags.refl _⟩
      | none =>
        have hne := put_ok_nonempty b ds.rbuf.reverse (by rw [hp])
        rw [hp] at hne
        have hne' : b'.isEmpty = false := hne
        refine Or.inr ⟨rfl, ?_⟩
        dsimp only
        cases cf <;> cases m.isOrdinal <;> exact hne'

/-- a compound branch: interpret the group on a fresh builder, then merge -/
theorem group_stepOK (b : DS) (g : Except Err DS) (cf : Bool) (mk : DS → Marker) :
    StepOK b (match g with
      | .ok ds => mergeGroup b ds cf (mk ds)
      | .error e => (some e, b)) := by
  cases g with
  | ok ds => exact mergeGroup_stepOK b ds cf (mk ds)
  | error e => exact Or.inl ⟨e, rfl, SameButFlags.refl b⟩

/-- digit-by-digit decimals (en, de) -/
theorem decimal_stepOK (b : DS) (o : Option Nat) :
    StepOK b (match o with
      | some d => b.push [d]
      | none => (some .nan, b)) := by
  cases o with
  | none => exact Or.inl ⟨_, rfl, SameButFlags.refl b⟩
  | some d =>
    dsimp only
    cases hp : (b.push [d]).1 with
    | none => exact Or.inr ⟨hp, push_ok_nonempty b [d] (by simp) hp⟩
    | some e =>
      refine Or.inl ⟨e, hp, ?_⟩
      rw [push_atomic b [d] e hp]
      exact SameButFlags.refl b

/-! ### English -/

theorem En.vocab_wf : (En.vocab.all fun p => p.2.wf) = true := by decide

theorem En.apply_stepOK (w : Word) (b : DS) : StepOK b (En.apply w b) := by
  unfold En.apply En.applyFuel
  by_cases hc : w.contains '-' = true
  · rw [if_pos hc]
    exact group_stepOK b _ false (fun ds => ds.marker)
  · rw [if_neg hc]
    dsimp only
    have hw := lookup_wf En.vocab En.vocab_wf (En.lemmatize w)
    rcases Act.exec_cases _ hw b with ⟨e, tb, he⟩ | ⟨b', tb, he, hne⟩
    · rw [he]
      exact Or.inl ⟨e, rfl, SameButFlags.refl b⟩
    · rw [he]
      dsimp only
      split
      · exact Or.inr ⟨rfl, hne⟩
      · exact Or.inr ⟨rfl, hne⟩

theorem En.applyDecimal_stepOK (w : Word) (b : DS) : StepOK b (En.applyDecimal w b) := by
  unfold En.applyDecimal
  exact decimal_stepOK b _

theorem En.apply_err_same (w : Word) (b : DS) (e : Err) (h : (En.apply w b).1 = some e) :
    SameButFlags b (En.apply w b).2 := (En.apply_stepOK w b).err_same e h
theorem En.apply_ok_nonempty (w : Word) (b : DS) (h : (En.apply w b).1 = none) :
    (En.apply w b).2.isEmpty = false := (En.apply_stepOK w b).ok_nonempty h
theorem En.applyDecimal_err_same (w : Word) (b : DS) (e : Err)
    (h : (En.applyDecimal w b).1 = some e) : SameButFlags b (En.applyDecimal w b).2 :=
  (En.applyDecimal_stepOK w b).err_same e h
theorem En.applyDecimal_ok_nonempty (w : Word) (b : DS) (h : (En.applyDecimal w b).1 = none) :
    (En.applyDecimal w b).2.isEmpty = false := (En.applyDecimal_stepOK w b).ok_nonempty h

/-! ### French -/

theorem Fr.vocab_wf : (Fr.vocab.all fun p => p.2.wf) = true := by decide

theorem Fr.apply_stepOK (w : Word) (b : DS) : StepOK b (Fr.apply w b) := by
  unfold Fr.apply Fr.applyFuel
  by_cases hc : w.contains '-' = true
  · rw [if_pos hc]
    exact group_stepOK b _ true (fun ds => ds.marker)
  · rw [if_neg hc]
    dsimp only
    have hw := lookup_wf Fr.vocab Fr.vocab_wf (Fr.lemmatize w)
    rcases Act.exec_cases _ hw b with ⟨e, tb, he⟩ | ⟨b', tb, he, hne⟩
    · rw [he]
      exact Or.inl ⟨e, rfl, rfl, rfl, rfl, rfl⟩
    · rw [he]
      dsimp only
      refine Or.inr ⟨rfl, ?_⟩
      dsimp only [Option.isNone_none, if_true]
      cases (Fr.morph w).isNone <;> exact hne

theorem Fr.apply_err_same (w : Word) (b : DS) (e : Err) (h : (Fr.apply w b).1 = some e) :
    SameButFlags b (Fr.apply w b).2 := (Fr.apply_stepOK w b).err_same e h
theorem Fr.apply_ok_nonempty (w : Word) (b : DS) (h : (Fr.apply w b).1 = none) :
    (Fr.apply w b).2.isEmpty = false := (Fr.apply_stepOK w b).ok_nonempty h
theorem Fr.applyDecimal_err_same (w : Word) (b : DS) (e : Err)
    (h : (Fr.applyDecimal w b).1 = some e) : SameButFlags b (Fr.applyDecimal w b).2 :=
  Fr.apply_err_same w b e h
theorem Fr.applyDecimal_ok_nonempty (w : Word) (b : DS) (h : (Fr.applyDecimal w b).1 = none) :
    (Fr.applyDecimal w b).2.isEmpty = false := Fr.apply_ok_nonempty w b h

/-! ### Spanish -/

theorem Es.vocab_wf : (Es.vocab.all fun p => p.2.wf) = true := by decide

theorem Es.apply_stepOK (w : Word) (b : DS) : StepOK b (Es.apply w b) := by
  unfold Es.apply
  dsimp only
  split
  · exact Or.inl ⟨_, rfl, SameButFlags.refl b⟩
  · have hw := lookup_wf Es.vocab Es.vocab_wf (Es.lemmatize w)
    rcases Act.exec_cases _ hw b with ⟨e, tb, he⟩ | ⟨b', tb, he, hne⟩
    · rw [he]
      exact Or.inl ⟨e, rfl, SameButFlags.refl b⟩
    · rw [he]
      refine Or.inr ⟨rfl, ?_⟩
      dsimp only [Option.isNone_none, if_true]
      cases (Es.morph w).isFraction <;> exact hne

theorem Es.apply_err_same (w : Word) (b : DS) (e : Err) (h : (Es.apply w b).1 = some e) :
    SameButFlags b (Es.apply w b).2 := (Es.apply_stepOK w b).err_same e h
theorem Es.apply_ok_nonempty (w : Word) (b : DS) (h : (Es.apply w b).1 = none) :
    (Es.apply w b).2.isEmpty = false := (Es.apply_stepOK w b).ok_nonempty h
theorem Es.applyDecimal_err_same (w : Word) (b : DS) (e : Err)
    (h : (Es.applyDecimal w b).1 = some e) : SameButFlags b (Es.applyDecimal w b).2 :=
  Es.apply_err_same w b e h
theorem Es.applyDecimal_ok_nonempty (w : Word) (b : DS) (h : (Es.applyDecimal w b).1 = none) :
    (Es.applyDecimal w b).2.isEmpty = false := Es.apply_ok_nonempty w b h

/-! ### Portuguese -/

theorem Pt.vocab_wf (mnone : Bool) : ((Pt.vocab mnone).all fun p => p.2.wf) = true := by
  cases mnone <;> decide

theorem Pt.apply_stepOK (w : Word) (b : DS) : StepOK b (Pt.apply w b) := by
  unfold Pt.apply
  dsimp only
  split
  · exact Or.inl ⟨_, rfl, SameButFlags.refl b⟩
  · have hw := lookup_wf (Pt.vocab (Pt.morph w).isNone) (Pt.vocab_wf _) (Pt.lemmatize w)
    rcases Act.exec_cases _ hw b with ⟨e, tb, he⟩ | ⟨b', tb, he, hne⟩
    · rw [he]
      cases e <;> exact Or.inl ⟨_, rfl, rfl, rfl, rfl, rfl⟩
    · rw [he]
      exact Or.inr ⟨rfl, hne⟩

theorem Pt.apply_err_same (w : Word) (b : DS) (e : Err) (h : (Pt.apply w b).1 = some e) :
    SameButFlags b (Pt.apply w b).2 := (Pt.apply_stepOK w b).err_same e h
theorem Pt.apply_ok_nonempty (w : Word) (b : DS) (h : (Pt.apply w b).1 = none) :
    (Pt.apply w b).2.isEmpty = false := (Pt.apply_stepOK w b).ok_nonempty h
theorem Pt.applyDecimal_err_same (w : Word) (b : DS) (e : Err)
    (h : (Pt.applyDecimal w b).1 = some e) : SameButFlags b (Pt.applyDecimal w b).2 :=
  Pt.apply_err_same w b e h
theorem Pt.applyDecimal_ok_nonempty (w : Word) (b : DS) (h : (Pt.applyDecimal w b).1 = none) :
    (Pt.applyDecimal w b).2.isEmpty = false := Pt.apply_ok_nonempty w b h

/-! ### Italian -/

theorem It.vocab_wf : (It.vocab.all fun p => p.2.wf) = true := by decide

theorem It.apply_stepOK (w : Word) (b : DS) : StepOK b (It.apply w b) := by
  unfold It.apply It.applyFuel
  dsimp only
  by_cases hc : isSplittable It.patterns (It.lemmatize w) = true
  · rw [if_pos hc]
    exact group_stepOK b _ false (fun _ => It.morph w)
  · rw [if_neg hc]
    have hw : (if (It.lemmatize w == w!"non" && w == w!"non") = true then Act.fail Err.nan
        else (It.vocab.lookup (It.lemmatize w)).getD (.fail .nan)).wf = true := by
      split
      · rfl
      · exact lookup_wf It.vocab It.vocab_wf (It.lemmatize w)
    rcases Act.exec_cases _ hw b with ⟨e, tb, he⟩ | ⟨b', tb, he, hne⟩
    · rw [he]
      exact Or.inl ⟨e, rfl, SameButFlags.refl b⟩
    · rw [he]
      dsimp only
      split
      · exact Or.inr ⟨rfl, hne⟩
      · exact Or.inr ⟨rfl, hne⟩

theorem It.apply_err_same (w : Word) (b : DS) (e : Err) (h : (It.apply w b).1 = some e) :
    SameButFlags b (It.apply w b).2 := (It.apply_stepOK w b).err_same e h
theorem It.apply_ok_nonempty (w : Word) (b : DS) (h : (It.apply w b).1 = none) :
    (It.apply w b).2.isEmpty = false := (It.apply_stepOK w b).ok_nonempty h
theorem It.applyDecimal_err_same (w : Word) (b : DS) (e : Err)
    (h : (It.applyDecimal w b).1 = some e) : SameButFlags b (It.applyDecimal w b).2 :=
  It.apply_err_same w b e h
theorem It.applyDecimal_ok_nonempty (w : Word) (b : DS) (h : (It.applyDecimal w b).1 = none) :
    (It.applyDecimal w b).2.isEmpty = false := It.apply_ok_nonempty w b h

/-! ### German -/

theorem De.vocab_wf : (De.vocab.all fun p => p.2.wf) = true := by decide

theorem De.apply_stepOK (w : Word) (b : DS) : StepOK b (De.apply w b) := by
  unfold De.apply De.applyFuel
  dsimp only
  by_cases hc : isSplittable De.patterns (De.lemmatize w) = true
  · rw [if_pos hc]
    exact group_stepOK b _ false (fun ds => ds.marker)
  · rw [if_neg hc]
    have hw := lookup_wf De.vocab De.vocab_wf (De.lemmatize w)
    rcases Act.exec_cases _ hw b with ⟨e, tb, he⟩ | ⟨b', tb, he, hne⟩
    · rw [he]
      exact Or.inl ⟨e, rfl, rfl, rfl, rfl, rfl⟩
    · rw [he]
      refine Or.inr ⟨rfl, ?_⟩
      dsimp only [Option.isNone_none, if_true]
      cases endsWith (De.lemmatize w) w!"te" <;> cases (De.lemmatize w == w!"eins") <;> exact hne

theorem De.applyDecimal_stepOK (w : Word) (b : DS) : StepOK b (De.applyDecimal w b) := by
  unfold De.applyDecimal
  exact decimal_stepOK b _

theorem De.apply_err_same (w : Word) (b : DS) (e : Err) (h : (De.apply w b).1 = some e) :
    SameButFlags b (De.apply w b).2 := (De.apply_stepOK w b).err_same e h
theorem De.apply_ok_nonempty (w : Word) (b : DS) (h : (De.apply w b).1 = none) :
    (De.apply w b).2.isEmpty = false := (De.apply_stepOK w b).ok_nonempty h
theorem De.applyDecimal_err_same (w : Word) (b : DS) (e : Err)
    (h : (De.applyDecimal w b).1 = some e) : SameButFlags b (De.applyDecimal w b).2 :=
  (De.applyDecimal_stepOK w b).err_same e h
theorem De.applyDecimal_ok_nonempty (w : Word) (b : DS) (h : (De.applyDecimal w b).1 = none) :
    (De.applyDecimal w b).2.isEmpty = false := (De.applyDecimal_stepOK w b).ok_nonempty h

/-! ### Dutch -/

theorem Nl.vocab_wf : (Nl.vocab.all fun p => p.2.wf) = true := by decide

theorem Nl.apply_stepOK (w : Word) (b : DS) : StepOK b (Nl.apply w b) := by
  unfold Nl.apply Nl.applyFuel
  by_cases hc : isSplittable Nl.patterns w = true
  · rw [if_pos hc]
    exact group_stepOK b _ false (fun ds => ds.marker)
  · rw [if_neg hc]
    dsimp only
    have hw := lookup_wf Nl.vocab Nl.vocab_wf w
    rcases Act.exec_cases _ hw b with ⟨e, tb, he⟩ | ⟨b', tb, he, hne⟩
    · rw [he]
      exact Or.inl ⟨e, rfl, rfl, rfl, rfl, rfl⟩
    · rw [he]
      dsimp only [Option.isNone_none, if_true]
      cases (endsWith w w!"te" || endsWith w w!"de") <;> exact Or.inr ⟨rfl, hne⟩

theorem Nl.apply_err_same (w : Word) (b : DS) (e : Err) (h : (Nl.apply w b).1 = some e) :
    SameButFlags b (Nl.apply w b).2 := (Nl.apply_stepOK w b).err_same e h
theorem Nl.apply_ok_nonempty (w : Word) (b : DS) (h : (Nl.apply w b).1 = none) :
    (Nl.apply w b).2.isEmpty = false := (Nl.apply_stepOK w b).ok_nonempty h
theorem Nl.applyDecimal_err_same (w : Word) (b : DS) (e : Err)
    (h : (Nl.applyDecimal w b).1 = some e) : SameButFlags b (Nl.applyDecimal w b).2 :=
  Nl.apply_err_same w b e h
theorem Nl.applyDecimal_ok_nonempty (w : Word) (b : DS) (h : (Nl.applyDecimal w b).1 = none) :
    (Nl.applyDecimal w b).2.isEmpty = false := Nl.apply_ok_nonempty w b h

end T2N
