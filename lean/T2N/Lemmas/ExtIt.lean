/-
  T2N.Lemmas.ExtIt — Italian: the unbounded theorems for leading zeros (C16), digit dictation (C08),
  decimals (C05) and ordinals (C04), on top of the unbounded cardinal theorem `C01It.C01_validate_it`.

  * `ExtIt/Lz.lean`    — `lz`-independence of the Italian interpreter (`applyFuel_lz`, `run_lz`), the cardinal on top
                         of a multiple of `10^12` (`cardinal_stepsN`), `C16_validate_it`, `C16_zeros_only_it`,
                         `C16_zero_after_it`; finding `zero_primo_refused`.
  * `ExtIt/Scan.lean`  — an accepted word is a real word (`accOK_it`), lifting of runs to the scanner in integer and
                         decimal mode (`lift_run`, `lift_run_dec`, `scan_of_validate`), `C08_dictation_it`,
                         `C01_scan_it`, `C16_scan_it`, `C16_zero_after_scan_it`, `C05_decimal_it`
                         (fractions of at most 12 digits after their leading zeros; finding `C05_long_fraction_it`).
  * `ExtIt/OrdAtoms.lean`, `ExtIt/OrdTables.lean`, `ExtIt/Ord.lean` — `C04_validate_it`, `C04_scan_it`: every rank
                         `1 … 10^6`, every inflection, every variant.

  This file restates the results on the uniform face `Spec.It.speller : Speller`.
-/
import T2N.Lemmas.ExtIt.Ord

namespace T2N.ExtIt
open T2N T2N.Spec

/-- C16 on the speller face -/
theorem C16_validate_it_sp (v : Var) (k n : Nat) (hn : 0 < n) (h : n < 10 ^ 12) :
    text2digitsWords It.lang (List.replicate k Spec.It.speller.zeroWord ++ Spec.It.speller.cardinal v n) =
      .ok (List.replicate k '0' ++ decChars n) := C16_validate_it v k n hn h

/-- C08 on the speller face -/
theorem C08_dictation_it_sp (ds : List Nat) (h : ∀ d ∈ ds, d < 10) :
    occTexts It.lang zeroThr (ds.map Spec.It.speller.digitWord) =
      some ((dictationGroups ds).map (fun g => g.map digitChar)) := C08_dictation_it ds h

/-- C05 on the speller face -/
theorem C05_decimal_it_sp (v : Var) (n : Nat) (ds : List Nat) (thr : Nat → Bool) (h : n < 10 ^ 12)
    (hds : ds ≠ []) (h9 : ∀ d ∈ ds, d < 10) (hlen : (ds.dropWhile (· == 0)).length ≤ 12) :
    occTexts It.lang thr (Spec.It.speller.cardinal v n ++ [Spec.It.speller.sepWord] ++ Spec.It.speller.fraction v ds) =
      some [decChars n ++ [Spec.It.speller.decMark] ++ ds.map digitChar] := C05_decimal_it v n ds thr h hds h9 hlen

/-- C04 on the speller face, for every inflection index below `nInfl` and every rank up to `ordMax` -/
theorem C04_validate_it_sp (v : Var) (n i : Nat) (hn : 0 < n) (h : n ≤ Spec.It.speller.ordMax) (ws : List Word)
    (mk : Word) (ho : Spec.It.speller.ordinal v n i = some (ws, mk)) :
    text2digitsWords It.lang ws = .ok (decChars n ++ mk) ∧ occTexts It.lang zeroThr ws = some [decChars n ++ mk] :=
  ⟨C04_validate_it v n i hn h ws mk ho, C04_scan_it v n i hn h ws mk ho⟩

end T2N.ExtIt
