/-
  T2N.Lemmas.TextCor.Decimal — a spoken decimal number in a sentence, for any character classes and EVERY threshold.

  `decimal_phrase`: the words of an integer part (a run of `apply` from the fresh builder, ending in a cardinal `I`),
  the separator word (refused by `apply`, recognised by `is_decimal_sep`), the words of a fraction (a run of
  `apply_decimal` from the fresh builder, ending in `D`): the scanner reports exactly ONE occurrence, spanning the
  whole phrase, with text `<digits of I><mark><digits of D>` — whatever the threshold (a decimal is never "small").
  `decimal_sentence`: the same between refused words (`SepAlone.idle_prefix_words`,
  `ResetText.findNumbers_quiet_suffix`). `replaceText_decimal`: the text-level statement.
-/
import T2N.Lemmas.TextCor

namespace T2N.TextCor
open T2N T2N.Lift T2N.Spec T2N.C01Text

/-- the match `[a, e)` is open, the parser is in decimal mode with integer part `I` and fraction `D`, nothing
has been decided yet -/
def OpenDec (a e : Nat) (I D : DS) (s : Scanner) : Prop :=
  s.parser = { int := I, dec := D, isDec := true } ∧ s.tracker.queue = [] ∧ s.tracker.onHold = none ∧
    s.tracker.mstart = a ∧ s.tracker.mend = e

theorem push_sp (cfg : ScanCfg) (hspace : cfg.cc.isWhitespace ' ' = true) (s : Scanner) (pos : Nat) :
    s.push cfg pos sp = .ok s := by
  unfold Scanner.push
  rw [if_pos (skipped_sp cfg hspace)]

/-- one word of the fraction: one step of `execGroupFrom` on `apply_decimal` -/
theorem push_dec_step (cfg : ScanCfg) (hsep : ∀ x y, cfg.sep x y = false) (s : Scanner) (pos : Nat) (w : Word)
    (a e : Nat) (I D : DS) (h : OpenDec a e I D s) (hae : a < e) (hep : e ≤ pos)
    (hs : Scanner.isSkipped cfg (wtok w) = false) (rest : List Word) (inc : Bool) (R : DS)
    (hx : execGroupFrom cfg.lang.applyDecimal (w :: rest) D inc = .ok R) :
    ∃ s' e' D' inc', s.push cfg pos (wtok w) = .ok s' ∧ OpenDec a e' I D' s' ∧ e ≤ e' ∧ e' ≤ pos + 1 ∧
      execGroupFrom cfg.lang.applyDecimal rest D' inc' = .ok R ∧ (rest = [] → e' = pos + 1) := by
  obtain ⟨hp, hq, hh, hms, hme⟩ := h
  have hd : s.parser.isDec = true := by rw [hp]
  have hpush : s.parser.push cfg.lang (Scanner.testWord cfg s (wtok w)) =
      ((cfg.lang.applyDecimal w D).1, { int := I, dec := (cfg.lang.applyDecimal w D).2, isDec := true }) := by
    rw [testWord_nosep cfg hsep, Parser.push_dec _ _ _ hd, hp]
    rfl
  cases hr : cfg.lang.applyDecimal w D with
  | mk r D' =>
    rw [hr] at hpush
    cases r with
    | none =>
      rw [execGroupFrom_cons_ok hr] at hx
      rw [push_accepted_eq cfg s pos (wtok w) hs rfl _ hpush]
      refine ⟨_, pos + 1, D', false, rfl, ⟨rfl, hq, hh, ?_, rfl⟩, by omega, Nat.le_refl _, hx, fun _ => rfl⟩
      show (s.tracker.advanced pos).mstart = a
      rw [Tracker.advanced_open _ _ (by rw [hms, hme]; exact hae)]
      exact hms
    | some err =>
      by_cases he : err = .incomplete
      · subst he
        rw [execGroupFrom_cons_inc hr] at hx
        rw [push_incomplete_eq cfg s pos (wtok w) hs rfl _ hpush]
        refine ⟨_, e, D', true, rfl, ⟨rfl, hq, hh, hms, hme⟩, Nat.le_refl _, by omega, hx, ?_⟩
        intro hrest
        rw [hrest] at hx
        simp [execGroupFrom] at hx
      · rw [execGroupFrom_cons_err hr he] at hx
        cases hx

theorem postToks_cons (w : Word) (l : List Word) : postToks (w :: l) = sp :: wtok w :: postToks l := rfl

/-- **the words of the fraction**: the match stays open, the fraction builder follows `execGroupFrom` on
`apply_decimal`, and the match ends after the last word -/
theorem run_dec (cfg : ScanCfg) (hsep : ∀ x y, cfg.sep x y = false) (hspace : cfg.cc.isWhitespace ' ' = true) :
    ∀ (wf : List Word) (s : Scanner) (pos a e : Nat) (I D : DS) (inc : Bool) (R : DS),
      OpenDec a e I D s → a < e → e ≤ pos → (∀ w ∈ wf, Scanner.isSkipped cfg (wtok w) = false) →
      execGroupFrom cfg.lang.applyDecimal wf D inc = .ok R →
      ∃ s' e', Scanner.pushAll cfg s (enumFrom pos (postToks wf)) = .ok s' ∧ OpenDec a e' I R s' ∧ e ≤ e' ∧
        (wf = [] → e' = e) ∧ (wf ≠ [] → e' = pos + 2 * wf.length) := by
  intro wf
  induction wf with
  | nil =>
    intro s pos a e I D inc R h _ _ _ hx
    cases inc with
    | true => simp [execGroupFrom] at hx
    | false =>
      simp only [execGroupFrom, Bool.false_eq_true, if_false] at hx
      cases hx
      exact ⟨s, e, rfl, h, Nat.le_refl _, fun _ => rfl, fun hne => absurd rfl hne⟩
  | cons w t ih =>
    intro s pos a e I D inc R h hae hep hws hx
    obtain ⟨s1, e1, D1, inc1, p1, o1, le1, ub1, x1, last1⟩ :=
      push_dec_step cfg hsep s (pos + 1) w a e I D h hae (by omega) (hws w (List.mem_cons_self ..)) t inc R hx
    obtain ⟨s', e', h1, h2, h3, h4, h5⟩ := ih s1 (pos + 1 + 1) a e1 I D1 inc1 R o1 (by omega) ub1
      (fun x hx => hws x (List.mem_cons_of_mem _ hx)) x1
    refine ⟨s', e', ?_, h2, by omega, (fun hc => by cases hc), fun _ => ?_⟩
    · rw [postToks_cons, pushAll_cons cfg s s pos sp _ (push_sp cfg hspace s pos),
        pushAll_cons cfg s s1 (pos + 1) (wtok w) _ p1]
      exact h1
    · cases t with
      | nil =>
        have := h4 rfl
        have := last1 rfl
        simp only [List.length_cons, List.length_nil]
        omega
      | cons w2 t2 =>
        have := h5 (by simp)
        simp only [List.length_cons] at this ⊢
        omega

theorem getLast_postToks : ∀ (l : List Word) (t : Tok), t ∈ (postToks l).getLast? → ∃ w' ∈ l, t = wtok w'
  | [], t, ht => by cases ht
  | q :: l, t, ht => by
    rw [postToks_cons, List.getLast?_cons_cons] at ht
    exact getLast_wordTokens q l t ht

/-- the end of the input in decimal mode: exactly one occurrence, whatever the threshold -/
theorem finalize_dec (cfg : ScanCfg) (s : Scanner) (a e : Nat) (I D : DS) (h : OpenDec a e I D s)
    (hIne : I.isEmpty = false) (hIm : I.marker = .none) (hDne : D.isEmpty = false) :
    ∃ s', s.finalize cfg = .ok s' ∧
      s'.tracker.queue = [⟨a, e, renderChars I ++ [cfg.lang.decMark] ++ renderChars D, .dec I.render D.render, false⟩] := by
  obtain ⟨hp, hq, hh, hms, hme⟩ := h
  have hn : s.parser.hasNumber = true := by
    rw [hp]; show (!I.isEmpty) = true; rw [hIne]; rfl
  have ho : s.parser.isOrdinal = false := by
    rw [hp]; show I.marker.isOrdinal = false; rw [hIm]; rfl
  obtain ⟨x, xs, hrr⟩ : ∃ x xs, D.render = x :: xs := by
    cases hrv : D.render with
    | nil => exact absurd hrv (render_ne_nil D hDne)
    | cons x xs => exact ⟨x, xs, rfl⟩
  have hf : s.parser.finish cfg.lang =
      .ok (renderChars I ++ [cfg.lang.decMark] ++ renderChars D, .dec I.render D.render) := by
    rw [hp]
    unfold Parser.finish
    dsimp only
    rw [hDne]
    show cfg.lang.formatDecimalW I D = _
    unfold Lang.formatDecimalW
    have hc : (I.render.isEmpty && D.render.isEmpty) = false := by rw [hrr]; simp
    rw [hc, if_neg Bool.false_ne_true]
  unfold Scanner.finalize
  rw [if_pos hn]
  unfold Scanner.numberEnd
  rw [hf, ho]
  dsimp only
  have hsm : cfg.small (.dec I.render D.render) = false := by rw [hrr]; rfl
  rw [hsm, Bool.and_false]
  refine ⟨_, rfl, ?_⟩
  show (s.tracker.numberEnd false _ _ false).queue = _
  rw [numberEnd_nohold _ _ _ _ hh]
  show s.tracker.queue ++ [_] = _
  rw [hq, hms, hme]
  rfl

/-- **a spoken decimal is one occurrence spanning the whole phrase** — any character classes, every threshold -/
theorem decimal_phrase (cfg : ScanCfg) (hl : LangAgree cfg.lang) (hsep : ∀ x y, cfg.sep x y = false)
    (hspace : cfg.cc.isWhitespace ' ' = true)
    (wi wf : List Word) (sepw : Word) (I I' D : DS) (e0 : Err)
    (hwi : ∀ w ∈ wi, Scanner.isSkipped cfg (wtok w) = false ∧ cfg.lang.isDecSep w = false)
    (hfirst : ∀ w ∈ wi.head?, (cfg.lang.apply w DS.new).1 = none)
    (hI : execGroup cfg.lang.apply wi = .ok I)
    (hsk : Scanner.isSkipped cfg (wtok sepw) = false) (hsepw : cfg.lang.isDecSep sepw = true)
    (hsepa : cfg.lang.apply sepw I = (some e0, I')) (hIne : I'.isEmpty = false) (hIm : I'.marker = .none)
    (hwf : ∀ w ∈ wf, Scanner.isSkipped cfg (wtok w) = false) (hwfne : wf ≠ [])
    (hD : execGroupFrom cfg.lang.applyDecimal wf DS.new false = .ok D) (hDne : D.isEmpty = false) :
    findNumbers cfg (wordTokens (wi ++ [sepw] ++ wf)) =
      .ok [⟨0, 2 * (wi ++ [sepw] ++ wf).length - 1,
        renderChars I' ++ [cfg.lang.decMark] ++ renderChars D, .dec I'.render D.render, false⟩] := by
  cases wi with
  | nil =>
    exfalso
    have : I = DS.new := by
      simp only [execGroup, execGroupFrom, Bool.false_eq_true, if_false] at hI
      cases hI; rfl
    subst this
    have hsame := hl.err_same sepw DS.new e0 (by rw [hsepa])
    rw [hsepa] at hsame
    have := hsame.isEmpty_eq
    rw [hIne] at this
    cases this
  | cons w0 rest =>
    obtain ⟨hs0, _⟩ := hwi w0 (List.mem_cons_self ..)
    have ha0 := hfirst w0 (by simp)
    have hrest : ∀ w ∈ rest, Scanner.isSkipped cfg (wtok w) = false ∧ cfg.lang.isDecSep w = false :=
      fun w hw => hwi w (List.mem_cons_of_mem _ hw)
    cases hr : cfg.lang.apply w0 DS.new with
    | mk r b0 =>
      rw [hr] at ha0
      have hr0 : r = none := ha0
      subst hr0
      unfold execGroup at hI
      rw [execGroupFrom_cons_ok hr] at hI
      -- the tokens
      have htoks : wordTokens (w0 :: rest ++ [sepw] ++ wf) =
          wtok w0 :: (postToks rest ++ (sp :: wtok sepw :: postToks wf)) := by
        rw [List.append_assoc, List.cons_append, wordTokens_cons, postToks_append, List.singleton_append, postToks_cons]
      -- the first word
      obtain ⟨s0, h0, o0⟩ := push_first cfg {} 0 (wtok w0) closed_init hs0 rfl b0 hr
      -- the other words of the integer part
      have hcore : ∀ t ∈ postToks rest, CoreTok cfg t := by
        intro t ht hs
        rcases mem_postToks ht with rfl | ⟨w, hw, rfl⟩
        · rw [skipped_sp cfg hspace] at hs; cases hs
        · exact ⟨rfl, (hrest w hw).2⟩
      have hwo : wordsOf cfg (postToks rest) = rest :=
        wordsOf_postToks cfg hspace rest (fun w hw => (hrest w hw).1)
      obtain ⟨s1, e1, h1, o1, le1, ub1, last1⟩ := run_open cfg hsep (postToks rest) s0 (0 + 1) 0 (0 + 1) b0 false I o0
        (by omega) (Nat.le_refl _) hcore (by rw [hwo]; exact hI)
      have he1 : e1 = 1 + 2 * rest.length := by
        rw [length_postToks] at ub1 last1
        cases rest with
        | nil => simp only [List.length_nil] at ub1 ⊢; omega
        | cons q l =>
          have := last1 (by simp [postToks_cons]) (by
            intro t ht
            obtain ⟨w', hw', rfl⟩ := getLast_postToks (q :: l) t ht
            exact (hrest w' hw').1)
          omega
      subst he1
      -- the separator
      obtain ⟨hp1, hq1, hh1, hms1, hme1⟩ := o1
      have hpsep : s1.parser.push cfg.lang (Scanner.testWord cfg s1 (wtok sepw)) =
          (some .incomplete, { int := I', dec := {}, isDec := true }) := by
        rw [testWord_nosep cfg hsep, hp1]
        show ({ int := I } : Parser).push cfg.lang sepw = _
        unfold Parser.push
        rw [if_neg (by simp), hsepa]
        dsimp only
        rw [if_pos (by rw [hIne, hIm, hsepw]; rfl)]
      have h2 := push_incomplete_eq cfg s1 (0 + 1 + (postToks rest).length + 1) (wtok sepw) hsk rfl _ hpsep
      have o2 : OpenDec 0 (1 + 2 * rest.length) I' {}
          ({ s1 with parser := { int := I', dec := {}, isDec := true }, previous := some (wtok sepw) } : Scanner) :=
        ⟨rfl, hq1, hh1, hms1, hme1⟩
      -- the fraction
      obtain ⟨s3, e3, h3, o3, _, _, he3⟩ := run_dec cfg hsep hspace wf _ (0 + 1 + (postToks rest).length + 1 + 1) 0
        (1 + 2 * rest.length) I' {} false D o2 (by omega) (by rw [length_postToks]; omega) hwf hD
      have he3' := he3 hwfne
      -- the end of the input
      obtain ⟨s4, h4, q4⟩ := finalize_dec cfg s3 0 e3 I' D o3 hIne hIm hDne
      have hall : Scanner.pushAll cfg {} (enumFrom 0 (wordTokens (w0 :: rest ++ [sepw] ++ wf))) = .ok s3 := by
        rw [htoks, pushAll_cons cfg {} s0 0 (wtok w0) _ h0, pushAll_append_ok cfg (postToks rest) _ s0 s1 _ h1,
          pushAll_cons cfg s1 s1 _ sp _ (push_sp cfg hspace s1 _), pushAll_cons cfg s1 _ _ (wtok sepw) _ h2]
        exact h3
      unfold findNumbers
      rw [hall]
      dsimp only
      rw [h4]
      dsimp only
      rw [q4, he3', length_postToks]
      have : 0 + 1 + 2 * rest.length + 1 + 1 + 2 * wf.length = 2 * (w0 :: rest ++ [sepw] ++ wf).length - 1 := by
        simp only [List.length_append, List.length_cons, List.length_nil]
        omega
      rw [this]

/-! ### in a sentence -/

theorem interp_err_same (l : Language) :
    (∀ w b e, (l.interp.apply w b).1 = some e → SameButFlags b (l.interp.apply w b).2) ∧
    (∀ w b e, (l.interp.applyDecimal w b).1 = some e → SameButFlags b (l.interp.applyDecimal w b).2) := by
  cases l
  · exact ⟨En.apply_err_same, En.applyDecimal_err_same⟩
  · exact ⟨Fr.apply_err_same, Fr.applyDecimal_err_same⟩
  · exact ⟨De.apply_err_same, De.applyDecimal_err_same⟩
  · exact ⟨It.apply_err_same, It.applyDecimal_err_same⟩
  · exact ⟨Es.apply_err_same, Es.applyDecimal_err_same⟩
  · exact ⟨Nl.apply_err_same, Nl.applyDecimal_err_same⟩
  · exact ⟨Pt.apply_err_same, Pt.applyDecimal_err_same⟩

/-- the configuration of `replace_numbers_in_text` -/
abbrev textCfg (cc : CharClasses) (l : Language) (thr : Nat → Bool) : ScanCfg :=
  { lang := l.interp, cc := cc, sep := noSep, thrLt := thr }

/-- refused words after a phrase are the same as the end of the input; refused words before it shift the spans —
for every threshold -/
theorem findNumbers_context {cc : CharClasses} (L : TextLaws cc) (l : Language) (thr : Nat → Bool)
    (hl : LangAgree l.interp) (pre ws post : List Word) (hne : ws ≠ [])
    (hpre : ∀ w ∈ pre, l.interp.Rejects w) (hpost : ∀ w ∈ post, l.interp.Rejects w) :
    ∃ ob, findNumbers (textCfg cc l thr) (wordTokens ws) = .ok ob ∧
      findNumbers (textCfg cc l thr) (wordTokens (pre ++ ws ++ post)) = .ok (ob.map (shiftOcc (2 * pre.length))) := by
  have hq : ∀ t ∈ postToks post, ResetText.Quiet (textCfg cc l thr) t := by
    intro t ht
    rcases mem_postToks ht with rfl | ⟨w, hw, rfl⟩
    · exact Or.inl (skipped_sp _ L.space_ws)
    · exact Or.inr (Or.inr ⟨ResetText.rejectsSame_of_rejects l.interp (interp_err_same l).1 (interp_err_same l).2 w
        (hpost w hw), Or.inl (fun _ => rfl)⟩)
  rw [wordTokens_post (pre ++ ws) post (by simp [hne]), ResetText.findNumbers_quiet_suffix _ _ _ hq]
  exact SepAlone.idle_prefix_words (textCfg cc l thr) hl L.space_ws pre ws
    (fun w hw => Or.inr (Or.inr (not_accepted_of_rejects _ _ (hpre w hw))))

/-- the builder whose text is the decimal digits of `n` bears no marker and renders as the digits of `n` -/
theorem format_cardinal (l : Lang) (ds : DS) (n : Nat) (val : Value)
    (hf : l.formatW ds = .ok (decChars n, val)) : ds.marker = .none ∧ ds.render = decDigits n := by
  unfold Lang.formatW at hf
  split at hf
  · cases hf
  · cases hm : ds.marker with
    | none =>
      rw [hm] at hf
      dsimp only at hf
      injection hf with hf
      injection hf with h1 h2
      exact ⟨rfl, C01Sent.map_digitChar_inj _ _ (C01Sent.decDigits_lt n) h1⟩
    | fraction m =>
      rw [hm] at hf
      dsimp only at hf
      injection hf with hf
      injection hf with h1 h2
      have := C01Sent.decChars_dig n '/' (by rw [← h1]; simp)
      exact absurd this (by decide)
    | ordinal m =>
      rw [hm] at hf
      dsimp only at hf
      injection hf with hf
      injection hf with h1 h2
      obtain ⟨c, t, hc, hd⟩ := C01Sent.mk_last m
      have hmem : c ∈ decChars n := by
        rw [← h1, List.mem_append]
        right
        have : c ∈ m.chars.reverse := by rw [hc]; exact List.mem_cons_self
        exact List.mem_reverse.mp this
      rw [C01Sent.decChars_dig n c hmem] at hd
      cases hd

/-- **a spoken decimal in a sentence**: the integer part validates to the digits of `n`, the separator word, a
fraction that `apply_decimal` reads as the digits `ds` — one occurrence, for any character classes under `TextLaws`
and EVERY threshold -/
theorem decimal_sentence {cc : CharClasses} (L : TextLaws cc) (l : Language) (thr : Nat → Bool)
    (hmem : l.interp ∈ allLangs) (hl : LangAgree l.interp)
    (wi wf : List Word) (sepw : Word) (n : Nat) (ds : List Nat) (D : DS)
    (hvalI : text2digitsWords l.interp wi = .ok (decChars n))
    (hfirst : ∀ w ∈ wi.head?, (l.interp.apply w DS.new).1 = none)
    (hsepw : l.interp.isDecSep sepw = true) (hwfne : wf ≠ [])
    (hD : execGroupFrom l.interp.applyDecimal wf DS.new false = .ok D) (hDne : D.isEmpty = false)
    (hDr : D.render = ds)
    (htok : ∀ w ∈ wi ++ [sepw] ++ wf, isTokWord cc w = true)
    (pre post : List Word) (hpre : ∀ w ∈ pre, l.interp.Rejects w) (hpost : ∀ w ∈ post, l.interp.Rejects w) :
    findNumbers (textCfg cc l thr) (wordTokens (pre ++ (wi ++ [sepw] ++ wf) ++ post)) =
      .ok [⟨2 * pre.length, 2 * pre.length + (2 * (wi ++ [sepw] ++ wf).length - 1),
        decChars n ++ [l.interp.decMark] ++ ds.map digitChar, .dec (decDigits n) ds, false⟩] := by
  obtain ⟨I, v, hI, hIne, hf⟩ := text2digitsWords_ok hvalI
  obtain ⟨hIm, hIr⟩ := format_cardinal l.interp I n v hf
  obtain ⟨e0, he0, _⟩ := sep_rejected_builtin l.interp hmem sepw hsepw I
  have hsame := hl.err_same sepw I e0 he0
  generalize hI' : (l.interp.apply sepw I).2 = I' at hsame
  have hsepa : l.interp.apply sepw I = (some e0, I') := by
    rw [← hI', ← he0]
  obtain ⟨s1, s2, s3, s4⟩ := hsame
  have hI'ne : I'.isEmpty = false := by
    unfold DS.isEmpty at hIne ⊢; rw [s1, s2]; exact hIne
  have hI'm : I'.marker = .none := by rw [s4]; exact hIm
  have hI'r : I'.render = decDigits n := by
    unfold DS.render at hIr ⊢; rw [s1, s2]; exact hIr
  have hsk : ∀ w ∈ wi ++ [sepw] ++ wf, Scanner.isSkipped (textCfg cc l thr) (wtok w) = false :=
    fun w hw => not_skipped_of_tokWord (textCfg cc l thr) L w (htok w hw)
  have hb := decimal_phrase (textCfg cc l thr) hl (fun _ _ => rfl) L.space_ws wi wf sepw I I' D e0
    (fun w hw => ⟨hsk w (by simp [hw]), nosep_of_valid_builtin l.interp hmem wi _ hvalI w hw⟩) hfirst hI
    (hsk sepw (by simp)) hsepw hsepa hI'ne hI'm (fun w hw => hsk w (by simp [hw])) hwfne hD hDne
  obtain ⟨ob, h1, h2⟩ := findNumbers_context L l thr hl pre (wi ++ [sepw] ++ wf) post (by simp) hpre hpost
  rw [hb] at h1
  cases h1
  rw [h2]
  have e1 : renderChars I' = decChars n := by unfold renderChars decChars; rw [hI'r]
  have e2 : renderChars D = ds.map digitChar := by unfold renderChars; rw [hDr]
  show Except.ok [(⟨0 + 2 * pre.length, 2 * (wi ++ [sepw] ++ wf).length - 1 + 2 * pre.length, _, _, _⟩ : Occ)] = _
  rw [Nat.zero_add, Nat.add_comm (2 * (wi ++ [sepw] ++ wf).length - 1), e1, e2, hI'r, hDr]

/-- **the text-level statement for a spoken decimal** — any character classes, EVERY threshold; `hann`: the
annotation pass leaves the tokens alone -/
theorem replaceText_decimal {cc : CharClasses} (L : TextLaws cc) (A : AlphaLaws cc) (l : Language) (thr : Nat → Bool)
    (hmem : l.interp ∈ allLangs) (hl : LangAgree l.interp)
    (wi wf : List Word) (sepw : Word) (n : Nat) (ds : List Nat) (D : DS)
    (hvalI : text2digitsWords l.interp wi = .ok (decChars n))
    (hfirst : ∀ w ∈ wi.head?, (l.interp.apply w DS.new).1 = none)
    (hsepw : l.interp.isDecSep sepw = true) (hwfne : wf ≠ [])
    (hD : execGroupFrom l.interp.applyDecimal wf DS.new false = .ok D) (hDne : D.isEmpty = false)
    (hDr : D.render = ds)
    (hover : ∀ w ∈ wi ++ [sepw] ++ wf, isOver w = true)
    (pre post : List Word) (hpre : ∀ w ∈ pre, Ordinary cc l.interp w) (hpost : ∀ w ∈ post, Ordinary cc l.interp w)
    (hann : l.annotate cc (wordTokens (pre ++ (wi ++ [sepw] ++ wf) ++ post)) =
      wordTokens (pre ++ (wi ++ [sepw] ++ wf) ++ post)) :
    replaceText cc l thr (joinWords (pre ++ (wi ++ [sepw] ++ wf) ++ post)) =
      .ok (joinWords (pre ++ [decChars n ++ [l.interp.decMark] ++ ds.map digitChar] ++ post)) := by
  have hplain := plain_of_parts L A l.interp pre (wi ++ [sepw] ++ wf) post hpre hover hpost
  refine replaceText_of_scan L l thr pre (wi ++ [sepw] ++ wf) post (by simp)
    (decChars n ++ [l.interp.decMark] ++ ds.map digitChar) (.dec (decDigits n) ds) false hplain hann ?_
  exact decimal_sentence L l thr hmem hl wi wf sepw n ds D hvalI hfirst hsepw hwfne hD hDne hDr
    (fun w hw => isPlainWord_tok (isPlainWord_of_over L A (hover w hw))) pre post
    (fun w hw => (hpre w hw).1) (fun w hw => (hpost w hw).1)

end T2N.TextCor
