/-
  T2N.Lemmas.TextCor.DecIt — Italian: text-level corollary of C05 (spoken decimal numbers).
  The fraction is `zero … zero` followed by ONE spelled cardinal (the digits after the leading zeros, at most 12).
-/
import T2N.Lemmas.TextCor.Decimal
import T2N.Lemmas.TextCor.It
import T2N.Lemmas.ExtIt
import T2N.Props.C01.Text
import T2N.Props.C05

namespace T2N.TextCor.It
open T2N T2N.Lift T2N.Spec T2N.C01Text T2N.TextCor

/-! ### the fraction: its run, its words -/

/-- a builder that renders at least one digit is not empty -/
theorem notEmpty_of_render (D : DS) (h : D.render ≠ []) : D.isEmpty = false := by
  cases he : D.isEmpty with
  | false => rfl
  | true =>
    exfalso
    apply h
    unfold DS.isEmpty at he
    rw [Bool.and_eq_true] at he
    obtain ⟨h1, h2⟩ := he
    have hr : D.rbuf = [] := List.isEmpty_iff.mp h1
    have hz : D.lz = 0 := by simpa using h2
    unfold DS.render
    rw [hr, hz]
    rfl

/-- the fraction as a run of `apply_decimal` (which IS `apply` in Italian) -/
theorem fraction_run (v : Var) (ds : List Nat) (hds : ds ≠ []) (h9 : ∀ d ∈ ds, d < 10)
    (hlen : (ds.dropWhile (· == 0)).length ≤ 12) :
    ∃ D, execGroupFrom T2N.It.lang.applyDecimal (Spec.It.fraction v ds) DS.new false = .ok D ∧
      D.isEmpty = false ∧ D.render = ds := by
  obtain ⟨D, hD, hDr⟩ := T2N.ExtIt.fraction_run v ds hds h9 hlen
  exact ⟨D, hD, notEmpty_of_render D (by rw [hDr]; exact hds), hDr⟩

/-- a non-empty fraction is spelled with at least one word -/
theorem fraction_ne_nil (v : Var) (ds : List Nat) (hds : ds ≠ []) (h9 : ∀ d ∈ ds, d < 10)
    (hlen : (ds.dropWhile (· == 0)).length ≤ 12) : Spec.It.fraction v ds ≠ [] := by
  intro he
  obtain ⟨D, hD, hDne, _⟩ := fraction_run v ds hds h9 hlen
  rw [he, execGroupFrom, if_neg Bool.false_ne_true] at hD
  injection hD with hD
  rw [← hD] at hDne
  cases hDne

/-- every word of the fraction is over the alphabet -/
theorem fraction_over (v : Var) (ds : List Nat) (hlen : (ds.dropWhile (· == 0)).length ≤ 12) :
    ∀ w ∈ Spec.It.fraction v ds, isOver w = true := by
  intro w hw
  rw [T2N.ExtIt.fraction_eq, List.mem_append] at hw
  rcases hw with hw | hw
  · rw [(List.mem_replicate.mp hw).2]; decide
  · by_cases he : (ds.dropWhile (· == 0)).isEmpty = true
    · rw [if_pos he] at hw
      cases hw
    · rw [if_neg he, if_pos hlen] at hw
      exact C01Text.It.cardinal_over _ _ w hw

/-! ### the theorem -/

/-- C05 (it), text level: every threshold -/
theorem text_c05 {cc : CharClasses} (L : TextLaws cc) (A : AlphaLaws cc) (thr : Nat → Bool)
    (v : Var) (n : Nat) (ds : List Nat) (h : n < 10 ^ 12) (hds : ds ≠ []) (h9 : ∀ d ∈ ds, d < 10)
    (hlen : (ds.dropWhile (· == 0)).length ≤ 12)
    (pre post : List Word) (hpre : ∀ w ∈ pre, Ordinary cc T2N.It.lang w) (hpost : ∀ w ∈ post, Ordinary cc T2N.It.lang w) :
    replaceText cc .italian thr
        (joinWords (pre ++ (Spec.It.cardinal v n ++ [Spec.It.sepWord] ++ Spec.It.fraction v ds) ++ post)) =
      .ok (joinWords (pre ++ [decChars n ++ [Spec.It.decMark] ++ ds.map digitChar] ++ post)) := by
  have hval := T2N.C01.C01_validate_it_all v n h
  obtain ⟨D, hD, hDne, hDr⟩ := fraction_run v ds hds h9 hlen
  refine replaceText_decimal L A .italian thr (by simp [Language.interp, allLangs]) T2N.C07.C07_langAgree_it
    (Spec.It.cardinal v n) (Spec.It.fraction v ds) Spec.It.sepWord n ds D hval
    (first_none_of_valid _ _ _ hval (C01Sent.It.first v n h)) (by decide)
    (fraction_ne_nil v ds hds h9 hlen) hD hDne hDr ?_ pre post hpre hpost rfl
  intro w hw
  rw [List.mem_append, List.mem_append] at hw
  rcases hw with (hw | hw) | hw
  · exact C01Text.It.cardinal_over v n w hw
  · rw [List.mem_singleton.mp hw]; decide
  · exact fraction_over v ds hlen w hw

/-! ### the hypotheses are satisfiable -/

/-- `costa tre virgola zero sette euro` ↦ `costa 3,07 euro`, whatever the threshold (here: everything is "small") -/
example : replaceText simpleCC .italian (fun _ => true)
    (joinWords ([w!"costa"] ++ (Spec.It.cardinal (fun _ => 0) 3 ++ [Spec.It.sepWord] ++
      Spec.It.fraction (fun _ => 0) [0, 7]) ++ [w!"euro"])) =
    .ok (joinWords ([w!"costa"] ++ [decChars 3 ++ [','] ++ w!"07"] ++ [w!"euro"])) :=
  text_c05 simple_textLaws simple_alphaLaws _ _ 3 [0, 7] (by decide) (by decide) (by decide) (by decide) _ _
    (fun w hw => by
      have : w = w!"costa" := by simpa using hw
      subst this
      exact ⟨Lang.rejects_of_apply T2N.It.lang _ (fun _ => ⟨.nan, rfl, by intro h; cases h⟩)
        (fun _ => ⟨.nan, rfl, by intro h; cases h⟩) rfl, by decide⟩)
    (fun w hw => by
      have : w = w!"euro" := by simpa using hw
      subst this
      exact ⟨Lang.rejects_of_apply T2N.It.lang _ (fun _ => ⟨.nan, rfl, by intro h; cases h⟩)
        (fun _ => ⟨.nan, rfl, by intro h; cases h⟩) rfl, by decide⟩)

/-- the same sentence as plain strings -/
example : T2N.C01.C01_text_is (replaceText simpleCC .italian (fun _ => true) "costa tre virgola zero sette euro".toList)
    "costa 3,07 euro" = true := by decide +kernel

end T2N.TextCor.It
