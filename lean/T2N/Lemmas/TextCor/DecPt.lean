/-
  T2N.Lemmas.TextCor.DecPt — Portuguese: text-level corollary C05 (spoken decimal numbers).
  The integer part validates (`C01_validate_pt_all`), the fraction is a run of the fraction builder
  (`ExtPt.frac_run`), every word of the phrase is over the alphabet, the Portuguese interpreter has no annotation pass.
-/
import T2N.Lemmas.TextCor.Decimal
import T2N.Lemmas.TextCor.Pt
import T2N.Lemmas.ExtPt
import T2N.Props.C01.Text
import T2N.Props.C05

namespace T2N.TextCor.Pt
open T2N T2N.Lift T2N.Spec T2N.C01Text T2N.TextCor

/-! ### the words of a spelled fraction -/

/-- every word of a spelled Portuguese fraction (`zero` … `zero` + one cardinal) is over the alphabet -/
theorem fraction_over (v : Var) (ds : List Nat) : ∀ w ∈ Spec.Pt.fraction v ds, isOver w = true := by
  intro w hw
  unfold Spec.Pt.fraction at hw
  dsimp only at hw
  rcases List.mem_append.mp hw with hw | hw
  · obtain ⟨_, _, rfl⟩ := List.mem_map.mp hw
    decide
  · split at hw
    · cases hw
    · exact C01Text.Pt.cardinal_over v _ w hw

/-- the fraction as a run of `apply_decimal` (which is `apply` in Portuguese) -/
theorem fraction_run (v : Var) (ds : List Nat) (hds : ds ≠ []) (h9 : ∀ d ∈ ds, d < 10)
    (hfr : Spec.Pt.digitsValue (ds.dropWhile (· == 0)) < 10 ^ 12) :
    ∃ D, execGroupFrom T2N.Pt.lang.applyDecimal (Spec.Pt.fraction v ds) DS.new false = .ok D ∧
      D.isEmpty = false ∧ D.render = ds :=
  T2N.ExtPt.frac_run v ds hds h9 hfr

/-- a non-empty fraction is spelled with at least one word -/
theorem fraction_ne_nil (v : Var) (ds : List Nat) (hds : ds ≠ []) (h9 : ∀ d ∈ ds, d < 10)
    (hfr : Spec.Pt.digitsValue (ds.dropWhile (· == 0)) < 10 ^ 12) : Spec.Pt.fraction v ds ≠ [] := by
  obtain ⟨D, hD, hDne, _⟩ := T2N.ExtPt.frac_run v ds hds h9 hfr
  intro e
  rw [e, execGroupFrom, if_neg Bool.false_ne_true] at hD
  injection hD with hD
  rw [← hD] at hDne
  exact absurd hDne (by decide)

/-! ### the theorem -/

/-- C05 (pt), text level: every threshold -/
theorem text_c05 {cc : CharClasses} (L : TextLaws cc) (A : AlphaLaws cc) (thr : Nat → Bool)
    (v : Var) (n : Nat) (ds : List Nat) (h : n < 10 ^ 12) (hds : ds ≠ []) (h9 : ∀ d ∈ ds, d < 10)
    (hfr : Spec.Pt.digitsValue (ds.dropWhile (· == 0)) < 10 ^ 12)
    (pre post : List Word) (hpre : ∀ w ∈ pre, Ordinary cc T2N.Pt.lang w) (hpost : ∀ w ∈ post, Ordinary cc T2N.Pt.lang w) :
    replaceText cc .portuguese thr
        (joinWords (pre ++ (Spec.Pt.cardinal v n ++ [Spec.Pt.sepWord] ++ Spec.Pt.fraction v ds) ++ post)) =
      .ok (joinWords (pre ++ [decChars n ++ [Spec.Pt.decMark] ++ ds.map digitChar] ++ post)) := by
  have hval := T2N.C01.C01_validate_pt_all v n h
  obtain ⟨D, hD, hDne, hDr⟩ := fraction_run v ds hds h9 hfr
  have hover : ∀ w ∈ Spec.Pt.cardinal v n ++ [Spec.Pt.sepWord] ++ Spec.Pt.fraction v ds, isOver w = true := by
    intro w hw
    rw [List.mem_append, List.mem_append] at hw
    rcases hw with (hw | hw) | hw
    · exact C01Text.Pt.cardinal_over v n w hw
    · rw [List.mem_singleton.mp hw]; decide
    · exact fraction_over v ds w hw
  exact replaceText_decimal L A .portuguese thr (by simp [Language.interp, allLangs]) T2N.C07.C07_langAgree_pt
    (Spec.Pt.cardinal v n) (Spec.Pt.fraction v ds) Spec.Pt.sepWord n ds D hval
    (first_none_of_valid _ _ _ hval (fun w _ => C01Sent.Pt.first w)) rfl
    (fraction_ne_nil v ds hds h9 hfr) hD hDne hDr hover pre post hpre hpost rfl

/-- C05 (pt), text level, fractions of at most 12 digits -/
theorem text_c05_len {cc : CharClasses} (L : TextLaws cc) (A : AlphaLaws cc) (thr : Nat → Bool)
    (v : Var) (n : Nat) (ds : List Nat) (h : n < 10 ^ 12) (hds : ds ≠ []) (h9 : ∀ d ∈ ds, d < 10)
    (hlen : ds.length ≤ 12)
    (pre post : List Word) (hpre : ∀ w ∈ pre, Ordinary cc T2N.Pt.lang w) (hpost : ∀ w ∈ post, Ordinary cc T2N.Pt.lang w) :
    replaceText cc .portuguese thr
        (joinWords (pre ++ (Spec.Pt.cardinal v n ++ [Spec.Pt.sepWord] ++ Spec.Pt.fraction v ds) ++ post)) =
      .ok (joinWords (pre ++ [decChars n ++ [Spec.Pt.decMark] ++ ds.map digitChar] ++ post)) :=
  text_c05 L A thr v n ds h hds h9 (T2N.ExtPt.frac_ok_of_length ds h9 hlen) pre post hpre hpost

/-! ### the hypotheses are satisfiable -/

/-- `custa três vírgula zero sete euros` → `custa 3,07 euros`, whatever the threshold (here: everything is "small") -/
example : replaceText simpleCC .portuguese (fun _ => true)
    (joinWords ([w!"custa"] ++ (Spec.Pt.cardinal (fun _ => 0) 3 ++ [Spec.Pt.sepWord] ++
      Spec.Pt.fraction (fun _ => 0) [0, 7]) ++ [w!"euros"])) =
    .ok (joinWords ([w!"custa"] ++ [decChars 3 ++ [','] ++ w!"07"] ++ [w!"euros"])) :=
  text_c05_len simple_textLaws simple_alphaLaws _ _ 3 [0, 7] (by decide) (by decide) (by decide) (by decide) _ _
    (fun w hw => by
      have : w = w!"custa" := by simpa using hw
      subst this
      exact ⟨T2N.C01.C01_pt_rejects_of_nan _ (by decide) (by decide) (by decide), by decide⟩)
    (fun w hw => by
      have : w = w!"euros" := by simpa using hw
      subst this
      exact ⟨T2N.C01.C01_pt_rejects_of_nan _ (by decide) (by decide) (by decide), by decide⟩)

/-- the same sentence as plain strings -/
example : T2N.C01.C01_text_is (replaceText simpleCC .portuguese (fun _ => true)
    "custa três vírgula zero sete euros".toList) "custa 3,07 euros" = true := by decide +kernel

end T2N.TextCor.Pt
