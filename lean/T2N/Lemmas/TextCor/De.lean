/-
  T2N.Lemmas.TextCor.De — German: the text-level corollaries of C16 (leading zeros) and C04 (ordinals).

  * every word of a spelled ordinal is a compound of atoms made of letters (`ordinal_over`): the atoms of the
    cardinal (`C01Text.De.cardinalAtoms_G`) with the last one replaced by its ordinal stem plus the declension
    ending (`stem_GW`, `mapLast_G`);
  * the first word of a spelled ordinal is accepted by the fresh builder (`ordinal_first`): either the ordinal is
    one word (then it validates alone), or its first word is the first word of the cardinal
    (`ExtDe.render_last`, `C01Sent.De.cardinal_first`);
  * `text_c16`, `text_c04`.
-/
import T2N.Lemmas.TextCor
import T2N.Lemmas.C01Text.De
import T2N.Props.C01.Text
import T2N.Props.C04
import T2N.Props.C16
import T2N.Lemmas.ExtDeO
import T2N.Lemmas.C01Sent

namespace T2N.TextCor.De
open T2N T2N.Lift T2N.Spec T2N.C01Text T2N.TextCor
open T2N.C01Text.De (GW G GW_letters GW_ne render_over cardinalAtoms_G)
open T2N.ExtDe (mapLast mapLast_cons_cons mapLast_id stemOf ordVar ordinal_eq einVar einVar_ein cardinalAtoms_einVar
  render_last opensInit_mapLast)

/-! ### every word of a spelled ordinal is over the alphabet -/

theorem GW_append {a b : Word} (ha : GW a = true) (hb : isLetters b = true) : GW (a ++ b) = true := by
  have hl : isLetters (a ++ b) = true := isLetters_append (GW_letters ha) hb
  have hne : a ++ b ≠ [] := fun e => GW_ne ha (List.append_eq_nil_iff.mp e).1
  unfold GW
  rw [hl]
  cases hab : a ++ b with
  | nil => exact absurd hab hne
  | cons c cs => rfl

theorem ordStems_GW : ∀ r, r < 20 → r ≠ 0 → GW (Spec.De.ordUnitStems.getD r []) = true := by decide

theorem ordStems_getD (r : Nat) (w : Word) (h : r < 20) :
    Spec.De.ordUnitStems.getD r w = Spec.De.ordUnitStems.getD r [] := by
  have hl : r < Spec.De.ordUnitStems.length := h
  rw [List.getD_eq_getElem?_getD, List.getD_eq_getElem?_getD, List.getElem?_eq_getElem hl]
  rfl

/-- the ordinal stem of a word made of letters is made of letters -/
theorem stem_GW (v : Var) (r : Nat) (w : Word) (hw : GW w = true) : GW (stemOf v r w) = true := by
  unfold stemOf
  by_cases h1 : (r == 0 || decide (r ≥ 20)) = true
  · rw [if_pos h1]
    exact GW_append hw (by decide)
  · rw [if_neg h1]
    have hr : r ≠ 0 ∧ r < 20 := by
      simp only [Bool.or_eq_true, beq_iff_eq, decide_eq_true_eq, not_or] at h1
      omega
    split
    · decide
    · rw [ordStems_getD r w hr.2]
      exact ordStems_GW r hr.2 hr.1

theorem endings_letters : ∀ e ∈ Spec.De.inflEndings, isLetters e = true := by decide

theorem mapLast_G (f : Word → Word) (hf : ∀ w, GW w = true → GW (f w) = true) :
    ∀ A : List Spec.De.Atom, A.all G = true → (mapLast f A).all G = true
  | [], _ => rfl
  | [a], h => by
    rw [List.all_cons, Bool.and_eq_true] at h
    show (GW (f a.w) && true) = true
    rw [hf a.w h.1]
    rfl
  | a :: b :: rest, h => by
    rw [List.all_cons, Bool.and_eq_true] at h
    rw [mapLast_cons_cons, List.all_cons, h.1, mapLast_G f hf (b :: rest) h.2]
    rfl

theorem ordinal_allOver (v : Var) (n : Nat) (e : Word) (he : e ∈ Spec.De.inflEndings) :
    allOver (Spec.De.ordinal v n e) = true := by
  by_cases hm : n = 1000000
  · subst hm
    unfold Spec.De.ordinal
    rw [if_pos (by decide)]
    simp only [Spec.De.inflEndings, List.mem_cons, List.not_mem_nil, or_false] at he
    rcases he with rfl | rfl | rfl | rfl | rfl <;> cases flag v (cp 0 11) <;> decide
  · rw [ordinal_eq v n e hm]
    refine render_over _ _ [] (mapLast_G _ ?_ _ (cardinalAtoms_G _ n)) isLetters_nil
    intro w hw
    exact GW_append (stem_GW v _ w hw) (endings_letters e he)

/-- every word of a spelled German ordinal is over the alphabet -/
theorem ordinal_over (v : Var) (n : Nat) (e : Word) (he : e ∈ Spec.De.inflEndings) :
    ∀ w ∈ Spec.De.ordinal v n e, isOver w = true :=
  allOver_mem (ordinal_allOver v n e he)

/-! ### the first word of a spelled ordinal -/

theorem first_of_le1 (l : Lang) (X : List Word) (d : Word) (hl : X.length ≤ 1)
    (hval : text2digitsWords l X = .ok d) : ∀ w ∈ X.head?, (l.apply w DS.new).1 = none := by
  match X, hl, hval with
  | [], _, _ => intro w hw; cases hw
  | [x], _, hval => exact first_of_single l x d hval

/-- the first word of a spelled ordinal is accepted by the fresh builder -/
theorem ordinal_first (v : Var) (n : Nat) (e : Word) (hn : 0 < n) (h : n ≤ 10 ^ 6) (d : Word)
    (hval : text2digitsWords T2N.De.lang (Spec.De.ordinal v n e) = .ok d) :
    ∀ w ∈ (Spec.De.ordinal v n e).head?, (T2N.De.lang.apply w DS.new).1 = none := by
  by_cases hm : n = 1000000
  · subst hm
    have e1 : Spec.De.ordinal v 1000000 e =
        [(if flag v (cp 0 11) then w!"ein" else []) ++ w!"millionst" ++ e] := by
      unfold Spec.De.ordinal
      rw [if_pos (by decide)]
    rw [e1] at hval ⊢
    exact first_of_single _ _ d hval
  · have h6 : n < 10 ^ 6 := by omega
    have hcf := C01Sent.De.cardinal_first (einVar (ordVar v n)) n (Nat.lt_trans h6 (by decide)) (einVar_ein _)
    have hc : Spec.De.cardinal (einVar (ordVar v n)) n =
        Spec.De.render (Spec.De.level v) (Spec.De.cardinalAtoms (ordVar v n) n) [] := by
      unfold Spec.De.cardinal
      rw [if_neg (by simp; omega), cardinalAtoms_einVar _ n h6]
      rfl
    rw [hc] at hcf
    rw [ordinal_eq v n e hm] at hval ⊢
    generalize (fun w => stemOf v (n % 100) w ++ e) = F at hval ⊢
    generalize Spec.De.cardinalAtoms (ordVar v n) n = A at hval hcf ⊢
    generalize Spec.De.level v = L at hval hcf ⊢
    by_cases hA : A = []
    · subst hA
      intro w hw
      cases hw
    · obtain ⟨A1, P, pre, cur', _, _, ho, _, hren⟩ := render_last L A [] hA
      have h1 := hren id
      rw [mapLast_id, mapLast_id] at h1
      rw [hren F] at hval ⊢
      rw [h1] at hcf
      cases pre with
      | nil =>
        rw [List.nil_append] at hval ⊢
        exact first_of_le1 _ _ d
          (C01Sent.De.render_le1 L (mapLast F P) cur' (opensInit_mapLast L F P ho)) hval
      | cons p t =>
        intro w hw
        exact hcf w (by simpa using hw)

/-! ### the two text-level theorems -/

/-- C16 (de), text level (the `ein Million / ein Milliarde` variants, as everywhere) -/
theorem text_c16 {cc : CharClasses} (L : TextLaws cc) (A : AlphaLaws cc) (thr : Nat → Bool)
    (v : Var) (k n : Nat) (hn : 0 < n) (h : n < 10 ^ 12) (hv : flag v (cp 2 5) = true ∧ flag v (cp 3 5) = true)
    (hthr : k = 0 → n < 10 → thr n = false)
    (pre post : List Word) (hpre : ∀ w ∈ pre, Ordinary cc T2N.De.lang w) (hpost : ∀ w ∈ post, Ordinary cc T2N.De.lang w) :
    replaceText cc .german thr
        (joinWords (pre ++ (List.replicate k Spec.De.zeroWord ++ Spec.De.cardinal v n) ++ post)) =
      .ok (joinWords (pre ++ [List.replicate k '0' ++ decChars n] ++ post)) := by
  by_cases hk : k = 0
  · subst hk
    exact T2N.C01.C01_text_de L A thr v n h hv (hthr rfl) pre post hpre hpost
  · exact replaceText_zeros L A .german thr (by simp [Language.interp, allLangs]) T2N.C07.C07_langAgree_de
      Spec.De.zeroWord (Spec.De.cardinal v n) k n (by omega) (T2N.C16.C16_validate_de_all v k n hn h hv)
      (by decide) (by decide) (C01Text.De.cardinal_over v n) pre post hpre hpost rfl

/-- C04 (de), text level: whatever the speller produces (same hypotheses as `T2N.C04.C04_speller_de_all`) -/
theorem text_c04 {cc : CharClasses} (L : TextLaws cc) (A : AlphaLaws cc) (thr : Nat → Bool)
    (v : Var) (n i : Nat) (ws : List Word) (mk : Word) (hn : 0 < n) (h : n ≤ 10 ^ 6)
    (hs : Spec.De.speller.ordinal v n i = some (ws, mk)) (hthr : thr n = false)
    (pre post : List Word) (hpre : ∀ w ∈ pre, Ordinary cc T2N.De.lang w) (hpost : ∀ w ∈ post, Ordinary cc T2N.De.lang w) :
    replaceText cc .german thr (joinWords (pre ++ ws ++ post)) = .ok (joinWords (pre ++ [decChars n ++ mk] ++ post)) := by
  have hval := T2N.C04.C04_speller_de_all v n i ws mk hn h hs
  have hs' : (if (n == 0 || decide (n > 1000000)) = true then none
      else match Spec.De.inflEndings[i]? with
        | some e => some (Spec.De.ordinal v n e, w!".")
        | none => none) = some (ws, mk) := hs
  rw [if_neg (by simp; omega)] at hs'
  cases hi : Spec.De.inflEndings[i]? with
  | none => rw [hi] at hs'; exact absurd hs' (by simp)
  | some e =>
    rw [hi] at hs'
    have he : e ∈ Spec.De.inflEndings := List.mem_of_getElem? hi
    have e1 : Spec.De.ordinal v n e = ws := congrArg Prod.fst (Option.some.inj hs')
    have e2 : w!"." = mk := congrArg Prod.snd (Option.some.inj hs')
    subst e1 e2
    exact replaceText_ordinal L A .german thr (by simp [Language.interp, allLangs]) T2N.C07.C07_langAgree_de
      (Spec.De.ordinal v n e) n w!"." (by decide) hthr hval (ordinal_first v n e hn h _ hval)
      (ordinal_over v n e he) pre post hpre hpost rfl

/-! ### the hypotheses are satisfiable -/

theorem ordinary_simple (w : Word) (hr : ∀ b, (T2N.De.lang.apply w b).1 = some .nan)
    (hd : ∀ b, (T2N.De.lang.applyDecimal w b).1 = some .nan) (hsep : T2N.De.lang.isDecSep w = false)
    (hp : isPlainWord simpleCC w = true) : Ordinary simpleCC T2N.De.lang w :=
  ⟨Lang.rejects_of_apply T2N.De.lang _ (fun b => ⟨.nan, hr b, by intro h; cases h⟩)
    (fun b => ⟨.nan, hd b, by intro h; cases h⟩) hsep, hp⟩

/-- `zimmer null null sieben bitte`, whatever the threshold (here: everything is "small") -/
example : replaceText simpleCC .german (fun _ => true)
    (joinWords ([w!"zimmer"] ++ (List.replicate 2 Spec.De.zeroWord ++ Spec.De.cardinal (fun _ => 1) 7) ++ [w!"bitte"])) =
    .ok (joinWords ([w!"zimmer"] ++ [List.replicate 2 '0' ++ decChars 7] ++ [w!"bitte"])) :=
  text_c16 simple_textLaws simple_alphaLaws _ _ 2 7 (by decide) (by decide) (by decide) (fun h0 => by cases h0) _ _
    (fun w hw => by
      have : w = w!"zimmer" := by simpa using hw
      subst this
      exact ordinary_simple _ (fun _ => rfl) (fun _ => rfl) rfl (by decide))
    (fun w hw => by
      have : w = w!"bitte" := by simpa using hw
      subst this
      exact ordinary_simple _ (fun _ => rfl) (fun _ => rfl) rfl (by decide))

/-- `der dreiundzwanzigste tag` -/
example : replaceText simpleCC .german zeroThr
    (joinWords ([w!"der"] ++ [w!"dreiundzwanzigste"] ++ [w!"tag"])) =
    .ok (joinWords ([w!"der"] ++ [decChars 23 ++ w!"."] ++ [w!"tag"])) :=
  text_c04 simple_textLaws simple_alphaLaws zeroThr (fun _ => 0) 23 0 _ _ (by decide) (by decide) (by decide) rfl _ _
    (fun w hw => by
      have : w = w!"der" := by simpa using hw
      subst this
      exact ordinary_simple _ (fun _ => rfl) (fun _ => rfl) rfl (by decide))
    (fun w hw => by
      have : w = w!"tag" := by simpa using hw
      subst this
      exact ordinary_simple _ (fun _ => rfl) (fun _ => rfl) rfl (by decide))

end T2N.TextCor.De
