/-
  T2N.Lemmas.TextCor.DecNl — Dutch: text-level corollary of C05 (spoken decimal numbers).
  The fraction is `nul … nul` followed by one spelled cardinal: its words are over the alphabet, it is not empty
  when there is at least one digit (otherwise the run of the fraction builder would end on the empty builder).
-/
import T2N.Lemmas.TextCor.Decimal
import T2N.Lemmas.TextCor.Nl
import T2N.Lemmas.ExtNl
import T2N.Props.C01.Text
import T2N.Props.C05

namespace T2N.TextCor.Nl
open T2N T2N.Lift T2N.Spec T2N.C01Text T2N.TextCor

/-! ### the words of a spelled fraction -/

/-- every word of a spelled Dutch fraction is over the alphabet (`nul`, or a word of a cardinal) -/
theorem fraction_over (v : Var) (ds : List Nat) : ∀ w ∈ Spec.Nl.fraction v ds, isOver w = true := by
  intro w hw
  unfold Spec.Nl.fraction at hw
  dsimp only at hw
  rw [List.mem_append] at hw
  rcases hw with hw | hw
  · obtain ⟨_, _, rfl⟩ := List.mem_map.mp hw
    decide
  · by_cases hc : (ds.dropWhile (· == 0)).isEmpty = true
    · rw [if_pos hc] at hw; cases hw
    · rw [if_neg hc] at hw
      exact C01Text.Nl.cardinal_over _ _ w hw

/-- a fraction with at least one digit has at least one word -/
theorem fraction_ne_nil (v : Var) (ds : List Nat) (hds : ds ≠ []) (h9 : ∀ d ∈ ds, d < 10)
    (hlen : (ds.dropWhile (· == 0)).length ≤ 12) : Spec.Nl.fraction v ds ≠ [] := by
  intro hnil
  obtain ⟨D, hD, hDne, _⟩ := ExtNl.fraction_run v ds hds h9 hlen
  rw [hnil] at hD
  have hD' : (Except.ok DS.new : Except Err DS) = .ok D := hD
  have : DS.new = D := Except.ok.inj hD'
  subst this
  revert hDne
  decide

/-! ### C05 -/

/-- C05 (nl), text level: every threshold -/
theorem text_c05 {cc : CharClasses} (L : TextLaws cc) (A : AlphaLaws cc) (thr : Nat → Bool)
    (v : Var) (n : Nat) (ds : List Nat) (h : n < 10 ^ 12) (hds : ds ≠ []) (h9 : ∀ d ∈ ds, d < 10)
    (hlen : (ds.dropWhile (· == 0)).length ≤ 12)
    (pre post : List Word) (hpre : ∀ w ∈ pre, Ordinary cc T2N.Nl.lang w) (hpost : ∀ w ∈ post, Ordinary cc T2N.Nl.lang w) :
    replaceText cc .dutch thr
        (joinWords (pre ++ (Spec.Nl.cardinal v n ++ [Spec.Nl.sepWord] ++ Spec.Nl.fraction v ds) ++ post)) =
      .ok (joinWords (pre ++ [decChars n ++ [Spec.Nl.decMark] ++ ds.map digitChar] ++ post)) := by
  have hval := T2N.C01.C01_validate_nl_all v n h
  obtain ⟨D, hD, hDne, hDr⟩ := ExtNl.fraction_run v ds hds h9 hlen
  have hover : ∀ w ∈ Spec.Nl.cardinal v n ++ [Spec.Nl.sepWord] ++ Spec.Nl.fraction v ds, isOver w = true := by
    intro w hw
    rw [List.mem_append, List.mem_append] at hw
    rcases hw with (hw | hw) | hw
    · exact C01Text.Nl.cardinal_over v n w hw
    · rw [List.mem_singleton.mp hw]; decide
    · exact fraction_over v ds w hw
  exact replaceText_decimal L A .dutch thr (by simp [Language.interp, allLangs]) T2N.C07.C07_langAgree_nl
    (Spec.Nl.cardinal v n) (Spec.Nl.fraction v ds) Spec.Nl.sepWord n ds D hval
    (first_none_of_valid _ _ _ hval (C01Sent.Nl.first v n h)) (by decide)
    (fraction_ne_nil v ds hds h9 hlen) hD hDne hDr hover pre post hpre hpost rfl

/-- explicit classes -/
theorem text_c05_simple (thr : Nat → Bool) (v : Var) (n : Nat) (ds : List Nat) (h : n < 10 ^ 12) (hds : ds ≠ [])
    (h9 : ∀ d ∈ ds, d < 10) (hlen : (ds.dropWhile (· == 0)).length ≤ 12) (pre post : List Word)
    (hpre : ∀ w ∈ pre, Ordinary simpleCC T2N.Nl.lang w) (hpost : ∀ w ∈ post, Ordinary simpleCC T2N.Nl.lang w) :
    replaceText simpleCC .dutch thr
        (joinWords (pre ++ (Spec.Nl.cardinal v n ++ [Spec.Nl.sepWord] ++ Spec.Nl.fraction v ds) ++ post)) =
      .ok (joinWords (pre ++ [decChars n ++ [Spec.Nl.decMark] ++ ds.map digitChar] ++ post)) :=
  text_c05 simple_textLaws simple_alphaLaws thr v n ds h hds h9 hlen pre post hpre hpost

/-! ### the hypotheses are satisfiable -/

/-- `het kost drie komma nul zeven euro`, whatever the threshold (here: everything is "small") -/
example : replaceText simpleCC .dutch (fun _ => true)
    (joinWords ([w!"het", w!"kost"] ++ (Spec.Nl.cardinal (fun _ => 0) 3 ++ [Spec.Nl.sepWord] ++
      Spec.Nl.fraction (fun _ => 0) [0, 7]) ++ [w!"euro"])) =
    .ok (joinWords ([w!"het", w!"kost"] ++ [decChars 3 ++ [','] ++ w!"07"] ++ [w!"euro"])) :=
  text_c05_simple _ _ 3 [0, 7] (by decide) (by decide) (by decide) (by decide) _ _
    (fun w hw => by
      have : w = w!"het" ∨ w = w!"kost" := by simpa using hw
      rcases this with rfl | rfl
      · exact ⟨Lang.rejects_of_apply T2N.Nl.lang _ (fun _ => ⟨.nan, rfl, by intro h; cases h⟩)
          (fun _ => ⟨.nan, rfl, by intro h; cases h⟩) rfl, by decide⟩
      · exact ⟨Lang.rejects_of_apply T2N.Nl.lang _ (fun _ => ⟨.nan, rfl, by intro h; cases h⟩)
          (fun _ => ⟨.nan, rfl, by intro h; cases h⟩) rfl, by decide⟩)
    (fun w hw => by
      have : w = w!"euro" := by simpa using hw
      subst this
      exact ⟨Lang.rejects_of_apply T2N.Nl.lang _ (fun _ => ⟨.nan, rfl, by intro h; cases h⟩)
        (fun _ => ⟨.nan, rfl, by intro h; cases h⟩) rfl, by decide⟩)

/-- the same sentence as plain strings -/
example : T2N.C01.C01_text_is (replaceText simpleCC .dutch (fun _ => true) "het kost drie komma nul zeven euro".toList)
    "het kost 3,07 euro" = true := by decide +kernel

example : T2N.C01.C01_text_is (replaceText simpleCC .dutch zeroThr "ongeveer twaalf komma nul nul vijfenzeventig procent".toList)
    "ongeveer 12,0075 procent" = true := by decide +kernel

end T2N.TextCor.Nl
