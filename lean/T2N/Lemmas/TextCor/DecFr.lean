/-
  T2N.Lemmas.TextCor.DecFr — French: the text-level corollary of C05 (spoken decimals).

  Everything but the annotation pass is as for the other languages (`TextCor.replaceText_decimal`). The French pass
  (`neuf`: nine / new) must be the identity on the tokens of `pre ++ (integer ++ [virgule] ++ fraction) ++ post`. The
  decimal phrase is not ONE run of the interpreter (`virgule` is refused by `apply`), so `C01Text.Fr.frDecW_sentence`
  does not apply; `frDecW_decimal` redoes the case analysis for two runs around the separator:
  * a `neuf` with a neighbour inside its run (`frDecW_segment`): the neighbour is accepted by the fresh builder;
  * a `neuf` first word of the fraction: the word before is the decimal separator;
  * a lone `neuf` as integer part (`n = 9`): the word after is `virgule`, refused — the decision is
    `frNeufMarked pre` (`frDecW_not_marked`), hence the hypothesis `hneuf` of `text_c05`, which is necessary
    (`text_c05_neuf_kept`).
-/
import T2N.Lemmas.TextCor.Decimal
import T2N.Lemmas.TextCor.Fr
import T2N.Lemmas.ExtFr
import T2N.Props.C01.Text
import T2N.Props.C05

namespace T2N.TextCor.Fr
open T2N T2N.Lift T2N.Spec T2N.C01Text T2N.TextCor
open T2N.C01Text.Fr (wordsOK okEnd good frNeufMarked frDecW getD_mid getD_pre getD_post getD_mem)

/-! ### the decision of the pass, locally -/

/-- the word before is accepted by the fresh builder: not marked -/
theorem frDecW_prev_acc (W : List Word) (i : Nat) (h : (T2N.Fr.apply (W.getD (i - 1) []) DS.new).1 = none) :
    frDecW W i = false := by
  unfold C01Text.Fr.frDecW
  rw [h]
  simp only [Option.isSome_none, Bool.and_false, Bool.false_and]

/-- the word before is the decimal separator: not marked -/
theorem frDecW_prev_sep (W : List Word) (i : Nat) (h : T2N.Fr.lang.isDecSep (W.getD (i - 1) []) = true) :
    frDecW W i = false := by
  unfold C01Text.Fr.frDecW
  rw [h]
  simp only [Bool.not_true, Bool.and_false, Bool.false_and]

/-- the word after is accepted by the fresh builder: not marked -/
theorem frDecW_next_acc (W : List Word) (i : Nat) (hlt : i + 1 < W.length)
    (h : (T2N.Fr.apply (W.getD (i + 1) []) DS.new).1 = none) : frDecW W i = false := by
  unfold C01Text.Fr.frDecW
  rw [if_pos hlt, h]
  simp only [Option.isSome_none, Bool.and_false]

/-- the decision for the word that follows `pre` is at most `frNeufMarked pre` -/
theorem frDecW_not_marked (pre rest : List Word) (hm : frNeufMarked pre = false) :
    frDecW (pre ++ rest) pre.length = false := by
  unfold C01Text.Fr.frNeufMarked at hm
  unfold C01Text.Fr.frDecW
  by_cases h2 : 2 ≤ pre.length
  · rw [getD_pre pre rest (pre.length - 2) (by omega), getD_pre pre rest (pre.length - 3) (by omega),
      getD_pre pre rest (pre.length - 1) (by omega)]
    rw [Bool.and_eq_false_iff] at hm
    rcases hm with hm | hm
    · rw [hm]
      simp only [Bool.false_and]
    · rw [hm]
      simp only [Bool.and_false, Bool.false_and]
  · rw [decide_eq_false h2]
    simp only [Bool.false_and]

/-- a `neuf` of a run `ws` (with the structure of a spelled cardinal as far as `et` is concerned) that has a
neighbour in the run is not marked, whatever stands around the run -/
theorem frDecW_segment (A ws B : List Word) (b0 : DS) (hst : stepsOk T2N.Fr.apply ws b0) (hw : wordsOK ws = true)
    (p : Nat) (hp : p < ws.length) (hn : ws.getD p [] = w!"neuf") (h2 : 1 ≤ p ∨ 2 ≤ ws.length) :
    frDecW (A ++ ws ++ B) (A.length + p) = false := by
  have hget : ∀ k, k < ws.length → ws[k]? = some (ws.getD k []) := by
    intro k hk
    rw [List.getD_eq_getElem?_getD, List.getElem?_eq_getElem hk]
    rfl
  by_cases hp0 : p = 0
  · subst hp0
    have hlen : 2 ≤ ws.length := by omega
    have hy := hget 1 hlen
    have hx := hget 0 (by omega)
    rw [hn] at hx
    have hne : ws.getD 1 [] ≠ w!"et" := fun he => (C01Text.Fr.wordsOK_pair ws hw 0 _ _ hx hy).2 he rfl
    have hacc := C01Text.Fr.acc_of_valid ws b0 hst hw _ (getD_mem hlen) hne
    apply frDecW_next_acc
    · simp only [List.length_append]; omega
    · rw [Nat.add_zero, getD_mid A ws B 1 hlen]
      exact hacc
  · have hx := hget (p - 1) (by omega)
    have hy := hget p hp
    rw [hn] at hy
    have e : p - 1 + 1 = p := by omega
    have hne : ws.getD (p - 1) [] ≠ w!"et" := by
      intro he
      have := (C01Text.Fr.wordsOK_pair ws hw (p - 1) _ _ hx (by rw [e]; exact hy)).1 he
      exact this rfl
    have hacc := C01Text.Fr.acc_of_valid ws b0 hst hw _ (getD_mem (show p - 1 < ws.length by omega)) hne
    apply frDecW_prev_acc
    have e2 : A.length + p - 1 = A.length + (p - 1) := by omega
    rw [e2, getD_mid A ws B (p - 1) (by omega)]
    exact hacc

/-! ### the pass on a sentence that contains a spoken decimal -/

/-- the decision of the French pass is negative for every `neuf` of `pre ++ (wi ++ [virgule] ++ wf) ++ post` where
`wi`, `wf` are two valid runs with the structure of spelled cardinals and `pre`, `post` are refused words — provided a
lone `neuf` as integer part is not marked by the words before -/
theorem frDecW_decimal (pre wi wf post : List Word)
    (hsti : stepsOk T2N.Fr.apply wi DS.new) (hwi : wordsOK wi = true)
    (hstf : stepsOk T2N.Fr.apply wf DS.new) (hwf : wordsOK wf = true)
    (hpre : ∀ w ∈ pre, T2N.Fr.lang.Rejects w) (hpost : ∀ w ∈ post, T2N.Fr.lang.Rejects w)
    (hlone : wi = [w!"neuf"] → frNeufMarked pre = false) :
    ∀ i, i < (pre ++ (wi ++ [Spec.Fr.sepWord] ++ wf) ++ post).length →
      (pre ++ (wi ++ [Spec.Fr.sepWord] ++ wf) ++ post).getD i [] = w!"neuf" →
      frDecW (pre ++ (wi ++ [Spec.Fr.sepWord] ++ wf) ++ post) i = false := by
  intro i hi hn
  have hnr : ∀ w, T2N.Fr.lang.Rejects w → w ≠ w!"neuf" := fun w h => ne_of_rejects h C01Text.Fr.neuf_acc
  have e1 : pre ++ (wi ++ [Spec.Fr.sepWord] ++ wf) ++ post = pre ++ wi ++ ([Spec.Fr.sepWord] ++ wf ++ post) := by
    simp only [List.append_assoc]
  have e2 : pre ++ (wi ++ [Spec.Fr.sepWord] ++ wf) ++ post = (pre ++ wi) ++ [Spec.Fr.sepWord] ++ (wf ++ post) := by
    simp only [List.append_assoc]
  have e3 : pre ++ (wi ++ [Spec.Fr.sepWord] ++ wf) ++ post = (pre ++ wi ++ [Spec.Fr.sepWord]) ++ wf ++ post := by
    simp only [List.append_assoc]
  have hlenW : (pre ++ (wi ++ [Spec.Fr.sepWord] ++ wf) ++ post).length =
      pre.length + wi.length + 1 + wf.length + post.length := by
    simp only [List.length_append, List.length_cons, List.length_nil]; omega
  have hsep := getD_mid (pre ++ wi) [Spec.Fr.sepWord] (wf ++ post) 0 (by decide)
  rw [List.length_append, Nat.add_zero] at hsep
  rcases Nat.lt_or_ge i pre.length with h | h1
  · -- in `pre`
    exfalso
    rw [List.append_assoc, getD_pre pre _ i h] at hn
    exact hnr _ (hpre _ (getD_mem h)) hn
  obtain ⟨p, rfl⟩ : ∃ p, i = pre.length + p := ⟨i - pre.length, by omega⟩
  rcases Nat.lt_or_ge p wi.length with hp | hp
  · -- in the integer part
    rw [e1] at hn ⊢
    rw [getD_mid pre wi _ p hp] at hn
    by_cases hc : 1 ≤ p ∨ 2 ≤ wi.length
    · exact frDecW_segment pre wi _ DS.new hsti hwi p hp hn hc
    · -- a lone `neuf`: the next word is the separator
      have hp0 : p = 0 := by omega
      subst hp0
      have hws : wi = [w!"neuf"] := by
        cases wi with
        | nil => simp at hp
        | cons a t =>
          cases t with
          | nil =>
            have : a = w!"neuf" := by simpa using hn
            rw [this]
          | cons b t' => exact absurd (Or.inr (by simp)) hc
      rw [Nat.add_zero, List.append_assoc]
      exact frDecW_not_marked pre _ (hlone hws)
  · rcases Nat.eq_or_lt_of_le hp with hp | hp
    · -- the separator
      exfalso
      subst hp
      rw [e2, hsep] at hn
      exact absurd hn (by decide)
    · obtain ⟨q, rfl⟩ : ∃ q, p = wi.length + 1 + q := ⟨p - wi.length - 1, by omega⟩
      rcases Nat.lt_or_ge q wf.length with hq | hq
      · -- in the fraction
        by_cases hq0 : q = 0
        · -- first word of the fraction: the word before is the separator
          subst hq0
          apply frDecW_prev_sep
          have e : pre.length + (wi.length + 1 + 0) - 1 = pre.length + wi.length := by omega
          rw [e, e2, hsep]
          rfl
        · have hidx : pre.length + (wi.length + 1 + q) = (pre ++ wi ++ [Spec.Fr.sepWord]).length + q := by
            simp only [List.length_append, List.length_cons, List.length_nil]; omega
          rw [hidx, e3] at hn ⊢
          rw [getD_mid _ wf post q hq] at hn
          exact frDecW_segment _ wf post DS.new hstf hwf q hq hn (Or.inl (by omega))
      · -- in `post`
        exfalso
        obtain ⟨r, rfl⟩ : ∃ r, q = wf.length + r := ⟨q - wf.length, by omega⟩
        have hidx : pre.length + (wi.length + 1 + (wf.length + r)) =
            pre.length + (wi ++ [Spec.Fr.sepWord] ++ wf).length + r := by
          simp only [List.length_append, List.length_cons, List.length_nil]; omega
        rw [hidx, getD_post] at hn
        have hr : r < post.length := by rw [hlenW] at hi; omega
        exact hnr _ (hpost _ (getD_mem hr)) hn

/-! ### the spelled fraction -/

theorem fraction_good (v : Var) (ds : List Nat) : good (Spec.Fr.fraction v ds) = true := by
  unfold Spec.Fr.fraction
  dsimp only
  apply C01Text.Fr.good_append
  · apply C01Text.Fr.good_of_okEnd
    intro a ha
    obtain ⟨_, _, rfl⟩ := List.mem_map.mp ha
    decide
  · split
    · rfl
    · exact C01Text.Fr.cardinal_good _ _

theorem fraction_over (v : Var) (ds : List Nat) : ∀ w ∈ Spec.Fr.fraction v ds, isOver w = true := by
  intro w hw
  unfold Spec.Fr.fraction at hw
  dsimp only at hw
  rcases List.mem_append.mp hw with hw | hw
  · obtain ⟨_, _, rfl⟩ := List.mem_map.mp hw
    decide
  · split at hw
    · cases hw
    · exact C01Text.FrOver.cardinal_over _ _ w hw

/-! ### the text-level theorem -/

/-- C05 (fr), text level: every threshold; for `n = 9` the words before must not make the `neuf` pass fire
(`hneuf`; necessary: `text_c05_neuf_kept`) -/
theorem text_c05 {cc : CharClasses} (L : TextLaws cc) (A : AlphaLaws cc) (thr : Nat → Bool)
    (v : Var) (n : Nat) (ds : List Nat) (h : n < 10 ^ 12) (hds : ds ≠ []) (h9 : ∀ d ∈ ds, d < 10)
    (hlen : (ds.dropWhile (· == 0)).length ≤ 12)
    (pre post : List Word) (hpre : ∀ w ∈ pre, Ordinary cc T2N.Fr.lang w) (hpost : ∀ w ∈ post, Ordinary cc T2N.Fr.lang w)
    (hneuf : n = 9 → C01Text.Fr.frNeufMarked pre = false) :
    replaceText cc .french thr
        (joinWords (pre ++ (Spec.Fr.cardinal v n ++ [Spec.Fr.sepWord] ++ Spec.Fr.fraction v ds) ++ post)) =
      .ok (joinWords (pre ++ [decChars n ++ [Spec.Fr.decMark] ++ ds.map digitChar] ++ post)) := by
  have hval := T2N.C01.C01_validate_fr_all v n h
  obtain ⟨D, hD, hDne, hDr⟩ := ExtFr.fraction_run v ds hds h9 hlen
  have hover : ∀ w ∈ Spec.Fr.cardinal v n ++ [Spec.Fr.sepWord] ++ Spec.Fr.fraction v ds, isOver w = true := by
    intro w hw
    rw [List.mem_append, List.mem_append] at hw
    rcases hw with (hw | hw) | hw
    · exact C01Text.FrOver.cardinal_over v n w hw
    · rw [List.mem_singleton.mp hw]; decide
    · exact fraction_over v ds w hw
  have hfne : Spec.Fr.fraction v ds ≠ [] := by
    intro e
    rw [e] at hD
    cases hD
    cases hDne
  refine replaceText_decimal L A .french thr (by simp [Language.interp, allLangs]) T2N.C07.C07_langAgree_fr
    (Spec.Fr.cardinal v n) (Spec.Fr.fraction v ds) Spec.Fr.sepWord n ds D hval
    (first_none_of_valid _ _ _ hval (C01Sent.Fr.first v n)) rfl hfne hD hDne hDr hover pre post hpre hpost ?_
  show annotateFr cc T2N.Fr.lang.apply T2N.Fr.lang.isDecSep _ = _
  obtain ⟨ds0, _, hx0, _, _⟩ := text2digitsWords_ok hval
  have hsti := execGroupFrom_stepsOk _ _ _ _ _ hx0
  have hstf := execGroupFrom_stepsOk _ _ _ _ _ hD
  apply C01Text.Fr.annotateFr_wordTokens L _
    (fun w hw => isPlainWord_tok (plain_of_parts L A T2N.Fr.lang pre _ post hpre hover hpost w hw))
  apply frDecW_decimal pre _ _ post hsti (C01Text.Fr.good_wordsOK (C01Text.Fr.cardinal_good v n)) hstf
    (C01Text.Fr.good_wordsOK (fraction_good v ds)) (fun w hw => (hpre w hw).1) (fun w hw => (hpost w hw).1)
  intro hws
  apply hneuf
  rw [hws] at hval
  have e9 : decChars 9 = ['9'] := by
    unfold decChars; rw [decDigits, if_pos (by decide)]; rfl
  have e : text2digitsWords T2N.Fr.lang [w!"neuf"] = .ok (decChars 9) := by rw [e9]; decide
  rw [e] at hval
  have : decChars 9 = decChars n := by injection hval
  exact (C01Text.Fr.decChars_inj 9 n this).symm

/-- no article (`un`, `le`, `du`, `l'`) among the words before: the hypothesis on `neuf` holds -/
theorem text_c05_no_article {cc : CharClasses} (L : TextLaws cc) (A : AlphaLaws cc) (thr : Nat → Bool)
    (v : Var) (n : Nat) (ds : List Nat) (h : n < 10 ^ 12) (hds : ds ≠ []) (h9 : ∀ d ∈ ds, d < 10)
    (hlen : (ds.dropWhile (· == 0)).length ≤ 12)
    (pre post : List Word) (hpre : ∀ w ∈ pre, Ordinary cc T2N.Fr.lang w) (hpost : ∀ w ∈ post, Ordinary cc T2N.Fr.lang w)
    (hart : ∀ a ∈ pre, frArticles.contains a = false) :
    replaceText cc .french thr
        (joinWords (pre ++ (Spec.Fr.cardinal v n ++ [Spec.Fr.sepWord] ++ Spec.Fr.fraction v ds) ++ post)) =
      .ok (joinWords (pre ++ [decChars n ++ [Spec.Fr.decMark] ++ ds.map digitChar] ++ post)) :=
  text_c05 L A thr v n ds h hds h9 hlen pre post hpre hpost
    (fun _ => C01Text.Fr.frNeufMarked_of_no_article pre hart)

/-! ### the hypotheses are satisfiable; the hypothesis on `neuf` is necessary -/

/-- `il mesure trois virgule zéro sept mètres` → `il mesure 3,07 mètres`, whatever the threshold (here: everything is
"small") -/
example : replaceText simpleCC .french (fun _ => true)
    (joinWords ([w!"il", w!"mesure"] ++ (Spec.Fr.cardinal (fun _ => 0) 3 ++ [Spec.Fr.sepWord] ++
      Spec.Fr.fraction (fun _ => 0) [0, 7]) ++ [w!"mètres"])) =
    .ok (joinWords ([w!"il", w!"mesure"] ++ [decChars 3 ++ [','] ++ w!"07"] ++ [w!"mètres"])) :=
  text_c05 simple_textLaws simple_alphaLaws _ _ 3 [0, 7] (by decide) (by decide) (by decide) (by decide) _ _
    (fun w hw => by
      simp only [List.mem_cons, List.not_mem_nil, or_false] at hw
      rcases hw with rfl | rfl <;>
        exact ordinary_of_nan _ (fun _ => rfl) (fun _ => rfl) rfl (by decide))
    (fun w hw => by
      have : w = w!"mètres" := by simpa using hw
      subst this
      exact ordinary_of_nan _ (fun _ => rfl) (fun _ => rfl) rfl (by decide))
    (fun h0 => by cases h0)

/-- the same kind of sentence as plain strings -/
example : T2N.C01.C01_text_is (replaceText simpleCC .french (fun _ => true)
    "il mesure trois virgule zéro sept mètres".toList) "il mesure 3,07 mètres" = true := by decide +kernel

/-- an article before a decimal whose integer part contains `neuf` with a number-word neighbour, or whose fraction
is `neuf`, is harmless -/
example : T2N.C01.C01_text_is (replaceText simpleCC .french (fun _ => true)
    "le chat a dix-neuf virgule neuf vies".toList) "le chat a 19,9 vies" = true := by decide +kernel

/-- **the hypothesis on `neuf` is necessary**: after `le chat a` the lone `neuf` before `virgule` is marked by the
pass (an article three words before, the neighbours `a` and `virgule` refused by the fresh builder) and the text is
left unchanged -/
theorem text_c05_neuf_kept :
    C01Text.Fr.frNeufMarked [w!"le", w!"chat", w!"a"] = true ∧
    Spec.Fr.cardinal (fun _ => 0) 9 ++ [Spec.Fr.sepWord] ++ Spec.Fr.fraction (fun _ => 0) [5] =
      [w!"neuf", w!"virgule", w!"cinq"] ∧
    T2N.C01.C01_text_is (replaceText simpleCC .french (fun _ => true)
      (joinWords ([w!"le", w!"chat", w!"a"] ++ (Spec.Fr.cardinal (fun _ => 0) 9 ++ [Spec.Fr.sepWord] ++
        Spec.Fr.fraction (fun _ => 0) [5]) ++ [w!"vies"])))
      "le chat a neuf virgule cinq vies" = true := by
  refine ⟨by decide, by decide, ?_⟩
  decide +kernel

/-- … whereas without the article it is rewritten -/
example : T2N.C01.C01_text_is (replaceText simpleCC .french (fun _ => true)
    "mon chat a neuf virgule cinq vies".toList) "mon chat a 9,5 vies" = true := by decide +kernel

end T2N.TextCor.Fr
