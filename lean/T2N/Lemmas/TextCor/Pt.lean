/-
  T2N.Lemmas.TextCor.Pt — Portuguese: text-level corollaries C16 (leading zeros) and C04 (ordinals).
  Every word of a spelled ordinal is a stem (letters, non-empty) followed by an ending (letters), hence a word over
  the alphabet; no Portuguese word is answered `Incomplete` by the fresh builder, so the first word of a phrase that
  validates is accepted by it; the Portuguese interpreter has no annotation pass.
-/
import T2N.Lemmas.TextCor
import T2N.Lemmas.C01Text.Pt
import T2N.Props.C01.Text
import T2N.Props.C04
import T2N.Props.C16

namespace T2N.TextCor.Pt
open T2N T2N.Lift T2N.Spec T2N.C01Text T2N.TextCor

/-! ### the words of a spelled ordinal -/

/-- a stem: letters of the alphabet, at least one -/
def S (w : Word) : Bool := isLetters w && !w.isEmpty

theorem over_of_S {s e : Word} (hs : S s = true) (he : isLetters e = true) : isOver (s ++ e) = true := by
  unfold S at hs
  rw [Bool.and_eq_true] at hs
  refine isOver_of_letters (isLetters_append hs.1 he) ?_
  intro h
  have : s = [] := (List.append_eq_nil_iff.mp h).1
  rw [this] at hs
  exact absurd hs.2 (by decide)

theorem ending_letters (i : Nat) : isLetters (Spec.Pt.ordEnding i) = true := by
  unfold Spec.Pt.ordEnding
  split <;> decide

theorem unitStem_S : ∀ u, u < 10 → u ≠ 0 → S (Spec.Pt.ordUnitStems.getD u []) = true := by decide

theorem tensStem_S (v : Var) (t : Nat) (h9 : t < 10) (h0 : t ≠ 0) : S (Spec.Pt.ordTensStem v t) = true := by
  have : ∀ (f : Bool) (t : Nat), t < 10 → t ≠ 0 →
      S (if (t == 7 && f) = true then w!"setuagésim" else Spec.Pt.ordTensStems.getD t []) = true := by
    intro f; cases f <;> decide
  exact this (flag v (cp 0 9)) t h9 h0

theorem hundredStem_S (v : Var) (h : Nat) (h9 : h < 10) (h0 : h ≠ 0) : S (Spec.Pt.ordHundredStem v h) = true := by
  have : ∀ (f1 f2 f3 : Bool) (h : Nat), h < 10 → h ≠ 0 →
      S (if (h == 3 && f1) = true then w!"tricentésim"
         else if (h == 6 && f2) = true then w!"seiscentésim"
         else if (h == 9 && f3) = true then w!"nongentésim"
         else Spec.Pt.ordHundredStems.getD h []) = true := by
    intro f1 f2 f3; cases f1 <;> cases f2 <;> cases f3 <;> decide
  exact this (flag v (cp 0 14)) (flag v (cp 0 10)) (flag v (cp 0 11)) h h9 h0

theorem all_S_append {a b : List Word} (ha : ∀ w ∈ a, S w = true) (hb : ∀ w ∈ b, S w = true) :
    ∀ w ∈ a ++ b, S w = true := by
  intro w hw
  rcases List.mem_append.mp hw with hw | hw
  · exact ha w hw
  · exact hb w hw

theorem all_S_opt (p : Prop) [Decidable p] (s : Word) (hs : ¬ p → S s = true) :
    ∀ w ∈ (if p then ([] : List Word) else [s]), S w = true := by
  intro w hw
  by_cases hp : p
  · rw [if_pos hp] at hw; cases hw
  · rw [if_neg hp, List.mem_singleton] at hw
    rw [hw]; exact hs hp

/-- every stem of a spelled ordinal is made of letters and is not empty -/
theorem ordinalStems_S (v : Var) (n : Nat) : ∀ w ∈ Spec.Pt.ordinalStems v n, S w = true := by
  unfold Spec.Pt.ordinalStems
  dsimp only
  have hh : n / 100 % 10 < 10 := Nat.mod_lt _ (by decide)
  have ht : n / 10 % 10 < 10 := Nat.mod_lt _ (by decide)
  have hu : n % 10 < 10 := Nat.mod_lt _ (by decide)
  refine all_S_append (all_S_append ?_ ?_) ?_
  · exact all_S_opt _ _ (fun _ => by decide)
  · refine all_S_opt _ _ (fun h => hundredStem_S v _ hh ?_)
    intro e; exact h (by rw [e]; rfl)
  · split
    · intro w hw
      rw [List.mem_singleton] at hw
      rw [hw]; decide
    · split
      · intro w hw
        rw [List.mem_singleton] at hw
        rw [hw]; decide
      · refine all_S_append ?_ ?_
        · refine all_S_opt _ _ (fun h => tensStem_S v _ ht ?_)
          intro e; exact h (by rw [e]; rfl)
        · refine all_S_opt _ _ (fun h => unitStem_S _ hu ?_)
          intro e; exact h (by rw [e]; rfl)

/-- every word of a spelled Portuguese ordinal is over the alphabet -/
theorem ordinal_over (v : Var) (n i : Nat) : ∀ w ∈ Spec.Pt.ordinal v n i, isOver w = true := by
  intro w hw
  unfold Spec.Pt.ordinal at hw
  obtain ⟨s, hs, rfl⟩ := List.mem_map.mp hw
  exact over_of_S (ordinalStems_S v n s hs) (ending_letters i)

/-- the ordinal markers `º ª ᵒˢ ᵃˢ` do not start with a digit -/
theorem marker_head (i : Nat) : WellFormed.headNotDigit (Spec.Pt.ordMarker i) = true := by
  unfold Spec.Pt.ordMarker
  split <;> decide

/-- what the speller produces -/
theorem speller_ordinal {v : Var} {n i : Nat} {ws : List Word} {mk : Word}
    (ho : Spec.Pt.speller.ordinal v n i = some (ws, mk)) :
    ws = Spec.Pt.ordinal v n i ∧ mk = Spec.Pt.ordMarker i := by
  have ho' : (if (n == 0 || decide (n > 1999) || decide (i ≥ 4)) = true then none
      else some (Spec.Pt.ordinal v n i, Spec.Pt.ordMarker i)) = some (ws, mk) := ho
  split at ho'
  · cases ho'
  · injection ho' with e
    injection e with e1 e2
    exact ⟨e1.symm, e2.symm⟩

/-! ### the two theorems -/

/-- C16 (pt), text level -/
theorem text_c16 {cc : CharClasses} (L : TextLaws cc) (A : AlphaLaws cc) (thr : Nat → Bool)
    (v : Var) (k n : Nat) (hn : 0 < n) (h : n < 10 ^ 12) (hthr : k = 0 → n < 10 → thr n = false)
    (pre post : List Word) (hpre : ∀ w ∈ pre, Ordinary cc T2N.Pt.lang w) (hpost : ∀ w ∈ post, Ordinary cc T2N.Pt.lang w) :
    replaceText cc .portuguese thr
        (joinWords (pre ++ (List.replicate k Spec.Pt.zeroWord ++ Spec.Pt.cardinal v n) ++ post)) =
      .ok (joinWords (pre ++ [List.replicate k '0' ++ decChars n] ++ post)) := by
  by_cases hk : k = 0
  · subst hk
    exact T2N.C01.C01_text_pt L A thr v n h (hthr rfl) pre post hpre hpost
  · exact replaceText_zeros L A .portuguese thr (by simp [Language.interp, allLangs]) T2N.C07.C07_langAgree_pt
      Spec.Pt.zeroWord (Spec.Pt.cardinal v n) k n (by omega) (T2N.C16.C16_validate_pt_all v k n hn h)
      (by decide) (by decide) (C01Text.Pt.cardinal_over v n) pre post hpre hpost rfl

/-- C04 (pt), text level: whatever the speller produces (same hypotheses as `T2N.C04.C04_validate_pt_all`) -/
theorem text_c04 {cc : CharClasses} (L : TextLaws cc) (A : AlphaLaws cc) (thr : Nat → Bool)
    (v : Var) (n i : Nat) (ws : List Word) (mk : Word)
    (ho : Spec.Pt.speller.ordinal v n i = some (ws, mk)) (hthr : thr n = false)
    (pre post : List Word) (hpre : ∀ w ∈ pre, Ordinary cc T2N.Pt.lang w) (hpost : ∀ w ∈ post, Ordinary cc T2N.Pt.lang w) :
    replaceText cc .portuguese thr (joinWords (pre ++ ws ++ post)) = .ok (joinWords (pre ++ [decChars n ++ mk] ++ post)) := by
  have hval := T2N.C04.C04_validate_pt_all v n i ws mk ho
  obtain ⟨hws, hmk⟩ := speller_ordinal ho
  refine replaceText_ordinal L A .portuguese thr (by simp [Language.interp, allLangs]) T2N.C07.C07_langAgree_pt
    ws n mk (by rw [hmk]; exact marker_head i) hthr hval
    (first_none_of_valid _ _ _ hval (fun w _ => C01Sent.Pt.first w))
    (by rw [hws]; exact ordinal_over v n i) pre post hpre hpost rfl

/-! ### the hypotheses are satisfiable -/

/-- `sala zero zero sete obrigado` → `sala 007 obrigado`, whatever the threshold (here: everything is "small") -/
example : replaceText simpleCC .portuguese (fun _ => true)
    (joinWords ([w!"sala"] ++ (List.replicate 2 Spec.Pt.zeroWord ++ Spec.Pt.cardinal (fun _ => 0) 7) ++ [w!"obrigado"])) =
    .ok (joinWords ([w!"sala"] ++ [List.replicate 2 '0' ++ decChars 7] ++ [w!"obrigado"])) :=
  text_c16 simple_textLaws simple_alphaLaws _ _ 2 7 (by decide) (by decide) (fun h0 => by cases h0) _ _
    (fun w hw => by
      have : w = w!"sala" := by simpa using hw
      subst this
      exact ⟨T2N.C01.C01_pt_rejects_of_nan _ (by decide) (by decide) (by decide), by decide⟩)
    (fun w hw => by
      have : w = w!"obrigado" := by simpa using hw
      subst this
      exact ⟨T2N.C01.C01_pt_rejects_of_nan _ (by decide) (by decide) (by decide), by decide⟩)

/-- `pela septingentésima décima segunda vez` → `pela 712ª vez` -/
example : replaceText simpleCC .portuguese zeroThr
    (joinWords ([w!"pela"] ++ Spec.Pt.ordinal (fun _ => 0) 712 1 ++ [w!"vez"])) =
    .ok (joinWords ([w!"pela"] ++ [decChars 712 ++ w!"ª"] ++ [w!"vez"])) :=
  text_c04 simple_textLaws simple_alphaLaws zeroThr (fun _ => 0) 712 1 _ _ rfl rfl _ _
    (fun w hw => by
      have : w = w!"pela" := by simpa using hw
      subst this
      exact ⟨T2N.C01.C01_pt_rejects_of_nan _ (by decide) (by decide) (by decide), by decide⟩)
    (fun w hw => by
      have : w = w!"vez" := by simpa using hw
      subst this
      exact ⟨T2N.C01.C01_pt_rejects_of_nan _ (by decide) (by decide) (by decide), by decide⟩)

end T2N.TextCor.Pt
