/-
  T2N.Lemmas.TextCor.DecDe — German: the text-level corollary of C05 (decimal numbers).

  The German fraction is spoken digit by digit (`Spec.De.fraction _ ds = ds.map Spec.De.digitWord`); `apply_decimal`
  looks every word up in `De.decVocab` and pushes the digit (`applyDecimal_digit`, `frac_exec`, `fraction_run`).
  Every digit word and the separator `komma` are over the alphabet; `text_c05` is then an instance of
  `TextCor.replaceText_decimal`.
-/
import T2N.Lemmas.TextCor.Decimal
import T2N.Lemmas.TextCor.De
import T2N.Lemmas.ExtDe
import T2N.Props.C01.Text
import T2N.Props.C05

namespace T2N.TextCor.De
open T2N T2N.Lift T2N.Spec T2N.C01Text T2N.TextCor

/-! ### the fraction as a run of `apply_decimal` -/

theorem applyDecimal_digit (w : Word) (d : Nat) (R : List Nat) (hl : T2N.De.decVocab.lookup w = some d) :
    T2N.De.lang.applyDecimal w { rbuf := R } = (none, { rbuf := d :: R }) := by
  show T2N.De.applyDecimal w _ = _
  unfold T2N.De.applyDecimal
  rw [hl]
  rfl

theorem frac_exec : ∀ (ds : List Nat), (∀ d ∈ ds, d < 10) → ∀ (R : List Nat),
    execGroupFrom T2N.De.lang.applyDecimal (ds.map Spec.De.digitWord) { rbuf := R } false =
      .ok { rbuf := ds.reverse ++ R } := by
  intro ds
  induction ds with
  | nil => intro _ R; rfl
  | cons d ds ih =>
    intro hl R
    obtain ⟨_, h2⟩ := T2N.ExtDe.digitWord_ok d (hl d List.mem_cons_self)
    rw [List.map_cons, execGroupFrom_cons_ok (applyDecimal_digit _ _ R h2),
      ih (fun q hq => hl q (List.mem_cons_of_mem _ hq)), List.reverse_cons, List.append_assoc]
    rfl

/-- the spelled fraction is read by `apply_decimal` as its digits -/
theorem fraction_run (v : Var) (ds : List Nat) (hds : ds ≠ []) (h9 : ∀ d ∈ ds, d < 10) :
    ∃ D, execGroupFrom T2N.De.lang.applyDecimal (Spec.De.fraction v ds) DS.new false = .ok D ∧
      D.isEmpty = false ∧ D.render = ds := by
  refine ⟨{ rbuf := ds.reverse }, ?_, ?_, ?_⟩
  · have := frac_exec ds h9 []
    rw [List.append_nil] at this
    exact this
  · show (ds.reverse.isEmpty && (0 : Nat) == 0) = false
    cases hr : ds.reverse with
    | nil => exact absurd (by simpa using hr) hds
    | cons a t => rfl
  · show List.replicate 0 0 ++ ds.reverse.reverse = ds
    rw [List.reverse_reverse]
    rfl

theorem fraction_ne_nil (v : Var) (ds : List Nat) (hds : ds ≠ []) : Spec.De.fraction v ds ≠ [] := by
  intro h
  have := congrArg List.length h
  simp only [Spec.De.fraction, List.length_map, List.length_nil] at this
  exact hds (List.length_eq_zero_iff.mp this)

/-! ### over-ness of the digit words and of the separator -/

theorem digitWord_over' : ∀ d, d < 10 → isOver (Spec.De.digitWord d) = true := by decide

theorem digitWord_over (d : Nat) (h : d < 10) : isOver (Spec.De.digitWord d) = true := digitWord_over' d h

theorem fraction_over (v : Var) (ds : List Nat) (h9 : ∀ d ∈ ds, d < 10) :
    ∀ w ∈ Spec.De.fraction v ds, isOver w = true := by
  intro w hw
  obtain ⟨d, hd, rfl⟩ := List.mem_map.mp hw
  exact digitWord_over d (h9 d hd)

theorem sepWord_over : isOver Spec.De.sepWord = true := by decide

/-! ### the text-level theorem -/

/-- C05 (de), text level: every threshold (integer part: the `ein Million / ein Milliarde` variants, as everywhere) -/
theorem text_c05 {cc : CharClasses} (L : TextLaws cc) (A : AlphaLaws cc) (thr : Nat → Bool)
    (v : Var) (n : Nat) (ds : List Nat) (h : n < 10 ^ 12) (hv : flag v (cp 2 5) = true ∧ flag v (cp 3 5) = true)
    (hds : ds ≠ []) (h9 : ∀ d ∈ ds, d < 10)
    (pre post : List Word) (hpre : ∀ w ∈ pre, Ordinary cc T2N.De.lang w) (hpost : ∀ w ∈ post, Ordinary cc T2N.De.lang w) :
    replaceText cc .german thr
        (joinWords (pre ++ (Spec.De.cardinal v n ++ [Spec.De.sepWord] ++ Spec.De.fraction v ds) ++ post)) =
      .ok (joinWords (pre ++ [decChars n ++ [Spec.De.decMark] ++ ds.map digitChar] ++ post)) := by
  have hval := T2N.C01.C01_validate_de_all v n h hv
  obtain ⟨D, hD, hDne, hDr⟩ := fraction_run v ds hds h9
  have hover : ∀ w ∈ Spec.De.cardinal v n ++ [Spec.De.sepWord] ++ Spec.De.fraction v ds, isOver w = true := by
    intro w hw
    rw [List.mem_append, List.mem_append] at hw
    rcases hw with (hw | hw) | hw
    · exact C01Text.De.cardinal_over v n w hw
    · rw [List.mem_singleton.mp hw]; exact sepWord_over
    · exact fraction_over v ds h9 w hw
  exact replaceText_decimal L A .german thr (by simp [Language.interp, allLangs]) T2N.C07.C07_langAgree_de
    (Spec.De.cardinal v n) (Spec.De.fraction v ds) Spec.De.sepWord n ds D hval
    (first_none_of_valid _ _ _ hval (C01Sent.De.first v n h hv)) rfl
    (fraction_ne_nil v ds hds) hD hDne hDr hover pre post hpre hpost rfl

/-- explicit classes -/
theorem text_c05_simple (thr : Nat → Bool) (v : Var) (n : Nat) (ds : List Nat) (h : n < 10 ^ 12)
    (hv : flag v (cp 2 5) = true ∧ flag v (cp 3 5) = true) (hds : ds ≠ []) (h9 : ∀ d ∈ ds, d < 10)
    (pre post : List Word)
    (hpre : ∀ w ∈ pre, Ordinary simpleCC T2N.De.lang w) (hpost : ∀ w ∈ post, Ordinary simpleCC T2N.De.lang w) :
    replaceText simpleCC .german thr
        (joinWords (pre ++ (Spec.De.cardinal v n ++ [Spec.De.sepWord] ++ Spec.De.fraction v ds) ++ post)) =
      .ok (joinWords (pre ++ [decChars n ++ [Spec.De.decMark] ++ ds.map digitChar] ++ post)) :=
  text_c05 simple_textLaws simple_alphaLaws thr v n ds h hv hds h9 pre post hpre hpost

/-! ### the hypotheses are satisfiable -/

/-- `kostet drei komma null sieben euro`, whatever the threshold (here: everything is "small") -/
example : replaceText simpleCC .german (fun _ => true)
    (joinWords ([w!"kostet"] ++ (Spec.De.cardinal (fun _ => 1) 3 ++ [Spec.De.sepWord] ++
      Spec.De.fraction (fun _ => 1) [0, 7]) ++ [w!"euro"])) =
    .ok (joinWords ([w!"kostet"] ++ [decChars 3 ++ [','] ++ w!"07"] ++ [w!"euro"])) :=
  text_c05_simple _ _ 3 [0, 7] (by decide) (by decide) (by decide) (by decide) _ _
    (fun w hw => by
      have : w = w!"kostet" := by simpa using hw
      subst this
      exact ordinary_simple _ (fun _ => rfl) (fun _ => rfl) rfl (by decide))
    (fun w hw => by
      have : w = w!"euro" := by simpa using hw
      subst this
      exact ordinary_simple _ (fun _ => rfl) (fun _ => rfl) rfl (by decide))

/-- the same kind of sentence as plain strings -/
example : T2N.C01.C01_text_is
    (replaceText simpleCC .german (fun _ => true) "es kostet drei komma null sieben euro".toList)
    "es kostet 3,07 euro" = true := by decide +kernel

end T2N.TextCor.De
