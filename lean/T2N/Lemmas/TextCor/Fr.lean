/-
  T2N.Lemmas.TextCor.Fr — French: the text-level corollaries of C16 (leading zeros) and C04 (ordinals).

  The French annotation pass (`neuf`: nine / new) is the identity on a sentence `pre ++ ws ++ post` as soon as `ws`
  validates, has the structure of a spelled cardinal as far as `et` is concerned (`wordsOK`) and is not the lone
  word `neuf` (`annotate_phrase`, from `C01Text.Fr.frDecW_sentence`). A spelled ordinal is the spelled cardinal
  with the last hyphen part of its last word made ordinal (`ExtFr.cardinal_last`): the new part is made of letters,
  is neither `et` nor `neuf` (`ordAtoms_facts`), so over-ness, `wordsOK` and the first word carry over
  (`swap_facts`, `ordinal_facts`).
-/
import T2N.Lemmas.TextCor
import T2N.Lemmas.C01Text.FrOver
import T2N.Lemmas.C01Text.Fr
import T2N.Lemmas.ExtFr
import T2N.Props.C01.Text
import T2N.Props.C04
import T2N.Props.C16

namespace T2N.TextCor.Fr
open T2N T2N.Lift T2N.Spec T2N.C01Text T2N.TextCor
open T2N.C01Text.Fr (wordsOK okEnd isEt lastPart good frNeufMarked)
open T2N.C01Fr (Atoms)

/-! ### the annotation pass around a phrase that validates -/

/-- the French pass leaves alone the tokens of a sentence around a phrase that validates, whose words are over the
alphabet, with `et` standing where it does in a cardinal, and that is not a marked lone `neuf` -/
theorem annotate_phrase {cc : CharClasses} (L : TextLaws cc) (A : AlphaLaws cc) (ws : List Word) (d : Word)
    (hval : text2digitsWords T2N.Fr.lang ws = .ok d) (hw : wordsOK ws = true) (hover : ∀ w ∈ ws, isOver w = true)
    (pre post : List Word) (hpre : ∀ w ∈ pre, Ordinary cc T2N.Fr.lang w) (hpost : ∀ w ∈ post, Ordinary cc T2N.Fr.lang w)
    (hlone : ws = [w!"neuf"] → frNeufMarked pre = false) :
    Language.french.annotate cc (wordTokens (pre ++ ws ++ post)) = wordTokens (pre ++ ws ++ post) := by
  show annotateFr cc T2N.Fr.lang.apply T2N.Fr.lang.isDecSep _ = _
  obtain ⟨ds0, _, hx0, _, _⟩ := text2digitsWords_ok hval
  have hst := execGroupFrom_stepsOk _ _ _ _ _ hx0
  apply C01Text.Fr.annotateFr_wordTokens L _
    (fun w hw => isPlainWord_tok (plain_of_parts L A T2N.Fr.lang pre ws post hpre hover hpost w hw))
  exact C01Text.Fr.frDecW_sentence pre ws post DS.new hst hw (fun w h => (hpre w h).1) (fun w h => (hpost w h).1) hlone

/-! ### replacing the last hyphen part of the last word -/

theorem wordsOK_swap_last : ∀ (pre : List Word) (W W' : Word), wordsOK (pre ++ [W]) = true → okEnd W' = true →
    W' ≠ w!"neuf" → wordsOK (pre ++ [W']) = true
  | [], _, _, _, h, _ => h
  | [a], W, W', h, h', hn => by
    have h0 : wordsOK [a, W] = true := h
    show wordsOK [a, W'] = true
    rw [C01Text.Fr.wordsOK_cons2] at h0 ⊢
    simp only [Bool.and_eq_true] at h0 ⊢
    have he := C01Text.Fr.okEnd_ne_et h'
    refine ⟨⟨⟨h0.1.1.1, ?_⟩, ?_⟩, h'⟩
    · have : (W' != w!"neuf") = true := by simpa using hn
      rw [this, Bool.or_true]
    · have : (W' != w!"et") = true := by simp only [bne, he, Bool.not_false]
      rw [this, Bool.true_or]
  | a :: b :: t, W, W', h, h', hn => by
    have h0 : wordsOK (a :: b :: (t ++ [W])) = true := h
    show wordsOK (a :: b :: (t ++ [W'])) = true
    rw [C01Text.Fr.wordsOK_cons2] at h0 ⊢
    simp only [Bool.and_eq_true] at h0 ⊢
    exact ⟨h0.1, wordsOK_swap_last (b :: t) W W' h0.2 h' hn⟩

theorem lastPart_hyph (xs : List Word) (A : Word) (hat : Atoms xs) (hA : A.contains '-' = false) :
    lastPart (Spec.Fr.hyphenate (xs ++ [A])) = A := by
  unfold lastPart
  rw [C01Fr.split_hyphenate_atoms _ (Atoms.append hat (Atoms.cons hA Atoms.nil)) (by simp), List.getLast?_append]
  rfl

theorem isOver_left {X Y : Word} (h : isOver (X ++ ['-'] ++ Y) = true) : isOver X = true := by
  cases X with
  | nil =>
    have h' : (isLetter '-' && Y.all (fun x => isLetter x || x == '-')) = true := h
    rw [show isLetter '-' = false by decide] at h'
    cases h'
  | cons c cs =>
    have h' : (isLetter c && (cs ++ ['-'] ++ Y).all (fun x => isLetter x || x == '-')) = true := h
    show (isLetter c && cs.all (fun x => isLetter x || x == '-')) = true
    rw [List.all_append, List.all_append, Bool.and_eq_true, Bool.and_eq_true, Bool.and_eq_true] at h'
    rw [h'.1, h'.2.1.1]
    rfl

theorem hyph_swap_over (xs : List Word) (A A' : Word) (h : isOver (Spec.Fr.hyphenate (xs ++ [A])) = true)
    (hA' : isOver A' = true) : isOver (Spec.Fr.hyphenate (xs ++ [A'])) = true := by
  cases xs with
  | nil => exact hA'
  | cons x t =>
    rw [ExtFr.hyphenate_append (x :: t) [A] (by simp) (by simp)] at h
    rw [ExtFr.hyphenate_append (x :: t) [A'] (by simp) (by simp)]
    exact isOver_hyphen (isOver_left h) hA'

/-- what is asked of the new last part: no hyphen, letters, neither `et` nor `neuf` -/
def atomOK (a : Word) : Bool := !a.contains '-' && isOver a && !isEt a && a != w!"neuf"

/-- the ordinal forms (`-ième`, `-ièmes`) of the numerals that can end a cardinal -/
theorem ordAtoms_facts : ExtFr.ordAtoms.all (fun a =>
    atomOK (Spec.Fr.ordinalOfNumeral a) && atomOK (Spec.Fr.ordinalOfNumeral a ++ ['s'])) = true := by decide

theorem swap_facts (pre xs : List Word) (A A' : Word) (hat : Atoms xs) (hok : atomOK A' = true)
    (hov : ∀ w ∈ pre ++ [Spec.Fr.hyphenate (xs ++ [A])], isOver w = true)
    (hw : wordsOK (pre ++ [Spec.Fr.hyphenate (xs ++ [A])]) = true) :
    (∀ w ∈ pre ++ [Spec.Fr.hyphenate (xs ++ [A'])], isOver w = true) ∧
      wordsOK (pre ++ [Spec.Fr.hyphenate (xs ++ [A'])]) = true ∧
      pre ++ [Spec.Fr.hyphenate (xs ++ [A'])] ≠ [w!"neuf"] := by
  unfold atomOK at hok
  simp only [Bool.and_eq_true, Bool.not_eq_true', bne_iff_ne, ne_eq] at hok
  obtain ⟨⟨⟨h1, h2⟩, h3⟩, h4⟩ := hok
  have hlp := lastPart_hyph xs A' hat h1
  have hoe : okEnd (Spec.Fr.hyphenate (xs ++ [A'])) = true := by
    unfold okEnd
    rw [hlp, h3]
    rfl
  have hne : Spec.Fr.hyphenate (xs ++ [A']) ≠ w!"neuf" := by
    intro e
    rw [e] at hlp
    have e2 : lastPart w!"neuf" = w!"neuf" := by decide
    rw [e2] at hlp
    exact h4 hlp.symm
  refine ⟨?_, wordsOK_swap_last pre _ _ hw hoe hne, ?_⟩
  · intro w hw'
    rcases List.mem_append.mp hw' with hw' | hw'
    · exact hov w (List.mem_append_left _ hw')
    · rw [List.mem_singleton.mp hw']
      exact hyph_swap_over xs A A' (hov _ (by simp)) h2
  · intro e
    cases pre with
    | nil =>
      have : Spec.Fr.hyphenate (xs ++ [A']) = w!"neuf" := by
        injection e
      exact hne this
    | cons p t =>
      have := congrArg List.length e
      simp at this

/-! ### the spelled ordinals -/

/-- all that the text-level theorem needs of a spelled French ordinal -/
theorem ordinal_facts (v : Var) (n i : Nat) (ws : List Word) (mk : Word) (hn : 0 < n) (h : n ≤ 10 ^ 6)
    (ho : Spec.Fr.ordinal v n i = some (ws, mk)) :
    WellFormed.headNotDigit mk = true ∧ (∀ w ∈ ws, isOver w = true) ∧ wordsOK ws = true ∧ ws ≠ [w!"neuf"] ∧
      (∀ w ∈ ws.head?, (T2N.Fr.lang.apply w DS.new).1 = none) := by
  have hval := ExtFr.C04_validate_fr v n i ws mk hn h ho
  unfold Spec.Fr.ordinal at ho
  have c0 : ¬ ((n == 0 || decide (n > 1000000)) = true) := by simp; omega
  rw [if_neg c0] at ho
  by_cases h1 : n = 1
  · subst h1
    rw [if_pos (by rfl)] at ho
    rcases i with _ | _ | _ | _ | i
    · obtain ⟨rfl, rfl⟩ : [w!"premier"] = ws ∧ w!"er" = mk := by simpa using ho
      exact ⟨by decide, by decide, by decide, by decide, first_of_single _ _ _ hval⟩
    · obtain ⟨rfl, rfl⟩ : [w!"premiers"] = ws ∧ w!"ers" = mk := by simpa using ho
      exact ⟨by decide, by decide, by decide, by decide, first_of_single _ _ _ hval⟩
    · obtain ⟨rfl, rfl⟩ : [w!"première"] = ws ∧ w!"ère" = mk := by simpa using ho
      exact ⟨by decide, by decide, by decide, by decide, first_of_single _ _ _ hval⟩
    · obtain ⟨rfl, rfl⟩ : [w!"premières"] = ws ∧ w!"ères" = mk := by simpa using ho
      exact ⟨by decide, by decide, by decide, by decide, first_of_single _ _ _ hval⟩
    · exact absurd ho (by simp)
  · rw [if_neg (by simp [h1])] at ho
    by_cases hM : n = 1000000
    · subst hM
      have eM : Spec.Fr.ordinalWords v 1000000 = [w!"millionième"] := rfl
      rcases i with _ | _ | i
      · obtain ⟨rfl, rfl⟩ : Spec.Fr.ordinalWords v 1000000 = ws ∧ w!"ème" = mk := by simpa using ho
        rw [eM] at hval ⊢
        exact ⟨by decide, by decide, by decide, by decide, first_of_single _ _ _ hval⟩
      · obtain ⟨rfl, rfl⟩ : Spec.Fr.pluralize (Spec.Fr.ordinalWords v 1000000) = ws ∧ w!"èmes" = mk := by
          simpa using ho
        rw [eM] at hval ⊢
        exact ⟨by decide, by decide, by decide, by decide, first_of_single _ _ _ hval⟩
      · exact absurd ho (by simp)
    · obtain ⟨pre, xs, A0, hcard, hat, hA⟩ := ExtFr.cardinal_last v n (by omega) (by omega)
      have hw : Spec.Fr.ordinalWords v n = pre ++ [Spec.Fr.hyphenate (xs ++ [Spec.Fr.ordinalOfNumeral A0])] := by
        rw [ExtFr.ordinalWords_eq v n hM pre _ hcard, ExtFr.ordinalOfLastWord_eq xs A0 hat hA]
      have hfacts := List.all_eq_true.mp ordAtoms_facts A0 hA
      rw [Bool.and_eq_true] at hfacts
      have hcv := T2N.C01.C01_validate_fr_all (ExtFr.ordVar v) n (by omega)
      have hcf := first_none_of_valid _ _ _ hcv (C01Sent.Fr.first (ExtFr.ordVar v) n)
      have hov := C01Text.FrOver.cardinal_over (ExtFr.ordVar v) n
      have hgood := C01Text.Fr.good_wordsOK (C01Text.Fr.cardinal_good (ExtFr.ordVar v) n)
      rw [hcard] at hcf hov hgood
      rcases i with _ | _ | i
      · obtain ⟨rfl, rfl⟩ : Spec.Fr.ordinalWords v n = ws ∧ w!"ème" = mk := by simpa using ho
        rw [hw] at hval ⊢
        obtain ⟨f1, f2, f3⟩ := swap_facts pre xs A0 _ hat hfacts.1 hov hgood
        exact ⟨by decide, f1, f2, f3, first_of_swap_last _ pre _ _ _ hval hcf⟩
      · obtain ⟨rfl, rfl⟩ : Spec.Fr.pluralize (Spec.Fr.ordinalWords v n) = ws ∧ w!"èmes" = mk := by simpa using ho
        rw [hw, ExtFr.pluralize_eq, ExtFr.hyphenate_snoc_s] at hval ⊢
        obtain ⟨f1, f2, f3⟩ := swap_facts pre xs A0 _ hat hfacts.2 hov hgood
        exact ⟨by decide, f1, f2, f3, first_of_swap_last _ pre _ _ _ hval hcf⟩
      · exact absurd ho (by simp)

/-! ### the text-level theorems -/

/-- C16 (fr), text level; the hypothesis on `neuf` only concerns `k = 0`, `n = 9` (then it is C01) -/
theorem text_c16 {cc : CharClasses} (L : TextLaws cc) (A : AlphaLaws cc) (thr : Nat → Bool)
    (v : Var) (k n : Nat) (hn : 0 < n) (h : n < 10 ^ 12) (hthr : k = 0 → n < 10 → thr n = false)
    (pre post : List Word) (hpre : ∀ w ∈ pre, Ordinary cc T2N.Fr.lang w) (hpost : ∀ w ∈ post, Ordinary cc T2N.Fr.lang w)
    (hneuf : k = 0 → n = 9 → C01Text.Fr.frNeufMarked pre = false) :
    replaceText cc .french thr
        (joinWords (pre ++ (List.replicate k Spec.Fr.zeroWord ++ Spec.Fr.cardinal v n) ++ post)) =
      .ok (joinWords (pre ++ [List.replicate k '0' ++ decChars n] ++ post)) := by
  by_cases hk : k = 0
  · subst hk
    exact T2N.C01.C01_text_fr L A thr v n h (hthr rfl) pre post hpre hpost (hneuf rfl)
  · have hval := T2N.C16.C16_validate_fr_all v k n hn h
    have hover : ∀ w ∈ List.replicate k Spec.Fr.zeroWord ++ Spec.Fr.cardinal v n, isOver w = true := by
      intro w hw
      rcases List.mem_append.mp hw with hw | hw
      · rw [List.eq_of_mem_replicate hw]; decide
      · exact C01Text.FrOver.cardinal_over v n w hw
    refine replaceText_zeros L A .french thr (by simp [Language.interp, allLangs]) T2N.C07.C07_langAgree_fr
      Spec.Fr.zeroWord (Spec.Fr.cardinal v n) k n (by omega) hval (by decide) (by decide)
      (C01Text.FrOver.cardinal_over v n) pre post hpre hpost ?_
    refine annotate_phrase L A _ _ hval ?_ hover pre post hpre hpost ?_
    · apply C01Text.Fr.good_wordsOK
      refine C01Text.Fr.good_append (C01Text.Fr.good_of_okEnd _ ?_) (C01Text.Fr.cardinal_good v n)
      intro a ha
      rw [List.eq_of_mem_replicate ha]
      decide
    · intro e
      exfalso
      obtain ⟨k', rfl⟩ : ∃ k', k = k' + 1 := ⟨k - 1, by omega⟩
      rw [List.replicate_succ, List.cons_append] at e
      injection e with e1 _
      exact absurd e1 (by decide)

/-- C04 (fr), text level: whatever the speller produces (same hypotheses as `T2N.C04.C04_validate_fr_all`) -/
theorem text_c04 {cc : CharClasses} (L : TextLaws cc) (A : AlphaLaws cc) (thr : Nat → Bool)
    (v : Var) (n i : Nat) (ws : List Word) (mk : Word) (hn : 0 < n) (h : n ≤ 10 ^ 6)
    (ho : Spec.Fr.speller.ordinal v n i = some (ws, mk)) (hthr : thr n = false)
    (pre post : List Word) (hpre : ∀ w ∈ pre, Ordinary cc T2N.Fr.lang w) (hpost : ∀ w ∈ post, Ordinary cc T2N.Fr.lang w) :
    replaceText cc .french thr (joinWords (pre ++ ws ++ post)) = .ok (joinWords (pre ++ [decChars n ++ mk] ++ post)) := by
  have hval := T2N.C04.C04_validate_fr_all v n i ws mk hn h ho
  obtain ⟨hmk, hover, hwok, hne, hfirst⟩ := ordinal_facts v n i ws mk hn h ho
  exact replaceText_ordinal L A .french thr (by simp [Language.interp, allLangs]) T2N.C07.C07_langAgree_fr ws n mk
    hmk hthr hval hfirst hover pre post hpre hpost
    (annotate_phrase L A ws _ hval hwok hover pre post hpre hpost (fun e => absurd e hne))

/-! ### the hypotheses are satisfiable -/

theorem ordinary_of_nan (w : Word) (h1 : ∀ b, (T2N.Fr.lang.apply w b).1 = some .nan)
    (h2 : ∀ b, (T2N.Fr.lang.applyDecimal w b).1 = some .nan)
    (h3 : T2N.Fr.lang.isDecSep w = false) (h4 : isPlainWord simpleCC w = true) : Ordinary simpleCC T2N.Fr.lang w :=
  ⟨Lang.rejects_of_apply T2N.Fr.lang _ (fun b => ⟨.nan, h1 b, by intro h; cases h⟩)
    (fun b => ⟨.nan, h2 b, by intro h; cases h⟩) h3, h4⟩

/-- `chambre zéro zéro sept merci` → `chambre 007 merci`, whatever the threshold (here: everything is "small") -/
example : replaceText simpleCC .french (fun _ => true)
    (joinWords ([w!"chambre"] ++ (List.replicate 2 Spec.Fr.zeroWord ++ Spec.Fr.cardinal (fun _ => 0) 7) ++ [w!"merci"])) =
    .ok (joinWords ([w!"chambre"] ++ [List.replicate 2 '0' ++ decChars 7] ++ [w!"merci"])) :=
  text_c16 simple_textLaws simple_alphaLaws _ _ 2 7 (by decide) (by decide) (fun h0 => by cases h0) _ _
    (fun w hw => by
      have : w = w!"chambre" := by simpa using hw
      subst this
      exact ordinary_of_nan _ (fun _ => rfl) (fun _ => rfl) rfl (by decide))
    (fun w hw => by
      have : w = w!"merci" := by simpa using hw
      subst this
      exact ordinary_of_nan _ (fun _ => rfl) (fun _ => rfl) rfl (by decide))
    (fun h0 => by cases h0)

/-- `voici le … prix` with the ordinal of rank 389 in the plural (1990-reform spelling), even after an article -/
example : replaceText simpleCC .french zeroThr
    (joinWords ([w!"voici", w!"le"] ++ Spec.Fr.pluralize (Spec.Fr.ordinalWords (fun _ => 2) 389) ++ [w!"prix"])) =
    .ok (joinWords ([w!"voici", w!"le"] ++ [decChars 389 ++ w!"èmes"] ++ [w!"prix"])) :=
  text_c04 simple_textLaws simple_alphaLaws zeroThr (fun _ => 2) 389 1 _ _ (by decide) (by decide) rfl rfl _ _
    (fun w hw => by
      simp only [List.mem_cons, List.not_mem_nil, or_false] at hw
      rcases hw with rfl | rfl <;>
        exact ordinary_of_nan _ (fun _ => rfl) (fun _ => rfl) rfl (by decide))
    (fun w hw => by
      have : w = w!"prix" := by simpa using hw
      subst this
      exact ordinary_of_nan _ (fun _ => rfl) (fun _ => rfl) rfl (by decide))

/-- the same kinds of sentence as plain strings -/
example : T2N.C01.C01_text_is (replaceText simpleCC .french (fun _ => true) "chambre zéro zéro neuf merci".toList)
    "chambre 009 merci" = true := by decide +kernel

example : T2N.C01.C01_text_is (replaceText simpleCC .french zeroThr "voici le vingt et unième prix".toList)
    "voici le 21ème prix" = true := by decide +kernel

end T2N.TextCor.Fr
