/-
  T2N.Lemmas.TextCor.En — English: every word of a spelled ordinal / of a spelled fraction is a word over the
  alphabet of at least two characters (in particular it is not `o`); the first word of a spelled ordinal is
  accepted by the fresh builder.
-/
import T2N.Lemmas.TextCor
import T2N.Lemmas.TextCor.Decimal
import T2N.Lemmas.C01Text.En
import T2N.Lemmas.EnExt

namespace T2N.TextCor.En
open T2N T2N.Spec T2N.C01Text T2N.C01Text.En T2N.EnExt

theorem P_append {w s : Word} (hw : P w = true) (hs : s.all (fun x => isLetter x || x == '-') = true) :
    P (w ++ s) = true := by
  unfold P at *
  rw [Bool.and_eq_true] at *
  refine ⟨isOver_append hw.1 hs, ?_⟩
  have := of_decide_eq_true hw.2
  simp only [List.length_append, decide_eq_true_eq]
  omega

theorem P_pl (plural : Bool) {w : Word} (hw : P w = true) : P (pl plural w) = true := by
  cases plural
  · exact hw
  · exact P_append hw (by decide)

theorem P_th {w : Word} (hw : P w = true) : P (w ++ w!"th") = true := P_append hw (by decide)

theorem ordUnit_P' : ∀ r, r < 20 → r ≠ 0 → P (Spec.En.ordUnitWords.getD r []) = true := by decide

theorem ordUnit_P (r : Nat) (h0 : r ≠ 0) (h : r < 20) : P (Spec.En.ordUnitWords.getD r []) = true :=
  ordUnit_P' r h h0

theorem ordTens_P (v : Var) (t : Nat) (h2 : 2 ≤ t) (h9 : t < 10) (w : Word) :
    P (if (10 * t == 40 && flag v (cp 0 2)) = true then w!"fourtieth" else Spec.En.ordTensWords.getD t w) = true := by
  rw [getD_ordTens t w h2 h9]
  have : t = 2 ∨ t = 3 ∨ t = 4 ∨ t = 5 ∨ t = 6 ∨ t = 7 ∨ t = 8 ∨ t = 9 := by omega
  rcases this with rfl | rfl | rfl | rfl | rfl | rfl | rfl | rfl <;> cases flag v (cp 0 2) <;> decide

/-- the ordinal form of the last word of a group below 100 -/
theorem newLast_below_P (v : Var) (r : Nat) (h0 : r ≠ 0) (h1 : r < 100) :
    P (newLastOf v (lvB r) (lastB (sing v) 0 r)) = true := by
  unfold lastB lvB
  by_cases h20 : r < 20
  · rw [if_pos h20, if_pos h20]
    obtain ⟨a, hpl, _⟩ := plain_below20 r h0 h20
    rw [newLast_nohyphen v r _ h0 hpl.1, Spec.En.ordinalOfLast, if_pos h20, getD_ordUnit r _ h0 h20]
    exact ordUnit_P r h0 h20
  · rw [if_neg h20, if_neg h20]
    by_cases hu : r % 10 = 0
    · rw [if_pos hu, if_pos hu]
      obtain ⟨t, rfl⟩ : ∃ t, r = 10 * t := ⟨r / 10, by omega⟩
      have ht : 10 * t / 10 = t := by omega
      rw [ht]
      have hpl := C01En.plain_tens (sing v) 0 t (by omega) (by omega)
      rw [newLast_nohyphen v _ _ h0 hpl.1, Spec.En.ordinalOfLast, if_neg h20, if_pos (by simp; omega), ht]
      exact ordTens_P v t (by omega) (by omega) _
    · rw [if_neg hu, if_neg hu]
      have hu9 : r % 10 < 10 := by omega
      have hlt : r % 10 < 20 := by omega
      have hplU := C01En.plain_unit (r % 10) hu hu9
      by_cases hf : flag (sing v) (cp 0 0) = true
      · rw [if_pos hf]
        rw [newLast_nohyphen v _ _ hu hplU.1, Spec.En.ordinalOfLast, if_pos hlt, getD_ordUnit _ _ hu hlt]
        exact ordUnit_P _ hu hlt
      · rw [if_neg hf]
        have hplT := C01En.plain_tens (sing v) 0 (r / 10) (by omega) (by omega)
        rw [newLast_compound v _ _ _ hu hplT.1 hplU.1, Spec.En.ordinalOfLast, if_pos hlt, getD_ordUnit _ _ hu hlt]
        have ht := tens_P (sing v) 0 (r / 10) (by omega) (by omega)
        have ho := ordUnit_P (r % 10) hu hlt
        unfold P at *
        rw [Bool.and_eq_true] at *
        refine ⟨isOver_hyphen ht.1 ho.1, ?_⟩
        have := of_decide_eq_true ht.2
        simp only [List.length_append, decide_eq_true_eq]
        omega

theorem scale_sing_P (v : Var) (g : Nat) : P (Spec.En.scaleWord (sing v) g) = true := scale_P (sing v) g

/-- the new last word of the ordinal -/
theorem newLast_P (v : Var) (n : Nat) : P (newLastOf v (lastVal n) (lastW (sing v) n)) = true := by
  rw [lastVal_eq]
  unfold lastW
  have nl0 : ∀ w, newLastOf v 0 w = w ++ w!"th" := fun w => rfl
  by_cases h0 : n % 1000 = 0
  · have hr : n % 1000 % 100 = 0 := by omega
    rw [if_pos h0, if_pos hr, nl0]
    apply P_th
    split
    · exact scale_sing_P v 1
    · split
      · exact scale_sing_P v 2
      · exact scale_sing_P v 3
  · rw [if_neg h0]
    by_cases hr : n % 1000 % 100 = 0
    · rw [if_pos hr, if_pos hr, nl0]
      decide
    · rw [if_neg hr, if_neg hr]
      exact newLast_below_P v _ hr (by omega)

/-- the shape of a spelled ordinal: the cardinal (singular scale words) with its last word replaced -/
theorem ordinal_shape (v : Var) (n : Nat) (hn : n ≠ 0) (h12 : n < 10 ^ 12) (plural : Bool) :
    ∃ pre, Spec.En.cardinal (sing v) n = pre ++ [lastW (sing v) n] ∧
      Spec.En.ordinal v n plural = pre ++ [pl plural (newLastOf v (lastVal n) (lastW (sing v) n))] := by
  obtain ⟨pre, hpre⟩ := List.getLast?_eq_some_iff.mp (cardinal_last (sing v) n hn h12)
  exact ⟨pre, hpre, ordinal_eq v n plural pre _ hpre⟩

theorem ordinal_P (v : Var) (n : Nat) (hn : n ≠ 0) (h12 : n < 10 ^ 12) (plural : Bool) :
    (Spec.En.ordinal v n plural).all P = true := by
  obtain ⟨pre, hc, ho⟩ := ordinal_shape v n hn h12 plural
  have hcp := cardinal_P (sing v) n
  rw [hc, List.all_append, Bool.and_eq_true] at hcp
  rw [ho, List.all_append, hcp.1, List.all_cons, List.all_nil, P_pl plural (newLast_P v n)]
  rfl

/-- every word of a spelled English ordinal is over the alphabet -/
theorem ordinal_over (v : Var) (n : Nat) (hn : n ≠ 0) (h12 : n < 10 ^ 12) (plural : Bool) :
    ∀ w ∈ Spec.En.ordinal v n plural, isOver w = true := by
  intro w hw
  have := List.all_eq_true.mp (ordinal_P v n hn h12 plural) w hw
  unfold P at this
  rw [Bool.and_eq_true] at this
  exact this.1

/-- … and is not the word `o` -/
theorem ordinal_not_o (v : Var) (n : Nat) (hn : n ≠ 0) (h12 : n < 10 ^ 12) (plural : Bool) :
    ∀ w ∈ Spec.En.ordinal v n plural, w ≠ ['o'] := by
  intro w hw e
  have := List.all_eq_true.mp (ordinal_P v n hn h12 plural) w hw
  rw [e] at this
  cases this

/-- the first word of a spelled ordinal is accepted by the fresh builder -/
theorem ordinal_first (v : Var) (n : Nat) (hn : n ≠ 0) (h12 : n < 10 ^ 12) (plural : Bool) (d dc : Word)
    (hval : text2digitsWords T2N.En.lang (Spec.En.ordinal v n plural) = .ok d)
    (hvc : text2digitsWords T2N.En.lang (Spec.En.cardinal (sing v) n) = .ok dc) :
    ∀ w ∈ (Spec.En.ordinal v n plural).head?, (T2N.En.lang.apply w DS.new).1 = none := by
  obtain ⟨pre, hc, ho⟩ := ordinal_shape v n hn h12 plural
  have hcf := Lift.EnScan.en_hfirst (sing v) n dc hvc
  rw [ho] at hval ⊢
  rw [hc] at hcf
  cases pre with
  | nil =>
    intro w hw
    have : w = pl plural (newLastOf v (lastVal n) (lastW (sing v) n)) := by simpa using hw.symm
    rw [this]
    exact Lift.valid_alone hval
  | cons p t =>
    intro w hw
    exact hcf w (by simpa using hw)

/-! ### zeros, fraction words, digit words -/

theorem zero_P : P Spec.En.zeroWord = true := by decide

theorem fraction_P (v : Var) (ds : List Nat) (h9 : ∀ d ∈ ds, d < 10) : (Spec.En.fraction v ds).all P = true := by
  rw [fraction_eq, List.all_map, List.all_eq_true]
  intro p hp
  have hd : p.2 < 10 := h9 p.2 (List.of_mem_zip hp).2
  show P (fracWord v p) = true
  unfold fracWord
  split
  · generalize pick v (cp 15 (p.1 % 16)) 2 = k
    cases k with
    | zero => decide
    | succ k => show P w!"nought" = true; decide
  · exact unit_P p.2 (by omega)

theorem digitWord_P (d : Nat) (h : d < 10) : P (Spec.En.digitWord d) = true := unit_P d (by omega)

theorem over_of_P {w : Word} (h : P w = true) : isOver w = true := by
  unfold P at h
  rw [Bool.and_eq_true] at h
  exact h.1

theorem not_o_of_P {w : Word} (h : P w = true) : w ≠ ['o'] := by
  intro e
  rw [e] at h
  cases h

/-! ### the fraction as a run of `apply_decimal` -/

theorem applyDecimal_digit (w : Word) (d : Nat) (R : List Nat) (hl : T2N.En.decVocab.lookup w = some d) :
    T2N.En.lang.applyDecimal w { rbuf := R } = (none, { rbuf := d :: R }) := by
  show T2N.En.applyDecimal w _ = _
  unfold T2N.En.applyDecimal
  rw [hl]
  rfl

theorem frac_exec (v : Var) : ∀ (l : List (Nat × Nat)), (∀ p ∈ l, p.2 < 10) → ∀ (R : List Nat),
    execGroupFrom T2N.En.lang.applyDecimal (l.map (fracWord v)) { rbuf := R } false =
      .ok { rbuf := (l.map Prod.snd).reverse ++ R } := by
  intro l
  induction l with
  | nil => intro _ R; rfl
  | cons p l ih =>
    intro hl R
    obtain ⟨_, h2⟩ := fracWord_ok v p (hl p List.mem_cons_self)
    rw [List.map_cons, execGroupFrom_cons_ok (applyDecimal_digit _ _ R h2),
      ih (fun q hq => hl q (List.mem_cons_of_mem _ hq)), List.map_cons, List.reverse_cons, List.append_assoc]
    rfl

/-- the spelled fraction is read by `apply_decimal` as its digits -/
theorem fraction_run (v : Var) (ds : List Nat) (hds : ds ≠ []) (h9 : ∀ d ∈ ds, d < 10) :
    ∃ D, execGroupFrom T2N.En.lang.applyDecimal (Spec.En.fraction v ds) DS.new false = .ok D ∧
      D.isEmpty = false ∧ D.render = ds := by
  have hl : ∀ p ∈ (List.range ds.length).zip ds, p.2 < 10 := fun p hp => h9 p.2 (List.of_mem_zip hp).2
  have hsnd : ((List.range ds.length).zip ds).map Prod.snd = ds :=
    List.map_snd_zip (by rw [List.length_range]; exact Nat.le_refl _)
  refine ⟨{ rbuf := ds.reverse }, ?_, ?_, ?_⟩
  · rw [fraction_eq]
    have := frac_exec v _ hl []
    rw [hsnd, List.append_nil] at this
    exact this
  · show (ds.reverse.isEmpty && (0 : Nat) == 0) = false
    cases hr : ds.reverse with
    | nil => exact absurd (by simpa using hr) hds
    | cons a t => rfl
  · show List.replicate 0 0 ++ ds.reverse.reverse = ds
    rw [List.reverse_reverse]
    rfl

theorem fraction_ne_nil (v : Var) (ds : List Nat) (hds : ds ≠ []) : Spec.En.fraction v ds ≠ [] := by
  rw [fraction_eq]
  intro h
  have := congrArg List.length h
  simp only [List.length_map, List.length_zip, List.length_range, List.length_nil, Nat.min_self] at this
  exact hds (List.length_eq_zero_iff.mp this)

end T2N.TextCor.En
