/-
  T2N.Lemmas.TextCor.It — Italian: text-level corollaries of C16 (leading zeros) and C04 (ordinals).
  The spelled ordinal is ONE word (`ordStem v n ++ [inflVowel i]`), made of letters only and not empty.
-/
import T2N.Lemmas.TextCor
import T2N.Lemmas.C01Text.It
import T2N.Props.C01.Text
import T2N.Props.C04
import T2N.Props.C16

namespace T2N.TextCor.It
open T2N T2N.Lift T2N.Spec T2N.C01Text T2N.TextCor
open T2N.C01Text.It (Q Q_iff isOver_of_Q isLetters_dropLast belowMillion_Q letters_of_Q)

/-! ### the ordinal word is over the alphabet -/

/-- letters followed by a non-empty run of letters -/
theorem Q_suffix {a b : Word} (ha : isLetters a = true) (hb : Q b = true) : Q (a ++ b) = true := by
  rw [Q_iff] at *
  rw [List.length_append]
  exact ⟨isLetters_append ha hb.1, by omega⟩

theorem ordUnitStem_Q : ∀ n, n ≤ 10 → 0 < n → Q (Spec.It.ordUnitStems.getD n []) = true := by decide

/-- the single word of a one-word spelling (the empty word otherwise) is made of letters -/
theorem single_letters (v : Var) (n : Nat) (hn : n < 1000000) :
    isLetters (match Spec.It.belowMillion v n with | [w] => w | _ => []) = true := by
  have h := belowMillion_Q v n hn
  generalize Spec.It.belowMillion v n = l at h
  split
  · rw [List.all_cons, Bool.and_eq_true] at h
    exact letters_of_Q h.1
  · rfl

/-- the ordinal stem: letters only, not empty -/
theorem ordStem_Q (v : Var) (n : Nat) (hn : 0 < n) (h : n ≤ 10 ^ 6) : Q (Spec.It.ordStem v n) = true := by
  unfold Spec.It.ordStem
  split
  · decide
  · next h6 =>
    have hlt : n < 1000000 := by
      have : n ≠ 1000000 := by simpa using h6
      omega
    split
    · next h10 => exact ordUnitStem_Q n h10 hn
    · dsimp only
      have hw := single_letters
        (fun i => if i % 16 == 4 then v i else if i % 16 == 3 then 1 else 0) n hlt
      split
      · decide
      · split
        · exact Q_suffix (isLetters_dropLast (isLetters_dropLast (isLetters_dropLast (isLetters_dropLast hw))))
            (by decide)
        · split
          · exact Q_suffix (isLetters_dropLast (isLetters_dropLast (isLetters_dropLast (isLetters_dropLast
              (isLetters_dropLast hw))))) (by decide)
          · split
            · exact Q_suffix hw (by decide)
            · exact Q_suffix (isLetters_dropLast hw) (by decide)

theorem inflVowel_letters (i : Nat) : isLetters [Spec.It.inflVowel i] = true := by
  unfold Spec.It.inflVowel
  split <;> decide

/-- the one word of a spelled Italian ordinal is over the alphabet -/
theorem ordinalWord_over (v : Var) (n i : Nat) (hn : 0 < n) (h : n ≤ 10 ^ 6) :
    isOver (Spec.It.ordStem v n ++ [Spec.It.inflVowel i]) = true :=
  isOver_of_Q (C01Text.It.Q_append (ordStem_Q v n hn h) (inflVowel_letters i))

theorem marker_headNotDigit (i : Nat) : WellFormed.headNotDigit (Spec.It.ordinalMarker i) = true := by
  unfold Spec.It.ordinalMarker
  split <;> decide

/-- what the speller produces: one word and the marker of the inflection -/
theorem ordinal_shape (v : Var) (n i : Nat) (ws : List Word) (mk : Word)
    (ho : Spec.It.speller.ordinal v n i = some (ws, mk)) :
    ws = [Spec.It.ordStem v n ++ [Spec.It.inflVowel i]] ∧ mk = Spec.It.ordinalMarker i := by
  have ho' : Spec.It.ordinal v n i = some (ws, mk) := ho
  unfold Spec.It.ordinal at ho'
  split at ho'
  · cases ho'
  · split at ho'
    · cases ho'
    · injection ho' with ho'
      injection ho' with h1 h2
      exact ⟨h1.symm, h2.symm⟩

/-! ### the two theorems -/

/-- C16 (it), text level -/
theorem text_c16 {cc : CharClasses} (L : TextLaws cc) (A : AlphaLaws cc) (thr : Nat → Bool)
    (v : Var) (k n : Nat) (hn : 0 < n) (h : n < 10 ^ 12) (hthr : k = 0 → n < 10 → thr n = false)
    (pre post : List Word) (hpre : ∀ w ∈ pre, Ordinary cc T2N.It.lang w) (hpost : ∀ w ∈ post, Ordinary cc T2N.It.lang w) :
    replaceText cc .italian thr
        (joinWords (pre ++ (List.replicate k Spec.It.zeroWord ++ Spec.It.cardinal v n) ++ post)) =
      .ok (joinWords (pre ++ [List.replicate k '0' ++ decChars n] ++ post)) := by
  by_cases hk : k = 0
  · subst hk
    exact T2N.C01.C01_text_it L A thr v n h (hthr rfl) pre post hpre hpost
  · exact replaceText_zeros L A .italian thr (by simp [Language.interp, allLangs]) T2N.C07.C07_langAgree_it
      Spec.It.zeroWord (Spec.It.cardinal v n) k n (by omega) (T2N.C16.C16_validate_it_all v k n hn h)
      (by decide) (by decide) (C01Text.It.cardinal_over v n) pre post hpre hpost rfl

/-- C04 (it), text level: whatever the speller produces (same hypotheses as `T2N.C04.C04_validate_it_all`) -/
theorem text_c04 {cc : CharClasses} (L : TextLaws cc) (A : AlphaLaws cc) (thr : Nat → Bool)
    (v : Var) (n i : Nat) (hn : 0 < n) (h : n ≤ 10 ^ 6) (ws : List Word) (mk : Word)
    (ho : Spec.It.speller.ordinal v n i = some (ws, mk)) (hthr : thr n = false)
    (pre post : List Word) (hpre : ∀ w ∈ pre, Ordinary cc T2N.It.lang w) (hpost : ∀ w ∈ post, Ordinary cc T2N.It.lang w) :
    replaceText cc .italian thr (joinWords (pre ++ ws ++ post)) = .ok (joinWords (pre ++ [decChars n ++ mk] ++ post)) := by
  have hval := T2N.C04.C04_validate_it_all v n i hn h ws mk ho
  obtain ⟨hws, hmk⟩ := ordinal_shape v n i ws mk ho
  subst hws
  refine replaceText_ordinal L A .italian thr (by simp [Language.interp, allLangs]) T2N.C07.C07_langAgree_it
    _ n mk ?_ hthr hval (first_of_single _ _ _ hval) ?_ pre post hpre hpost rfl
  · rw [hmk]; exact marker_headNotDigit i
  · intro w hw
    rw [List.mem_singleton] at hw
    rw [hw]
    exact ordinalWord_over v n i hn h

/-! ### the hypotheses are satisfiable -/

/-- `stanza zero zero sette grazie` ↦ `stanza 007 grazie`, whatever the threshold (here: everything is "small") -/
example : replaceText simpleCC .italian (fun _ => true)
    (joinWords ([w!"stanza"] ++ (List.replicate 2 Spec.It.zeroWord ++ Spec.It.cardinal (fun _ => 0) 7) ++ [w!"grazie"])) =
    .ok (joinWords ([w!"stanza"] ++ [List.replicate 2 '0' ++ decChars 7] ++ [w!"grazie"])) :=
  text_c16 simple_textLaws simple_alphaLaws _ _ 2 7 (by decide) (by decide) (fun h0 => by cases h0) _ _
    (fun w hw => by
      have : w = w!"stanza" := by simpa using hw
      subst this
      exact ⟨Lang.rejects_of_apply T2N.It.lang _ (fun _ => ⟨.nan, rfl, by intro h; cases h⟩)
        (fun _ => ⟨.nan, rfl, by intro h; cases h⟩) rfl, by decide⟩)
    (fun w hw => by
      have : w = w!"grazie" := by simpa using hw
      subst this
      exact ⟨Lang.rejects_of_apply T2N.It.lang _ (fun _ => ⟨.nan, rfl, by intro h; cases h⟩)
        (fun _ => ⟨.nan, rfl, by intro h; cases h⟩) rfl, by decide⟩)

/-- `il ventitreesimo piano` ↦ `il 23º piano` -/
example : replaceText simpleCC .italian zeroThr
    (joinWords ([w!"il"] ++ [Spec.It.ordStem (fun _ => 0) 23 ++ [Spec.It.inflVowel 0]] ++ [w!"piano"])) =
    .ok (joinWords ([w!"il"] ++ [decChars 23 ++ Spec.It.ordinalMarker 0] ++ [w!"piano"])) :=
  text_c04 simple_textLaws simple_alphaLaws zeroThr (fun _ => 0) 23 0 (by decide) (by decide) _ _ rfl rfl _ _
    (fun w hw => by
      have : w = w!"il" := by simpa using hw
      subst this
      exact ⟨Lang.rejects_of_apply T2N.It.lang _ (fun _ => ⟨.nan, rfl, by intro h; cases h⟩)
        (fun _ => ⟨.nan, rfl, by intro h; cases h⟩) rfl, by decide⟩)
    (fun w hw => by
      have : w = w!"piano" := by simpa using hw
      subst this
      exact ⟨Lang.rejects_of_apply T2N.It.lang _ (fun _ => ⟨.nan, rfl, by intro h; cases h⟩)
        (fun _ => ⟨.nan, rfl, by intro h; cases h⟩) rfl, by decide⟩)

/-- the same sentences as plain strings -/
example : T2N.C01.C01_text_is (replaceText simpleCC .italian (fun _ => true) "stanza zero zero sette grazie".toList)
    "stanza 007 grazie" = true := by decide +kernel

example : T2N.C01.C01_text_is (replaceText simpleCC .italian zeroThr "il ventitreesimo piano".toList)
    "il 23º piano" = true := by decide +kernel

end T2N.TextCor.It
