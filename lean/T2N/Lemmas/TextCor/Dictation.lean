/-
  T2N.Lemmas.TextCor.Dictation — several numbers in one phrase (digit dictation, C08) at the text level.

  1. `findNumbers_cc`: at threshold 0 and without separation hints the scanner observes the character classes
     only through `isSkipped`: two configurations with the same language that skip the same tokens report the same
     occurrences (same spans, texts, values) — the `outside_number` test, which reads `is_alphabetic`, only moves
     `last_contiguous_match`, which is not consulted when nothing is ever held back.
  2. `tiled_of_cover`: occurrences over `wordTokens ws` that are ordered, disjoint, non-empty, begin and end on word
     tokens and cover every word token TILE the phrase: the first starts at 0, each next one starts one token (the
     space) after the previous one ended, the last ends with the phrase.
  3. `splice_tiled`: replacing tiling occurrences in a sentence gives the sentence with the phrase replaced by
     the texts of the occurrences, joined by single spaces.
  4. `replaceText_tiled`: the text-level statement for a phrase whose words are all valid numbers on their own
     (accepted by the fresh builder): the sentence is rewritten with the texts found over `simpleCC`.
-/
import T2N.Lemmas.TextCor.Decimal
import T2N.Lemmas.C01Text.Fr
import T2N.Props.C06

namespace T2N.TextCor
open T2N T2N.Lift T2N.Spec T2N.C01Text

/-! ## 1. the character classes are only observed through `isSkipped` (threshold 0, no hints) -/

/-- the two scanners agree on everything that is observed at threshold 0 -/
def CSim (s1 s2 : Scanner) : Prop :=
  s1.parser = s2.parser ∧ s1.tracker.queue = s2.tracker.queue ∧ s1.tracker.onHold = none ∧
    s2.tracker.onHold = none ∧ s1.tracker.mstart = s2.tracker.mstart ∧ s1.tracker.mend = s2.tracker.mend

def RSim : Except Fault Scanner → Except Fault Scanner → Prop
  | .ok a, .ok b => CSim a b
  | .error f, .error g => f = g
  | _, _ => False

theorem CSim.outside {s1 s2 : Scanner} (h : CSim s1 s2) (c1 c2 : ScanCfg) (tok : Tok) (p1 p2 : Option Tok) :
    CSim { (s1.outside c1 tok) with previous := p1 } { (s2.outside c2 tok) with previous := p2 } := by
  obtain ⟨h1, h2, h3, h4, h5, h6⟩ := h
  obtain ⟨a1, a2, a3, a4⟩ := outside_tracker c1 s1 tok
  obtain ⟨b1, b2, b3, b4⟩ := outside_tracker c2 s2 tok
  refine ⟨?_, ?_, ?_, ?_, ?_, ?_⟩
  · show (s1.outside c1 tok).parser = (s2.outside c2 tok).parser
    rw [outside_parser, outside_parser]; exact h1
  · show (s1.outside c1 tok).tracker.queue = (s2.outside c2 tok).tracker.queue
    rw [a1, b1]; exact h2
  · show (s1.outside c1 tok).tracker.onHold = none
    rw [a2]; exact h3
  · show (s2.outside c2 tok).tracker.onHold = none
    rw [b2]; exact h4
  · show (s1.outside c1 tok).tracker.mstart = (s2.outside c2 tok).tracker.mstart
    rw [a3, b3]; exact h5
  · show (s1.outside c1 tok).tracker.mend = (s2.outside c2 tok).tracker.mend
    rw [a4, b4]; exact h6

theorem numberEnd_csim (c1 c2 : ScanCfg) (hlang : c1.lang = c2.lang) (ht1 : ∀ n, c1.thrLt n = false)
    (ht2 : ∀ n, c2.thrLt n = false) {s1 s2 : Scanner} (h : CSim s1 s2) :
    RSim (s1.numberEnd c1) (s2.numberEnd c2) := by
  obtain ⟨h1, h2, h3, h4, h5, h6⟩ := h
  cases hf : s2.parser.finish c2.lang with
  | error f =>
    have hf1 : s1.parser.finish c1.lang = .error f := by rw [h1, hlang]; exact hf
    unfold Scanner.numberEnd
    rw [hf, hf1]
    exact rfl
  | ok r =>
    obtain ⟨tx, v⟩ := r
    have hf1 : s1.parser.finish c1.lang = .ok (tx, v) := by rw [h1, hlang]; exact hf
    rw [scanner_numberEnd_thr0 c1 ht1 s1 tx v hf1, scanner_numberEnd_thr0 c2 ht2 s2 tx v hf]
    show CSim _ _
    refine ⟨rfl, ?_, ?_, ?_, ?_, ?_⟩
    · show (s1.tracker.numberEnd s1.parser.isOrdinal tx v false).queue =
        (s2.tracker.numberEnd s2.parser.isOrdinal tx v false).queue
      rw [numberEnd_nohold _ _ _ _ h3, numberEnd_nohold _ _ _ _ h4, h1, h2, h5, h6]
    · show (s1.tracker.numberEnd s1.parser.isOrdinal tx v false).onHold = none
      rw [numberEnd_nohold _ _ _ _ h3]
    · show (s2.tracker.numberEnd s2.parser.isOrdinal tx v false).onHold = none
      rw [numberEnd_nohold _ _ _ _ h4]
    · show (s1.tracker.numberEnd s1.parser.isOrdinal tx v false).mstart =
        (s2.tracker.numberEnd s2.parser.isOrdinal tx v false).mstart
      rw [numberEnd_nohold _ _ _ _ h3, numberEnd_nohold _ _ _ _ h4]
      exact h6
    · show (s1.tracker.numberEnd s1.parser.isOrdinal tx v false).mend =
        (s2.tracker.numberEnd s2.parser.isOrdinal tx v false).mend
      rw [numberEnd_nohold _ _ _ _ h3, numberEnd_nohold _ _ _ _ h4]
      exact h6

theorem CSim.advanced {s1 s2 : Scanner} (h : CSim s1 s2) (p' : Parser) (pos : Nat) (q1 q2 : Option Tok) :
    CSim { s1 with parser := p', tracker := s1.tracker.advanced pos, previous := q1 }
      { s2 with parser := p', tracker := s2.tracker.advanced pos, previous := q2 } := by
  obtain ⟨h1, h2, h3, h4, h5, h6⟩ := h
  refine ⟨rfl, h2, h3, h4, ?_, rfl⟩
  show (s1.tracker.advanced pos).mstart = (s2.tracker.advanced pos).mstart
  unfold Tracker.advanced
  dsimp only
  rw [h5, h6]

theorem CSim.setParser {s1 s2 : Scanner} (h : CSim s1 s2) (p' : Parser) (q1 q2 : Option Tok) :
    CSim { s1 with parser := p', previous := q1 } { s2 with parser := p', previous := q2 } := by
  obtain ⟨h1, h2, h3, h4, h5, h6⟩ := h
  exact ⟨rfl, h2, h3, h4, h5, h6⟩

theorem pushRejected_csim (c1 c2 : ScanCfg) (hlang : c1.lang = c2.lang) (ht1 : ∀ n, c1.thrLt n = false)
    (ht2 : ∀ n, c2.thrLt n = false) {s1 s2 : Scanner} (h : CSim s1 s2) (pos : Nat) (tok : Tok) :
    RSim (Scanner.pushRejected c1 s1 pos tok) (Scanner.pushRejected c2 s2 pos tok) := by
  unfold Scanner.pushRejected
  rw [h.1]
  by_cases hn : s2.parser.hasNumber = true
  · rw [if_pos hn, if_pos hn]
    have hne := numberEnd_csim c1 c2 hlang ht1 ht2 h
    cases e1 : s1.numberEnd c1 with
    | error f =>
      cases e2 : s2.numberEnd c2 with
      | error g => rw [e1, e2] at hne; exact hne
      | ok t2 => rw [e1, e2] at hne; cases hne
    | ok t1 =>
      cases e2 : s2.numberEnd c2 with
      | error g => rw [e1, e2] at hne; cases hne
      | ok t2 =>
        rw [e1, e2] at hne
        have hc : CSim t1 t2 := hne
        dsimp only
        rw [hc.1, hlang]
        by_cases hr : (t2.parser.push c2.lang tok.lower).1.isNone = true
        · rw [if_pos hr, if_pos hr]
          exact hc.advanced _ pos _ _
        · rw [if_neg hr, if_neg hr]
          by_cases hi : ((t2.parser.push c2.lang tok.lower).1 == some Err.incomplete) = true
          · rw [if_pos hi, if_pos hi]
            exact hc.setParser _ _ _
          · rw [if_neg hi, if_neg hi]
            exact CSim.outside (s1 := { t1 with parser := (t2.parser.push c2.lang tok.lower).2 })
              (s2 := { t2 with parser := (t2.parser.push c2.lang tok.lower).2 })
              ⟨rfl, hc.2.1, hc.2.2.1, hc.2.2.2.1, hc.2.2.2.2.1, hc.2.2.2.2.2⟩ c1 c2 tok _ _
  · rw [if_neg hn, if_neg hn]
    exact h.outside c1 c2 tok _ _

theorem push_csim (c1 c2 : ScanCfg) (hlang : c1.lang = c2.lang) (hs1 : ∀ x y, c1.sep x y = false)
    (hs2 : ∀ x y, c2.sep x y = false) (ht1 : ∀ n, c1.thrLt n = false) (ht2 : ∀ n, c2.thrLt n = false)
    {s1 s2 : Scanner} (h : CSim s1 s2) (pos : Nat) (tok : Tok)
    (hsk : Scanner.isSkipped c1 tok = Scanner.isSkipped c2 tok) :
    RSim (s1.push c1 pos tok) (s2.push c2 pos tok) := by
  unfold Scanner.push
  rw [hsk]
  by_cases hs : Scanner.isSkipped c2 tok = true
  · rw [if_pos hs, if_pos hs]; exact h
  rw [if_neg hs, if_neg hs]
  by_cases hnan : tok.nan = true
  · rw [if_pos hnan, if_pos hnan]
    unfold Scanner.pushNan
    rw [h.1]
    by_cases hn : s2.parser.hasNumber = true
    · rw [if_pos hn, if_pos hn]
      have hne := numberEnd_csim c1 c2 hlang ht1 ht2 h
      cases e1 : s1.numberEnd c1 with
      | error f =>
        cases e2 : s2.numberEnd c2 with
        | error g => rw [e1, e2] at hne; exact hne
        | ok t2 => rw [e1, e2] at hne; cases hne
      | ok t1 =>
        cases e2 : s2.numberEnd c2 with
        | error g => rw [e1, e2] at hne; cases hne
        | ok t2 =>
          rw [e1, e2] at hne
          exact CSim.outside hne c1 c2 tok _ _
    · rw [if_neg hn, if_neg hn]
      exact h.outside c1 c2 tok _ _
  rw [if_neg hnan, if_neg hnan]
  rw [testWord_nosep c1 hs1, testWord_nosep c2 hs2, h.1, hlang]
  cases hr : s2.parser.push c2.lang tok.lower with
  | mk r p' =>
    dsimp only
    cases r with
    | none => exact h.advanced p' pos _ _
    | some e =>
      have hrej : RSim (Scanner.pushRejected c1 { s1 with parser := p' } pos tok)
          (Scanner.pushRejected c2 { s2 with parser := p' } pos tok) :=
        pushRejected_csim c1 c2 hlang ht1 ht2 (s1 := { s1 with parser := p' }) (s2 := { s2 with parser := p' })
          ⟨rfl, h.2.1, h.2.2.1, h.2.2.2.1, h.2.2.2.2.1, h.2.2.2.2.2⟩ pos tok
      cases e with
      | incomplete => exact h.setParser p' _ _
      | overlap => exact hrej
      | nan => exact hrej
      | frozen => exact hrej

theorem pushAll_csim (c1 c2 : ScanCfg) (hlang : c1.lang = c2.lang) (hs1 : ∀ x y, c1.sep x y = false)
    (hs2 : ∀ x y, c2.sep x y = false) (ht1 : ∀ n, c1.thrLt n = false) (ht2 : ∀ n, c2.thrLt n = false) :
    ∀ (toks : List Tok) (pos : Nat) (s1 s2 : Scanner), CSim s1 s2 →
      (∀ t ∈ toks, Scanner.isSkipped c1 t = Scanner.isSkipped c2 t) →
      RSim (Scanner.pushAll c1 s1 (enumFrom pos toks)) (Scanner.pushAll c2 s2 (enumFrom pos toks))
  | [], _, _, _, h, _ => h
  | t :: ts, pos, s1, s2, h, hsk => by
    simp only [enumFrom, Scanner.pushAll]
    have h1 := push_csim c1 c2 hlang hs1 hs2 ht1 ht2 h pos t (hsk t (List.mem_cons_self ..))
    cases e1 : s1.push c1 pos t with
    | error f =>
      cases e2 : s2.push c2 pos t with
      | error g => rw [e1, e2] at h1; exact h1
      | ok t2 => rw [e1, e2] at h1; cases h1
    | ok t1 =>
      cases e2 : s2.push c2 pos t with
      | error g => rw [e1, e2] at h1; cases h1
      | ok t2 =>
        rw [e1, e2] at h1
        exact pushAll_csim c1 c2 hlang hs1 hs2 ht1 ht2 ts (pos + 1) t1 t2 h1
          (fun x hx => hsk x (List.mem_cons_of_mem _ hx))

/-- **the occurrences do not depend on the character classes beyond `isSkipped`** (threshold 0, no hints) -/
theorem findNumbers_cc (c1 c2 : ScanCfg) (hlang : c1.lang = c2.lang) (hs1 : ∀ x y, c1.sep x y = false)
    (hs2 : ∀ x y, c2.sep x y = false) (ht1 : ∀ n, c1.thrLt n = false) (ht2 : ∀ n, c2.thrLt n = false)
    (toks : List Tok) (hsk : ∀ t ∈ toks, Scanner.isSkipped c1 t = Scanner.isSkipped c2 t) :
    findNumbers c1 toks = findNumbers c2 toks := by
  unfold findNumbers
  have h1 := pushAll_csim c1 c2 hlang hs1 hs2 ht1 ht2 toks 0 {} {} ⟨rfl, rfl, rfl, rfl, rfl, rfl⟩ hsk
  cases e1 : Scanner.pushAll c1 {} (enumFrom 0 toks) with
  | error f =>
    cases e2 : Scanner.pushAll c2 {} (enumFrom 0 toks) with
    | error g => rw [e1, e2] at h1; simp only [RSim] at h1; rw [h1]
    | ok t2 => rw [e1, e2] at h1; cases h1
  | ok t1 =>
    cases e2 : Scanner.pushAll c2 {} (enumFrom 0 toks) with
    | error g => rw [e1, e2] at h1; cases h1
    | ok t2 =>
      rw [e1, e2] at h1
      have hc : CSim t1 t2 := h1
      dsimp only
      unfold Scanner.finalize
      rw [hc.1]
      by_cases hn : t2.parser.hasNumber = true
      · rw [if_pos hn, if_pos hn]
        have hne := numberEnd_csim c1 c2 hlang ht1 ht2 hc
        cases f1 : t1.numberEnd c1 with
        | error f =>
          cases f2 : t2.numberEnd c2 with
          | error g => rw [f1, f2] at hne; simp only [RSim] at hne; rw [hne]
          | ok u2 => rw [f1, f2] at hne; cases hne
        | ok u1 =>
          cases f2 : t2.numberEnd c2 with
          | error g => rw [f1, f2] at hne; cases hne
          | ok u2 =>
            rw [f1, f2] at hne
            have hu : CSim u1 u2 := hne
            dsimp only
            rw [hu.2.1]
      · rw [if_neg hn, if_neg hn]
        dsimp only
        rw [hc.2.1]

/-! ## 2. occurrences that cover every word tile the phrase -/

theorem wordTokens_odd : ∀ (W : List Word) (k : Nat) (t : Tok), (wordTokens W)[2 * k + 1]? = some t → t = sp
  | [], _, _, h => by cases h
  | [w], k, t, h => by
    have : (wordTokens [w])[2 * k + 1]? = none := by
      show ([wtok w] : List Tok)[2 * k + 1]? = none
      simp
    rw [this] at h; cases h
  | w :: w2 :: l, 0, t, h => by
    have : (wordTokens (w :: w2 :: l))[2 * 0 + 1]? = some sp := rfl
    rw [this] at h
    exact (Option.some.inj h).symm
  | w :: w2 :: l, k + 1, t, h => by
    have e : wordTokens (w :: w2 :: l) = wtok w :: sp :: wordTokens (w2 :: l) := rfl
    have e2 : 2 * (k + 1) + 1 = (2 * k + 1) + 1 + 1 := by omega
    rw [e, e2, List.getElem?_cons_succ, List.getElem?_cons_succ] at h
    exact wordTokens_odd (w2 :: l) k t h

/-- the tokens at even positions are the word tokens -/
theorem wordTokens_even (W : List Word) (k : Nat) (hk : k < W.length) :
    (wordTokens W)[2 * k]? = some (wtok (W[k])) :=
  C01Text.Fr.get_wordTokens W k _ (List.getElem?_eq_getElem hk)

/-- a position that holds a token which is not skipped is even -/
theorem even_of_not_skipped (cfg : ScanCfg) (hspace : cfg.cc.isWhitespace ' ' = true) (W : List Word) (a : Nat)
    (t : Tok) (h : (wordTokens W)[a]? = some t) (hs : Scanner.isSkipped cfg t = false) : a % 2 = 0 := by
  rcases Nat.mod_two_eq_zero_or_one a with h0 | h1
  · exact h0
  · exfalso
    obtain ⟨k, rfl⟩ : ∃ k, a = 2 * k + 1 := ⟨a / 2, by omega⟩
    have := wordTokens_odd W k t h
    rw [this, skipped_sp cfg hspace] at hs
    cases hs

/-- the occurrences tile `[p - 1, E]`… precisely: the first starts at `p`, each has an odd number of tokens, the next
one starts one token after the previous one ended, the last one ends at `E` -/
def Tiled : Nat → Nat → List Occ → Prop
  | p, E, [] => p = E + 1
  | p, E, o :: os =>
    o.start = p ∧ o.start < o.stop ∧ (o.stop - o.start) % 2 = 1 ∧ o.stop ≤ E ∧ Tiled (o.stop + 1) E os

theorem tiled_of_cover (N : Nat) (hN : N % 2 = 1) : ∀ (occs : List Occ) (p : Nat), p % 2 = 0 → p ≤ N + 1 →
    OccsBelow occs N →
    (∀ o ∈ occs, o.start < o.stop ∧ o.start % 2 = 0 ∧ (o.stop - 1) % 2 = 0 ∧ p ≤ o.start) →
    (∀ i, i % 2 = 0 → p ≤ i → i < N → ∃ o ∈ occs, o.start ≤ i ∧ i < o.stop) → Tiled p N occs := by
  intro occs
  induction occs with
  | nil =>
    intro p hp hpN _ _ hcov
    show p = N + 1
    by_cases hlt : p < N
    · obtain ⟨o, ho, _⟩ := hcov p hp (Nat.le_refl _) hlt
      cases ho
    · omega
  | cons o os ih =>
    intro p hp hpN hb hf hcov
    obtain ⟨b1, b2, b3, b4⟩ := hb
    obtain ⟨f1, f2, f3, f4⟩ := hf o (List.mem_cons_self ..)
    have hpo : o.start = p := by
      obtain ⟨o', ho', c1, c2⟩ := hcov p hp (Nat.le_refl _) (by omega)
      rcases List.mem_cons.mp ho' with rfl | ho'
      · omega
      · have := b3 o' ho'
        omega
    refine ⟨hpo, f1, by omega, b2, ?_⟩
    apply ih (o.stop + 1) (by omega) (by omega) b4
    · intro o' ho'
      obtain ⟨g1, g2, g3, _⟩ := hf o' (List.mem_cons_of_mem _ ho')
      have := b3 o' ho'
      exact ⟨g1, g2, g3, by omega⟩
    · intro i hi hpi hiN
      obtain ⟨o', ho', c1, c2⟩ := hcov i hi (by omega) hiN
      rcases List.mem_cons.mp ho' with rfl | ho'
      · omega
      · exact ⟨o', ho', c1, c2⟩

theorem tiled_shift (k : Nat) : ∀ (occs : List Occ) (p E : Nat), Tiled p E occs →
    Tiled (p + k) (E + k) (occs.map (shiftOcc k))
  | [], p, E, h => by
    show p + k = E + k + 1
    have : p = E + 1 := h
    omega
  | o :: os, p, E, h => by
    obtain ⟨h1, h2, h3, h4, h5⟩ := h
    refine ⟨?_, ?_, ?_, ?_, ?_⟩
    · show o.start + k = p + k
      omega
    · show o.start + k < o.stop + k
      omega
    · show (o.stop + k - (o.start + k)) % 2 = 1
      have : o.stop + k - (o.start + k) = o.stop - o.start := by omega
      rw [this]; exact h3
    · show o.stop + k ≤ E + k
      omega
    · have := tiled_shift k os (o.stop + 1) E h5
      have e : o.stop + 1 + k = o.stop + k + 1 := by omega
      rw [e] at this
      exact this

theorem spansOk_of_tiled : ∀ (occs : List Occ) (p E p0 n : Nat), Tiled p E occs → p0 ≤ p → E ≤ n →
    C02.SpansOk p0 n occs
  | [], _, _, _, _, _, _, _ => trivial
  | o :: os, p, E, p0, n, h, h0, hn => by
    obtain ⟨h1, h2, h3, h4, h5⟩ := h
    exact ⟨by omega, by omega, by omega, spansOk_of_tiled os (o.stop + 1) E o.stop n h5 (by omega) hn⟩

/-! ## 3. the splice of tiling occurrences -/

theorem drop_postToks : ∀ (k : Nat) (X : List Word), (postToks X).drop (2 * k) = postToks (X.drop k)
  | 0, X => rfl
  | k + 1, [] => by simp [postToks]
  | k + 1, w :: l => by
    have e : 2 * (k + 1) = 2 * k + 1 + 1 := by omega
    rw [postToks_cons, e, List.drop_succ_cons, List.drop_succ_cons, List.drop_succ_cons]
    exact drop_postToks k l

theorem drop_wordTokens (X : List Word) (k : Nat) (h1 : 1 ≤ k) :
    (wordTokens X).drop (2 * k - 1) = postToks (X.drop k) := by
  cases X with
  | nil => simp [wordTokens, postToks]
  | cons w l =>
    obtain ⟨j, rfl⟩ : ∃ j, k = j + 1 := ⟨k - 1, by omega⟩
    have e : 2 * (j + 1) - 1 = 2 * j + 1 := by omega
    rw [wordTokens_cons, e, List.drop_succ_cons, List.drop_succ_cons]
    exact drop_postToks j l

theorem flatMap_text_postToks_cons (d : Word) (X : List Word) :
    (postToks (d :: X)).flatMap (·.text) = [' '] ++ d ++ (postToks X).flatMap (·.text) := by
  rw [postToks_cons, List.flatMap_cons, List.flatMap_cons]
  show [' '] ++ (d ++ _) = _
  rw [List.append_assoc]

/-- the splice from a space token on: what remains of the phrase (`Rn`) is tiled by `os` -/
theorem splice_post (mk : List Tok → Word → Tok) (hmk : ∀ ts d, (mk ts d).text = d) :
    ∀ (os : List Occ) (q : Nat) (Rn post : List Word), Tiled (q + 1) (q + 2 * Rn.length) os →
      (C02.splice mk q (postToks (Rn ++ post)) os).flatMap (·.text) =
        (postToks (os.map (·.text) ++ post)).flatMap (·.text) := by
  intro os
  induction os with
  | nil =>
    intro q Rn post h
    have h' : q + 1 = q + 2 * Rn.length + 1 := h
    have : Rn = [] := List.length_eq_zero_iff.mp (by omega)
    subst this
    rfl
  | cons o os ih =>
    intro q Rn post h
    obtain ⟨h1, h2, h3, h4, h5⟩ := h
    obtain ⟨k, hk⟩ : ∃ k, o.stop = q + 2 * k := ⟨(o.stop - q) / 2, by omega⟩
    have hk1 : 1 ≤ k := by omega
    have hkR : k ≤ Rn.length := by omega
    obtain ⟨w, R', rfl⟩ : ∃ w R', Rn = w :: R' := by
      cases Rn with
      | nil => simp at hkR; omega
      | cons w R' => exact ⟨w, R', rfl⟩
    have ih' := ih (q + 2 * k) ((w :: R').drop k) post (by
      have e : q + 2 * k + 2 * ((w :: R').drop k).length = q + 2 * (w :: R').length := by
        rw [List.length_drop]; omega
      rw [e, ← hk]; exact h5)
    show (List.take (o.start - q) (postToks (w :: R' ++ post)) ++
      [mk ((List.drop (o.start - q) (postToks (w :: R' ++ post))).take (o.stop - o.start)) o.text] ++
      C02.splice mk o.stop (List.drop (o.stop - q) (postToks (w :: R' ++ post))) os).flatMap (·.text) = _
    have e1 : o.start - q = 1 := by omega
    have e2 : o.stop - q = 2 * k := by omega
    have e3 : List.take 1 (postToks (w :: R' ++ post)) = [sp] := rfl
    have e4 : List.drop (2 * k) (postToks (w :: R' ++ post)) = postToks ((w :: R').drop k ++ post) := by
      rw [drop_postToks, List.drop_append_of_le_length hkR]
    rw [e1, e2, e3, e4, hk, List.flatMap_append, List.flatMap_append, ih']
    show [' '] ++ [] ++ ((mk _ o.text).text ++ []) ++ _ = _
    rw [hmk, List.map_cons,
      show (o.text :: os.map (·.text)) ++ post = o.text :: (os.map (·.text) ++ post) from rfl,
      flatMap_text_postToks_cons]
    simp only [List.append_nil, List.append_assoc]

/-- **the splice of tiling occurrences in a sentence**: the spans are in order and in bounds, and the text of
the result is the sentence with the phrase replaced by the texts of the occurrences -/
theorem splice_tiled (mk : List Tok → Word → Tok) (hmk : ∀ ts d, (mk ts d).text = d)
    (pre ws post : List Word) (occs : List Occ)
    (hT : Tiled (2 * pre.length) (2 * pre.length + (2 * ws.length - 1)) occs) (hne : ws ≠ []) :
    C02.SpansOk 0 (wordTokens (pre ++ ws ++ post)).length occs ∧
      (C02.splice mk 0 (wordTokens (pre ++ ws ++ post)) occs).flatMap (·.text) =
        joinWords (pre ++ occs.map (·.text) ++ post) := by
  have hwl : 1 ≤ ws.length := by
    cases ws with
    | nil => exact absurd rfl hne
    | cons _ _ => simp
  constructor
  · apply spansOk_of_tiled occs _ _ 0 _ hT (Nat.zero_le _)
    rw [length_wordTokens]
    simp only [List.length_append]
    omega
  · cases occs with
    | nil =>
      have : 2 * pre.length = 2 * pre.length + (2 * ws.length - 1) + 1 := hT
      omega
    | cons o os =>
      obtain ⟨h1, h2, h3, h4, h5⟩ := hT
      obtain ⟨k, hk⟩ : ∃ k, o.stop = 2 * pre.length + (2 * k - 1) ∧ 1 ≤ k :=
        ⟨(o.stop - o.start + 1) / 2, by omega, by omega⟩
      obtain ⟨hk, hk1⟩ := hk
      have hkw : k ≤ ws.length := by omega
      have htoks : wordTokens (pre ++ ws ++ post) = preToks pre ++ wordTokens (ws ++ post) := by
        rw [List.append_assoc, wordTokens_pre pre (ws ++ post) (by simp [hne])]
      have hlp : (preToks pre).length = 2 * pre.length := length_preToks pre
      have e1 : (wordTokens (pre ++ ws ++ post)).take (o.start - 0) = preToks pre := by
        rw [htoks, Nat.sub_zero, h1, ← hlp, List.take_left']
        rfl
      have e2 : (wordTokens (pre ++ ws ++ post)).drop (o.stop - 0) = postToks (ws.drop k ++ post) := by
        rw [htoks, Nat.sub_zero, hk, ← hlp, List.drop_append, List.drop_eq_nil_of_le (by omega), List.nil_append,
          Nat.add_sub_cancel_left, drop_wordTokens _ k hk1, List.drop_append_of_le_length hkw]
      have ihp := splice_post mk hmk os o.stop (ws.drop k) post (by
        have e : o.stop + 2 * (ws.drop k).length = 2 * pre.length + (2 * ws.length - 1) := by
          rw [List.length_drop]; omega
        rw [e]; exact h5)
      show (List.take (o.start - 0) (wordTokens (pre ++ ws ++ post)) ++
        [mk ((List.drop (o.start - 0) (wordTokens (pre ++ ws ++ post))).take (o.stop - o.start)) o.text] ++
        C02.splice mk o.stop (List.drop (o.stop - 0) (wordTokens (pre ++ ws ++ post))) os).flatMap (·.text) = _
      rw [e1, e2, List.flatMap_append, List.flatMap_append, ihp]
      show _ ++ ((mk _ o.text).text ++ []) ++ _ = _
      rw [hmk, List.append_nil, List.map_cons]
      have hpost := flatMap_text_postToks (os.map (·.text) ++ post) o.text []
      rw [List.nil_append] at hpost
      have ej : joinWords [o.text] = o.text := rfl
      rw [ej] at hpost
      rw [List.append_assoc, hpost, flatMap_text_preToks pre _ (by simp)]
      simp only [List.append_assoc, List.cons_append, List.nil_append]

/-! ## 4. the text-level statement -/

/-- the occurrences found in a phrase whose words are all valid numbers on their own (accepted by the fresh
builder), single tokens: they tile the phrase (threshold 0) -/
theorem tiled_phrase {cc : CharClasses} (L : TextLaws cc) (l : Language) (thr : Nat → Bool)
    (hthr : ∀ n, thr n = false) (hmem : l.interp ∈ allLangs) (hl : LangAgree l.interp)
    (ws : List Word) (hne : ws ≠ []) (htok : ∀ w ∈ ws, isTokWord cc w = true)
    (hacc : ∀ w ∈ ws, (l.interp.apply w DS.new).1 = none) (occs : List Occ)
    (h : findNumbers (textCfg cc l thr) (wordTokens ws) = .ok occs) : Tiled 0 (2 * ws.length - 1) occs := by
  have hspace : (textCfg cc l thr).cc.isWhitespace ' ' = true := L.space_ws
  have hwl : 1 ≤ ws.length := by
    cases ws with
    | nil => exact absurd rfl hne
    | cons _ _ => simp
  have hsk : ∀ w ∈ ws, Scanner.isSkipped (textCfg cc l thr) (wtok w) = false :=
    fun w hw => not_skipped_of_tokWord (textCfg cc l thr) L w (htok w hw)
  obtain ⟨occs', h', hbelow⟩ := findNumbers_ok (textCfg cc l thr) (wordTokens ws)
  rw [h] at h'
  cases h'
  rw [length_wordTokens] at hbelow
  have hstrict := T2N.C06.C06_strict (textCfg cc l thr) hl.langOk _ _ h
  have hedges := WellFormed.findNumbers_edges (textCfg cc l thr) hl (WellFormed.commaDec_builtin _ hmem hl) _ _ h
  apply tiled_of_cover (2 * ws.length - 1) (by omega) occs 0 rfl (Nat.zero_le _) hbelow
  · intro o ho
    obtain ⟨⟨t1, g1, s1, _⟩, ⟨t2, g2, s2, _⟩⟩ := hedges o ho
    exact ⟨hstrict o ho, even_of_not_skipped _ hspace ws _ t1 g1 s1, even_of_not_skipped _ hspace ws _ t2 g2 s2,
      Nat.zero_le _⟩
  · intro i hi _ hiN
    obtain ⟨k, rfl⟩ : ∃ k, i = 2 * k := ⟨i / 2, by omega⟩
    have hk : k < ws.length := by omega
    have hlt : 2 * k < (wordTokens ws).length := by rw [length_wordTokens]; exact hiN
    have hget : (wordTokens ws)[2 * k] = wtok (ws[k]) := by
      have := wordTokens_even ws k hk
      rw [List.getElem?_eq_getElem hlt] at this
      exact Option.some.inj this
    have hmemk : ws[k] ∈ ws := List.getElem_mem hk
    exact nothing_left (textCfg cc l thr) hl hthr (wordTokens ws) occs h (2 * k) hlt
      (by rw [hget]; exact hsk _ hmemk) (by rw [hget]; rfl) (by rw [hget]; exact hacc _ hmemk)
      (by rw [hget]; exact neverInc_builtin l.interp hmem _ (hacc _ hmemk)) (Or.inl (fun _ _ => rfl))

/-- **the text-level statement for a phrase of stand-alone number words** (digit dictation): the sentence is rewritten
with the texts that the scanner finds in the phrase over the explicit classes `simpleCC`, joined by single spaces —
for any character classes under `TextLaws` / `AlphaLaws`, at threshold 0 -/
theorem replaceText_tiled {cc : CharClasses} (L : TextLaws cc) (A : AlphaLaws cc) (l : Language) (thr : Nat → Bool)
    (hthr : ∀ n, thr n = false) (hmem : l.interp ∈ allLangs) (hl : LangAgree l.interp)
    (ws : List Word) (hne : ws ≠ []) (hover : ∀ w ∈ ws, isOver w = true)
    (hacc : ∀ w ∈ ws, (l.interp.apply w DS.new).1 = none) (occs0 : List Occ)
    (h0 : findNumbers (scanCfg l.interp zeroThr) (wordTokens ws) = .ok occs0)
    (pre post : List Word) (hpre : ∀ w ∈ pre, Ordinary cc l.interp w) (hpost : ∀ w ∈ post, Ordinary cc l.interp w)
    (hann : l.annotate cc (wordTokens (pre ++ ws ++ post)) = wordTokens (pre ++ ws ++ post)) :
    replaceText cc l thr (joinWords (pre ++ ws ++ post)) =
      .ok (joinWords (pre ++ occs0.map (·.text) ++ post)) := by
  have htok : ∀ w ∈ ws, isTokWord cc w = true := fun w hw => isPlainWord_tok (isPlainWord_of_over L A (hover w hw))
  -- the occurrences over `cc` are those over `simpleCC`
  have hcc : findNumbers (textCfg cc l thr) (wordTokens ws) = .ok occs0 := by
    rw [← h0]
    apply findNumbers_cc (textCfg cc l thr) (scanCfg l.interp zeroThr) rfl (fun _ _ => rfl) (fun _ _ => rfl) hthr
      (fun _ => rfl)
    intro t ht
    rcases mem_wordTokens ht with rfl | ⟨w, hw, rfl⟩
    · rw [skipped_sp _ L.space_ws, skipped_sp (scanCfg l.interp zeroThr) rfl]
    · rw [not_skipped_of_tokWord (textCfg cc l thr) L w (htok w hw),
        not_skipped_of_tokWord (scanCfg l.interp zeroThr) simple_textLaws w
          (isPlainWord_tok (isPlainWord_of_over simple_textLaws simple_alphaLaws (hover w hw)))]
  have hT := tiled_phrase L l thr hthr hmem hl ws hne htok hacc occs0 hcc
  -- in the sentence
  obtain ⟨ob, h1, h2⟩ := findNumbers_context L l thr hl pre ws post hne (fun w hw => (hpre w hw).1)
    (fun w hw => (hpost w hw).1)
  rw [hcc] at h1
  cases h1
  have hT' := tiled_shift (2 * pre.length) occs0 0 (2 * ws.length - 1) hT
  rw [Nat.zero_add, Nat.add_comm (2 * ws.length - 1)] at hT'
  obtain ⟨hspans, htext⟩ := splice_tiled (basicReplace cc) (fun _ _ => rfl) pre ws post _ hT' hne
  have hplain := plain_of_parts L A l.interp pre ws post hpre hover hpost
  unfold replaceText replaceTextWith
  dsimp only
  rw [tokenize_join L _ hplain, hann]
  have h2' : findNumbers { lang := l.interp, cc := cc, sep := noSep, thrLt := thr } (wordTokens (pre ++ ws ++ post)) =
      .ok (occs0.map (shiftOcc (2 * pre.length))) := h2
  rw [h2']
  dsimp only
  rw [C02.C02_replace_is_splice (basicReplace cc) _ _ hspans]
  dsimp only
  rw [htext, List.map_map]
  rfl

end T2N.TextCor
