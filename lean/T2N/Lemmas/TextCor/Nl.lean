/-
  T2N.Lemmas.TextCor.Nl — Dutch: text-level corollaries of C16 (leading zeros) and C04 (ordinals).
  Every word of a spelled Dutch ordinal is a non-empty string of letters (the cardinal with its last word
  changed by `take … ++ ordinal unit word` or `… ++ ste`); its first word is accepted by the fresh builder.
-/
import T2N.Lemmas.TextCor
import T2N.Lemmas.C01Text.Nl
import T2N.Props.C01.Text
import T2N.Props.C04
import T2N.Props.C16

namespace T2N.TextCor.Nl
open T2N T2N.Lift T2N.Spec T2N.C01Text T2N.TextCor

/-! ### the words of a spelled ordinal -/

theorem isLetters_take {w : Word} (k : Nat) (h : isLetters w = true) : isLetters (w.take k) = true := by
  unfold isLetters at *
  rw [List.all_eq_true] at *
  exact fun x hx => h x (List.mem_of_mem_take hx)

theorem ordUnit_L' : ∀ r, r < 20 → r ≠ 0 → C01Text.Nl.L (Spec.Nl.ordUnitWords.getD r []) = true := by decide

/-- the list whose last word is made ordinal -/
def base (v : Var) (n : Nat) : List Word :=
  if n == 1000000 && !flag v (cp 2 5) then [w!"miljoen"] else Spec.Nl.cardinal v n

theorem base_L (v : Var) (n : Nat) : (base v n).all C01Text.Nl.L = true := by
  unfold base
  split
  · decide
  · exact C01Text.Nl.cardinal_L v n

theorem base_ne (v : Var) (n : Nat) (h : n < 10 ^ 12) : base v n ≠ [] := by
  unfold base
  split
  · simp
  · exact ne_nil_of_valid _ _ _ (T2N.C01.C01_validate_nl_all v n h)

/-- the new last word is a non-empty string of letters -/
theorem specNew_L (v : Var) (n : Nat) (last : Word) (hl : C01Text.Nl.L last = true) :
    C01Text.Nl.L (ExtNl.specNew v n last) = true := by
  unfold ExtNl.specNew
  by_cases hc : (n % 100 != 0 && decide (n % 100 < 20)) = true
  · rw [if_pos hc]
    simp only [Bool.and_eq_true, bne_iff_ne, ne_eq, decide_eq_true_eq] at hc
    exact C01Text.Nl.L_append_right (isLetters_take _ (C01Text.Nl.L_letters hl)) (ordUnit_L' _ hc.2 hc.1)
  · rw [if_neg hc]
    exact C01Text.Nl.L_append_left hl (by decide)

/-- the shape of a spelled ordinal: the base phrase with its last word replaced -/
theorem ordinal_shape (v : Var) (n : Nat) (h : n < 10 ^ 12) :
    ∃ pre last, base v n = pre ++ [last] ∧ Spec.Nl.ordinal v n = pre ++ [ExtNl.specNew v n last] := by
  have hne := base_ne v n h
  refine ⟨(base v n).dropLast, (base v n).getLast hne, (List.dropLast_concat_getLast hne).symm, ?_⟩
  exact ExtNl.ordinal_eq v n _ _ (List.dropLast_concat_getLast hne).symm

theorem ordinal_L (v : Var) (n : Nat) (h : n < 10 ^ 12) : (Spec.Nl.ordinal v n).all C01Text.Nl.L = true := by
  obtain ⟨pre, last, hb, ho⟩ := ordinal_shape v n h
  have hL := base_L v n
  rw [hb, List.all_append, Bool.and_eq_true, List.all_cons, List.all_nil, Bool.and_true] at hL
  rw [ho, List.all_append, hL.1, List.all_cons, List.all_nil, specNew_L v n last hL.2]
  rfl

/-- every word of a spelled Dutch ordinal is over the alphabet -/
theorem ordinal_over (v : Var) (n : Nat) (h : n < 10 ^ 12) : ∀ w ∈ Spec.Nl.ordinal v n, isOver w = true := by
  intro w hw
  exact C01Text.Nl.L_over (List.all_eq_true.mp (ordinal_L v n h) w hw)

/-- the first word of a spelled ordinal is accepted by the fresh builder -/
theorem ordinal_first (v : Var) (n : Nat) (h : n < 10 ^ 12) (d : Word)
    (hval : text2digitsWords T2N.Nl.lang (Spec.Nl.ordinal v n) = .ok d) :
    ∀ w ∈ (Spec.Nl.ordinal v n).head?, (T2N.Nl.lang.apply w DS.new).1 = none := by
  obtain ⟨pre, last, hb, ho⟩ := ordinal_shape v n h
  rw [ho] at hval ⊢
  cases pre with
  | nil => exact first_of_single _ _ _ hval
  | cons p t =>
    refine first_of_swap_last T2N.Nl.lang (p :: t) last _ d hval ?_
    have hc : base v n = Spec.Nl.cardinal v n := by
      unfold base at hb ⊢
      split at hb
      · have := congrArg List.length hb
        simp at this
      · rw [if_neg (by assumption)]
    rw [← hb, hc]
    have hvc := T2N.C01.C01_validate_nl_all v n h
    exact first_none_of_valid _ _ _ hvc (C01Sent.Nl.first v n h)

/-! ### C16 -/

/-- C16 (nl), text level -/
theorem text_c16 {cc : CharClasses} (L : TextLaws cc) (A : AlphaLaws cc) (thr : Nat → Bool)
    (v : Var) (k n : Nat) (hn : 0 < n) (h : n < 10 ^ 12) (hthr : k = 0 → n < 10 → thr n = false)
    (pre post : List Word) (hpre : ∀ w ∈ pre, Ordinary cc T2N.Nl.lang w) (hpost : ∀ w ∈ post, Ordinary cc T2N.Nl.lang w) :
    replaceText cc .dutch thr
        (joinWords (pre ++ (List.replicate k Spec.Nl.zeroWord ++ Spec.Nl.cardinal v n) ++ post)) =
      .ok (joinWords (pre ++ [List.replicate k '0' ++ decChars n] ++ post)) := by
  by_cases hk : k = 0
  · subst hk
    exact T2N.C01.C01_text_nl L A thr v n h (hthr rfl) pre post hpre hpost
  · exact replaceText_zeros L A .dutch thr (by simp [Language.interp, allLangs]) T2N.C07.C07_langAgree_nl
      Spec.Nl.zeroWord (Spec.Nl.cardinal v n) k n (by omega) (T2N.C16.C16_validate_nl_all v k n hn h)
      (by decide) (by decide) (C01Text.Nl.cardinal_over v n) pre post hpre hpost rfl

/-! ### C04 -/

/-- C04 (nl), text level: whatever the speller produces (same hypotheses as `T2N.C04.C04_validate_nl_all`) -/
theorem text_c04 {cc : CharClasses} (L : TextLaws cc) (A : AlphaLaws cc) (thr : Nat → Bool)
    (v : Var) (n i : Nat) (ws : List Word) (mk : Word)
    (hs : Spec.Nl.speller.ordinal v n i = some (ws, mk)) (hthr : thr n = false)
    (pre post : List Word) (hpre : ∀ w ∈ pre, Ordinary cc T2N.Nl.lang w) (hpost : ∀ w ∈ post, Ordinary cc T2N.Nl.lang w) :
    replaceText cc .dutch thr (joinWords (pre ++ ws ++ post)) = .ok (joinWords (pre ++ [decChars n ++ mk] ++ post)) := by
  have hval := T2N.C04.C04_validate_nl_all v n i ws mk hs
  have hs' : (if (n == 0 || decide (n > 1000000)) = true then none
      else if (i == 0) = true then some (Spec.Nl.ordinal v n, Spec.Nl.ordinalMarker) else none) = some (ws, mk) := hs
  by_cases hc : (n == 0 || decide (n > 1000000)) = true
  · rw [if_pos hc] at hs'; cases hs'
  · rw [if_neg hc] at hs'
    by_cases hi : (i == 0) = true
    · rw [if_pos hi] at hs'
      have := Option.some.inj hs'
      simp only [Bool.or_eq_true, beq_iff_eq, decide_eq_true_eq, not_or] at hc
      have h12 : n < 10 ^ 12 := by omega
      obtain ⟨rfl, rfl⟩ := Prod.mk.inj this
      exact replaceText_ordinal L A .dutch thr (by simp [Language.interp, allLangs]) T2N.C07.C07_langAgree_nl
        (Spec.Nl.ordinal v n) n Spec.Nl.ordinalMarker (by decide) hthr hval
        (ordinal_first v n h12 _ hval) (ordinal_over v n h12) pre post hpre hpost rfl
    · rw [if_neg hi] at hs'; cases hs'

/-! ### the hypotheses are satisfiable -/

/-- `kamer nul nul zeven graag`, whatever the threshold (here: everything is "small") -/
example : replaceText simpleCC .dutch (fun _ => true)
    (joinWords ([w!"kamer"] ++ (List.replicate 2 Spec.Nl.zeroWord ++ Spec.Nl.cardinal (fun _ => 0) 7) ++ [w!"graag"])) =
    .ok (joinWords ([w!"kamer"] ++ [List.replicate 2 '0' ++ decChars 7] ++ [w!"graag"])) :=
  text_c16 simple_textLaws simple_alphaLaws _ _ 2 7 (by decide) (by decide) (fun h0 => by cases h0) _ _
    (fun w hw => by
      have : w = w!"kamer" := by simpa using hw
      subst this
      exact ⟨Lang.rejects_of_apply T2N.Nl.lang _ (fun _ => ⟨.nan, rfl, by intro h; cases h⟩)
        (fun _ => ⟨.nan, rfl, by intro h; cases h⟩) rfl, by decide⟩)
    (fun w hw => by
      have : w = w!"graag" := by simpa using hw
      subst this
      exact ⟨Lang.rejects_of_apply T2N.Nl.lang _ (fun _ => ⟨.nan, rfl, by intro h; cases h⟩)
        (fun _ => ⟨.nan, rfl, by intro h; cases h⟩) rfl, by decide⟩)

/-- `de driehonderddrieëntwintigste prijs` -/
example : replaceText simpleCC .dutch zeroThr
    (joinWords ([w!"de"] ++ Spec.Nl.ordinal (fun _ => 0) 323 ++ [w!"prijs"])) =
    .ok (joinWords ([w!"de"] ++ [decChars 323 ++ w!"e"] ++ [w!"prijs"])) :=
  text_c04 simple_textLaws simple_alphaLaws zeroThr (fun _ => 0) 323 0 _ _ rfl rfl _ _
    (fun w hw => by
      have : w = w!"de" := by simpa using hw
      subst this
      exact ⟨Lang.rejects_of_apply T2N.Nl.lang _ (fun _ => ⟨.nan, rfl, by intro h; cases h⟩)
        (fun _ => ⟨.nan, rfl, by intro h; cases h⟩) rfl, by decide⟩)
    (fun w hw => by
      have : w = w!"prijs" := by simpa using hw
      subst this
      exact ⟨Lang.rejects_of_apply T2N.Nl.lang _ (fun _ => ⟨.nan, rfl, by intro h; cases h⟩)
        (fun _ => ⟨.nan, rfl, by intro h; cases h⟩) rfl, by decide⟩)

/-- the same kind of sentences as plain strings -/
example : T2N.C01.C01_text_is (replaceText simpleCC .dutch (fun _ => true) "kamer nul nul zeven graag".toList)
    "kamer 007 graag" = true := by decide +kernel

example : T2N.C01.C01_text_is (replaceText simpleCC .dutch zeroThr "de eenentwintigste prijs".toList)
    "de 21e prijs" = true := by decide +kernel

end T2N.TextCor.Nl
