/-
  T2N.Lemmas.TextCor.Es — Spanish: text-level corollaries of C16 (leading zeros) and C04 (ordinals).
  Every word of a spelled ordinal is a word of at least two letters of the alphabet (before inflection), the
  inflection keeps it over the alphabet; every Spanish word is answered without `Incomplete` by the fresh builder.
-/
import T2N.Lemmas.TextCor
import T2N.Lemmas.C01Text.Es
import T2N.Props.C01.Text
import T2N.Props.C04
import T2N.Props.C16

namespace T2N.TextCor.Es
open T2N T2N.Lift T2N.Spec T2N.C01Text T2N.TextCor

/-! ### the words of a spelled ordinal -/

/-- at least two characters, all letters of the alphabet -/
def Q (w : Word) : Bool := isLetters w && decide (2 ≤ w.length)

theorem Q_iff {w : Word} : Q w = true ↔ isLetters w = true ∧ 2 ≤ w.length := by
  unfold Q
  rw [Bool.and_eq_true, decide_eq_true_eq]

theorem isLetters_dropLast {w : Word} (h : isLetters w = true) : isLetters w.dropLast = true := by
  unfold isLetters at *
  rw [List.all_eq_true] at *
  exact fun x hx => h x (List.dropLast_subset w hx)

theorem ne_nil_of_length {w : Word} (h : 1 ≤ w.length) : w ≠ [] := by
  intro e
  rw [e] at h
  exact absurd h (by decide)

/-- the inflected form of a word of at least two letters is over the alphabet -/
theorem inflect_over (i : Nat) {w : Word} (h : Q w = true) : isOver (Spec.Es.inflect i w) = true := by
  obtain ⟨hl, h2⟩ := Q_iff.mp h
  have hd : isLetters w.dropLast = true := isLetters_dropLast hl
  have hdl : 1 ≤ w.dropLast.length := by rw [List.length_dropLast]; omega
  unfold Spec.Es.inflect
  split
  · exact isOver_append (isOver_of_letters hd (ne_nil_of_length hdl)) (by decide)
  · exact isOver_append (isOver_of_letters hl (ne_nil_of_length (by omega))) (by decide)
  · exact isOver_append (isOver_of_letters hd (ne_nil_of_length hdl)) (by decide)
  · exact isOver_of_letters hl (ne_nil_of_length (by omega))

theorem ordUnit_Q : ∀ u, u < 10 → u ≠ 0 → Q (Spec.Es.ordUnitWords.getD u []) = true := by decide

theorem ordTeen_Q : ∀ u, u < 10 → Q (Spec.Es.ordTeenWords.getD u []) = true := by decide

theorem ordTens_Q : ∀ t, t < 10 → t ≠ 0 → Q (Spec.Es.ordTensWords.getD t []) = true := by decide

theorem ordHundred_Q : ∀ h, h < 10 → h ≠ 0 → Q (Spec.Es.ordHundredWords.getD h []) = true := by decide

theorem all_one {w : Word} (h : Q w = true) : [w].all Q = true := by
  rw [List.all_cons, h]; rfl

theorem all_two {a b : Word} (ha : Q a = true) (hb : Q b = true) : [a, b].all Q = true := by
  rw [List.all_cons, List.all_cons, ha, hb]; rfl

theorem ordBelow100_Q (v : Var) (n : Nat) (h0 : n ≠ 0) (h : n < 100) :
    (Spec.Es.ordBelow100 v n).all Q = true := by
  unfold Spec.Es.ordBelow100
  by_cases h10 : n < 10
  · rw [if_pos h10]
    exact all_one (ordUnit_Q n h10 h0)
  · rw [if_neg h10]
    by_cases e10 : n = 10
    · rw [if_pos (by simp [e10])]
      decide
    · rw [if_neg (by simp [e10])]
      by_cases h20 : n < 20
      · rw [if_pos h20]
        dsimp only
        have hsplit : [w!"décimo", Spec.Es.ordUnitWords.getD (n - 10) []].all Q = true :=
          all_two (by decide) (ordUnit_Q (n - 10) (by omega) (by omega))
        have hcomp : [Spec.Es.ordTeenWords.getD (n - 10) []].all Q = true :=
          all_one (ordTeen_Q (n - 10) (by omega))
        by_cases e11 : n = 11
        · rw [if_pos (by simp [e11])]
          split
          · decide
          · exact hcomp
          · exact hsplit
        · rw [if_neg (by simp [e11])]
          by_cases e12 : n = 12
          · rw [if_pos (by simp [e12])]
            split
            · decide
            · exact hcomp
            · exact hsplit
          · rw [if_neg (by simp [e12])]
            split
            · exact hsplit
            · exact hcomp
      · rw [if_neg h20]
        dsimp only
        rw [List.all_append, all_one (ordTens_Q (n / 10) (by omega) (by omega)), Bool.true_and]
        split
        · rfl
        · exact all_one (ordUnit_Q (n % 10) (by omega) (by simpa using ‹¬ (n % 10 == 0) = true›))

theorem ordinalBase_Q (v : Var) (n : Nat) : (Spec.Es.ordinalBase v n).all Q = true := by
  unfold Spec.Es.ordinalBase
  dsimp only
  rw [List.all_append, List.all_append, Bool.and_eq_true, Bool.and_eq_true]
  refine ⟨⟨?_, ?_⟩, ?_⟩
  · split
    · rfl
    · decide
  · by_cases hh : n / 100 % 10 = 0
    · rw [if_pos (by simp [hh])]; rfl
    · rw [if_neg (by simp [hh])]
      exact all_one (ordHundred_Q _ (by omega) hh)
  · by_cases hr : n % 100 = 0
    · rw [if_pos (by simp [hr])]; rfl
    · rw [if_neg (by simp [hr])]
      exact ordBelow100_Q v _ hr (by omega)

/-- whatever the speller produces as an ordinal: every word is over the alphabet, and the marker does not start
with a digit -/
theorem ordinal_facts (v : Var) (n i : Nat) (ws : List Word) (mk : Word)
    (ho : Spec.Es.ordinal v n i = some (ws, mk)) :
    (∀ w ∈ ws, isOver w = true) ∧ WellFormed.headNotDigit mk = true := by
  unfold Spec.Es.ordinal at ho
  split at ho
  · cases ho
  · split at ho
    · cases ho
    · dsimp only at ho
      have hb := ordinalBase_Q v n
      split at ho
      · -- apocope
        split at ho
        · rename_i last rest hrev
          split at ho
          · injection ho with ho
            injection ho with hws hmk
            refine ⟨?_, by rw [← hmk]; decide⟩
            intro w hw
            rw [← hws, List.mem_reverse, List.mem_cons] at hw
            rcases hw with hw | hw
            · rw [hw]; decide
            · have hm : w ∈ Spec.Es.ordinalBase v n := by
                rw [← List.mem_reverse, hrev]
                exact List.mem_cons_of_mem _ hw
              have hq := List.all_eq_true.mp hb w hm
              obtain ⟨hl, h2⟩ := Q_iff.mp hq
              exact isOver_of_letters hl (ne_nil_of_length (by omega))
          · cases ho
        · cases ho
      · injection ho with ho
        injection ho with hws hmk
        refine ⟨?_, ?_⟩
        · intro w hw
          rw [← hws, List.mem_map] at hw
          obtain ⟨w0, hw0, rfl⟩ := hw
          exact inflect_over i (List.all_eq_true.mp hb w0 hw0)
        · rw [← hmk]
          unfold Spec.Es.marker
          split <;> decide

/-! ### the two text-level theorems -/

/-- C16 (es), text level -/
theorem text_c16 {cc : CharClasses} (L : TextLaws cc) (A : AlphaLaws cc) (thr : Nat → Bool)
    (v : Var) (k n : Nat) (hn : 0 < n) (h : n < 10 ^ 12) (hthr : k = 0 → n < 10 → thr n = false)
    (pre post : List Word) (hpre : ∀ w ∈ pre, Ordinary cc T2N.Es.lang w) (hpost : ∀ w ∈ post, Ordinary cc T2N.Es.lang w) :
    replaceText cc .spanish thr
        (joinWords (pre ++ (List.replicate k Spec.Es.zeroWord ++ Spec.Es.cardinal v n) ++ post)) =
      .ok (joinWords (pre ++ [List.replicate k '0' ++ decChars n] ++ post)) := by
  by_cases hk : k = 0
  · subst hk
    exact T2N.C01.C01_text_es L A thr v n h (hthr rfl) pre post hpre hpost
  · exact replaceText_zeros L A .spanish thr (by simp [Language.interp, allLangs]) T2N.C07.C07_langAgree_es
      Spec.Es.zeroWord (Spec.Es.cardinal v n) k n (by omega) (T2N.C16.C16_validate_es_all v k n hn h)
      (by decide) (by decide) (C01Text.Es.cardinal_over v n) pre post hpre hpost rfl

/-- C04 (es), text level: whatever the speller produces (same hypotheses as `T2N.C04.C04_validate_es_all`) -/
theorem text_c04 {cc : CharClasses} (L : TextLaws cc) (A : AlphaLaws cc) (thr : Nat → Bool)
    (v : Var) (n i : Nat) (ws : List Word) (mk : Word) (hi4 : i = 4 → n = 1)
    (ho : Spec.Es.speller.ordinal v n i = some (ws, mk)) (hthr : thr n = false)
    (pre post : List Word) (hpre : ∀ w ∈ pre, Ordinary cc T2N.Es.lang w) (hpost : ∀ w ∈ post, Ordinary cc T2N.Es.lang w) :
    replaceText cc .spanish thr (joinWords (pre ++ ws ++ post)) = .ok (joinWords (pre ++ [decChars n ++ mk] ++ post)) := by
  have hval := T2N.C04.C04_validate_es_all v n i ws mk hi4 ho
  obtain ⟨hover, hmk⟩ := ordinal_facts v n i ws mk ho
  exact replaceText_ordinal L A .spanish thr (by simp [Language.interp, allLangs]) T2N.C07.C07_langAgree_es
    ws n mk hmk hthr hval (first_none_of_valid _ _ _ hval (fun w _ => C01Sent.Es.first w)) hover
    pre post hpre hpost rfl

/-! ### the hypotheses are satisfiable -/

/-- `sala cero cero siete gracias` -/
example : replaceText simpleCC .spanish zeroThr
    (joinWords ([w!"sala"] ++ (List.replicate 2 Spec.Es.zeroWord ++ Spec.Es.cardinal (fun _ => 0) 7) ++ [w!"gracias"])) =
    .ok (joinWords ([w!"sala"] ++ [List.replicate 2 '0' ++ decChars 7] ++ [w!"gracias"])) :=
  text_c16 simple_textLaws simple_alphaLaws zeroThr _ 2 7 (by decide) (by decide) (fun h0 => by cases h0) _ _
    (fun w hw => by
      have : w = w!"sala" := by simpa using hw
      subst this
      exact ⟨T2N.C01.C01_es_rejects_of_nan _ (by decide) (by decide) (by decide), by decide⟩)
    (fun w hw => by
      have : w = w!"gracias" := by simpa using hw
      subst this
      exact ⟨T2N.C01.C01_es_rejects_of_nan _ (by decide) (by decide) (by decide), by decide⟩)

/-- `la centésima vigésima tercera vez` -/
example : replaceText simpleCC .spanish zeroThr
    (joinWords ([w!"la"] ++ [w!"centésima", w!"vigésima", w!"tercera"] ++ [w!"vez"])) =
    .ok (joinWords ([w!"la"] ++ [decChars 123 ++ w!"ª"] ++ [w!"vez"])) :=
  text_c04 simple_textLaws simple_alphaLaws zeroThr (fun _ => 0) 123 1 _ _ (by decide) (by decide) rfl _ _
    (fun w hw => by
      have : w = w!"la" := by simpa using hw
      subst this
      exact ⟨T2N.C01.C01_es_rejects_of_nan _ (by decide) (by decide) (by decide), by decide⟩)
    (fun w hw => by
      have : w = w!"vez" := by simpa using hw
      subst this
      exact ⟨T2N.C01.C01_es_rejects_of_nan _ (by decide) (by decide) (by decide), by decide⟩)

end T2N.TextCor.Es
