/-
  T2N.Lemmas.TextCor.DecEs — Spanish: text-level corollary of C05 (spoken decimal numbers).
  `replaceText_decimal` (T2N/Lemmas/TextCor/Decimal.lean) instantiated with the Spanish integer-part validator
  (`C01_validate_es_all`) and the Spanish fraction run (`ExtEs.fraction_run`).
-/
import T2N.Lemmas.TextCor.Decimal
import T2N.Lemmas.TextCor.Es
import T2N.Lemmas.ExtEs
import T2N.Props.C01.Text
import T2N.Props.C05

namespace T2N.TextCor.Es
open T2N T2N.Lift T2N.Spec T2N.C01Text T2N.TextCor

/-- every word of a spelled fraction is `cero` or a word of a spelled cardinal: over the alphabet -/
theorem fraction_over (v : Var) (ds : List Nat) : ∀ w ∈ Spec.Es.fraction v ds, isOver w = true := by
  intro w hw
  unfold Spec.Es.fraction at hw
  dsimp only at hw
  rw [List.mem_append] at hw
  rcases hw with hw | hw
  · obtain ⟨_, _, e⟩ := List.mem_map.mp hw
    rw [← e]; decide
  · split at hw
    · cases hw
    · exact C01Text.Es.cardinal_over v _ w hw

/-- C05 (es), text level: every threshold -/
theorem text_c05 {cc : CharClasses} (L : TextLaws cc) (A : AlphaLaws cc) (thr : Nat → Bool)
    (v : Var) (n : Nat) (ds : List Nat) (h : n < 10 ^ 12) (hds : ds ≠ []) (h9 : ∀ d ∈ ds, d < 10)
    (hlen : (ds.dropWhile (· == 0)).length ≤ 12)
    (pre post : List Word) (hpre : ∀ w ∈ pre, Ordinary cc T2N.Es.lang w) (hpost : ∀ w ∈ post, Ordinary cc T2N.Es.lang w) :
    replaceText cc .spanish thr
        (joinWords (pre ++ (Spec.Es.cardinal v n ++ [Spec.Es.sepWord] ++ Spec.Es.fraction v ds) ++ post)) =
      .ok (joinWords (pre ++ [decChars n ++ [Spec.Es.decMark] ++ ds.map digitChar] ++ post)) := by
  have hval := T2N.C01.C01_validate_es_all v n h
  obtain ⟨D, hD, hDne, hDr⟩ := T2N.ExtEs.fraction_run v ds hds h9 hlen
  have hwfne : Spec.Es.fraction v ds ≠ [] := by
    intro e
    rw [e] at hD
    have e2 : D = DS.new := by
      have : (Except.ok DS.new : Except Err DS) = .ok D := hD
      injection this with this
      exact this.symm
    rw [e2] at hDne
    exact absurd hDne (by decide)
  have hover : ∀ w ∈ Spec.Es.cardinal v n ++ [Spec.Es.sepWord] ++ Spec.Es.fraction v ds, isOver w = true := by
    intro w hw
    rw [List.mem_append, List.mem_append] at hw
    rcases hw with (hw | hw) | hw
    · exact C01Text.Es.cardinal_over v n w hw
    · rw [List.mem_singleton.mp hw]; decide
    · exact fraction_over v ds w hw
  exact replaceText_decimal L A .spanish thr (by simp [Language.interp, allLangs]) T2N.C07.C07_langAgree_es
    (Spec.Es.cardinal v n) (Spec.Es.fraction v ds) Spec.Es.sepWord n ds D hval
    (first_none_of_valid _ _ _ hval (fun w _ => C01Sent.Es.first w)) rfl hwfne hD hDne hDr hover
    pre post hpre hpost rfl

/-- explicit classes -/
theorem text_c05_simple (thr : Nat → Bool) (v : Var) (n : Nat) (ds : List Nat) (h : n < 10 ^ 12) (hds : ds ≠ [])
    (h9 : ∀ d ∈ ds, d < 10) (hlen : (ds.dropWhile (· == 0)).length ≤ 12) (pre post : List Word)
    (hpre : ∀ w ∈ pre, Ordinary simpleCC T2N.Es.lang w) (hpost : ∀ w ∈ post, Ordinary simpleCC T2N.Es.lang w) :
    replaceText simpleCC .spanish thr
        (joinWords (pre ++ (Spec.Es.cardinal v n ++ [Spec.Es.sepWord] ++ Spec.Es.fraction v ds) ++ post)) =
      .ok (joinWords (pre ++ [decChars n ++ [Spec.Es.decMark] ++ ds.map digitChar] ++ post)) :=
  text_c05 simple_textLaws simple_alphaLaws thr v n ds h hds h9 hlen pre post hpre hpost

/-- the hypotheses are satisfiable, whatever the threshold (here: everything is "small") -/
example : replaceText simpleCC .spanish (fun _ => true)
    (joinWords ([w!"cuesta"] ++ (Spec.Es.cardinal (fun _ => 0) 3 ++ [Spec.Es.sepWord] ++
      Spec.Es.fraction (fun _ => 0) [0, 7]) ++ [w!"euros"])) =
    .ok (joinWords ([w!"cuesta"] ++ [decChars 3 ++ [','] ++ w!"07"] ++ [w!"euros"])) :=
  text_c05_simple _ _ 3 [0, 7] (by decide) (by decide) (by decide) (by decide) _ _
    (fun w hw => by
      have : w = w!"cuesta" := by simpa using hw
      subst this
      exact ⟨T2N.C01.C01_es_rejects_of_nan _ (by decide) (by decide) (by decide), by decide⟩)
    (fun w hw => by
      have : w = w!"euros" := by simpa using hw
      subst this
      exact ⟨T2N.C01.C01_es_rejects_of_nan _ (by decide) (by decide) (by decide), by decide⟩)

/-- the same kind of sentence as plain strings -/
example : T2N.C01.C01_text_is (replaceText simpleCC .spanish (fun _ => true) "cuesta tres coma cero siete euros".toList)
    "cuesta 3,07 euros" = true := by decide +kernel

end T2N.TextCor.Es
