/-
  T2N.Lemmas.Policy — the lone-number policy at the level of *events*.

  A run of the scanner produces, independently of the threshold, a list of events: one `num o` for every
  call of `Scanner.numberEnd` (with the occurrence it builds) and one `brk` for every call of
  `Tracker.breaker`.  The tracker is a fold over that list (`runTracker`), and what it reports is exactly
  the events selected by the pure predicate `keptAt` (not small, or a number of the same kind directly
  before or directly after in the event list).
-/
import T2N.Model.Scanner
import T2N.Lemmas.Congr
import T2N.Lemmas.Scanner

namespace T2N

/-- what the tracker is told, in order -/
inductive Ev where
  /-- `number_end`: a recognised number with its span, digits, value and kind -/
  | num (o : Occ)
  /-- `sequence_breaker` -/
  | brk
  deriving Repr, DecidableEq, Inhabited

/-- the `forget` flag computed by `Scanner.numberEnd`, as a function of the occurrence -/
def smallEv (cfg : ScanCfg) (o : Occ) : Bool := (utf8Len o.text == 1 || o.isOrdinal) && cfg.small o.value

def kindOf (o : Occ) : Kind := if o.isOrdinal then .ordinal else .cardinal

/-- the (optional) event is a number of the same kind (cardinal / ordinal) as `o` -/
def sameKind (o : Occ) : Option Ev → Bool
  | some (.num p) => p.isOrdinal == o.isOrdinal
  | _ => false

/-- the event before index `i` (`none` at the start) -/
def prevEv (evs : List Ev) (i : Nat) : Option Ev := if i = 0 then none else evs[i - 1]?

/-- **the policy**: event `i` is a number and it is reported ⇔ it is not small, or the previous event
is a number of the same kind, or the next event is a number of the same kind -/
def keptAt (cfg : ScanCfg) (evs : List Ev) (i : Nat) : Bool :=
  match evs[i]? with
  | some (.num o) => !smallEv cfg o || sameKind o (prevEv evs i) || sameKind o evs[i + 1]?
  | _ => false

/-- the occurrence of event `i` if it is a kept number -/
def keptOcc (cfg : ScanCfg) (evs : List Ev) (i : Nat) : Option Occ :=
  match evs[i]? with
  | some (.num o) => if keptAt cfg evs i then some o else none
  | _ => none

/-- the occurrences of the `num` events at the indices where `keptAt` holds, in order -/
def keptList (cfg : ScanCfg) (evs : List Ev) : List Occ :=
  (List.range evs.length).filterMap (keptOcc cfg evs)

/-- the same list by structural recursion (`prev` = the event before the head) -/
def keptGo (cfg : ScanCfg) : Option Ev → List Ev → List Occ
  | _, [] => []
  | _, .brk :: rest => keptGo cfg (some .brk) rest
  | prev, .num o :: rest =>
    (if !smallEv cfg o || sameKind o prev || sameKind o rest.head? then [o] else [])
      ++ keptGo cfg (some (.num o)) rest

/-! ### the tracker as a fold over events -/

/-- one event handed to the real tracker (`Tracker.numberEnd` / `Tracker.breaker`) -/
def Tracker.feed (cfg : ScanCfg) (t : Tracker) : Ev → Tracker
  | .num o => ({ t with mstart := o.start, mend := o.stop }).numberEnd o.isOrdinal o.text o.value (smallEv cfg o)
  | .brk => t.breaker

def runTracker (cfg : ScanCfg) (evs : List Ev) : Tracker := evs.foldl (Tracker.feed cfg) {}

theorem runTracker_snoc (cfg : ScanCfg) (evs : List Ev) (e : Ev) :
    runTracker cfg (evs ++ [e]) = (runTracker cfg evs).feed cfg e := by
  unfold runTracker
  rw [List.foldl_append]
  rfl

theorem feed_num (cfg : ScanCfg) (t : Tracker) (o : Occ) :
    t.feed cfg (.num o) =
      if t.last == kindOf o then
        { queue := t.queue ++ t.onHold.toList ++ [o], onHold := none, last := kindOf o,
          mstart := o.stop, mend := o.stop }
      else if smallEv cfg o then
        { queue := t.queue, onHold := some o, last := kindOf o, mstart := o.stop, mend := o.stop }
      else
        { queue := t.queue ++ [o], onHold := none, last := kindOf o, mstart := o.stop, mend := o.stop } := by
  unfold Tracker.feed Tracker.numberEnd kindOf
  dsimp only
  cases o with
  | mk a b c d e =>
    dsimp only
    by_cases h1 : (t.last == (if e = true then Kind.ordinal else Kind.cardinal)) = true
    · rw [if_pos h1, if_pos h1]
      cases t.onHold <;> rfl
    · rw [if_neg h1, if_neg h1]

theorem feed_brk (cfg : ScanCfg) (t : Tracker) : t.feed cfg .brk = { t with last := .none } := rfl

/-! ### the pure list theorem: `runTracker` reports exactly the kept events -/

/-- the kind remembered after an event -/
def lastKind : Option Ev → Kind
  | some (.num p) => kindOf p
  | _ => .none

theorem kindOf_ne_none (o : Occ) : (Kind.none == kindOf o) = false := by
  unfold kindOf; cases o.isOrdinal <;> rfl

theorem kindOf_beq (p o : Occ) : (kindOf p == kindOf o) = (p.isOrdinal == o.isOrdinal) := by
  unfold kindOf; cases p.isOrdinal <;> cases o.isOrdinal <;> rfl

theorem sameKind_eq_last (o : Occ) (prev : Option Ev) : sameKind o prev = (lastKind prev == kindOf o) := by
  cases prev with
  | none => exact (kindOf_ne_none o).symm
  | some e =>
    cases e with
    | brk => exact (kindOf_ne_none o).symm
    | num p => exact (kindOf_beq p o).symm

/-- accumulated-state invariant: `last` is the kind of the previous event, and a held number is either
stale (`last = none`: a breaker came after it) or it is the previous event (`last` is its kind) -/
def TInv (t : Tracker) (prev : Option Ev) : Prop :=
  t.last = lastKind prev ∧ ∀ p, t.onHold = some p → t.last = .none ∨ t.last = kindOf p

/-- what the held number contributes once the next event is known -/
def pend (t : Tracker) (next : Option Ev) : List Occ :=
  match t.onHold with
  | some p => if t.last == kindOf p && sameKind p next then [p] else []
  | none => []

theorem kind_beq_refl (k : Kind) : (k == k) = true := by cases k <;> rfl

theorem kind_eq_of_beq {a b : Kind} (h : (a == b) = true) : a = b := by
  cases a <;> cases b <;> first | rfl | cases h

theorem run_queue (cfg : ScanCfg) : ∀ (evs : List Ev) (t : Tracker) (prev : Option Ev), TInv t prev →
    (evs.foldl (Tracker.feed cfg) t).queue = t.queue ++ pend t evs.head? ++ keptGo cfg prev evs := by
  intro evs
  induction evs with
  | nil =>
    intro t prev _
    have : pend t none = [] := by
      unfold pend
      cases t.onHold with
      | none => rfl
      | some p => simp only [sameKind, Bool.and_false, Bool.false_eq_true, if_false]
    simp only [List.foldl_nil, List.head?_nil, this, keptGo, List.append_nil]
  | cons e rest ih =>
    intro t prev hinv
    obtain ⟨hlast, hhold⟩ := hinv
    rw [List.foldl_cons]
    cases e with
    | brk =>
      have hinv' : TInv (t.feed cfg .brk) (some .brk) := ⟨rfl, fun _ _ => Or.inl rfl⟩
      rw [ih _ (some .brk) hinv']
      have h1 : pend (t.feed cfg .brk) rest.head? = [] := by
        unfold pend
        rw [feed_brk]
        dsimp only
        cases t.onHold with
        | none => rfl
        | some p => dsimp only; rw [kindOf_ne_none]; rfl
      have h2 : pend t (Ev.brk :: rest).head? = [] := by
        unfold pend
        cases t.onHold with
        | none => rfl
        | some p => simp only [List.head?_cons, sameKind, Bool.and_false, Bool.false_eq_true, if_false]
      rw [h1, h2]
      simp only [keptGo, List.append_nil, feed_brk]
    | num o =>
      rw [List.head?_cons]
      simp only [keptGo]
      rw [sameKind_eq_last o prev, ← hlast]
      by_cases hk : (t.last == kindOf o) = true
      · -- same kind as the previous event: released together with the held one
        have hfeed : t.feed cfg (.num o) =
            { queue := t.queue ++ t.onHold.toList ++ [o], onHold := none, last := kindOf o,
              mstart := o.stop, mend := o.stop } := by rw [feed_num, if_pos hk]
        have hinv' : TInv (t.feed cfg (.num o)) (some (.num o)) := by
          rw [hfeed]; exact ⟨rfl, fun p hp => by cases hp⟩
        have hq : (t.feed cfg (.num o)).queue = t.queue ++ t.onHold.toList ++ [o] := by rw [hfeed]
        have hp1 : pend (t.feed cfg (.num o)) rest.head? = [] := by rw [hfeed]; rfl
        rw [ih _ _ hinv', hq]
        have hp2 : pend t (some (.num o)) = t.onHold.toList := by
          unfold pend
          cases hh : t.onHold with
          | none => rfl
          | some p =>
            dsimp only
            have hlk : t.last = kindOf o := kind_eq_of_beq hk
            have hlp : t.last = kindOf p := by
              cases hhold p hh with
              | inl h0 => rw [h0] at hk; rw [kindOf_ne_none] at hk; cases hk
              | inr h1 => exact h1
            have h3 : (t.last == kindOf p) = true := by rw [hlp]; exact kind_beq_refl _
            have h4 : sameKind p (some (.num o)) = true := by
              show (o.isOrdinal == p.isOrdinal) = true
              rw [← kindOf_beq, ← hlk, hlp]; exact kind_beq_refl _
            rw [h3, h4]; rfl
        rw [hp1, hp2, hk]
        simp only [Bool.or_true, Bool.true_or, if_true, List.append_nil, List.append_assoc]
      · have hk' : (t.last == kindOf o) = false := by
          cases h : (t.last == kindOf o) with
          | true => exact absurd h hk
          | false => rfl
        have hp2 : pend t (some (.num o)) = [] := by
          unfold pend
          cases hh : t.onHold with
          | none => rfl
          | some p =>
            dsimp only
            by_cases h3 : (t.last == kindOf p) = true
            · have h4 : sameKind p (some (.num o)) = false := by
                show (o.isOrdinal == p.isOrdinal) = false
                rw [← kindOf_beq, ← kind_eq_of_beq h3]
                cases h : (kindOf o == t.last) with
                | false => rfl
                | true => rw [kind_eq_of_beq h, kind_beq_refl] at hk'; cases hk'
              rw [h4]; simp only [Bool.and_false, Bool.false_eq_true, if_false]
            · have : (t.last == kindOf p) = false := by
                cases h : (t.last == kindOf p) with
                | true => exact absurd h h3
                | false => rfl
              rw [this]; rfl
        rw [hp2, hk']
        by_cases hs : smallEv cfg o = true
        · -- small, no same-kind predecessor: held; its fate is decided by the next event
          have hfeed : t.feed cfg (.num o) =
              { queue := t.queue, onHold := some o, last := kindOf o, mstart := o.stop, mend := o.stop } := by
            rw [feed_num, if_neg hk, if_pos hs]
          have hinv' : TInv (t.feed cfg (.num o)) (some (.num o)) := by
            rw [hfeed]
            refine ⟨rfl, fun p hp => Or.inr ?_⟩
            cases hp; rfl
          have hq : (t.feed cfg (.num o)).queue = t.queue := by rw [hfeed]
          have hp1 : pend (t.feed cfg (.num o)) rest.head? = if sameKind o rest.head? then [o] else [] := by
            rw [hfeed]
            unfold pend
            dsimp only
            rw [kind_beq_refl, Bool.true_and]
          rw [ih _ _ hinv', hq]
          rw [hp1, hs]
          simp only [Bool.not_true, Bool.false_or, List.append_nil, List.append_assoc]
        · have hs' : smallEv cfg o = false := by
            cases h : smallEv cfg o with
            | true => exact absurd h hs
            | false => rfl
          have hfeed : t.feed cfg (.num o) =
              { queue := t.queue ++ [o], onHold := none, last := kindOf o, mstart := o.stop, mend := o.stop } := by
            rw [feed_num, if_neg hk, if_neg hs]
          have hinv' : TInv (t.feed cfg (.num o)) (some (.num o)) := by
            rw [hfeed]; exact ⟨rfl, fun p hp => by cases hp⟩
          have hq : (t.feed cfg (.num o)).queue = t.queue ++ [o] := by rw [hfeed]
          have hp1 : pend (t.feed cfg (.num o)) rest.head? = [] := by rw [hfeed]; rfl
          rw [ih _ _ hinv', hq]
          rw [hp1, hs']
          simp only [Bool.not_false, Bool.true_or, if_true, List.append_nil, List.append_assoc]

theorem runTracker_queue_go (cfg : ScanCfg) (evs : List Ev) : (runTracker cfg evs).queue = keptGo cfg none evs := by
  unfold runTracker
  rw [run_queue cfg evs {} none ⟨rfl, fun p hp => by cases hp⟩]
  rfl

/-! ### the recursive list is the index-based list -/

theorem keptGo_eq_range (cfg : ScanCfg) : ∀ (suf pre : List Ev),
    keptGo cfg pre.getLast? suf =
      (List.range' pre.length suf.length).filterMap (keptOcc cfg (pre ++ suf)) := by
  intro suf
  induction suf with
  | nil => intro pre; rfl
  | cons e rest ih =>
    intro pre
    have ih' := ih (pre ++ [e])
    rw [List.getLast?_append, List.append_assoc, List.length_append] at ih'
    simp only [List.getLast?_singleton, Option.some_or, List.length_singleton, List.singleton_append] at ih'
    rw [List.length_cons, List.range'_succ, List.filterMap_cons, ← ih']
    have hcur : (pre ++ e :: rest)[pre.length]? = some e := by
      rw [List.getElem?_append_right (Nat.le_refl _), Nat.sub_self]; rfl
    have hprev : prevEv (pre ++ e :: rest) pre.length = pre.getLast? := by
      unfold prevEv
      cases pre with
      | nil => rfl
      | cons x xs =>
        rw [if_neg (by simp)]
        rw [List.getElem?_append_left (by simp), List.getLast?_eq_getElem?]
    have hnext : (pre ++ e :: rest)[pre.length + 1]? = rest.head? := by
      rw [List.getElem?_append_right (Nat.le_succ _)]
      have : pre.length + 1 - pre.length = 1 := by omega
      rw [this, List.head?_eq_getElem?]; rfl
    cases e with
    | brk =>
      have : keptOcc cfg (pre ++ Ev.brk :: rest) pre.length = none := by
        unfold keptOcc; rw [hcur]
      rw [this]
      simp only [keptGo]
    | num o =>
      have : keptOcc cfg (pre ++ Ev.num o :: rest) pre.length =
          if !smallEv cfg o || sameKind o pre.getLast? || sameKind o rest.head? then some o else none := by
        unfold keptOcc keptAt; rw [hcur]; dsimp only; rw [hprev, hnext]
      rw [this]
      simp only [keptGo]
      split <;> rfl

theorem keptGo_eq_keptList (cfg : ScanCfg) (evs : List Ev) : keptGo cfg none evs = keptList cfg evs := by
  have := keptGo_eq_range cfg evs []
  simp only [List.getLast?_nil, List.length_nil, List.nil_append] at this
  rw [this, keptList, List.range_eq_range']

/-- **the policy, as a theorem about lists of events**: feeding the events to the tracker
(`Tracker.numberEnd` for `num`, `Tracker.breaker` for `brk`) leaves in the queue exactly the numbers at
the indices selected by `keptAt` -/
theorem runTracker_queue (cfg : ScanCfg) (evs : List Ev) : (runTracker cfg evs).queue = keptList cfg evs := by
  rw [runTracker_queue_go, keptGo_eq_keptList]

/-! ### the instrumented scanner

`LScanner` is `Scanner` with the tracker's decision state (`queue`, `onHold`, `last`) replaced by the log
of what the tracker was told.  Its functions are copies of those of `Scanner` in which
`tracker.numberEnd …` becomes "append `num occ`" and `tracker.breaker` becomes "append `brk`".  None of
them reads `cfg.thrLt`.  The ordinary scanner state is a function of the instrumented one
(`LScanner.toScanner`: feed the log to the tracker), and the two scanners commute with it. -/

structure LScanner where
  parser : Parser := {}
  previous : Option Tok := none
  mstart : Nat := 0
  mend : Nat := 0
  /-- events so far, oldest first -/
  log : List Ev := []
  deriving Repr, Inhabited

namespace LScanner

/-- the ordinary scanner state: the tracker is the log replayed -/
def toScanner (cfg : ScanCfg) (s : LScanner) : Scanner :=
  { parser := s.parser, previous := s.previous,
    tracker := { runTracker cfg s.log with mstart := s.mstart, mend := s.mend } }

def advanced (s : LScanner) (pos : Nat) : LScanner :=
  { s with mstart := if s.mstart == s.mend then pos else s.mstart, mend := pos + 1 }

def numberEnd (cfg : ScanCfg) (s : LScanner) : Except Fault LScanner :=
  let isOrd := s.parser.isOrdinal
  match s.parser.finish cfg.lang with
  | .error f => .error f
  | .ok (text, value) =>
    .ok { s with parser := {}, mstart := s.mend,
                 log := s.log ++ [.num ⟨s.mstart, s.mend, text, value, isOrd⟩] }

def outside (cfg : ScanCfg) (s : LScanner) (tok : Tok) : LScanner :=
  if !((tok.text.all (fun c => !cfg.cc.isAlphabetic c) && cfg.cc.trim tok.text != ['.'])
        || cfg.lang.isLinking tok.lower) then
    { s with log := s.log ++ [.brk] }
  else s

def testWord (cfg : ScanCfg) (s : LScanner) (tok : Tok) : Word :=
  match s.previous with
  | some prev => if s.parser.hasNumber && cfg.sep tok prev then [','] else tok.lower
  | none => tok.lower

def pushNan (cfg : ScanCfg) (s : LScanner) (tok : Tok) : Except Fault LScanner :=
  match (if s.parser.hasNumber then s.numberEnd cfg else .ok s) with
  | .error f => .error f
  | .ok s1 => .ok { (s1.outside cfg tok) with previous := some tok }

def pushRejected (cfg : ScanCfg) (s : LScanner) (pos : Nat) (tok : Tok) : Except Fault LScanner :=
  if s.parser.hasNumber then
    match s.numberEnd cfg with
    | .error f => .error f
    | .ok s1 =>
      let (r2, p2) := s1.parser.push cfg.lang tok.lower
      let s2 := { s1 with parser := p2 }
      let s3 := if r2.isNone then s2.advanced pos
                else if r2 == some .incomplete then s2 else s2.outside cfg tok
      .ok { s3 with previous := some tok }
  else .ok { (s.outside cfg tok) with previous := some tok }

def push (cfg : ScanCfg) (s : LScanner) (pos : Nat) (tok : Tok) : Except Fault LScanner :=
  if Scanner.isSkipped cfg tok then .ok s
  else if tok.nan then pushNan cfg s tok
  else
    let (r, p') := s.parser.push cfg.lang (testWord cfg s tok)
    let s := { s with parser := p' }
    match r with
    | none => .ok { (s.advanced pos) with previous := some tok }
    | some .incomplete => .ok { s with previous := some tok }
    | some _ => pushRejected cfg s pos tok

def finalize (cfg : ScanCfg) (s : LScanner) : Except Fault LScanner :=
  if s.parser.hasNumber then s.numberEnd cfg else .ok s

def pushAll (cfg : ScanCfg) : LScanner → List (Nat × Tok) → Except Fault LScanner
  | s, [] => .ok s
  | s, (pos, tok) :: rest =>
    match s.push cfg pos tok with
    | .error f => .error f
    | .ok s' => pushAll cfg s' rest

end LScanner

/-- **the event list of a run**: one `num` per call of `Scanner.numberEnd` (with the occurrence it
builds), one `brk` per call of `Tracker.breaker`, in order -/
def events (cfg : ScanCfg) (toks : List Tok) : Except Fault (List Ev) :=
  match LScanner.pushAll cfg {} (enumFrom 0 toks) with
  | .error f => .error f
  | .ok s =>
    match s.finalize cfg with
    | .error f => .error f
    | .ok s' => .ok s'.log

/-! #### the instrumented scanner never reads the threshold -/

theorem LScanner.push_thr (cfg : ScanCfg) (f : Nat → Bool) (s : LScanner) (pos : Nat) (tok : Tok) :
    LScanner.push { cfg with thrLt := f } s pos tok = LScanner.push cfg s pos tok := rfl

theorem LScanner.finalize_thr (cfg : ScanCfg) (f : Nat → Bool) (s : LScanner) :
    LScanner.finalize { cfg with thrLt := f } s = LScanner.finalize cfg s := rfl

theorem LScanner.pushAll_thr (cfg : ScanCfg) (f : Nat → Bool) : ∀ (l : List (Nat × Tok)) (s : LScanner),
    LScanner.pushAll { cfg with thrLt := f } s l = LScanner.pushAll cfg s l
  | [], _ => rfl
  | (pos, tok) :: rest, s => by
    simp only [LScanner.pushAll]
    rw [LScanner.push_thr]
    cases LScanner.push cfg s pos tok with
    | error e => rfl
    | ok s' => exact LScanner.pushAll_thr cfg f rest s'

theorem events_setThr (cfg : ScanCfg) (f : Nat → Bool) (toks : List Tok) :
    events { cfg with thrLt := f } toks = events cfg toks := by
  unfold events
  rw [LScanner.pushAll_thr]
  cases LScanner.pushAll cfg {} (enumFrom 0 toks) with
  | error e => rfl
  | ok s => dsimp only; rw [LScanner.finalize_thr]

/-- **the events do not depend on the threshold** -/
theorem events_thr (c1 c2 : ScanCfg) (hl : c1.lang = c2.lang) (hc : c1.cc = c2.cc) (hs : c1.sep = c2.sep)
    (toks : List Tok) : events c1 toks = events c2 toks := by
  have : c1 = { c2 with thrLt := c1.thrLt } := by
    cases c1; cases c2
    simp only at hl hc hs
    subst hl hc hs
    rfl
  rw [this, events_setThr]

/-! #### simulation: the ordinary scanner is the image of the instrumented one -/

theorem Tracker.numberEnd_marks (t : Tracker) (isOrd : Bool) (text : Word) (v : Value) (forget : Bool) :
    { t.numberEnd isOrd text v forget with mstart := t.mend, mend := t.mend } =
      t.numberEnd isOrd text v forget := by
  unfold Tracker.numberEnd
  dsimp only
  generalize (if isOrd = true then Kind.ordinal else Kind.cardinal) = kind
  by_cases h1 : (t.last == kind) = true
  · rw [if_pos h1]
  · rw [if_neg h1]
    by_cases h2 : forget = true
    · rw [if_pos h2]
    · rw [if_neg h2]

/-- `numberEnd` only looks at the decision state and the marks -/
theorem Tracker.numberEnd_setMarks (t : Tracker) (a b : Nat) (isOrd : Bool) (text : Word) (v : Value)
    (forget : Bool) :
    ({ t with mstart := a, mend := b }).numberEnd isOrd text v forget =
      { ({ t with mstart := a, mend := b }).numberEnd isOrd text v forget with mstart := b, mend := b } :=
  (Tracker.numberEnd_marks _ _ _ _ _).symm

def LScanner.mapS (cfg : ScanCfg) : Except Fault LScanner → Except Fault Scanner
  | .ok s => .ok (s.toScanner cfg)
  | .error f => .error f

theorem LScanner.numberEnd_sim (cfg : ScanCfg) (s : LScanner) :
    (s.toScanner cfg).numberEnd cfg = LScanner.mapS cfg (s.numberEnd cfg) := by
  unfold Scanner.numberEnd LScanner.numberEnd
  have hp : (s.toScanner cfg).parser = s.parser := rfl
  rw [hp]
  cases s.parser.finish cfg.lang with
  | error f => rfl
  | ok r =>
    obtain ⟨text, value⟩ := r
    dsimp only [LScanner.mapS, LScanner.toScanner]
    rw [runTracker_snoc]
    unfold Tracker.feed
    dsimp only
    rw [Tracker.numberEnd_setMarks (runTracker cfg s.log) s.mstart s.mend]
    rfl

theorem LScanner.outside_sim (cfg : ScanCfg) (s : LScanner) (tok : Tok) :
    (s.toScanner cfg).outside cfg tok = (s.outside cfg tok).toScanner cfg := by
  unfold Scanner.outside LScanner.outside
  split
  · dsimp only [LScanner.toScanner]
    rw [runTracker_snoc]
    rfl
  · rfl

theorem LScanner.advanced_sim (cfg : ScanCfg) (s : LScanner) (pos : Nat) :
    { s.toScanner cfg with tracker := (s.toScanner cfg).tracker.advanced pos } = (s.advanced pos).toScanner cfg :=
  rfl

theorem LScanner.setPrev_sim (cfg : ScanCfg) (s : LScanner) (p : Option Tok) :
    { s.toScanner cfg with previous := p } = ({ s with previous := p } : LScanner).toScanner cfg := rfl

theorem LScanner.setParser_sim (cfg : ScanCfg) (s : LScanner) (p : Parser) :
    { s.toScanner cfg with parser := p } = ({ s with parser := p } : LScanner).toScanner cfg := rfl

theorem LScanner.pushNan_sim (cfg : ScanCfg) (s : LScanner) (tok : Tok) :
    Scanner.pushNan cfg (s.toScanner cfg) tok = LScanner.mapS cfg (LScanner.pushNan cfg s tok) := by
  unfold Scanner.pushNan LScanner.pushNan
  have hp : (s.toScanner cfg).parser = s.parser := rfl
  rw [hp]
  by_cases hn : s.parser.hasNumber = true
  · rw [if_pos hn, if_pos hn, LScanner.numberEnd_sim]
    cases s.numberEnd cfg with
    | error f => rfl
    | ok s1 =>
      dsimp only [LScanner.mapS]
      rw [LScanner.outside_sim, LScanner.setPrev_sim]
  · rw [if_neg hn, if_neg hn]
    dsimp only [LScanner.mapS]
    rw [LScanner.outside_sim, LScanner.setPrev_sim]

theorem LScanner.pushRejected_sim (cfg : ScanCfg) (s : LScanner) (pos : Nat) (tok : Tok) :
    Scanner.pushRejected cfg (s.toScanner cfg) pos tok =
      LScanner.mapS cfg (LScanner.pushRejected cfg s pos tok) := by
  unfold Scanner.pushRejected LScanner.pushRejected
  have hp : (s.toScanner cfg).parser = s.parser := rfl
  rw [hp]
  by_cases hn : s.parser.hasNumber = true
  · rw [if_pos hn, if_pos hn, LScanner.numberEnd_sim]
    cases s.numberEnd cfg with
    | error f => rfl
    | ok s1 =>
      dsimp only [LScanner.mapS]
      have hp1 : (s1.toScanner cfg).parser = s1.parser := rfl
      rw [hp1]
      have ho := LScanner.outside_sim cfg
        ({ s1 with parser := (s1.parser.push cfg.lang tok.lower).2 } : LScanner) tok
      cases hr : (s1.parser.push cfg.lang tok.lower).1.isNone with
      | true => rfl
      | false =>
        cases hi : ((s1.parser.push cfg.lang tok.lower).1 == some Err.incomplete) with
        | true => rfl
        | false => exact congrArg (fun z : Scanner => Except.ok { z with previous := some tok }) ho
  · rw [if_neg hn, if_neg hn]
    dsimp only [LScanner.mapS]
    rw [LScanner.outside_sim, LScanner.setPrev_sim]

theorem LScanner.push_sim (cfg : ScanCfg) (s : LScanner) (pos : Nat) (tok : Tok) :
    Scanner.push cfg (s.toScanner cfg) pos tok = LScanner.mapS cfg (LScanner.push cfg s pos tok) := by
  unfold Scanner.push LScanner.push
  by_cases hsk : Scanner.isSkipped cfg tok = true
  · rw [if_pos hsk, if_pos hsk]; rfl
  rw [if_neg hsk, if_neg hsk]
  by_cases hnan : tok.nan = true
  · rw [if_pos hnan, if_pos hnan]; exact LScanner.pushNan_sim cfg s tok
  rw [if_neg hnan, if_neg hnan]
  have hp : (s.toScanner cfg).parser = s.parser := rfl
  have htw : Scanner.testWord cfg (s.toScanner cfg) tok = LScanner.testWord cfg s tok := rfl
  rw [hp, htw]
  dsimp only
  cases hr : (s.parser.push cfg.lang (LScanner.testWord cfg s tok)).1 with
  | none => rfl
  | some e =>
    cases e with
    | incomplete => rfl
    | overlap => exact LScanner.pushRejected_sim cfg ({ s with parser := (s.parser.push cfg.lang (LScanner.testWord cfg s tok)).2 } : LScanner) pos tok
    | nan => exact LScanner.pushRejected_sim cfg ({ s with parser := (s.parser.push cfg.lang (LScanner.testWord cfg s tok)).2 } : LScanner) pos tok
    | frozen => exact LScanner.pushRejected_sim cfg ({ s with parser := (s.parser.push cfg.lang (LScanner.testWord cfg s tok)).2 } : LScanner) pos tok

theorem LScanner.finalize_sim (cfg : ScanCfg) (s : LScanner) :
    (s.toScanner cfg).finalize cfg = LScanner.mapS cfg (s.finalize cfg) := by
  unfold Scanner.finalize LScanner.finalize
  have hp : (s.toScanner cfg).parser = s.parser := rfl
  rw [hp]
  by_cases hn : s.parser.hasNumber = true
  · rw [if_pos hn, if_pos hn]; exact LScanner.numberEnd_sim cfg s
  · rw [if_neg hn, if_neg hn]; rfl

theorem LScanner.pushAll_sim (cfg : ScanCfg) : ∀ (l : List (Nat × Tok)) (s : LScanner),
    Scanner.pushAll cfg (s.toScanner cfg) l = LScanner.mapS cfg (LScanner.pushAll cfg s l)
  | [], _ => rfl
  | (pos, tok) :: rest, s => by
    simp only [Scanner.pushAll, LScanner.pushAll]
    rw [LScanner.push_sim]
    cases LScanner.push cfg s pos tok with
    | error f => rfl
    | ok s' => exact LScanner.pushAll_sim cfg rest s'

theorem LScanner.toScanner_init (cfg : ScanCfg) : ({} : LScanner).toScanner cfg = {} := rfl

/-- **`findNumbers` = tracker ∘ events** -/
theorem findNumbers_eq_runTracker (cfg : ScanCfg) (toks : List Tok) :
    findNumbers cfg toks =
      (match events cfg toks with
       | .ok evs => .ok (runTracker cfg evs).queue
       | .error f => .error f) := by
  unfold findNumbers events
  rw [← LScanner.toScanner_init cfg, LScanner.pushAll_sim]
  cases LScanner.pushAll cfg {} (enumFrom 0 toks) with
  | error f => rfl
  | ok s =>
    dsimp only [LScanner.mapS]
    rw [LScanner.finalize_sim]
    cases s.finalize cfg with
    | error f => rfl
    | ok s' => rfl

/-- the policy, end to end: what `findNumbers` reports is the kept-filter of the event list -/
theorem findNumbers_eq_kept (cfg : ScanCfg) (toks : List Tok) (evs : List Ev) (h : events cfg toks = .ok evs) :
    findNumbers cfg toks = .ok (keptList cfg evs) := by
  rw [findNumbers_eq_runTracker, h]
  dsimp only
  rw [runTracker_queue]

/-- a `brk` is logged exactly for the tokens that `breaks` (Congr.lean) selects -/
theorem LScanner.outside_eq (cfg : ScanCfg) (s : LScanner) (tok : Tok) :
    s.outside cfg tok = if breaks cfg tok then { s with log := s.log ++ [.brk] } else s := by
  unfold LScanner.outside breaks; rfl

/-- every run has an event list (the scanner never faults) -/
theorem events_ok (cfg : ScanCfg) (toks : List Tok) : ∃ evs, events cfg toks = .ok evs := by
  obtain ⟨occs, h, _⟩ := findNumbers_ok cfg toks
  rw [findNumbers_eq_runTracker] at h
  cases he : events cfg toks with
  | ok evs => exact ⟨evs, rfl⟩
  | error f => rw [he] at h; cases h

/-! ### consequences of the policy (pure facts about `keptAt` / `keptList`) -/

theorem keptAt_num {cfg : ScanCfg} {evs : List Ev} {i : Nat} {o : Occ} (h : evs[i]? = some (.num o)) :
    keptAt cfg evs i = (!smallEv cfg o || sameKind o (prevEv evs i) || sameKind o evs[i + 1]?) := by
  unfold keptAt; rw [h]

theorem keptOcc_eq_some (cfg : ScanCfg) (evs : List Ev) (i : Nat) (o : Occ) :
    keptOcc cfg evs i = some o ↔ evs[i]? = some (.num o) ∧ keptAt cfg evs i = true := by
  unfold keptOcc
  cases h : evs[i]? with
  | none => simp
  | some e =>
    cases e with
    | brk => simp
    | num p =>
      dsimp only
      by_cases hk : keptAt cfg evs i = true
      · rw [if_pos hk]; simp [hk]
      · rw [if_neg hk]; simp [hk]

/-- membership form: the reported occurrences are exactly the `num` events at kept indices -/
theorem mem_keptList (cfg : ScanCfg) (evs : List Ev) (o : Occ) :
    o ∈ keptList cfg evs ↔ ∃ i, evs[i]? = some (.num o) ∧ keptAt cfg evs i = true := by
  unfold keptList
  rw [List.mem_filterMap]
  constructor
  · rintro ⟨i, _, h⟩
    exact ⟨i, (keptOcc_eq_some cfg evs i o).1 h⟩
  · rintro ⟨i, h1, h2⟩
    refine ⟨i, ?_, (keptOcc_eq_some cfg evs i o).2 ⟨h1, h2⟩⟩
    rw [List.mem_range]
    cases hlt : decide (i < evs.length) with
    | true => exact of_decide_eq_true hlt
    | false =>
      have : evs.length ≤ i := Nat.le_of_not_lt (of_decide_eq_false hlt)
      rw [List.getElem?_eq_none this] at h1; cases h1

/-- a number is left in words ⇔ it is small and isolated -/
theorem keptAt_false_iff {cfg : ScanCfg} {evs : List Ev} {i : Nat} {o : Occ} (h : evs[i]? = some (.num o)) :
    keptAt cfg evs i = false ↔
      smallEv cfg o = true ∧ sameKind o (prevEv evs i) = false ∧ sameKind o evs[i + 1]? = false := by
  rw [keptAt_num h]
  cases smallEv cfg o <;> cases sameKind o (prevEv evs i) <;> cases sameKind o evs[i + 1]? <;> simp

theorem keptAt_of_not_small {cfg : ScanCfg} {evs : List Ev} {i : Nat} {o : Occ} (h : evs[i]? = some (.num o))
    (hs : smallEv cfg o = false) : keptAt cfg evs i = true := by
  rw [keptAt_num h, hs]; rfl

theorem prevEv_succ (evs : List Ev) (i : Nat) : prevEv evs (i + 1) = evs[i]? := by
  unfold prevEv
  rw [if_neg (Nat.succ_ne_zero i)]
  rfl

/-- two numbers of the same kind with no breaker between them are both kept, at every threshold -/
theorem keptAt_pair {cfg : ScanCfg} {evs : List Ev} {i : Nat} {a b : Occ} (ha : evs[i]? = some (.num a))
    (hb : evs[i + 1]? = some (.num b)) (hk : a.isOrdinal = b.isOrdinal) :
    keptAt cfg evs i = true ∧ keptAt cfg evs (i + 1) = true := by
  constructor
  · rw [keptAt_num ha, hb]
    have : sameKind a (some (.num b)) = true := by simp [sameKind, hk]
    rw [this]; simp
  · rw [keptAt_num hb, prevEv_succ, ha]
    have : sameKind b (some (.num a)) = true := by simp [sameKind, hk]
    rw [this]; simp

theorem smallEv_false_of_thr (cfg : ScanCfg) (h : ∀ n, cfg.thrLt n = false) (o : Occ) : smallEv cfg o = false := by
  unfold smallEv
  have : cfg.small o.value = false := by
    unfold ScanCfg.small
    cases o.value with
    | dec i f => cases f with
      | nil => exact h _
      | cons x xs => rfl
    | recip i => rfl
  rw [this, Bool.and_false]

/-- all the recognised numbers, in order -/
def nums : List Ev → List Occ
  | [] => []
  | .num o :: rest => o :: nums rest
  | .brk :: rest => nums rest

theorem keptGo_sublist (cfg : ScanCfg) : ∀ (evs : List Ev) (prev : Option Ev), (keptGo cfg prev evs).Sublist (nums evs)
  | [], _ => List.Sublist.refl _
  | .brk :: rest, _ => by simp only [keptGo, nums]; exact keptGo_sublist cfg rest _
  | .num o :: rest, prev => by
    simp only [keptGo, nums]
    split
    · exact (keptGo_sublist cfg rest _).cons_cons o
    · exact (keptGo_sublist cfg rest _).cons o

/-- at every threshold what is reported is a sub-list of the recognised numbers -/
theorem keptList_sublist (cfg : ScanCfg) (evs : List Ev) : (keptList cfg evs).Sublist (nums evs) := by
  rw [← keptGo_eq_keptList]; exact keptGo_sublist cfg evs none

theorem keptGo_all (cfg : ScanCfg) (h : ∀ o, smallEv cfg o = false) :
    ∀ (evs : List Ev) (prev : Option Ev), keptGo cfg prev evs = nums evs
  | [], _ => rfl
  | .brk :: rest, _ => by simp only [keptGo, nums]; exact keptGo_all cfg h rest _
  | .num o :: rest, prev => by
    simp only [keptGo, nums, h o, Bool.not_false, Bool.true_or, if_true]
    rw [keptGo_all cfg h rest _]; rfl

/-- with a threshold nothing is below, every recognised number is reported -/
theorem keptList_all (cfg : ScanCfg) (h : ∀ n, cfg.thrLt n = false) (evs : List Ev) :
    keptList cfg evs = nums evs := by
  rw [← keptGo_eq_keptList]; exact keptGo_all cfg (smallEv_false_of_thr cfg h) evs none

end T2N
